(* C17: the model side. kstep on a well-formed server store acts on the view coll_view
   exactly as vstep and answers as vout_ok prescribes, for every operation. *)
From Coq Require Import ZArith List String Bool Ascii Permutation Lia.
From Verif Require Import Value Catalog C17Base.
Import ListNotations.
Open Scope string_scope.
Open Scope list_scope.

(* ------------------------------------------------------------------ collection stores *)
(* documents are only ever stored through an insert, and indexes only through create_index;
   both mark the store as created: a store that holds documents or indexes is marked *)
Definition cs_ok (x : cstore) : bool :=
  match cs_docs x, cs_idx x with [], [] => true | _, _ => cs_forced x end.

Lemma cs_ok_forced d i : cs_ok (mkCS d i true) = true.
Proof. destruct d, i; reflexivity. Qed.

Lemma ok_created_forced x : cs_ok x = true -> cs_created x = true -> cs_forced x = true.
Proof. destruct x as [[|z d] [|i ix] [|]]; cbv; intros H1 H2; congruence. Qed.

Lemma cview_None x : cview x = None <-> cs_created x = false.
Proof. unfold cview. destruct (cs_created x); split; congruence. Qed.

Lemma cview_Some x : cview x <> None <-> cs_created x = true.
Proof. unfold cview. destruct (cs_created x); split; congruence. Qed.

Lemma not_created x : cs_created x = false -> cs_docs x = [] /\ cs_idx x = [] /\ cs_forced x = false.
Proof. destruct x as [[|z d] [|i ix] f]; simpl; intros H; try discriminate. auto. Qed.

(* ------------------------------------------------------------------ store accessors *)
Lemma get_coll_touch d c c' : get_coll (touch_coll d c) c' = get_coll d c'.
Proof.
  unfold touch_coll. destruct (assoc c d) eqn:E; [reflexivity|].
  rewrite (set_key_absent _ cs_empty _ E). unfold get_coll. rewrite assoc_set_key.
  destruct (c' =? c) eqn:E2; [|reflexivity].
  apply String.eqb_eq in E2; subst c'. rewrite E. reflexivity.
Qed.

Lemma get_coll_put d c x c' : get_coll (put_coll d c x) c' = if c' =? c then x else get_coll d c'.
Proof. unfold get_coll, put_coll. rewrite assoc_set_key. destruct (c' =? c); reflexivity. Qed.

Lemma get_coll_del d c c' :
  NoDup (keys d) -> get_coll (del_key c d) c' = if c' =? c then cs_empty else get_coll d c'.
Proof. intros H. unfold get_coll. rewrite assoc_del_key by assumption. destruct (c' =? c); reflexivity. Qed.

Lemma NoDup_touch d c : NoDup (keys d) -> NoDup (keys (touch_coll d c)).
Proof.
  intros H. unfold touch_coll. destruct (assoc c d) eqn:E; [assumption|].
  rewrite (set_key_absent _ cs_empty _ E). apply NoDup_set_key. assumption.
Qed.

Lemma NoDup_put d c x : NoDup (keys d) -> NoDup (keys (put_coll d c x)).
Proof. apply NoDup_set_key. Qed.

Lemma get_db_put (s : sstore) db d db' : get_db (put_db s db d) db' = if db' =? db then d else get_db s db'.
Proof. exact (gget_set_key s db d db'). Qed.

Lemma get_db_assoc (s : sstore) db d : assoc db s = Some d -> get_db s db = d.
Proof. intros E. unfold get_db. rewrite E. reflexivity. Qed.

Lemma get_coll_assoc d c x : assoc c d = Some x -> get_coll d c = x.
Proof. intros E. unfold get_coll. rewrite E. reflexivity. Qed.

Lemma get_coll_created d c : cs_created (get_coll d c) = true -> assoc c d = Some (get_coll d c).
Proof. unfold get_coll. destruct (assoc c d); [reflexivity|discriminate]. Qed.

(* ------------------------------------------------------------------ well-formed stores *)
Definition WFS (s : sstore) : Prop :=
  WF2 s /\ forall db c, cs_ok (get_coll (get_db s db) c) = true.

(* the decidable formulation used in the statements: no key occurs twice (in the server store
   and in every database store), and every collection store that holds documents
   or indexes is marked created (cs_ok) *)
Definition wf_s (s : sstore) : bool :=
  wf2b s && forallb (fun kd : string * dstore => forallb (fun kc : string * cstore => cs_ok (snd kc)) (snd kd)) s.

Lemma wf_s_WFS s : wf_s s = true <-> WFS s.
Proof.
  unfold wf_s, WFS. rewrite andb_true_iff, wf2b_WF2, forallb_forall. split.
  - intros [HW Hall]. split; [assumption|]. intros db c. unfold get_db.
    destruct (assoc db s) as [d|] eqn:E; [|reflexivity].
    pose proof (Hall (db, d) (assoc_In _ _ _ E)) as Hd. simpl in Hd. rewrite forallb_forall in Hd.
    unfold get_coll. destruct (assoc c d) as [x|] eqn:E2; [|reflexivity].
    exact (Hd (c, x) (assoc_In _ _ _ E2)).
  - intros [HW Hok]. split; [assumption|]. intros [k d] Hin. simpl. apply forallb_forall.
    intros [c x] Hin2. simpl.
    pose proof (get_db_assoc _ _ _ (In_assoc _ _ _ (proj1 HW) Hin)) as Hg.
    pose proof (proj2 HW k) as Hd. change (gget s k) with (get_db s k) in Hd. rewrite Hg in Hd.
    specialize (Hok k c). rewrite Hg, (get_coll_assoc _ _ _ (In_assoc _ _ _ Hd Hin2)) in Hok. exact Hok.
Qed.

Lemma WFS_nil : WFS [].
Proof. split; [apply WF2_nil|]. intros db c. reflexivity. Qed.

Lemma WFS_db s db : WFS s -> NoDup (keys (get_db s db)).
Proof. intros [[_ H] _]. exact (H db). Qed.

Lemma put_db_char s db d' :
  WFS s -> NoDup (keys d') -> (forall c', cs_ok (get_coll d' c') = true) ->
  WFS (put_db s db d') /\
  forall db' c', coll_view (put_db s db d') db' c'
                 = if db' =? db then cview (get_coll d' c') else coll_view s db' c'.
Proof.
  intros [HW Hok] Hd Hok'. split; [split|].
  - apply WF2_set_key; assumption.
  - intros db' c'. rewrite get_db_put. destruct (db' =? db); [apply Hok'|apply Hok].
  - intros db' c'. unfold coll_view. rewrite get_db_put. destruct (db' =? db); reflexivity.
Qed.

(* re-storing a database whose collections read the same changes nothing observable *)
Lemma put_db_same s db d' :
  WFS s -> NoDup (keys d') -> (forall c', get_coll d' c' = get_coll (get_db s db) c') ->
  WFS (put_db s db d') /\ veq (coll_view (put_db s db d')) (coll_view s).
Proof.
  intros HW Hd Hsame.
  destruct (put_db_char s db d' HW Hd) as [HW' Hv].
  { intros c'. rewrite Hsame. apply (proj2 HW). }
  split; [assumption|]. intros db' c'. rewrite Hv.
  destruct (db' =? db) eqn:E; [|reflexivity].
  apply String.eqb_eq in E; subst db'. rewrite Hsame. reflexivity.
Qed.

Lemma get_with_coll s db c f :
  get_coll (get_db (with_coll s db c f) db) c = f (get_coll (get_db s db) c).
Proof.
  unfold with_coll. rewrite get_db_put, String.eqb_refl, get_coll_put, String.eqb_refl, get_coll_touch.
  reflexivity.
Qed.

Lemma with_coll_char s db c f :
  WFS s -> cs_ok (f (get_coll (get_db s db) c)) = true ->
  WFS (with_coll s db c f) /\
  veq (coll_view (with_coll s db c f)) (vupd (coll_view s) db c (cview (f (get_coll (get_db s db) c)))).
Proof.
  intros HW Hok. unfold with_coll.
  set (d := touch_coll (get_db s db) c).
  destruct (put_db_char s db (put_coll d c (f (get_coll d c))) HW) as [HW' Hv].
  - apply NoDup_put, NoDup_touch, WFS_db, HW.
  - intros c'. rewrite get_coll_put. unfold d. rewrite !get_coll_touch.
    destruct (c' =? c); [assumption|apply (proj2 HW)].
  - split; [assumption|]. intros db' c'. rewrite Hv. unfold vupd.
    destruct (db' =? db) eqn:E; simpl; [|reflexivity].
    apply String.eqb_eq in E; subst db'. rewrite get_coll_put. unfold d. rewrite !get_coll_touch.
    destruct (c' =? c); reflexivity.
Qed.

Lemma vupd_same (v : view) db c x : v db c = x -> veq (vupd v db c x) v.
Proof.
  intros H db' c'. unfold vupd. destruct (db' =? db) eqn:E1; simpl; [|reflexivity].
  destruct (c' =? c) eqn:E2; [|reflexivity].
  apply String.eqb_eq in E1, E2; subst. reflexivity.
Qed.

(* ------------------------------------------------------------------ listings *)
Lemma In_created_colls d n :
  NoDup (keys d) -> (In n (created_colls d) <-> cs_created (get_coll d n) = true).
Proof.
  intros Hd. unfold created_colls. rewrite in_map_iff. split.
  - intros [[k x] [Hk Hin]]. simpl in Hk; subst k. apply filter_In in Hin. destruct Hin as [Hin Hc].
    rewrite (get_coll_assoc _ _ _ (In_assoc _ _ _ Hd Hin)). exact Hc.
  - intros Hc. exists (n, get_coll d n). split; [reflexivity|]. apply filter_In.
    split; [|exact Hc]. apply assoc_In. apply get_coll_created. exact Hc.
Qed.

Lemma NoDup_created_colls d : NoDup (keys d) -> NoDup (created_colls d).
Proof. intros H. apply (NoDup_keys_filter _ d H). Qed.

Lemma model_list_colls s db :
  WFS s ->
  let l := List.filter (fun n => negb (is_system n)) (created_colls (get_db s db)) in
  NoDup l /\ forall n, In n l <-> (is_system n = false /\ coll_view s db n <> None).
Proof.
  intros HW l. pose proof (WFS_db s db HW) as Hd. split.
  - apply NoDup_filter_str, NoDup_created_colls, Hd.
  - intros n. unfold l, coll_view. rewrite filter_In, negb_true_iff, In_created_colls, cview_Some by assumption.
    tauto.
Qed.

Lemma db_created_iff d :
  NoDup (keys d) -> (db_created d = true <-> exists c, cs_created (get_coll d c) = true).
Proof.
  intros Hd. unfold db_created. rewrite existsb_exists. split.
  - intros [[c x] [Hin Hc]]. exists c. rewrite (get_coll_assoc _ _ _ (In_assoc _ _ _ Hd Hin)). exact Hc.
  - intros [c Hc]. exists (c, get_coll d c). split; [|exact Hc].
    apply assoc_In, get_coll_created, Hc.
Qed.

Lemma model_list_dbs (s : sstore) :
  WFS s ->
  let l := map fst (List.filter (fun kd : string * dstore => db_created (snd kd)) s) in
  NoDup l /\ forall n, In n l <-> exists c, coll_view s n c <> None.
Proof.
  intros HW l. split.
  - apply (NoDup_keys_filter _ s (proj1 (proj1 HW))).
  - intros n. unfold l. rewrite in_map_iff. split.
    + intros [[k d] [Hk Hin]]. simpl in Hk; subst k. apply filter_In in Hin. destruct Hin as [Hin Hc].
      simpl in Hc. pose proof (get_db_assoc _ _ _ (In_assoc _ _ _ (proj1 (proj1 HW)) Hin)) as Hg.
      pose proof (WFS_db s n HW) as Hd. rewrite Hg in Hd.
      apply (db_created_iff d Hd) in Hc. destruct Hc as [c Hc]. exists c.
      unfold coll_view. rewrite Hg. apply cview_Some. exact Hc.
    + intros [c Hc]. unfold coll_view in Hc. apply cview_Some in Hc.
      unfold get_db in Hc. destruct (assoc n s) as [d|] eqn:E; [|discriminate].
      exists (n, d). split; [reflexivity|]. apply filter_In. split; [exact (assoc_In _ _ _ E)|].
      simpl. pose proof (WFS_db s n HW) as Hd. rewrite (get_db_assoc _ _ _ E) in Hd.
      apply (db_created_iff d Hd). exists c. exact Hc.
Qed.

(* drop_database resets every created collection *)
Definition reset_kc (kc : string * cstore) : string * cstore :=
  if cs_created (snd kc) then (fst kc, cs_empty) else kc.

Lemma get_coll_reset d c :
  get_coll (map reset_kc d) c = if cs_created (get_coll d c) then cs_empty else get_coll d c.
Proof.
  unfold get_coll. induction d as [|[k x] d IH]; simpl; [reflexivity|].
  unfold reset_kc at 1. simpl. destruct (cs_created x) eqn:Ex; simpl; destruct (c =? k); try exact IH;
    rewrite Ex; reflexivity.
Qed.

Lemma keys_reset d : keys (map reset_kc d) = keys d.
Proof.
  unfold keys. rewrite map_map. apply map_ext. intros [k x]. unfold reset_kc. simpl.
  destruct (cs_created x); reflexivity.
Qed.

(* ------------------------------------------------------------------ the step *)
Lemma with_coll_char' s db c f x :
  WFS s -> x = get_coll (get_db s db) c -> cs_ok (f x) = true ->
  WFS (with_coll s db c f) /\
  veq (coll_view (with_coll s db c f)) (vupd (coll_view s) db c (cview (f x))).
Proof. intros HW -> Hok. apply with_coll_char; assumption. Qed.

Lemma cs_created_forced d i : cs_created (mkCS d i true) = true.
Proof. destruct d, i; reflexivity. Qed.

Lemma created_colls_mem s db c :
  WFS s ->
  mem_str c (List.filter (fun n => negb (is_system n)) (created_colls (get_db s db)))
  = negb (is_system c) && cs_created (get_coll (get_db s db) c).
Proof.
  intros HW. apply eq_true_iff_eq.
  rewrite mem_str_In, filter_In, andb_true_iff, (In_created_colls _ _ (WFS_db s db HW)). tauto.
Qed.

Lemma cidx_view x name :
  cview (mkCS (cs_docs x) (if mem_str name (cs_idx x) then cs_idx x else cs_idx x ++ [name]) true)
  = match cview x with
    | Some (ids, ix) => Some (ids, if mem_str name ix then ix else ix ++ [name])
    | None => Some ([], [name])
    end.
Proof.
  unfold cview at 1. rewrite cs_created_forced. cbn [cs_docs cs_idx].
  unfold cview. destruct (cs_created x) eqn:E; [reflexivity|].
  apply not_created in E. destruct E as [-> [-> _]]. reflexivity.
Qed.

(* dropping indexes of an existing (hence marked) collection keeps it *)
Lemma cdrop_view x ix' :
  cs_ok x = true -> cs_created x = true ->
  cview (mkCS (cs_docs x) ix' (cs_forced x)) = Some (cs_docs x, ix').
Proof.
  intros Hok Hc. rewrite (ok_created_forced x Hok Hc). unfold cview. rewrite cs_created_forced.
  reflexivity.
Qed.

Lemma mem_idx_created x name : mem_str name (cs_idx x) = true -> cs_created x = true.
Proof. destruct x as [[|z d] [|i ix] f]; simpl; intros H; try reflexivity. discriminate H. Qed.

Lemma cdel_view x :
  cs_ok x = true ->
  cview (mkCS [] (cs_idx x) (cs_forced x))
  = match cview x with Some (_, ix) => Some ([], ix) | None => None end.
Proof. destruct x as [[|z d] [|i ix] [|]]; intros H; try reflexivity; discriminate H. Qed.

(* the database store after a successful rename *)
Definition rename_d3 (d : dstore) (c n : string) : dstore :=
  let d1 := touch_coll (touch_coll d c) n in
  let d2 := if cs_created (get_coll d n) then put_coll d1 n cs_empty else d1 in
  put_coll (del_key c d2) n (get_coll d2 c).

Lemma kstep_rename s db c n dt :
  valid_name n = true ->
  kstep s (KRename db c n dt) =
  let d := get_db s db in
  if negb (cs_created (get_coll d c)) then (put_db s db (touch_coll d c), Err EOpFail) else
  if c =? n then (put_db s db (touch_coll d c), Err EOpFail) else
  if cs_created (get_coll d n) && negb dt
  then (put_db s db (touch_coll (touch_coll d c) n), Err EOpFail)
  else (put_db s db (rename_d3 d c n), Ok VNull).
Proof.
  intros Hn. cbn [kstep]. rewrite Hn. cbn [negb]. unfold rename_d3. rewrite !get_coll_touch.
  reflexivity.
Qed.

Lemma rename_d3_char (d : dstore) (c n : string) :
  NoDup (keys d) -> String.eqb c n = false ->
  NoDup (keys (rename_d3 d c n)) /\
  forall c', get_coll (rename_d3 d c n) c'
             = if c' =? n then get_coll d c else if c' =? c then cs_empty else get_coll d c'.
Proof.
  intros Hd Hcn. unfold rename_d3.
  set (d1 := touch_coll (touch_coll d c) n).
  assert (Hd1 : NoDup (keys d1)) by (apply NoDup_touch, NoDup_touch, Hd).
  assert (Hg1 : forall c', get_coll d1 c' = get_coll d c').
  { intros c'. unfold d1. rewrite !get_coll_touch. reflexivity. }
  set (d2 := if cs_created (get_coll d n) then put_coll d1 n cs_empty else d1).
  assert (Hd2 : NoDup (keys d2)).
  { unfold d2. destruct (cs_created (get_coll d n)); [apply NoDup_put|]; exact Hd1. }
  assert (Hg2 : forall c', (c' =? n) = false -> get_coll d2 c' = get_coll d c').
  { intros c' Hc'. unfold d2. destruct (cs_created (get_coll d n)); [rewrite get_coll_put, Hc'|]; apply Hg1. }
  split.
  - apply NoDup_put, NoDup_del_key, Hd2.
  - intros c'. rewrite get_coll_put. destruct (c' =? n) eqn:E1; [apply Hg2; exact Hcn|].
    rewrite get_coll_del by exact Hd2. destruct (c' =? c); [reflexivity|]. apply Hg2. exact E1.
Qed.

Ltac csplit x := destruct x as [[|?z ?docs] [|?i ?idx] [|]].
Ltac vfin := first [apply veq_refl | apply vupd_same; assumption].

Lemma kstep_char_rename s db c new_name drop_target :
  let o := KRename db c new_name drop_target in
  WFS s ->
  WFS (fst (kstep s o)) /\
  veq (coll_view (fst (kstep s o))) (vstep (coll_view s) o) /\
  vout_ok (coll_view s) o (snd (kstep s o)).
Proof.
  intros o HW. unfold o in *. clear o. pose proof (veq_refl (coll_view s)) as Hrefl.
  cbn [vstep vout_ok vout].
    destruct (valid_name new_name) eqn:Hn; [|cbn [kstep]; rewrite Hn; cbn [negb fst snd]; auto].
    rewrite (kstep_rename _ _ _ _ _ Hn). cbn zeta. cbn [negb].
    pose proof (WFS_db s db HW) as Hd.
    assert (Hx : coll_view s db c = cview (get_coll (get_db s db) c)) by reflexivity.
    assert (Hy : coll_view s db new_name = cview (get_coll (get_db s db) new_name)) by reflexivity.
    rewrite Hx, Hy. unfold cview.
    destruct (cs_created (get_coll (get_db s db) c)) eqn:Ex; cbn [negb fst snd].
    2:{ destruct (put_db_same s db (touch_coll (get_db s db) c) HW) as [HW' Hv].
        - apply NoDup_touch, Hd.
        - intros c'. apply get_coll_touch.
        - split; [exact HW'|]. split; [exact Hv|reflexivity]. }
    destruct (c =? new_name) eqn:Hcn; cbn [fst snd].
    { destruct (put_db_same s db (touch_coll (get_db s db) c) HW) as [HW' Hv].
      - apply NoDup_touch, Hd.
      - intros c'. apply get_coll_touch.
      - split; [exact HW'|]. split; [exact Hv|reflexivity]. }
    unfold cview. destruct (cs_created (get_coll (get_db s db) new_name)) eqn:Ey;
      destruct drop_target eqn:Edt; cbn [negb andb fst snd].
    2:{ destruct (put_db_same s db (touch_coll (touch_coll (get_db s db) c) new_name) HW) as [HW' Hv].
        - apply NoDup_touch, NoDup_touch, Hd.
        - intros c'. rewrite !get_coll_touch. reflexivity.
        - split; [exact HW'|]. split; [exact Hv|reflexivity]. }
    all: destruct (rename_d3_char (get_db s db) c new_name Hd Hcn) as [Hd3 Hg3].
    all: destruct (put_db_char s db (rename_d3 (get_db s db) c new_name) HW Hd3) as [HW' Hv];
      [intros c'; rewrite Hg3; destruct (c' =? new_name); [apply (proj2 HW)|];
       destruct (c' =? c); [reflexivity|apply (proj2 HW)]|].
    all: split; [exact HW'|]; split; [|reflexivity].
    all: intros db' c'; rewrite Hv, Hg3; unfold vupd.
    all: destruct (db' =? db) eqn:E1; simpl; [|reflexivity].
    all: apply String.eqb_eq in E1; subst db'.
    all: destruct (c' =? new_name); [unfold cview; rewrite Ex; reflexivity|].
    all: destruct (c' =? c); reflexivity.
Qed.

Theorem kstep_char s o :
  WFS s ->
  WFS (fst (kstep s o)) /\
  veq (coll_view (fst (kstep s o))) (vstep (coll_view s) o) /\
  vout_ok (coll_view s) o (snd (kstep s o)).
Proof.
  intros HW. pose proof (veq_refl (coll_view s)) as Hrefl.
  destruct o; try (apply kstep_char_rename; assumption);
    cbn [kstep vstep vout_ok vout].
  - (* KRead *)
    cbn [fst snd].
    destruct (with_coll_char s db c (fun x => x) HW (proj2 HW db c)) as [HW' Hv].
    split; [exact HW'|]. split.
    + eapply veq_trans; [exact Hv|]. apply vupd_same. reflexivity.
    + rewrite get_with_coll. unfold coll_view, cview.
      destruct (cs_created (get_coll (get_db s db) c)) eqn:E; [reflexivity|].
      apply not_created in E. destruct E as [-> _]. reflexivity.
  - (* KInsert *)
    remember (get_coll (get_db s db) c) as x eqn:Ex.
    assert (Hx : coll_view s db c = cview x) by (subst x; reflexivity).
    pose proof (proj2 HW db c) as Hok. rewrite <- Ex in Hok.
    rewrite Hx.
    destruct (existsb (Z.eqb id) (cs_docs x)) eqn:Ee; cbn [fst snd].
    + destruct (with_coll_char' s db c (fun x => x) x HW Ex Hok) as [HW' Hv].
      split; [exact HW'|].
      assert (Hc : cview x = Some (cs_docs x, cs_idx x)).
      { unfold cview. destruct (cs_created x) eqn:E; [reflexivity|].
        apply not_created in E. destruct E as [E _]. rewrite E in Ee. discriminate. }
      rewrite Hc, Ee. split; [|reflexivity].
      eapply veq_trans; [exact Hv|]. apply vupd_same. exact Hx.
    + destruct (with_coll_char' s db c (fun x => mkCS (cs_docs x ++ [id]) (cs_idx x) true) x HW Ex)
        as [HW' Hv].
      { apply cs_ok_forced. }
      split; [exact HW'|].
      assert (Hc : cview (mkCS (cs_docs x ++ [id]) (cs_idx x) true) = Some (cs_docs x ++ [id], cs_idx x)).
      { unfold cview. rewrite cs_created_forced. reflexivity. }
      rewrite Hc in Hv. clear Hc.
      unfold cview. destruct (cs_created x) eqn:E.
      * rewrite Ee. split; [exact Hv|reflexivity].
      * apply not_created in E. destruct E as [E1 [E2 _]]. rewrite E1, E2 in Hv. split; [exact Hv|reflexivity].
  - (* KDeleteAll *)
    remember (get_coll (get_db s db) c) as x eqn:Ex.
    assert (Hx : coll_view s db c = cview x) by (subst x; reflexivity).
    pose proof (proj2 HW db c) as Hok. rewrite <- Ex in Hok.
    rewrite Hx. cbn [fst snd].
    destruct (with_coll_char' s db c (fun x => mkCS [] (cs_idx x) (cs_forced x)) x HW Ex) as [HW' Hv].
    { clear - Hok. destruct x as [[|z d] [|i ix] [|]]; try reflexivity; discriminate Hok. }
    split; [exact HW'|]. split; [|destruct (cview x) as [[? ?]|]; reflexivity].
    eapply veq_trans; [exact Hv|]. clear Hv HW'. rewrite (cdel_view x Hok).
    destruct (cview x) as [[ids ix]|] eqn:Ec; vfin.
  - (* KCreateCollection *)
    destruct (negb (valid_name c)); cbn [fst snd]; [auto|].
    remember (get_coll (get_db s db) c) as x eqn:Ex.
    assert (Hx : coll_view s db c = cview x) by (subst x; reflexivity).
    pose proof (proj2 HW db c) as Hok. rewrite <- Ex in Hok.
    rewrite created_colls_mem by assumption. rewrite <- Ex, Hx.
    destruct (negb (is_system c) && cs_created x) eqn:Em; cbn [fst snd].
    + apply andb_true_iff in Em. destruct Em as [Es Ec]. apply negb_true_iff in Es.
      destruct (put_db_same s db (get_db s db) HW (WFS_db s db HW)) as [HW' Hv]; [reflexivity|].
      split; [exact HW'|]. unfold cview. rewrite Ec, Es. split; [exact Hv|reflexivity].
    + destruct (with_coll_char' s db c (fun x => mkCS (cs_docs x) (cs_idx x) true) x HW Ex) as [HW' Hv].
      { apply cs_ok_forced. }
      split; [exact HW'|].
      assert (Hc : cview (mkCS (cs_docs x) (cs_idx x) true) = Some (cs_docs x, cs_idx x)).
      { unfold cview. rewrite cs_created_forced. reflexivity. }
      rewrite Hc in Hv. clear Hc.
      unfold cview in *. destruct (cs_created x) eqn:E.
      * simpl in Em. rewrite andb_true_r in Em. apply negb_false_iff in Em. rewrite Em.
        split; [|reflexivity]. eapply veq_trans; [exact Hv|]. apply vupd_same. exact Hx.
      * apply not_created in E. destruct E as [E1 [E2 _]]. rewrite E1, E2 in Hv.
        split; [exact Hv|reflexivity].
  - (* KCreateIndex *)
    remember (get_coll (get_db s db) c) as x eqn:Ex.
    assert (Hx : coll_view s db c = cview x) by (subst x; reflexivity).
    pose proof (proj2 HW db c) as Hok. rewrite <- Ex in Hok.
    rewrite Hx. cbn [fst snd].
    match goal with |- WFS (with_coll s db c ?f) /\ _ =>
      destruct (with_coll_char' s db c f x HW Ex) as [HW' Hv] end.
    { apply cs_ok_forced. }
    split; [exact HW'|]. split; [|destruct (cview x) as [[? ?]|]; reflexivity].
    eapply veq_trans; [exact Hv|]. clear Hv HW'. rewrite cidx_view.
    destruct (cview x) as [[ids ix]|] eqn:Ec; vfin.
  - (* KDropIndex *)
    remember (get_coll (get_db s db) c) as x eqn:Ex.
    assert (Hx : coll_view s db c = cview x) by (subst x; reflexivity).
    pose proof (proj2 HW db c) as Hok. rewrite <- Ex in Hok.
    rewrite Hx.
    destruct (mem_str name (cs_idx x)) eqn:Em; cbn [fst snd].
    + pose proof (mem_idx_created x name Em) as Hc.
      match goal with |- WFS (with_coll s db c ?f) /\ _ =>
        destruct (with_coll_char' s db c f x HW Ex) as [HW' Hv] end.
      { rewrite (ok_created_forced x Hok Hc). apply cs_ok_forced. }
      rewrite (cdrop_view x _ Hok Hc) in Hv.
      split; [exact HW'|]. unfold cview. rewrite Hc, Em. split; [exact Hv|reflexivity].
    + destruct (with_coll_char' s db c (fun x => x) x HW Ex Hok) as [HW' Hv].
      split; [exact HW'|]. split.
      * eapply veq_trans; [exact Hv|]. eapply veq_trans; [apply vupd_same; exact Hx|].
        unfold cview. destruct (cs_created x); [rewrite Em|]; apply veq_refl.
      * unfold cview. destruct (cs_created x); [rewrite Em|]; reflexivity.
  - (* KDropIndexes *)
    remember (get_coll (get_db s db) c) as x eqn:Ex.
    assert (Hx : coll_view s db c = cview x) by (subst x; reflexivity).
    pose proof (proj2 HW db c) as Hok. rewrite <- Ex in Hok.
    rewrite Hx. cbn [fst snd].
    destruct (with_coll_char' s db c (fun x => mkCS (cs_docs x) [] (cs_forced x)) x HW Ex) as [HW' Hv].
    { clear - Hok. destruct x as [[|z d] [|i ix] [|]]; try reflexivity; discriminate Hok. }
    split; [exact HW'|]. split; [|destruct (cview x) as [[? ?]|]; reflexivity].
    eapply veq_trans; [exact Hv|]. clear Hv HW'.
    destruct (cs_created x) eqn:Hc.
    * rewrite (cdrop_view x _ Hok Hc). unfold cview. rewrite Hc. apply veq_refl.
    * assert (Hn : cview x = None) by (apply cview_None; exact Hc).
      apply not_created in Hc. destruct Hc as [E1 [E2 E3]]. rewrite E1, E3, Hn.
      apply vupd_same. rewrite Hx. exact Hn.
  - (* KDropCollection *)
    cbn [fst snd].
    destruct (with_coll_char s db c (fun _ => cs_empty) HW) as [HW' Hv]; [reflexivity|].
    split; [exact HW'|]. split; [exact Hv|reflexivity].
  - (* KDropDatabase *)
    cbn [fst snd]. change (fun kc : string * cstore => if cs_created (snd kc) then (fst kc, cs_empty) else kc) with reset_kc.
    destruct (put_db_char s db (map reset_kc (get_db s db)) HW) as [HW' Hv].
    + rewrite keys_reset. apply WFS_db, HW.
    + intros c'. rewrite get_coll_reset. destruct (cs_created _); [reflexivity|apply (proj2 HW)].
    + split; [exact HW'|]. split; [|reflexivity]. intros db' c'. rewrite Hv.
      destruct (db' =? db); [|reflexivity]. rewrite get_coll_reset.
      destruct (cs_created (get_coll (get_db s db) c')) eqn:E; [reflexivity|].
      apply cview_None. exact E.
  - (* KListCollections *)
    cbn [fst snd].
    destruct (put_db_same s db (get_db s db) HW (WFS_db s db HW)) as [HW' Hv]; [reflexivity|].
    split; [exact HW'|]. split; [exact Hv|].
    destruct (model_list_colls s db HW) as [Hd Hl]. eexists. split; [reflexivity|]. split; assumption.
  - (* KListDatabases *)
    cbn [fst snd]. split; [assumption|]. split; [assumption|].
    destruct (model_list_dbs s HW) as [Hd Hl]. eexists. split; [reflexivity|]. split; assumption.
  - (* KIndexInfo *)
    cbn [fst snd].
    destruct (with_coll_char s db c (fun x => x) HW (proj2 HW db c)) as [HW' Hv].
    split; [exact HW'|]. split.
    + eapply veq_trans; [exact Hv|]. apply vupd_same. reflexivity.
    + rewrite get_with_coll. unfold coll_view, cview.
      destruct (cs_created (get_coll (get_db s db) c)); reflexivity.
Qed.
