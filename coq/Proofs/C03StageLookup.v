(* C03 part B -- $lookup: the equality filter {foreignField: local value} through C01
   (match_docs_spec of Proofs/C03Stages.v).  The specification wraps a local sub-document in
   $eq, the library does not: inside the guard (bit 1024: no "$" key in the local value) the
   two filters have the same reading. *)
From Coq Require Import ZArith List String Bool Ascii Lia.
From Verif Require Import Value PyEq BsonOrder Path Update Filter FilterSpec FilterGuard Coll Cursor
     Expr ExprSpec Pipeline PipelineSpec PipelineGuard.
From Verif Require Import C03Base C03Laws C03Indep C03Unwind C03Stages C03StageUnwind C03StageExpr.
Import ListNotations.
Open Scope Z_scope.
Open Scope string_scope.
Open Scope list_scope.

(* ------------------------------------------------------------ the parser on a plain field name *)
Lemma eqb_dollar k s : Filter.starts_dollar k = false -> Filter.starts_dollar s = true -> (k =? s) = false.
Proof.
  intros Hk Hs. destruct (String.eqb_spec k s) as [->|_]; [|reflexivity]. rewrite Hs in Hk. discriminate.
Qed.

Lemma parse_clause_field ps pf k a :
  Filter.starts_dollar k = false -> k <> "" ->
  parse_clause_with ps pf k a = CField k (ps a).
Proof.
  intros Hk Hne. unfold parse_clause_with.
  rewrite (eqb_dollar k "$comment" Hk eq_refl), (eqb_dollar k "$and" Hk eq_refl), (eqb_dollar k "$or" Hk eq_refl),
    (eqb_dollar k "$nor" Hk eq_refl), (eqb_dollar k "$not" Hk eq_refl), (eqb_dollar k "$expr" Hk eq_refl).
  cbn [orb]. apply String.eqb_neq in Hne. rewrite Hne.
  unfold top_level_names. cbn [mem_str].
  rewrite (eqb_dollar k "$expr" Hk eq_refl), (eqb_dollar k "$text" Hk eq_refl), (eqb_dollar k "$where" Hk eq_refl),
    (eqb_dollar k "$jsonSchema" Hk eq_refl).
  cbn [orb]. rewrite Hk. reflexivity.
Qed.

Lemma patch_keys fs :
  map fst ((fix go (fs : list (string * value)) :=
              match fs with [] => [] | (k, x) :: fs' => (k, patch x) :: go fs' end) fs) = map fst fs.
Proof. induction fs as [|[k x] fs IH]; [reflexivity|]. cbn [map fst]. rewrite IH. reflexivity. Qed.

Lemma any_dollar_keys a b : map fst a = map fst b -> any_dollar a = any_dollar b.
Proof.
  revert b. induction a as [|[k x] a IH]; intros [|[k' y] b] H; try discriminate; [reflexivity|].
  cbn [map fst] in H. inversion H; subst. unfold any_dollar in *. cbn [existsb fst]. rewrite (IH b); [reflexivity|assumption].
Qed.

Lemma not_ops_dict fs : any_dollar fs = false -> is_ops_dict fs = false.
Proof.
  destruct fs as [|[k x] fs]; [reflexivity|]. unfold any_dollar, is_ops_dict. cbn [existsb forallb fst].
  intros H. apply orb_false_iff in H. destruct H as [H _]. rewrite H. reflexivity.
Qed.

(* a value that is not read as an operator document *)
Definition value_like (v : value) : bool :=
  match v with VDoc x => negb (any_dollar x) | _ => true end.

Lemma parse_search_value v : value_like v = true -> parse_search (patch v) = SVal (patch v).
Proof.
  destruct v as [| | | | |us tz| |x|]; try reflexivity.
  - destruct tz; reflexivity.
  - cbn [value_like]. intros H. apply negb_true_iff in H. cbn [patch parse_search].
    rewrite <- (any_dollar_keys _ _ (patch_keys x)) in H. rewrite (not_ops_dict _ H), H. reflexivity.
Qed.

(* {ff: {$eq: v}} and {ff: v} have the same reading, for such a value *)
Lemma eq_wrap ff v d :
  Filter.starts_dollar ff = false -> ff <> "" -> value_like v = true ->
  spec_match_doc (patch (VDoc [(ff, VDoc [("$eq", v)])])) d = spec_match_doc (patch (VDoc [(ff, v)])) d.
Proof.
  intros Hff Hne Hv. unfold spec_match_doc. cbv zeta.
  change (patch (VDoc [(ff, VDoc [("$eq", v)])])) with (VDoc [(ff, VDoc [("$eq", patch v)])]).
  change (patch (VDoc [(ff, v)])) with (VDoc [(ff, patch v)]).
  change (parse_filter (VDoc [(ff, VDoc [("$eq", patch v)])]))
    with (FAnd (parse_clause_with parse_search parse_filter ff (VDoc [("$eq", patch v)])) FEnd).
  change (parse_filter (VDoc [(ff, patch v)]))
    with (FAnd (parse_clause_with parse_search parse_filter ff (patch v)) FEnd).
  rewrite !(parse_clause_field _ _ ff _ Hff Hne). rewrite (parse_search_value v Hv).
  change (parse_search (VDoc [("$eq", patch v)])) with (SOps (FCons (OEq (patch v)) FNil)).
  assert (Hg : guard_reasons (FAnd (CField ff (SOps (FCons (OEq (patch v)) FNil))) FEnd) d
               = guard_reasons (FAnd (CField ff (SVal (patch v))) FEnd) d).
  { unfold guard_reasons. cbn. rewrite ?app_nil_r. reflexivity. }
  assert (Hm : spec_matches (FAnd (CField ff (SOps (FCons (OEq (patch v)) FNil))) FEnd) d
               = spec_matches (FAnd (CField ff (SVal (patch v))) FEnd) d).
  { cbn. rewrite ?andb_true_r. reflexivity. }
  unfold decided. rewrite Hg, Hm. reflexivity.
Qed.

(* ------------------------------------------------------------ one document *)
Definition spec_query (lv : option value) : value :=
  match lv with
  | Some (VArr xs) => VDoc [("$in", VArr xs)]
  | Some (VDoc _) => VDoc [("$eq", match lv with Some v => v | None => VNull end)]
  | Some v => v
  | None => VNull
  end.

Definition slookup_one (foreign : list value) (lf ff asn : string) (d : value) : option value :=
  match d with
  | VDoc fs =>
      match plain_get (split_dots lf) d with
      | None => None
      | Some lv =>
          match all_opt (map (spec_match_doc (patch (VDoc [(ff, spec_query lv)]))) (map patch foreign)) with
          | Some bs => Some (VDoc (set_key asn (VArr (map fst (List.filter snd (combine foreign bs)))) fs))
          | None => None
          end
      end
  | _ => None
  end.

Lemma spec_lookup_unfold db ofs from lf ff asn s :
  assoc "from" ofs = Some (VStr from) -> assoc "localField" ofs = Some (VStr lf) ->
  assoc "foreignField" ofs = Some (VStr ff) -> assoc "as" ofs = Some (VStr asn) ->
  spec_lookup db (VDoc ofs) s =
  if negb (Nat.eqb (List.length ofs) 4) then PUndef else
  if negb (plain_name asn) || starts_dollar lf || starts_dollar ff || (lf =? "") || (ff =? "") then PUndef else
  if negb (no_sets s) then PUndef else
  match all_opt (map (slookup_one (foreign_of db from) lf ff asn) (s_docs s)) with
  | Some l => PV (mkStream l (s_ord s) [])
  | None => PUndef
  end.
Proof. intros H1 H2 H3 H4. unfold spec_lookup. rewrite H1, H2, H3, H4. reflexivity. Qed.

Lemma lookup_one_agree foreign lf ff asn d y :
  starts_dollar ff = false -> ff <> "" ->
  existsb (filter_finding (VDoc [(ff, lookup_query lf d)])) foreign = false ->
  match get_by_dot (split_dots lf) d with Some (VDoc x) => any_dollar x | _ => false end = false ->
  slookup_one foreign lf ff asn d = Some y ->
  lookup_doc foreign lf ff asn d = Ok y.
Proof.
  intros Hff Hne Hg Hd Hs. rewrite starts_dollar_same in Hff.
  destruct d as [| | | | | | |fs|]; try discriminate. cbn [slookup_one] in Hs.
  destruct (plain_get (split_dots lf) (VDoc fs)) as [lv|] eqn:Hp; [|discriminate].
  pose proof (plain_get_get _ _ _ Hp) as Hget.
  assert (Hq : forall f, spec_match_doc (patch (VDoc [(ff, spec_query lv)])) f
                       = spec_match_doc (patch (VDoc [(ff, lookup_query lf (VDoc fs))])) f).
  { intros f. unfold lookup_query. rewrite Hget. rewrite Hget in Hd.
    destruct lv as [v|]; [|reflexivity].
    destruct v as [| | | | | | |x|xs]; try reflexivity.
    cbn [spec_query]. apply eq_wrap; [exact Hff|exact Hne|]. cbn [value_like]. rewrite Hd. reflexivity. }
  assert (Hall : all_opt (map (spec_match_doc (patch (VDoc [(ff, spec_query lv)]))) (map patch foreign))
                 = all_opt (map (spec_match_doc (patch (VDoc [(ff, lookup_query lf (VDoc fs))]))) (map patch foreign))).
  { apply all_opt_ext. intros f _. apply Hq. }
  rewrite Hall in Hs.
  pose proof (match_docs_spec [(ff, lookup_query lf (VDoc fs))] foreign Hg) as HM.
  destruct (all_opt (map (spec_match_doc (patch (VDoc [(ff, lookup_query lf (VDoc fs))]))) (map patch foreign)))
    as [bs|]; [|discriminate].
  inversion Hs; subst y. unfold lookup_doc. rewrite HM. reflexivity.
Qed.

(* ------------------------------------------------------------ the stage *)
Definition lookup_covered (o : value) : bool :=
  match o with
  | VDoc ofs => negb (has_key "let" ofs || has_key "pipeline" ofs)
  | _ => true
  end.

Lemma run_stage_lookup db o l : run_stage db "$lookup" o l = lookup_stage db o l.
Proof. destruct o; reflexivity. Qed.
Lemma spec_stage_lookup db o s : spec_stage db "$lookup" o s = spec_lookup db o s.
Proof. destruct o; reflexivity. Qed.

Lemma mapM_all_opt {A B} (f : A -> res B) (g : A -> option B) l outs :
  (forall x y, In x l -> g x = Some y -> f x = Ok y) ->
  all_opt (map g l) = Some outs -> mapM f l = Ok outs.
Proof.
  revert outs. induction l as [|x l IH]; intros outs H Hs; cbn [map all_opt] in Hs.
  - inversion Hs. reflexivity.
  - destruct (g x) as [y|] eqn:Hx; [|discriminate].
    destruct (all_opt (map g l)) as [r|] eqn:Hr; [|discriminate]. inversion Hs; subst.
    cbn [mapM]. rewrite (H x y (or_introl eq_refl) Hx). cbn [bind].
    rewrite (IH r (fun x' y' Hin => H x' y' (or_intror Hin)) eq_refl). reflexivity.
Qed.

Lemma stage_lookup db o l :
  lookup_covered o = true ->
  stage_reasons db "$lookup" o l = 0 ->
  rel (spec_stage db "$lookup" o (mkStream l true [])) (run_stage db "$lookup" o l).
Proof.
  intros Hc Hg. rewrite run_stage_lookup, spec_stage_lookup.
  destruct o as [| | | | | | |ofs|]; try exact I.
  unfold lookup_covered in Hc. apply negb_true_iff in Hc.
  destruct (assoc "from" ofs) as [vf|] eqn:H1; [|unfold spec_lookup; rewrite H1; exact I].
  destruct vf as [| | | |from| | | |]; try (unfold spec_lookup; rewrite H1; exact I).
  destruct (assoc "localField" ofs) as [vl|] eqn:H2; [|unfold spec_lookup; rewrite H1, H2; exact I].
  destruct vl as [| | | |lf| | | |]; try (unfold spec_lookup; rewrite H1, H2; exact I).
  destruct (assoc "foreignField" ofs) as [vff|] eqn:H3; [|unfold spec_lookup; rewrite H1, H2, H3; exact I].
  destruct vff as [| | | |ff| | | |]; try (unfold spec_lookup; rewrite H1, H2, H3; exact I).
  destruct (assoc "as" ofs) as [va|] eqn:H4; [|unfold spec_lookup; rewrite H1, H2, H3, H4; exact I].
  destruct va as [| | | |asn| | | |]; try (unfold spec_lookup; rewrite H1, H2, H3, H4; exact I).
  rewrite (spec_lookup_unfold db ofs from lf ff asn _ H1 H2 H3 H4). cbn [s_docs s_ord s_sets no_sets negb].
  destruct (negb (Nat.eqb (List.length ofs) 4)); [exact I|].
  destruct (plain_name asn) eqn:Hpn; cbn [negb orb]; [|exact I].
  destruct (starts_dollar lf) eqn:Hdl; cbn [orb]; [exact I|].
  destruct (starts_dollar ff) eqn:Hdf; cbn [orb]; [exact I|].
  destruct (lf =? "") eqn:Hle; cbn [orb]; [exact I|].
  destruct (ff =? "") eqn:Hfe; cbn [orb]; [exact I|].
  destruct (all_opt (map (slookup_one (foreign_of db from) lf ff asn) l)) as [outs|] eqn:Hs; [|exact I].
  (* the guard *)
  assert (Hg' : Z.lor
           (zb (existsb (fun d =>
                           let q := match get_by_dot (split_dots lf) d with Some v => v | None => VNull end in
                           let q' := match q with VArr _ => VDoc [("$in", q)] | _ => q end in
                           existsb (filter_finding (VDoc [(ff, q')])) (foreign_of db from)) l) 1)
           (zb (existsb (fun d => match get_by_dot (split_dots lf) d with
                                  | Some (VDoc x) => any_dollar x
                                  | _ => false end) l) 1024) = 0).
  { unfold stage_reasons in Hg. cbn [String.eqb Ascii.eqb Bool.eqb orb] in Hg. rewrite H1, H2, H3 in Hg. exact Hg. }
  apply lor_zero in Hg'. destruct Hg' as [G1 G2].
  apply zb_zero in G1; [|discriminate]. apply zb_zero in G2; [|discriminate].
  (* the model *)
  unfold lookup_stage. rewrite Hc, H1, H2, H3, H4. cbn [bind andb].
  rewrite Hdl, Hdf. cbn [bind].
  unfold plain_name in Hpn. apply andb_true_iff in Hpn. destruct Hpn as [Hpn Hlen].
  apply andb_true_iff in Hpn. destruct Hpn as [Hda Hae].
  apply negb_true_iff in Hda, Hae. rewrite Hda. cbn [bind existsb]. rewrite Hae. cbn [orb].
  apply Z.eqb_eq in Hlen. rewrite Hlen. cbn [Z.ltb Z.compare Pos.compare Pos.compare_cont].
  destruct (negb (path_modelled (split_dots lf) && path_modelled (split_dots ff))); [exact I|].
  change (mapM _ l) with (mapM (lookup_doc (foreign_of db from) lf ff asn) l).
  rewrite (mapM_all_opt (lookup_doc (foreign_of db from) lf ff asn) (slookup_one (foreign_of db from) lf ff asn) l outs);
    [simpl; repeat split| |exact Hs].
  intros d y Hd Hy. apply lookup_one_agree; [exact Hdf|apply String.eqb_neq; exact Hfe| | |exact Hy].
  - exact (existsb_false_in _ _ G1 d Hd).
  - exact (existsb_false_in _ _ G2 d Hd).
Qed.
