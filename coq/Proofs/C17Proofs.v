(* C17: the abstraction function, the refinement step, the history theorem, the corollaries. *)
From Coq Require Import ZArith List String Bool Ascii Permutation Lia.
From Verif Require Import Value Catalog C17Base C17Spec C17Model.
Import ListNotations.
Open Scope string_scope.
Open Scope list_scope.

(* ------------------------------------------------------------------ abstraction *)
Lemma assoc_abs_db (d : dstore) c : NoDup (keys d) -> assoc c (abs_db d) = cview (get_coll d c).
Proof.
  unfold keys, abs_db, get_coll, cview. induction d as [|[k x] d IH]; simpl; intros Hd; [reflexivity|].
  inversion Hd as [|? ? Hn Hd']; subst. specialize (IH Hd').
  destruct (c =? k) eqn:E.
  - apply String.eqb_eq in E; subst k. destruct (cs_created x) eqn:Ex; simpl.
    + rewrite String.eqb_refl. reflexivity.
    + rewrite IH. apply (assoc_None c d) in Hn. rewrite Hn. reflexivity.
  - destruct (cs_created x) eqn:Ex; simpl; [rewrite E|]; exact IH.
Qed.

Lemma keys_abs_db (d : dstore) : keys (abs_db d) = created_colls d.
Proof.
  unfold keys, abs_db, created_colls. induction d as [|[k x] d IH]; simpl; [reflexivity|].
  destruct (cs_created x); simpl; rewrite IH; reflexivity.
Qed.

Lemma assoc_abs_server (s : sstore) db :
  NoDup (keys s) ->
  assoc db (abs_server s) = match abs_db (get_db s db) with [] => None | l => Some l end.
Proof.
  unfold keys, abs_server, get_db. induction s as [|[k d] s IH]; simpl; intros Hd; [reflexivity|].
  inversion Hd as [|? ? Hn Hd']; subst. specialize (IH Hd').
  destruct (db =? k) eqn:E.
  - apply String.eqb_eq in E; subst k. destruct (abs_db d) as [|p l] eqn:Ed; simpl.
    + rewrite IH. apply (assoc_None db s) in Hn. rewrite Hn. reflexivity.
    + rewrite String.eqb_refl. reflexivity.
  - destruct (abs_db d) as [|p l] eqn:Ed; simpl; [|rewrite E]; exact IH.
Qed.

Lemma keys_abs_server (s : sstore) :
  keys (abs_server s)
  = keys (List.filter (fun kd : string * dstore => match abs_db (snd kd) with [] => false | _ => true end) s).
Proof.
  unfold keys, abs_server. induction s as [|[k d] s IH]; simpl; [reflexivity|].
  destruct (abs_db d); simpl; rewrite IH; reflexivity.
Qed.

Lemma a_get_abs (s : sstore) : WFS s -> veq (a_get (abs_server s)) (coll_view s).
Proof.
  intros HW db c. unfold a_get. rewrite assoc_abs_server by apply (proj1 (proj1 HW)).
  unfold coll_view. rewrite <- assoc_abs_db by apply (WFS_db s db HW).
  destruct (abs_db (get_db s db)); reflexivity.
Qed.

Lemma WF2_abs (s : sstore) : WFS s -> WF2 (abs_server s).
Proof.
  intros HW. split.
  - rewrite keys_abs_server. apply NoDup_keys_filter. apply (proj1 (proj1 HW)).
  - intros db. unfold gget. rewrite assoc_abs_server by apply (proj1 (proj1 HW)).
    destruct (abs_db (get_db s db)) as [|p l] eqn:E; [constructor|].
    rewrite <- E, keys_abs_db. apply NoDup_created_colls. apply (WFS_db s db HW).
Qed.

(* ------------------------------------------------------------------ equivalence of catalogs *)
(* equal as finite maps: the same collections with the same contents, and the same databases *)
Definition acat_equiv (a b : acat) : Prop :=
  (forall db c, a_get a db c = a_get b db c) /\ (forall db, adb_nonempty a db = adb_nonempty b db).

Lemma acat_equiv_of_veq a b : veq (a_get a) (a_get b) -> acat_equiv a b.
Proof.
  intros H. split; [exact H|]. intros db. apply eq_true_iff_eq. rewrite !adb_nonempty_iff.
  split; intros [c Hc]; exists c; [rewrite <- H|rewrite H]; exact Hc.
Qed.

Lemma acat_equiv_refl a : acat_equiv a a.
Proof. split; reflexivity. Qed.
Lemma acat_equiv_sym a b : acat_equiv a b -> acat_equiv b a.
Proof. intros [H1 H2]. split; intros; symmetry; auto. Qed.
Lemma acat_equiv_trans a b c : acat_equiv a b -> acat_equiv b c -> acat_equiv a c.
Proof. intros [H1 H2] [H3 H4]. split; intros; [rewrite H1|rewrite H2]; auto. Qed.

Lemma wf_a_WF2 a : wf_a a = true <-> WF2 a.
Proof. apply wf2b_WF2. Qed.

(* the specification cannot tell equivalent catalogs apart *)
Theorem spec_step_respects a b o :
  wf_a a = true -> wf_a b = true -> acat_equiv a b ->
  wf_a (fst (spec_step a o)) = true /\ wf_a (fst (spec_step b o)) = true /\
  acat_equiv (fst (spec_step a o)) (fst (spec_step b o)) /\
  out_eqb (snd (spec_step a o)) (snd (spec_step b o)) = true.
Proof.
  rewrite !wf_a_WF2. intros Ha Hb [Hab _].
  destruct (spec_char a o Ha) as [Ha' [Hva Hra]].
  destruct (spec_char b o Hb) as [Hb' [Hvb Hrb]].
  split; [exact Ha'|]. split; [exact Hb'|]. split.
  - apply acat_equiv_of_veq. eapply veq_trans; [exact Hva|].
    eapply veq_trans; [apply vstep_ext; exact Hab|]. apply veq_sym. exact Hvb.
  - eapply vout_ok_eqb; [exact Hab|exact Hra|exact Hrb].
Qed.

(* ------------------------------------------------------------------ simulation *)
Definition R (s : sstore) (a : acat) : Prop := WFS s /\ WF2 a /\ veq (coll_view s) (a_get a).

Lemma R_abs s : WFS s -> R s (abs_server s).
Proof. intros HW. split; [assumption|]. split; [apply WF2_abs; assumption|]. apply veq_sym, a_get_abs, HW. Qed.

Lemma R_nil : R [] [].
Proof. split; [apply WFS_nil|]. split; [apply WF2_nil|]. intros db c. reflexivity. Qed.

Lemma sim_step s a o :
  R s a ->
  R (fst (kstep s o)) (fst (spec_step a o)) /\
  out_eqb (snd (kstep s o)) (snd (spec_step a o)) = true.
Proof.
  intros [HW [Ha Hv]].
  destruct (kstep_char s o HW) as [HW' [Hvs Hrs]].
  destruct (spec_char a o Ha) as [Ha' [Hva Hra]].
  split; [split; [exact HW'|split; [exact Ha'|]]|].
  - eapply veq_trans; [exact Hvs|]. eapply veq_trans; [apply vstep_ext; exact Hv|]. apply veq_sym, Hva.
  - eapply vout_ok_eqb; [exact Hv|exact Hrs|exact Hra].
Qed.

Theorem refinement s o :
  wf_s s = true ->
  let '(s', r) := kstep s o in
  let '(a', r') := spec_step (abs_server s) o in
  wf_s s' = true /\ wf_a a' = true /\ acat_equiv (abs_server s') a' /\ out_eqb r r' = true.
Proof.
  rewrite wf_s_WFS. intros HW.
  destruct (sim_step s (abs_server s) o (R_abs s HW)) as [[HW' [Ha' Hv]] Hr].
  destruct (kstep s o) as [s' r]. destruct (spec_step (abs_server s) o) as [a' r'].
  cbn [fst snd] in *. split; [apply wf_s_WFS; exact HW'|]. split; [apply wf_a_WF2; exact Ha'|].
  split; [|exact Hr]. apply acat_equiv_of_veq.
  eapply veq_trans; [apply a_get_abs; exact HW'|exact Hv].
Qed.

(* ------------------------------------------------------------------ histories *)
Fixpoint upd_nth {A} (w : list A) (i : nat) (x : A) : list A :=
  match w, i with
  | _ :: w', O => x :: w'
  | y :: w', S i' => y :: upd_nth w' i' x
  | [], _ => []
  end.

Lemma wstep_eq w i o :
  wstep w i o = match nth_error w i with
                | None => (w, Err ECrash)
                | Some s => (upd_nth w i (fst (kstep s o)), snd (kstep s o))
                end.
Proof.
  unfold wstep. destruct (nth_error w i) as [s|]; [|reflexivity].
  destruct (kstep s o) as [s' r]. cbn [fst snd]. f_equal.
  revert i. induction w as [|y w IH]; intros [|i]; simpl; try reflexivity. rewrite IH. reflexivity.
Qed.

Lemma spec_run_cons w sv o ops :
  spec_run w ((sv, o) :: ops) =
  match nth_error w sv with
  | None => Err ECrash :: spec_run w ops
  | Some a => snd (spec_step a o) :: spec_run (upd_nth w sv (fst (spec_step a o))) ops
  end.
Proof.
  cbn [spec_run]. destruct (nth_error w sv) as [a|]; [|reflexivity].
  destruct (spec_step a o) as [a' r]. cbn [fst snd]. f_equal. f_equal.
  revert sv. induction w as [|y w IH]; intros [|i]; simpl; try reflexivity. rewrite IH. reflexivity.
Qed.

Lemma wrun_cons w sv o ops :
  wrun w ((sv, o) :: ops) = snd (wstep w sv o) :: wrun (fst (wstep w sv o)) ops.
Proof. cbn [wrun]. destruct (wstep w sv o) as [w' r]. reflexivity. Qed.

Lemma nth_error_upd_same {A} (w : list A) i x y :
  nth_error w i = Some y -> nth_error (upd_nth w i x) i = Some x.
Proof. revert i. induction w as [|z w IH]; intros [|i]; simpl; try discriminate; auto. Qed.

Lemma nth_error_upd_other {A} (w : list A) i j x :
  j <> i -> nth_error (upd_nth w i x) j = nth_error w j.
Proof.
  revert i j. induction w as [|z w IH]; intros [|i] [|j] H; simpl; try reflexivity; try congruence.
  apply IH. congruence.
Qed.

Lemma length_upd_nth {A} (w : list A) i x : List.length (upd_nth w i x) = List.length w.
Proof. revert i. induction w as [|z w IH]; intros [|i]; simpl; auto. Qed.

Lemma Forall2_nth {A B} (P : A -> B -> Prop) w v i :
  Forall2 P w v ->
  match nth_error w i, nth_error v i with
  | Some x, Some y => P x y
  | None, None => True
  | _, _ => False
  end.
Proof.
  intros H. revert i. induction H as [|x y w v Hxy H IH]; intros [|i]; simpl; auto. apply IH.
Qed.

Lemma Forall2_upd {A B} (P : A -> B -> Prop) w v i x y :
  Forall2 P w v -> P x y -> Forall2 P (upd_nth w i x) (upd_nth v i y).
Proof.
  intros H Hxy. revert i. induction H as [|x0 y0 w v H0 H IH]; intros [|i]; simpl; constructor; auto.
Qed.

Lemma Forall_upd {A} (P : A -> Prop) w i x : Forall P w -> P x -> Forall P (upd_nth w i x).
Proof.
  intros H Hx. revert i. induction H as [|x0 w H0 H IH]; intros [|i]; simpl; constructor; auto.
Qed.

Lemma Forall2_repeat {A B} (P : A -> B -> Prop) x y n : P x y -> Forall2 P (repeat x n) (repeat y n).
Proof. intros H. induction n; simpl; constructor; auto. Qed.

Lemma history_gen ops : forall w aw,
  Forall2 R w aw ->
  list_eqb out_eqb (wrun w ops) (spec_run aw ops) = true.
Proof.
  induction ops as [|[sv o] ops IH]; intros w aw HR; [reflexivity|].
  rewrite wrun_cons, spec_run_cons, wstep_eq.
  pose proof (Forall2_nth R w aw sv HR) as Hn.
  destruct (nth_error w sv) as [s|], (nth_error aw sv) as [a|]; try contradiction; cbn [fst snd list_eqb].
  - destruct (sim_step s a o Hn) as [HR' Hr]. rewrite Hr. cbn [andb].
    apply IH. apply Forall2_upd; assumption.
  - apply IH; assumption.
Qed.

Theorem history n ops :
  list_eqb out_eqb (wrun (repeat [] n) ops) (spec_run (repeat [] n) ops) = true.
Proof. apply history_gen. apply Forall2_repeat. exact R_nil. Qed.

(* ------------------------------------------------------------------ corollaries *)
Definition is_read (o : cop) : bool :=
  match o with
  | KRead _ _ | KListCollections _ | KListDatabases | KIndexInfo _ _ => true
  | _ => false
  end.
Definition empty_answer (o : cop) : res value :=
  match o with KRead _ _ => Ok (VArr []) | _ => Ok (names_value []) end.

Definition Empty (s : sstore) : Prop := WFS s /\ forall db c, coll_view s db c = None.

Lemma read_step s o :
  Empty s -> is_read o = true -> Empty (fst (kstep s o)) /\ snd (kstep s o) = empty_answer o.
Proof.
  intros [HW He] Hr.
  destruct (kstep_char s o HW) as [HW' [Hv Ho]].
  split; [split; [exact HW'|]|].
  - intros db c. rewrite Hv. destruct o; try discriminate Hr; apply He.
  - destruct o; try discriminate Hr; cbn [vout_ok vout] in Ho.
    + rewrite Ho, He. reflexivity.
    + destruct Ho as [l [-> [_ Hl]]]. destruct l as [|n l]; [reflexivity|].
      exfalso. destruct (proj1 (Hl n) (or_introl eq_refl)) as [_ Hc]. apply Hc, He.
    + destruct Ho as [l [-> [_ Hl]]]. destruct l as [|n l]; [reflexivity|].
      exfalso. destruct (proj1 (Hl n) (or_introl eq_refl)) as [c Hc]. apply Hc, He.
    + rewrite Ho, He. reflexivity.
Qed.

Lemma reads_gen ops : forall w,
  Forall Empty w ->
  Forall (fun so : nat * cop => is_read (snd so) = true /\ (fst so < List.length w)%nat) ops ->
  wrun w ops = map (fun so => empty_answer (snd so)) ops.
Proof.
  induction ops as [|[sv o] ops IH]; intros w HE Hr; [reflexivity|].
  inversion Hr as [|? ? [Hr1 Hlt] Hr2]; subst. cbn [fst snd] in Hr1, Hlt.
  rewrite wrun_cons, wstep_eq. cbn [map snd].
  destruct (nth_error w sv) as [s|] eqn:En.
  - assert (Hs : Empty s).
    { rewrite Forall_forall in HE. apply HE. eapply nth_error_In; exact En. }
    destruct (read_step s o Hs Hr1) as [Hs' Ho]. cbn [fst snd]. rewrite Ho. f_equal.
    apply IH; [apply Forall_upd; assumption|]. rewrite length_upd_nth. exact Hr2.
  - apply nth_error_None in En. lia.
Qed.

Theorem reads_never_create n ops :
  Forall (fun so : nat * cop => is_read (snd so) = true /\ (fst so < n)%nat) ops ->
  wrun (repeat [] n) ops = map (fun so => empty_answer (snd so)) ops.
Proof.
  intros H. apply reads_gen.
  - apply Forall_forall. intros s Hs. apply repeat_spec in Hs. subst s.
    split; [apply WFS_nil|reflexivity].
  - rewrite repeat_length. exact H.
Qed.

Theorem create_existing_fails s db c :
  cs_created (get_coll (get_db s db) c) = true -> is_system c = false ->
  kstep s (KCreateCollection db c) = (s, Err ECrash).
Proof.
  intros Hc Hs. cbn [kstep]. destruct (negb (valid_name c)); [reflexivity|].
  assert (Hm : mem_str c (List.filter (fun n => negb (is_system n)) (created_colls (get_db s db))) = true).
  { apply mem_str_In, filter_In. split; [|rewrite Hs; reflexivity].
    unfold created_colls. apply in_map_iff. exists (c, get_coll (get_db s db) c).
    split; [reflexivity|]. apply filter_In. split; [|exact Hc]. apply assoc_In, get_coll_created, Hc. }
  rewrite Hm. f_equal. unfold put_db. apply set_key_same.
  unfold get_db in *. destruct (assoc db s); [reflexivity|discriminate Hc].
Qed.

Theorem rename_moves s db c n dt :
  wf_s s = true -> valid_name n = true ->
  cs_created (get_coll (get_db s db) c) = true ->
  cs_created (get_coll (get_db s db) n) = false ->
  let s' := fst (kstep s (KRename db c n dt)) in
  snd (kstep s (KRename db c n dt)) = Ok VNull /\
  wf_s s' = true /\
  coll_view s' db n = Some (cs_docs (get_coll (get_db s db) c), cs_idx (get_coll (get_db s db) c)) /\
  coll_view s' db c = None /\
  forall db' c', (db' = db /\ (c' = c \/ c' = n)) \/ coll_view s' db' c' = coll_view s db' c'.
Proof.
  rewrite wf_s_WFS. intros HW Hn Hc Hnc s'.
  assert (Hcn : (c =? n) = false).
  { destruct (c =? n) eqn:E; [|reflexivity]. apply String.eqb_eq in E; subst n. congruence. }
  destruct (kstep_char s (KRename db c n dt) HW) as [HW' [Hv Ho]]. fold s' in HW', Hv.
  cbn [vstep vout_ok vout] in Hv, Ho. rewrite Hn, Hcn in Hv, Ho. cbn [negb] in Hv, Ho.
  assert (Hx : coll_view s db c = Some (cs_docs (get_coll (get_db s db) c), cs_idx (get_coll (get_db s db) c)))
    by (unfold coll_view, cview; rewrite Hc; reflexivity).
  assert (Hy : coll_view s db n = None) by (unfold coll_view, cview; rewrite Hnc; reflexivity).
  rewrite Hx, Hy in Hv, Ho.
  split; [exact Ho|]. split; [apply wf_s_WFS; exact HW'|]. split; [|split].
  - rewrite Hv. unfold vupd. rewrite !String.eqb_refl. reflexivity.
  - rewrite Hv. unfold vupd. rewrite !String.eqb_refl, Hcn. reflexivity.
  - intros db' c'. rewrite Hv. unfold vupd.
    destruct (db' =? db) eqn:E1; simpl; [|right; reflexivity].
    apply String.eqb_eq in E1. destruct (c' =? n) eqn:E2; [apply String.eqb_eq in E2; auto|].
    destruct (c' =? c) eqn:E3; [apply String.eqb_eq in E3; auto|]. right; reflexivity.
Qed.

Lemma abs_equiv_of_view s s' :
  WFS s -> WFS s' -> veq (coll_view s') (coll_view s) -> acat_equiv (abs_server s') (abs_server s).
Proof.
  intros HW HW' Hv. apply acat_equiv_of_veq.
  eapply veq_trans; [apply a_get_abs; exact HW'|]. eapply veq_trans; [exact Hv|].
  apply veq_sym, a_get_abs, HW.
Qed.

(* the three failing renames: the source does not exist; the target exists and
   drop_target=False; the target is the source itself (whatever drop_target) *)
Theorem rename_guards s db c n dt :
  wf_s s = true ->
  cs_created (get_coll (get_db s db) c) = false \/
  (cs_created (get_coll (get_db s db) n) = true /\ dt = false) \/
  c = n ->
  let s' := fst (kstep s (KRename db c n dt)) in
  (exists e, snd (kstep s (KRename db c n dt)) = Err e) /\
  wf_s s' = true /\
  (forall db' c', coll_view s' db' c' = coll_view s db' c') /\
  acat_equiv (abs_server s') (abs_server s).
Proof.
  rewrite wf_s_WFS. intros HW Hcase s'.
  assert (Hmain : (exists e, snd (kstep s (KRename db c n dt)) = Err e) /\ WFS s' /\
                  veq (coll_view s') (coll_view s)).
  { unfold s'. destruct (valid_name n) eqn:Hn.
    2:{ cbn [kstep]. rewrite Hn. cbn [negb fst snd]. split; [eexists; reflexivity|].
        split; [exact HW|apply veq_refl]. }
    rewrite (kstep_rename _ _ _ _ _ Hn). cbn zeta.
    pose proof (WFS_db s db HW) as Hd.
    destruct (cs_created (get_coll (get_db s db) c)) eqn:Ex; cbn [negb fst snd].
    - destruct (c =? n) eqn:Hcn; cbn [fst snd].
      { split; [eexists; reflexivity|].
        apply put_db_same; [exact HW|apply NoDup_touch, Hd|]. intros c'. apply get_coll_touch. }
      destruct Hcase as [Hcase|[[Hy ->]|Hcase]]; [discriminate Hcase| |].
      2:{ subst n. rewrite String.eqb_refl in Hcn. discriminate Hcn. }
      rewrite Hy. cbn [negb andb fst snd].
      split; [eexists; reflexivity|].
      apply put_db_same; [exact HW|apply NoDup_touch, NoDup_touch, Hd|].
      intros c'. rewrite !get_coll_touch. reflexivity.
    - split; [eexists; reflexivity|].
      apply put_db_same; [exact HW|apply NoDup_touch, Hd|]. intros c'. apply get_coll_touch. }
  destruct Hmain as [He [HW' Hv]]. split; [exact He|]. split; [apply wf_s_WFS; exact HW'|].
  split; [exact Hv|]. apply abs_equiv_of_view; assumption.
Qed.

Theorem drop_then_reuse s db c id :
  wf_s s = true ->
  let s1 := fst (kstep s (KDropCollection db c)) in
  coll_view s1 db c = None /\
  snd (kstep s1 (KInsert db c id)) = Ok VNull /\
  coll_view (fst (kstep s1 (KInsert db c id))) db c = Some ([id], []).
Proof.
  rewrite wf_s_WFS. intros HW s1.
  destruct (kstep_char s (KDropCollection db c) HW) as [HW1 [Hv1 _]]. fold s1 in HW1, Hv1.
  assert (H1 : coll_view s1 db c = None).
  { rewrite Hv1. cbn [vstep]. unfold vupd. rewrite !String.eqb_refl. reflexivity. }
  split; [exact H1|].
  destruct (kstep_char s1 (KInsert db c id) HW1) as [HW2 [Hv2 Ho2]].
  cbn [vstep vout_ok vout] in Hv2, Ho2. rewrite H1 in Hv2, Ho2.
  split; [exact Ho2|]. rewrite Hv2. unfold vupd. rewrite !String.eqb_refl. reflexivity.
Qed.

(* dropping all the indexes of an existing collection keeps the collection - also when it holds
   no documents and was created by create_index only (the former finding F-COLL-VANISH-IDX) *)
Theorem drop_indexes_keeps s db c :
  wf_s s = true -> cs_created (get_coll (get_db s db) c) = true ->
  let s' := fst (kstep s (KDropIndexes db c)) in
  snd (kstep s (KDropIndexes db c)) = Ok VNull /\
  wf_s s' = true /\
  coll_view s' db c = Some (cs_docs (get_coll (get_db s db) c), []) /\
  forall db' c', (db' = db /\ c' = c) \/ coll_view s' db' c' = coll_view s db' c'.
Proof.
  rewrite wf_s_WFS. intros HW Hc s'.
  destruct (kstep_char s (KDropIndexes db c) HW) as [HW' [Hv Ho]]. fold s' in HW', Hv.
  cbn [vstep vout_ok vout] in Hv, Ho.
  assert (Hx : coll_view s db c = Some (cs_docs (get_coll (get_db s db) c), cs_idx (get_coll (get_db s db) c)))
    by (unfold coll_view, cview; rewrite Hc; reflexivity).
  rewrite Hx in Hv.
  split; [exact Ho|]. split; [apply wf_s_WFS; exact HW'|]. split.
  - rewrite Hv. unfold vupd. rewrite !String.eqb_refl. reflexivity.
  - intros db' c'. rewrite Hv. unfold vupd.
    destruct (db' =? db) eqn:E1; simpl; [|right; reflexivity].
    apply String.eqb_eq in E1. destruct (c' =? c) eqn:E2; [apply String.eqb_eq in E2; auto|].
    right; reflexivity.
Qed.

Theorem create_index_creates s db c f :
  wf_s s = true ->
  let s' := fst (kstep s (KCreateIndex db c f)) in
  wf_s s' = true /\ cs_created (get_coll (get_db s' db) c) = true.
Proof.
  rewrite wf_s_WFS. intros HW s'.
  destruct (kstep_char s (KCreateIndex db c f) HW) as [HW' _]. fold s' in HW'.
  split; [apply wf_s_WFS; exact HW'|].
  unfold s'. cbn [kstep fst]. rewrite get_with_coll. apply cs_created_forced.
Qed.

Theorem independent_clients_isolated w i o j :
  j <> i -> nth_error (fst (wstep w i o)) j = nth_error w j.
Proof.
  intros H. rewrite wstep_eq. destruct (nth_error w i); cbn [fst]; [|reflexivity].
  apply nth_error_upd_other. exact H.
Qed.

Theorem shared_store w i o s :
  nth_error w i = Some s ->
  snd (wstep w i o) = snd (kstep s o) /\
  nth_error (fst (wstep w i o)) i = Some (fst (kstep s o)).
Proof.
  intros H. rewrite wstep_eq, H. cbn [fst snd]. split; [reflexivity|].
  eapply nth_error_upd_same. exact H.
Qed.

Theorem shared_store_local w w' i o :
  nth_error w i = nth_error w' i ->
  snd (wstep w i o) = snd (wstep w' i o) /\
  nth_error (fst (wstep w i o)) i = nth_error (fst (wstep w' i o)) i.
Proof.
  intros H. rewrite !wstep_eq, <- H. destruct (nth_error w i) as [s|] eqn:E; cbn [fst snd].
  - split; [reflexivity|]. rewrite (nth_error_upd_same w i _ s E).
    symmetry. eapply nth_error_upd_same. symmetry. exact H.
  - split; [reflexivity|]. rewrite E. exact H.
Qed.
