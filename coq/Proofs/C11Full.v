(* C11: cursor programs with their intermediate evaluations (cursor[0]) taken into account.
   cursor_run_full / cursor_spec_full (Model/Cursor.v) against cursor_run / cursor_spec: when every
   evaluated prefix of the program is decided by the specification, every evaluation succeeds
   and the program answers what the specification says. *)
From Coq Require Import ZArith List String Bool Ascii Lia.
From Verif Require Import Value PyEq BsonOrder Path Filter FilterSpec FilterGuard Update Project Coll Cursor.
From Verif Require Import C11Sort C11Keys C11Radix C11Cursor.
Import ListNotations.
Open Scope Z_scope.

Lemma apply_meths_app : forall a b k,
  apply_meths k (a ++ b) = let! k' := apply_meths k a in apply_meths k' b.
Proof.
  induction a as [|m a IH]; intros b k; [reflexivity|].
  cbn [app apply_meths]. destruct (apply_meth k m) as [k1|e]; cbn [bind]; [apply IH|reflexivity].
Qed.

(* when the program with evaluations runs through, it is the program without them *)
Lemma run_full_ok c f : forall ms k k',
  run_meths_full c f k ms = Ok k' -> apply_meths k ms = Ok k'.
Proof.
  induction ms as [|m ms IH]; intros k k' H; [exact H|].
  cbn [run_meths_full apply_meths] in H |- *.
  destruct (apply_meth k m) as [k1|e]; cbn [bind] in H |- *; [|discriminate H].
  destruct (match m with MPeek => _ | _ => Ok tt end) as [u|e]; cbn [bind] in H; [|discriminate H].
  apply IH. exact H.
Qed.

Lemma cursor_run_full_ok docs f sort0 skip0 limit0 ms L :
  cursor_run_full docs f sort0 skip0 limit0 ms = Ok L ->
  cursor_run docs f sort0 skip0 limit0 ms = Ok L.
Proof.
  unfold cursor_run_full, cursor_run. fold (c11_coll docs). intro H.
  destruct (run_meths_full (c11_coll docs) f _ ms) as [k|e] eqn:E; cbn [bind] in H; [|discriminate H].
  rewrite (run_full_ok _ _ _ _ _ E). cbn [bind]. exact H.
Qed.

Lemma cursor_spec_full_some docs f sort0 skip0 limit0 ms L :
  cursor_spec_full docs f sort0 skip0 limit0 ms = Some L ->
  cursor_spec docs f sort0 skip0 limit0 ms = Some L
  /\ forall p, In p (peek_prefixes [] ms) -> exists Lp, cursor_spec docs f sort0 skip0 limit0 p = Some Lp.
Proof.
  unfold cursor_spec_full. intro H.
  destruct (forallb _ (peek_prefixes [] ms)) eqn:E; [|discriminate H].
  split; [exact H|]. intros p Hp. rewrite forallb_forall in E. specialize (E p Hp).
  destruct (cursor_spec docs f sort0 skip0 limit0 p) as [Lp|]; [exists Lp; reflexivity|discriminate E].
Qed.

(* partial correctness, from C11_cursor alone: whenever the program returns, it returns the
   specified answer *)
Lemma cursor_full_partial docs f sort0 skip0 limit0 ms L L' :
  cursor_spec_full docs f sort0 skip0 limit0 ms = Some L ->
  c11_docs_ok docs = true -> c11_meths_ok ms = true ->
  c11_spec_ok (final_sort sort0 ms) = true ->
  cursor_run_full docs f sort0 skip0 limit0 ms = Ok L' -> L' = L.
Proof.
  intros Hs Hd Hm Hk Hr. apply cursor_spec_full_some in Hs. destruct Hs as [Hs _].
  pose proof (cursor_correct _ _ _ _ _ _ _ Hs Hd Hm Hk) as H1.
  apply cursor_run_full_ok in Hr. rewrite H1 in Hr. injection Hr as <-. reflexivity.
Qed.

(* ------------------------------------------------------------------ total correctness *)
Lemma peek_prefix_shape : forall ms pre p,
  In p (peek_prefixes pre ms) -> exists a b, ms = a ++ b /\ p = pre ++ a.
Proof.
  induction ms as [|m ms IH]; intros pre p H; [destruct H|].
  cbn [peek_prefixes] in H. apply in_app_or in H. destruct H as [H|H].
  - destruct m; try (destruct H; fail). destruct H as [<-|[]]. exists [MPeek], ms. split; reflexivity.
  - destruct (IH _ _ H) as [a [b [-> ->]]]. exists (m :: a), b. split; [reflexivity|].
    rewrite <- app_assoc. reflexivity.
Qed.

(* the sort keys in force at every evaluation are inside the model *)
Definition c11_peeks_ok (sort0 : list (string * Z)) (ms : list cmeth) : bool :=
  forallb (fun p => c11_spec_ok (final_sort sort0 p)) (peek_prefixes [] ms).

Lemma run_full_from_prefixes c f k0 : forall ms pre k k',
  apply_meths k0 pre = Ok k ->
  (forall p, In p (peek_prefixes pre ms) ->
             exists kp r, apply_meths k0 p = Ok kp /\ find_docs c f (k_sort kp) = Ok r) ->
  apply_meths k ms = Ok k' -> run_meths_full c f k ms = Ok k'.
Proof.
  induction ms as [|m ms IH]; intros pre k k' Hpre Hp H; [exact H|].
  cbn [run_meths_full apply_meths] in H |- *.
  destruct (apply_meth k m) as [k1|e] eqn:E1; cbn [bind] in H |- *; [|discriminate H].
  assert (Hpre' : apply_meths k0 (pre ++ [m]) = Ok k1).
  { rewrite apply_meths_app, Hpre. cbn [bind apply_meths]. rewrite E1. reflexivity. }
  assert (Hev : (match m with
                 | MPeek => let! r := find_docs c f (k_sort k1) in Ok tt
                 | _ => Ok tt end) = Ok tt).
  { destruct m; try reflexivity.
    destruct (Hp (pre ++ [MPeek])) as [kp [r [Ha Hf]]].
    { cbn [peek_prefixes]. left. reflexivity. }
    rewrite Hpre' in Ha. injection Ha as <-. rewrite Hf. reflexivity. }
  rewrite Hev. cbn [bind].
  apply (IH (pre ++ [m])); [exact Hpre'| |exact H].
  intros p Hin. apply Hp. cbn [peek_prefixes]. apply in_or_app. right. exact Hin.
Qed.

Lemma cursor_run_parts docs f sort0 skip0 limit0 p Lp :
  cursor_run docs f sort0 skip0 limit0 p = Ok Lp ->
  exists kp r, apply_meths (mkCursor sort0 skip0 (norm_limit limit0) false) p = Ok kp
               /\ find_docs (c11_coll docs) f (k_sort kp) = Ok r.
Proof.
  unfold cursor_run. fold (c11_coll docs). intro H.
  destruct (apply_meths _ p) as [kp|e]; cbn [bind] in H; [|discriminate H].
  destruct (find_docs (c11_coll docs) f (k_sort kp)) as [r|e] eqn:E; cbn [bind] in H; [|discriminate H].
  exists kp, r. split; [reflexivity|exact E].
Qed.

Lemma cursor_full_correct docs f sort0 skip0 limit0 ms L :
  cursor_spec_full docs f sort0 skip0 limit0 ms = Some L ->
  c11_docs_ok docs = true -> c11_meths_ok ms = true ->
  c11_spec_ok (final_sort sort0 ms) = true -> c11_peeks_ok sort0 ms = true ->
  cursor_run_full docs f sort0 skip0 limit0 ms = Ok L.
Proof.
  intros Hs Hd Hm Hk Hpk. apply cursor_spec_full_some in Hs. destruct Hs as [Hs Hpre].
  pose proof (cursor_correct _ _ _ _ _ _ _ Hs Hd Hm Hk) as H1.
  destruct (cursor_run_parts _ _ _ _ _ _ _ H1) as [k [r [Hk1 Hf1]]].
  unfold cursor_run_full.
  assert (Hfull : run_meths_full (c11_coll docs) f (mkCursor sort0 skip0 (norm_limit limit0) false) ms = Ok k).
  { set (k0 := mkCursor sort0 skip0 (norm_limit limit0) false) in *.
    apply (run_full_from_prefixes (c11_coll docs) f k0 ms [] k0 k); [reflexivity| |exact Hk1].
    intros p Hin. destruct (Hpre p Hin) as [Lp HLp].
    destruct (peek_prefix_shape _ _ _ Hin) as [a [b [Hab Hpa]]]. cbn [app] in Hpa. subst p.
    assert (Hma : c11_meths_ok a = true).
    { unfold c11_meths_ok in Hm |- *. rewrite Hab, forallb_app in Hm. apply andb_prop in Hm. exact (proj1 Hm). }
    assert (Hka : c11_spec_ok (final_sort sort0 a) = true).
    { unfold c11_peeks_ok in Hpk. rewrite forallb_forall in Hpk. exact (Hpk a Hin). }
    pose proof (cursor_correct _ _ _ _ _ _ _ HLp Hd Hma Hka) as Ha.
    exact (cursor_run_parts _ _ _ _ _ _ _ Ha). }
  rewrite Hfull. cbn [bind].
  unfold cursor_run in H1. fold (c11_coll docs) in H1. rewrite Hk1 in H1. cbn [bind] in H1. exact H1.
Qed.

(* without evaluations the two programs and the two specifications coincide *)
Lemma no_peek_prefixes : forall ms pre,
  existsb (fun m => match m with MPeek => true | _ => false end) ms = false -> peek_prefixes pre ms = [].
Proof.
  induction ms as [|m ms IH]; intros pre H; [reflexivity|].
  cbn [existsb] in H. apply orb_false_elim in H. destruct H as [H1 H2].
  cbn [peek_prefixes]. rewrite (IH _ H2). destruct m; try reflexivity. discriminate H1.
Qed.

Lemma cursor_spec_full_no_peek docs f sort0 skip0 limit0 ms :
  existsb (fun m => match m with MPeek => true | _ => false end) ms = false ->
  cursor_spec_full docs f sort0 skip0 limit0 ms = cursor_spec docs f sort0 skip0 limit0 ms.
Proof. intro H. unfold cursor_spec_full. rewrite (no_peek_prefixes _ _ H). reflexivity. Qed.
