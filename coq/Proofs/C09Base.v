(* C09 proofs, part 1: what `expire` does.  The stand-alone facts C09_expire_exact,
   C09_never_expires and the `expire` half of C09_gone_for_good. *)
From Coq Require Import ZArith List String Bool Ascii Lia.
From Verif Require Import Value PyEq BsonOrder Path Filter Update Project Coll HistCheck HistProps.
From Verif.Proofs Require Import C01Values.
Import ListNotations.
Open Scope Z_scope.
Open Scope string_scope.
Open Scope list_scope.

(* ---------------------------------------------------------------- tactics *)
Ltac dm H :=
  match type of H with
  | context [bind ?r _] =>
      let E := fresh "E" in destruct r eqn:E; unfold bind in H; try discriminate H
  | context [match ?x with _ => _ end] =>
      let E := fresh "E" in destruct x eqn:E; try discriminate H
  end.
Ltac inv_pair H := inversion H; subst; clear H.

(* ---------------------------------------------------------------- strict equality *)
Lemma opt_z_eqb_refl o : opt_z_eqb o o = true.
Proof. destruct o as [z|]; simpl; [apply Z.eqb_refl | reflexivity]. Qed.

Lemma value_eqb_refl : forall v, value_eqb v v = true.
Proof.
  induction v as [ | b | z | e | s | us tz | n | fs IH | xs IH ] using value_ind2; simpl.
  - reflexivity.
  - apply eqb_reflx.
  - apply Z.eqb_refl.
  - apply Z.eqb_refl.
  - apply String.eqb_refl.
  - rewrite Z.eqb_refl, opt_z_eqb_refl. reflexivity.
  - apply Z.eqb_refl.
  - induction IH as [ | [k v] fs' Hv _ IHfs ]; [ reflexivity | ].
    simpl in Hv. rewrite String.eqb_refl, Hv. simpl. exact IHfs.
  - induction IH as [ | x xs' Hx _ IHxs ]; [ reflexivity | ].
    rewrite Hx. simpl. exact IHxs.
Qed.

(* ---------------------------------------------------------------- list tools *)
Inductive sub {A} : list A -> list A -> Prop :=
| sub_nil : sub [] []
| sub_skip x l l' : sub l l' -> sub l (x :: l')
| sub_keep x l l' : sub l l' -> sub (x :: l) (x :: l').

Lemma sub_refl {A} (l : list A) : sub l l.
Proof. induction l; constructor; assumption. Qed.

Lemma sub_In {A} (l l' : list A) : sub l l' -> forall x, In x l -> In x l'.
Proof.
  induction 1 as [|y l l' _ IH|y l l' _ IH]; intros x Hx.
  - exact Hx.
  - right. apply IH. exact Hx.
  - destruct Hx as [->|Hx]; [left; reflexivity|right; apply IH; exact Hx].
Qed.

Lemma sub_trans {A} (l2 l3 : list A) : sub l2 l3 -> forall l1, sub l1 l2 -> sub l1 l3.
Proof.
  induction 1 as [|y l l' _ IH|y l l' _ IH]; intros l1 H1.
  - exact H1.
  - apply sub_skip. apply IH. exact H1.
  - inversion H1; subst.
    + apply sub_skip. apply IH. assumption.
    + apply sub_keep. apply IH. assumption.
Qed.

Lemma sub_nil_l {A} (l : list A) : sub [] l.
Proof. induction l; constructor; assumption. Qed.

Lemma filter_sub {A} (p : A -> bool) l : sub (List.filter p l) l.
Proof.
  induction l as [ | x l IH ]; simpl; [ constructor | ].
  destruct (p x); constructor; exact IH.
Qed.

Lemma store_del_sub k l : sub (store_del k l) l.
Proof.
  induction l as [ | [k' d'] l IH ]; simpl; [ constructor | ].
  destruct (py_eq k' k); [ apply sub_skip, sub_refl | apply sub_keep, IH ].
Qed.

Lemma filter_true {A} (l : list A) : List.filter (fun _ => true) l = l.
Proof. induction l as [ | x l IH ]; simpl; [ | rewrite IH ]; reflexivity. Qed.

Lemma filter_filter {A} (p q : A -> bool) l :
  List.filter q (List.filter p l) = List.filter (fun x => p x && q x) l.
Proof.
  induction l as [ | x l IH ]; simpl; [ reflexivity | ].
  destruct (p x); simpl; [ destruct (q x); rewrite IH; reflexivity | exact IH ].
Qed.

Lemma filter_idem {A} (p : A -> bool) l : List.filter p (List.filter p l) = List.filter p l.
Proof.
  rewrite filter_filter. apply filter_ext. intros a. destruct (p a); reflexivity.
Qed.

Lemma incl_filter {A} (p : A -> bool) l l' : incl l l' -> incl (List.filter p l) (List.filter p l').
Proof.
  intros H x Hx. apply filter_In in Hx. destruct Hx as [Hx Hp].
  apply filter_In. split; [ apply H; exact Hx | exact Hp ].
Qed.

Lemma existsb_false_all {A} (f : A -> bool) l :
  (forall a, In a l -> f a = false) -> existsb f l = false.
Proof.
  induction l as [ | x l IH ]; simpl; intros H; [ reflexivity | ].
  rewrite (H x (or_introl eq_refl)). simpl. apply IH. intros a Ha. apply H. right. exact Ha.
Qed.

Lemma existsb_false_in {A} (f : A -> bool) l :
  existsb f l = false -> forall a, In a l -> f a = false.
Proof.
  induction l as [ | x l IH ]; simpl; intros H a Ha; [ destruct Ha | ].
  apply orb_false_iff in H. destruct H as [Hx Hl].
  destruct Ha as [<- | Ha]; [ exact Hx | apply IH; assumption ].
Qed.

Lemma existsb_incl_false {A} (f : A -> bool) l l' :
  incl l l' -> existsb f l' = false -> existsb f l = false.
Proof.
  intros Hi H. apply existsb_false_all. intros a Ha.
  apply (existsb_false_in f l' H). apply Hi. exact Ha.
Qed.

(* ---------------------------------------------------------------- the TTL predicate *)
(* the (field, seconds) an index expires documents by, if any: expireAfterSeconds is a number
   and the key is a single field *)
Definition active_spec (i : index) : option (string * Z) :=
  match ittl i with
  | Some sv =>
      match ttl_seconds sv with
      | Ok (Some n) => match ikey i with [(f, _)] => Some (f, n) | _ => None end
      | _ => None
      end
  | None => None
  end.

Definition fld (f : string) (d : value) : option value :=
  match d with VDoc fs => assoc f fs | _ => None end.

(* document d is expired under index i at clock t *)
Definition exp_i (t : Z) (i : index) (d : value) : bool :=
  match active_spec i with
  | Some (f, n) => meets_expiry (fld f d) n t
  | None => false
  end.

Definition exp_idx (I : list index) (t : Z) (d : value) : bool :=
  existsb (fun i => exp_i t i d) I.

(* all the entries of a store are alive *)
Definition live (I : list index) (t : Z) (l : list (value * value)) : Prop :=
  forall kd, In kd l -> exp_idx I t (snd kd) = false.

Lemma with_docs_id c : with_docs c (docs c) = c.
Proof. destruct c; reflexivity. Qed.

Definition efold (is : list index) (r : res coll) : res coll :=
  fold_left (fun acc i => let! c' := acc in expire_index i c') is r.

Lemma expire_efold c : expire c = efold (idx c) (Ok c).
Proof. reflexivity. Qed.

Lemma expire_index_char i c c' :
  expire_index i c = Ok c' ->
  c' = with_docs c (List.filter (fun kd => negb (exp_i (now c) i (snd kd))) (docs c)).
Proof.
  unfold expire_index, exp_i, active_spec. intros H.
  destruct (ittl i) as [sv|].
  2:{ inv_pair H. simpl. rewrite filter_true, with_docs_id. reflexivity. }
  destruct (ttl_seconds sv) as [[n|]|e]; simpl in H; try discriminate.
  2:{ inv_pair H. simpl. rewrite filter_true, with_docs_id. reflexivity. }
  destruct (ikey i) as [ | [f dv] [ | x rest ] ].
  - inv_pair H. simpl. rewrite filter_true, with_docs_id. reflexivity.
  - match type of H with (if ?b then _ else _) = _ => destruct b end; [ discriminate | ].
    inv_pair H. reflexivity.
  - inv_pair H. simpl. rewrite filter_true, with_docs_id. reflexivity.
Qed.

Lemma efold_err is e : efold is (Err e) = Err e.
Proof. unfold efold. induction is as [ | i is IH ]; simpl; auto. Qed.

Lemma efold_cons i is c : efold (i :: is) (Ok c) = efold is (expire_index i c).
Proof. reflexivity. Qed.

Lemma efold_char : forall is c c',
  efold is (Ok c) = Ok c' ->
  c' = with_docs c (List.filter (fun kd => negb (exp_idx is (now c) (snd kd))) (docs c)).
Proof.
  induction is as [ | i is IH ]; intros c c' H.
  - unfold efold in H. simpl in H. inv_pair H. simpl.
    rewrite filter_true, with_docs_id. reflexivity.
  - rewrite efold_cons in H.
    destruct (expire_index i c) as [c1|e] eqn:E; [ | rewrite efold_err in H; discriminate ].
    apply expire_index_char in E. apply IH in H. subst c1. simpl in H. subst c'.
    unfold with_docs at 1. simpl. unfold with_docs. f_equal.
    rewrite filter_filter. apply filter_ext. intros kd. simpl.
    rewrite negb_orb. reflexivity.
Qed.

Lemma expire_char c c' :
  expire c = Ok c' ->
  c' = with_docs c (List.filter (fun kd => negb (exp_idx (idx c) (now c) (snd kd))) (docs c)).
Proof. rewrite expire_efold. apply efold_char. Qed.

Lemma expire_docs c c' :
  expire c = Ok c' ->
  docs c' = List.filter (fun kd => negb (exp_idx (idx c) (now c) (snd kd))) (docs c).
Proof. intros H. apply expire_char in H. subst. reflexivity. Qed.

Lemma expire_frame c c' :
  expire c = Ok c' ->
  idx c' = idx c /\ now c' = now c /\ forced c' = forced c /\ next_oid c' = next_oid c
  /\ odocs c' = odocs c.
Proof. intros H. apply expire_char in H. subst. simpl. auto. Qed.

Lemma expire_live c c' : expire c = Ok c' -> live (idx c) (now c) (docs c').
Proof.
  intros H kd Hin. rewrite (expire_docs _ _ H) in Hin. apply filter_In in Hin.
  destruct Hin as [_ Hn]. apply negb_true_iff in Hn. exact Hn.
Qed.

Lemma expire_sub c c' : expire c = Ok c' -> sub (docs c') (docs c).
Proof. intros H. rewrite (expire_docs _ _ H). apply filter_sub. Qed.

Lemma expire_keeps c c' kd :
  expire c = Ok c' -> In kd (docs c) -> In kd (docs c') \/ exp_idx (idx c) (now c) (snd kd) = true.
Proof.
  intros H Hin. rewrite (expire_docs _ _ H).
  destruct (exp_idx (idx c) (now c) (snd kd)) eqn:E; [ right; reflexivity | left ].
  apply filter_In. split; [ exact Hin | rewrite E; reflexivity ].
Qed.

Lemma expire_if_cases b c c' : expire_if b c = Ok c' -> c' = c \/ expire c = Ok c'.
Proof. destruct b; simpl; intros H; [ right; exact H | left; inv_pair H; reflexivity ]. Qed.

(* the errors of expire are never write errors *)
Lemma expire_index_err i c e : expire_index i c = Err e -> is_write_error e = false.
Proof.
  unfold expire_index. intros H.
  destruct (ittl i) as [sv|]; [ | discriminate ].
  destruct (ttl_seconds sv) as [[n|]|e'] eqn:Et; simpl in H; try discriminate.
  - destruct (ikey i) as [ | [f dv] [ | x rest ] ]; try discriminate.
    match type of H with (if ?b then _ else _) = _ => destruct b end; [ | discriminate ].
    inv_pair H. reflexivity.
  - inv_pair H. unfold ttl_seconds in Et.
    destruct sv; try (inv_pair Et; reflexivity); try discriminate.
    destruct (as_index s); [ discriminate | ].
    destruct (part_modelled s); [ discriminate | inv_pair Et; reflexivity ].
Qed.

Lemma efold_err_nw : forall is c e, efold is (Ok c) = Err e -> is_write_error e = false.
Proof.
  induction is as [ | i is IH ]; intros c e H.
  - discriminate.
  - rewrite efold_cons in H. destruct (expire_index i c) as [c1|e1] eqn:E.
    + eapply IH. exact H.
    + rewrite efold_err in H. inv_pair H. eapply expire_index_err. exact E.
Qed.

Lemma expire_err_nw c e : expire c = Err e -> is_write_error e = false.
Proof. rewrite expire_efold. apply efold_err_nw. Qed.

(* ================================================================ C09_expire_exact *)
Definition survives (I : list index) (t : Z) (d : value) : Prop :=
  forall i f n, In i I -> active_spec i = Some (f, n) -> meets_expiry (fld f d) n t = false.

Lemma exp_idx_false_iff I t d : exp_idx I t d = false <-> survives I t d.
Proof.
  unfold exp_idx, survives, exp_i. split.
  - intros H i f n Hi Ha. pose proof (existsb_false_in _ _ H i Hi) as Hx. simpl in Hx.
    rewrite Ha in Hx. exact Hx.
  - intros H. apply existsb_false_all. intros i Hi.
    destruct (active_spec i) as [[f n]|] eqn:Ea; [ | reflexivity ].
    eapply H; eauto.
Qed.

Theorem expire_exact c c' :
  expire c = Ok c' ->
  docs c' = List.filter (fun kd => negb (exp_idx (idx c) (now c) (snd kd))) (docs c)
  /\ sub (docs c') (docs c)
  /\ (forall kd, In kd (docs c') <-> In kd (docs c) /\ survives (idx c) (now c) (snd kd))
  /\ idx c' = idx c /\ now c' = now c /\ forced c' = forced c /\ next_oid c' = next_oid c
  /\ odocs c' = odocs c.
Proof.
  intros H. split; [ exact (expire_docs _ _ H) | ]. split; [ exact (expire_sub _ _ H) | ].
  split; [ | exact (expire_frame _ _ H) ].
  intros kd. rewrite (expire_docs _ _ H), filter_In, negb_true_iff, exp_idx_false_iff. tauto.
Qed.

(* ================================================================ C09_never_expires *)
(* the value of the TTL field can never make the document expire at clock t under a delay of
   secs seconds: missing, not a date, an aware date, an array without naive dates or whose
   naive dates all lie in the future, a date in the future *)
Definition in_future (secs t : Z) (y : value) : Prop :=
  match y with VDate us None => t - us < secs * 1000000 | _ => True end.

Definition value_never (secs t : Z) (v : option value) : Prop :=
  match v with
  | None => True
  | Some (VArr xs) => Forall (in_future secs t) xs
  | Some x => in_future secs t x
  end.

Lemma min_date_fold_future secs t xs : forall acc,
  Forall (in_future secs t) xs ->
  (acc = None \/ exists a, acc = Some (inl a) /\ t - a < secs * 1000000) ->
  let r := fold_left (fun (acc : option (Z + value)) y =>
                        match y with
                        | VDate us None =>
                            match acc with
                            | None => Some (inl us)
                            | Some (inl a) => if us <?? a then Some (inl us) else acc
                            | Some (inr _) => acc
                            end
                        | _ => acc
                        end) xs acc in
  r = None \/ exists a, r = Some (inl a) /\ t - a < secs * 1000000.
Proof.
  induction xs as [ | y xs IH ]; intros acc HF Hacc; simpl.
  - exact Hacc.
  - inversion HF as [ | ? ? Hy HF' ]; subst. apply IH; [ exact HF' | ].
    destruct y as [ | | | | | us [tz|] | | | ]; try exact Hacc.
    simpl in Hy. destruct Hacc as [-> | [a [-> Ha]]].
    + right. exists us. split; [ reflexivity | exact Hy ].
    + right. destruct (us <?? a); [ exists us | exists a ]; split; auto.
Qed.

Lemma meets_never secs t v : value_never secs t v -> meets_expiry v secs t = false.
Proof.
  unfold meets_expiry, min_date. destruct v as [x|]; [ | reflexivity ].
  intros H. destruct (negb (truthy x)); [ reflexivity | ].
  destruct x as [ | b | z | e | s | us [tz|] | n | fs | xs ]; try reflexivity.
  - simpl in H. apply Z.leb_gt. lia.
  - simpl in H.
    destruct (min_date_fold_future secs t xs None H (or_introl eq_refl)) as [Hr | [a [Hr Ha]]];
      simpl in Hr; rewrite Hr; [ reflexivity | ].
    apply Z.leb_gt. lia.
Qed.

(* index i cannot expire document d at clock t *)
Definition index_never (t : Z) (i : index) (d : value) : Prop :=
  ittl i = None
  \/ (exists sv, ittl i = Some sv /\ ttl_seconds sv = Ok None)
  \/ (forall f dv, ikey i <> [(f, dv)])
  \/ (exists f dv sv n, ikey i = [(f, dv)] /\ ittl i = Some sv /\ ttl_seconds sv = Ok (Some n)
                        /\ value_never n t (fld f d)).

Lemma index_never_exp t i d : index_never t i d -> exp_i t i d = false.
Proof.
  unfold exp_i, active_spec.
  intros [H | [[sv [H1 H2]] | [H | [f [dv [sv [n [H1 [H2 [H3 H4]]]]]]]]]].
  - rewrite H. reflexivity.
  - rewrite H1, H2. reflexivity.
  - destruct (ittl i) as [sv|]; [ | reflexivity ].
    destruct (ttl_seconds sv) as [[n|]|e]; try reflexivity.
    destruct (ikey i) as [ | [f dv] [ | x rest ] ]; try reflexivity.
    exfalso. eapply H. reflexivity.
  - rewrite H2, H3, H1. apply meets_never. exact H4.
Qed.

Theorem never_expires c c' kd :
  expire c = Ok c' -> In kd (docs c) ->
  (forall i, In i (idx c) -> index_never (now c) i (snd kd)) ->
  In kd (docs c').
Proof.
  intros H Hin Hn. rewrite (expire_docs _ _ H). apply filter_In. split; [ exact Hin | ].
  apply negb_true_iff. unfold exp_idx. apply existsb_false_all. intros i Hi.
  apply index_never_exp. apply Hn. exact Hi.
Qed.

(* ================================================================ C09_gone_for_good, part 1 *)
Lemma expire_index_ok_incl i c c1 c2 :
  expire_index i c = Ok c1 -> incl (docs c2) (docs c) -> exists c3, expire_index i c2 = Ok c3.
Proof.
  unfold expire_index. intros H Hi.
  destruct (ittl i) as [sv|]; [ | eauto ].
  destruct (ttl_seconds sv) as [[n|]|e]; simpl in *; try discriminate; [ | eauto ].
  destruct (ikey i) as [ | [f dv] [ | x rest ] ]; eauto.
  match type of H with (if ?b then _ else _) = _ => destruct b eqn:Eb end; [ discriminate | ].
  rewrite (existsb_incl_false _ _ _ Hi Eb). eauto.
Qed.

Lemma efold_ok_incl : forall is c c' c2,
  efold is (Ok c) = Ok c' -> incl (docs c2) (docs c) -> now c2 = now c ->
  exists c2', efold is (Ok c2) = Ok c2'.
Proof.
  induction is as [ | i is IH ]; intros c c' c2 H Hi Hn.
  - exists c2. reflexivity.
  - rewrite efold_cons in *.
    destruct (expire_index i c) as [c1|e] eqn:E; [ | rewrite efold_err in H; discriminate ].
    destruct (expire_index_ok_incl i c c1 c2 E Hi) as [c3 E3]. rewrite E3.
    pose proof (expire_index_char _ _ _ E) as C1. pose proof (expire_index_char _ _ _ E3) as C3.
    eapply IH; [ exact H | | ].
    + subst c1 c3. simpl. rewrite Hn. apply incl_filter. exact Hi.
    + subst c1 c3. simpl. exact Hn.
Qed.

Theorem expire_idem c c' : expire c = Ok c' -> expire c' = Ok c'.
Proof.
  intros H. pose proof (expire_char _ _ H) as C.
  destruct (efold_ok_incl (idx c) c c' c') as [c'' H2].
  - rewrite <- expire_efold. exact H.
  - subst c'. simpl. intros x Hx. apply filter_In in Hx. tauto.
  - subst c'. reflexivity.
  - assert (Hidx : idx c' = idx c) by (subst c'; reflexivity).
    assert (H3 : expire c' = Ok c'') by (rewrite expire_efold, Hidx; exact H2).
    rewrite H3. f_equal. pose proof (expire_char _ _ H3) as C2.
    rewrite C2. rewrite Hidx.
    assert (Hn : now c' = now c) by (subst c'; reflexivity). rewrite Hn.
    assert (Hd : docs c' = List.filter (fun kd => negb (exp_idx (idx c) (now c) (snd kd))) (docs c))
      by (subst c'; reflexivity).
    rewrite Hd at 1. rewrite filter_idem. rewrite <- Hd. apply with_docs_id.
Qed.
