(* C03 part B -- a covered pipeline followed by one last stage whose answer is compared up to
   the order of the top-level fields: $project with flags (Proofs/C03StageProject.v) *)
From Coq Require Import ZArith List String Bool Ascii Lia Permutation.
From Verif Require Import Value PyEq BsonOrder Path Update Filter FilterSpec FilterGuard Coll Cursor
     Expr ExprSpec Pipeline PipelineSpec PipelineGuard.
From Verif Require Import C01Values C05Values.
From Verif Require Import C03Base C03Laws C03Stages C03StageExpr C03StageProject C03StageProject2 C03StageGroup C03GroupSort C03StageGroup2 C03Pipeline.
Import ListNotations.
Open Scope Z_scope.
Open Scope string_scope.
Open Scope list_scope.

(* ------------------------------------------------------------ composition of the specification *)
Lemma spec_pipeline_undef db stages : spec_pipeline db stages PUndef = PUndef.
Proof.
  induction stages as [|st stages IH]; [reflexivity|].
  destruct st; try reflexivity. destruct fs as [|[op o] [|kv2 tl]]; try reflexivity.
  cbn [spec_pipeline pbind]. exact IH.
Qed.

Lemma spec_pipeline_app db a b : forall c,
  spec_pipeline db (a ++ b) c = spec_pipeline db b (spec_pipeline db a c).
Proof.
  induction a as [|st a IH]; intros c; [reflexivity|].
  destruct st; try (cbn [app spec_pipeline]; rewrite spec_pipeline_undef; reflexivity).
  destruct fs as [|[op o] [|kv2 tl]]; try (cbn [app spec_pipeline]; rewrite spec_pipeline_undef; reflexivity).
  cbn [app spec_pipeline]. apply IH.
Qed.

(* the guard of a concatenation: the guard of the first part and, unless the first part is
   malformed (the specification then leaves everything undecided), the guard of the second
   part on the model's intermediate result *)
Lemma pipeline_reasons_app db a b : forall docs,
  pipeline_reasons db (a ++ b) docs = 0 ->
  pipeline_reasons db a docs = 0 /\
  ((forall c, spec_pipeline db a c = PUndef) \/
   (forall mid, run_pipeline db a docs = Ok mid -> pipeline_reasons db b mid = 0)).
Proof.
  induction a as [|st a IH]; intros docs H.
  - split; [reflexivity|]. right. intros mid Hm. inversion Hm; subst. exact H.
  - assert (Hshape : (exists op o, st = VDoc [(op, o)]) \/
                     ((forall c, spec_pipeline db (st :: a) c = PUndef) /\ pipeline_reasons db (st :: a) docs = 0)).
    { destruct st; try (right; split; [intros c|]; reflexivity).
      destruct fs as [|[op o] [|kv2 tl]]; try (right; split; [intros c|]; reflexivity).
      left. exists op, o. reflexivity. }
    destruct Hshape as [(op & o & ->)|[Hu Hz]]; [|split; [exact Hz|left; exact Hu]].
    cbn [app pipeline_reasons] in H. apply lor_zero in H. destruct H as [H1 H2].
    cbn [pipeline_reasons]. rewrite H1.
    destruct (run_stage db op o docs) as [cur|e] eqn:Hrun.
    + destruct (IH cur H2) as [Ha Hb]. rewrite Ha. split; [reflexivity|].
      destruct Hb as [Hb|Hb].
      * left. intros c. cbn [spec_pipeline]. apply Hb.
      * right. intros mid Hm. rewrite run_pipeline_cons, Hrun in Hm. exact (Hb mid Hm).
    + split; [reflexivity|]. right. intros mid Hm. rewrite run_pipeline_cons, Hrun in Hm. discriminate.
Qed.

(* ------------------------------------------------------------ one more stage at the end *)
Lemma pipeline_last db docs pre op o (Q : stream -> list value -> Prop) :
  covered_pipeline pre = true ->
  pipeline_reasons db (pre ++ [VDoc [(op, o)]]) docs = 0 ->
  (forall mid, run_pipeline db pre docs = Ok mid -> pipe_reasons db o op mid = 0 ->
     rel_str Q (spec_stage db op o (mkStream mid true [])) (run_stage db op o mid)) ->
  rel_str Q (spec_pipeline db (pre ++ [VDoc [(op, o)]]) (PV (mkStream docs true [])))
            (run_pipeline db (pre ++ [VDoc [(op, o)]]) docs).
Proof.
  intros Hcov Hg Hst.
  destruct (pipeline_reasons_app db pre [VDoc [(op, o)]] docs Hg) as [Hpre Htail].
  rewrite spec_pipeline_app, run_pipeline_app.
  pose proof (pipeline_rel db pre (stages_all_ok db pre) (PV (mkStream docs true [])) (Ok docs)
                (rel_ok docs) Hcov (fun l Hl => match Hl in (_ = r) return
                   (match r with Ok l0 => pipeline_reasons db pre l0 = 0 | Err _ => True end) with
                   | eq_refl => Hpre end)) as Hrel.
  cbv beta iota in Hrel.
  destruct (spec_pipeline db pre (PV (mkStream docs true []))) as [s| |] eqn:Hsp;
    destruct (run_pipeline db pre docs) as [mid|e] eqn:Hrun; cbn [rel] in Hrel; try contradiction.
  - destruct s as [d ord sets]. cbn [s_docs s_ord s_sets] in Hrel. destruct Hrel as (-> & -> & ->).
    cbn [spec_pipeline pbind]. rewrite run_pipeline_single.
    apply Hst; [reflexivity|].
    destruct Htail as [Hu|Ht]; [rewrite Hu in Hsp; discriminate|].
    specialize (Ht mid eq_refl). cbn [pipeline_reasons] in Ht. apply lor_zero in Ht. exact (proj1 Ht).
  - destruct e; try contradiction. cbn [spec_pipeline pbind].
    destruct (spec_stage db op o s); exact I.
  - cbn [spec_pipeline pbind]. destruct e; exact I.
  - rewrite spec_pipeline_undef. exact I.
  - rewrite spec_pipeline_undef. exact I.
Qed.

(* ------------------------------------------------------------ $project last *)
Lemma pipeline_project_rel db docs pre o :
  covered_pipeline pre = true -> project_covered o = true ->
  pipeline_reasons db (pre ++ [VDoc [("$project", o)]]) docs = 0 ->
  (forall mid, run_pipeline db pre docs = Ok mid -> Forall (fun d => wf_value d = true) mid) ->
  rel_gen (fun outs l => Forall2 tperm outs l /\ Forall (fun d => wf_value d = true) l)
          (spec_pipeline db (pre ++ [VDoc [("$project", o)]]) (PV (mkStream docs true [])))
          (run_pipeline db (pre ++ [VDoc [("$project", o)]]) docs).
Proof.
  intros Hcov Hpc Hg Hwf. unfold rel_gen. apply pipeline_last; [exact Hcov|exact Hg|].
  intros mid Hmid Hgm. specialize (Hwf mid Hmid). fold (rel_gen (fun outs l => Forall2 tperm outs l /\ Forall (fun d => wf_value d = true) l)).
  eapply rel_gen_mono; [|apply stage_project_strong; [exact Hpc| |]].
  - intros a b [Hp (ks & bb & ->)]. split; [exact Hp|].
    apply Forall_forall. intros d' Hd'. apply in_map_iff in Hd'. destruct Hd' as (d & <- & Hd).
    apply wf_project_leaf. rewrite Forall_forall in Hwf. exact (Hwf d Hd).
  - rewrite <- (pipe_reasons_basic db o "$project" mid eq_refl). exact Hgm.
  - eapply Forall_impl; [|exact Hwf]. intros d. apply wf_top_nodup.
Qed.

(* documents with the same fields agree in the sense of the specification *)
Lemma wf_fields_in k v fs :
  (fix go (fs : list (string * value)) : bool :=
     match fs with [] => true | (_, v) :: fs' => wf_value v && go fs' end) fs = true ->
  In (k, v) fs -> wf_value v = true.
Proof.
  induction fs as [|[k' v'] fs IH]; intros H Hin; [destruct Hin|].
  apply andb_true_iff in H. destruct H as [Hv H]. destruct Hin as [Heq|Hin].
  - inversion Heq; subst. exact Hv.
  - apply IH; assumption.
Qed.

Lemma tperm_doc_equiv a b : tperm a b -> wf_value b = true -> doc_equiv [] a b = true.
Proof.
  intros (fs & gs & -> & -> & Hp) Hwf. cbn [doc_equiv].
  rewrite (Permutation_length Hp), Nat.eqb_refl. cbn [andb].
  cbn [wf_value] in Hwf. apply andb_true_iff in Hwf. destruct Hwf as [Hn Hv].
  apply nodup_str_NoDup in Hn.
  apply forallb_forall. intros [k v] Hin. cbn [fst snd mem_str].
  assert (Hin' : In (k, v) gs) by (eapply Permutation_in; eassumption).
  rewrite (assoc_nodup_in gs k v Hn Hin'). apply uequiv_refl. exact (wf_fields_in k v gs Hv Hin').
Qed.

Lemma pipeline_project_agrees db docs pre o :
  covered_pipeline pre = true -> project_covered o = true ->
  pipeline_reasons db (pre ++ [VDoc [("$project", o)]]) docs = 0 ->
  (forall mid, run_pipeline db pre docs = Ok mid -> Forall (fun d => wf_value d = true) mid) ->
  agrees (spec_pipeline db (pre ++ [VDoc [("$project", o)]]) (PV (mkStream docs true [])))
         (run_pipeline db (pre ++ [VDoc [("$project", o)]]) docs) <> Some false.
Proof.
  intros Hcov Hpc Hg Hwf. pose proof (pipeline_project_rel db docs pre o Hcov Hpc Hg Hwf) as Hrel.
  destruct (spec_pipeline db (pre ++ [VDoc [("$project", o)]]) (PV (mkStream docs true []))) as [s| |];
    destruct (run_pipeline db (pre ++ [VDoc [("$project", o)]]) docs) as [l|e]; unfold rel_gen in Hrel; cbn [rel_str agrees] in *;
    try discriminate; try contradiction.
  - destruct Hrel as ((Hp & Hw) & Ho & Hs). unfold stream_agrees. rewrite Ho, Hs.
    assert (Hl : list_eqb (doc_equiv []) (s_docs s) l = true).
    { clear Ho Hs. induction Hp as [|a b outs l' Hab _ IH]; [reflexivity|].
      inversion Hw as [|? ? Hb Hw']; subst. cbn [list_eqb].
      rewrite (tperm_doc_equiv a b Hab Hb). exact (IH Hw'). }
    rewrite Hl. discriminate.
  - destruct e; try contradiction; discriminate.
  - destruct e; discriminate.
Qed.

(* ------------------------------------------------------------ $project last, with computed fields *)
Lemma pipeline_project2_rel db docs pre o :
  covered_pipeline pre = true -> project_covered2 o = true ->
  pipeline_reasons db (pre ++ [VDoc [("$project", o)]]) docs = 0 ->
  (forall mid, run_pipeline db pre docs = Ok mid -> Forall (fun d => wf_value d = true) mid) ->
  rel_perm (spec_pipeline db (pre ++ [VDoc [("$project", o)]]) (PV (mkStream docs true [])))
           (run_pipeline db (pre ++ [VDoc [("$project", o)]]) docs).
Proof.
  intros Hcov Hpc Hg Hwf. unfold rel_perm, rel_gen. apply pipeline_last; [exact Hcov|exact Hg|].
  intros mid Hmid Hgm. specialize (Hwf mid Hmid).
  apply stage_project2; [exact Hpc| |].
  - rewrite <- (pipe_reasons_basic db o "$project" mid eq_refl). exact Hgm.
  - eapply Forall_impl; [|exact Hwf]. intros d. apply wf_top_nodup.
Qed.

Lemma rel_perm_agrees p m :
  rel_perm p m -> (forall l, m = Ok l -> Forall (fun d => wf_value d = true) l) ->
  agrees p m <> Some false.
Proof.
  intros Hrel Hw. unfold rel_perm, rel_gen in Hrel. destruct p as [s| |]; destruct m as [l|e]; cbn [rel_str agrees] in *;
    try discriminate; try contradiction.
  - destruct Hrel as (Hp & Ho & Hs). specialize (Hw l eq_refl). unfold stream_agrees. rewrite Ho, Hs.
    assert (Hl : list_eqb (doc_equiv []) (s_docs s) l = true).
    { clear Ho Hs. induction Hp as [|a b outs l' Hab _ IH]; [reflexivity|].
      inversion Hw as [|? ? Hb Hw']; subst. cbn [list_eqb].
      rewrite (tperm_doc_equiv a b Hab Hb). exact (IH Hw'). }
    rewrite Hl. discriminate.
  - destruct e; try contradiction; discriminate.
  - destruct e; discriminate.
Qed.

Lemma pipeline_project2_agrees db docs pre o :
  covered_pipeline pre = true -> project_covered2 o = true ->
  pipeline_reasons db (pre ++ [VDoc [("$project", o)]]) docs = 0 ->
  (forall mid, run_pipeline db pre docs = Ok mid -> Forall (fun d => wf_value d = true) mid) ->
  (forall l, run_pipeline db (pre ++ [VDoc [("$project", o)]]) docs = Ok l -> Forall (fun d => wf_value d = true) l) ->
  agrees (spec_pipeline db (pre ++ [VDoc [("$project", o)]]) (PV (mkStream docs true [])))
         (run_pipeline db (pre ++ [VDoc [("$project", o)]]) docs) <> Some false.
Proof.
  intros Hcov Hpc Hg Hwf Hwo. apply rel_perm_agrees; [|exact Hwo].
  apply pipeline_project2_rel; assumption.
Qed.

(* ------------------------------------------------------------ $group with the key null last *)
Lemma group_rel_agrees p m :
  rel_str group_rel p m -> (forall l, m = Ok l -> Forall (fun d => wf_value d = true) l) ->
  agrees p m <> Some false.
Proof.
  intros Hrel Hw. destruct p as [s| |]; destruct m as [l|e]; cbn [rel_str agrees] in *;
    try discriminate; try contradiction.
  - destruct Hrel as (Ho & Hp & Hsa). specialize (Hw l eq_refl). unfold stream_agrees. rewrite Ho.
    assert (Hl : list_eqb (doc_equiv (s_sets s)) (s_docs s) l = true).
    { clear Ho. induction Hp as [|a b outs l' Hab _ IH]; [reflexivity|].
      inversion Hw as [|? ? Hb Hw']; subst. inversion Hsa as [|? ? Ha Hsa']; subst. cbn [list_eqb].
      rewrite (tperm_doc_equiv_sets _ a b Hab Hb Ha). exact (IH Hsa' Hw'). }
    rewrite Hl. discriminate.
  - destruct e; try contradiction; discriminate.
  - destruct e; discriminate.
Qed.

Lemma pipeline_group_null_rel db docs pre o :
  covered_pipeline pre = true -> group_null_covered o = true ->
  pipeline_reasons db (pre ++ [VDoc [("$group", o)]]) docs = 0 ->
  rel_str group_rel (spec_pipeline db (pre ++ [VDoc [("$group", o)]]) (PV (mkStream docs true [])))
                    (run_pipeline db (pre ++ [VDoc [("$group", o)]]) docs).
Proof.
  intros Hcov Hgc Hg. apply pipeline_last; [exact Hcov|exact Hg|].
  intros mid _ Hgm. apply stage_group_null; [exact Hgc|].
  rewrite <- (pipe_reasons_basic db o "$group" mid eq_refl). exact Hgm.
Qed.

Lemma pipeline_group_null_agrees db docs pre o :
  covered_pipeline pre = true -> group_null_covered o = true ->
  pipeline_reasons db (pre ++ [VDoc [("$group", o)]]) docs = 0 ->
  (forall l, run_pipeline db (pre ++ [VDoc [("$group", o)]]) docs = Ok l -> Forall (fun d => wf_value d = true) l) ->
  agrees (spec_pipeline db (pre ++ [VDoc [("$group", o)]]) (PV (mkStream docs true [])))
         (run_pipeline db (pre ++ [VDoc [("$group", o)]]) docs) <> Some false.
Proof.
  intros Hcov Hgc Hg Hwo. apply group_rel_agrees; [|exact Hwo].
  apply pipeline_group_null_rel; assumption.
Qed.

(* ------------------------------------------------------------ $group with scalar keys last *)
Lemma rel_agree_agrees p m :
  rel_str group_agree p m -> (forall l, m = Ok l -> Forall (fun d => wf_value d = true) l) ->
  agrees p m <> Some false.
Proof.
  intros Hrel Hw. destruct p as [s| |]; destruct m as [l|e]; cbn [rel_str agrees] in *;
    try discriminate; try contradiction.
  - rewrite (Hrel (Hw l eq_refl)). discriminate.
  - destruct e; try contradiction; discriminate.
  - destruct e; discriminate.
Qed.

Lemma pipeline_group_scalar_agrees db docs pre o :
  covered_pipeline pre = true -> group_covered o = true ->
  pipeline_reasons db (pre ++ [VDoc [("$group", o)]]) docs = 0 ->
  (forall mid fs ide, run_pipeline db pre docs = Ok mid -> o = VDoc fs -> assoc "_id" fs = Some ide ->
                      scalar_keys ide mid) ->
  (forall l, run_pipeline db (pre ++ [VDoc [("$group", o)]]) docs = Ok l -> Forall (fun d => wf_value d = true) l) ->
  agrees (spec_pipeline db (pre ++ [VDoc [("$group", o)]]) (PV (mkStream docs true [])))
         (run_pipeline db (pre ++ [VDoc [("$group", o)]]) docs) <> Some false.
Proof.
  intros Hcov Hgc Hg Hsk Hwo. apply rel_agree_agrees; [|exact Hwo].
  apply pipeline_last; [exact Hcov|exact Hg|].
  intros mid Hmid Hgm. apply stage_group_scalar; [exact Hgc| |].
  - rewrite <- (pipe_reasons_basic db o "$group" mid eq_refl). exact Hgm.
  - intros fs ide Ho Ha. exact (Hsk mid fs ide Hmid Ho Ha).
Qed.

Lemma pipeline_group_partial db docs pre o :
  covered_pipeline pre = true -> group_covered o = true ->
  pipeline_reasons db (pre ++ [VDoc [("$group", o)]]) docs = 0 ->
  (forall mid fs ide, run_pipeline db pre docs = Ok mid -> o = VDoc fs -> assoc "_id" fs = Some ide ->
     Forall (fun d => match eval [] d true ide with
                      | EV k => scalar_key k = true
                      | _ => True end) mid) ->
  (forall l, run_pipeline db (pre ++ [VDoc [("$group", o)]]) docs = Ok l -> Forall (fun d => wf_value d = true) l) ->
  agrees (spec_pipeline db (pre ++ [VDoc [("$group", o)]]) (PV (mkStream docs true [])))
         (run_pipeline db (pre ++ [VDoc [("$group", o)]]) docs) <> Some false.
Proof.
  intros Hcov Hgc Hg Hsk Hwo. apply pipeline_group_scalar_agrees; try assumption.
  intros mid fs ide Hmid Ho Ha. specialize (Hsk mid fs ide Hmid Ho Ha).
  unfold scalar_keys. eapply Forall_impl; [|exact Hsk]. intros d Hd. cbv beta in Hd. unfold key_of_model.
  destruct (eval [] d true ide); [exact Hd|reflexivity|exact I].
Qed.
