(* C01 proofs, part 3: the candidate loop of apply() in closed form, and unfolding
   equations for the evaluator. *)
From Coq Require Import ZArith List String Bool Ascii Lia.
From Verif Require Import Value PyEq BsonOrder Path Filter FilterSpec FilterGuard.
From Verif.Proofs Require Import C01Values C01Paths.
Import ListNotations.
Open Scope Z_scope.
Open Scope string_scope.
Open Scope list_scope.

(* the inner `fix loop` of eval_field, parameterised by the per-candidate test and by the
   is_checking_negative_match flag *)
Definition field_loop (test : lookup -> res bool) (neg : bool) :=
  fix loop (C : list lookup) (is_match has_cand : bool) : res loop_out :=
    match C with
    | [] => Ok (LoopEnd is_match has_cand)
    | c :: C' =>
        let hc := has_cand || match c with Some _ => true | None => false end in
        let! m := test c in
        if neg && negb m then Ok LoopReturnFalse
        else if m && negb neg then Ok (LoopEnd true hc)
        else loop C' m hc
    end.

(* what apply() does with the outcome of the loop; pos = is_checking_positive_match *)
Definition loop_clause (pos : bool) (r : res loop_out) : res bool :=
  let! out := r in
  match out with
  | LoopReturnFalse => Ok false
  | LoopEnd is_match has_cand => Ok (negb (negb is_match && (has_cand || pos)))
  end.

Definition sval_test (sv : value) (c : lookup) : res bool :=
  match c with
  | Some (VArr xs) => Ok (py_in sv xs || py_eq sv (VArr xs))
  | Some v => Ok (py_eq v sv)
  | None => Ok (is_null sv)
  end.

Definition sops_test (os : fops) (key : string) (d : value) (c : lookup) : res bool :=
  match fops_unknown os with
  | Some e => Err e
  | None => eval_fops os key c d
  end.

Lemma eval_field_SVal key sv d :
  eval_field key (SVal sv) d =
  let parts := split_dots key in
  if negb (path_modelled parts) then Err EUnmodelled else
  loop_clause (search_pos (SVal sv))
    (field_loop (sval_test sv) (search_neg (SVal sv)) (candidates parts d) false false).
Proof. reflexivity. Qed.

Lemma eval_field_SOps key os d :
  eval_field key (SOps os) d =
  let parts := split_dots key in
  if negb (path_modelled parts) then Err EUnmodelled else
  let C := candidates parts d in
  if is_exists_false (SOps os) && match C with [] => true | _ => false end then Ok true else
  let! pre := eval_all_pre os (fops_len os) C in
  match pre with
  | Some b => Ok b
  | None =>
      loop_clause (fops_has_pos os)
        (field_loop (sops_test os key d) (fops_has_neg os) C false false)
  end.
Proof. reflexivity. Qed.

Lemma eval_field_SMixed key d :
  eval_field key SMixed d =
  if negb (path_modelled (split_dots key)) then Err EUnmodelled else Err EUnmodelled.
Proof. reflexivity. Qed.

(* ---------------------------------------------------------------- closed forms *)
Lemma loop_positive_gen (test : lookup -> res bool) (t : lookup -> bool) pos C :
  (forall c, In c C -> test c = Ok (t c)) ->
  forall hc,
  loop_clause pos (field_loop test false C false hc) =
  Ok (existsb t C || negb (hc || some_present C || pos)).
Proof.
  induction C as [|c C IH]; intros Ht hc.
  - simpl. rewrite orb_false_r. reflexivity.
  - cbn [field_loop]. rewrite (Ht c (or_introl eq_refl)). cbn [bind].
    destruct (t c) eqn:Htc.
    + cbn [existsb andb negb loop_clause bind]. rewrite Htc. reflexivity.
    + cbn [andb negb]. fold (field_loop test false). rewrite IH.
      * cbn [existsb]. rewrite Htc. cbn [orb].
        unfold some_present. cbn [existsb]. rewrite !orb_assoc. reflexivity.
      * intros c' Hc'. apply Ht. right. exact Hc'.
Qed.

Lemma loop_negative_gen (test : lookup -> res bool) (t : lookup -> bool) pos C :
  (forall c, In c C -> test c = Ok (t c)) ->
  forall im hc,
  loop_clause pos (field_loop test true C im hc) =
  Ok (forallb t C && match C with [] => negb (negb im && (hc || pos)) | _ => true end).
Proof.
  induction C as [|c C IH]; intros Ht im hc.
  - reflexivity.
  - cbn [field_loop]. rewrite (Ht c (or_introl eq_refl)). cbn [bind].
    destruct (t c) eqn:Htc.
    + cbn [negb andb]. fold (field_loop test true). rewrite IH.
      * cbn [forallb]. rewrite Htc. cbn [andb]. destruct C; [|rewrite andb_true_r]; reflexivity.
      * intros c' Hc'. apply Ht. right. exact Hc'.
    + cbn [negb andb loop_clause bind forallb]. rewrite Htc. reflexivity.
Qed.

(* is_checking_negative_match = False: the clause holds iff some candidate passes the test,
   or there is nothing to test positively (no present candidate, no positive operator) *)
Lemma loop_positive_lemma (test : lookup -> res bool) (t : lookup -> bool) pos C :
  (forall c, In c C -> test c = Ok (t c)) ->
  loop_clause pos (field_loop test false C false false) =
  Ok (existsb t C || (negb pos && negb (some_present C))).
Proof.
  intros Ht. rewrite (loop_positive_gen test t pos C Ht). cbn [orb].
  rewrite negb_orb, andb_comm. reflexivity.
Qed.

(* is_checking_negative_match = True: every candidate must pass; an empty candidate list
   passes only when there is no positive operator *)
Lemma loop_negative_lemma (test : lookup -> res bool) (t : lookup -> bool) pos C :
  (forall c, In c C -> test c = Ok (t c)) ->
  loop_clause pos (field_loop test true C false false) =
  Ok (forallb t C && (negb pos || match C with [] => false | _ => true end)).
Proof.
  intros Ht. rewrite (loop_negative_gen test t pos C Ht).
  destruct C; cbn [forallb negb andb orb]; [rewrite orb_false_r|rewrite orb_true_r]; reflexivity.
Qed.
