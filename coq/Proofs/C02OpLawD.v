(* C02 proofs, operator laws, part D: $addToSet, $pullAll, $pull (Python == vs BSON equality). *)
From Coq Require Import ZArith List String Bool Ascii Lia.
From Verif Require Import Value PyEq BsonOrder Path Filter FilterSpec FilterGuard Update Project Coll
                          HistCheck HistProps ProjectSpec Cursor UpdateLaws.
From Verif.Proofs Require Import C01Values C12Base C02Base C02Walk C02OpLawA C02OpLawB.
Import ListNotations.
Open Scope Z_scope.
Open Scope string_scope.
Open Scope list_scope.

(* ---------------------------------------------------------------- the extra guards *)
(* $addToSet decides membership with Python ==: True == 1, {a:1,b:2} == {b:2,a:1}, a naive
   datetime never equals an aware one.  The law holds when the operand and the old array are
   eq_compat (no sub-document in the operand, no aware datetime, not bools on one side and
   numbers on the other) *)
Definition addtoset_risk (p : string) (arg d : value) : bool :=
  match at_path p d with
  | Some x => negb (eq_compat x arg)
  | None => false
  end.

(* $pull / $pullAll compare with Python ==: an aware datetime in the stored array never equals
   the (naive, patched) operand although it may denote the same instant *)
Definition aware_risk (p : string) (d : value) : bool :=
  match at_path p d with
  | Some x => has_aware x
  | None => false
  end.

Lemma aware_risk_patched p d : patch d = d -> aware_risk p d = false.
Proof.
  intro H. unfold aware_risk, at_path. destruct (get_by_dot (split_dots p) d) as [x|] eqn:E; [|reflexivity].
  eapply has_aware_get; [apply patch_fix_no_aware; exact H | exact E].
Qed.

(* the $addToSet guard on patched documents and operands: only bools/numbers/sub-documents matter *)
Lemma addtoset_risk_patched p arg d :
  patch d = d -> patch arg = arg -> addtoset_risk p arg d = addtoset_eq_risk p arg d.
Proof.
  intros Hd Ha. pose proof (aware_risk_patched p d Hd) as Hx.
  unfold addtoset_risk, addtoset_eq_risk, aware_risk in *.
  destruct (at_path p d) as [x|]; [|reflexivity].
  unfold eq_compat. rewrite Hx, (patch_fix_no_aware _ Ha).
  destruct (has_doc arg); simpl; [reflexivity|]. reflexivity.
Qed.

(* ---------------------------------------------------------------- $addToSet *)
Definition ats_upd (arg : value) (cur : list value) : list value :=
  match each_of arg with
  | Some each => add_each cur each
  | None => if py_in arg cur then cur else cur ++ [arg]
  end.

Definition ats_f (arg : value) (parent : value) (last : string) : res value :=
  match parent with
  | VDoc fs =>
      match assoc last fs with
      | None => Ok (VDoc (set_key last (VArr (ats_upd arg [])) fs))
      | Some (VArr xs) => Ok (VDoc (set_key last (VArr (ats_upd arg xs)) fs))
      | Some (VStr _) | Some (VDoc _) => Err EUnmodelled
      | Some _ => Err ECrash
      end
  | _ => Err EUnmodelled
  end.

Lemma add_to_set_one_eq spec doc field arg :
  add_to_set_one spec doc field arg =
  if has_each arg && match each_of arg with None => true | _ => false end then Err EUnmodelled else
  match split_dots field with
  | [name] => match doc with VDoc fs => ats_f arg (VDoc fs) name | _ => Err ECrash end
  | _ => let! _ := with_parent_d (split_dots field) doc (fun parent _ => Ok parent) in
         with_parent spec (split_dots field) doc (ats_f arg)
  end.
Proof.
  unfold add_to_set_one. destruct (has_each arg && _); [reflexivity|].
  destruct (split_dots field) as [|a [|b c]]; try reflexivity.
Qed.

Lemma each_of_nodoc a : is_doc a = false -> each_of a = None.
Proof. destruct a; try reflexivity; discriminate. Qed.

(* what the parent-level function does, against the law *)
Lemma ats_core arg pf last r new b :
  is_doc arg = false ->
  match assoc last pf with Some x => eq_compat x arg = true | None => True end ->
  ats_f arg (VDoc pf) last = Ok r ->
  new = get_by_dot [last] r ->
  match assoc last pf with
  | Some (VArr xs) =>
      Some (opt_value_eqb new
              (Some (VArr (if existsb (fun x => bson_eq x arg) xs then xs else xs ++ [arg]))))
  | None => Some (opt_value_eqb new (Some (VArr [arg])))
  | Some _ => None
  end = Some b -> b = true.
Proof.
  intros Hnd Hcompat Hr -> Hlaw. unfold ats_f, ats_upd in Hr. rewrite (each_of_nodoc _ Hnd) in Hr.
  destruct (assoc last pf) as [o|].
  - destruct o as [| | | | | | | |xs]; try discriminate Hlaw.
    inversion Hr; subst r. rewrite get_one_set in Hlaw.
    assert (E : py_in arg xs = existsb (fun x => bson_eq x arg) xs).
    { unfold py_in. apply existsb_ext_in. intros e He.
      apply eq_compat_py. eapply eq_compat_elem; eassumption. }
    rewrite E, opt_value_eqb_refl in Hlaw. congruence.
  - inversion Hr; subst r. rewrite get_one_set in Hlaw. simpl in Hlaw.
    rewrite value_eqb_refl in Hlaw. simpl in Hlaw. congruence.
Qed.

Lemma op_law_addToSet spec p arg now d d' b :
  patch arg = arg -> addtoset_risk p arg d = false ->
  apply_update spec (VDoc [("$addToSet", VDoc [(p, arg)])]) false now d = Ok d' ->
  op_law "$addToSet" p arg now d d' = Some b -> b = true.
Proof.
  intros Hpatch Hrisk Hupd Hlaw. law_start Hlaw law_addToSet p d Hpre Hne.
  rewrite Hpatch in Hlaw.
  assert (Hnd : is_doc arg = false).
  { destruct arg; try reflexivity.
    destruct (get_by_dot (split_dots p) d) as [[]|]; discriminate Hlaw. }
  assert (Hlaw' : match get_by_dot (split_dots p) d with
    | Some (VArr xs) =>
        Some (opt_value_eqb (get_by_dot (split_dots p) d')
                (Some (VArr (if existsb (fun x => bson_eq x arg) xs then xs else xs ++ [arg]))))
    | None => Some (opt_value_eqb (get_by_dot (split_dots p) d') (Some (VArr [arg])))
    | Some _ => None
    end = Some b).
  { clear Hpatch Hrisk Hupd. destruct arg; try discriminate Hnd;
      destruct (get_by_dot (split_dots p) d) as [[]|]; exact Hlaw. }
  clear Hlaw. rename Hlaw' into Hlaw.
  unfold addtoset_risk, at_path in Hrisk.
  rewrite (old_pfs _ _ Hne Hpre) in Hlaw, Hrisk.
  assert (Hcompat : match assoc (lst (split_dots p)) (pfs (split_dots p) d) with
                    | Some x => eq_compat x arg = true | None => True end).
  { destruct (assoc (lst (split_dots p)) (pfs (split_dots p) d)); [|exact I].
    apply negb_false_iff in Hrisk. exact Hrisk. }
  apply upd_addToSet in Hupd. rewrite add_to_set_one_eq in Hupd.
  destruct (has_each arg && _); [discriminate|].
  remember (split_dots p) as parts eqn:Eparts.
  destruct parts as [|n1 [|n2 rest]]; [congruence| |].
  - destruct (parent_ok_doc _ _ Hpre) as [fs ->].
    eapply ats_core; [exact Hnd | exact Hcompat | exact Hupd | reflexivity | exact Hlaw].
  - bind_inv Hupd ign Hign. unfold with_parent in Hupd.
    destruct (wps_parent _ _ _ _ _ Hne Hpre Hupd) as [r [Hr Hg]].
    eapply ats_core; [exact Hnd | exact Hcompat | exact Hr | exact Hg | exact Hlaw].
Qed.

(* ---------------------------------------------------------------- $pullAll *)
Definition pa_keep (vals xs : list value) : list value :=
  List.filter (fun o => negb (py_in o vals)) xs.

Definition pa_f (vals : list value) (parent : value) (last : string) : res value :=
  match parent with
  | VDoc fs =>
      match assoc last fs with
      | None => Ok parent
      | Some (VArr xs) => Ok (VDoc (set_key last (VArr (pa_keep vals xs)) fs))
      | Some _ => Err EUnmodelled
      end
  | _ => Err EUnmodelled
  end.

Lemma pull_all_one_eq spec doc field vals :
  pull_all_one spec doc field (VArr vals) =
  match split_dots field with
  | [name] => match doc with VDoc fs => pa_f vals (VDoc fs) name | _ => Err ECrash end
  | _ => with_parent spec (split_dots field) doc (pa_f vals)
  end.
Proof.
  unfold pull_all_one. destruct (split_dots field) as [|a [|b c]]; try reflexivity.
  destruct doc; reflexivity.
Qed.

Lemma filter_ext_in' {A} (f g : A -> bool) l :
  (forall a, In a l -> f a = g a) -> List.filter f l = List.filter g l.
Proof.
  induction l as [|x l IH]; intro H; [reflexivity|]. simpl.
  rewrite (H x (or_introl eq_refl)), IH; [reflexivity|]. intros a Ha. apply H. right. exact Ha.
Qed.

Lemma pa_core vals pf last r new b :
  patch (VArr vals) = VArr vals ->
  match assoc last pf with Some x => has_aware x = false | None => True end ->
  pa_f vals (VDoc pf) last = Ok r ->
  new = get_by_dot [last] r ->
  match assoc last pf with
  | Some (VArr xs) =>
      if existsb has_bool_or_doc (xs ++ vals) then None else
      Some (opt_value_eqb new
              (Some (VArr (remove_all (fun x => existsb (bson_eq x) vals) xs))))
  | None => Some (match new with None => true | Some _ => false end)
  | _ => None
  end = Some b -> b = true.
Proof.
  intros Hpatch Haw Hr -> Hlaw. unfold pa_f in Hr.
  destruct (assoc last pf) as [o|] eqn:Ea.
  - destruct o as [| | | | | | | |xs]; try discriminate Hlaw.
    inversion Hr; subst r. rewrite get_one_set in Hlaw.
    destruct (existsb has_bool_or_doc (xs ++ vals)) eqn:Eb; [discriminate|].
    rewrite existsb_app in Eb. apply orb_false_iff in Eb. destruct Eb as [Ebx Ebv].
    apply patch_fix_no_aware in Hpatch. rewrite has_aware_arr in Hpatch, Haw.
    assert (E : pa_keep vals xs = remove_all (fun x => existsb (bson_eq x) vals) xs).
    { unfold pa_keep, remove_all, py_in. apply filter_ext_in'. intros x Hx. f_equal.
      apply existsb_ext_in. intros v Hv.
      apply (agree_plain x v);
        [ exact (existsb_false_In _ _ Ebx x Hx) | exact (existsb_false_In _ _ Ebv v Hv)
        | exact (existsb_false_In _ _ Haw x Hx) | exact (existsb_false_In _ _ Hpatch v Hv) ]. }
    rewrite E, opt_value_eqb_refl in Hlaw. congruence.
  - inversion Hr; subst r. rewrite get_one_doc, Ea in Hlaw. congruence.
Qed.

Lemma op_law_pullAll spec p arg now d d' b :
  patch arg = arg -> aware_risk p d = false ->
  apply_update spec (VDoc [("$pullAll", VDoc [(p, arg)])]) false now d = Ok d' ->
  op_law "$pullAll" p arg now d d' = Some b -> b = true.
Proof.
  intros Hpatch Hrisk Hupd Hlaw. law_start Hlaw law_pullAll p d Hpre Hne.
  rewrite Hpatch in Hlaw. apply upd_pullAll in Hupd.
  destruct arg as [| | | | | | | |vals]; try (unfold pull_all_one in Hupd; discriminate Hupd).
  rewrite pull_all_one_eq in Hupd.
  unfold aware_risk, at_path in Hrisk.
  rewrite (old_pfs _ _ Hne Hpre) in Hlaw, Hrisk.
  assert (Haw : match assoc (lst (split_dots p)) (pfs (split_dots p) d) with
                | Some x => has_aware x = false | None => True end).
  { destruct (assoc (lst (split_dots p)) (pfs (split_dots p) d)); [exact Hrisk|exact I]. }
  assert (Hlaw' : match assoc (lst (split_dots p)) (pfs (split_dots p) d) with
    | Some (VArr xs) =>
        if existsb has_bool_or_doc (xs ++ vals) then None else
        Some (opt_value_eqb (get_by_dot (split_dots p) d')
                (Some (VArr (remove_all (fun x => existsb (bson_eq x) vals) xs))))
    | None => Some (match get_by_dot (split_dots p) d' with None => true | Some _ => false end)
    | _ => None
    end = Some b).
  { destruct (assoc (lst (split_dots p)) (pfs (split_dots p) d)) as [[]|]; exact Hlaw. }
  clear Hlaw.
  remember (split_dots p) as parts eqn:Eparts.
  destruct parts as [|n1 [|n2 rest]]; [congruence| |].
  - destruct (parent_ok_doc _ _ Hpre) as [fs ->].
    eapply pa_core; [exact Hpatch | exact Haw | exact Hupd | reflexivity | exact Hlaw'].
  - unfold with_parent in Hupd.
    destruct (wps_parent _ _ _ _ _ Hne Hpre Hupd) as [r [Hr Hg]].
    eapply pa_core; [exact Hpatch | exact Haw | exact Hr | exact Hg | exact Hlaw'].
Qed.

(* ---------------------------------------------------------------- $pull *)
Lemma pull_one_nodoc d p arg :
  is_doc arg = false ->
  pull_one d p arg =
  pull_walk (split_dots p) d (fun xs => Ok (List.filter (fun o => negb (py_eq arg o)) xs)).
Proof. destruct arg; try discriminate; reflexivity. Qed.

Lemma op_law_pull spec p arg now d d' b :
  patch arg = arg -> aware_risk p d = false ->
  apply_update spec (VDoc [("$pull", VDoc [(p, arg)])]) false now d = Ok d' ->
  op_law "$pull" p arg now d d' = Some b -> b = true.
Proof.
  intros Hpatch Hrisk Hupd Hlaw. law_start Hlaw law_pull p d Hpre Hne.
  rewrite Hpatch in Hlaw.
  assert (Hnd : is_doc arg = false).
  { destruct arg; try reflexivity.
    destruct (get_by_dot (split_dots p) d) as [[]|]; discriminate Hlaw. }
  assert (Hlaw' : match get_by_dot (split_dots p) d with
    | Some (VArr xs) =>
        if existsb has_bool_or_doc (arg :: xs) then None else
        Some (opt_value_eqb (get_by_dot (split_dots p) d')
                (Some (VArr (remove_all (fun x => bson_eq x arg) xs))))
    | _ => None
    end = Some b).
  { clear Hpatch Hrisk Hupd. destruct arg; try discriminate Hnd;
      destruct (get_by_dot (split_dots p) d) as [[]|]; exact Hlaw. }
  clear Hlaw. rename Hlaw' into Hlaw.
  apply upd_pull in Hupd. rewrite (pull_one_nodoc _ _ _ Hnd) in Hupd.
  unfold aware_risk, at_path in Hrisk.
  destruct (get_by_dot (split_dots p) d) as [o|] eqn:Eo; [|discriminate].
  destruct o as [| | | | | | | |xs]; try discriminate Hlaw.
  destruct (pull_walk_arr _ _ _ _ _ Hpre Eo Hupd) as [ys [Hy Hg]].
  inversion Hy; subst ys. rewrite Hg in Hlaw.
  destruct (existsb has_bool_or_doc (arg :: xs)) eqn:Eb; [discriminate|].
  apply existsb_false_cons in Eb. destruct Eb as [Eba Ebx].
  apply patch_fix_no_aware in Hpatch. rewrite has_aware_arr in Hrisk.
  assert (E : List.filter (fun o => negb (py_eq arg o)) xs = remove_all (fun x => bson_eq x arg) xs).
  { unfold remove_all. apply filter_ext_in'. intros x Hx. f_equal.
    apply (agree_plain x arg);
      [ exact (existsb_false_In _ _ Ebx x Hx) | exact Eba
      | exact (existsb_false_In _ _ Hrisk x Hx) | exact Hpatch ]. }
  rewrite E, opt_value_eqb_refl in Hlaw. congruence.
Qed.
