(* C02 proofs, part 3: the frame predicate: unfolding, a stronger transitive relation
   [sframe] (arrays never shrink below an element that is not addressed as a whole) that is
   reflexive on well-formed values and implies [frame]. *)
From Coq Require Import ZArith List String Bool Ascii Lia.
From Verif Require Import Value PyEq BsonOrder Path Filter FilterSpec Update Project Coll
                          HistCheck HistProps ProjectSpec Cursor UpdateLaws.
From Verif.Proofs Require Import C01Values C12Base C02Base.
Import ListNotations.
Open Scope Z_scope.
Open Scope string_scope.
Open Scope list_scope.

(* ---------------------------------------------------------------- frame, unfolded *)
Definition order_ok (P : list (list string)) (fs gs : list (string * value)) : bool :=
  list_eqb String.eqb
    (List.filter (fun k => match below k P with [] => true | _ => false end) (map fst fs))
    (List.filter (fun k => match below k P with [] => has_key k fs | _ => false end) (map fst gs)).

Definition new_ok (P : list (list string)) (fs gs : list (string * value)) : bool :=
  forallb (fun kv => has_key (fst kv) fs
                     || match below (fst kv) P with [] => false | _ => true end) gs.

Definition frame_arr (fr : list (list string) -> value -> value -> bool)
           (paths : list (list string)) :=
  fix go (xs ys : list value) (i : nat) : bool :=
    match xs with
    | [] => true
    | x :: xs' =>
        let sub := below (string_of_nat i) paths in
        match ys with
        | y :: ys' =>
            (match sub with
             | [] => value_eqb x y
             | _ => if names_whole sub then true else fr sub x y
             end) && go xs' ys' (S i)
        | [] => match sub with [] => false | _ => names_whole sub end
        end
    end.

Lemma frame_S f P d d' :
  frame (S f) P d d' =
  match P with
  | [] => value_eqb d d'
  | _ =>
      if names_whole P then true else
      match d, d' with
      | VDoc fs, VDoc gs =>
          forallb (fun kv =>
             match below (fst kv) P with
             | [] => match assoc (fst kv) gs with
                     | Some v' => value_eqb (snd kv) v'
                     | None => false end
             | sub => if names_whole sub then true
                      else match assoc (fst kv) gs with
                           | Some v' => frame f sub (snd kv) v'
                           | None => false end
             end) fs
          && order_ok P fs gs && new_ok P fs gs
      | VArr xs, VArr ys => frame_arr (frame f) P xs ys O
      | _, _ => value_eqb d d'
      end
  end.
Proof. reflexivity. Qed.

Lemma frame_S_nil f d d' : frame (S f) [] d d' = value_eqb d d'.
Proof. reflexivity. Qed.

Lemma frame_S_ne f P d d' :
  P <> [] ->
  frame (S f) P d d' =
  if names_whole P then true else
  match d, d' with
  | VDoc fs, VDoc gs =>
      forallb (fun kv =>
         match below (fst kv) P with
         | [] => match assoc (fst kv) gs with
                 | Some v' => value_eqb (snd kv) v'
                 | None => false end
         | sub => if names_whole sub then true
                  else match assoc (fst kv) gs with
                       | Some v' => frame f sub (snd kv) v'
                       | None => false end
         end) fs
      && order_ok P fs gs && new_ok P fs gs
  | VArr xs, VArr ys => frame_arr (frame f) P xs ys O
  | _, _ => value_eqb d d'
  end.
Proof. intro H. destruct P; [congruence|reflexivity]. Qed.

(* ---------------------------------------------------------------- well-formed values *)
Lemma wf_doc_iff fs :
  wf_value (VDoc fs) = true <->
  NoDup (map fst fs) /\ Forall (fun kv => wf_value (snd kv) = true) fs.
Proof.
  simpl. rewrite andb_true_iff, nodup_str_NoDup.
  assert (H : (fix go (fs0 : list (string * value)) : bool :=
                 match fs0 with [] => true | (_, v) :: fs' => wf_value v && go fs' end) fs = true
              <-> Forall (fun kv => wf_value (snd kv) = true) fs).
  { induction fs as [|[k v] fs IH]; [split; [constructor|reflexivity]|].
    rewrite andb_true_iff, IH. split.
    - intros [H1 H2]. constructor; assumption.
    - intro H. inversion H; subst. split; assumption. }
  rewrite H. reflexivity.
Qed.

Lemma wf_arr_iff xs :
  wf_value (VArr xs) = true <-> Forall (fun x => wf_value x = true) xs.
Proof.
  simpl. induction xs as [|x xs IH]; [split; [constructor|reflexivity]|].
  rewrite andb_true_iff, IH. split.
  - intros [H1 H2]. constructor; assumption.
  - intro H. inversion H; subst. split; assumption.
Qed.

Lemma wf_doc_assoc fs k v : wf_value (VDoc fs) = true -> assoc k fs = Some v -> wf_value v = true.
Proof.
  intros Hwf Ha. apply wf_doc_iff in Hwf. destruct Hwf as [_ Hall].
  rewrite Forall_forall in Hall. apply (Hall (k, v)). apply assoc_Some_in. exact Ha.
Qed.

Lemma wf_doc_in fs k v : wf_value (VDoc fs) = true -> In (k, v) fs ->
  wf_value v = true /\ assoc k fs = Some v.
Proof.
  intros Hwf Hin. apply wf_doc_iff in Hwf. destruct Hwf as [Hnd Hall].
  rewrite Forall_forall in Hall. split; [apply (Hall (k, v)); exact Hin|].
  apply in_assoc; assumption.
Qed.

Lemma wf_arr_nth xs j x : wf_value (VArr xs) = true -> nth_error xs j = Some x -> wf_value x = true.
Proof.
  intros Hwf Hn. apply wf_arr_iff in Hwf. rewrite Forall_forall in Hwf.
  apply Hwf. eapply nth_error_In. exact Hn.
Qed.

Lemma Forall_set_key {A} (Q : string * A -> Prop) k v (l : list (string * A)) :
  Forall Q l -> Q (k, v) -> Forall Q (set_key k v l).
Proof.
  intros Hl Hq. induction l as [|[k2 v2] l IH]; simpl.
  - constructor; [exact Hq|constructor].
  - inversion Hl; subst. destruct (k =? k2); constructor; auto.
Qed.

Lemma Forall_del_key {A} (Q : string * A -> Prop) k (l : list (string * A)) :
  Forall Q l -> Forall Q (del_key k l).
Proof.
  intros Hl. induction l as [|[k2 v2] l IH]; simpl; [constructor|].
  inversion Hl; subst. destruct (k =? k2); [assumption|constructor; auto].
Qed.

Lemma wf_set_key fs k v :
  wf_value (VDoc fs) = true -> wf_value v = true -> wf_value (VDoc (set_key k v fs)) = true.
Proof.
  rewrite !wf_doc_iff. intros [Hnd Hall] Hv. split; [apply NoDup_set_key; exact Hnd|].
  apply Forall_set_key; assumption.
Qed.

Lemma wf_del_key fs k :
  wf_value (VDoc fs) = true -> wf_value (VDoc (del_key k fs)) = true.
Proof.
  rewrite !wf_doc_iff. intros [Hnd Hall]. split; [apply NoDup_del_key; exact Hnd|].
  apply Forall_del_key; assumption.
Qed.

Lemma Forall_set_nth {A} (Q : A -> Prop) n x (l : list A) :
  Forall Q l -> Q x -> Forall Q (set_nth n x l).
Proof.
  intros Hl Hx. revert n. induction Hl as [|y l Hy Hl IH]; intros [|n]; simpl;
    try constructor; auto.
Qed.

Lemma wf_set_nth xs n x :
  wf_value (VArr xs) = true -> wf_value x = true -> wf_value (VArr (set_nth n x xs)) = true.
Proof. rewrite !wf_arr_iff. intros. apply Forall_set_nth; assumption. Qed.

Lemma wf_pad xs n : wf_value (VArr xs) = true -> wf_value (VArr (pad_to n xs)) = true.
Proof.
  rewrite !wf_arr_iff. intro H. unfold pad_to. apply Forall_app. split; [exact H|].
  apply Forall_forall. intros x Hx. apply repeat_spec in Hx. subst x. reflexivity.
Qed.

(* ---------------------------------------------------------------- has_key *)
Lemma has_key_In {A} k (l : list (string * A)) : has_key k l = true <-> In k (map fst l).
Proof.
  induction l as [|[k2 v2] l IH]; simpl; [split; [discriminate|contradiction]|].
  rewrite orb_true_iff, IH, String.eqb_eq. split; intros [H|H]; auto.
Qed.

Lemma has_key_assoc_some {A} k (l : list (string * A)) v : assoc k l = Some v -> has_key k l = true.
Proof. intro H. apply has_key_In. eapply assoc_Some_key. exact H. Qed.

Lemma list_eqb_refl (l : list string) : list_eqb String.eqb l l = true.
Proof. induction l as [|x l IH]; simpl; [reflexivity|]. rewrite String.eqb_refl, IH. reflexivity. Qed.

Lemma list_eqb_eq (l m : list string) : list_eqb String.eqb l m = true -> l = m.
Proof.
  revert m; induction l as [|x l IH]; intros [|y m]; simpl; try discriminate; [reflexivity|].
  rewrite andb_true_iff, String.eqb_eq. intros [-> H]. f_equal. apply IH. exact H.
Qed.

Lemma filter_ext_in' {A} (f g : A -> bool) l :
  (forall x, In x l -> f x = g x) -> List.filter f l = List.filter g l.
Proof.
  induction l as [|x l IH]; intro H; simpl; [reflexivity|].
  rewrite (H x (or_introl eq_refl)), IH; [reflexivity|]. intros y Hy. apply H. right. exact Hy.
Qed.

Lemma filter_filter {A} (f g : A -> bool) l :
  List.filter f (List.filter g l) = List.filter (fun x => g x && f x) l.
Proof.
  induction l as [|x l IH]; simpl; [reflexivity|].
  destruct (g x); simpl; [destruct (f x); rewrite IH; reflexivity | exact IH].
Qed.

(* ---------------------------------------------------------------- the strong frame *)
Fixpoint sframe (fuel : nat) (P : list (list string)) (d d' : value) : Prop :=
  match fuel with
  | O => True
  | S f =>
      match P with
      | [] => d = d'
      | _ =>
          if names_whole P then True else
          match d, d' with
          | VDoc fs, VDoc gs =>
              (forall k v, In (k, v) fs ->
                 (below k P = [] -> assoc k gs = Some v) /\
                 (below k P <> [] ->
                    names_whole (below k P) = true \/
                    exists v', assoc k gs = Some v' /\ sframe f (below k P) v v'))
              /\ order_ok P fs gs = true /\ new_ok P fs gs = true
          | VArr xs, VArr ys =>
              (List.length xs <= List.length ys)%nat /\
              forall j x, nth_error xs j = Some x ->
                exists y, nth_error ys j = Some y /\
                  (below (string_of_nat j) P = [] -> x = y) /\
                  (below (string_of_nat j) P <> [] ->
                     names_whole (below (string_of_nat j) P) = true \/
                     sframe f (below (string_of_nat j) P) x y)
          | _, _ => d = d'
          end
      end
  end.

Lemma names_whole_nil : names_whole [] = false.
Proof. reflexivity. Qed.

Lemma sframe_whole f P d d' : names_whole P = true -> sframe f P d d'.
Proof.
  intro H. destruct f as [|f]; [exact I|]. destruct P as [|p P]; [discriminate|].
  cbn [sframe]. rewrite H. exact I.
Qed.

Lemma sframe_S_nil f d d' : sframe (S f) [] d d' <-> d = d'.
Proof. reflexivity. Qed.

Lemma sframe_S f P d d' :
  P <> [] -> names_whole P = false ->
  sframe (S f) P d d' <->
  match d, d' with
  | VDoc fs, VDoc gs =>
      (forall k v, In (k, v) fs ->
         (below k P = [] -> assoc k gs = Some v) /\
         (below k P <> [] ->
            names_whole (below k P) = true \/
            exists v', assoc k gs = Some v' /\ sframe f (below k P) v v'))
      /\ order_ok P fs gs = true /\ new_ok P fs gs = true
  | VArr xs, VArr ys =>
      (List.length xs <= List.length ys)%nat /\
      forall j x, nth_error xs j = Some x ->
        exists y, nth_error ys j = Some y /\
          (below (string_of_nat j) P = [] -> x = y) /\
          (below (string_of_nat j) P <> [] ->
             names_whole (below (string_of_nat j) P) = true \/
             sframe f (below (string_of_nat j) P) x y)
  | _, _ => d = d'
  end.
Proof.
  intros Hne Hw. destruct P as [|p P]; [congruence|].
  cbn [sframe]. rewrite Hw. reflexivity.
Qed.

(* ---- order_ok / new_ok: reflexivity and transitivity *)
Lemma order_ok_refl P fs : order_ok P fs fs = true.
Proof.
  unfold order_ok.
  rewrite (filter_ext_in' (fun k => match below k P with [] => has_key k fs | _ => false end)
                          (fun k => match below k P with [] => true | _ => false end)).
  - apply list_eqb_refl.
  - intros k Hk. apply has_key_In in Hk. rewrite Hk. reflexivity.
Qed.

Lemma new_ok_refl P fs : new_ok P fs fs = true.
Proof.
  unfold new_ok. apply forallb_forall. intros [k v] Hin. simpl.
  assert (H : has_key k fs = true) by (apply has_key_In; apply (in_map fst) in Hin; exact Hin).
  rewrite H. reflexivity.
Qed.

Lemma new_ok_spec P fs gs :
  new_ok P fs gs = true <->
  forall k, In k (map fst gs) -> has_key k fs = true \/ below k P <> [].
Proof.
  unfold new_ok. rewrite forallb_forall. split.
  - intros H k Hk. apply in_map_iff in Hk. destruct Hk as [[k' v] [Hk Hin]]. simpl in Hk. subst k'.
    specialize (H _ Hin). simpl in H. apply orb_true_iff in H. destruct H as [H|H]; [left; exact H|].
    right. destruct (below k P); [discriminate|discriminate].
  - intros H [k v] Hin. simpl. destruct (H k) as [H1|H1].
    + apply (in_map fst) in Hin. exact Hin.
    + rewrite H1. reflexivity.
    + destruct (below k P); [congruence|]. apply orb_true_r.
Qed.

Lemma order_ok_trans P fs gs hs :
  (forall k, has_key k fs = true -> below k P = [] -> has_key k gs = true) ->
  order_ok P fs gs = true -> order_ok P gs hs = true -> order_ok P fs hs = true.
Proof.
  unfold order_ok. intros Hkeep H1 H2.
  apply list_eqb_eq in H1. apply list_eqb_eq in H2.
  set (unt := fun k : string => match below k P with [] => true | _ :: _ => false end) in *.
  assert (E1 : forall l, List.filter (fun k => match below k P with [] => has_key k fs | _ => false end) l
                         = List.filter (fun k => has_key k fs) (List.filter unt l)).
  { intro l. rewrite filter_filter. apply filter_ext_in'. intros k _. unfold unt.
    destruct (below k P); reflexivity. }
  assert (E2 : forall l, List.filter (fun k => match below k P with [] => has_key k gs | _ => false end) l
                         = List.filter (fun k => has_key k gs) (List.filter unt l)).
  { intro l. rewrite filter_filter. apply filter_ext_in'. intros k _. unfold unt.
    destruct (below k P); reflexivity. }
  assert (Hgoal : List.filter unt (map fst fs)
                   = List.filter (fun k => match below k P with [] => has_key k fs | _ => false end)
                                 (map fst hs)).
  { rewrite H1, E1, H2, E2, E1, filter_filter.
    apply filter_ext_in'. intros k Hk. apply filter_In in Hk. destruct Hk as [_ Hu].
    unfold unt in Hu. destruct (below k P) eqn:Eb; [|discriminate].
    destruct (has_key k fs) eqn:Ef; [|apply andb_false_r].
    rewrite (Hkeep k Ef Eb). reflexivity. }
  rewrite Hgoal. apply list_eqb_refl.
Qed.

(* ---------------------------------------------------------------- reflexivity *)
Lemma sframe_refl : forall f P d, wf_value d = true -> sframe f P d d.
Proof.
  induction f as [|f IH]; intros P d Hwf; [exact I|].
  destruct P as [|p0 P0] eqn:EP; [reflexivity|]. rewrite <- EP.
  assert (Hne : P <> []) by (rewrite EP; discriminate). clear EP.
  destruct (names_whole P) eqn:Hw; [apply sframe_whole; exact Hw|].
  apply sframe_S; [exact Hne | exact Hw |].
  destruct d as [| | | | | | |fs|xs]; try reflexivity.
  - split; [|split; [apply order_ok_refl | apply new_ok_refl]].
    intros k v Hin. destruct (wf_doc_in _ _ _ Hwf Hin) as [Hv Ha].
    split; [intros _; exact Ha|]. intros _. right. exists v. split; [exact Ha|].
    apply IH. exact Hv.
  - split; [lia|]. intros j x Hj. exists x. split; [exact Hj|].
    split; [reflexivity|]. intros _. right. apply IH. eapply wf_arr_nth; eassumption.
Qed.

(* ---------------------------------------------------------------- transitivity *)
Lemma In_has_key {A} k (v : A) l : In (k, v) l -> has_key k l = true.
Proof. intro H. apply has_key_In. apply (in_map fst) in H. exact H. Qed.

Lemma has_key_In_pair {A} k (l : list (string * A)) : has_key k l = true -> exists v, In (k, v) l.
Proof.
  intro H. apply has_key_In in H. apply in_map_iff in H. destruct H as [[k' v] [Hk Hin]].
  simpl in Hk. subst k'. exists v. exact Hin.
Qed.

Lemma sframe_trans : forall f P a b c, sframe f P a b -> sframe f P b c -> sframe f P a c.
Proof.
  induction f as [|f IH]; intros P a b c H1 H2; [exact I|].
  destruct P as [|p0 P0] eqn:EP.
  { apply sframe_S_nil in H1. apply sframe_S_nil in H2. apply sframe_S_nil. congruence. }
  rewrite <- EP in *. assert (Hne : P <> []) by (rewrite EP; discriminate). clear EP.
  destruct (names_whole P) eqn:Hw; [apply sframe_whole; exact Hw|].
  rewrite sframe_S in H1, H2 by assumption. rewrite sframe_S by assumption.
  destruct a as [| | | | | | |fs|xs]; try (subst b; exact H2).
  - destruct b as [| | | | | | |gs|ys]; try discriminate.
    destruct c as [| | | | | | |hs|zs]; try discriminate.
    destruct H1 as [H1a [H1b H1c]]. destruct H2 as [H2a [H2b H2c]].
    split; [|split].
    + intros k v Hin. destruct (H1a k v Hin) as [Hn Hs]. split.
      * intro Eb. specialize (Hn Eb). apply assoc_Some_in in Hn.
        destruct (H2a k v Hn) as [Hn2 _]. exact (Hn2 Eb).
      * intro Eb. destruct (Hs Eb) as [Hwh|[v' [Ha Hf]]]; [left; exact Hwh|].
        apply assoc_Some_in in Ha. destruct (H2a k v' Ha) as [_ Hs2].
        destruct (Hs2 Eb) as [Hwh|[v'' [Ha2 Hf2]]]; [left; exact Hwh|].
        right. exists v''. split; [exact Ha2|]. eapply IH; eassumption.
    + eapply order_ok_trans; [|exact H1b|exact H2b].
      intros k Hk Eb. apply has_key_In_pair in Hk. destruct Hk as [v Hin].
      destruct (H1a k v Hin) as [Hn _]. eapply has_key_assoc_some. exact (Hn Eb).
    + apply new_ok_spec. intros k Hk.
      destruct (proj1 (new_ok_spec _ _ _) H2c k Hk) as [Hg|Hb]; [|right; exact Hb].
      apply has_key_In in Hg. exact (proj1 (new_ok_spec _ _ _) H1c k Hg).
  - destruct b as [| | | | | | |gs|ys]; try discriminate.
    destruct c as [| | | | | | |hs|zs]; try discriminate.
    destruct H1 as [H1a H1b]. destruct H2 as [H2a H2b].
    split; [lia|]. intros j x Hj.
    destruct (H1b j x Hj) as [y [Hy [Hn Hs]]].
    destruct (H2b j y Hy) as [z [Hz [Hn2 Hs2]]].
    exists z. split; [exact Hz|]. split.
    + intro Eb. rewrite (Hn Eb). exact (Hn2 Eb).
    + intro Eb. destruct (Hs Eb) as [Hwh|Hf]; [left; exact Hwh|].
      destruct (Hs2 Eb) as [Hwh|Hf2]; [left; exact Hwh|].
      right. eapply IH; eassumption.
Qed.

(* ---------------------------------------------------------------- sframe implies frame *)
Lemma frame_arr_of_pointwise (fr : list (list string) -> value -> value -> bool) P :
  forall xs ys i,
    (forall j x, nth_error xs j = Some x ->
       exists y, nth_error ys j = Some y /\
         match below (string_of_nat (i + j)) P with
         | [] => value_eqb x y
         | sub => if names_whole sub then true else fr sub x y
         end = true) ->
    frame_arr fr P xs ys i = true.
Proof.
  induction xs as [|x xs IH]; intros ys i H; [reflexivity|].
  destruct (H O x eq_refl) as [y [Hy Hc]].
  destruct ys as [|y0 ys]; [discriminate|]. simpl in Hy. inversion Hy; subst y0.
  simpl. rewrite Nat.add_0_r in Hc.
  apply andb_true_iff. split.
  - destruct (below (string_of_nat i) P); exact Hc.
  - apply IH. intros j x' Hj. destruct (H (S j) x' Hj) as [y' [Hy' Hc']].
    exists y'. split; [exact Hy'|]. rewrite Nat.add_succ_r in Hc'. exact Hc'.
Qed.

Lemma sframe_frame : forall f P d d', sframe f P d d' -> frame f P d d' = true.
Proof.
  induction f as [|f IH]; intros P d d' H; [reflexivity|].
  destruct P as [|p0 P0] eqn:EP.
  { apply sframe_S_nil in H. subst d'. rewrite frame_S_nil. apply value_eqb_refl. }
  rewrite <- EP in *. assert (Hne : P <> []) by (rewrite EP; discriminate). clear EP.
  rewrite frame_S_ne by exact Hne.
  destruct (names_whole P) eqn:Hw; [reflexivity|].
  rewrite sframe_S in H by assumption.
  destruct d as [| | | | | | |fs|xs]; try (subst d'; apply value_eqb_refl).
  - destruct d' as [| | | | | | |gs|ys]; try discriminate.
    destruct H as [Ha [Hb Hc]]. rewrite Hb, Hc, !andb_true_r.
    apply forallb_forall. intros [k v] Hin. cbn [fst snd].
    destruct (Ha k v Hin) as [Hn Hs].
    destruct (below k P) as [|s0 sub0] eqn:Eb.
    + rewrite (Hn eq_refl). apply value_eqb_refl.
    + destruct (Hs ltac:(discriminate)) as [Hwh|[v' [Hv' Hf]]]; [rewrite Hwh; reflexivity|].
      rewrite Hv'. rewrite (IH _ _ _ Hf). destruct (names_whole (s0 :: sub0)); reflexivity.
  - destruct d' as [| | | | | | |gs|ys]; try discriminate.
    destruct H as [_ Hb]. apply frame_arr_of_pointwise. intros j x Hj.
    destruct (Hb j x Hj) as [y [Hy [Hn Hs]]]. exists y. split; [exact Hy|].
    cbn [Nat.add]. destruct (below (string_of_nat j) P) as [|s0 sub0] eqn:Eb.
    + rewrite (Hn eq_refl). apply value_eqb_refl.
    + destruct (Hs ltac:(discriminate)) as [Hwh|Hf]; [rewrite Hwh; reflexivity|].
      rewrite (IH _ _ _ Hf). destruct (names_whole (s0 :: sub0)); reflexivity.
Qed.
