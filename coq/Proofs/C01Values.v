(* C01 proofs, part 1: facts about values: nested induction, Python == vs BSON equality,
   ordering of scalars. *)
From Coq Require Import ZArith List String Bool Ascii Lia.
From Verif Require Import Value PyEq BsonOrder Path Filter FilterSpec FilterGuard.
Import ListNotations.
Open Scope Z_scope.
Open Scope string_scope.
Open Scope list_scope.

(* ---------------------------------------------------------------- induction on values *)
Section value_ind2.
  Variable P : value -> Prop.
  Hypothesis HNull : P VNull.
  Hypothesis HBool : forall b, P (VBool b).
  Hypothesis HInt : forall z, P (VInt z).
  Hypothesis HDbl : forall e, P (VDbl e).
  Hypothesis HStr : forall s, P (VStr s).
  Hypothesis HDate : forall us tz, P (VDate us tz).
  Hypothesis HOid : forall n, P (VOid n).
  Hypothesis HDoc : forall fs, Forall (fun kv => P (snd kv)) fs -> P (VDoc fs).
  Hypothesis HArr : forall xs, Forall P xs -> P (VArr xs).

  Fixpoint value_ind2 (v : value) : P v :=
    match v with
    | VNull => HNull
    | VBool b => HBool b
    | VInt z => HInt z
    | VDbl e => HDbl e
    | VStr s => HStr s
    | VDate us tz => HDate us tz
    | VOid n => HOid n
    | VDoc fs =>
        HDoc fs ((fix go (fs : list (string * value)) : Forall (fun kv => P (snd kv)) fs :=
                    match fs with
                    | [] => Forall_nil _
                    | kv :: fs' => Forall_cons kv (value_ind2 (snd kv)) (go fs')
                    end) fs)
    | VArr xs =>
        HArr xs ((fix go (xs : list value) : Forall P xs :=
                    match xs with
                    | [] => Forall_nil _
                    | x :: xs' => Forall_cons x (value_ind2 x) (go xs')
                    end) xs)
    end.
End value_ind2.

(* ---------------------------------------------------------------- small boolean tools *)
Lemma existsb_false_cons {A} (f : A -> bool) a l :
  existsb f (a :: l) = false -> f a = false /\ existsb f l = false.
Proof. simpl. intros H. apply orb_false_iff in H. exact H. Qed.

Lemma existsb_false_In {A} (f : A -> bool) l :
  existsb f l = false -> forall a, In a l -> f a = false.
Proof.
  induction l as [|b l IH]; intros H a Ha; [destruct Ha|].
  apply existsb_false_cons in H. destruct H as [Hb Hl].
  destruct Ha as [->|Ha]; [exact Hb|apply IH; assumption].
Qed.

Lemma existsb_all_false {A} (f : A -> bool) l :
  (forall a, In a l -> f a = false) -> existsb f l = false.
Proof.
  induction l as [|b l IH]; intros H; [reflexivity|].
  simpl. rewrite (H b (or_introl eq_refl)). simpl. apply IH.
  intros a Ha. apply H. right. exact Ha.
Qed.

Lemma existsb_ext_in {A} (f g : A -> bool) l :
  (forall a, In a l -> f a = g a) -> existsb f l = existsb g l.
Proof.
  induction l as [|b l IH]; intros H; [reflexivity|].
  simpl. rewrite (H b (or_introl eq_refl)). f_equal. apply IH.
  intros a Ha. apply H. right. exact Ha.
Qed.

Lemma forallb_ext_in {A} (f g : A -> bool) l :
  (forall a, In a l -> f a = g a) -> forallb f l = forallb g l.
Proof.
  induction l as [|b l IH]; intros H; [reflexivity|].
  simpl. rewrite (H b (or_introl eq_refl)). f_equal. apply IH.
  intros a Ha. apply H. right. exact Ha.
Qed.

Lemma forallb_negb_existsb {A} (f : A -> bool) l :
  forallb (fun a => negb (f a)) l = negb (existsb f l).
Proof.
  induction l as [|b l IH]; [reflexivity|]. simpl. rewrite IH, negb_orb. reflexivity.
Qed.

Lemma existsb_map {A B} (g : A -> B) (f : B -> bool) l :
  existsb f (map g l) = existsb (fun a => f (g a)) l.
Proof. induction l as [|b l IH]; [reflexivity|]. simpl. rewrite IH. reflexivity. Qed.

Lemma existsb_flat_map {A B} (g : A -> list B) (f : B -> bool) l :
  existsb f (flat_map g l) = existsb (fun a => existsb f (g a)) l.
Proof.
  induction l as [|b l IH]; [reflexivity|]. simpl. rewrite existsb_app, IH. reflexivity.
Qed.

Lemma existsb_swap {A B} (f : A -> B -> bool) (l : list A) (m : list B) :
  existsb (fun a => existsb (fun b => f a b) m) l =
  existsb (fun b => existsb (fun a => f a b) l) m.
Proof.
  induction l as [|a l IH]; simpl.
  - symmetry. apply existsb_all_false. reflexivity.
  - rewrite IH. clear IH. induction m as [|b m IHm]; [reflexivity|].
    simpl. rewrite <- IHm.
    destruct (f a b), (existsb (fun b0 => f a b0) m), (existsb (fun a0 => f a0 b) l);
      simpl; try reflexivity;
      repeat rewrite orb_true_r; reflexivity.
Qed.

(* ---------------------------------------------------------------- arrays: unfolding *)
Lemma py_eq_arr xs ys : py_eq (VArr xs) (VArr ys) = list_eqb py_eq xs ys.
Proof.
  revert ys. induction xs as [|x xs IH]; intros [|y ys]; try reflexivity.
  simpl. f_equal. apply IH.
Qed.

Lemma bson_eq_arr xs ys : bson_eq (VArr xs) (VArr ys) = list_eqb bson_eq xs ys.
Proof.
  revert ys. induction xs as [|x xs IH]; intros [|y ys]; try reflexivity.
  simpl. f_equal. apply IH.
Qed.

Lemma has_bool_arr xs : has_bool (VArr xs) = existsb has_bool xs.
Proof. induction xs as [|x xs IH]; [reflexivity|]. simpl in *. rewrite IH. reflexivity. Qed.
Lemma has_num_arr xs : has_num (VArr xs) = existsb has_num xs.
Proof. induction xs as [|x xs IH]; [reflexivity|]. simpl in *. rewrite IH. reflexivity. Qed.
Lemma has_aware_arr xs : has_aware (VArr xs) = existsb has_aware xs.
Proof. induction xs as [|x xs IH]; [reflexivity|]. simpl in *. rewrite IH. reflexivity. Qed.
Lemma has_doc_arr xs : has_doc (VArr xs) = existsb has_doc xs.
Proof. induction xs as [|x xs IH]; [reflexivity|]. simpl in *. rewrite IH. reflexivity. Qed.

Lemma py_eq_arr_l xs v : is_arr v = false -> py_eq (VArr xs) v = false.
Proof. destruct v; simpl; intros H; try reflexivity; discriminate. Qed.
Lemma py_eq_arr_r xs v : is_arr v = false -> py_eq v (VArr xs) = false.
Proof. destruct v; simpl; intros H; try reflexivity; discriminate. Qed.
Lemma bson_eq_arr_l xs v : is_arr v = false -> bson_eq (VArr xs) v = false.
Proof. destruct v; simpl; intros H; try reflexivity; discriminate. Qed.
Lemma bson_eq_arr_r xs v : is_arr v = false -> bson_eq v (VArr xs) = false.
Proof. destruct v; simpl; intros H; try reflexivity; discriminate. Qed.

(* ---------------------------------------------------------------- Python == vs BSON == *)
Local Arguments Z.mul : simpl never.
Local Arguments Z.eqb : simpl never.
Local Arguments Z.compare : simpl never.
Definition flags_ok (x v : value) : Prop :=
  (has_bool x = false /\ has_bool v = false) \/ (has_num x = false /\ has_num v = false).

Definition eq_agree (x v : value) : Prop :=
  py_eq x v = bson_eq x v /\ py_eq v x = bson_eq x v.

Lemma Zeqb_8 a b : (8 * a =? 8 * b)%Z = (a =? b)%Z.
Proof. destruct (Z.eqb_spec a b), (Z.eqb_spec (8 * a) (8 * b)); try reflexivity; lia. Qed.

Lemma list_eqb_agree ys :
  Forall (fun v => forall x, has_doc v = false -> has_aware v = false -> has_aware x = false ->
                             flags_ok x v -> eq_agree x v) ys ->
  forall xs,
    existsb has_doc ys = false -> existsb has_aware ys = false -> existsb has_aware xs = false ->
    ((existsb has_bool xs = false /\ existsb has_bool ys = false) \/
     (existsb has_num xs = false /\ existsb has_num ys = false)) ->
    list_eqb py_eq xs ys = list_eqb bson_eq xs ys /\
    list_eqb py_eq ys xs = list_eqb bson_eq xs ys.
Proof.
  induction 1 as [|y ys Hy Hys IH]; intros [|x xs] Hd Ha Hax Hf; try (split; reflexivity).
  apply existsb_false_cons in Hd. destruct Hd as [Hdy Hdys].
  apply existsb_false_cons in Ha. destruct Ha as [Hay Hays].
  apply existsb_false_cons in Hax. destruct Hax as [Hax Haxs].
  assert (Hfx : flags_ok x y /\
                ((existsb has_bool xs = false /\ existsb has_bool ys = false) \/
                 (existsb has_num xs = false /\ existsb has_num ys = false))).
  { destruct Hf as [[H1 H2]|[H1 H2]];
      apply existsb_false_cons in H1; apply existsb_false_cons in H2;
      destruct H1 as [H1a H1b]; destruct H2 as [H2a H2b].
    - split; [left|left]; split; assumption.
    - split; [right|right]; split; assumption. }
  destruct Hfx as [Hfx Hfxs].
  destruct (Hy x Hdy Hay Hax Hfx) as [E1 E2].
  destruct (IH xs Hdys Hays Haxs Hfxs) as [E3 E4].
  simpl. rewrite E1, E2, E3, E4. split; reflexivity.
Qed.

Lemma py_bson_agree : forall v x,
  has_doc v = false -> has_aware v = false -> has_aware x = false -> flags_ok x v ->
  eq_agree x v.
Proof.
  induction v as [|b|z|e|s|us tz|n|fs _|ys IH] using value_ind2;
    intros x Hd Hav Hax Hf; unfold eq_agree.
  - destruct x; simpl; split; reflexivity.
  - destruct x as [|b'|z'|e'|s'|us' tz'|n'|fs'|xs']; simpl; try (split; reflexivity).
    + destruct b, b'; split; reflexivity.
    + destruct Hf as [[_ H]|[H _]]; simpl in H; discriminate.
    + destruct Hf as [[_ H]|[H _]]; simpl in H; discriminate.
  - destruct x as [|b'|z'|e'|s'|us' tz'|n'|fs'|xs']; simpl; try (split; reflexivity).
    + destruct Hf as [[H _]|[_ H]]; simpl in H; discriminate.
    + rewrite !Zeqb_8, (Z.eqb_sym z z'). split; reflexivity.
    + rewrite (Z.eqb_sym (8 * z) e'). split; reflexivity.
  - destruct x as [|b'|z'|e'|s'|us' tz'|n'|fs'|xs']; simpl; try (split; reflexivity).
    + destruct Hf as [[H _]|[_ H]]; simpl in H; discriminate.
    + rewrite (Z.eqb_sym e (8 * z')). split; reflexivity.
    + rewrite (Z.eqb_sym e e'). split; reflexivity.
  - destruct x as [|b'|z'|e'|s'|us' tz'|n'|fs'|xs']; simpl; try (split; reflexivity).
    rewrite (String.eqb_sym s s'). split; reflexivity.
  - destruct x as [|b'|z'|e'|s'|us' tz'|n'|fs'|xs']; simpl; try (split; reflexivity).
    destruct tz as [tz|]; [simpl in Hav; discriminate|].
    destruct tz' as [tz'|]; [simpl in Hax; discriminate|].
    simpl. rewrite (Z.eqb_sym us us'). split; reflexivity.
  - destruct x as [|b'|z'|e'|s'|us' tz'|n'|fs'|xs']; simpl; try (split; reflexivity).
    rewrite (Z.eqb_sym n n'). split; reflexivity.
  - simpl in Hd. discriminate.
  - destruct x as [|b'|z'|e'|s'|us' tz'|n'|fs'|xs]; try (simpl; split; reflexivity).
    rewrite !py_eq_arr, bson_eq_arr.
    rewrite has_doc_arr in Hd. rewrite has_aware_arr in Hav, Hax.
    unfold flags_ok in Hf. rewrite !has_bool_arr, !has_num_arr in Hf.
    apply list_eqb_agree; assumption.
Qed.

Lemma eq_compat_agree x v : eq_compat x v = true -> eq_agree x v.
Proof.
  unfold eq_compat. intros H.
  apply andb_true_iff in H. destruct H as [H Hf].
  apply andb_true_iff in H. destruct H as [H Hax].
  apply andb_true_iff in H. destruct H as [Hd Hav].
  apply negb_true_iff in Hd, Hav, Hax.
  apply py_bson_agree; try assumption.
  apply orb_true_iff in Hf. destruct Hf as [Hf|Hf]; apply andb_true_iff in Hf;
    destruct Hf as [H1 H2]; apply negb_true_iff in H1, H2; [left|right]; split; assumption.
Qed.

Lemma eq_compat_py x v : eq_compat x v = true -> py_eq x v = bson_eq x v.
Proof. intros H. apply eq_compat_agree in H. exact (proj1 H). Qed.
Lemma eq_compat_py_flip x v : eq_compat x v = true -> py_eq v x = bson_eq x v.
Proof. intros H. apply eq_compat_agree in H. exact (proj2 H). Qed.

Lemma eq_compat_elem xs v e : eq_compat (VArr xs) v = true -> In e xs -> eq_compat e v = true.
Proof.
  unfold eq_compat. rewrite has_aware_arr, has_bool_arr, has_num_arr. intros H He.
  apply andb_true_iff in H. destruct H as [H Hf].
  apply andb_true_iff in H. destruct H as [H Hax].
  rewrite H. simpl.
  apply negb_true_iff in Hax. rewrite (existsb_false_In _ _ Hax e He). simpl.
  apply orb_true_iff in Hf. apply orb_true_iff.
  destruct Hf as [Hf|Hf]; apply andb_true_iff in Hf; destruct Hf as [H1 H2];
    apply negb_true_iff in H1; rewrite (existsb_false_In _ _ H1 e He), H2; [left|right];
    reflexivity.
Qed.

(* ---------------------------------------------------------------- ordering of scalars *)
Lemma bson_compare_scalar op x v :
  is_scalar_operand v = true -> has_aware v = false -> has_aware x = false ->
  bson_compare op x v false = Ok (spec_cmp op (Some x) v).
Proof.
  intros Hs Hav Hax. unfold bson_compare, spec_cmp.
  destruct v as [|b|z|e|s|us tz|n|fs|ys]; try discriminate Hs;
    destruct x as [|b'|z'|e'|s'|us' tz'|n'|fs'|xs']; try reflexivity.
  all: try (destruct tz as [tz|]; [simpl in Hav; discriminate|];
            destruct tz' as [tz'|]; [simpl in Hax; discriminate|]; reflexivity).
Qed.

Lemma py_eq_size n len : py_eq (VInt n) (VInt len) = bson_eq (VInt n) (VInt len).
Proof. simpl. apply Zeqb_8. Qed.
