(* C01 proofs, part 5: the specification of one operator as an aggregate (exists / forall)
   of its leaf over the code's candidate list. *)
From Coq Require Import ZArith List String Bool Ascii Lia.
From Verif Require Import Value PyEq BsonOrder Path Filter FilterSpec FilterGuard.
From Verif.Proofs Require Import C01Values C01Paths C01Loop C01Ops.
Import ListNotations.
Open Scope Z_scope.
Open Scope string_scope.
Open Scope list_scope.

Fixpoint fops_forall (f : fop -> bool) (os : fops) : bool :=
  match os with
  | FNil => true
  | FCons o os' => f o && fops_forall f os'
  end.

Lemma fops_forall_ext (f g : fop -> bool) os :
  (forall o, f o = g o) -> fops_forall f os = fops_forall g os.
Proof.
  intros H. induction os as [|o os IH]; [reflexivity|]. cbn [fops_forall]. rewrite H, IH.
  reflexivity.
Qed.

Lemma some_present_is_some C : some_present C = existsb is_some C.
Proof. reflexivity. Qed.

Lemma falsy_exists_agg C :
  C <> [] ->
  some_present C && existsb (fun c => match c with None => true | _ => false end) C = false ->
  negb (some_present C) = existsb (fun c => negb (is_some c)) C.
Proof.
  intros Hne H. destruct (some_present C) eqn:Hsp.
  - cbn [andb] in H. cbn [negb]. symmetry. apply existsb_all_false. intros c Hc.
    pose proof (existsb_false_In _ _ H c Hc) as Hn. destruct c; [reflexivity|discriminate Hn].
  - cbn [negb]. destruct C as [|c C']; [congruence|].
    unfold some_present in Hsp. apply existsb_false_cons in Hsp. destruct Hsp as [Hc _].
    destruct c; [discriminate Hc|]. reflexivity.
Qed.

Lemma existsb_const {A} (b : bool) (l : list A) : l <> [] -> existsb (fun _ => b) l = b.
Proof.
  intros Hne. destruct l as [|a l]; [congruence|]. cbn [existsb].
  destruct b; [reflexivity|]. cbn [orb]. apply existsb_all_false. reflexivity.
Qed.

Section agg.
  Variables (C P : list lookup) (de : Z).
  Hypothesis HS : somes C = somes P.
  Hypothesis HN : (de =? 1)%Z = false -> (de =? 2)%Z = false -> C = P.

  Lemma holds_CP (leaf : lookup -> bool) (nullish : bool) :
    (nullish = false -> leaf None = false) ->
    nullish && (de =? 1)%Z = false -> nullish && (de =? 2)%Z = false ->
    holds leaf P = holds leaf C.
  Proof.
    intros Hl H1 H2. destruct nullish.
    - cbn [andb] in H1, H2. rewrite (HN H1 H2). reflexivity.
    - apply holds_somes; [apply Hl; reflexivity|exact HS].
  Qed.

  Lemma spec_eq_none v : null_sensitive_val v = false -> spec_eq None v = false.
  Proof. destruct v; intros H; try reflexivity; discriminate H. Qed.

  Lemma spec_in_none l : existsb null_sensitive_val l = false -> spec_in l None = false.
  Proof. intros H. exact H. Qed.

  Lemma spec_fop_agg o key d :
    g_fop o key C de d = [] -> (C = [] -> exists_falsy o = false) ->
    spec_fop o key P d = agg o (leaf_fop o key d) C.
  Proof.
    intros Hg Hex.
    destruct o as [v|v|op v|v|v|v|v|v|a|q|bad s|ni|]; cbn [g_fop] in Hg; unfold agg;
      cbn [fop_is_neg leaf_fop spec_fop].
    - (* $eq *)
      apply app_eq_nil in Hg. destruct Hg as [_ Hg].
      apply app_eq_nil in Hg. destruct Hg as [_ Hg].
      apply app_eq_nil in Hg. destruct Hg as [H1 H2]. apply r_if_nil in H1, H2.
      change (holds (fun c => spec_eq c v) P = holds (fun c => spec_eq c v) C).
      apply (holds_CP _ (null_sensitive_val v)); try assumption.
      apply spec_eq_none.
    - (* $ne *)
      apply app_eq_nil in Hg. destruct Hg as [_ Hg].
      apply app_eq_nil in Hg. destruct Hg as [_ Hg].
      apply app_eq_nil in Hg. destruct Hg as [H1 H2]. apply r_if_nil in H1, H2.
      change (negb (holds (fun c => spec_eq c v) P) =
              forallb (fun c => negb (lift (fun c => spec_eq c v) c)) C).
      rewrite forallb_negb_existsb. f_equal.
      change (holds (fun c => spec_eq c v) P = holds (fun c => spec_eq c v) C).
      apply (holds_CP _ (null_sensitive_val v)); try assumption.
      apply spec_eq_none.
    - (* comparison *)
      change (holds (fun c => spec_cmp op c v) P = holds (fun c => spec_cmp op c v) C).
      apply holds_somes; [reflexivity|exact HS].
    - (* $in *)
      destruct v as [|b|z|e|s|us tz|n|fs|l]; try discriminate Hg.
      apply app_eq_nil in Hg. destruct Hg as [_ Hg].
      apply app_eq_nil in Hg. destruct Hg as [_ Hg].
      apply app_eq_nil in Hg. destruct Hg as [_ Hg].
      apply app_eq_nil in Hg. destruct Hg as [H1 H2]. apply r_if_nil in H1, H2.
      change (holds (spec_in l) P = holds (spec_in l) C).
      apply (holds_CP _ (existsb null_sensitive_val l)); try assumption.
      apply spec_in_none.
    - (* $nin *)
      destruct v as [|b|z|e|s|us tz|n|fs|l]; try discriminate Hg.
      apply app_eq_nil in Hg. destruct Hg as [_ Hg].
      apply app_eq_nil in Hg. destruct Hg as [_ Hg].
      apply app_eq_nil in Hg. destruct Hg as [_ Hg].
      apply app_eq_nil in Hg. destruct Hg as [H1 H2]. apply r_if_nil in H1, H2.
      change (negb (holds (spec_in l) P) = forallb (fun c => negb (lift (spec_in l) c)) C).
      rewrite forallb_negb_existsb. f_equal.
      change (holds (spec_in l) P = holds (spec_in l) C).
      apply (holds_CP _ (existsb null_sensitive_val l)); try assumption.
      apply spec_in_none.
    - (* $exists *)
      apply app_eq_nil in Hg. destruct Hg as [H1 _]. apply r_if_nil in H1.
      rewrite (some_present_somes C P HS).
      destruct (truthy v) eqn:Htv.
      + transitivity (some_present C); [destruct (some_present C); reflexivity|].
        rewrite some_present_is_some. apply existsb_ext_in.
        intros c _. unfold leaf_fop. rewrite Htv. destruct (is_some c); reflexivity.
      + cbn [negb andb] in H1.
        assert (Hne : C <> []).
        { intros HC. specialize (Hex HC). cbn [exists_falsy] in Hex. rewrite Htv in Hex.
          discriminate Hex. }
        transitivity (negb (some_present C)); [destruct (some_present C); reflexivity|].
        rewrite (falsy_exists_agg C Hne H1). apply existsb_ext_in.
        intros c _. unfold leaf_fop. rewrite Htv. destruct (is_some c); reflexivity.
    - (* $type *)
      destruct v as [|b|z|e|name|us tz|n|fs|l]; try discriminate Hg.
      change (holds (spec_type name) P = holds (spec_type name) C).
      apply holds_somes; [reflexivity|exact HS].
    - (* $size *)
      rewrite (arrays_of_somes C P HS). rewrite existsb_arrays_of. reflexivity.
    - (* $all *)
      destruct a as [|items]; [discriminate Hg|].
      apply app_eq_nil in Hg. destruct Hg as [Hnil Hg].
      apply app_eq_nil in Hg. destruct Hg as [Hmulti Hitems]. apply r_if_nil in Hmulti.
      cbn [spec_allarg]. rewrite (spec_allitems_somes items C P HS Hitems).
      destruct C as [|c [|c' C']].
      + apply spec_allitems_nil; try assumption; try reflexivity.
        intros ->. discriminate Hnil.
      + cbn [existsb]. rewrite orb_false_r. reflexivity.
      + discriminate Hmulti.
    - (* $elemMatch *)
      rewrite (arrays_of_somes C P HS). rewrite existsb_arrays_of. reflexivity.
    - (* $not *)
      apply app_eq_nil in Hg. destruct Hg as [_ Hg].
      apply app_eq_nil in Hg. destruct Hg as [Hnc _]. apply r_if_nil in Hnc.
      symmetry. apply existsb_const. intros HC. rewrite HC in Hnc. discriminate Hnc.
    - discriminate Hg.
    - discriminate Hg.
  Qed.

  Lemma spec_fop_falsy_nil o key d :
    C = [] -> exists_falsy o = true -> spec_fop o key P d = true.
  Proof.
    intros HC Hex. destruct o; try discriminate Hex. cbn [exists_falsy] in Hex.
    apply negb_true_iff in Hex. cbn [spec_fop]. rewrite Hex.
    rewrite (some_present_somes C P HS). rewrite HC. reflexivity.
  Qed.

  Lemma fops_has_exists_false_cons o os :
    fops_has_exists_false (FCons o os) = exists_falsy o || fops_has_exists_false os.
  Proof. destruct o; reflexivity. Qed.

  Lemma spec_fops_agg os key d :
    g_fops os key C de d = [] -> (C = [] -> fops_has_exists_false os = false) ->
    spec_fops os key P d = fops_forall (fun o => agg o (leaf_fop o key d) C) os.
  Proof.
    induction os as [|o os IH]; intros Hg Hex; [reflexivity|].
    cbn [g_fops] in Hg. apply app_eq_nil in Hg. destruct Hg as [Ho Hos].
    cbn [spec_fops fops_forall]. rewrite IH; [|exact Hos|].
    - rewrite spec_fop_agg; [reflexivity|exact Ho|].
      intros HC. specialize (Hex HC). rewrite fops_has_exists_false_cons in Hex.
      apply orb_false_iff in Hex. exact (proj1 Hex).
    - intros HC. specialize (Hex HC). rewrite fops_has_exists_false_cons in Hex.
      apply orb_false_iff in Hex. exact (proj2 Hex).
  Qed.
End agg.

(* ---------------------------------------------------------------- facts about operator lists *)
Lemma fops_all_guard os a key C de d :
  fops_all os = Some a -> g_fops os key C de d = [] -> g_fop (OAll a) key C de d = [].
Proof.
  induction os as [|o os IH]; intros Ha Hg; [discriminate Ha|].
  cbn [g_fops] in Hg. apply app_eq_nil in Hg. destruct Hg as [Ho Hos].
  destruct o; try (apply IH; [exact Ha|exact Hos]).
  injection Ha as <-. exact Ho.
Qed.

Lemma spec_fops_member os a key P d :
  fops_all os = Some a -> spec_fop (OAll a) key P d = false -> spec_fops os key P d = false.
Proof.
  induction os as [|o os IH]; intros Ha Hf; [discriminate Ha|].
  cbn [spec_fops].
  destruct o; try (rewrite (IH Ha Hf); apply andb_false_r).
  injection Ha as <-. rewrite Hf. reflexivity.
Qed.

Lemma fops_len1_all os a :
  fops_len os = 1%nat -> fops_all os = Some a -> os = FCons (OAll a) FNil.
Proof.
  destruct os as [|o [|o' os']]; intros Hl Ha; try discriminate Hl; try discriminate Ha.
  destruct o; try discriminate Ha. injection Ha as <-. reflexivity.
Qed.

Lemma fops_has_pos_cons o os :
  fops_has_pos (FCons o os) = negb (fop_is_neg o) || fops_has_pos os.
Proof. destruct o; reflexivity. Qed.

Lemma fops_has_neg_cons o os :
  fops_has_neg (FCons o os) = fop_is_neg o || fops_has_neg os.
Proof. destruct o; reflexivity. Qed.

Lemma fops_forall_neg os : fops_forall fop_is_neg os = negb (fops_has_pos os).
Proof.
  induction os as [|o os IH]; [reflexivity|].
  cbn [fops_forall]. rewrite fops_has_pos_cons, IH, negb_orb, negb_involutive. reflexivity.
Qed.

Lemma fops_pos_or_neg os : os <> FNil -> fops_has_neg os = false -> fops_has_pos os = true.
Proof.
  destruct os as [|o os]; [congruence|]. intros _.
  rewrite fops_has_neg_cons, fops_has_pos_cons. intros H. apply orb_false_iff in H.
  destruct H as [H _]. rewrite H. reflexivity.
Qed.

Lemma fops_has_all_cons o os :
  fops_has_all (FCons o os) = fop_is_all o || fops_has_all os.
Proof. destruct o; reflexivity. Qed.

Definition pre_dv (C : list lookup) : option (list lookup) :=
  match C with
  | Some (VArr _) :: _ => if all_lists C then Some (concat_lists C) else None
  | _ => Some C
  end.

Lemma eval_all_pre_eq os n C :
  eval_all_pre os n C =
  match fops_all os with
  | None => Ok None
  | Some a =>
      match pre_dv C with
      | None => Err EUnmodelled
      | Some dv =>
          let! b := eval_allarg a dv true in
          if negb b then Ok (Some false)
          else if Nat.eqb n 1 then Ok (Some true)
          else Ok None
      end
  end.
Proof.
  induction os as [|o os IH]; [reflexivity|].
  destruct o; try exact IH. reflexivity.
Qed.

Lemma pre_dv_single c : pre_dv [c] = Some (force_list c).
Proof.
  destruct c as [x|]; [|reflexivity]. destruct x; try reflexivity.
  cbn. rewrite app_nil_r. reflexivity.
Qed.

Lemma py_eq_false_falsy v : py_eq v (VBool false) = true -> truthy v = false.
Proof.
  destruct v as [|b|z|e|s|us tz|n|fs|l]; intros H; try discriminate H.
  - destruct b; [discriminate H|reflexivity].
  - change ((8 * z =? 0)%Z = true) in H. apply Z.eqb_eq in H.
    unfold truthy. apply negb_false_iff. apply Z.eqb_eq. lia.
  - change ((e =? 0)%Z = true) in H. apply Z.eqb_eq in H.
    unfold truthy. apply negb_false_iff. apply Z.eqb_eq. lia.
Qed.

Lemma is_exists_false_inv os :
  is_exists_false (SOps os) = true ->
  exists v, os = FCons (OExists v) FNil /\ py_eq v (VBool false) = true.
Proof.
  destruct os as [|o [|o' os']]; try discriminate; destruct o; try discriminate.
  intros H. eexists. split; [reflexivity|exact H].
Qed.
