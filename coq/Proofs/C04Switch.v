(* C04 proofs, part 6: $switch. *)
From Coq Require Import ZArith List String Bool Ascii Lia.
From Verif Require Import Value PyEq BsonOrder Path Update Filter FilterSpec Cursor Expr ExprSpec ExprGuard.
From Verif Require Import C01Values C04Base C04Paths C04Order C04Slice C04Ops C04Lists C04Binders.
Import ListNotations.
Open Scope Z_scope.
Open Scope string_scope.
Open Scope list_scope.


Definition s_branch (vars : svars) (doc : value) (b : value) : option (sres * sres) :=
  match b with
  | VDoc [("case", c); ("then", t)] => Some (seval vars doc c, seval vars doc t)
  | VDoc [("then", t); ("case", c)] => Some (seval vars doc c, seval vars doc t)
  | _ => None
  end.

Definition s_branch' (vars : svars) (doc : value) (b : value) : option (sres * sres) :=
  match b with
  | VDoc [(k1, v1); (k2, v2)] =>
      if (k1 =? "case") && (k2 =? "then") then Some (seval vars doc v1, seval vars doc v2)
      else if (k1 =? "then") && (k2 =? "case") then Some (seval vars doc v2, seval vars doc v1)
      else None
  | _ => None
  end.

(* split off the first character of [s], one bit at a time; the cases that both sides decide
   are closed as soon as they are decided (instead of after all 256 splits) *)
Tactic Notation "crack" ident(s) :=
  let t := fresh "t" in
  let b0 := fresh "b" in let b1 := fresh "b" in let b2 := fresh "b" in let b3 := fresh "b" in
  let b4 := fresh "b" in let b5 := fresh "b" in let b6 := fresh "b" in let b7 := fresh "b" in
  destruct s as [|[b0 b1 b2 b3 b4 b5 b6 b7] t];
  [ try reflexivity
  | destruct b0; try reflexivity; destruct b1; try reflexivity; destruct b2; try reflexivity;
    destruct b3; try reflexivity; destruct b4; try reflexivity; destruct b5; try reflexivity;
    destruct b6; try reflexivity; destruct b7; try reflexivity; try rename t into s ].

Lemma s_branch_eq vars doc b : s_branch vars doc b = s_branch' vars doc b.
Proof.
  destruct b as [| | | | | | |fs|]; try reflexivity.
  destruct fs as [|[k1 v1] [|[k2 v2] [|kv3 fs]]]; [reflexivity| | |].
  - unfold s_branch, s_branch'.
    crack k1; crack k1; crack k1; crack k1; crack k1.
  - unfold s_branch, s_branch'.
    crack k1.
    + crack k1. crack k1. crack k1. crack k1.
      crack k2. crack k2. crack k2. crack k2. crack k2.
    + crack k1. crack k1. crack k1. crack k1.
      crack k2. crack k2. crack k2. crack k2. crack k2.
  - unfold s_branch, s_branch'.
    crack k1.
    + crack k1. crack k1. crack k1. crack k1.
      crack k2. crack k2. crack k2. crack k2. crack k2.
    + crack k1. crack k1. crack k1. crack k1.
      crack k2. crack k2. crack k2. crack k2. crack k2.
Qed.

(* ------------------------------------------------------------ $switch *)
Definition closure doc (cv : value) : list (string * value) -> eres := fun vs => eval vs doc true cv.

Definition m_branch doc (b : value) : option (list (string * (list (string * value) -> eres))) :=
  match b with
  | VDoc bf => Some (map (fun kv : string * value => match kv with (ck, cv) => (ck, closure doc cv) end) bf)
  | _ => None
  end.

Definition m_sw_go vars (dflt : option (list (string * value) -> eres)) :=
  fix go (l : list (option (list (string * (list (string * value) -> eres))))) : eres :=
    match l with
    | [] => match dflt with Some d => d vars | None => EE EOpFail end
    | Some bt :: l' =>
        match assoc "case" bt, assoc "then" bt with
        | Some c, Some t =>
            match to_bool (c vars) with
            | Ok true => t vars
            | Ok false => go l'
            | Err er => EE er
            end
        | _, _ => EE EOpFail
        end
    | None :: _ => EE EOpFail
    end.

Definition s_sw_go (dflt : option sres) :=
  fix go (l : list (option (sres * sres))) : sres :=
    match l with
    | [] => match dflt with Some d => d | None => SErr end
    | None :: _ => SErr
    | Some (c, t) :: l' =>
        match mtruth c with
        | Some true => t
        | Some false => go l'
        | None => SUndef
        end
    end.

Definition m_ok (b : option (list (string * (list (string * value) -> eres)))) : bool :=
  match b with Some bt => has_key "case" bt && has_key "then" bt | None => false end.

Lemma eval_switch vars doc sf :
  eval vars doc true (VDoc [("$switch", VDoc sf)]) =
  match assoc "branches" sf with
  | Some (VArr (b :: bs)) =>
      if negb (forallb m_ok (map (m_branch doc) (b :: bs))) then EE EOpFail
      else m_sw_go vars (option_map (closure doc) (assoc "default" sf)) (map (m_branch doc) (b :: bs))
  | _ => EE EOpFail
  end.
Proof.
  simpl. rewrite find_first. rewrite (assoc_map_snd (closure doc)).
  destruct (assoc "branches" sf) as [[| | | | | | | |[|b bs]]|]; try reflexivity.
Qed.

Lemma seval_switch vars doc sf :
  seval vars doc (VDoc [("$switch", VDoc sf)]) =
  if negb (forallb (fun kv : string * value => (fst kv =? "branches") || (fst kv =? "default")) sf) then SErr
  else match assoc "branches" sf with
       | Some (VArr (b :: bs)) =>
           s_sw_go (option_map (seval vars doc) (assoc "default" sf)) (map (s_branch vars doc) (b :: bs))
       | _ => SErr
       end.
Proof.
  simpl. rewrite !find_first.
  destruct (negb (forallb (fun kv : string * value => (fst kv =? "branches") || (fst kv =? "default")) sf)); [reflexivity|].
  destruct (assoc "branches" sf) as [[| | | | | | | |[|b bs]]|]; try reflexivity.
Qed.

Lemma branch_shape b : branch_ok b = true ->
  (branch_ok b && match b with VDoc [_; _] => false | _ => true end)%bool = false ->
  exists c t, b = VDoc [("case", c); ("then", t)] \/ b = VDoc [("then", t); ("case", c)].
Proof.
  intros Hok H2. rewrite Hok in H2. simpl in H2.
  destruct b as [| | | | | | |bf|]; try discriminate.
  destruct bf as [|[k1 v1] [|[k2 v2] [|kv3 bf]]]; try discriminate.
  change (branch_ok (VDoc [(k1, v1); (k2, v2)])) with
    ((("case" =? k1) || (("case" =? k2) || false)) && (("then" =? k1) || (("then" =? k2) || false)))%bool in Hok.
  rewrite !orb_false_r in Hok. apply andb_true_iff in Hok. destruct Hok as [Hc Ht].
  destruct ("case" =? k1) eqn:E1.
  - apply String.eqb_eq in E1. subst k1.
    change ("then" =? "case") with false in Ht. rewrite orb_false_l in Ht.
    apply String.eqb_eq in Ht. subst k2. exists v1, v2. left. reflexivity.
  - rewrite orb_false_l in Hc. apply String.eqb_eq in Hc. subst k2.
    change ("then" =? "case") with false in Ht. rewrite orb_false_r in Ht.
    apply String.eqb_eq in Ht. subst k1. exists v2, v1. right. reflexivity.
Qed.

Lemma s_branch_ok vars doc b p : s_branch vars doc b = Some p -> branch_ok b = true.
Proof.
  rewrite s_branch_eq. destruct b as [| | | | | | |bf|]; try discriminate.
  destruct bf as [|[k1 v1] [|[k2 v2] [|kv3 bf]]]; try discriminate.
  unfold s_branch'.
  destruct (k1 =? "case") eqn:E1.
  - apply String.eqb_eq in E1. subst k1. destruct (k2 =? "then") eqn:E2; [|discriminate].
    apply String.eqb_eq in E2. subst k2. reflexivity.
  - rewrite andb_false_l. destruct (k1 =? "then") eqn:E3; [|discriminate].
    apply String.eqb_eq in E3. subst k1. destruct (k2 =? "case") eqn:E2; [|discriminate].
    apply String.eqb_eq in E2. subst k2. reflexivity.
Qed.

(* what is known of a branch inside the guard *)
Definition br_flag vars doc (b : value) : bool :=
  match b with
  | VDoc bf =>
      match assoc "case" bf with
      | Some c => match to_bool (eval vars doc true c) with
                  | Ok true | Err EUnmodelled => true
                  | _ => false end
      | None => false
      end
  | _ => false
  end.

Definition br_facts vars doc (b : value) : Prop :=
  (branch_ok b && match b with VDoc [_; _] => false | _ => true end)%bool = false /\
  forall k x fs, branch_ok b = true -> b = VDoc fs -> In (k, x) fs ->
                 R (seval (lift vars) doc x) (eval vars doc true x).

Lemma switch_all_ok vars doc sd md bs :
  R (match sd with Some d => d | None => SErr end)
    (match md with Some d => d vars | None => EE EOpFail end) ->
  (forall b, In b bs -> br_facts vars doc b) ->
  forallb branch_ok bs = true ->
  R (s_sw_go sd (map (s_branch (lift vars) doc) bs)) (m_sw_go vars md (map (m_branch doc) bs)).
Proof.
  intros Hd. induction bs as [|b bs IH]; intros Hf Hok; [exact Hd|].
  simpl in Hok. apply andb_true_iff in Hok. destruct Hok as [Hb Hbs].
  destruct (Hf b (or_introl eq_refl)) as [H2 HR].
  assert (IH' : R (s_sw_go sd (map (s_branch (lift vars) doc) bs)) (m_sw_go vars md (map (m_branch doc) bs)))
    by (apply IH; [intros b' Hin; apply Hf; right; exact Hin|exact Hbs]).
  destruct (branch_shape b Hb H2) as [c [t [-> | ->]]].
  - pose proof (HR "case" c _ Hb eq_refl ltac:(simpl; tauto)) as Hc.
    pose proof (HR "then" t _ Hb eq_refl ltac:(simpl; tauto)) as Ht.
    change (s_sw_go sd (map (s_branch (lift vars) doc) (VDoc [("case", c); ("then", t)] :: bs))) with
      (match mtruth (seval (lift vars) doc c) with
       | Some true => seval (lift vars) doc t
       | Some false => s_sw_go sd (map (s_branch (lift vars) doc) bs)
       | None => SUndef
       end).
    change (m_sw_go vars md (map (m_branch doc) (VDoc [("case", c); ("then", t)] :: bs))) with
      (match to_bool (eval vars doc true c) with
       | Ok true => eval vars doc true t
       | Ok false => m_sw_go vars md (map (m_branch doc) bs)
       | Err er => EE er
       end).
    destruct (mtruth (seval (lift vars) doc c)) as [bb|] eqn:Eb; [|done_R].
    destruct (R_truth _ _ _ Hc Eb) as [Hm|Hm]; rewrite Hm; [done_R|].
    destruct bb; assumption.
  - pose proof (HR "case" c _ Hb eq_refl ltac:(simpl; tauto)) as Hc.
    pose proof (HR "then" t _ Hb eq_refl ltac:(simpl; tauto)) as Ht.
    change (s_sw_go sd (map (s_branch (lift vars) doc) (VDoc [("then", t); ("case", c)] :: bs))) with
      (match mtruth (seval (lift vars) doc c) with
       | Some true => seval (lift vars) doc t
       | Some false => s_sw_go sd (map (s_branch (lift vars) doc) bs)
       | None => SUndef
       end).
    change (m_sw_go vars md (map (m_branch doc) (VDoc [("then", t); ("case", c)] :: bs))) with
      (match to_bool (eval vars doc true c) with
       | Ok true => eval vars doc true t
       | Ok false => m_sw_go vars md (map (m_branch doc) bs)
       | Err er => EE er
       end).
    destruct (mtruth (seval (lift vars) doc c)) as [bb|] eqn:Eb; [|done_R].
    destruct (R_truth _ _ _ Hc Eb) as [Hm|Hm]; rewrite Hm; [done_R|].
    destruct bb; assumption.
Qed.

Lemma switch_not_ok vars doc sd bs :
  (forall b, In b bs -> br_facts vars doc b) ->
  forallb branch_ok bs = false ->
  switch_eager (map (fun b => (b, br_flag vars doc b)) bs) = false ->
  match s_sw_go sd (map (s_branch (lift vars) doc) bs) with SErr | SUndef => True | _ => False end.
Proof.
  induction bs as [|b bs IH]; intros Hf Hok He; [discriminate|].
  destruct (branch_ok b) eqn:Hb.
  - simpl in Hok. rewrite Hb in Hok. simpl in Hok.
    change (switch_eager (map (fun b => (b, br_flag vars doc b)) (b :: bs))) with
      (if branch_ok b then (if br_flag vars doc b then negb (forallb (fun bt => branch_ok (fst bt)) (map (fun b => (b, br_flag vars doc b)) bs))
                            else switch_eager (map (fun b => (b, br_flag vars doc b)) bs))
       else false) in He.
    rewrite Hb in He.
    assert (Hmap : forallb (fun bt : value * bool => branch_ok (fst bt)) (map (fun b => (b, br_flag vars doc b)) bs) = forallb branch_ok bs).
    { clear. induction bs as [|x bs IH]; [reflexivity|]. simpl. rewrite IH. reflexivity. }
    rewrite Hmap, Hok in He.
    destruct (br_flag vars doc b) eqn:Efl; [discriminate He|].
    destruct (Hf b (or_introl eq_refl)) as [H2 HR].
    assert (IH' : match s_sw_go sd (map (s_branch (lift vars) doc) bs) with SErr | SUndef => True | _ => False end)
      by (apply IH; [intros b' Hin; apply Hf; right; exact Hin|exact Hok|exact He]).
    destruct (branch_shape b Hb H2) as [c [t [-> | ->]]].
    + pose proof (HR "case" c _ Hb eq_refl ltac:(simpl; tauto)) as Hc.
      change (s_sw_go sd (map (s_branch (lift vars) doc) (VDoc [("case", c); ("then", t)] :: bs))) with
        (match mtruth (seval (lift vars) doc c) with
         | Some true => seval (lift vars) doc t
         | Some false => s_sw_go sd (map (s_branch (lift vars) doc) bs)
         | None => SUndef
         end).
      change (br_flag vars doc (VDoc [("case", c); ("then", t)])) with
        (match to_bool (eval vars doc true c) with Ok true | Err EUnmodelled => true | _ => false end) in Efl.
      destruct (mtruth (seval (lift vars) doc c)) as [bb|] eqn:Eb; [|exact I].
      destruct (R_truth _ _ _ Hc Eb) as [Hm|Hm]; rewrite Hm in Efl; [discriminate Efl|].
      destruct bb; [discriminate Efl|exact IH'].
    + pose proof (HR "case" c _ Hb eq_refl ltac:(simpl; tauto)) as Hc.
      change (s_sw_go sd (map (s_branch (lift vars) doc) (VDoc [("then", t); ("case", c)] :: bs))) with
        (match mtruth (seval (lift vars) doc c) with
         | Some true => seval (lift vars) doc t
         | Some false => s_sw_go sd (map (s_branch (lift vars) doc) bs)
         | None => SUndef
         end).
      change (br_flag vars doc (VDoc [("then", t); ("case", c)])) with
        (match to_bool (eval vars doc true c) with Ok true | Err EUnmodelled => true | _ => false end) in Efl.
      destruct (mtruth (seval (lift vars) doc c)) as [bb|] eqn:Eb; [|exact I].
      destruct (R_truth _ _ _ Hc Eb) as [Hm|Hm]; rewrite Hm in Efl; [discriminate Efl|].
      destruct bb; [discriminate Efl|exact IH'].
  - destruct (s_branch (lift vars) doc b) as [p|] eqn:Es.
    + rewrite (s_branch_ok _ _ _ _ Es) in Hb. discriminate.
    + simpl. rewrite Es. exact I.
Qed.

Lemma m_ok_branch doc b : m_ok (m_branch doc b) = branch_ok b.
Proof.
  destruct b as [| | | | | | |bf|]; try reflexivity. simpl.
  assert (H : forall k, has_key k (map (fun kv : string * value => let (ck, cv) := kv in (ck, closure doc cv)) bf) = has_key k bf).
  { intros k. induction bf as [|[k' v] bf IH]; [reflexivity|]. simpl. rewrite IH. reflexivity. }
  rewrite !H. reflexivity.
Qed.

Lemma case_switch doc arg : IHarg doc arg -> P doc (VDoc [("$switch", arg)]).
Proof.
  intros IH vars Hg.
  destruct arg as [| | | | | | |sf|xs]; try (simpl; done_R).
  rewrite eval_switch, seval_switch.
  assert (Hg' : Z.lor (zor_list (map (fun kv : string * value => match kv with (_, cv) => reasons vars doc cv end) sf))
                 (Z.lor (if switch_unknown sf then 4096 else 0)
                        (if match assoc "branches" sf with
                            | Some (VArr bs) => switch_eager (map (fun b => (b, br_flag vars doc b)) bs)
                            | _ => false
                            end then 8192 else 0)) = 0).
  { simpl in Hg. rewrite andb_false_r in Hg. exact Hg. }
  clear Hg. apply lor0 in Hg'. destruct Hg' as [Hv Hg]. apply lor0 in Hg. destruct Hg as [H4 H8].
  apply if0 in H4; [|discriminate]. apply if0 in H8; [|discriminate].
  unfold switch_unknown in H4. apply orb_false_iff in H4. destruct H4 as [Hkeys Hbr].
  apply negb_false_iff in Hkeys. rewrite Hkeys. change (negb true) with false. cbv iota.
  destruct (assoc "branches" sf) as [bv|] eqn:Eb; [|done_R].
  destruct bv as [| | | | | | | |bs]; try done_R.
  destruct bs as [|b0 bs0]; [done_R|]. remember (b0 :: bs0) as bs eqn:Ebs. clear Ebs b0 bs0.
  assert (Hvals : forall k x, In (k, x) sf -> reasons vars doc x = 0)
    by (intros k x Hin; exact (zor_list_map0 _ _ Hv (k, x) Hin)).
  assert (Hbsz : (vsize (VArr bs) < vsize (VDoc sf))%nat) by (eapply vsize_assoc; exact Eb).
  assert (Hfacts : forall b, In b bs -> br_facts vars doc b).
  { intros b Hin. split.
    - exact (existsb_false_In _ _ Hbr b Hin).
    - intros k x fs Hok -> Hx. apply IH.
      + pose proof (vsize_arr_in _ _ Hin). pose proof (vsize_doc_in _ _ _ Hx). lia.
      + pose proof (Hvals _ _ (assoc_in _ _ _ Eb)) as Hrb.
        pose proof (zor_list_map0 _ _ Hrb _ Hin) as Hb0.
        pose proof (existsb_false_In _ _ Hbr _ Hin) as H2.
        destruct (branch_shape _ Hok H2) as [c [t [E|E]]]; inversion E; subst fs;
          simpl in Hb0; destruct Hx as [Hx|[Hx|[]]]; inversion Hx; subst;
          unfold zor_list in Hb0; simpl in Hb0; split_guard Hb0; assumption. }
  assert (Hmok : forallb m_ok (map (m_branch doc) bs) = forallb branch_ok bs).
  { clear. induction bs as [|x bs IH]; [reflexivity|]. simpl. rewrite IH, m_ok_branch. reflexivity. }
  rewrite Hmok.
  destruct (forallb branch_ok bs) eqn:Hok; cbn [negb].
  - apply switch_all_ok; [|exact Hfacts|exact Hok].
    destruct (assoc "default" sf) as [d|] eqn:Ed; simpl; [|done_R].
    apply IH; [|exact (Hvals _ _ (assoc_in _ _ _ Ed))].
    pose proof (vsize_assoc _ _ _ Ed). lia.
  - pose proof (switch_not_ok vars doc (option_map (seval (lift vars) doc) (assoc "default" sf)) bs Hfacts Hok H8) as Hs.
    destruct (s_sw_go _ _); try contradiction; done_R.
Qed.
