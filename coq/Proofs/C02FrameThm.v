(* C02 proofs, part 6: the frame theorem: every field the update does not address is left
   untouched. *)
From Coq Require Import ZArith List String Bool Ascii Lia.
From Verif Require Import Value PyEq BsonOrder Path Filter FilterSpec Update Project Coll
                          HistCheck HistProps ProjectSpec Cursor UpdateLaws.
From Verif.Proofs Require Import C01Values C12Base C02Base C02Frame C02Local C02Ops.
Import ListNotations.
Open Scope Z_scope.
Open Scope string_scope.
Open Scope list_scope.

Theorem frame_sound : forall spec u wi now d d',
  first_key_dollar u = Some true ->        (* an operator document (what update_one/many accept) *)
  wf_value u = true -> wf_value d = true -> (* Python dicts: no duplicate keys *)
  collide (addressed u) = false ->          (* guard bit 1 *)
  canon_paths u = true ->                   (* guard bit 8: no "01"-like index components *)
  fits_all u d = true ->                    (* guard bit 16: no non-index component on an array *)
  apply_update spec u wi now d = Ok d' ->
  frame_ok u d d' = true.
Proof.
  intros spec u wi now d d' Hfirst Hu Hwf Hcol Hcan Hfit H.
  unfold frame_ok. apply sframe_frame.
  eapply (chain_sframe _ (addressed u) (addressed u)).
  - eapply apply_update_chain; eassumption.
  - exact Hcol.
  - intros p Hp. apply canon_of_bool. unfold canon_paths in Hcan.
    rewrite forallb_forall in Hcan. apply Hcan. exact Hp.
  - intros p Hp. unfold fits_all in Hfit. rewrite forallb_forall in Hfit. apply Hfit. exact Hp.
  - intros p Hp. exact Hp.
  - exact Hwf.
Qed.

(* the hypotheses are satisfiable on a non-trivial instance *)
Example frame_sound_example :
  let u := VDoc [("$set", VDoc [("a.b.2", VInt 7); ("c", VStr "x")]);
                 ("$inc", VDoc [("n", VInt 2)]);
                 ("$push", VDoc [("l", VDoc [("$each", VArr [VInt 1; VInt 2]); ("$position", VInt 0)])]);
                 ("$unset", VDoc [("z.w", VInt 1)]);
                 ("$rename", VDoc [("old", VStr "new")])] in
  let d := VDoc [("_id", VInt 1); ("a", VDoc [("b", VArr [VInt 0])]); ("n", VInt 5);
                 ("l", VArr [VInt 9]); ("z", VDoc [("w", VInt 3); ("k", VInt 4)]);
                 ("old", VBool true)] in
  first_key_dollar u = Some true /\ wf_value u = true /\ wf_value d = true /\
  collide (addressed u) = false /\ canon_paths u = true /\ fits_all u d = true /\
  apply_update (VDoc []) u false 0 d
  = Ok (VDoc [("_id", VInt 1); ("a", VDoc [("b", VArr [VInt 0; VNull; VInt 7])]); ("n", VInt 7);
              ("l", VArr [VInt 1; VInt 2; VInt 9]); ("z", VDoc [("k", VInt 4)]);
              ("c", VStr "x"); ("new", VBool true)]).
Proof. repeat split; vm_compute; reflexivity. Qed.
