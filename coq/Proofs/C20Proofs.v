From Coq Require Import List String Bool ZArith.
From Verif Require Import Value Filter Vocab.
From Verif.Gen Require Import Tables.
Import ListNotations.
Open Scope string_scope.

(* an operator name is never taken for a plain field / silently dropped, at any position *)
Lemma no_silent : forall (p : position) (name : string),
  starts_dollar name = true -> dispatch p name <> NotAnOperator.
Proof.
  intros p name H. destruct p; unfold dispatch.
  - destruct ((name =? "$comment") || mem_str name q_logical || (name =? "$expr")); [discriminate|].
    destruct (mem_str name q_top_level_not_implemented); [discriminate|].
    rewrite H. discriminate.
  - destruct (mem_str name q_operator_map || (name =? "$not") || (name =? "$options")); [discriminate|].
    destruct (mem_str name q_not_implemented); discriminate.
  - destruct (mem_str name q_type_implemented); [discriminate|].
    destruct (mem_str name q_type_not_implemented); discriminate.
  - destruct (mem_str name upd_updaters || mem_str name upd_branches); discriminate.
  - destruct (mem_str name push_modifiers); discriminate.
  - destruct (mem_str name projection_operators); discriminate.
  - destruct (mem_str name stage_implemented); discriminate.
  - destruct (find_row name expr_chain) as [r|].
    + destruct (mem_str name (snd r)); discriminate.
    + destruct (mem_str name expr_fallthrough_not_implemented); [discriminate|].
      rewrite H. discriminate.
  - destruct (mem_str name acc_implemented); discriminate.
Qed.

(* every operator routed to an expression handler that the handler does not implement ends
   in the handler's trailing raise: nothing routed is silently dropped *)
Lemma routed_handled_or_raises : forall name r,
  find_row name expr_chain = Some r ->
  dispatch PExpr name = Handled \/ dispatch PExpr name = RaisesNotImplemented.
Proof.
  intros name r H. unfold dispatch. rewrite H. destruct (mem_str name (snd r)); auto.
Qed.

Lemma options_guarded : options_ok = true.
Proof. vm_compute. reflexivity. Qed.

(* valid-but-unimplemented pipeline stages (None handlers) and unknown stages both raise *)
Lemma stage_none_raises : forall name,
  mem_str name stage_not_implemented = true -> mem_str name stage_implemented = false ->
  dispatch PStage name = RaisesNotImplemented.
Proof. intros name _ H. unfold dispatch. rewrite H. reflexivity. Qed.

Lemma stage_tables_disjoint :
  forallb (fun n => negb (mem_str n stage_implemented)) stage_not_implemented = true.
Proof. vm_compute. reflexivity. Qed.
