(* C02 proofs, operator laws, part A: values (BSON equality, patch, awareness), the reduction
   of a one-operator update, paths through sub-documents (the parent document reached by
   walk / with_parent_spec / pull_walk). *)
From Coq Require Import ZArith List String Bool Ascii Lia.
From Verif Require Import Value PyEq BsonOrder Path Filter FilterSpec FilterGuard Update Project Coll
                          HistCheck HistProps ProjectSpec Cursor UpdateLaws.
From Verif.Proofs Require Import C01Values C12Base C02Base C02Walk.
Import ListNotations.
Open Scope Z_scope.
Open Scope string_scope.
Open Scope list_scope.

(* ---------------------------------------------------------------- BSON equality *)
Lemma bson_eq_refl : forall v, bson_eq v v = true.
Proof.
  induction v as [|b|z|e|s|us tz|n|fs IH|xs IH] using value_ind2; simpl;
    try reflexivity; try apply Z.eqb_refl.
  - destruct b; reflexivity.
  - apply String.eqb_refl.
  - induction IH as [|[k v] fs Hv _ IH2]; [reflexivity|].
    simpl in Hv. rewrite String.eqb_refl, Hv, IH2. reflexivity.
  - induction IH as [|x xs Hx _ IH2]; [reflexivity|]. rewrite Hx, IH2. reflexivity.
Qed.

Lemma opt_value_eqb_refl o : opt_value_eqb o o = true.
Proof. destruct o; simpl; [apply value_eqb_refl|reflexivity]. Qed.

(* ---------------------------------------------------------------- patch, awareness *)
Lemma patch_doc fs : patch (VDoc fs) = VDoc (map (fun kv => (fst kv, patch (snd kv))) fs).
Proof.
  simpl. f_equal. induction fs as [|[k x] fs IH]; [reflexivity|].
  simpl. rewrite IH. reflexivity.
Qed.
Lemma patch_arr xs : patch (VArr xs) = VArr (map patch xs).
Proof.
  reflexivity.
Qed.

Lemma has_aware_doc fs : has_aware (VDoc fs) = existsb (fun kv => has_aware (snd kv)) fs.
Proof. induction fs as [|[k x] fs IH]; [reflexivity|]. simpl in *. rewrite IH. reflexivity. Qed.

Lemma patch_fix_no_aware : forall v, patch v = v -> has_aware v = false.
Proof.
  induction v as [|b|z|e|s|us tz|n|fs IH|xs IH] using value_ind2; intro H; try reflexivity.
  - destruct tz as [m|]; [simpl in H; discriminate|reflexivity].
  - rewrite patch_doc in H. injection H as H. rewrite has_aware_doc.
    induction IH as [|[k v] fs Hv _ IH2]; [reflexivity|].
    simpl in H, Hv. injection H as H1 H2. simpl. rewrite (Hv H1), (IH2 H2). reflexivity.
  - rewrite patch_arr in H. injection H as H. rewrite has_aware_arr.
    induction IH as [|x xs Hx _ IH2]; [reflexivity|].
    simpl in H. injection H as H1 H2. simpl. rewrite (Hx H1), (IH2 H2). reflexivity.
Qed.

Lemma has_aware_assoc fs k x : has_aware (VDoc fs) = false -> assoc k fs = Some x -> has_aware x = false.
Proof.
  rewrite has_aware_doc. intros H Ha. apply assoc_Some_in in Ha.
  exact (existsb_false_In _ _ H (k, x) Ha).
Qed.

Lemma nth_error_In' {A} (l : list A) n x : nth_error l n = Some x -> In x l.
Proof. apply nth_error_In. Qed.

Lemma has_aware_get : forall parts d x,
  has_aware d = false -> get_by_dot parts d = Some x -> has_aware x = false.
Proof.
  induction parts as [|p rest IH]; intros d x Hd Hg.
  - simpl in Hg. inversion Hg; subst. exact Hd.
  - destruct d; simpl in Hg; try discriminate.
    + destruct (assoc p fs) as [v|] eqn:Ea; [|discriminate].
      apply (IH v x); [eapply has_aware_assoc; eassumption | exact Hg].
    + destruct (as_index p) as [i|]; [|discriminate].
      destruct (nth_z xs i) as [v|] eqn:En; [|discriminate].
      apply (IH v x); [|exact Hg]. rewrite has_aware_arr in Hd.
      apply (existsb_false_In _ _ Hd). unfold nth_z in En.
      destruct (i <? 0)%Z; [discriminate|]. eapply nth_error_In. exact En.
Qed.

(* bools / sub-documents *)
Lemma has_bool_or_doc_arr xs : has_bool_or_doc (VArr xs) = existsb has_bool_or_doc xs.
Proof. induction xs as [|x xs IH]; [reflexivity|]. simpl in *. rewrite IH. reflexivity. Qed.

Lemma no_bool_or_doc : forall v, has_bool_or_doc v = false -> has_bool v = false /\ has_doc v = false.
Proof.
  induction v as [|b|z|e|s|us tz|n|fs IH|xs IH] using value_ind2; intro H;
    try (split; reflexivity); try discriminate.
  rewrite has_bool_or_doc_arr in H. rewrite has_bool_arr, has_doc_arr.
  induction IH as [|x xs Hx _ IH2]; [split; reflexivity|].
  apply existsb_false_cons in H. destruct H as [H1 H2].
  destruct (Hx H1) as [A1 A2]. destruct (IH2 H2) as [B1 B2].
  simpl. rewrite A1, A2, B1, B2. split; reflexivity.
Qed.

(* Python == and BSON equality agree on values without bools, sub-documents, aware dates *)
Lemma agree_plain x v :
  has_bool_or_doc x = false -> has_bool_or_doc v = false ->
  has_aware x = false -> has_aware v = false -> eq_agree x v.
Proof.
  intros Hx Hv Hax Hav. destruct (no_bool_or_doc _ Hx) as [Bx _].
  destruct (no_bool_or_doc _ Hv) as [Bv Dv].
  apply py_bson_agree; try assumption. left. split; assumption.
Qed.

(* ---------------------------------------------------------------- well-formedness *)
Lemma wf_doc_nodup fs : wf_value (VDoc fs) = true -> NoDup (map fst fs).
Proof. simpl. intro H. apply andb_true_iff in H. apply nodup_str_NoDup. exact (proj1 H). Qed.

Lemma wf_doc_assoc fs k x : wf_value (VDoc fs) = true -> assoc k fs = Some x -> wf_value x = true.
Proof.
  simpl. intro H. apply andb_true_iff in H. destruct H as [_ H].
  induction fs as [|[k2 v2] fs IH]; simpl; [discriminate|].
  apply andb_true_iff in H. destruct H as [H1 H2].
  destruct (k =? k2); [intro E; inversion E; subst; exact H1 | apply IH; exact H2].
Qed.

(* ---------------------------------------------------------------- one-operator updates *)
Lemma apply_update_single spec op v now d d' :
  apply_update spec (VDoc [(op, v)]) false now d = Ok d' ->
  exists r, apply_update_key spec [(op, v)] false now true op v d = Ok r /\ fst r = d'.
Proof.
  unfold apply_update, apply_update_keys. intro H. bind_inv H r Hr. exists r. split; [exact Hr|].
  destruct r as [d1 stop]. destruct stop; inversion H; reflexivity.
Qed.

Lemma upd_fields spec op u p arg now d d' :
  updater_of op = Some u ->
  apply_update spec (VDoc [(op, VDoc [(p, arg)])]) false now d = Ok d' ->
  walk u now (split_dots p) d arg = Ok d'.
Proof.
  intros Hu H. apply apply_update_single in H. destruct H as [r [Hr <-]].
  unfold apply_update_key in Hr. rewrite Hu in Hr. unfold fields_of, apply_fields in Hr.
  cbn [bind] in Hr.
  destruct (existsb (fun c => Ascii.eqb c "$"%char) (list_ascii_of_string p)); [discriminate|].
  destruct (walk u now (split_dots p) d arg) as [d1|e]; simpl in Hr; [|discriminate].
  inversion Hr. reflexivity.
Qed.

Lemma upd_currentDate spec p arg now d d' :
  apply_update spec (VDoc [("$currentDate", VDoc [(p, arg)])]) false now d = Ok d' ->
  walk UCurrentDate now (split_dots p) d arg = Ok d'.
Proof.
  intro H. apply apply_update_single in H. destruct H as [r [Hr <-]].
  change (bind (apply_fields UCurrentDate now [(p, arg)] d) (fun d0 => Ok (d0, false)) = Ok r) in Hr.
  unfold apply_fields in Hr.
  destruct (existsb (fun c => Ascii.eqb c "$"%char) (list_ascii_of_string p)); [discriminate|].
  destruct (walk UCurrentDate now (split_dots p) d arg) as [d1|e]; simpl in Hr; [|discriminate].
  inversion Hr. reflexivity.
Qed.

Lemma upd_fold (f : value -> string -> value -> res value) p arg d r :
  bind (fold_fields f [(p, arg)] d) (fun d0 => Ok (d0, false)) = Ok r -> f d p arg = Ok (fst r).
Proof.
  unfold fold_fields. destruct (f d p arg) as [d1|e]; simpl; [|discriminate].
  intro H. inversion H. reflexivity.
Qed.

Lemma upd_push spec p arg now d d' :
  apply_update spec (VDoc [("$push", VDoc [(p, arg)])]) false now d = Ok d' ->
  push_one spec d p arg = Ok d'.
Proof.
  intro H. apply apply_update_single in H. destruct H as [r [Hr <-]].
  apply upd_fold. exact Hr.
Qed.

Lemma upd_addToSet spec p arg now d d' :
  apply_update spec (VDoc [("$addToSet", VDoc [(p, arg)])]) false now d = Ok d' ->
  add_to_set_one spec d p arg = Ok d'.
Proof.
  intro H. apply apply_update_single in H. destruct H as [r [Hr <-]].
  apply upd_fold. exact Hr.
Qed.

Lemma upd_pullAll spec p arg now d d' :
  apply_update spec (VDoc [("$pullAll", VDoc [(p, arg)])]) false now d = Ok d' ->
  pull_all_one spec d p arg = Ok d'.
Proof.
  intro H. apply apply_update_single in H. destruct H as [r [Hr <-]].
  apply upd_fold. exact Hr.
Qed.

Lemma upd_pull spec p arg now d d' :
  apply_update spec (VDoc [("$pull", VDoc [(p, arg)])]) false now d = Ok d' ->
  pull_one d p arg = Ok d'.
Proof.
  intro H. apply apply_update_single in H. destruct H as [r [Hr <-]].
  change ((if existsb (fun kv => mem_str "$" (split_dots (fst kv))) [(p, arg)]
           then Err EUnmodelled
           else bind (fold_fields pull_one [(p, arg)] d) (fun d0 => Ok (d0, false))) = Ok r) in Hr.
  destruct (existsb _ [(p, arg)]); [discriminate|].
  apply upd_fold. exact Hr.
Qed.

(* ---------------------------------------------------------------- the parent document *)
(* the fields of the parent document of the last component ([] when an intermediate
   sub-document is missing: it is created empty), and the last component *)
Fixpoint pfs (parts : list string) (d : value) : list (string * value) :=
  match parts with
  | [] => []
  | q :: rest =>
      match rest with
      | [] => match d with VDoc fs => fs | _ => [] end
      | _ :: _ => match d with
                  | VDoc fs => match assoc q fs with Some x => pfs rest x | None => [] end
                  | _ => []
                  end
      end
  end.
Fixpoint lst (parts : list string) : string :=
  match parts with
  | [] => ""
  | q :: rest => match rest with [] => q | _ :: _ => lst rest end
  end.

Lemma pfs_cons2 p q rest fs :
  pfs (p :: q :: rest) (VDoc fs) = match assoc p fs with Some x => pfs (q :: rest) x | None => [] end.
Proof. reflexivity. Qed.
Lemma pfs_empty parts : pfs parts (VDoc []) = [].
Proof. destruct parts as [|q [|r rest]]; reflexivity. Qed.
Lemma lst_cons2 p q rest : lst (p :: q :: rest) = lst (q :: rest).
Proof. reflexivity. Qed.

Lemma get_cons_doc p rest fs :
  get_by_dot (p :: rest) (VDoc fs) = match assoc p fs with Some v => get_by_dot rest v | None => None end.
Proof. reflexivity. Qed.
Lemma get_one_doc p fs : get_by_dot [p] (VDoc fs) = assoc p fs.
Proof. simpl. destruct (assoc p fs); reflexivity. Qed.
Lemma get_one_set k v fs : get_by_dot [k] (VDoc (set_key k v fs)) = Some v.
Proof. rewrite get_one_doc, assoc_set_key, String.eqb_refl. reflexivity. Qed.

Lemma old_pfs : forall parts d,
  parts <> [] -> parent_ok parts d = true ->
  get_by_dot parts d = assoc (lst parts) (pfs parts d).
Proof.
  induction parts as [|p [|q rest] IH]; intros d Hne Hpo.
  - congruence.
  - destruct (parent_ok_doc _ _ Hpo) as [fs ->]. apply get_one_doc.
  - destruct (parent_ok_doc _ _ Hpo) as [fs ->]. rewrite parent_ok_cons2 in Hpo.
    rewrite get_cons_doc, pfs_cons2, lst_cons2.
    destruct (assoc p fs) as [x|]; [apply IH; [discriminate|exact Hpo] | reflexivity].
Qed.

Lemma walk_parent u now arg : u <> UUnset -> forall parts d d',
  parts <> [] -> parent_ok parts d = true -> walk u now parts d arg = Ok d' ->
  exists r, apply_updater u now (VDoc (pfs parts d)) (lst parts) arg = Ok r /\
            get_by_dot parts d' = get_by_dot [lst parts] r.
Proof.
  intros Hu. induction parts as [|p [|q rest] IH]; intros d d' Hne Hpo Hw.
  - congruence.
  - rewrite walk_one in Hw. destruct (parent_ok_doc _ _ Hpo) as [fs ->].
    exists d'. split; [exact Hw|reflexivity].
  - rewrite walk_cons2 in Hw. destruct (parent_ok_doc _ _ Hpo) as [fs ->].
    rewrite parent_ok_cons2 in Hpo. rewrite pfs_cons2, lst_cons2.
    destruct (assoc p fs) as [sub|] eqn:Ea.
    + bind_inv Hw sub' Hs. inversion Hw; subst d'.
      destruct (IH sub sub' ltac:(discriminate) Hpo Hs) as [r [Hr Hg]].
      exists r. split; [exact Hr|].
      rewrite get_cons_doc, assoc_set_key, String.eqb_refl. exact Hg.
    + assert (Hw' : bind (walk u now (q :: rest) (VDoc []) arg)
                         (fun sub' => Ok (VDoc (set_key p sub' fs))) = Ok d').
      { destruct u; try exact Hw. congruence. }
      clear Hw. bind_inv Hw' sub' Hs. inversion Hw'; subst d'.
      destruct (IH (VDoc []) sub' ltac:(discriminate) (parent_ok_empty _) Hs) as [r [Hr Hg]].
      rewrite pfs_empty in Hr.
      exists r. split; [exact Hr|].
      rewrite get_cons_doc, assoc_set_key, String.eqb_refl. exact Hg.
Qed.

Lemma walk_unset now arg : forall parts d d',
  parts <> [] -> parent_ok parts d = true -> wf_value d = true ->
  walk UUnset now parts d arg = Ok d' -> get_by_dot parts d' = None.
Proof.
  induction parts as [|p [|q rest] IH]; intros d d' Hne Hpo Hwf Hw.
  - congruence.
  - rewrite walk_one in Hw. destruct (parent_ok_doc _ _ Hpo) as [fs ->].
    simpl in Hw. inversion Hw; subst d'.
    rewrite get_one_doc, assoc_del_key, String.eqb_refl by (apply wf_doc_nodup; exact Hwf).
    reflexivity.
  - rewrite walk_cons2 in Hw. destruct (parent_ok_doc _ _ Hpo) as [fs ->].
    rewrite parent_ok_cons2 in Hpo.
    destruct (assoc p fs) as [sub|] eqn:Ea.
    + bind_inv Hw sub' Hs. inversion Hw; subst d'.
      rewrite get_cons_doc, assoc_set_key, String.eqb_refl.
      apply (IH sub sub'); [discriminate | exact Hpo | eapply wf_doc_assoc; eassumption | exact Hs].
    + inversion Hw; subst d'. rewrite get_cons_doc, Ea. reflexivity.
Qed.

(* with_parent_spec: the same shape; the filter walked alongside only matters for errors *)
Lemma wps_one p fs sub f :
  with_parent_spec [p] (VDoc fs) sub f = if p =? "$" then Err EUnmodelled else f (VDoc fs) p.
Proof. reflexivity. Qed.
Lemma wps_cons2 p q rest fs sub f :
  with_parent_spec (p :: q :: rest) (VDoc fs) sub f =
  if p =? "$" then Err EUnmodelled else
  let x := match assoc p fs with Some s => s | None => VDoc [] end in
  let! sub' := follow_key sub p in
  let! x' := with_parent_spec (q :: rest) x sub' f in
  Ok (VDoc (set_key p x' fs)).
Proof. reflexivity. Qed.

Lemma wps_parent f : forall parts d sub d',
  parts <> [] -> parent_ok parts d = true -> with_parent_spec parts d sub f = Ok d' ->
  exists r, f (VDoc (pfs parts d)) (lst parts) = Ok r /\
            get_by_dot parts d' = get_by_dot [lst parts] r.
Proof.
  induction parts as [|p [|q rest] IH]; intros d sub d' Hne Hpo Hw.
  - congruence.
  - destruct (parent_ok_doc _ _ Hpo) as [fs ->]. rewrite wps_one in Hw.
    destruct (p =? "$"); [discriminate|].
    exists d'. split; [exact Hw|reflexivity].
  - destruct (parent_ok_doc _ _ Hpo) as [fs ->]. rewrite wps_cons2 in Hw.
    rewrite parent_ok_cons2 in Hpo. rewrite pfs_cons2, lst_cons2.
    destruct (p =? "$"); [discriminate|]. cbv zeta in Hw.
    bind_inv Hw sub' Hf. bind_inv Hw x' Hx. inversion Hw; subst d'.
    destruct (assoc p fs) as [s|] eqn:Ea.
    + destruct (IH s sub' x' ltac:(discriminate) Hpo Hx) as [r [Hr Hg]].
      exists r. split; [exact Hr|].
      rewrite get_cons_doc, assoc_set_key, String.eqb_refl. exact Hg.
    + destruct (IH (VDoc []) sub' x' ltac:(discriminate) (parent_ok_empty _) Hx) as [r [Hr Hg]].
      rewrite pfs_empty in Hr.
      exists r. split; [exact Hr|].
      rewrite get_cons_doc, assoc_set_key, String.eqb_refl. exact Hg.
Qed.

(* pull_walk reaches the array the path resolves to *)
Lemma pull_walk_arr f : forall parts d d' xs,
  parent_ok parts d = true -> get_by_dot parts d = Some (VArr xs) ->
  pull_walk parts d f = Ok d' ->
  exists ys, f xs = Ok ys /\ get_by_dot parts d' = Some (VArr ys).
Proof.
  induction parts as [|p rest IH]; intros d d' xs Hpo Hg Hw.
  - simpl in Hg. inversion Hg; subst d. simpl in Hw. bind_inv Hw ys Hy. inversion Hw; subst d'.
    exists ys. split; [exact Hy|reflexivity].
  - destruct (parent_ok_doc _ _ Hpo) as [fs ->]. rewrite get_cons_doc in Hg.
    simpl in Hw. destruct (assoc p fs) as [sub|] eqn:Ea; [|discriminate].
    bind_inv Hw sub' Hs. inversion Hw; subst d'.
    rewrite get_cons_doc, assoc_set_key, String.eqb_refl.
    destruct rest as [|q rest'].
    + simpl in Hg. inversion Hg; subst sub. simpl in Hs. bind_inv Hs ys Hy. inversion Hs; subst sub'.
      exists ys. split; [exact Hy|reflexivity].
    + rewrite parent_ok_cons2, Ea in Hpo. apply (IH sub sub' xs Hpo Hg Hs).
Qed.

(* ---------------------------------------------------------------- the law's precondition *)
Definition law_pre (p : string) (d : value) : bool :=
  negb (existsb (fun s => match as_index s with Some _ => true | None => false end) (split_dots p))
  && parent_ok (split_dots p) d.

Lemma law_pre_ok p d : law_pre p d = true -> parent_ok (split_dots p) d = true.
Proof. unfold law_pre. intro H. apply andb_true_iff in H. exact (proj2 H). Qed.
