(* C04 proofs, part 9: the sentences of the property stated directly on the model. *)
From Coq Require Import ZArith List String Bool Ascii Lia.
From Verif Require Import Value PyEq BsonOrder Path Update Filter FilterSpec Cursor Expr ExprSpec ExprGuard.
From Verif Require Import C01Values C04Base C04Paths C04Order C04Slice C04Ops C04Lists C04Binders C04Switch C04Sets C04Proofs.
Import ListNotations.
Open Scope Z_scope.
Open Scope string_scope.
Open Scope list_scope.

Definition nullish_m (r : eres) : Prop := r = EV VNull \/ r = EMiss.
Definition number_m (r : eres) : Prop := exists v, r = EV v /\ is_number v = true /\ is_null v = false.
Definition no_error (r : eres) : Prop := (exists v, r = EV v) \/ r = EMiss.

(* ---- null propagates through arithmetic *)
Lemma null_abs vars doc e : nullish_m (eval vars doc true e) ->
  eval vars doc true (VDoc [("$abs", e)]) = EV VNull.
Proof. intros [H|H]; simpl; rewrite H; reflexivity. Qed.

Lemma collect_no_error rs : Forall no_error rs -> exists vs, collect (map mi rs) = Ok (Some vs) /\
  Forall2 (fun r v => mi r = EV v) rs vs.
Proof.
  induction 1 as [|r rs Hr _ [vs [IH1 IH2]]].
  - exists []. split; [reflexivity|constructor].
  - destruct Hr as [[v Hr]|Hr]; subst r.
    + exists (v :: vs). simpl. rewrite IH1. split; [reflexivity|constructor; [reflexivity|exact IH2]].
    + exists (VNull :: vs). simpl. rewrite IH1. split; [reflexivity|constructor; [reflexivity|exact IH2]].
Qed.

Lemma scan_prefix k vs pre : forall x post,
  Forall (fun v => is_number v = true /\ is_null v = false) pre -> is_null x = true ->
  m_scan k vs (pre ++ x :: post) = EV VNull.
Proof.
  induction pre as [|p pre IH]; intros x post Hp Hx.
  - simpl. rewrite Hx. reflexivity.
  - inversion Hp as [|? ? [H1 H2] Hp']; subst.
    change (m_scan k vs ((p :: pre) ++ x :: post)) with
      (if is_null p then EV VNull else if is_number p then m_scan k vs (pre ++ x :: post) else EE ECrash).
    rewrite H1, H2. apply IH; assumption.
Qed.

Lemma null_addmul vars doc k pre x post : k = "$add" \/ k = "$multiply" ->
  Forall (fun p => number_m (eval vars doc true p)) pre ->
  nullish_m (eval vars doc true x) ->
  Forall (fun q => no_error (eval vars doc true q)) post ->
  eval vars doc true (VDoc [(k, VArr (pre ++ x :: post))]) = EV VNull.
Proof.
  intros Hk Hpre Hx Hpost. rewrite (eval_add _ _ _ _ Hk).
  destruct (pre ++ x :: post) as [|y ys] eqn:E; [destruct pre; discriminate|]. rewrite <- E. clear E y ys.
  rewrite map_many_item, with_list_mi.
  assert (Hall : Forall no_error (map (eval vars doc true) (pre ++ x :: post))).
  { rewrite Forall_map. apply Forall_app. split.
    - eapply Forall_impl; [|exact Hpre]. intros p [v [Hv _]]. left. exists v. exact Hv.
    - constructor; [|exact Hpost].
      destruct Hx as [Hx|Hx]; [left; eexists; exact Hx|right; exact Hx]. }
  destruct (collect_no_error _ Hall) as [vs [Hc HF]]. rewrite Hc.
  rewrite map_app in HF. simpl in HF.
  (* the shape of the collected values *)
  apply Forall2_app_inv_l in HF. destruct HF as [vpre [vrest [HF1 [HF2 ->]]]].
  inversion HF2 as [|? vx ? vpost Hvx HF3]; subst.
  apply scan_prefix.
  - clear -HF1 Hpre. revert vpre HF1. induction Hpre as [|p pre [v [Hv [Hn Hnn]]] _ IH]; intros vpre HF1.
    + inversion HF1. constructor.
    + simpl in HF1. inversion HF1 as [|? w ? ws Hw HF']; subst. constructor.
      * rewrite Hv in Hw. simpl in Hw. inversion Hw; subst. split; assumption.
      * apply IH. exact HF'.
  - destruct Hx as [Hx|Hx]; rewrite Hx in Hvx; simpl in Hvx; inversion Hvx; reflexivity.
Qed.

Lemma null_subtract vars doc a b :
  no_error (eval vars doc true a) -> no_error (eval vars doc true b) ->
  nullish_m (eval vars doc true a) \/ nullish_m (eval vars doc true b) ->
  eval vars doc true (VDoc [("$subtract", VArr [a; b])]) = EV VNull.
Proof.
  intros Ha Hb Hn. simpl. unfold with_list.
  destruct Ha as [[va Ha]|Ha], Hb as [[vb Hb]|Hb]; rewrite Ha, Hb in *; simpl.
  - destruct Hn as [[Hn|Hn]|[Hn|Hn]]; inversion Hn; subst; simpl; try reflexivity.
    destruct va; reflexivity.
  - destruct va; reflexivity.
  - reflexivity.
  - reflexivity.
Qed.

(* ---- a missing field is omitted from computed fields *)
Lemma missing_omitted f e doc fs : doc = VDoc fs ->
  eval [] doc true e = EMiss -> obs_add_field f e doc = Ok doc.
Proof. intros -> H. unfold obs_add_field. rewrite H. reflexivity. Qed.

Lemma present_set f e fs v :
  eval [] (VDoc fs) true e = EV v -> obs_add_field f e (VDoc fs) = Ok (VDoc (set_key f v fs)).
Proof. intros H. unfold obs_add_field. rewrite H. reflexivity. Qed.

(* ---- a missing field is false in conditions *)
Lemma missing_false : to_bool EMiss = Ok false.
Proof. reflexivity. Qed.

Lemma cond_missing vars doc c t f : eval vars doc true c = EMiss ->
  eval vars doc true (VDoc [("$cond", VArr [c; t; f])]) = eval vars doc true f.
Proof. intros H. simpl. rewrite H. reflexivity. Qed.

Lemma cond_doc_missing vars doc c t f : eval vars doc true c = EMiss ->
  eval vars doc true (VDoc [("$cond", VDoc [("if", c); ("then", t); ("else", f)])]) = eval vars doc true f.
Proof. intros H. simpl. rewrite H. reflexivity. Qed.

Lemma not_missing vars doc c : eval vars doc true c = EMiss ->
  eval vars doc true (VDoc [("$not", VArr [c])]) = EV (VBool true).
Proof. intros H. simpl. rewrite H. reflexivity. Qed.

Lemma all_go_false l : forall acc, Forall (fun r => exists b, r = Ok b) l ->
  (acc = false \/ In (Ok false) l) -> all_go l acc = EV (VBool false).
Proof.
  induction l as [|r l IH]; intros acc Hall H.
  - destruct H as [->|[]]. reflexivity.
  - inversion Hall as [|? ? [b ->] Hall']; subst. simpl. apply IH; [exact Hall'|].
    destruct H as [->|[H|H]].
    + left. reflexivity.
    + inversion H; subst. left. apply andb_false_r.
    + right. exact H.
Qed.

Lemma and_missing vars doc xs c :
  Forall (fun x => exists b, to_bool (eval vars doc true x) = Ok b) xs ->
  In c xs -> eval vars doc true c = EMiss ->
  eval vars doc true (VDoc [("$and", VArr xs)]) = EV (VBool false).
Proof.
  intros Hall Hin Hc. rewrite eval_and. apply all_go_false.
  - rewrite Forall_map. exact Hall.
  - right. apply in_map_iff. exists c. split; [rewrite Hc; reflexivity|exact Hin].
Qed.

Lemma or_missing_only vars doc c : eval vars doc true c = EMiss ->
  eval vars doc true (VDoc [("$or", VArr [c])]) = EV (VBool false).
Proof. intros H. simpl. rewrite H. reflexivity. Qed.

Lemma switch_missing vars doc c t d : eval vars doc true c = EMiss ->
  eval vars doc true (VDoc [("$switch", VDoc [("branches", VArr [VDoc [("case", c); ("then", t)]]); ("default", d)])])
  = eval vars doc true d.
Proof. intros H. simpl. rewrite H. reflexivity. Qed.

(* ---- $ifNull *)
Lemma ifnull_value vars doc a b v : eval vars doc true a = EV v -> v <> VNull ->
  eval vars doc true (VDoc [("$ifNull", VArr [a; b])]) = EV v.
Proof. intros H Hv. simpl. rewrite H. destruct v; try reflexivity. contradiction. Qed.

Lemma ifnull_fallback vars doc a b : nullish_m (eval vars doc true a) ->
  eval vars doc true (VDoc [("$ifNull", VArr [a; b])]) = eval vars doc true b.
Proof. intros [H|H]; simpl; rewrite H; reflexivity. Qed.

(* ---- $expr *)
Lemma expr_truthy e doc :
  obs_expr e doc = Ok true <-> exists v, eval [] doc true e = EV v /\ mongo_bool v = true.
Proof.
  unfold obs_expr. split.
  - destruct (eval [] doc true e) as [v| |er]; intros H; inversion H. exists v. split; reflexivity.
  - intros [v [H1 H2]]. rewrite H1, H2. reflexivity.
Qed.

Lemma mongo_bool_false v : mongo_bool v = false <->
  v = VBool false \/ v = VNull \/ v = VInt 0 \/ v = VDbl 0.
Proof.
  split.
  - destruct v as [|b|z|e|s|us tz|n|fs|xs]; unfold mongo_bool; simpl; intros H; try discriminate.
    + right. left. reflexivity.
    + destruct b; [discriminate|left; reflexivity].
    + destruct z; try discriminate. right. right. left. reflexivity.
    + destruct e; try discriminate. right. right. right. reflexivity.
  - intros [->|[->|[->| ->]]]; reflexivity.
Qed.

(* ---- $literal, $$ROOT, $$CURRENT *)
Lemma literal_value vars doc ign v : eval vars doc ign (VDoc [("$literal", v)]) = EV v.
Proof. reflexivity. Qed.

Lemma root_value vars doc ign : var_lookup "ROOT" (lift vars) = None ->
  eval vars doc ign (VStr "$$ROOT") = EV doc.
Proof.
  intros H. simpl. unfold root_vars. simpl. rewrite root_vars_lookup, H. reflexivity.
Qed.

Lemma current_value vars doc ign : var_lookup "CURRENT" (lift vars) = None ->
  eval vars doc ign (VStr "$$CURRENT") = EV doc.
Proof.
  intros H. simpl. unfold root_vars. simpl. rewrite root_vars_lookup, H. reflexivity.
Qed.

Lemma root_value_top doc ign : eval [] doc ign (VStr "$$ROOT") = EV doc /\ eval [] doc ign (VStr "$$CURRENT") = EV doc.
Proof. split; reflexivity. Qed.

(* ---- comparisons in cross-type BSON order *)
Definition cmp_of (k : string) : cmpop :=
  if k =? "$gt" then OpGt else if k =? "$gte" then OpGe else if k =? "$lt" then OpLt else OpLe.

Lemma comparison_present vars doc k a b x y : In k ["$gt"; "$gte"; "$lt"; "$lte"] ->
  eval vars doc true a = EV x -> eval vars doc true b = EV y ->
  eval vars doc true (VDoc [(k, VArr [a; b])]) =
  match bson_compare (cmp_of k) x y true with Ok r => EV (VBool r) | Err er => EE er end.
Proof.
  intros [<-|[<-|[<-|[<-|[]]]]] Ha Hb; simpl; rewrite Ha, Hb; reflexivity.
Qed.

(* a missing operand compares below every present one (and equal to another missing one) *)
Lemma comparison_missing vars doc k a b : In k ["$gt"; "$gte"; "$lt"; "$lte"] ->
  no_error (eval vars doc true a) -> no_error (eval vars doc true b) ->
  eval vars doc true a = EMiss \/ eval vars doc true b = EMiss ->
  eval vars doc true (VDoc [(k, VArr [a; b])]) =
  EV (VBool (op_holds (cmp_of k)
               (Bool.compare (match eval vars doc true a with EV _ => true | _ => false end)
                             (match eval vars doc true b with EV _ => true | _ => false end)))).
Proof.
  intros Hk Ha Hb Hm.
  destruct Ha as [[va Ha]|Ha], Hb as [[vb Hb]|Hb]; rewrite Ha, Hb in *.
  - destruct Hm as [Hm|Hm]; discriminate.
  - destruct Hk as [<-|[<-|[<-|[<-|[]]]]]; simpl; rewrite Ha, Hb; reflexivity.
  - destruct Hk as [<-|[<-|[<-|[<-|[]]]]]; simpl; rewrite Ha, Hb; reflexivity.
  - destruct Hk as [<-|[<-|[<-|[<-|[]]]]]; simpl; rewrite Ha, Hb; reflexivity.
Qed.

(* on operands the specification orders, bson_compare is the BSON order of the specification *)
Lemma comparison_bson_order op x y c :
  spec_cmp3 x y = Some c -> bson_compare op x y true = Ok (op_holds op c).
Proof. apply cmp3_model. Qed.
