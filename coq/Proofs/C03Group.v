(* C03 part A -- $group partitions its input *)
From Coq Require Import ZArith List String Bool Ascii Lia Permutation.
From Verif Require Import Value PyEq BsonOrder Path Update Filter Coll Expr Pipeline.
From Verif Require Import C03Base C03Laws.
Import ListNotations.
Open Scope Z_scope.
Open Scope string_scope.
Open Scope list_scope.

(* the key of a document under the _id expression: a missing value reads as null *)
Definition key_fn (e : value) (d : value) : res (value * value) :=
  match eval [] d true e with
  | EV v => Ok (v, d)
  | EMiss => Ok (VNull, d)
  | EE er => Err er
  end.

Definition groups_of (e : value) (l : list value) : res (list (value * list value)) :=
  if negb (is_null e) then
    let! keyed := mapM (key_fn e) l in
    let! sorted := py_sorted (fun a b => bson_lt (fst a) (fst b)) false keyed in
    Ok (group_by sorted None)
  else Ok (match l with [] => [] | _ => [(VNull, l)] end).

Definition group_out (fields : list (string * value)) (kg : value * list value) : res value :=
  let! fs := accumulate_group fields [] (snd kg) in
  Ok (VDoc (set_key "_id" (fst kg) fs)).

Lemma group_stage_unfold fields e l :
  assoc "_id" fields = Some e ->
  group_stage (VDoc fields) l = let! gs := groups_of e l in mapM (group_out fields) gs.
Proof. intros H. unfold group_stage. rewrite H. reflexivity. Qed.

Lemma run_stage_group db o l : run_stage db "$group" o l = group_stage o l.
Proof. destruct o; reflexivity. Qed.

(* ---------- groupby keeps every document, in order *)
Lemma group_by_concat l : forall cur,
  List.concat (map snd (group_by l cur)) =
  (match cur with Some (_, g) => rev g | None => [] end) ++ map snd l.
Proof.
  induction l as [|[k d] l IH]; intros cur.
  - destruct cur as [[ck g]|]; simpl; rewrite ?app_nil_r; reflexivity.
  - destruct cur as [[ck g]|]; cbn [group_by].
    + destruct (py_eq ck k).
      * rewrite IH. simpl. rewrite <- app_assoc. reflexivity.
      * change (List.concat (map snd ((ck, rev g) :: group_by l (Some (k, [d])))))
          with (rev g ++ List.concat (map snd (group_by l (Some (k, [d]))))).
        rewrite IH. reflexivity.
    + rewrite IH. reflexivity.
Qed.

Lemma mapM_key_fn_snd e l keyed : mapM (key_fn e) l = Ok keyed -> map snd keyed = l.
Proof.
  revert keyed. induction l as [|d l IH]; intros keyed H; cbn [mapM] in H.
  - inversion H; reflexivity.
  - destruct (key_fn e d) as [kd|er] eqn:Hk; cbn [bind] in H; [|discriminate].
    destruct (mapM (key_fn e) l) as [r|er] eqn:Hr; cbn [bind] in H; [|discriminate].
    inversion H; subst. simpl. rewrite (IH r eq_refl). f_equal.
    unfold key_fn in Hk. destruct (eval [] d true e); inversion Hk; reflexivity.
Qed.

Lemma groups_partition e l gs :
  groups_of e l = Ok gs -> Permutation (List.concat (map snd gs)) l.
Proof.
  unfold groups_of. destruct (negb (is_null e)).
  - destruct (mapM (key_fn e) l) as [keyed|er] eqn:Hk; cbn [bind]; [|discriminate].
    destruct (py_sorted _ false keyed) as [sorted|er] eqn:Hs; cbn [bind]; [|discriminate].
    intros H. inversion H; subst. rewrite group_by_concat. simpl.
    rewrite <- (mapM_key_fn_snd _ _ _ Hk). apply Permutation_map. apply Permutation_sym.
    eapply py_sorted_perm. exact Hs.
  - intros H. inversion H; subst. destruct l; simpl; [constructor|]. rewrite app_nil_r. apply Permutation_refl.
Qed.

Lemma concat_length {A} (ls : list (list A)) :
  List.length (List.concat ls) = fold_right (fun g n => (List.length g + n)%nat) O ls.
Proof. induction ls as [|g ls IH]; [reflexivity|]. simpl. rewrite app_length, IH. reflexivity. Qed.

Lemma groups_sizes e l gs :
  groups_of e l = Ok gs ->
  fold_right (fun g n => (List.length g + n)%nat) O (map snd gs) = List.length l.
Proof.
  intros H. rewrite <- concat_length. apply Permutation_length. eapply groups_partition. exact H.
Qed.

(* ---------- the keys inside and between groups *)
Definition has_key_of (e : value) (k d : value) : Prop := key_fn e d = Ok (k, d).

(* a group: non-empty, its key is the key of its first document, the keys of the others
   are == to it *)
Definition group_good (e : value) (kg : value * list value) : Prop :=
  exists d0 rest, snd kg = d0 :: rest /\ has_key_of e (fst kg) d0 /\
    Forall (fun d => exists k', has_key_of e k' d /\ py_eq (fst kg) k' = true) rest.

Fixpoint adj_distinct (gs : list (value * list value)) : Prop :=
  match gs with
  | kg1 :: (kg2 :: _) as tl => py_eq (fst kg1) (fst kg2) = false /\ adj_distinct tl
  | _ => True
  end.

Lemma group_by_good e l : forall ck g,
  Forall (fun kd => has_key_of e (fst kd) (snd kd)) l ->
  group_good e (ck, rev g) ->
  Forall (group_good e) (group_by l (Some (ck, g))) /\
  adj_distinct (group_by l (Some (ck, g))) /\
  exists g' tl, group_by l (Some (ck, g)) = (ck, g') :: tl.
Proof.
  induction l as [|[k d] l IH]; intros ck g HF Hg.
  - cbn [group_by]. split; [constructor; [exact Hg|constructor]|]. split; [exact I|]. eexists _, _. reflexivity.
  - inversion HF as [|? ? Hkd HF']; subst. cbn [fst snd] in Hkd. cbn [group_by].
    destruct (py_eq ck k) eqn:Heq.
    + apply IH; [exact HF'|]. destruct Hg as (d0 & rest & Hr & Hk0 & Hrest). cbn [fst snd] in *.
      exists d0, (rest ++ [d]). cbn [rev fst snd]. rewrite Hr. split; [reflexivity|]. split; [exact Hk0|].
      apply Forall_app. split; [exact Hrest|]. constructor; [|constructor]. exists k. split; [exact Hkd|exact Heq].
    + destruct (IH k [d] HF') as (HG & HA & g' & tl & Hshape).
      { exists d, []. cbn [rev app fst snd]. split; [reflexivity|]. split; [exact Hkd|constructor]. }
      split; [constructor; [exact Hg|exact HG]|]. split.
      * rewrite Hshape in *. cbn [adj_distinct fst]. split; [exact Heq|exact HA].
      * eexists _, _. reflexivity.
Qed.

Lemma key_fn_has e l keyed :
  mapM (key_fn e) l = Ok keyed -> Forall (fun kd => has_key_of e (fst kd) (snd kd)) keyed.
Proof.
  revert keyed. induction l as [|d l IH]; intros keyed H; cbn [mapM] in H.
  - inversion H; constructor.
  - destruct (key_fn e d) as [kd|er] eqn:Hk; cbn [bind] in H; [|discriminate].
    destruct (mapM (key_fn e) l) as [r|er] eqn:Hr; cbn [bind] in H; [|discriminate].
    inversion H; subst. constructor; [|apply IH; reflexivity].
    assert (Hs : snd kd = d) by (unfold key_fn in Hk; destruct (eval [] d true e); inversion Hk; reflexivity).
    unfold has_key_of. rewrite Hs. rewrite Hk. destruct kd; simpl in *; subst; reflexivity.
Qed.

Lemma groups_keys e l gs :
  is_null e = false -> groups_of e l = Ok gs ->
  Forall (group_good e) gs /\ adj_distinct gs.
Proof.
  unfold groups_of. intros Hn. rewrite Hn. cbn [negb].
  destruct (mapM (key_fn e) l) as [keyed|er] eqn:Hk; cbn [bind]; [|discriminate].
  destruct (py_sorted _ false keyed) as [sorted|er] eqn:Hs; cbn [bind]; [|discriminate].
  intros H. inversion H; subst. clear H.
  assert (HF : Forall (fun kd => has_key_of e (fst kd) (snd kd)) sorted).
  { apply key_fn_has in Hk. eapply Permutation_Forall; [eapply py_sorted_perm; exact Hs|exact Hk]. }
  destruct sorted as [|[k d] sorted]; [split; [constructor|exact I]|].
  cbn [group_by]. inversion HF as [|? ? Hkd HF']; subst.
  destruct (group_by_good e sorted k [d] HF') as (HG & HA & _).
  - exists d, []. cbn [rev app fst snd]. split; [reflexivity|]. split; [exact Hkd|constructor].
  - split; assumption.
Qed.

(* ---------- {$sum: 1} counts the members of each group *)
Lemma acc_values_one g : acc_values (VInt 1) g = Ok (repeat (VInt 1) (List.length g)).
Proof. induction g as [|d g IH]; [reflexivity|]. cbn [acc_values eval]. rewrite IH. reflexivity. Qed.

Lemma py_sum_ones n : forall a, fold_left num_add (repeat (VInt 1) n) (VInt a) = VInt (a + Z.of_nat n).
Proof.
  induction n as [|n IH]; intros a; [simpl; f_equal; lia|].
  cbn [repeat fold_left]. change (num_add (VInt a) (VInt 1)) with (VInt (a + 1)). rewrite IH. f_equal. lia.
Qed.

Lemma filter_numeric_ones n : List.filter is_numeric (repeat (VInt 1) n) = repeat (VInt 1) n.
Proof. induction n as [|n IH]; [reflexivity|]. simpl. rewrite IH. reflexivity. Qed.

Lemma group_out_sum_one e f kg :
  f <> "_id" ->
  group_out [("_id", e); (f, VDoc [("$sum", VInt 1)])] kg =
  Ok (VDoc [(f, VInt (Z.of_nat (List.length (snd kg)))); ("_id", fst kg)]).
Proof.
  intros Hf. unfold group_out. cbn [accumulate_group String.eqb Ascii.eqb Bool.eqb].
  destruct (f =? "_id") eqn:E; [apply String.eqb_eq in E; contradiction|].
  cbn [assoc accumulate_field]. unfold accumulate_op. rewrite acc_values_one. cbn [bind].
  change (("$sum" =? "$sum") || ("$sum" =? "$avg") || ("$sum" =? "$min") || ("$sum" =? "$max")
          || ("$sum" =? "$first") || ("$sum" =? "$last")) with true. cbv iota.
  unfold group_fold. change ("$sum" =? "$sum") with true. cbv iota.
  rewrite filter_numeric_ones. unfold py_sum. rewrite py_sum_ones. cbn [bind accumulate_group set_key].
  assert (E2 : ("_id" =? f) = false).
  { destruct ("_id" =? f) eqn:E2; [apply String.eqb_eq in E2; subst; contradiction|reflexivity]. }
  rewrite E2. reflexivity.
Qed.

Lemma group_sum_one db e f l r :
  f <> "_id" ->
  run_stage db "$group" (VDoc [("_id", e); (f, VDoc [("$sum", VInt 1)])]) l = Ok r ->
  exists gs, groups_of e l = Ok gs /\
    r = map (fun kg => VDoc [(f, VInt (Z.of_nat (List.length (snd kg)))); ("_id", fst kg)]) gs /\
    Permutation (List.concat (map snd gs)) l /\
    fold_right (fun g n => (List.length g + n)%nat) O (map snd gs) = List.length l.
Proof.
  intros Hf. rewrite run_stage_group. rewrite (group_stage_unfold [("_id", e); (f, VDoc [("$sum", VInt 1)])] e l eq_refl).
  destruct (groups_of e l) as [gs|er] eqn:Hg; cbn [bind]; [|discriminate].
  intros H. exists gs. split; [reflexivity|].
  split.
  - erewrite mapM_ext in H; [|intros kg _; apply group_out_sum_one; exact Hf].
    rewrite mapM_pure in H. inversion H; reflexivity.
  - split; [eapply groups_partition; exact Hg|eapply groups_sizes; exact Hg].
Qed.

(* the general statement: whatever the accumulators, one output document per group, in the
   order of the groups, carrying the group's key under _id *)
Lemma group_partition db fields e l r :
  assoc "_id" fields = Some e ->
  run_stage db "$group" (VDoc fields) l = Ok r ->
  exists gs, groups_of e l = Ok gs /\
    Permutation (List.concat (map snd gs)) l /\
    fold_right (fun g n => (List.length g + n)%nat) O (map snd gs) = List.length l /\
    (is_null e = false -> Forall (group_good e) gs /\ adj_distinct gs) /\
    Forall2 (fun kg out => exists fs, accumulate_group fields [] (snd kg) = Ok fs /\
                                      out = VDoc (set_key "_id" (fst kg) fs) /\
                                      get_by_dot ["_id"] out = Some (fst kg)) gs r.
Proof.
  intros He. rewrite run_stage_group. rewrite (group_stage_unfold _ e _ He).
  destruct (groups_of e l) as [gs|er] eqn:Hg; cbn [bind]; [|discriminate].
  intros H. exists gs. split; [reflexivity|].
  split; [eapply groups_partition; exact Hg|]. split; [eapply groups_sizes; exact Hg|].
  split; [intros Hn; eapply groups_keys; eassumption|].
  apply mapM_Forall2 in H. clear Hg. induction H as [|kg out gs r Hh _ IH]; constructor; [|exact IH].
  unfold group_out in Hh. destruct (accumulate_group fields [] (snd kg)) as [fs|er]; cbn [bind] in Hh; [|discriminate].
  inversion Hh; subst. exists fs. repeat split. cbn [get_by_dot]. rewrite assoc_set_key_same. reflexivity.
Qed.
