(* C11: the sort keys.  A total three-way comparison vcmp on values that extends spec_cmp3
   (a total preorder), agreement of the model's sort_lt / sort_key with it on the values
   the specification decides. *)
From Coq Require Import ZArith List String Bool Ascii Lia.
From Verif Require Import Value PyEq BsonOrder Path Filter FilterSpec FilterGuard Update Coll Cursor.
From Verif Require Import C01Paths C11Sort.
From Verif.Gen Require Import TypeRank.
Import ListNotations.
Open Scope Z_scope.

(* ------------------------------------------------------------------ comparisons on Z, string *)
Lemma tpo_Z : tpo Z.compare.
Proof.
  constructor.
  - intros a b. apply Z.compare_antisym.
  - intros a b c E. apply Z.compare_eq in E. subst. reflexivity.
  - intros a b c E1 E2. rewrite Z.compare_lt_iff in *. lia.
Qed.

Lemma ascii_compare_lt_trans a b c :
  Ascii.compare a b = Lt -> Ascii.compare b c = Lt -> Ascii.compare a c = Lt.
Proof. unfold Ascii.compare. rewrite !N.compare_lt_iff. apply N.lt_trans. Qed.

Lemma string_compare_lt_trans : forall a b c,
  String.compare a b = Lt -> String.compare b c = Lt -> String.compare a c = Lt.
Proof.
  induction a as [|x a IH]; intros [|y b] [|z c]; simpl; try congruence.
  destruct (Ascii.compare x y) eqn:E1; try discriminate;
    destruct (Ascii.compare y z) eqn:E2; try discriminate; intros H1 H2.
  - apply Ascii.compare_eq_iff in E1, E2. subst.
    assert (E : Ascii.compare z z = Eq) by (unfold Ascii.compare; apply N.compare_refl).
    rewrite E. eapply IH; eassumption.
  - apply Ascii.compare_eq_iff in E1. subst. rewrite E2. reflexivity.
  - apply Ascii.compare_eq_iff in E2. subst. rewrite E1. reflexivity.
  - rewrite (ascii_compare_lt_trans x y z E1 E2). reflexivity.
Qed.

Lemma tpo_string : tpo String.compare.
Proof.
  constructor.
  - intros a b. apply String.compare_antisym.
  - intros a b c E. apply String.compare_eq_iff in E. subst. reflexivity.
  - apply string_compare_lt_trans.
Qed.

(* ------------------------------------------------------------------ the total comparison *)
Definition vkey (v : value) : Z * Z * string :=
  match v with
  | VNull => (1, 0, EmptyString)
  | VInt a => (2, 8 * a, EmptyString)
  | VDbl a => (2, a, EmptyString)
  | VStr s => (3, 0, s)
  | VDoc _ => (4, 0, EmptyString)
  | VArr _ => (5, 0, EmptyString)
  | VOid _ => (7, 0, EmptyString)
  | VBool b => (8, if b then 1 else 0, EmptyString)
  | VDate a tz => (9, date_key a tz, EmptyString)
  end.

Definition kcmp : Z * Z * string -> Z * Z * string -> comparison :=
  lex2 (fun a b => Z.compare (fst (fst a)) (fst (fst b)))
       (lex2 (fun a b => Z.compare (snd (fst a)) (snd (fst b)))
             (fun a b => String.compare (snd a) (snd b))).

Definition vcmp (a b : value) : comparison := kcmp (vkey a) (vkey b).

Lemma tpo_vcmp : tpo vcmp.
Proof.
  unfold vcmp. apply tpo_pull. unfold kcmp.
  apply tpo_lex; [apply (tpo_pull (fun a : Z * Z * string => fst (fst a))); exact tpo_Z|].
  apply tpo_lex; [apply (tpo_pull (fun a : Z * Z * string => snd (fst a))); exact tpo_Z|].
  apply (tpo_pull (fun a : Z * Z * string => snd a)). exact tpo_string.
Qed.

(* the values whose order the specification decides *)
Definition decided (v : value) : bool :=
  match v with
  | VNull | VBool _ | VInt _ | VDbl _ | VStr _ | VDate _ None => true
  | _ => false
  end.

Lemma spec_cmp3_vcmp x y c : spec_cmp3 x y = Some c -> vcmp x y = c.
Proof.
  unfold spec_cmp3, vcmp, kcmp, lex2.
  destruct x as [|b|z|e|s|us tz|n|fs|xs]; destruct y as [|b'|z'|e'|s'|us' tz'|n'|fs'|xs'];
    simpl; try (intros H; injection H as <-; reflexivity); try discriminate.
  - intros H; injection H as <-. destruct (Z.compare _ _); reflexivity.
  - intros H; injection H as <-. destruct (Z.compare _ _); reflexivity.
  - intros H; injection H as <-. destruct (Z.compare _ _); reflexivity.
  - intros H; injection H as <-. destruct (Z.compare _ _); reflexivity.
  - intros H; injection H as <-. destruct (Z.compare _ _); reflexivity.
  - destruct tz, tz'; try discriminate.
    intros H; injection H as <-. destruct (Z.compare _ _); reflexivity.
Qed.

Lemma spec_cmp3_refl_decided x c : spec_cmp3 x x = Some c -> decided x = true.
Proof.
  unfold spec_cmp3. rewrite Z.eqb_refl. simpl.
  destruct x as [|b|z|e|s|us tz|n|fs|xs]; try reflexivity; try discriminate.
  destruct tz; [discriminate|reflexivity].
Qed.

Lemma spec_cmp3_decided x y :
  decided x = true -> decided y = true -> spec_cmp3 x y = Some (vcmp x y).
Proof.
  intros Hx Hy.
  destruct (spec_cmp3 x y) as [c|] eqn:E; [rewrite (spec_cmp3_vcmp _ _ _ E); reflexivity|].
  exfalso. unfold spec_cmp3 in E.
  destruct x as [|b|z|e|s|us tz|n|fs|xs]; try discriminate Hx;
    destruct y as [|b'|z'|e'|s'|us' tz'|n'|fs'|xs']; try discriminate Hy; simpl in E; try discriminate E.
  destruct tz; [discriminate Hx|]. destruct tz'; [discriminate Hy|]. discriminate E.
Qed.

(* the model: BsonComparable.__lt__ on decided values *)
Lemma bson_lt_decided x y :
  decided x = true -> decided y = true -> bson_lt x y = Ok (ltb_of vcmp x y).
Proof.
  intros Hx Hy. unfold bson_lt, bson_compare, ltb_of, vcmp, kcmp, lex2.
  destruct x as [|b|z|e|s|us tz|n|fs|xs]; try discriminate Hx;
    destruct y as [|b'|z'|e'|s'|us' tz'|n'|fs'|xs']; try discriminate Hy;
    try reflexivity.
  all: try (simpl; destruct (Z.compare _ _); reflexivity).
  all: try (simpl; destruct (String.compare _ _); reflexivity).
  destruct tz; [discriminate Hx|]. destruct tz'; [discriminate Hy|].
  simpl. destruct (Z.compare _ _); reflexivity.
Qed.

(* ------------------------------------------------------------------ sort_key vs spec_key *)
(* keys inside the model and inside the fragment where candidates and path_values agree *)
Definition c11_key_ok (k : string) : bool :=
  path_modelled (split_dots k) && negb (ends_empty (split_dots k)).
Definition c11_spec_ok (spec : list (string * Z)) : bool :=
  forallb (fun kd => c11_key_ok (fst kd)) spec.

Lemma flat_map_length_le {A B} (f g : A -> list B) xs :
  (forall x, In x xs -> (List.length (f x) <= List.length (g x))%nat) ->
  (List.length (flat_map f xs) <= List.length (flat_map g xs))%nat.
Proof.
  induction xs as [|x xs IH]; intros H; [simpl; lia|].
  simpl. rewrite !app_length.
  pose proof (H x (or_introl eq_refl)).
  assert ((List.length (flat_map f xs) <= List.length (flat_map g xs))%nat).
  { apply IH. intros y Hy. apply H. right. exact Hy. }
  lia.
Qed.

Lemma candidates_length parts : forall d,
  ends_empty parts = false ->
  (List.length (candidates parts d) <= List.length (path_values parts d))%nat.
Proof.
  induction parts as [|p rest IH]; intros d He; [simpl; lia|].
  destruct (ends_empty_cons _ _ He) as [Hp Hr].
  rewrite candidates_cons by exact Hp.
  assert (IH0 : forall d', (List.length (candidates rest d') <= List.length (path_values rest d'))%nat).
  { destruct rest as [|q rest']; [intros; simpl; lia|]. intros d'. apply IH. apply Hr. discriminate. }
  destruct d as [|b|z|e|s|us tz|n|fs|xs]; try (simpl; lia).
  - cbn [path_values].
    destruct rest as [|q rest'].
    + destruct (assoc p fs); simpl; lia.
    + destruct (assoc p fs) as [v|].
      * apply IH0.
      * rewrite candidates_empty_doc; [simpl; lia|discriminate|apply Hr; discriminate].
  - cbn [path_values].
    destruct (as_index p) as [i|].
    + destruct (nth_z xs i) as [sub|]; [apply IH0|simpl; lia].
    + apply flat_map_length_le. intros sub _.
      destruct sub as [|b|z|e|s|us tz|n|fs|ys]; try (simpl; lia).
      destruct (assoc p fs) as [v|]; [apply IH0|simpl; lia].
Qed.

Lemma spec_key_sort_key k d x :
  ends_empty (split_dots k) = false ->
  spec_key k d = Some x -> sort_key (split_dots k) d = (1, x).
Proof.
  intros He. unfold spec_key, sort_key.
  pose proof (somes_candidates (split_dots k) d He) as HS.
  pose proof (candidates_length (split_dots k) d He) as HL.
  destruct (path_values (split_dots k) d) as [|[v|] [|c2 pv]]; simpl; try discriminate.
  2: { destruct v; discriminate. }
  - (* [Some v] *)
    intros Hv. simpl in HS, HL.
    destruct (candidates (split_dots k) d) as [|c1 [|c2 C]]; simpl in HL; try lia; try discriminate HS.
    destruct c1 as [w|]; [|discriminate HS]. simpl in HS. injection HS as ->.
    destruct v; simpl in Hv; congruence.
  - (* [None] *)
    intros Hv. simpl in Hv. injection Hv as <-. simpl in HS, HL.
    destruct (candidates (split_dots k) d) as [|c1 C]; [reflexivity|].
    destruct c1 as [w|]; [discriminate HS|reflexivity].
Qed.
