(* C13: the hypothesis of C13_history_partial is satisfiable on a non-trivial history (which
   also satisfies the full predicate c13_ok). *)
From Coq Require Import ZArith List String Bool Ascii.
From Verif Require Import Value PyEq BsonOrder Path Filter Update Project Coll HistCheck HistProps
  HistGuards HistPropCheck.
From Verif.Proofs Require Import C13Proofs C13Id C13Match.
From Verif.Proofs Require C02History.
Import ListNotations.
Open Scope Z_scope.
Open Scope string_scope.

Definition c13_ex_ops : list op :=
  [OInsertOne (VDoc [("_id", VInt 1); ("a", VInt 1)]);
   OCreateIndex [("a", VInt 1)] true false None None None;
   (* nothing matches: insert, _id from the filter *)
   OUpdate (VDoc [("_id", VInt 2); ("a", VInt 2)]) (VDoc [("$set", VDoc [("b", VInt 1)])]) false true;
   (* nothing matches: insert, fresh _id *)
   OUpdate (VDoc [("a", VInt 3)]) (VDoc [("$inc", VDoc [("b", VInt 1)])]) true true;
   (* something matches: modify *)
   OUpdate (VDoc [("a", VDoc [("$gte", VInt 2)])]) (VDoc [("$inc", VDoc [("b", VInt 1)])]) true true;
   (* replacement upsert, _id from the replacement *)
   OReplace (VDoc [("a", VInt 9)]) (VDoc [("_id", VInt 9); ("a", VInt 9)]) true;
   (* replacement of an existing document *)
   OReplace (VDoc [("a", VInt 9)]) (VDoc [("a", VInt 10)]) true;
   (* an upsert rejected by the unique index *)
   OUpdate (VDoc [("c", VInt 1)]) (VDoc [("$set", VDoc [("a", VInt 1)])]) false true;
   OFind (VDoc []) None [] 0 0].

Example c13_ex_history :
  c13_reasons c13_ex_ops (model_obs false empty_coll c13_ex_ops) = 0 /\
  modelled false empty_coll c13_ex_ops = true /\
  c13w_ok c13_ex_ops (model_obs false empty_coll c13_ex_ops) = true /\
  c13_ok c13_ex_ops (model_obs false empty_coll c13_ex_ops) = true /\
  map (fun ob => List.length (snd (fst ob))) (model_obs false empty_coll c13_ex_ops)
  = [1; 1; 2; 3; 3; 4; 4; 4; 4]%nat.
Proof. vm_compute. repeat split; reflexivity. Qed.

(* the hypotheses of C13_history_id_partial are satisfiable on a non-trivial history (which
   also satisfies the full predicate c13_ok) *)
Definition c13_ex_ops2 : list op :=
  [OInsertOne (VDoc [("_id", VInt 1); ("a", VInt 1)]);
   OCreateIndex [("a", VInt 1)] true false None None None;
   (* nothing matches: insert, _id from the filter *)
   OUpdate (VDoc [("_id", VInt 2); ("a", VInt 2)]) (VDoc [("$set", VDoc [("b", VInt 1)])]) false true;
   (* nothing matches: insert, fresh _id, dotted equality paths *)
   OUpdate (VDoc [("a", VInt 3); ("k.x", VDoc [("$eq", VStr "s")]); ("k.y", VNull)])
           (VDoc [("$inc", VDoc [("b", VInt 1)]); ("$push", VDoc [("k.z", VInt 1)])]) true true;
   (* a sub-document _id without operators *)
   OUpdate (VDoc [("_id", VDoc [("p", VInt 1); ("q", VDoc [("r", VInt 2)])]); ("a", VInt 4)])
           (VDoc [("$setOnInsert", VDoc [("c", VInt 1)])]) false true;
   (* something matches: modify *)
   OUpdate (VDoc [("a", VDoc [("$gte", VInt 2)])]) (VDoc [("$inc", VDoc [("b", VInt 1)])]) true true;
   (* replacement upserts: _id from the filter; fresh *)
   OReplace (VDoc [("_id", VInt 9)]) (VDoc [("a", VInt 9)]) true;
   OReplace (VDoc [("a", VInt 10)]) (VDoc [("a", VInt 10); ("z", VNull)]) true;
   OReplace (VDoc [("a", VInt 11)]) (VDoc []) true;
   (* an upsert rejected by the unique index *)
   OUpdate (VDoc [("c", VInt 1)]) (VDoc [("$set", VDoc [("a", VInt 1)])]) false true;
   OFind (VDoc []) None [] 0 0].

Example c13_ex_history2 :
  Forall C02History.op_wf c13_ex_ops2 /\
  c13_reasons c13_ex_ops2 (model_obs false empty_coll c13_ex_ops2) = 0 /\
  c13_undecided c13_ex_ops2 = false /\
  modelled false empty_coll c13_ex_ops2 = true /\
  c13i_ok c13_ex_ops2 (model_obs false empty_coll c13_ex_ops2) = true /\
  c13_ok c13_ex_ops2 (model_obs false empty_coll c13_ex_ops2) = true /\
  map (fun ob => List.length (snd (fst ob))) (model_obs false empty_coll c13_ex_ops2)
  = [1; 1; 2; 3; 4; 4; 5; 6; 7; 7; 7]%nat.
Proof.
  split; [repeat constructor|].
  assert (Hr : c13_reasons c13_ex_ops2 (model_obs false empty_coll c13_ex_ops2) = 0) by (vm_compute; reflexivity).
  assert (Hu : c13_undecided c13_ex_ops2 = false) by (vm_compute; reflexivity).
  split; [exact Hr|]. split; [exact Hu|]. split; [vm_compute; reflexivity|].
  split; [apply c13_history_id; [repeat constructor|exact Hr|exact Hu]|].
  split; vm_compute; reflexivity.
Qed.

(* the premises of C13_history_flat_partial are satisfiable on a non-trivial history: every
   equality-only upsert filter has dot-free keys (literals, {$eq: v}, an array literal); the
   theorem then gives the full predicate c13_ok *)
Definition c13_ex_ops3 : list op :=
  [OInsertOne (VDoc [("_id", VInt 1); ("a", VInt 1)]);
   OCreateIndex [("a", VInt 1)] true false None None None;
   (* nothing matches: insert, _id from the filter; the new document matches the filter *)
   OUpdate (VDoc [("_id", VInt 2); ("a", VInt 2)]) (VDoc [("$set", VDoc [("b", VInt 1)])]) false true;
   (* {$eq: v}, a null literal, an array literal; the update writes other (dotted) paths *)
   OUpdate (VDoc [("a", VInt 3); ("k", VDoc [("$eq", VStr "s")]); ("n", VNull);
                  ("l", VArr [VInt 1; VDoc [("z", VInt 2)]])])
           (VDoc [("$inc", VDoc [("b", VInt 1)]); ("$push", VDoc [("p.q", VInt 1)]);
                  ("$min", VDoc [("w", VInt 3)])]) true true;
   (* a non-equality filter with a dotted path: outside the last clause *)
   OUpdate (VDoc [("a", VInt 4); ("m.x", VDoc [("$gte", VInt 2)])])
           (VDoc [("$setOnInsert", VDoc [("c", VInt 1)])]) false true;
   (* something matches: modify *)
   OUpdate (VDoc [("a", VDoc [("$gte", VInt 2)])]) (VDoc [("$inc", VDoc [("b", VInt 1)])]) true true;
   (* replacement upserts *)
   OReplace (VDoc [("_id", VInt 9)]) (VDoc [("a", VInt 9)]) true;
   OReplace (VDoc [("a.b", VInt 10)]) (VDoc [("a", VInt 10); ("z", VNull)]) true;
   (* an upsert rejected by the unique index *)
   OUpdate (VDoc [("c", VInt 1)]) (VDoc [("$set", VDoc [("a", VInt 1)])]) false true;
   OFind (VDoc []) None [] 0 0].

Example c13_ex_history3 :
  Forall C02History.op_wf c13_ex_ops3 /\
  c13_reasons c13_ex_ops3 (model_obs false empty_coll c13_ex_ops3) = 0 /\
  c13_undecided c13_ex_ops3 = false /\
  c13_flat c13_ex_ops3 = true /\
  modelled false empty_coll c13_ex_ops3 = true /\
  c13_ok c13_ex_ops3 (model_obs false empty_coll c13_ex_ops3) = true /\
  map (fun ob => List.length (snd (fst ob))) (model_obs false empty_coll c13_ex_ops3)
  = [1; 1; 2; 3; 4; 4; 5; 6; 6; 6]%nat.
Proof.
  split; [repeat constructor|].
  assert (Hr : c13_reasons c13_ex_ops3 (model_obs false empty_coll c13_ex_ops3) = 0) by (vm_compute; reflexivity).
  assert (Hu : c13_undecided c13_ex_ops3 = false) by (vm_compute; reflexivity).
  assert (Hf : c13_flat c13_ex_ops3 = true) by (vm_compute; reflexivity).
  split; [exact Hr|]. split; [exact Hu|]. split; [exact Hf|]. split; [vm_compute; reflexivity|].
  split; [apply c13_history_flat; [repeat constructor|exact Hr|exact Hu|exact Hf]|].
  vm_compute; reflexivity.
Qed.
