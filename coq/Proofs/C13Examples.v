(* C13: the hypothesis of C13_history_partial is satisfiable on a non-trivial history (which
   also satisfies the full predicate c13_ok). *)
From Coq Require Import ZArith List String Bool Ascii.
From Verif Require Import Value PyEq BsonOrder Path Filter Update Project Coll HistCheck HistProps
  HistGuards.
From Verif.Proofs Require Import C13Proofs.
Import ListNotations.
Open Scope Z_scope.
Open Scope string_scope.

Definition c13_ex_ops : list op :=
  [OInsertOne (VDoc [("_id", VInt 1); ("a", VInt 1)]);
   OCreateIndex [("a", VInt 1)] true false None None None;
   (* nothing matches: insert, _id from the filter *)
   OUpdate (VDoc [("_id", VInt 2); ("a", VInt 2)]) (VDoc [("$set", VDoc [("b", VInt 1)])]) false true;
   (* nothing matches: insert, fresh _id *)
   OUpdate (VDoc [("a", VInt 3)]) (VDoc [("$inc", VDoc [("b", VInt 1)])]) true true;
   (* something matches: modify *)
   OUpdate (VDoc [("a", VDoc [("$gte", VInt 2)])]) (VDoc [("$inc", VDoc [("b", VInt 1)])]) true true;
   (* replacement upsert, _id from the replacement *)
   OReplace (VDoc [("a", VInt 9)]) (VDoc [("_id", VInt 9); ("a", VInt 9)]) true;
   (* replacement of an existing document *)
   OReplace (VDoc [("a", VInt 9)]) (VDoc [("a", VInt 10)]) true;
   (* an upsert rejected by the unique index *)
   OUpdate (VDoc [("c", VInt 1)]) (VDoc [("$set", VDoc [("a", VInt 1)])]) false true;
   OFind (VDoc []) None [] 0 0].

Example c13_ex_history :
  c13_reasons c13_ex_ops (model_obs false empty_coll c13_ex_ops) = 0 /\
  modelled false empty_coll c13_ex_ops = true /\
  c13w_ok c13_ex_ops (model_obs false empty_coll c13_ex_ops) = true /\
  c13_ok c13_ex_ops (model_obs false empty_coll c13_ex_ops) = true /\
  map (fun ob => List.length (snd (fst ob))) (model_obs false empty_coll c13_ex_ops)
  = [1; 1; 2; 3; 3; 4; 4; 4; 4]%nat.
Proof. vm_compute. repeat split; reflexivity. Qed.
