(* C09 proofs, part 5: the TTL specs read from index_information are the model's active TTL
   indexes; one step of the model satisfies c09_step inside the guard; induction over the
   history. *)
From Coq Require Import ZArith List String Bool Ascii Lia.
From Verif Require Import Value PyEq BsonOrder Path Filter Update Project Coll HistCheck HistProps
  HistGuards.
From Verif.Proofs Require Import C01Values C09Base C09Closure C09Step C09Ops.
Import ListNotations.
Open Scope Z_scope.
Open Scope string_scope.
Open Scope list_scope.

(* ---------------------------------------------------------------- specs = active indexes *)
Definition info (c : coll) : value :=
  match index_information c with (_, Ok v) => v | _ => VNull end.

Definition noid (I : list index) : Prop :=
  Forall (fun i => String.eqb (iname i) "_id_" = false) I.

Lemma get_ttl_index_doc i : get_field "expireAfterSeconds" (index_doc i) = ittl i.
Proof.
  unfold index_doc, get_field.
  destruct (isparse i), (iunique i), (ittl i), (ipartial i); reflexivity.
Qed.

Lemma keys_flat (l : list (string * value)) :
  flat_map (fun k => match k with VArr (VStr n :: _) => [n] | _ => [] end)
           (map (fun kd : string * value => VArr [VStr (fst kd); snd kd]) l) = map fst l.
Proof. induction l as [ | [f dv] l IH ]; simpl; [ | rewrite IH ]; reflexivity. Qed.

Lemma idx_keys_index_doc i : idx_keys (index_doc i) = map fst (ikey i).
Proof.
  unfold idx_keys.
  replace (get_field "key" (index_doc i))
    with (Some (VArr (map (fun kd : string * value => VArr [VStr (fst kd); snd kd]) (ikey i))))
    by reflexivity.
  apply keys_flat.
Qed.

Definition spec_list (i : value) : list (string * Z) :=
  match get_field "expireAfterSeconds" i, idx_keys i with
  | Some s, [field] =>
      match ttl_seconds s with
      | Ok (Some n) => [(field, n)]
      | _ => []
      end
  | _, _ => []
  end.

Lemma spec_of_index_doc i :
  spec_list (index_doc i) = match active_spec i with Some sp => [sp] | None => [] end.
Proof.
  unfold spec_list. rewrite get_ttl_index_doc, idx_keys_index_doc. unfold active_spec.
  destruct (ittl i) as [sv|]; [ | reflexivity ].
  destruct (ikey i) as [ | [f dv] [ | x rest ] ]; simpl;
    destruct (ttl_seconds sv) as [[n|]|e]; reflexivity.
Qed.

Lemma filter_noid I :
  noid I ->
  List.filter (fun kv : string * value => negb (String.eqb (fst kv) "_id_"))
              (map (fun i => (iname i, index_doc i)) I)
  = map (fun i => (iname i, index_doc i)) I.
Proof.
  induction 1 as [ | i I Hi _ IH ]; simpl; [ reflexivity | ].
  rewrite Hi. simpl. rewrite IH. reflexivity.
Qed.

Lemma existsb_specs t d I :
  existsb (fun sp => doc_expired t sp d)
          (flat_map (fun ni : string * value => spec_list (snd ni))
                    (map (fun i => (iname i, index_doc i)) I))
  = exp_idx I t d.
Proof.
  unfold exp_idx. induction I as [ | i I IH ]; [ reflexivity | ].
  cbn [map flat_map existsb]. rewrite existsb_app, IH. f_equal.
  cbn [snd]. rewrite spec_of_index_doc. unfold exp_i.
  destruct (active_spec i) as [[f n]|]; [ | reflexivity ].
  cbn [existsb]. rewrite orb_false_r. reflexivity.
Qed.

Lemma ttl_specs_info c :
  noid (idx c) ->
  ttl_specs (info c)
  = flat_map (fun ni : string * value => spec_list (snd ni))
             (map (fun i => (iname i, index_doc i)) (idx c)).
Proof.
  intros Hn. unfold info, index_information.
  destruct (is_created c) eqn:Ec.
  - unfold ttl_specs, index_specs.
    cbn [List.filter fst String.eqb negb].
    change (String.eqb "_id_" "_id_") with true. cbn [negb].
    rewrite filter_noid by exact Hn. reflexivity.
  - unfold is_created in Ec. destruct (docs c); [ | discriminate ].
    destruct (idx c); [ reflexivity | discriminate ].
Qed.

Lemma expired_any_info c t d : noid (idx c) -> expired_any t (info c) d = exp_idx (idx c) t d.
Proof.
  intros Hn. unfold expired_any. rewrite ttl_specs_info by exact Hn. apply existsb_specs.
Qed.

(* ---------------------------------------------------------------- the invariant *)
Definition SInv (c : coll) (x : ctx) : Prop :=
  x_store x = docs c /\ x_idx x = info c /\ x_now x = now c /\ noid (idx c).

Lemma SInv_empty : SInv empty_coll ctx0.
Proof. repeat split. constructor. Qed.

Lemma noid_set_index i I :
  String.eqb (iname i) "_id_" = false -> noid I -> noid (set_index i I).
Proof.
  intros Hi. induction 1 as [ | j I Hj HI IH ]; simpl.
  - constructor; [ exact Hi | constructor ].
  - destruct (String.eqb (iname j) (iname i)); constructor; assumption.
Qed.

Lemma noid_filter p I : noid I -> noid (List.filter p I).
Proof.
  induction 1 as [ | j I Hj HI IH ]; simpl; [ constructor | ].
  destruct (p j); [ constructor; assumption | assumption ].
Qed.

Lemma step_noid pre5 c x o ob c' r :
  noid (idx c) -> c09_idname_step x o ob = false -> step pre5 c o = (c', r) -> noid (idx c').
Proof.
  intros Hn Hg H. destruct (docs_op o) eqn:Ed.
  - destruct (step_Rf _ _ _ _ _ Ed H) as [Hi _]. rewrite Hi. exact Hn.
  - destruct o; try discriminate; simpl in *.
    + destruct (create_index_cases _ _ _ _ _ _ _ _ _ H)
        as [[-> _] | [c1 [Hc1 [[-> _] | [_ [i [Hi ->]]]]]]].
      * exact Hn.
      * destruct Hc1 as [[_ ->] | [_ Hx]]; [ exact Hn | ].
        destruct (expire_frame _ _ Hx) as [A _]. rewrite A. exact Hn.
      * simpl. apply noid_set_index; [ rewrite Hi; exact Hg | ].
        destruct Hc1 as [[_ ->] | [_ Hx]]; [ exact Hn | ].
        destruct (expire_frame _ _ Hx) as [A _]. rewrite A. exact Hn.
    + destruct (drop_index_cases _ _ _ _ H) as [[-> _] | [c1 [Hx [[-> _] | [_ ->]]]]];
        [ exact Hn | | ]; destruct (expire_frame _ _ Hx) as [A _]; simpl; rewrite A;
        [ exact Hn | apply noid_filter; exact Hn ].
    + unfold drop_indexes in H. inv_pair H. constructor.
    + unfold index_information in H. destruct (is_created c); inv_pair H; exact Hn.
    + unfold drop_coll in H. inv_pair H. constructor.
    + inv_pair H. exact Hn.
Qed.

(* ---------------------------------------------------------------- the guard, on the model *)
Lemma inactive_of_guard c x :
  SInv c x -> c09_ttl_active x = false -> inactive c.
Proof.
  intros [_ [Hi [Hn Hno]]] Hg d. rewrite <- (expired_any_info c (now c) d Hno).
  unfold c09_ttl_active in Hg. rewrite Hi in Hg. unfold expired_any.
  destruct (ttl_specs (info c)); [ reflexivity | discriminate ].
Qed.

Lemma key_in_of_in k d l : In (k, d) l -> key_in k l = true.
Proof.
  intros H. unfold key_in. apply existsb_exists. exists (k, d). split; [ exact H | ].
  simpl. apply value_eqb_refl.
Qed.

Lemma c09_step_ok pre5 c x o c' r :
  SInv c x -> step pre5 c o = (c', r) ->
  c09_idname_step x o (r, docs c', info c') = false ->
  c09_rewrite_step x o (r, docs c', info c') = false ->
  c09_insert_step x o (r, docs c', info c') = false ->
  c09_bulk_err_step x o (r, docs c', info c') = false ->
  c09_step x o (r, docs c', info c') = true
  /\ SInv c' (mkCtx (docs c') (info c') (clock_after (x_now x) o)).
Proof.
  intros HS H G1 G2 G4 G8. pose proof HS as [Hs [Hi [Hn Hno]]].
  assert (Hexp : forall d, expired_any (x_now x) (x_idx x) d = exp_idx (idx c) (now c) d).
  { intros d. rewrite Hi, Hn. apply expired_any_info. exact Hno. }
  assert (G2' : inactive c \/ rewrite_ok c o).
  { unfold c09_rewrite_step in G2. apply andb_false_iff in G2.
    destruct G2 as [G2 | G2]; [ left; eapply inactive_of_guard; eauto | right ].
    assert (Himg : forall f u, c09_image_expired x f u = false -> images_alive c f u).
    { intros f u Hf kd d' Hin Ha. unfold c09_image_expired in Hf. rewrite Hs in Hf.
      pose proof (existsb_false_in _ _ Hf kd Hin) as Hk. cbv beta in Hk.
      rewrite Hn, Ha in Hk. rewrite <- Hexp. rewrite Hn. exact Hk. }
    destruct o; try exact G2; simpl;
      (apply orb_false_iff in G2; destruct G2 as [Gu Gi]; split; [ exact Gu | apply Himg; exact Gi ]). }
  split.
  2:{ repeat split; simpl.
      - rewrite Hn. symmetry. eapply step_now. exact H.
      - eapply step_noid; eauto. }
  unfold c09_step. rewrite Hs.
  apply andb_true_intro. split; [ apply andb_true_intro; split | ].
  - (* a *)
    destruct (may_remove o) eqn:Em; [ reflexivity | ].
    apply forallb_forall. intros kd Hin.
    destruct (step_keep _ _ _ _ _ H Em G2' kd Hin) as [[d' Hd'] | Hx].
    + rewrite (key_in_of_in _ _ _ Hd'). reflexivity.
    + rewrite Hexp, Hx. apply orb_true_r.
  - (* b *)
    destruct (triggers_expiry o && is_ok r) eqn:Et; [ | reflexivity ].
    apply andb_true_iff in Et. destruct Et as [Et Hok].
    assert (Hlive : inactive c \/ live (idx c) (now c) (docs c')).
    { eapply step_live; eauto.
      - intros d Hd. rewrite <- Hexp. unfold c09_insert_step in G4.
        exact (existsb_false_in _ _ G4 d Hd).
      - unfold c09_bulk_err_step in G8. apply andb_false_iff in G8.
        destruct G8 as [G8 | G8]; [ left; eapply inactive_of_guard; eauto | right ].
        destruct o; try exact I. destruct r as [v|e]; [ | exact I ].
        apply andb_false_iff in G8. destruct G8 as [G8 | G8]; [ left; exact G8 | right ].
        destruct (get_field "BulkWriteError" v); [ discriminate | reflexivity ]. }
    apply forallb_forall. intros kd Hin. rewrite Hexp.
    assert (Hx : exp_idx (idx c) (now c) (snd kd) = false).
    { destruct Hlive as [Hl | Hl]; [ apply Hl | apply Hl; exact Hin ]. }
    rewrite Hx, andb_false_r. reflexivity.
  - (* c *)
    destruct o; try reflexivity. destruct proj; [ reflexivity | ].
    destruct r as [v|e]; [ | reflexivity ]. destruct v; try reflexivity.
    apply forallb_forall. intros d Hd. rewrite Hexp.
    simpl in H. rewrite (find_live _ _ _ _ _ _ _ H d Hd). reflexivity.
Qed.

(* ---------------------------------------------------------------- the history *)
Lemma trace_any_cons p x o ops r s i os :
  c08_trace_any p x (o :: ops) ((r, s, i) :: os) = false ->
  p x o (r, s, i) = false /\
  c08_trace_any p (mkCtx s i (match o with OSetClock t => t | _ => x_now x end)) ops os = false.
Proof. simpl. intros H. apply orb_false_iff in H. exact H. Qed.

Lemma c09_trace_ok pre5 : forall ops c x,
  SInv c x ->
  c08_trace_any c09_idname_step x ops (model_obs pre5 c ops) = false ->
  c08_trace_any c09_rewrite_step x ops (model_obs pre5 c ops) = false ->
  c08_trace_any c09_insert_step x ops (model_obs pre5 c ops) = false ->
  c08_trace_any c09_bulk_err_step x ops (model_obs pre5 c ops) = false ->
  trace_all c09_step x ops (model_obs pre5 c ops) = true.
Proof.
  induction ops as [ | o ops IH ]; intros c x HS G1 G2 G4 G8; [ reflexivity | ].
  cbn [model_obs] in *. destruct (step pre5 c o) as [c' r] eqn:Es.
  change (match index_information c' with (_, Ok v) => v | _ => VNull end) with (info c') in *.
  apply trace_any_cons in G1. apply trace_any_cons in G2.
  apply trace_any_cons in G4. apply trace_any_cons in G8.
  destruct G1 as [G1 G1'], G2 as [G2 G2'], G4 as [G4 G4'], G8 as [G8 G8'].
  destruct (c09_step_ok _ _ _ _ _ _ HS Es G1 G2 G4 G8) as [Hstep HS'].
  cbn [trace_all]. rewrite Hstep. cbn [andb].
  apply (IH c' _ HS' G1' G2' G4' G8').
Qed.

Theorem c09_history_correct : forall (pre5 : bool) (ops : list op),
  c09_reasons ops (model_obs pre5 empty_coll ops) = 0 ->
  c09_ok ops (model_obs pre5 empty_coll ops) = true.
Proof.
  intros pre5 ops Hr. unfold c09_reasons in Hr. unfold c09_ok.
  destruct (c08_trace_any c09_idname_step ctx0 ops (model_obs pre5 empty_coll ops)) eqn:G1;
  destruct (c08_trace_any c09_rewrite_step ctx0 ops (model_obs pre5 empty_coll ops)) eqn:G2;
  destruct (c08_trace_any c09_insert_step ctx0 ops (model_obs pre5 empty_coll ops)) eqn:G4;
  destruct (c08_trace_any c09_bulk_err_step ctx0 ops (model_obs pre5 empty_coll ops)) eqn:G8;
  try discriminate Hr.
  apply (c09_trace_ok pre5 ops empty_coll ctx0 SInv_empty G1 G2 G4 G8).
Qed.

(* ---------------------------------------------------------------- gone for good *)
Theorem gone_for_good :
  (forall c c', expire c = Ok c' -> sub (docs c') (docs c))
  /\ (forall c c', expire c = Ok c' -> expire c' = Ok c')
  /\ (forall pre5 c o, writes_none o = true -> sub (docs (fst (step pre5 c o))) (docs c)).
Proof.
  split; [ exact expire_sub | ]. split; [ exact expire_idem | ].
  intros pre5 c o Hw. destruct (step pre5 c o) as [c' r] eqn:Es. simpl.
  eapply step_sub; eauto.
Qed.
