(* C18 proofs, part 3: the find-side projection only copies / slices values of the document,
   so it preserves dates_normal. *)
From Coq Require Import ZArith List String Bool Ascii Lia.
From Verif Require Import Value PyEq BsonOrder Path Filter Update Project Coll HistCheck HistProps
  DatetimeSpec DatetimeRel.
From Verif.Proofs Require Import C01Values C18Values C18Update.
Import ListNotations.
Open Scope Z_scope.
Open Scope string_scope.
Open Scope list_scope.

Definition PD (v : value) : Prop :=
  forall children inc r, DN v -> project_doc children inc v = Ok r -> DN r.
Definition PD' (v : value) : Prop :=
  PD v /\ match v with VArr xs => Forall PD xs | _ => True end.

Lemma project_doc_dn' : forall v, PD' v.
Proof.
  induction v as [ | b | z | e | s | us tz | n | fs IH | xs IH ] using value_ind2;
    (split; [ | try exact I ]);
    try (intros children inc r Hd H; simpl in H; discriminate).
  - (* VDoc *)
    intros children inc r Hd H. simpl in H.
    match type of H with (let! out := ?g in _) = _ => destruct g as [out|e] eqn:Eg end;
      simpl in H; [ | discriminate ].
    inv_pair H. apply dn_doc. apply dn_doc_inv in Hd. unfold DNF in Hd.
    revert out Eg. induction IH as [ | [k x] fs' Hx _ IHfs ]; intros out Eg.
    + inv_pair Eg. constructor.
    + inversion Hd as [ | ? ? Hk Hl ]; subst. simpl in Hk, Hx. destruct Hx as [Hx1 Hx2].
      sb Eg.
      match type of Eg with match ?a with Ok _ => _ | Err _ => _ end = _ =>
        destruct a as [r1|e] eqn:Er; [ | discriminate ] end.
      specialize (IHfs Hl r1 Er).
      destruct (find_child k children) as [[lv|sub]|].
      * destruct inc; inv_pair Eg; [ constructor; assumption | assumption ].
      * destruct x; try (inv_pair Eg; assumption).
        -- (* sub-document *)
           match type of Eg with match ?a with Ok _ => _ | Err _ => _ end = _ =>
             destruct a as [y|e] eqn:Ey; [ | discriminate ] end.
           inv_pair Eg. constructor; [ | assumption ]. simpl.
           destruct (has_key "$" sub); [ discriminate | ].
           eapply Hx1; [ exact Hk | exact Ey ].
        -- (* array of sub-documents *)
           match type of Eg with match ?a with Ok _ => _ | Err _ => _ end = _ =>
             destruct a as [ys|e] eqn:Ey; [ | discriminate ] end.
           inv_pair Eg. constructor; [ | assumption ]. simpl.
           apply dn_arr. apply dn_arr_inv in Hk. unfold DNL in Hk.
           clear Er IHfs Hx1 Hd. revert ys Ey.
           induction Hx2 as [ | e0 xs' He _ IHxs ]; intros ys Ey.
           ++ inv_pair Ey. constructor.
           ++ inversion Hk as [ | ? ? Hk0 Hkl ]; subst.
              sb Ey. destruct e0; try discriminate.
              match type of Ey with match ?a with Ok _ => _ | Err _ => _ end = _ =>
                destruct a as [y|e] eqn:E1; [ | discriminate ] end.
              match type of Ey with match ?a with Ok _ => _ | Err _ => _ end = _ =>
                destruct a as [r2|e] eqn:E2; [ | discriminate ] end.
              inv_pair Ey. constructor; [ | apply (IHxs Hkl r2 eq_refl) ].
              destruct (has_key "$" sub); [ discriminate | ].
              eapply He; [ exact Hk0 | exact E1 ].
      * destruct inc; inv_pair Eg; [ assumption | constructor; assumption ].
  - (* VArr: components *)
    simpl. clear -IH. induction IH as [ | x xs' Hx _ IHxs ]; constructor; [ exact (proj1 Hx) | exact IHxs ].
Qed.

Lemma project_doc_dn v children inc r : DN v -> project_doc children inc v = Ok r -> DN r.
Proof. apply (proj1 (project_doc_dn' v)). Qed.

Lemma project_by_spec_dn spec inc doc out :
  DNF doc -> project_by_spec spec inc doc = Ok out -> DNF out.
Proof.
  intros Hd H. unfold project_by_spec in H. destruct spec as [ | children ]; [ discriminate | ].
  destruct (has_key "$" children); [ discriminate | ].
  destruct (project_doc children inc (VDoc doc)) as [[ | | | | | | | o | ]|e] eqn:E; try discriminate.
  inv_pair H. apply dn_doc_inv. eapply project_doc_dn; [ | exact E ]. apply dn_doc. exact Hd.
Qed.

Lemma elem_found_dn q : forall xs found,
  DNL xs ->
  (fix go (xs : list value) : res (option value) :=
     match xs with
     | [] => Ok None
     | x :: xs' => let! b := filter_applies q x in if b then Ok (Some x) else go xs'
     end) xs = Ok (Some found) -> DN found.
Proof.
  induction xs as [ | x xs IH ]; intros found Hx H; [ discriminate | ].
  inversion Hx; subst. sb H.
  destruct (filter_applies q x) as [[|]|e]; try discriminate.
  - inv_pair H. assumption.
  - apply IH; assumption.
Qed.

Lemma apply_proj_op_dn field op doc copy r :
  DNF doc -> DNF copy -> apply_proj_op field op doc copy = Ok r -> DNF r.
Proof.
  intros Hd Hc H. unfold apply_proj_op in H.
  match type of H with (let! _ := ?x in _) = _ => destruct x as [oc1|e] eqn:E1 end;
    sb H; [ | discriminate ].
  destruct oc1 as [copy1|]; [ | inv_pair H; exact Hc ].
  assert (H1 : DNF copy1).
  { repeat dm E1; inv_pair E1; dn_solve. }
  match type of H with match ?x with Ok _ => _ | Err _ => _ end = _ =>
    destruct x as [copy2|e] eqn:E2 end; [ | discriminate ].
  assert (H2 : DNF copy2).
  { clear H. repeat dm E2; inv_pair E2; dn_solve. }
  destruct (assoc "$elemMatch" op) as [q|]; [ | inv_pair H; exact H2 ].
  destruct (assoc field copy2) as [[ | | | | | | | | xs]|] eqn:Ea;
    try (inv_pair H; apply dnf_del_key; exact H2).
  match type of H with match ?a with Ok _ => _ | Err _ => _ end = _ =>
    destruct a as [found|e] eqn:Ef; [ | discriminate ] end.
  destruct found as [x|]; inv_pair H; [ | apply dnf_del_key; exact H2 ].
  apply dnf_set_key; [ exact H2 | ]. apply dn_arr. apply dnl_one.
  eapply elem_found_dn; [ | exact Ef ]. dn_solve.
Qed.

Lemma proj_ops_fold_dn dfs : forall ops acc r,
  DNF dfs ->
  (forall c, acc = Ok c -> DNF c) ->
  fold_left (fun acc kv =>
               let! c := acc in
               match snd kv with
               | VDoc o => apply_proj_op (fst kv) o dfs c
               | _ => Ok c
               end) ops acc = Ok r -> DNF r.
Proof.
  induction ops as [ | kv ops IH ]; simpl; intros acc r Hd Ha H.
  - apply Ha. exact H.
  - eapply IH; [ exact Hd | | exact H ].
    intros c Hc. destruct acc as [c0|e]; simpl in Hc; [ | discriminate ].
    specialize (Ha c0 eq_refl).
    destruct (snd kv); try (inv_pair Hc; exact Ha).
    eapply apply_proj_op_dn; [ exact Hd | exact Ha | exact Hc ].
Qed.

Theorem copy_only_fields_dn doc proj r : DN doc -> copy_only_fields doc proj = Ok r -> DN r.
Proof.
  intros Hd H. unfold copy_only_fields in H.
  destruct doc as [ | | | | | | | dfs | ]; try discriminate.
  destruct proj as [p|]; [ | inv_pair H; exact Hd ].
  cbv zeta in H.
  match type of H with (let! f0 := ?x in _) = _ => destruct x as [fields0|e] end;
    sb H; [ | discriminate ].
  destruct fields0 as [ | kv0 fields0 ]; [ inv_pair H; exact Hd | ].
  match type of H with (if ?b then _ else _) = _ => destruct b end; [ discriminate | ].
  match type of H with (if ?b then _ else _) = _ => destruct b end; [ discriminate | ].
  match type of H with (if ?b then _ else _) = _ => destruct b end; [ discriminate | ].
  match type of H with match ?a with Ok _ => _ | Err _ => _ end = _ =>
    destruct a as [copy0|e] eqn:E0; [ | discriminate ] end.
  pose proof (dn_doc_inv _ Hd) as Hdf.
  assert (H0 : DNF copy0).
  { match type of E0 with match ?ll with [] => _ | _ :: _ => _ end = _ => destruct ll as [ | [k first] l2 ] end.
    - match type of E0 with (if ?b then _ else _) = _ => destruct b end; inv_pair E0;
        [ constructor | exact Hdf ].
    - match type of E0 with match ?x with Ok _ => _ | Err _ => _ end = _ =>
        destruct x as [spec|e] end; [ | discriminate ].
      eapply project_by_spec_dn; [ exact Hdf | exact E0 ]. }
  match type of H with match ?a with Ok _ => _ | Err _ => _ end = _ =>
    destruct a as [copy2|e] eqn:E2; [ | discriminate ] end.
  inv_pair H. apply dn_doc.
  eapply proj_ops_fold_dn; [ exact Hdf | | exact E2 ].
  intros c Hc. inv_pair Hc.
  match goal with |- DNF (if ?b then _ else _) => destruct b end; [ apply dnf_del_key; exact H0 | ].
  destruct (assoc "_id" dfs) eqn:Ei; [ | exact H0 ].
  apply dnf_set_key; [ exact H0 | dn_solve ].
Qed.

Lemma project_all_dn proj : forall l r, DNL l -> project_all proj l = Ok r -> DNL r.
Proof.
  induction l as [ | d l IH ]; simpl; intros r Hl H.
  - inv_pair H. constructor.
  - inversion Hl; subst.
    destruct (copy_only_fields d proj) as [x|e] eqn:E; simpl in H; [ | discriminate ].
    destruct (project_all proj l) as [r0|e] eqn:Ep; simpl in H; [ | discriminate ].
    inv_pair H. constructor; [ eapply copy_only_fields_dn; eauto | apply IH; auto ].
Qed.
