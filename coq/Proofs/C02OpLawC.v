(* C02 proofs, operator laws, part C: $push (push_spec vs push_one). *)
From Coq Require Import ZArith List String Bool Ascii Lia.
From Verif Require Import Value PyEq BsonOrder Path Filter FilterSpec FilterGuard Update Project Coll
                          HistCheck HistProps ProjectSpec Cursor UpdateLaws.
From Verif.Proofs Require Import C01Values C12Base C02Base C02Walk C02OpLawA C02OpLawB.
Import ListNotations.
Open Scope Z_scope.
Open Scope string_scope.
Open Scope list_scope.

(* the pieces of push_one, named *)
Definition push_cur (parent : value) (last : string) : res (list value) :=
  match parent with
  | VDoc fs => match assoc last fs with
               | None => Ok []
               | Some (VArr xs) => Ok xs
               | Some _ => Err ECrash
               end
  | VArr xs =>
      match as_index last with
      | Some i => match nth_error xs (Z.to_nat i) with
                  | Some (VArr ys) => Ok ys
                  | Some _ => Err ECrash
                  | None => Err ECrash
                  end
      | None => Err EUnmodelled
      end
  | _ => Err ECrash
  end.

Definition push_result (cur : list value) (arg : value) : res (list value) :=
  match arg with
  | VDoc mods =>
      if has_key "$each" mods then
        match assoc "$each" mods with
        | Some (VArr each) =>
            let! r1 := match assoc "$position" mods with
                       | Some p => match as_int p with
                                   | Some i => Ok (slice_py cur None (Some i) ++ each ++ slice_py cur (Some i) None)
                                   | None => Err EUnmodelled
                                   end
                       | None => Ok (cur ++ each)
                       end in
            let! r2 := match assoc "$sort" mods with
                       | None => Ok r1
                       | Some (VDoc [(k, dir)]) =>
                           match as_int dir with
                           | Some dz =>
                               py_sorted (fun a b =>
                                 match get_by_dot (split_dots k) a, get_by_dot (split_dots k) b with
                                 | Some x, Some y => py_lt x y
                                 | _, _ => Err EKey
                                 end) (dz <?? 0) r1
                           | None => Err EUnmodelled
                           end
                       | Some (VDoc _) => Err EUnmodelled
                       | Some dir =>
                           match as_int dir with
                           | Some dz => py_sorted py_lt (dz <?? 0) r1
                           | None => Err EUnmodelled
                           end
                       end in
            let! r3 := match assoc "$slice" mods with
                       | None => Ok r2
                       | Some s => match as_int s with
                                   | Some z => if z <?? 0 then Ok (slice_py r2 (Some z) None)
                                               else if z =?? 0 then Ok []
                                               else Ok (slice_py r2 None (Some z))
                                   | None => Err EUnmodelled
                                   end
                       end in
            if forallb (fun kv => mem_str (fst kv) ["$each"; "$slice"; "$position"; "$sort"]) mods
            then Ok r3 else Err EWrite
        | _ => Err EUnmodelled
        end
      else Ok (cur ++ [arg])
  | _ => Ok (cur ++ [arg])
  end.

Definition push_f (arg : value) (parent : value) (last : string) : res value :=
  let! cur := push_cur parent last in
  let! result := push_result cur arg in
  match parent with
  | VDoc fs => Ok (VDoc (set_key last (VArr result) fs))
  | VArr xs => match as_index last with
               | Some i => Ok (VArr (set_nth (Z.to_nat i) (VArr result) xs))
               | None => Err EUnmodelled
               end
  | _ => Err ECrash
  end.

Lemma push_one_eq spec doc field arg :
  push_one spec doc field arg = with_parent spec (split_dots field) doc (push_f arg).
Proof. reflexivity. Qed.

(* ---- Python slices *)
Definition norm_idx (n i : Z) : Z := if i <?? 0 then Z.max 0 (n + i) else Z.min i n.

Lemma slice_to xs i :
  slice_py xs None (Some i) = firstn (Z.to_nat (norm_idx (Z.of_nat (List.length xs)) i)) xs.
Proof.
  unfold slice_py, norm_idx. rewrite Z.sub_0_r. reflexivity.
Qed.

Lemma slice_from xs i :
  slice_py xs (Some i) None = skipn (Z.to_nat (norm_idx (Z.of_nat (List.length xs)) i)) xs.
Proof.
  unfold slice_py. fold (norm_idx (Z.of_nat (List.length xs)) i).
  apply firstn_all2. rewrite skipn_length.
  unfold norm_idx. destruct (Z.ltb_spec i 0); lia.
Qed.

Lemma firstn_min (xs : list value) z :
  firstn (Z.to_nat (Z.min z (Z.of_nat (List.length xs)))) xs = firstn (Z.to_nat z) xs.
Proof.
  destruct (Z.le_gt_cases z (Z.of_nat (List.length xs))) as [H|H].
  - rewrite Z.min_l by exact H. reflexivity.
  - rewrite Z.min_r by lia. rewrite Nat2Z.id, firstn_all. symmetry. apply firstn_all2. lia.
Qed.

(* ---- the result of $push is the server's *)
Lemma push_result_spec cur arg r l :
  push_result cur arg = Ok r -> push_spec cur arg = Some l -> r = l.
Proof.
  unfold push_result, push_spec.
  destruct arg as [| | | | | | |mods|]; try (intros H1 H2; inversion H1; inversion H2; congruence).
  destruct (has_key "$each" mods) eqn:Hk.
  2:{ apply has_key_assoc in Hk. rewrite Hk. intros H1 H2; inversion H1; inversion H2; congruence. }
  destruct (assoc "$each" mods) as [ev|]; [|discriminate].
  destruct ev as [| | | | | | | |each]; try discriminate.
  intros H1 H2.
  bind_inv H1 r1 Hr1. bind_inv H1 r2 Hr2. bind_inv H1 r3 Hr3.
  destruct (assoc "$sort" mods); [destruct (assoc "$position" mods) as [[]|]; discriminate H2|].
  inversion Hr2; subst r2. clear Hr2.
  assert (Hplaced : match assoc "$position" mods with
            | Some (VInt p) =>
                let q := if p <?? 0 then Z.max 0 (Z.of_nat (List.length cur) + p)
                         else Z.min p (Z.of_nat (List.length cur)) in
                Some (firstn (Z.to_nat q) cur ++ each ++ skipn (Z.to_nat q) cur)
            | Some _ => None
            | None => Some (cur ++ each)
            end = Some r1).
  { destruct (assoc "$position" mods) as [pv|].
    - destruct pv; try discriminate H2. simpl in Hr1. inversion Hr1; subst r1.
      rewrite slice_to, slice_from. reflexivity.
    - inversion Hr1; reflexivity. }
  cbv zeta in H2, Hplaced. rewrite Hplaced in H2. clear Hplaced Hr1.
  destruct (forallb _ mods); [|discriminate]. inversion H1; subst r3. clear H1.
  destruct (assoc "$slice" mods) as [sv|].
  - destruct sv as [| |z| | | | | |]; try discriminate H2. simpl in Hr3, H2.
    destruct (z <?? 0) eqn:Ez.
    + inversion Hr3; inversion H2. subst. rewrite slice_from. unfold norm_idx. rewrite Ez. reflexivity.
    + destruct (Z.eqb_spec z 0) as [->|Hz].
      * inversion Hr3; inversion H2. reflexivity.
      * inversion Hr3; inversion H2. subst. rewrite slice_to. unfold norm_idx. rewrite Ez.
        apply firstn_min.
  - inversion Hr3; inversion H2. congruence.
Qed.

Lemma op_law_push spec p arg now d d' b :
  patch arg = arg ->
  apply_update spec (VDoc [("$push", VDoc [(p, arg)])]) false now d = Ok d' ->
  op_law "$push" p arg now d d' = Some b -> b = true.
Proof.
  intros Hpatch Hupd Hlaw. law_start Hlaw law_push p d Hpre Hne.
  apply upd_push in Hupd. rewrite push_one_eq in Hupd. unfold with_parent in Hupd.
  destruct (wps_parent _ _ _ _ _ Hne Hpre Hupd) as [r [Hr Hg]].
  rewrite Hg, Hpatch, (old_pfs _ _ Hne Hpre) in Hlaw.
  unfold push_f, push_cur in Hr.
  destruct (assoc (lst (split_dots p)) (pfs (split_dots p) d)) as [o|].
  - destruct o as [| | | | | | | |xs]; try discriminate Hlaw.
    cbn [bind] in Hr. bind_inv Hr rs Hres. inversion Hr; subst r.
    destruct (push_spec xs arg) as [l|] eqn:Es; [|discriminate].
    rewrite get_one_set, (push_result_spec _ _ _ _ Hres Es), opt_value_eqb_refl in Hlaw. congruence.
  - cbn [bind] in Hr. bind_inv Hr rs Hres. inversion Hr; subst r.
    destruct (push_spec [] arg) as [l|] eqn:Es; [|discriminate].
    rewrite get_one_set, (push_result_spec _ _ _ _ Hres Es), opt_value_eqb_refl in Hlaw. congruence.
Qed.
