(* C08 proofs, part 1: the store primitives, strict equality is reflexive, the state invariant
   "store keys are pairwise different under Python ==" and its preservation by every
   operation of the collection state machine. *)
From Coq Require Import ZArith List String Bool Ascii Lia.
From Verif Require Import Value PyEq BsonOrder Path Filter Update Project Coll HistCheck.
From Verif.Proofs Require Import C01Values.
Import ListNotations.
Open Scope Z_scope.
Open Scope string_scope.
Open Scope list_scope.

(* ---------------------------------------------------------------- tactics *)
(* destruct the scrutinee of some match (or the argument of a bind) in hypothesis H *)
Ltac dm H :=
  match type of H with
  | context [bind ?r _] =>
      let E := fresh "E" in destruct r eqn:E; unfold bind in H; try discriminate H
  | context [match ?x with _ => _ end] =>
      let E := fresh "E" in destruct x eqn:E; try discriminate H
  end.
Ltac inv_pair H := inversion H; subst; clear H.

(* ---------------------------------------------------------------- strict equality *)
Lemma opt_z_eqb_refl o : opt_z_eqb o o = true.
Proof. destruct o as [z|]; simpl; [apply Z.eqb_refl | reflexivity]. Qed.

Lemma value_eqb_refl : forall v, value_eqb v v = true.
Proof.
  induction v as [ | b | z | e | s | us tz | n | fs IH | xs IH ] using value_ind2; simpl.
  - reflexivity.
  - apply eqb_reflx.
  - apply Z.eqb_refl.
  - apply Z.eqb_refl.
  - apply String.eqb_refl.
  - rewrite Z.eqb_refl, opt_z_eqb_refl. reflexivity.
  - apply Z.eqb_refl.
  - induction IH as [ | [k v] fs' Hv _ IHfs ]; [ reflexivity | ].
    simpl in Hv. rewrite String.eqb_refl, Hv. simpl. exact IHfs.
  - induction IH as [ | x xs' Hx _ IHxs ]; [ reflexivity | ].
    rewrite Hx. simpl. exact IHxs.
Qed.

Lemma store_eqb_refl : forall l, store_eqb l l = true.
Proof.
  unfold store_eqb. induction l as [ | [k d] l IH ]; simpl; [ reflexivity | ].
  rewrite !value_eqb_refl, IH. reflexivity.
Qed.

(* ---------------------------------------------------------------- the key invariant *)
(* no stored key equals (Python ==) a key stored later *)
Fixpoint store_nd (l : list (value * value)) : Prop :=
  match l with
  | [] => True
  | (k, _) :: l' => Forall (fun kd => py_eq k (fst kd) = false) l' /\ store_nd l'
  end.

(* the invariant carried along a history: the keys, and (for the TTL part of the guard) the
   clock n *)
Definition Inv (clk : Z) (c : coll) : Prop := store_nd (docs c) /\ now c = clk.

Lemma Inv_with_docs clk c l : Inv clk c -> store_nd l -> Inv clk (with_docs c l).
Proof. intros [_ H] Hl. split; [ exact Hl | exact H ]. Qed.
Lemma Inv_with_docs_w clk c l : Inv clk c -> store_nd l -> Inv clk (with_docs_w c l).
Proof. intros [_ H] Hl. split; [ exact Hl | exact H ]. Qed.

Lemma store_get_none k l :
  store_get k l = None -> Forall (fun kd => py_eq (fst kd) k = false) l.
Proof.
  induction l as [ | [k' d'] l IH ]; simpl; intros H; [ constructor | ].
  destruct (py_eq k' k) eqn:E; [ discriminate | ]. constructor; [ exact E | auto ].
Qed.

Lemma Forall_filter {A} (P : A -> Prop) (f : A -> bool) l :
  Forall P l -> Forall P (List.filter f l).
Proof.
  induction 1 as [ | x l Hx _ IH ]; simpl; [ constructor | ].
  destruct (f x); [ constructor; assumption | assumption ].
Qed.

Lemma store_nd_filter f l : store_nd l -> store_nd (List.filter f l).
Proof.
  induction l as [ | [k d] l IH ]; simpl; [ auto | ]. intros [H1 H2].
  destruct (f (k, d)); simpl; [ split; [ apply Forall_filter; assumption | auto ] | auto ].
Qed.

Lemma Forall_store_del (P : value * value -> Prop) k l :
  Forall P l -> Forall P (store_del k l).
Proof.
  induction 1 as [ | [k' d'] l Hx Hl IH ]; simpl; [ constructor | ].
  destruct (py_eq k' k); [ assumption | constructor; assumption ].
Qed.

Lemma store_nd_del k l : store_nd l -> store_nd (store_del k l).
Proof.
  induction l as [ | [k' d'] l IH ]; simpl; [ auto | ]. intros [H1 H2].
  destruct (py_eq k' k); [ assumption | ]. simpl. split; [ apply Forall_store_del; assumption | auto ].
Qed.

Lemma Forall_store_set (P : value * value -> Prop) k d l :
  (forall d1 d2, P (k, d1) -> P (k, d2)) ->
  (forall k' d1 d2, P (k', d1) -> P (k', d2)) ->
  Forall P l -> P (k, d) -> Forall P (store_set k d l).
Proof.
  intros _ Hk. induction 1 as [ | [k' d'] l Hx Hl IH ]; simpl; intros Hp.
  - constructor; [ assumption | constructor ].
  - destruct (py_eq k' k); constructor; eauto.
Qed.

Lemma store_nd_set k d l : store_nd l -> store_nd (store_set k d l).
Proof.
  induction l as [ | [k' d'] l IH ]; simpl; [ auto | ]. intros [H1 H2].
  destruct (py_eq k' k) eqn:E; simpl.
  - split; assumption.
  - split; [ | auto ].
    apply Forall_store_set; simpl; auto.
Qed.

Lemma store_nd_app_end k d l :
  store_nd l -> Forall (fun kd => py_eq (fst kd) k = false) l -> store_nd (l ++ [(k, d)]).
Proof.
  induction l as [ | [k' d'] l IH ]; simpl.
  - intros _ _. split; [ constructor | exact I ].
  - intros [H1 H2] Hf. inversion Hf as [ | ? ? Hk Hl ]; subst. simpl in Hk.
    split; [ | auto ].
    apply Forall_app. split; [ assumption | constructor; [ exact Hk | constructor ] ].
Qed.

Section preservation.
Variable clk : Z.

(* ---------------------------------------------------------------- expiry *)
Lemma expire_index_nd i c c' : expire_index i c = Ok c' -> Inv clk c -> Inv clk c'.
Proof.
  unfold expire_index. intros H [Hi Hn].
  repeat dm H; inv_pair H; split; simpl; auto using store_nd_filter.
Qed.

Lemma expire_fold_err is e :
  fold_left (fun acc i => let! c' := acc in expire_index i c') is (Err e) = Err e.
Proof. induction is as [ | i is IH ]; simpl; auto. Qed.

Lemma expire_fold_nd : forall is c c',
  fold_left (fun acc i => let! c' := acc in expire_index i c') is (Ok c) = Ok c' ->
  Inv clk c -> Inv clk c'.
Proof.
  induction is as [ | i is IH ]; simpl; intros c c' H Hi.
  - inv_pair H. assumption.
  - destruct (expire_index i c) as [c1|e] eqn:E.
    + eapply IH; [ exact H | eapply expire_index_nd; eauto ].
    + rewrite expire_fold_err in H. discriminate.
Qed.

Lemma expire_nd c c' : expire c = Ok c' -> Inv clk c -> Inv clk c'.
Proof. unfold expire. apply expire_fold_nd. Qed.

Lemma expire_if_nd b c c' : expire_if b c = Ok c' -> Inv clk c -> Inv clk c'.
Proof. destruct b; simpl; [ apply expire_nd | intros H; inv_pair H; auto ]. Qed.

(* ---------------------------------------------------------------- reads *)
Lemma iter_documents_nd c f c1 m : iter_documents c f = Ok (c1, m) -> Inv clk c -> Inv clk c1.
Proof.
  unfold iter_documents. intros H Hi.
  destruct (expire c) as [c0|e] eqn:E; simpl in H; [ | discriminate ].
  repeat dm H; inv_pair H; eauto using expire_nd.
Qed.

Lemma find_docs_nd c f s c1 l : find_docs c f s = Ok (c1, l) -> Inv clk c -> Inv clk c1.
Proof.
  unfold find_docs. intros H Hi. destruct f; try discriminate.
  destruct (iter_documents c (patch (VDoc fs))) as [[c0 m]|e] eqn:E; simpl in H; [ | discriminate ].
  dm H. inv_pair H. simpl. eauto using iter_documents_nd.
Qed.

Lemma find_op_nd c f p s sk lim c1 r : find_op c f p s sk lim = (c1, r) -> Inv clk c -> Inv clk c1.
Proof.
  unfold find_op. intros H Hi.
  destruct (find_docs c f s) as [[c0 l]|e] eqn:E.
  - dm H; inv_pair H; eauto using find_docs_nd.
  - inv_pair H. assumption.
Qed.

Lemma find_one_nd c f p s c1 r : find_one c f p s = (c1, r) -> Inv clk c -> Inv clk c1.
Proof.
  unfold find_one. intros H Hi.
  destruct (find_op c f p s 0 0) as [c0 r0] eqn:E.
  assert (Hc0 : Inv clk c0) by eauto using find_op_nd.
  repeat dm H; inv_pair H; assumption.
Qed.

Lemma count_op_nd c f sk lim c1 r : count_op c f sk lim = (c1, r) -> Inv clk c -> Inv clk c1.
Proof.
  unfold count_op. intros H Hi.
  repeat dm H; inv_pair H; eauto using iter_documents_nd.
Qed.

Lemma distinct_op_nd c k f c1 r : distinct_op c k f = (c1, r) -> Inv clk c -> Inv clk c1.
Proof.
  unfold distinct_op. intros H Hi.
  destruct (negb (path_modelled (split_dots k))); [ inv_pair H; assumption | ].
  destruct (find_docs c f []) as [[c0 l]|e] eqn:E.
  - dm H; inv_pair H; eauto using find_docs_nd.
  - inv_pair H. assumption.
Qed.

(* ---------------------------------------------------------------- insert *)
Lemma insert_doc_nd c d c' r : insert_doc c d = (c', r) -> Inv clk c -> Inv clk c'.
Proof.
  unfold insert_doc. intros H Hi.
  destruct d as [ | | | | | | | fs | ]; try (inv_pair H; assumption).
  set (t := match assoc "_id" fs with
            | Some i => (c, fs, patch i)
            | None => (mkColl (docs c) (idx c) (forced c) (next_oid c + 1) (now c) (odocs c),
                       fs ++ [("_id", VOid (next_oid c))], VOid (next_oid c))
            end) in H.
  assert (Ht : Inv clk (fst (fst t))).
  { subst t. destruct (assoc "_id" fs); simpl; exact Hi. }
  destruct t as [[c0 fs1] id]. simpl in Ht.
  destruct (negb (id_modelled id)).
  { destruct id; inv_pair H; assumption. }
  destruct (expire c0) as [c1|e] eqn:E1; [ | inv_pair H; assumption ].
  assert (H1 : Inv clk c1) by eauto using expire_nd.
  destruct (store_get id (docs c1)) eqn:Eg; [ inv_pair H; assumption | ].
  set (data := patch (VDoc fs1)) in H.
  set (c2 := with_docs_w c1 (docs c1 ++ [(id, data)])) in H.
  assert (H2 : Inv clk c2).
  { apply Inv_with_docs_w; [ exact H1 | ].
    apply store_nd_app_end; [ exact (proj1 H1) | apply store_get_none; exact Eg ]. }
  destruct (ensure_uniques c2 data) as [touched|e] eqn:Eu.
  - destruct (expire_if touched c2) as [c3|e] eqn:E3; inv_pair H; eauto using expire_if_nd.
  - destruct (expire c2) as [c3|e'] eqn:E3; inv_pair H; [ | assumption ].
    assert (H3 : Inv clk c3) by eauto using expire_nd.
    apply Inv_with_docs; [ exact H3 | apply store_nd_del; exact (proj1 H3) ].
Qed.

Lemma insert_one_nd c d c' r : insert_one c d = (c', r) -> Inv clk c -> Inv clk c'.
Proof.
  unfold insert_one. intros H Hi. destruct (insert_doc c d) as [c0 r0] eqn:E.
  inv_pair H. eauto using insert_doc_nd.
Qed.

Lemma insert_many_go_nd : forall ds c ordered index ids errs n c' r,
  insert_many_go c ds ordered index ids errs n = (c', r) -> Inv clk c -> Inv clk c'.
Proof.
  induction ds as [ | d ds IH ]; simpl; intros c ordered index ids errs n c' r H Hi.
  - inv_pair H. assumption.
  - destruct (insert_doc c d) as [c0 r0] eqn:E.
    assert (H0 : Inv clk c0) by eauto using insert_doc_nd.
    destruct r0 as [id|e]; [ eauto | ].
    destruct (is_write_error e); [ | inv_pair H; assumption ].
    destruct ordered; [ inv_pair H; assumption | eauto ].
Qed.

Lemma insert_many_nd c ds ordered c' r : insert_many c ds ordered = (c', r) -> Inv clk c -> Inv clk c'.
Proof.
  unfold insert_many. intros H Hi.
  destruct ds as [ | d ds ]; [ inv_pair H; assumption | ].
  destruct (negb (forallb is_doc (d :: ds))); [ inv_pair H; assumption | ].
  destruct (insert_many_go c (d :: ds) ordered 0 [] [] 0) as [c0 r0] eqn:E.
  inv_pair H. eauto using insert_many_go_nd.
Qed.

(* ---------------------------------------------------------------- update *)
Lemma update_loop_nd : forall todo c spec upd multi m md c' r,
  update_loop c spec upd multi todo m md = (c', r) -> Inv clk c -> Inv clk c'.
Proof.
  induction todo as [ | [k d] todo IH ]; simpl; intros c spec upd multi m md c' r H Hi.
  - inv_pair H. assumption.
  - destruct (filter_applies spec d) as [[|]|e]; [ | eauto | inv_pair H; assumption ].
    destruct (apply_update spec upd false (now c) d) as [d'|e]; [ | inv_pair H; assumption ].
    destruct (negb (negb (py_eq d' d))).
    { destruct (negb (value_eqb d' d) && py_in k (odocs c)); [ inv_pair H; assumption | ].
      destruct multi; [ eauto | inv_pair H; assumption ]. }
    match type of H with (if negb ?s then _ else _) = _ => destruct (negb s) end;
      [ inv_pair H; assumption | ].
    destruct (match d with VDoc fs => assoc "_id" fs | _ => None end);
      [ | inv_pair H; assumption ].
    set (c1 := with_docs_w c (store_set k d' (docs c))) in H.
    assert (H1 : Inv clk c1) by (apply Inv_with_docs_w; [ exact Hi | apply store_nd_set; exact (proj1 Hi) ]).
    destruct (ensure_uniques c1 d') as [touched|e] eqn:Eu.
    + destruct (expire_if touched c1) as [c2|e] eqn:E2; [ | inv_pair H; assumption ].
      assert (H2 : Inv clk c2) by eauto using expire_if_nd.
      destruct multi; [ eauto | inv_pair H; assumption ].
    + destruct e; try (inv_pair H; assumption);
      (destruct (expire c1) as [c2|e] eqn:E2; inv_pair H; [ | assumption ];
       assert (H2 : Inv clk c2) by eauto using expire_nd;
       apply Inv_with_docs; [ exact H2 | apply store_nd_set; exact (proj1 H2) ]).
Qed.

Lemma update_nd pre5 c f u multi upsert c' r :
  update pre5 c f u multi upsert = (c', r) -> Inv clk c -> Inv clk c'.
Proof.
  unfold update. intros H Hi.
  destruct (patch f) as [ | | | | | | | sfs | ]; try (inv_pair H; assumption).
  destruct (patch u) as [ | | | | | | | ufs | ]; try (inv_pair H; assumption).
  destruct (empty_operator pre5 (VDoc ufs)); [ inv_pair H; assumption | ].
  destruct (expire c) as [c1|e] eqn:E1; [ | inv_pair H; assumption ].
  assert (H1 : Inv clk c1) by eauto using expire_nd.
  match type of H with (match ?x with Ok _ => _ | Err _ => _ end) = _ => destruct x end;
    [ | inv_pair H; assumption ].
  destruct (update_loop c1 (VDoc sfs) (VDoc ufs) multi (docs c1) 0 0) as [c2 r2] eqn:El.
  assert (H2 : Inv clk c2) by eauto using update_loop_nd.
  destruct r2 as [[matched modified]|e]; [ | inv_pair H; assumption ].
  destruct (negb upsert || negb (matched =?? 0)); [ inv_pair H; assumption | ].
  match type of H with (let '(c3, id) := ?t in _) = _ => set (t3 := t) in H end.
  assert (H3 : Inv clk (fst t3)).
  { subst t3. repeat match goal with |- context [match ?x with _ => _ end] => destruct x end;
      simpl; exact H2. }
  destruct t3 as [c3 id]. simpl in H3.
  destruct (expand_dots (set_key "_id" id sfs)) as [expanded|e]; [ | inv_pair H; assumption ].
  match type of H with (match ?x with Ok _ => _ | Err _ => _ end) = _ => destruct x as [d'|e] end;
    [ | inv_pair H; assumption ].
  destruct (insert_doc c3 d') as [c4 ir] eqn:E4.
  assert (H4 : Inv clk c4) by eauto using insert_doc_nd.
  destruct ir; inv_pair H; assumption.
Qed.

Lemma update_op_nd pre5 c f u multi upsert c' r :
  update_op pre5 c f u multi upsert = (c', r) -> Inv clk c -> Inv clk c'.
Proof.
  unfold update_op. intros H Hi.
  destruct u; try (inv_pair H; assumption).
  destruct (first_key_dollar (VDoc fs)) as [[|]|]; try (inv_pair H; assumption).
  eauto using update_nd.
Qed.

Lemma replace_op_nd pre5 c f u upsert c' r :
  replace_op pre5 c f u upsert = (c', r) -> Inv clk c -> Inv clk c'.
Proof.
  unfold replace_op. intros H Hi.
  destruct u; try (inv_pair H; assumption).
  destruct (first_key_dollar (VDoc fs)) as [[|]|]; try (inv_pair H; assumption);
    eauto using update_nd.
Qed.

(* ---------------------------------------------------------------- delete *)
Lemma delete_go_nd : forall l c multi n c' r,
  delete_go c l multi n = (c', r) -> Inv clk c -> Inv clk c'.
Proof.
  induction l as [ | d l IH ]; simpl; intros c multi n c' r H Hi.
  - inv_pair H. assumption.
  - destruct d; try (inv_pair H; assumption).
    destruct (assoc "_id" fs) as [id|]; [ | inv_pair H; assumption ].
    destruct (store_get id (docs c)); [ | inv_pair H; assumption ].
    match type of H with context [if multi then delete_go ?c1 _ _ _ else _] =>
      assert (H1 : Inv clk c1)
        by (split; [ simpl; apply store_nd_del; exact (proj1 Hi) | exact (proj2 Hi) ]) end.
    destruct multi; [ eauto | inv_pair H; assumption ].
Qed.

Lemma delete_op_nd c f multi c' r : delete_op c f multi = (c', r) -> Inv clk c -> Inv clk c'.
Proof.
  unfold delete_op. intros H Hi.
  destruct f; try (inv_pair H; assumption).
  destruct (find_docs c (VDoc fs) []) as [[c1 l]|e] eqn:E; [ | inv_pair H; assumption ].
  destruct (delete_go c1 l multi 0) as [c2 r2] eqn:Ed.
  inv_pair H. eauto using delete_go_nd, find_docs_nd.
Qed.

(* ---------------------------------------------------------------- find_one_and_* *)
Lemma find_and_modify_nd pre5 c f proj sort k c' r :
  find_and_modify pre5 c f proj sort k = (c', r) -> Inv clk c -> Inv clk c'.
Proof.
  unfold find_and_modify. intros H Hi.
  destruct f; try (inv_pair H; assumption).
  match type of H with (match ?v with Ok _ => _ | Err _ => _ end) = _ => destruct v end;
    [ | inv_pair H; assumption ].
  match type of H with (if ?b then _ else _) = _ => destruct b end; [ inv_pair H; assumption | ].
  destruct (find_one c (VDoc fs) None sort) as [c1 r1] eqn:E1.
  assert (H1 : Inv clk c1) by eauto using find_one_nd.
  destruct r1 as [target|e]; [ | inv_pair H; assumption ].
  set (upsert := match k with FamDelete => false | FamUpdate _ u _ | FamReplace _ u _ => u end) in H.
  assert (Hgo : forall query,
    (let '(c2, old_r) := match target with
                         | Some _ => find_one c1 query proj []
                         | None => (c1, Ok None)
                         end in
     match old_r with
     | Err e => (c2, Err e)
     | Ok old =>
         let '(c3, wr, query') :=
           match k with
           | FamDelete => let '(c', r) := delete_op c2 query false in (c', r, query)
           | FamUpdate u _ _ | FamReplace u _ _ =>
               let '(c', r) := update pre5 c2 query u false upsert in
               (c', r,
                match r with
                | Ok (VDoc rfs) => match assoc "upserted_id" rfs with
                                   | Some i => if truthy i then VDoc [("_id", i)] else query
                                   | None => query end
                | _ => query
                end)
           end in
         match wr with
         | Err e => (c3, Err e)
         | Ok _ =>
             if match k with FamDelete => false | FamUpdate _ _ a | FamReplace _ _ a => a end then
               match find_one c3 query' proj [] with
               | (c4, Ok r) => (c4, Ok (opt_to_value r))
               | (c4, Err e) => (c4, Err e)
               end
             else (c3, Ok (opt_to_value old))
         end
     end) = (c', r) -> Inv clk c').
  { intros query Hq.
    match type of Hq with (match ?t with _ => _ end) = _ => destruct t as [c2 old_r] eqn:E2 end.
    assert (H2 : Inv clk c2).
    { destruct target; [ eauto using find_one_nd | inv_pair E2; assumption ]. }
    destruct old_r as [old|e]; [ | inv_pair Hq; assumption ].
    match type of Hq with (match ?t with _ => _ end) = _ =>
      destruct t as [[c3 wr] query'] eqn:E3 end.
    assert (H3 : Inv clk c3).
    { destruct k.
      - destruct (delete_op c2 query false) as [cx rx] eqn:Ex. inv_pair E3. eauto using delete_op_nd.
      - destruct (update pre5 c2 query u false upsert) as [cx rx] eqn:Ex. inv_pair E3.
        eauto using update_nd.
      - destruct (update pre5 c2 query r0 false upsert) as [cx rx] eqn:Ex. inv_pair E3.
        eauto using update_nd. }
    destruct wr; [ | inv_pair Hq; assumption ].
    match type of Hq with (if ?b then _ else _) = _ => destruct b end; [ | inv_pair Hq; assumption ].
    destruct (find_one c3 query' proj []) as [c4 r4] eqn:E4.
    assert (H4 : Inv clk c4) by eauto using find_one_nd.
    destruct r4; inv_pair Hq; assumption. }
  destruct target as [t|]; [ | destruct upsert eqn:Eup ].
  - match type of H with (match ?q with Some _ => _ | None => _ end) = _ => destruct q as [query|] end;
      [ | inv_pair H; assumption ].
    eapply Hgo. exact H.
  - eapply Hgo. exact H.
  - inv_pair H. assumption.
Qed.

(* ---------------------------------------------------------------- bulk_write *)
Lemma bulk_exec_nd pre5 c rq a c' r : bulk_exec pre5 c rq a = (c', r) -> Inv clk c -> Inv clk c'.
Proof.
  unfold bulk_exec. intros H Hi. destruct rq.
  - destruct d; try (inv_pair H; assumption).
    destruct (insert_doc c (VDoc fs)) as [c0 o] eqn:E. inv_pair H. eauto using insert_doc_nd.
  - destruct (update pre5 c f u multi upsert) as [c0 o] eqn:E. inv_pair H. eauto using update_nd.
  - destruct (update pre5 c f r0 false upsert) as [c0 o] eqn:E. inv_pair H. eauto using update_nd.
  - destruct (delete_op c f multi) as [c0 o] eqn:E. inv_pair H. eauto using delete_op_nd.
Qed.

Lemma bulk_go_nd pre5 : forall rs c ordered index a c' r,
  bulk_go pre5 c rs ordered index a = (c', r) -> Inv clk c -> Inv clk c'.
Proof.
  induction rs as [ | rq rs IH ]; simpl; intros c ordered index a c' r H Hi.
  - inv_pair H. assumption.
  - destruct (bulk_exec pre5 c rq a) as [c0 o] eqn:E.
    assert (H0 : Inv clk c0) by eauto using bulk_exec_nd.
    destruct o as [a'|e]; [ eauto | ].
    destruct (is_write_error e); [ | inv_pair H; assumption ].
    destruct ordered; [ inv_pair H; assumption | eauto ].
Qed.

Lemma bulk_write_nd pre5 c rs ordered c' r :
  bulk_write pre5 c rs ordered = (c', r) -> Inv clk c -> Inv clk c'.
Proof.
  unfold bulk_write. intros H Hi.
  match type of H with (match ?x with Ok _ => _ | Err _ => _ end) = _ => destruct x end;
    [ | inv_pair H; assumption ].
  destruct rs as [ | rq rs ]; [ inv_pair H; assumption | ].
  destruct (bulk_go pre5 c (rq :: rs) ordered 0 (mkAcc 0 0 0 0 0 [] [])) as [c0 o] eqn:E.
  inv_pair H. eauto using bulk_go_nd.
Qed.

(* ---------------------------------------------------------------- indexes *)
Lemma create_index_nd c key u s t p n c' r :
  create_index c key u s t p n = (c', r) -> Inv clk c -> Inv clk c'.
Proof.
  unfold create_index. intros H Hi. cbv zeta in H.
  match type of H with (if ?b then _ else _) = _ => destruct b end; [ inv_pair H; assumption | ].
  match type of H with (if ?b then _ else _) = _ => destruct b end; [ inv_pair H; assumption | ].
  destruct u.
  - destruct (expire c) as [c1|e] eqn:E; [ | inv_pair H; assumption ].
    assert (H1 : Inv clk c1) by eauto using expire_nd.
    match type of H with (if ?b then _ else _) = _ => destruct b end; inv_pair H; exact H1.
  - inv_pair H. exact Hi.
Qed.

Lemma drop_index_nd c n c' r : drop_index c n = (c', r) -> Inv clk c -> Inv clk c'.
Proof.
  unfold drop_index. intros H Hi.
  destruct (expire c) as [c1|e] eqn:E; [ | inv_pair H; assumption ].
  assert (H1 : Inv clk c1) by eauto using expire_nd.
  destruct (find_index_by_name n (idx c1)); inv_pair H; exact H1.
Qed.

End preservation.

(* ---------------------------------------------------------------- every step *)
Definition clock_after (clk : Z) (o : op) : Z := match o with OSetClock t => t | _ => clk end.

Lemma step_nd clk pre5 c o c' r :
  step pre5 c o = (c', r) -> Inv clk c -> Inv (clock_after clk o) c'.
Proof.
  destruct o; simpl; intros H Hi.
  - eauto using insert_one_nd.
  - eauto using insert_many_nd.
  - eauto using update_op_nd.
  - eauto using replace_op_nd.
  - eauto using delete_op_nd.
  - eauto using find_op_nd.
  - eauto using count_op_nd.
  - eauto using distinct_op_nd.
  - eauto using find_and_modify_nd.
  - eauto using bulk_write_nd.
  - eauto using create_index_nd.
  - eauto using drop_index_nd.
  - unfold drop_indexes in H. inv_pair H. exact Hi.
  - unfold index_information in H. destruct (is_created c); inv_pair H; exact Hi.
  - unfold drop_coll in H. inv_pair H. split; [ exact I | exact (proj2 Hi) ].
  - inv_pair H. split; [ exact (proj1 Hi) | reflexivity ].
Qed.

Lemma Inv_empty : Inv 0 empty_coll.
Proof. split; [ exact I | reflexivity ]. Qed.
