(* C15 proofs: bulk_write = the requests issued one at a time. *)
From Coq Require Import ZArith List String Bool Ascii Lia.
From Verif Require Import Value PyEq BsonOrder Path Filter Update Project Coll HistCheck HistProps
  HistGuards.
From Verif.Proofs Require Import C01Values.
Import ListNotations.
Open Scope Z_scope.
Open Scope string_scope.
Open Scope list_scope.

(* ---------------------------------------------------------------- strict equality is reflexive *)
Lemma opt_z_eqb_refl o : opt_z_eqb o o = true.
Proof. destruct o as [z|]; simpl; [apply Z.eqb_refl|reflexivity]. Qed.

Lemma value_eqb_refl : forall v, value_eqb v v = true.
Proof.
  induction v as [|b|z|e|s|us tz|n|fs IH|xs IH] using value_ind2; simpl;
    try reflexivity; try apply Z.eqb_refl.
  - destruct b; reflexivity.
  - apply String.eqb_refl.
  - rewrite Z.eqb_refl, opt_z_eqb_refl. reflexivity.
  - induction IH as [|[k v] fs' Hv _ IHfs]; [reflexivity|].
    simpl in Hv. rewrite String.eqb_refl, Hv. simpl. exact IHfs.
  - induction IH as [|x xs' Hx _ IHxs]; [reflexivity|].
    rewrite Hx. simpl. exact IHxs.
Qed.

Lemma store_eqb_refl s : store_eqb s s = true.
Proof.
  unfold store_eqb. induction s as [|[k d] s IH]; [reflexivity|].
  simpl. rewrite !value_eqb_refl. simpl. exact IH.
Qed.

Lemma list_eqb_Z_refl l : list_eqb Z.eqb l l = true.
Proof. induction l as [|z l IH]; [reflexivity|]. simpl. rewrite Z.eqb_refl. exact IH. Qed.

(* ---------------------------------------------------------------- shapes of the single results *)
Lemma insert_doc_nondoc c d : is_doc d = false -> insert_doc c d = (c, Err EType).
Proof. destruct d; simpl; intros Hd; try reflexivity; discriminate. Qed.

Lemma update_shape pre5 c f u multi upsert c' v :
  update pre5 c f u multi upsert = (c', Ok v) ->
  exists m md up, v = update_result m md up.
Proof.
  unfold update. intros H.
  repeat match type of H with
         | context[match ?x with _ => _ end] => destruct x eqn:?; try discriminate
         end.
  all: inversion H; subst; eauto.
Qed.

Lemma delete_shape c f multi c' v :
  delete_op c f multi = (c', Ok v) -> exists n, v = VDoc [("deleted", VInt n)].
Proof.
  unfold delete_op, bind. intros H.
  repeat match type of H with
         | context[match ?x with _ => _ end] => destruct x eqn:?; try discriminate
         end.
  all: simpl in H; inversion H; subst; eauto.
Qed.

(* ---------------------------------------------------------------- one request *)
Definition fz (k : string) (v : value) : Z :=
  match get_field k v with Some (VInt z) => z | _ => 0 end.
Definition ups (v : value) : list value :=
  match get_field "upserted_id" v with
  | Some u => if is_null u then [] else [u]
  | None => [] end.
Definition is_ins (q : bulk_req) : bool := match q with BInsert _ => true | _ => false end.

Definition acc_add (r : bulk_req) (a : bulk_acc) (v : value) : bulk_acc :=
  mkAcc (b_inserted a + (if is_ins r then 1 else 0))
        (b_matched a + (if is_upsert_result (Ok v) then 0 else fz "matched" v))
        (b_modified a + fz "modified" v)
        (b_upserted_n a + (if is_upsert_result (Ok v) then 1 else 0))
        (b_removed a + fz "deleted" v)
        (b_upserted a ++ ups v) (b_errors a).

Lemma acc_eq a1 a2 a3 a4 a5 a6 a7 b1 b2 b3 b4 b5 b6 b7 :
  a1 = b1 -> a2 = b2 -> a3 = b3 -> a4 = b4 -> a5 = b5 -> a6 = b6 -> a7 = b7 ->
  mkAcc a1 a2 a3 a4 a5 a6 a7 = mkAcc b1 b2 b3 b4 b5 b6 b7.
Proof. intros; subst; reflexivity. Qed.

Lemma bulk_exec_update_result pre5 c f u multi upsert a :
  (let '(c', o) := update pre5 c f u multi upsert in
   (c', let! rv := o in
        let up := match rv with
                  | VDoc fs => match assoc "upserted_id" fs with
                               | Some i => if is_null i then None else Some i
                               | None => None end
                  | _ => None end in
        match up with
        | Some i =>
            Ok (mkAcc (b_inserted a) (b_matched a) (b_modified a + get_z "modified" rv)
                      (b_upserted_n a + 1) (b_removed a) (b_upserted a ++ [i]) (b_errors a))
        | None =>
            Ok (mkAcc (b_inserted a) (b_matched a + get_z "matched" rv)
                      (b_modified a + get_z "modified" rv)
                      (b_upserted_n a) (b_removed a) (b_upserted a) (b_errors a))
        end)) =
  (fst (update pre5 c f u multi upsert),
   match snd (update pre5 c f u multi upsert) with
   | Ok v => Ok (mkAcc (b_inserted a + 0)
        (b_matched a + (if is_upsert_result (Ok v) then 0 else fz "matched" v))
        (b_modified a + fz "modified" v)
        (b_upserted_n a + (if is_upsert_result (Ok v) then 1 else 0))
        (b_removed a + fz "deleted" v)
        (b_upserted a ++ ups v) (b_errors a))
   | Err e => Err e
   end).
Proof.
  destruct (update pre5 c f u multi upsert) as [c' [v|e]] eqn:Hu; [|reflexivity].
  destruct (update_shape _ _ _ _ _ _ _ _ Hu) as (m & md & up & ->).
  simpl. f_equal.
  destruct up as [i|]; simpl.
  - destruct (is_null i) eqn:Hi; simpl; f_equal; apply acc_eq;
      unfold fz, ups; simpl; rewrite ?Hi; simpl;
      try reflexivity; try lia; try (symmetry; apply app_nil_r).
  - f_equal. apply acc_eq; unfold fz, ups; simpl;
      try reflexivity; try lia; try (symmetry; apply app_nil_r).
Qed.

Lemma bulk_exec_req pre5 c r a :
  bulk_valid r = Ok tt ->
  bulk_exec pre5 c r a =
  (fst (req_step pre5 c r),
   match snd (req_step pre5 c r) with
   | Ok v => Ok (acc_add r a v)
   | Err e => Err e
   end).
Proof.
  intros Hv. destruct r as [d|f u multi upsert|f u upsert|f multi].
  - (* insert *)
    unfold bulk_exec, req_step, insert_one.
    destruct (is_doc d) eqn:Hd.
    + destruct d; try discriminate.
      destruct (insert_doc c (VDoc fs)) as [c' [id|e]]; simpl; [|reflexivity].
      f_equal. f_equal. unfold acc_add, fz, ups; simpl.
      apply acc_eq; try reflexivity; try lia. symmetry; apply app_nil_r.
    + rewrite (insert_doc_nondoc c d Hd). destruct d; try discriminate; reflexivity.
  - (* update *)
    unfold bulk_exec, req_step, update_op.
    simpl in Hv.
    destruct u; try discriminate.
    destruct (first_key_dollar (VDoc fs)) as [[|]|]; try discriminate.
    rewrite bulk_exec_update_result. reflexivity.
  - (* replace *)
    unfold bulk_exec, req_step.
    rewrite bulk_exec_update_result. reflexivity.
  - (* delete *)
    unfold bulk_exec, req_step.
    destruct (delete_op c f multi) as [c' [v|e]] eqn:Hdel; simpl; [|reflexivity].
    destruct (delete_shape _ _ _ _ _ Hdel) as (n & ->).
    f_equal. f_equal. unfold acc_add, fz, ups; simpl.
    apply acc_eq; try reflexivity; try lia. symmetry; apply app_nil_r.
Qed.

(* ---------------------------------------------------------------- the loop *)
(* seq_run without the accumulator *)
Fixpoint seq_run' (pre5 : bool) (c : coll) (rs : list bulk_req) (ordered : bool)
  : coll * list (res value) * bool :=
  match rs with
  | [] => (c, [], false)
  | r :: rs' =>
      let '(c', o) := req_step pre5 c r in
      match o with
      | Ok _ => let '(c2, outs, ab) := seq_run' pre5 c' rs' ordered in (c2, o :: outs, ab)
      | Err e =>
          if is_write_error e then
            if ordered then (c', [o], false)
            else let '(c2, outs, ab) := seq_run' pre5 c' rs' ordered in (c2, o :: outs, ab)
          else (c', [o], true)
      end
  end.

Lemma seq_run_acc pre5 ordered : forall rs c acc,
  seq_run pre5 c rs ordered acc =
  let '(c2, outs, ab) := seq_run' pre5 c rs ordered in (c2, acc ++ outs, ab).
Proof.
  induction rs as [|r rs IH]; intros c acc.
  - simpl. rewrite app_nil_r. reflexivity.
  - cbn [seq_run seq_run'].
    destruct (req_step pre5 c r) as [c' [v|e]].
    + rewrite IH. destruct (seq_run' pre5 c' rs ordered) as [[c2 outs] ab].
      rewrite <- app_assoc. reflexivity.
    + destruct (is_write_error e); [|reflexivity].
      destruct ordered; [reflexivity|].
      rewrite IH. destruct (seq_run' pre5 c' rs false) as [[c2 outs] ab].
      rewrite <- app_assoc. reflexivity.
Qed.

Lemma seq_run_nil pre5 ordered rs c :
  seq_run pre5 c rs ordered [] = seq_run' pre5 c rs ordered.
Proof.
  rewrite seq_run_acc. destruct (seq_run' pre5 c rs ordered) as [[c2 outs] ab]. reflexivity.
Qed.

(* the state *)
Lemma bulk_go_state pre5 ordered : forall rs c index a,
  (forall r, In r rs -> bulk_valid r = Ok tt) ->
  fst (bulk_go pre5 c rs ordered index a) = fst (fst (seq_run' pre5 c rs ordered)).
Proof.
  induction rs as [|r rs IH]; intros c index a Hv; [reflexivity|].
  cbn [bulk_go seq_run'].
  rewrite (bulk_exec_req pre5 c r a (Hv r (or_introl eq_refl))).
  assert (Hv' : forall r', In r' rs -> bulk_valid r' = Ok tt)
    by (intros r' Hr'; apply Hv; right; exact Hr').
  destruct (req_step pre5 c r) as [c' [v|e]]; cbn [fst snd].
  - rewrite IH by exact Hv'.
    destruct (seq_run' pre5 c' rs ordered) as [[c2 outs] ab]. reflexivity.
  - destruct (is_write_error e); [|reflexivity].
    destruct ordered; [reflexivity|].
    rewrite IH by exact Hv'.
    destruct (seq_run' pre5 c' rs false) as [[c2 outs] ab]. reflexivity.
Qed.

Lemma bulk_chk_ok rs :
  (forall r, In r rs -> bulk_valid r = Ok tt) ->
  (fix chk (rs : list bulk_req) : res unit :=
     match rs with [] => Ok tt | r :: rs' => let! _ := bulk_valid r in chk rs' end) rs = Ok tt.
Proof.
  induction rs as [|r rs IH]; intros Hv; [reflexivity|].
  rewrite (Hv r (or_introl eq_refl)). simpl. apply IH. intros r' Hr'. apply Hv. right. exact Hr'.
Qed.

Lemma bulk_write_valid pre5 c rs ordered :
  rs <> [] -> (forall r, In r rs -> bulk_valid r = Ok tt) ->
  bulk_write pre5 c rs ordered =
  (fst (bulk_go pre5 c rs ordered 0 (mkAcc 0 0 0 0 0 [] [])),
   let! a := snd (bulk_go pre5 c rs ordered 0 (mkAcc 0 0 0 0 0 [] [])) in Ok (bulk_result a)).
Proof.
  intros Hne Hv. unfold bulk_write. rewrite (bulk_chk_ok rs Hv).
  destruct rs as [|r rs]; [congruence|].
  destruct (bulk_go pre5 c (r :: rs) ordered 0 (mkAcc 0 0 0 0 0 [] [])) as [c' o]. reflexivity.
Qed.

Lemma bulk_state pre5 c rs ordered :
  rs <> [] -> (forall r, In r rs -> bulk_valid r = Ok tt) ->
  let '(c1, _) := bulk_write pre5 c rs ordered in
  let '(c2, outs, aborted) := seq_run pre5 c rs ordered [] in
  c1 = c2.
Proof.
  intros Hne Hv. rewrite (bulk_write_valid pre5 c rs ordered Hne Hv), seq_run_nil.
  rewrite (bulk_go_state pre5 ordered rs c 0 _ Hv).
  destruct (seq_run' pre5 c rs ordered) as [[c2 outs] ab]. reflexivity.
Qed.

(* ---------------------------------------------------------------- the counters *)
Definition err_idx_from : list (res value) -> Z -> list Z :=
  fix go (outs : list (res value)) (k : Z) : list Z :=
    match outs with
    | [] => []
    | Err _ :: outs' => k :: go outs' (k + 1)
    | Ok _ :: outs' => go outs' (k + 1)
    end.
Lemma error_indexes_from outs : error_indexes outs = err_idx_from outs 0.
Proof. reflexivity. Qed.

Definition ups_of (x : res value) : list value :=
  match x with
  | Ok w => match get_field "upserted_id" w with
            | Some u => if is_null u then [] else [u]
            | None => [] end
  | Err _ => [] end.
Definition err_index (e : value) : list Z :=
  match get_field "index" e with Some (VInt z) => [z] | _ => [] end.
Definition nonup (outs : list (res value)) : list (res value) :=
  List.filter (fun x => negb (is_upsert_result x)) outs.

(* what the accumulator gained *)
Definition acc_gain (a a' : bulk_acc) (rs : list bulk_req) (outs : list (res value)) (index : Z)
  : Prop :=
  b_inserted a' = b_inserted a + count_ok_kind is_ins rs outs /\
  b_matched a' = b_matched a + sum_field "matched" (nonup outs) /\
  b_modified a' = b_modified a + sum_field "modified" outs /\
  b_removed a' = b_removed a + sum_field "deleted" outs /\
  b_upserted_n a' = b_upserted_n a + Z.of_nat (List.length (List.filter is_upsert_result outs)) /\
  b_upserted a' = b_upserted a ++ flat_map ups_of outs /\
  flat_map err_index (b_errors a') = flat_map err_index (b_errors a) ++ err_idx_from outs index.

Lemma count_ok_kind_cons_ok p r rs v outs :
  count_ok_kind p (r :: rs) (Ok v :: outs) =
  if p r then 1 + count_ok_kind p rs outs else count_ok_kind p rs outs.
Proof. reflexivity. Qed.
Lemma count_ok_kind_cons_err p r rs e outs :
  count_ok_kind p (r :: rs) (Err e :: outs) = count_ok_kind p rs outs.
Proof. reflexivity. Qed.
Lemma sum_field_cons_ok k v outs :
  sum_field k (Ok v :: outs) = fz k v + sum_field k outs.
Proof.
  unfold fz. change (sum_field k (Ok v :: outs)) with
    (match get_field k v with Some (VInt z) => z + sum_field k outs | _ => sum_field k outs end).
  destruct (get_field k v) as [[]|]; lia.
Qed.
Lemma sum_field_cons_err k e outs : sum_field k (Err e :: outs) = sum_field k outs.
Proof. reflexivity. Qed.

Lemma acc_gain_ok r rs v outs a a' index :
  acc_gain (acc_add r a v) a' rs outs (index + 1) ->
  acc_gain a a' (r :: rs) (Ok v :: outs) index.
Proof.
  unfold acc_gain, acc_add; cbn [b_inserted b_matched b_modified b_upserted_n b_removed
                                 b_upserted b_errors].
  intros (H1 & H2 & H3 & H4 & H5 & H6 & H7).
  repeat split.
  - rewrite H1, count_ok_kind_cons_ok. destruct (is_ins r); lia.
  - rewrite H2. unfold nonup; cbn [List.filter].
    destruct (is_upsert_result (Ok v)); cbn [negb]; rewrite ?sum_field_cons_ok; lia.
  - rewrite H3, sum_field_cons_ok. lia.
  - rewrite H4, sum_field_cons_ok. lia.
  - rewrite H5. cbn [List.filter]. destruct (is_upsert_result (Ok v)); cbn [List.length]; lia.
  - rewrite H6. rewrite <- app_assoc. reflexivity.
  - rewrite H7. reflexivity.
Qed.

Lemma acc_err_gain r rs e outs a a' index :
  acc_gain (mkAcc (b_inserted a) (b_matched a) (b_modified a) (b_upserted_n a)
                  (b_removed a) (b_upserted a)
                  (b_errors a ++ [VDoc [("index", VInt index); ("code", err_code e)]]))
           a' rs outs (index + 1) ->
  acc_gain a a' (r :: rs) (Err e :: outs) index.
Proof.
  unfold acc_gain; cbn [b_inserted b_matched b_modified b_upserted_n b_removed
                        b_upserted b_errors].
  intros (H1 & H2 & H3 & H4 & H5 & H6 & H7).
  repeat split; try assumption.
  rewrite H7. rewrite flat_map_app. simpl. rewrite <- app_assoc. reflexivity.
Qed.

Lemma acc_gain_nil a rs index : acc_gain a a rs [] index.
Proof.
  unfold acc_gain. unfold count_ok_kind. rewrite combine_nil. simpl.
  rewrite !app_nil_r. repeat split; lia.
Qed.

Lemma bulk_go_counts pre5 ordered : forall rs c index a c2 outs,
  (forall r, In r rs -> bulk_valid r = Ok tt) ->
  seq_run' pre5 c rs ordered = (c2, outs, false) ->
  exists a', bulk_go pre5 c rs ordered index a = (c2, Ok a') /\ acc_gain a a' rs outs index.
Proof.
  induction rs as [|r rs IH]; intros c index a c2 outs Hv Hs.
  - simpl in Hs. inversion Hs; subst. exists a. split; [reflexivity|apply acc_gain_nil].
  - cbn [bulk_go seq_run'] in *.
    rewrite (bulk_exec_req pre5 c r a (Hv r (or_introl eq_refl))).
    assert (Hv' : forall r', In r' rs -> bulk_valid r' = Ok tt)
      by (intros r' Hr'; apply Hv; right; exact Hr').
    destruct (req_step pre5 c r) as [c' [v|e]]; cbn [fst snd].
    + destruct (seq_run' pre5 c' rs ordered) as [[c3 outs'] ab] eqn:Hs'.
      inversion Hs; subst.
      destruct (IH c' (index + 1) (acc_add r a v) c2 outs' Hv' Hs') as (a' & Hgo & Hg).
      exists a'. split; [exact Hgo|]. apply acc_gain_ok. exact Hg.
    + destruct (is_write_error e); [|discriminate].
      destruct ordered.
      * inversion Hs; subst. eexists. split; [reflexivity|].
        apply acc_err_gain. apply acc_gain_nil.
      * destruct (seq_run' pre5 c' rs false) as [[c3 outs'] ab] eqn:Hs'.
        inversion Hs; subst.
        match goal with |- context[bulk_go pre5 c' rs false (index + 1) ?a0] =>
          destruct (IH c' (index + 1) a0 c2 outs' Hv' Hs') as (a' & Hgo & Hg) end.
        exists a'. split; [exact Hgo|]. apply acc_err_gain. exact Hg.
Qed.

(* the result document's counters: what C15 says about a bulk that was not aborted *)
Definition bulk_counts_ok (a : bulk_acc) (rs : list bulk_req) (outs : list (res value)) : Prop :=
  b_inserted a = count_ok_kind is_ins rs outs /\
  b_matched a = sum_field "matched" (nonup outs) /\
  b_modified a = sum_field "modified" outs /\
  b_removed a = sum_field "deleted" outs /\
  b_upserted_n a = Z.of_nat (List.length (List.filter is_upsert_result outs)) /\
  b_upserted a = flat_map ups_of outs /\
  flat_map err_index (b_errors a) = error_indexes outs.

Lemma bulk_counts pre5 c rs ordered c2 outs :
  rs <> [] -> (forall r, In r rs -> bulk_valid r = Ok tt) ->
  seq_run pre5 c rs ordered [] = (c2, outs, false) ->
  exists a, bulk_write pre5 c rs ordered = (c2, Ok (bulk_result a)) /\ bulk_counts_ok a rs outs.
Proof.
  intros Hne Hv Hs. rewrite seq_run_nil in Hs.
  destruct (bulk_go_counts pre5 ordered rs c 0 (mkAcc 0 0 0 0 0 [] []) c2 outs Hv Hs)
    as (a & Hgo & Hg).
  exists a. split.
  - rewrite (bulk_write_valid pre5 c rs ordered Hne Hv), Hgo. reflexivity.
  - unfold acc_gain in Hg; cbn [b_inserted b_matched b_modified b_upserted_n b_removed
                                b_upserted b_errors] in Hg.
    destruct Hg as (H1 & H2 & H3 & H4 & H5 & H6 & H7).
    unfold bulk_counts_ok. rewrite error_indexes_from.
    repeat split; try assumption; lia.
Qed.

(* ---------------------------------------------------------------- the history *)
Lemma model_obs_cons pre5 c o ops :
  model_obs pre5 c (o :: ops) =
  (snd (step pre5 c o), docs (fst (step pre5 c o)),
   match index_information (fst (step pre5 c o)) with (_, Ok v) => v | _ => VNull end)
  :: model_obs pre5 (fst (step pre5 c o)) ops.
Proof. cbn [model_obs]. destruct (step pre5 c o) as [c' r]. reflexivity. Qed.

Lemma with_docs_self c : with_docs c (docs c) = c.
Proof. destruct c; reflexivity. Qed.

Definition bulk_all_valid (o : op) : Prop :=
  match o with
  | OBulk rs _ => forall r, In r rs -> bulk_valid r = Ok tt
  | _ => True
  end.

Lemma opt_int_eqb_refl z z' : z = z' -> opt_value_eqb (Some (VInt z)) (Some (VInt z')) = true.
Proof. intros ->. simpl. apply Z.eqb_refl. Qed.

Lemma c15_step_model pre5 c o info :
  bulk_all_valid o ->
  c15_step pre5 c o (snd (step pre5 c o), docs (fst (step pre5 c o)), info) = true.
Proof.
  intros Hv. destruct o; try reflexivity.
  cbn [c15_step step]. destruct rs as [|r0 rs0]; [reflexivity|].
  set (rs := r0 :: rs0) in *.
  assert (Hne : rs <> []) by (unfold rs; discriminate).
  simpl in Hv.
  pose proof (bulk_state pre5 c rs ordered Hne Hv) as Hst.
  destruct (seq_run pre5 c rs ordered []) as [[c2 outs] ab] eqn:Hs.
  destruct (existsb _ outs); [reflexivity|].
  destruct ab.
  - destruct (bulk_write pre5 c rs ordered) as [c1 r1]. subst c1. apply store_eqb_refl.
  - destruct (bulk_counts pre5 c rs ordered c2 outs Hne Hv Hs) as (a & Hbw & Hc).
    rewrite Hbw. cbn [fst snd]. rewrite store_eqb_refl. cbn [andb].
    destruct Hc as (H1 & H2 & H3 & H4 & H5 & H6 & H7).
    unfold bulk_result.
    destruct (b_errors a) as [|e0 es] eqn:He.
    + simpl get_field.
      rewrite H1, H2, H3, H4, H5, H6, <- H7.
      rewrite !opt_int_eqb_refl by reflexivity.
      cbn [opt_value_eqb]. unfold ups_of. rewrite value_eqb_refl. reflexivity.
    + simpl get_field.
      rewrite H1, H2, H3, H4, H5, H6.
      rewrite !opt_int_eqb_refl by reflexivity.
      cbn [opt_value_eqb]. unfold ups_of. rewrite value_eqb_refl.
      fold err_index. rewrite <- H7. cbn [andb]. apply list_eqb_Z_refl.
Qed.

Lemma c15_trace_model pre5 : forall ops c,
  Forall bulk_all_valid ops ->
  c15_trace pre5 c ops (model_obs pre5 c ops) = true.
Proof.
  induction ops as [|o ops IH]; intros c Hv; [reflexivity|].
  rewrite model_obs_cons. cbn [c15_trace].
  destruct (step pre5 c o) as [c' r] eqn:Hstep.
  destruct (is_unmod r); [reflexivity|].
  inversion Hv as [|? ? Ho Hops]; subst.
  pose proof (c15_step_model pre5 c o
                (match index_information c' with (_, Ok v) => v | _ => VNull end) Ho) as Hs.
  rewrite Hstep in Hs. cbn [fst snd] in *. rewrite Hs. cbn [andb].
  rewrite with_docs_self. apply IH. exact Hops.
Qed.

Lemma c15_reasons_valid ops os : c15_reasons ops os = 0 -> Forall bulk_all_valid ops.
Proof.
  unfold c15_reasons. intros H.
  destruct (existsb _ ops) eqn:He; [discriminate|].
  apply Forall_forall. intros o Ho.
  pose proof (existsb_false_In _ _ He o Ho) as Hf. 
  destruct o; try exact I. simpl. intros r Hr.
  pose proof (existsb_false_In _ _ Hf r Hr) as Hr'. simpl in Hr'.
  destruct (bulk_valid r) as [[]|]; [reflexivity|discriminate].
Qed.

Lemma c15_history pre5 ops :
  c15_reasons ops (model_obs pre5 empty_coll ops) = 0 ->
  c15_ok pre5 ops (model_obs pre5 empty_coll ops) = true.
Proof.
  intros H. unfold c15_ok. apply c15_trace_model. exact (c15_reasons_valid _ _ H).
Qed.
