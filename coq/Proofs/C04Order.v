(* C04 proofs: the cross-type BSON order (bson_compare against spec_cmp3), sums, extremes. *)
From Coq Require Import ZArith List String Bool Ascii Lia.
From Verif Require Import Value PyEq BsonOrder Path Update Filter FilterSpec Cursor Expr ExprSpec ExprGuard.
From Verif Require Import C01Values C04Base.
Import ListNotations.
Open Scope Z_scope.
Open Scope string_scope.
Open Scope list_scope.

Lemma cmp3_model op x y c :
  spec_cmp3 x y = Some c -> bson_compare op x y true = Ok (op_holds op c).
Proof.
  intros H. unfold spec_cmp3 in H.
  destruct x as [|b|z|e|s|us tz|n|fs|xs], y as [|b'|z'|e'|s'|us' tz'|n'|fs'|xs'];
    simpl in H; try discriminate; try (inversion H; subst c; destruct op; reflexivity).
  destruct tz, tz'; try discriminate. inversion H; subst c. reflexivity.
Qed.

Lemma scalar_cmp_antisym a b c : scalar_cmp a b = Some c -> scalar_cmp b a = Some (CompOpp c).
Proof.
  destruct a as [|x|x|x|x|x tx|x|x|x], b as [|y|y|y|y|y ty|y|y|y]; simpl; intro H;
    try discriminate H; inversion H; try reflexivity;
    try (rewrite <- Z.compare_antisym; reflexivity).
  rewrite <- String.compare_antisym. reflexivity.
Qed.

Lemma cmp3_antisym a b c : spec_cmp3 a b = Some c -> spec_cmp3 b a = Some (CompOpp c).
Proof.
  unfold spec_cmp3. rewrite (Z.eqb_sym (class_rank b)).
  destruct (class_rank a =?? class_rank b) eqn:Ec; simpl.
  - intros Hs.
    destruct a as [|x|x|x|x|x tx|x|x|x], b as [|y|y|y|y|y ty|y|y|y]; try discriminate Ec;
      try discriminate Hs; try (apply scalar_cmp_antisym; exact Hs).
    destruct tx, ty; try discriminate Hs. apply scalar_cmp_antisym; exact Hs.
  - intros H. inversion H. rewrite <- Z.compare_antisym. reflexivity.
Qed.

(* BSON equality is transitive on scalars *)
Local Arguments Z.mul : simpl never.
Lemma bson_eq_trans_scalar x y z : hashable_scalar x = true ->
  bson_eq x y = true -> bson_eq y z = true -> bson_eq x z = true.
Proof.
  destruct x; try discriminate; intros _; destruct y; simpl; try discriminate; destruct z; simpl; try discriminate;
    intros H1 H2; try reflexivity;
    try (apply Z.eqb_eq in H1; apply Z.eqb_eq in H2; apply Z.eqb_eq; lia).
  - apply Bool.eqb_prop in H1. apply Bool.eqb_prop in H2. subst. apply Bool.eqb_reflx.
  - apply String.eqb_eq in H1. apply String.eqb_eq in H2. subst. apply String.eqb_refl.
Qed.


(* ---------------------------------------------------------------- sums and products *)
Lemma is_numeric_is_num v : is_numeric v = is_num v.
Proof. destruct v; reflexivity. Qed.

Lemma filter_numeric vs : List.filter is_numeric vs = List.filter is_num vs.
Proof. apply filter_ext. exact is_numeric_is_num. Qed.

Lemma num_add_snum a b : is_num a = true -> is_num b = true ->
  num_add a b = snum_add a b /\ is_num (snum_add a b) = true.
Proof. destruct a, b; simpl; intros Ha Hb; try discriminate; split; reflexivity. Qed.

Lemma sum_agree vs : forall acc, is_num acc = true -> forallb is_num vs = true ->
  fold_left num_add vs acc = fold_left snum_add vs acc.
Proof.
  induction vs as [|v vs IH]; intros acc Ha Hv; [reflexivity|].
  simpl in Hv. apply andb_true_iff in Hv. destruct Hv as [Hv Hvs].
  destruct (num_add_snum acc v Ha Hv) as [E1 E2]. simpl. rewrite E1. apply IH; assumption.
Qed.

Lemma py_sum_ssum vs : forallb is_num vs = true -> ssum vs = Some (py_sum vs).
Proof.
  intros H. unfold ssum, py_sum. rewrite H. rewrite sum_agree; [reflexivity|reflexivity|exact H].
Qed.

Lemma forallb_filter {A} (p : A -> bool) l : forallb p (List.filter p l) = true.
Proof.
  induction l as [|x l IH]; simpl; [reflexivity|].
  destruct (p x) eqn:E; simpl; [rewrite E, IH; reflexivity|exact IH].
Qed.

Local Arguments Z.mul : simpl never.
Local Arguments Z.div : simpl never.
Local Arguments Z.modulo : simpl never.
Local Arguments Z.eqb : simpl never.

Lemma prod_agree r : forall v, is_num v = true -> forallb is_num r = true ->
  match sprod v r with
  | Some p => py_reduce_mul v r = Ok p
  | None => py_reduce_mul v r = Err EUnmodelled
  end.
Proof.
  induction r as [|w r IH]; intros v Hv Hr; [reflexivity|].
  simpl in Hr. apply andb_true_iff in Hr. destruct Hr as [Hw Hr].
  destruct v as [| |x|x| | | | |], w as [| |y|y| | | | |]; try discriminate; simpl; unfold num_mul; simpl.
  - apply IH; [reflexivity|exact Hr].
  - match goal with |- context [if ?c then _ else _] => destruct c end; simpl; [apply IH; [reflexivity|exact Hr]|reflexivity].
  - match goal with |- context [if ?c then _ else _] => destruct c end; simpl; [apply IH; [reflexivity|exact Hr]|reflexivity].
  - match goal with |- context [if ?c then _ else _] => destruct c end; simpl; [apply IH; [reflexivity|exact Hr]|reflexivity].
Qed.

(* ---------------------------------------------------------------- extremes *)
Lemma min_agree vs : forall best m, sextreme Lt best vs = Some m -> py_min_from best vs = Ok m.
Proof.
  induction vs as [|v vs IH]; intros best m H; simpl in H; [inversion H; reflexivity|].
  destruct (spec_cmp3 v best) as [c|] eqn:Ec; [|discriminate].
  simpl. unfold bson_lt. rewrite (cmp3_model OpLt _ _ _ Ec). simpl.
  destruct c; simpl in *; apply IH; exact H.
Qed.

Lemma max_agree vs : forall best m, sextreme Gt best vs = Some m -> py_max_from best vs = Ok m.
Proof.
  induction vs as [|v vs IH]; intros best m H; simpl in H; [inversion H; reflexivity|].
  destruct (spec_cmp3 v best) as [c|] eqn:Ec; [|discriminate].
  simpl. unfold bson_lt. rewrite (cmp3_model OpLt _ _ _ (cmp3_antisym _ _ _ Ec)). simpl.
  destruct c; simpl in *; apply IH; exact H.
Qed.

Lemma last_default {A} (r : list A) : forall w d d', last (w :: r) d = last (w :: r) d'.
Proof.
  induction r as [|x r IH]; intros w d d'; [reflexivity|].
  change (last (w :: x :: r) d) with (last (x :: r) d).
  change (last (w :: x :: r) d') with (last (x :: r) d'). apply IH.
Qed.

Lemma last_cons {A} (v : A) r d : last (v :: r) d = last r v.
Proof.
  destruct r as [|w r]; [reflexivity|].
  change (last (v :: w :: r) d) with (last (w :: r) d). apply last_default.
Qed.

(* the accumulator-style operators *)
Lemma fold_agree k vs : In k ["$sum"; "$avg"; "$min"; "$max"] ->
  match sfold k vs with
  | SV v => group_fold k vs = Ok v
  | SUndef => True
  | _ => False
  end.
Proof.
  intros [<-|[<-|[<-|[<-|[]]]]].
  - change (sfold "$sum" vs) with (match ssum (List.filter is_num vs) with Some s => SV s | None => SUndef end).
    change (group_fold "$sum" vs) with (Ok (py_sum (List.filter is_numeric vs)) : res value).
    change (List.filter is_numeric vs) with (List.filter is_num vs).
    rewrite py_sum_ssum by apply forallb_filter. reflexivity.
  - change (sfold "$avg" vs) with (savg vs). change (group_fold "$avg" vs) with (avg_values vs).
    unfold savg, avg_values. change (List.filter is_numeric vs) with (List.filter is_num vs).
    destruct (List.filter is_num vs) as [|n ns] eqn:Ef; [reflexivity|].
    rewrite py_sum_ssum by (rewrite <- Ef; apply forallb_filter).
    destruct (num8 (py_sum (n :: ns))) as [s8|]; [|exact I].
    destruct (s8 mod Z.of_nat (List.length (n :: ns)) =?? 0); [reflexivity|exact I].
  - change (sfold "$min" vs) with
      (match List.filter (fun v => negb (is_null v)) vs with
       | [] => SV VNull
       | v :: r => match sextreme Lt v r with Some m => SV m | None => SUndef end
       end).
    change (group_fold "$min" vs) with
      (match List.filter (fun v => negb (is_null v)) vs with
       | [] => Ok VNull
       | v :: r => py_min_from v r
       end).
    destruct (List.filter (fun v => negb (is_null v)) vs) as [|v r]; [reflexivity|].
    destruct (sextreme Lt v r) as [m|] eqn:E; [apply min_agree; exact E|exact I].
  - change (sfold "$max" vs) with
      (match List.filter (fun v => negb (is_null v)) vs with
       | [] => SV VNull
       | v :: r => match sextreme Gt v r with Some m => SV m | None => SUndef end
       end).
    change (group_fold "$max" vs) with
      (match List.filter (fun v => negb (is_null v)) vs with
       | [] => Ok VNull
       | v :: r => py_max_from v r
       end).
    destruct (List.filter (fun v => negb (is_null v)) vs) as [|v r]; [reflexivity|].
    destruct (sextreme Gt v r) as [m|] eqn:E; [apply max_agree; exact E|exact I].
Qed.
