(* C07 proofs, part 1: identity sets, the flags, and what `restore` builds.
   - meets / pairwise_apart as propositions (disj, pw_disj);
   - own_get on a table whose keys are well-formed (Python-realisable: no dict with a
     repeated key) and pairwise different: two different keys never pick the same entry;
   - written_ids / result_ids when the copying flags are on;
   - restore: the new table has the keys of the new store, every identity in it is either
     freshly allocated (next <= x < returned allocator) or taken from the old entry of the
     same key, and the new table is pairwise apart. *)
From Coq Require Import ZArith List String Bool Lia.
From Verif Require Import Value PyEq Coll Heap.
From Verif Require C05Values C06Values C08Store.
Import ListNotations.
Open Scope Z_scope.
Open Scope list_scope.

(* ---------------------------------------------------------------- identity sets *)
Definition disj (a b : ids) : Prop := forall x, In x a -> In x b -> False.

Lemma disj_sym a b : disj a b -> disj b a.
Proof. intros H x Hb Ha. exact (H x Ha Hb). Qed.

Lemma meets_false a b : meets a b = false <-> disj a b.
Proof.
  unfold meets, disj. split.
  - intros H x Ha Hb.
    assert (E : existsb (fun x => existsb (Z.eqb x) b) a = true).
    { apply existsb_exists. exists x. split; [exact Ha|].
      apply existsb_exists. exists x. split; [exact Hb|apply Z.eqb_refl]. }
    rewrite H in E. discriminate E.
  - intros H. destruct (existsb (fun x => existsb (Z.eqb x) b) a) eqn:E; [|reflexivity].
    apply existsb_exists in E. destruct E as (x & Ha & E).
    apply existsb_exists in E. destruct E as (y & Hb & E).
    apply Z.eqb_eq in E. subst y. exfalso. exact (H x Ha Hb).
Qed.

Lemma meets_true a b : meets a b = true <-> exists x, In x a /\ In x b.
Proof.
  unfold meets. rewrite existsb_exists. split.
  - intros (x & Ha & E). apply existsb_exists in E. destruct E as (y & Hb & E).
    apply Z.eqb_eq in E. subst y. exists x. split; assumption.
  - intros (x & Ha & Hb). exists x. split; [exact Ha|].
    apply existsb_exists. exists x. split; [exact Hb|apply Z.eqb_refl].
Qed.

Fixpoint pw_disj (l : list ids) : Prop :=
  match l with
  | [] => True
  | s :: l' => Forall (disj s) l' /\ pw_disj l'
  end.

Lemma pairwise_apart_iff l : pairwise_apart l = true <-> pw_disj l.
Proof.
  induction l as [|s l IH]; simpl; [tauto|].
  rewrite andb_true_iff, forallb_forall, Forall_forall, IH.
  split; intros [H1 H2]; (split; [|exact H2]); intros t Ht; specialize (H1 t Ht).
  - apply negb_true_iff in H1. apply meets_false. exact H1.
  - apply negb_true_iff. apply meets_false. exact H1.
Qed.

(* ---------------------------------------------------------------- the flags *)
(* the flags that matter for sharing in this model (everything but f_update_doc, see
   Refuted/C07.v) *)
Definition copy_needed (fl : cpflags) : bool :=
  f_insert fl && f_update_operands fl && f_replace fl && f_read fl && f_proj_ops fl
  && f_proj_id fl && f_aggregate fl && f_lookup fl.

Record flags_on (fl : cpflags) : Prop := mkOn {
  on_insert : f_insert fl = true;
  on_update_operands : f_update_operands fl = true;
  on_replace : f_replace fl = true;
  on_read : f_read fl = true;
  on_proj_ops : f_proj_ops fl = true;
  on_proj_id : f_proj_id fl = true;
  on_aggregate : f_aggregate fl = true;
  on_lookup : f_lookup fl = true
}.

Lemma copy_needed_on fl : copy_needed fl = true -> flags_on fl.
Proof.
  unfold copy_needed. intros H.
  repeat (apply andb_true_iff in H; let H' := fresh "H" in destruct H as [H H']).
  constructor; assumption.
Qed.

Lemma all_copy_parts fl : all_copy fl = true -> copy_needed fl = true /\ f_update_doc fl = true.
Proof.
  unfold all_copy, copy_needed. intros H.
  repeat (apply andb_true_iff in H; let H' := fresh "H" in destruct H as [H H']).
  repeat match goal with E : _ = true |- _ => rewrite E; clear E end. split; reflexivity.
Qed.

Lemma all_copy_needed fl : all_copy fl = true -> copy_needed fl = true.
Proof. intros H. exact (proj1 (all_copy_parts fl H)). Qed.

(* what a rewritten document is made of *)
Lemma written_ids_in fl o fresh old args :
  flags_on fl ->
  forall x, In x (written_ids fl o fresh old args) ->
            x = fresh \/ exists s, old = Some s /\ In x s.
Proof.
  intros [Hi Hu Hr _ _ _ _ _] x. unfold written_ids. rewrite Hi, Hu, Hr.
  cbn [negb]. rewrite !andb_false_r. cbn [app].
  destruct ((is_update o || is_replace o) && negb (f_update_doc fl)).
  - destruct old as [s|].
    + intros [E|Hin]; [left; symmetry; exact E|right; exists s; split; [reflexivity|exact Hin]].
    + intros [E|[]]. left. symmetry. exact E.
  - intros [E|[]]. left. symmetry. exact E.
Qed.

(* with every flag on, a rewritten document is one fresh object *)
Lemma written_ids_all_copy fl o fresh old args :
  all_copy fl = true -> written_ids fl o fresh old args = [fresh].
Proof.
  intros H. destruct (all_copy_parts fl H) as [Hn Hd].
  destruct (copy_needed_on fl Hn) as [Hi Hu Hr _ _ _ _ _].
  unfold written_ids. rewrite Hi, Hu, Hr, Hd. cbn [negb]. rewrite !andb_false_r. reflexivity.
Qed.

Lemma result_ids_copy fl o fresh own : flags_on fl -> result_ids fl o fresh own = [fresh].
Proof.
  intros [_ _ _ Hr Hp Hq _ _]. unfold result_ids. rewrite Hr, Hp, Hq.
  cbn [negb andb]. rewrite !andb_false_r. reflexivity.
Qed.

(* ---------------------------------------------------------------- own_get *)
Lemma own_get_In k own s : own_get k own = Some s -> exists k', In (k', s) own.
Proof.
  induction own as [|[k' t] own IH]; simpl; [discriminate|].
  destruct (py_eq k' k).
  - intros E. inversion E; subst. exists k'. left. reflexivity.
  - intros E. destruct (IH E) as (k2 & Hin). exists k2. right. exact Hin.
Qed.

Definition keys_wf_own (own : list (value * ids)) : Prop :=
  Forall (fun ks => wf_value (fst ks) = true) own.

(* two keys that are not == never pick the same entry of a table whose keys are well-formed *)
Lemma own_get_disj : forall own k1 k2 s1 s2,
  keys_wf_own own -> pw_disj (map snd own) -> py_eq k1 k2 = false ->
  own_get k1 own = Some s1 -> own_get k2 own = Some s2 -> disj s1 s2.
Proof.
  induction own as [|[k' s] own IH]; intros k1 k2 s1 s2 Hwf Hpw Hne H1 H2; [discriminate H1|].
  simpl in H1, H2. inversion Hwf as [|? ? Hk Hwf']; subst. simpl in Hk.
  simpl in Hpw. destruct Hpw as [Hs Hpw'].
  destruct (py_eq k' k1) eqn:E1; destruct (py_eq k' k2) eqn:E2.
  - exfalso. destruct (C06Values.wf_py_sym k' k1 Hk E1) as [_ E1'].
    rewrite (C05Values.py_eq_trans k1 k' k2 E1' E2) in Hne. discriminate Hne.
  - inversion H1; subst. destruct (own_get_In _ _ _ H2) as (k3 & Hin).
    rewrite Forall_forall in Hs. apply Hs. apply in_map_iff. exists (k3, s2). split; [reflexivity|exact Hin].
  - inversion H2; subst. destruct (own_get_In _ _ _ H1) as (k3 & Hin).
    apply disj_sym. rewrite Forall_forall in Hs. apply Hs. apply in_map_iff.
    exists (k3, s1). split; [reflexivity|exact Hin].
  - exact (IH k1 k2 s1 s2 Hwf' Hpw' Hne H1 H2).
Qed.

(* ---------------------------------------------------------------- restore *)
Lemma restore_cons fl o od oo k d rest args next :
  restore fl o od oo ((k, d) :: rest) args next =
  match (if match store_get k od with Some d0 => value_eqb d0 d | None => false end
         then own_get k oo else None) with
  | Some s => let (r, n) := restore fl o od oo rest args next in ((k, s) :: r, n)
  | None => let (r, n) := restore fl o od oo rest args (next + 1) in
            ((k, written_ids fl o next (own_get k oo) args) :: r, n)
  end.
Proof. reflexivity. Qed.

(* where the identities of an entry of the new table come from *)
Definition from_old_or (lo hi : Z) (oo : list (value * ids)) (kt : value * ids) : Prop :=
  forall x, In x (snd kt) ->
            (lo <= x < hi) \/ exists s, own_get (fst kt) oo = Some s /\ In x s.

Lemma from_old_or_mono lo lo' hi oo kt : lo <= lo' -> from_old_or lo' hi oo kt -> from_old_or lo hi oo kt.
Proof. intros Hl H x Hx. destruct (H x Hx) as [Hr|Ho]; [left; lia|right; exact Ho]. Qed.

(* the table follows the new store, the allocator only advances, and every identity is fresh
   or inherited from the old entry of the same key *)
Lemma restore_spec fl o od oo args : flags_on fl ->
  forall nd next r n', restore fl o od oo nd args next = (r, n') ->
  next <= n' /\ map fst r = map fst nd /\ Forall (from_old_or next n' oo) r.
Proof.
  intros Hon. induction nd as [|[k d] rest IH]; intros next r n' H.
  - simpl in H. inversion H; subst. split; [lia|]. split; [reflexivity|constructor].
  - rewrite restore_cons in H.
    destruct (if match store_get k od with Some d0 => value_eqb d0 d | None => false end
              then own_get k oo else None) as [s|] eqn:Eg.
    + assert (Hs : own_get k oo = Some s).
      { destruct (match store_get k od with Some d0 => value_eqb d0 d | None => false end);
          [exact Eg|discriminate Eg]. }
      destruct (restore fl o od oo rest args next) as [r0 n0] eqn:Er. inversion H; subst.
      destruct (IH next r0 n' Er) as (Hle & Hk & Hf).
      split; [exact Hle|]. split; [simpl; rewrite Hk; reflexivity|].
      constructor; [|exact Hf].
      intros x Hx. right. exists s. split; [exact Hs|exact Hx].
    + destruct (restore fl o od oo rest args (next + 1)) as [r0 n0] eqn:Er. inversion H; subst.
      destruct (IH (next + 1) r0 n' Er) as (Hle & Hk & Hf).
      split; [lia|]. split; [simpl; rewrite Hk; reflexivity|].
      constructor.
      * intros x Hx. cbn [snd fst] in *.
        destruct (written_ids_in fl o next (own_get k oo) args Hon x Hx) as [E|(s & Hs & Hin)].
        -- left. lia.
        -- right. exists s. split; [exact Hs|exact Hin].
      * eapply Forall_impl; [|exact Hf]. intros kt Hkt.
        apply (from_old_or_mono next (next + 1)); [lia|exact Hkt].
Qed.

(* identities of the old table are below n0 *)
Definition below (n0 : Z) (oo : list (value * ids)) : Prop :=
  Forall (fun ks => Forall (fun x => 0 < x < n0) (snd ks)) oo.

Lemma below_get n0 oo k s x : below n0 oo -> own_get k oo = Some s -> In x s -> 0 < x < n0.
Proof.
  intros Hb Hg Hx. destruct (own_get_In _ _ _ Hg) as (k' & Hin).
  unfold below in Hb. rewrite Forall_forall in Hb. specialize (Hb _ Hin). simpl in Hb.
  rewrite Forall_forall in Hb. exact (Hb x Hx).
Qed.

(* the head entry against the entries built after it *)
Lemma head_disj oo n0 next next' n' k t r0 :
  keys_wf_own oo -> pw_disj (map snd oo) -> below n0 oo -> n0 <= next -> next <= next' ->
  (forall x, In x t -> (x = next /\ next < next') \/ exists s, own_get k oo = Some s /\ In x s) ->
  Forall (from_old_or next' n' oo) r0 ->
  (forall kt, In kt r0 -> py_eq k (fst kt) = false) ->
  Forall (disj t) (map snd r0).
Proof.
  intros Hwf Hpw Hb Hn0 Hnn Ht Hr Hne. apply Forall_forall. intros t2 Hin.
  apply in_map_iff in Hin. destruct Hin as ([k2 t2'] & E & Hin). simpl in E. subst t2'.
  rewrite Forall_forall in Hr. specialize (Hr _ Hin). specialize (Hne _ Hin). simpl in Hne.
  intros x Hx1 Hx2. specialize (Hr x Hx2). cbn [fst snd] in Hr.
  destruct (Ht x Hx1) as [[E Hlt]|(s & Hs & Hxs)]; destruct Hr as [Hrange|(s2 & Hs2 & Hxs2)].
  - lia.
  - pose proof (below_get n0 oo k2 s2 x Hb Hs2 Hxs2). lia.
  - pose proof (below_get n0 oo k s x Hb Hs Hxs). lia.
  - exact (own_get_disj oo k k2 s s2 Hwf Hpw Hne Hs Hs2 x Hxs Hxs2).
Qed.

Lemma nd_tail_keys k (rest : list (value * value)) (r0 : list (value * ids)) :
  Forall (fun kd => py_eq k (fst kd) = false) rest -> map fst r0 = map fst rest ->
  forall kt, In kt r0 -> py_eq k (fst kt) = false.
Proof.
  intros Hf Hk kt Hin. assert (Hin' : In (fst kt) (map fst rest)).
  { rewrite <- Hk. apply in_map. exact Hin. }
  apply in_map_iff in Hin'. destruct Hin' as (kd & E & Hkd).
  rewrite Forall_forall in Hf. rewrite <- E. exact (Hf _ Hkd).
Qed.

(* the key lemma: the new table is pairwise apart *)
Lemma restore_pw fl o od oo args n0 : flags_on fl ->
  keys_wf_own oo -> pw_disj (map snd oo) -> below n0 oo ->
  forall nd next r n', n0 <= next -> C08Store.store_nd nd ->
  restore fl o od oo nd args next = (r, n') -> pw_disj (map snd r).
Proof.
  intros Hon Hwf Hpw Hb. induction nd as [|[k d] rest IH]; intros next r n' Hn0 Hnd H.
  - simpl in H. inversion H; subst. exact I.
  - simpl in Hnd. destruct Hnd as [Hhead Hnd'].
    rewrite restore_cons in H.
    destruct (if match store_get k od with Some d0 => value_eqb d0 d | None => false end
              then own_get k oo else None) as [s|] eqn:Eg.
    + assert (Hs : own_get k oo = Some s).
      { destruct (match store_get k od with Some d0 => value_eqb d0 d | None => false end);
          [exact Eg|discriminate Eg]. }
      destruct (restore fl o od oo rest args next) as [r0 n1] eqn:Er. inversion H; subst.
      destruct (restore_spec fl o od oo args Hon rest next r0 n' Er) as (Hle & Hk & Hf).
      simpl. split; [|exact (IH next r0 n' Hn0 Hnd' Er)].
      apply (head_disj oo n0 next next n' k s r0 Hwf Hpw Hb Hn0); [lia| |exact Hf|].
      * intros x Hx. right. exists s. split; [exact Hs|exact Hx].
      * exact (nd_tail_keys k rest r0 Hhead Hk).
    + destruct (restore fl o od oo rest args (next + 1)) as [r0 n1] eqn:Er. inversion H; subst.
      destruct (restore_spec fl o od oo args Hon rest (next + 1) r0 n' Er) as (Hle & Hk & Hf).
      simpl. split; [|apply (IH (next + 1) r0 n'); [lia|exact Hnd'|exact Er]].
      apply (head_disj oo n0 next (next + 1) n' k _ r0 Hwf Hpw Hb Hn0); [lia| |exact Hf|].
      * intros x Hx.
        destruct (written_ids_in fl o next (own_get k oo) args Hon x Hx) as [E|(s & Hs & Hin)].
        -- left. split; [exact E|lia].
        -- right. exists s. split; [exact Hs|exact Hin].
      * exact (nd_tail_keys k rest r0 Hhead Hk).
Qed.

(* with every flag on: changed and new documents get exactly one fresh identity each,
   numbered consecutively from the allocator, the others keep their entry *)
Fixpoint restore_ref (od : list (value * value)) (oo : list (value * ids))
         (nd : list (value * value)) (next : Z) : list (value * ids) * Z :=
  match nd with
  | [] => ([], next)
  | (k, d) :: rest =>
      match (if match store_get k od with Some d0 => value_eqb d0 d | None => false end
             then own_get k oo else None) with
      | Some s => let (r, n) := restore_ref od oo rest next in ((k, s) :: r, n)
      | None => let (r, n) := restore_ref od oo rest (next + 1) in ((k, [next]) :: r, n)
      end
  end.

Lemma restore_all_copy fl o od oo args : all_copy fl = true ->
  forall nd next, restore fl o od oo nd args next = restore_ref od oo nd next.
Proof.
  intros Hall. induction nd as [|[k d] rest IH]; intros next; [reflexivity|].
  rewrite restore_cons. cbn [restore_ref].
  destruct (if match store_get k od with Some d0 => value_eqb d0 d | None => false end
            then own_get k oo else None) as [s|].
  - rewrite IH. reflexivity.
  - rewrite IH, (written_ids_all_copy fl o next _ args Hall). reflexivity.
Qed.
