(* C04 proofs, part 5: the binders $let, $map, $filter. *)
From Coq Require Import ZArith List String Bool Ascii Lia.
From Verif Require Import Value PyEq BsonOrder Path Update Filter FilterSpec Cursor Expr ExprSpec ExprGuard.
From Verif Require Import C01Values C04Base C04Paths C04Order C04Slice C04Ops C04Lists.
Import ListNotations.
Open Scope Z_scope.
Open Scope string_scope.
Open Scope list_scope.

Lemma find_first {T} key (d : T) (g : value -> T) lf :
  (fix find (l : list (string * value)) : T :=
     match l with
     | [] => d
     | (bk, bv) :: l' => if bk =? key then g bv else find l'
     end) lf = match assoc key lf with Some bv => g bv | None => d end.
Proof.
  induction lf as [|[bk bv] lf IH]; [reflexivity|].
  simpl. rewrite (String.eqb_sym key bk). destruct (bk =? key); [reflexivity|exact IH].
Qed.

Lemma has_key_assoc {A} k (l : list (string * A)) :
  has_key k l = match assoc k l with Some _ => true | None => false end.
Proof.
  induction l as [|[k' v] l IH]; [reflexivity|]. simpl. destruct (k =? k'); [reflexivity|exact IH].
Qed.

(* ------------------------------------------------------------ $let *)
Definition m_bind (vars : list (string * value)) (body : list (string * value) -> eres) :=
  fix bind_vars (l : list (string * (list (string * value) -> eres)))
                (acc : list (string * value)) : eres :=
    match l with
    | [] => body (vars ++ acc)
    | (vk, ve) :: l' =>
        match ve vars with
        | EV v => bind_vars l' (acc ++ [(vk, v)])
        | EMiss => EMiss
        | EE er => EE er
        end
    end.

Definition g_tbl vars doc (vfs : list (string * value)) : list (string * (eres * Z)) :=
  map (fun kv : string * value =>
         match kv with (ck, cv) => (ck, (eval vars doc true cv, reasons vars doc cv)) end) vfs.
Definition g_bound (tbl : list (string * (eres * Z))) : list (string * value) :=
  flat_map (fun kr : string * (eres * Z) =>
              match fst (snd kr) with EV v => [(fst kr, v)] | _ => [] end) tbl.

Lemma bind_spec vars doc body vfs : forall acc,
  (forall ck cv, In (ck, cv) vfs ->
     R (seval (lift vars) doc cv) (eval vars doc true cv) /\ eval vars doc true cv <> EMiss) ->
  existsb (fun kr : string * sres => is_sundef (snd kr) || is_serr (snd kr))
          (map (fun kv : string * value => match kv with (ck, cv) => (ck, seval (lift vars) doc cv) end) vfs) = true \/
  m_bind vars body
    (map (fun kv : string * value => match kv with (ck, cv) => (ck, fun vs : list (string * value) => eval vs doc true cv) end) vfs) acc
    = EE EUnmodelled \/
  exists bnd,
    map (fun kv : string * value => match kv with (ck, cv) => (ck, seval (lift vars) doc cv) end) vfs = lift bnd /\
    m_bind vars body
      (map (fun kv : string * value => match kv with (ck, cv) => (ck, fun vs : list (string * value) => eval vs doc true cv) end) vfs) acc
      = body (vars ++ acc ++ bnd) /\
    g_bound (g_tbl vars doc vfs) = bnd.
Proof.
  induction vfs as [|[ck cv] vfs IH]; intros acc Hall.
  - right. right. exists []. simpl. rewrite app_nil_r. repeat split; reflexivity.
  - destruct (Hall ck cv (or_introl eq_refl)) as [Hr Hnm].
    assert (Hall' : forall ck0 cv0, In (ck0, cv0) vfs ->
              R (seval (lift vars) doc cv0) (eval vars doc true cv0) /\ eval vars doc true cv0 <> EMiss)
      by (intros ck0 cv0 Hin; apply (Hall ck0 cv0); right; exact Hin).
    change (m_bind vars body
              (map (fun kv : string * value => match kv with (ck, cv) => (ck, fun vs : list (string * value) => eval vs doc true cv) end) ((ck, cv) :: vfs)) acc)
      with (match eval vars doc true cv with
            | EV v => m_bind vars body
                        (map (fun kv : string * value => match kv with (ck, cv) => (ck, fun vs : list (string * value) => eval vs doc true cv) end) vfs)
                        (acc ++ [(ck, v)])
            | EMiss => EMiss
            | EE er => EE er
            end).
    cbn [map existsb snd g_tbl g_bound flat_map fst].
    destruct (R_Rc _ _ Hr) as [Hm|v Hs Hm|Hs Hm|er Hs Hm|Hs].
    + right. left. rewrite Hm. reflexivity.
    + rewrite Hs, Hm. simpl.
      destruct (IH (acc ++ [(ck, v)]) Hall') as [H|[H|[bnd [H1 [H2 H3]]]]].
      * left. exact H.
      * right. left. exact H.
      * right. right. exists ((ck, v) :: bnd). repeat split.
        -- rewrite H1. reflexivity.
        -- rewrite H2. rewrite <- app_assoc. reflexivity.
        -- unfold g_bound, g_tbl in H3. rewrite H3. reflexivity.
    + contradiction.
    + left. rewrite Hs. reflexivity.
    + left. rewrite Hs. reflexivity.
Qed.

Lemma case_let doc arg : IHarg doc arg -> P doc (VDoc [("$let", arg)]).
Proof.
  intros IH vars Hg.
  destruct arg as [| | | | | | |lf|xs]; try (simpl; done_R).
  simpl in Hg. simpl. rewrite !find_first in *.
  rewrite (assoc_map_snd (fun cv => fun vs : list (string * value) => eval vs doc true cv)).
  destruct (assoc "vars" lf) as [vv|] eqn:Ev; [|done_R].
  destruct vv as [| | | | | | |vfs|]; try done_R.
  destruct (assoc "in" lf) as [bv|] eqn:Eb; simpl; [|done_R].
  fold (g_tbl vars doc vfs) in Hg. fold (g_bound (g_tbl vars doc vfs)) in Hg.
  apply lor0 in Hg. destruct Hg as [Hg1 Hg]. apply lor0 in Hg. destruct Hg as [Hg2 Hg3].
  apply if0 in Hg2; [|discriminate].
  assert (Hsz : (vsize (VDoc vfs) < vsize (VDoc lf))%nat) by (eapply vsize_assoc; exact Ev).
  assert (Hall : forall ck cv, In (ck, cv) vfs ->
            R (seval (lift vars) doc cv) (eval vars doc true cv) /\ eval vars doc true cv <> EMiss).
  { intros ck cv Hin. split.
    - apply IH.
      + pose proof (vsize_doc_in _ _ _ Hin). lia.
      + unfold g_tbl in Hg1. rewrite map_map in Hg1.
        exact (zor_list_map0 _ _ Hg1 (ck, cv) Hin).
    - intros Hm. unfold g_tbl in Hg2. rewrite existsb_map in Hg2.
      pose proof (existsb_false_In _ _ Hg2 (ck, cv) Hin) as Hx. simpl in Hx. rewrite Hm in Hx. discriminate. }
  change ((fix bind_vars (l : list (string * (list (string * value) -> eres))) (acc : list (string * value)) {struct l} : eres :=
             match l with
             | [] => eval (vars ++ acc) doc true bv
             | (vk, ve) :: l' =>
                 match ve vars with
                 | EV v => bind_vars l' (acc ++ [(vk, v)])
                 | EMiss => EMiss
                 | EE er => EE er
                 end
             end)
            (map (fun kv : string * value => let (ck, cv) := kv in (ck, fun vs : list (string * value) => eval vs doc true cv)) vfs) [])
    with (m_bind vars (fun vs => eval vs doc true bv)
            (map (fun kv : string * value => match kv with (ck, cv) => (ck, fun vs : list (string * value) => eval vs doc true cv) end) vfs) []).
  destruct (bind_spec vars doc (fun vs => eval vs doc true bv) vfs [] Hall) as [H|[H|[bnd [H1 [H2 H3]]]]].
  - rewrite H. done_R.
  - rewrite H. done_R.
  - rewrite H1, H2. rewrite H3 in Hg3.
    destruct (existsb (fun kr : string * sres => is_sundef (snd kr) || is_serr (snd kr)) (lift bnd)); [done_R|].
    rewrite <- lift_app. simpl. apply IH; [|exact Hg3].
    pose proof (vsize_assoc _ _ _ Eb). lia.
Qed.



Lemma mi_no_miss ms : existsb (fun m => match m with EMiss => true | _ => false end) ms = false ->
  map mi ms = ms.
Proof.
  induction ms as [|m ms IH]; simpl; intros H; [reflexivity|].
  apply orb_false_iff in H. destruct H as [H1 H2]. rewrite (IH H2).
  destruct m; try discriminate; reflexivity.
Qed.

Definition as_name (mf : list (string * value)) : option string :=
  match assoc "as" mf with None => Some "this" | Some (VStr n) => Some n | Some _ => None end.

Lemma as_name_guard mf n : as_name mf = Some n ->
  match assoc "as" mf with Some (VStr n0) => n0 | _ => "this" end = n.
Proof.
  unfold as_name. destruct (assoc "as" mf) as [[| | | |s| | | |]|]; intros H; inversion H; reflexivity.
Qed.

Lemma case_map doc arg : IHarg doc arg -> P doc (VDoc [("$map", arg)]).
Proof.
  intros IH vars Hg.
  destruct arg as [| | | | | | |mf|xs]; try (simpl; done_R).
  simpl in Hg. simpl. rewrite !find_first in *.
  rewrite !(assoc_map_snd (fun cv => fun vs : list (string * value) => eval vs doc true cv)).
  rewrite !has_key_assoc.
  fold (as_name mf).
  destruct (forallb (fun kv : string * value => (fst kv =? "input") || (fst kv =? "as") || (fst kv =? "in")) mf) eqn:Ek;
    simpl.
  2:{ destruct (assoc "input" mf), (assoc "in" mf); simpl; done_R. }
  destruct (assoc "input" mf) as [ie|] eqn:Ei; simpl; [|done_R].
  destruct (assoc "in" mf) as [be|] eqn:Eb; simpl; [|done_R].
  destruct (as_name mf) as [n|] eqn:En.
  2:{ destruct (eval vars doc true ie) as [[]| |]; done_R. }
  rewrite (as_name_guard _ _ En) in Hg.
  apply lor0 in Hg. destruct Hg as [Hg1 Hg]. apply lor0 in Hg. destruct Hg as [_ Hg3].
  pose proof (IH ie (Nat.lt_le_incl _ _ (vsize_assoc _ _ _ Ei)) vars Hg1) as Hi.
  assert (Hbody : forall vars', reasons vars' doc be = 0 ->
             R (seval (lift vars') doc be) (eval vars' doc true be))
    by (intros vars'; apply IH; apply Nat.lt_le_incl; eapply vsize_assoc; exact Eb).
  clear IH.
  remember (seval (lift vars) doc ie) as si eqn:Esi. remember (eval vars doc true ie) as mi0 eqn:Emi.
  clear Esi Emi.
  rc Hi; simpl; try done_R.
  destruct v; simpl; try done_R.
  (* an array of items *)
  rename xs into items.
  assert (Hitems : forall item, In item items ->
            reasons (vars ++ [(n, item)]) doc be = 0 /\ eval (vars ++ [(n, item)]) doc true be <> EMiss).
  { intros item Hin. pose proof (zor_list_map0 _ _ Hg3 item Hin) as Hz. simpl in Hz.
    apply lor0 in Hz. destruct Hz as [Hz1 Hz2]. split; [exact Hz1|].
    apply if0 in Hz2; [|discriminate]. intros Hmx. rewrite Hmx in Hz2. discriminate. }
  assert (HF : Forall2 R (map (fun item => seval (lift vars ++ [(n, SV item)]) doc be) items)
                         (map (fun item => eval (vars ++ [(n, item)]) doc true be) items)).
  { apply Forall2_map_in. intros item Hin. rewrite <- (lift_one n item), <- lift_app.
    apply Hbody. apply (Hitems item Hin). }
  assert (Hnm : map mi (map (fun item => eval (vars ++ [(n, item)]) doc true be) items)
                = map (fun item => eval (vars ++ [(n, item)]) doc true be) items).
  { apply mi_no_miss. rewrite existsb_map. apply existsb_all_false. intros item Hin.
    destruct (Hitems item Hin) as [_ Hne]. destruct (eval (vars ++ [(n, item)]) doc true be); try reflexivity.
    contradiction. }
  rewrite <- Hnm, with_list_mi. unfold with_all.
  destruct (list_cases _ _ HF) as [Hu|Hu|er Hu He Hc|vs Hu He Hv Hc].
  - rewrite Hu. done_R.
  - rewrite Hu. done_R.
  - rewrite Hu, He, Hc. done_R.
  - rewrite Hu, He, Hc, Hv, svalues_SV. done_R.
Qed.

Lemma mapM_res_map {A B C} (f : A -> B) (g : B -> res C) l :
  mapM_res g (map f l) = mapM_res (fun x => g (f x)) l.
Proof. induction l as [|x l IH]; simpl; [reflexivity|rewrite IH; reflexivity]. Qed.

Lemma filter_truths ss ms : Forall2 R ss ms -> forall ts, truths ss = Some ts ->
  mapM_res to_bool ms = Err EUnmodelled \/ mapM_res to_bool ms = Ok ts.
Proof.
  induction 1 as [|s m ss ms Hsm _ IH]; intros ts Ht; simpl in Ht.
  - inversion Ht. right. reflexivity.
  - destruct (mtruth s) as [b|] eqn:Eb; [|discriminate].
    destruct (truths ss) as [ts'|] eqn:Ets; [|discriminate]. inversion Ht; subst ts.
    destruct (R_truth _ _ _ Hsm Eb) as [Hm|Hm].
    + left. subst m. reflexivity.
    + simpl. rewrite Hm. simpl. destruct (IH ts' eq_refl) as [H|H]; rewrite H; [left|right]; reflexivity.
Qed.

Lemma case_filter doc arg : IHarg doc arg -> P doc (VDoc [("$filter", arg)]).
Proof.
  intros IH vars Hg.
  destruct arg as [| | | | | | |mf|xs]; try (simpl; done_R).
  simpl in Hg. simpl. rewrite !find_first in *.
  rewrite !(assoc_map_snd (fun cv => fun vs : list (string * value) => eval vs doc true cv)).
  fold (as_name mf).
  destruct (forallb (fun kv : string * value => (fst kv =? "input") || (fst kv =? "as") || (fst kv =? "cond")) mf) eqn:Ek;
    simpl; [|done_R].
  destruct (assoc "input" mf) as [ie|] eqn:Ei; simpl; [|done_R].
  destruct (assoc "cond" mf) as [be|] eqn:Eb; simpl; [|done_R].
  destruct (as_name mf) as [n|] eqn:En.
  2:{ destruct (eval vars doc true ie) as [[]| |]; done_R. }
  rewrite (as_name_guard _ _ En) in Hg.
  apply lor0 in Hg. destruct Hg as [Hg1 Hg]. apply lor0 in Hg. destruct Hg as [Hg2 Hg3].
  apply if0 in Hg2; [|discriminate].
  pose proof (IH ie (Nat.lt_le_incl _ _ (vsize_assoc _ _ _ Ei)) vars Hg1) as Hi.
  assert (Hbody : forall vars', reasons vars' doc be = 0 ->
             R (seval (lift vars') doc be) (eval vars' doc true be))
    by (intros vars'; apply IH; apply Nat.lt_le_incl; eapply vsize_assoc; exact Eb).
  clear IH.
  remember (seval (lift vars) doc ie) as si eqn:Esi. remember (eval vars doc true ie) as mi0 eqn:Emi.
  clear Esi Emi.
  rc Hi; simpl; try done_R; try discriminate Hg2.
  destruct v; simpl; try done_R; try discriminate Hg2.
  rename xs into items.
  simpl in Hg3.
  assert (HF : Forall2 R (map (fun item => seval (lift vars ++ [(n, SV item)]) doc be) items)
                         (map (fun item => eval (vars ++ [(n, item)]) doc true be) items)).
  { apply Forall2_map_in. intros item Hin. rewrite <- (lift_one n item), <- lift_app.
    apply Hbody. pose proof (zor_list_map0 _ _ Hg3 item Hin) as Hz. simpl in Hz.
    apply lor0 in Hz. exact (proj1 Hz). }
  change (fix truths (l : list sres) : option (list bool) :=
         match l with
         | [] => Some []
         | r :: l' =>
             match mtruth r with
             | Some t =>
                 match truths l' with
                 | Some ts => Some (t :: ts)
                 | None => None
                 end
             | None => None
             end
         end) with truths.
  destruct (truths (map (fun item : value => seval (lift vars ++ [(n, SV item)]) doc be) items)) as [ts|] eqn:Et;
    [|done_R].
  rewrite <- (mapM_res_map (fun item => eval (vars ++ [(n, item)]) doc true be) to_bool).
  destruct (filter_truths _ _ HF ts Et) as [H|H]; rewrite H; done_R.
Qed.
