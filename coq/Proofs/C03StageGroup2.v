(* C03 part B -- $group with a key expression whose values are scalars (null, numbers, strings,
   naive dates): the groups through Proofs/C03GroupSort.v (the library's sorted runs are the
   specification's classes, in another order), the fields of each group through
   Proofs/C03StageGroup.v; the answers compared as bags. *)
From Coq Require Import ZArith List String Bool Ascii Lia Permutation Sorted.
From Verif Require Import Value PyEq BsonOrder Path Update Filter FilterSpec FilterGuard Coll Cursor
     Expr ExprSpec ExprGuard Pipeline PipelineSpec PipelineGuard.
From Verif Require Import C01Values C12Base C04Base C04Order C11Sort C11Keys.
From Verif Require Import C03Base C03Laws C03Group C03Stages C03StageExpr C03StageProject C03StageProject2
     C03StageGroup C03GroupSort C03Pipeline.
Import ListNotations.
Open Scope Z_scope.
Open Scope string_scope.
Open Scope list_scope.

(* ------------------------------------------------------------ bags *)
Lemma remove_first_perm (p : value -> bool) : forall ys y rest,
  p y = true -> (forall z, In z rest -> p z = false) -> Permutation (y :: rest) ys ->
  exists ys2, remove_first p ys = Some ys2 /\ Permutation rest ys2.
Proof.
  induction ys as [|z ys IH]; intros y rest Hy Hrest Hp.
  - apply Permutation_sym, Permutation_nil in Hp. discriminate.
  - cbn [remove_first]. destruct (p z) eqn:Hz.
    + assert (Hzy : z = y).
      { assert (Hin : In z (y :: rest)) by (eapply Permutation_in; [apply Permutation_sym; exact Hp|left; reflexivity]).
        destruct Hin as [<-|Hin]; [reflexivity|]. rewrite (Hrest z Hin) in Hz. discriminate. }
      subst z. exists ys. split; [reflexivity|]. eapply Permutation_cons_inv. exact Hp.
    + assert (Hin : In z rest).
      { assert (Hin : In z (y :: rest)) by (eapply Permutation_in; [apply Permutation_sym; exact Hp|left; reflexivity]).
        destruct Hin as [<-|Hin]; [rewrite Hy in Hz; discriminate|exact Hin]. }
      apply in_split in Hin. destruct Hin as (r1 & r2 & ->).
      assert (Hp' : Permutation (y :: r1 ++ r2) ys).
      { apply (Permutation_cons_inv (a := z)).
        eapply perm_trans; [|exact Hp]. eapply perm_trans; [apply perm_swap|]. apply perm_skip.
        apply Permutation_middle. }
      destruct (IH y (r1 ++ r2) Hy) as (ys2 & H1 & H2); [|exact Hp'|].
      { intros w Hw. apply Hrest. apply in_app_or in Hw. apply in_or_app. destruct Hw; [left|right; right]; assumption. }
      rewrite H1. cbn [option_map]. exists (z :: ys2). split; [reflexivity|].
      eapply perm_trans; [apply Permutation_sym, Permutation_middle|]. apply perm_skip. exact H2.
Qed.

(* xs and ys pair up, and no x pairs with a later y *)
Inductive matching (E : value -> value -> bool) : list value -> list value -> Prop :=
| M_nil : matching E [] []
| M_cons x y xs ys : E x y = true -> (forall z, In z ys -> E x z = false) -> matching E xs ys ->
                     matching E (x :: xs) (y :: ys).

Lemma bag_equiv_matching sets xs : forall ys' ys,
  matching (doc_equiv sets) xs ys' -> Permutation ys' ys -> bag_equiv sets xs ys = true.
Proof.
  induction xs as [|x xs IH]; intros ys' ys HM Hp.
  - inversion HM; subst. apply Permutation_nil in Hp. subst. reflexivity.
  - inversion HM as [|? y ? ys0 Hxy Hno HM']; subst. cbn [bag_equiv].
    destruct (remove_first_perm (doc_equiv sets x) ys y ys0 Hxy Hno Hp) as (ys2 & H1 & H2).
    rewrite H1. exact (IH ys0 ys2 HM' H2).
Qed.

Lemma list_eqb_matching sets xs ys : matching (doc_equiv sets) xs ys -> list_eqb (doc_equiv sets) xs ys = true.
Proof. induction 1 as [|x y xs ys Hxy _ _ IH]; [reflexivity|]. cbn [list_eqb]. rewrite Hxy. exact IH. Qed.

(* ------------------------------------------------------------ the keys *)
Lemma keyed_agree ide l keys :
  (forall d, In d l -> c04_reasons ide d = 0) ->
  all_opt (map (fun d => key_of (seval [] d ide)) l) = Some keys ->
  mapM (key_fn ide) l = Err EUnmodelled \/ mapM (key_fn ide) l = Ok (combine keys l).
Proof.
  revert keys. induction l as [|d l IH]; intros keys Hg Hs; cbn [map all_opt] in Hs.
  - inversion Hs. right. reflexivity.
  - destruct (key_of (seval [] d ide)) as [k|] eqn:Hk; [|discriminate].
    destruct (all_opt (map (fun d => key_of (seval [] d ide)) l)) as [ks|] eqn:Hks; [|discriminate].
    inversion Hs; subst keys. cbn [mapM combine]. unfold key_fn at 1 3.
    destruct (R_Rc _ _ (expr_R d ide (Hg d (or_introl eq_refl)))) as [Hm|v Hsv Hm|Hsv Hm|er Hsv Hm|Hsv];
      try rewrite Hm; try (rewrite Hsv in Hk; cbn [key_of] in Hk; try discriminate).
    + left. reflexivity.
    + inversion Hk; subst k. cbn [bind].
      destruct (IH ks (fun x Hx => Hg x (or_intror Hx)) eq_refl) as [H|H]; rewrite H; [left|right]; reflexivity.
    + inversion Hk; subst k. cbn [bind].
      destruct (IH ks (fun x Hx => Hg x (or_intror Hx)) eq_refl) as [H|H]; rewrite H; [left|right]; reflexivity.
Qed.

Lemma keyed_model ide l keyed :
  mapM (key_fn ide) l = Ok keyed ->
  map snd keyed = l /\ forall p, In p keyed -> key_of_model ide (snd p) = Some (fst p).
Proof.
  revert keyed. induction l as [|d l IH]; intros keyed H; cbn [mapM] in H.
  - inversion H. split; [reflexivity|intros p []].
  - destruct (key_fn ide d) as [p0|e] eqn:Hk; cbn [bind] in H; [|discriminate].
    destruct (mapM (key_fn ide) l) as [r|e]; cbn [bind] in H; [|discriminate]. inversion H; subst keyed.
    destruct (IH r eq_refl) as [H1 H2].
    assert (Hp0 : snd p0 = d /\ key_of_model ide d = Some (fst p0)).
    { unfold key_fn in Hk. unfold key_of_model. destruct (eval [] d true ide); inversion Hk; split; reflexivity. }
    split; [cbn [map]; rewrite H1, (proj1 Hp0); reflexivity|].
    intros p [<-|Hp]; [rewrite (proj1 Hp0); exact (proj2 Hp0)|exact (H2 p Hp)].
Qed.

(* ------------------------------------------------------------ the documents of the groups *)
(* the library puts _id last *)
Definition conv (y : value) : value :=
  match y with VDoc (kv :: M) => VDoc (M ++ [kv]) | other => other end.

Definition sdoc (accs : list (string * value)) (g : value * list value) : value :=
  match ggo true (snd g) accs [("_id", fst g)] with Some y => y | None => VNull end.

Lemma all_opt_default {A B} (f : A -> option B) (dflt : B) l outs :
  all_opt (map f l) = Some outs -> outs = map (fun x => match f x with Some y => y | None => dflt end) l.
Proof.
  revert outs. induction l as [|a l IH]; intros outs H; cbn [map all_opt] in H.
  - inversion H. reflexivity.
  - destruct (f a) as [y|] eqn:Ha; [|discriminate].
    destruct (all_opt (map f l)) as [r|] eqn:Hr; [|discriminate]. inversion H; subst.
    cbn [map]. rewrite Ha. f_equal. apply IH. reflexivity.
Qed.

Definition group_guard (l : list value) (accs : list (string * value)) : Prop :=
  forall f op e, In (f, VDoc [(op, e)]) accs -> acc_guard l op e.

Lemma acc_guard_sub l l' op e : (forall d, In d l' -> In d l) -> acc_guard l op e -> acc_guard l' op e.
Proof.
  intros Hsub (G1 & G2 & G3). split; [|split].
  - intros d Hd. apply G1. apply Hsub. exact Hd.
  - intros Hop d x Hd. apply (G2 Hop d x). apply Hsub. exact Hd.
  - intros Hop d Hd. apply (G3 Hop d). apply Hsub. exact Hd.
Qed.

Lemma group_out_agree fs accs l g y :
  nodup_str (map fst fs) = true -> accs = List.filter not_id fs ->
  group_guard l accs -> (forall d, In d (snd g) -> In d l) ->
  ggo true (snd g) accs [("_id", fst g)] = Some y ->
  group_out fs g = Err EUnmodelled \/
  (group_out fs g = Ok (conv y) /\
   exists M, y = VDoc (("_id", fst g) :: M) /\ sets_arrays (sets_of accs) M /\ ~ In "_id" (map fst M)).
Proof.
  intros Hn Haccs Hg Hsub Hy. unfold group_out. rewrite accumulate_group_skip_id, <- Haccs.
  assert (Hnd : NoDup (map fst accs)).
  { rewrite Haccs. apply nodup_NoDup. apply nodup_filter_keys. exact Hn. }
  assert (Hnoid : ~ In "_id" (map fst accs)).
  { rewrite Haccs. intros Hin. apply in_map_iff in Hin. destruct Hin as ([k v] & Hk & Hin).
    apply filter_In in Hin. destruct Hin as [_ Hp]. unfold not_id in Hp. cbn [fst] in *. subst k. discriminate. }
  destruct (group_fields_agree (snd g) (sets_of accs) accs (fst g) [] y) as [Hm|(M' & Hm & -> & Hsa & Hkeys)].
  - exact Hnd.
  - exact Hnoid.
  - intros f op e Hin. apply (acc_guard_sub l); [exact Hsub|]. exact (Hg f op e Hin).
  - intros f op e Hin Hmem. exact (sets_of_mem accs f op e Hnd Hin Hmem).
  - intros kv [].
  - exact Hy.
  - rewrite Hm. left. reflexivity.
  - rewrite Hm. cbn [bind]. right. cbn [conv]. split.
    + rewrite (set_key_absent "_id" (fst g) M'); [reflexivity|]. rewrite Hkeys. exact Hnoid.
    + exists M'. split; [reflexivity|]. split; [exact Hsa|]. rewrite Hkeys. exact Hnoid.
Qed.

(* the shape of the specification's document for one group *)
Lemma ggo_shape grp sets accs (key : value) : forall M y,
  (forall f op e, In (f, VDoc [(op, e)]) accs -> mem_str f sets = true -> op = "$addToSet") ->
  sets_arrays sets M ->
  ggo true grp accs (("_id", key) :: M) = Some y ->
  exists M', y = VDoc (("_id", key) :: M') /\ sets_arrays sets M' /\ map fst M' = map fst M ++ map fst accs.
Proof.
  induction accs as [|[f spec] accs IH]; intros M y Hsets HM Hy.
  - cbn [ggo] in Hy. inversion Hy. exists M. split; [reflexivity|]. split; [exact HM|]. cbn [map]. rewrite app_nil_r. reflexivity.
  - cbn [ggo] in Hy. destruct spec as [| | | | | | |ops|]; try discriminate.
    destruct ops as [|[op e] [|oe2 tl]]; try discriminate.
    destruct (spec_accumulate op e true grp) as [v|] eqn:Hv; [|discriminate].
    destruct (IH (M ++ [(f, v)]) y) as (M' & H1 & H2 & H3).
    + intros f' op' e' Hin. apply (Hsets f' op' e'). right. exact Hin.
    + intros kv Hin Hmem. apply in_app_or in Hin. destruct Hin as [Hin|[<-|[]]]; [exact (HM kv Hin Hmem)|].
      cbn [fst snd] in *. pose proof (Hsets f op e (or_introl eq_refl) Hmem) as ->.
      exact (spec_accumulate_addtoset _ _ _ _ Hv).
    + exact Hy.
    + exists M'. split; [exact H1|]. split; [exact H2|]. rewrite H3, map_app. cbn [map fst]. rewrite <- app_assoc. reflexivity.
Qed.

(* ------------------------------------------------------------ comparing the documents *)
Lemma wf_fields_in' k v fs :
  (fix go (fs : list (string * value)) : bool :=
     match fs with [] => true | (_, v) :: fs' => wf_value v && go fs' end) fs = true ->
  In (k, v) fs -> wf_value v = true.
Proof.
  induction fs as [|[k' v'] fs IH]; intros H Hin; [destruct Hin|].
  apply andb_true_iff in H. destruct H as [Hv H]. destruct Hin as [Heq|Hin].
  - inversion Heq; subst. exact Hv.
  - apply IH; assumption.
Qed.

Lemma wf_arr_in x xs :
  (fix go (xs : list value) : bool := match xs with [] => true | x :: xs' => wf_value x && go xs' end) xs = true ->
  In x xs -> wf_value x = true.
Proof.
  induction xs as [|y xs IH]; intros H Hin; [destruct Hin|].
  apply andb_true_iff in H. destruct H as [Hy H]. destruct Hin as [<-|Hin]; [exact Hy|apply IH; assumption].
Qed.

Lemma set_equ_refl xs : (forall x, In x xs -> uequiv x x = true) -> set_equ xs xs = true.
Proof.
  intros H. unfold set_equ. rewrite Nat.eqb_refl, andb_true_r. apply andb_true_iff. split.
  - apply forallb_forall. intros x Hx. apply existsb_exists. exists x. split; [exact Hx|exact (H x Hx)].
  - apply forallb_forall. intros x Hx. apply existsb_exists. exists x. split; [exact Hx|exact (H x Hx)].
Qed.

Lemma tperm_doc_equiv_sets sets a b :
  tperm a b -> wf_value b = true -> (forall fs, a = VDoc fs -> sets_arrays sets fs) ->
  doc_equiv sets a b = true.
Proof.
  intros (fs & gs & -> & -> & Hp) Hwf Hsa. specialize (Hsa fs eq_refl). cbn [doc_equiv].
  rewrite (Permutation_length Hp), Nat.eqb_refl. cbn [andb].
  cbn [wf_value] in Hwf. apply andb_true_iff in Hwf. destruct Hwf as [Hn Hv].
  apply nodup_str_NoDup in Hn.
  apply forallb_forall. intros [k v] Hin. cbn [fst snd].
  assert (Hin' : In (k, v) gs) by (eapply Permutation_in; eassumption).
  rewrite (assoc_nodup_in gs k v Hn Hin').
  pose proof (wf_fields_in' k v gs Hv Hin') as Hwv.
  destruct (mem_str k sets) eqn:Hm; [|apply uequiv_refl; exact Hwv].
  pose proof (Hsa (k, v) Hin Hm) as Harr. cbn [snd] in Harr. destruct v; try discriminate.
  apply set_equ_refl. intros x Hx. apply uequiv_refl. cbn [wf_value] in Hwv. exact (wf_arr_in x xs Hwv Hx).
Qed.

Lemma uequiv_scalar k k' : scalar_key k = true -> uequiv k k' = bson_eq k k'.
Proof. destruct k as [| | | | |us tz| | |]; try discriminate; reflexivity. Qed.

Lemma assoc_app_last (M : list (string * value)) k v : ~ In k (map fst M) -> assoc k (M ++ [(k, v)]) = Some v.
Proof.
  induction M as [|[k' v'] M IH]; intros H; cbn [app assoc].
  - rewrite String.eqb_refl. reflexivity.
  - destruct (String.eqb_spec k k') as [->|_]; [exfalso; apply H; left; reflexivity|].
    apply IH. intros Hin. apply H. right. exact Hin.
Qed.

Lemma doc_equiv_other_key sets (k k' : value) M M' :
  mem_str "_id" sets = false -> ~ In "_id" (map fst M') -> uequiv k k' = false ->
  doc_equiv sets (VDoc (("_id", k) :: M)) (VDoc (M' ++ [("_id", k')])) = false.
Proof.
  intros Hs Hni Hu. cbn [doc_equiv forallb fst snd]. rewrite (assoc_app_last M' "_id" k' Hni), Hs, Hu.
  cbn [andb]. apply andb_false_r.
Qed.

Lemma perm_small {A} (a b : list A) : Permutation a b -> (List.length a < 2)%nat -> a = b.
Proof.
  intros Hp Hl. destruct a as [|x [|y r]].
  - apply Permutation_nil in Hp. subst. reflexivity.
  - apply Permutation_length_1_inv in Hp. subst. reflexivity.
  - simpl in Hl. lia.
Qed.

(* ------------------------------------------------------------ the stage *)
Definition scalar_keys (ide : value) (l : list value) : Prop :=
  Forall (fun d => match key_of_model ide d with Some k => scalar_key k = true | None => True end) l.

Definition group_covered (o : value) : bool :=
  match o with VDoc fs => nodup_str (map fst fs) | _ => true end.

Definition group_agree (s : stream) (ys : list value) : Prop :=
  Forall (fun d => wf_value d = true) ys -> stream_agrees s ys = true.

Lemma group_rel_agree s ys : group_rel s ys -> group_agree s ys.
Proof.
  intros (Ho & Hp & Hsa) Hw. unfold stream_agrees. rewrite Ho.
  induction Hp as [|a b outs l' Hab _ IH]; [reflexivity|].
  inversion Hw as [|? ? Hb Hw']; subst. inversion Hsa as [|? ? Ha Hsa']; subst. cbn [list_eqb].
  rewrite (tperm_doc_equiv_sets _ a b Hab Hb Ha). exact (IH Hsa' Hw').
Qed.

Lemma rel_str_mono (Q Q' : stream -> list value -> Prop) p m :
  (forall s l, Q s l -> Q' s l) -> rel_str Q p m -> rel_str Q' p m.
Proof.
  intros H. destruct p as [s| |], m as [l|e]; cbn [rel_str]; try (intros Hr; exact Hr). apply H.
Qed.

Lemma matching_groups sets accs (Cs : groups) :
  mem_str "_id" sets = false ->
  ForallOrdPairs (fun g1 g2 => eqk (fst g1) (fst g2) = false) Cs ->
  Forall (fun c => scalar_key (fst c) = true) Cs ->
  Forall (fun c => exists M, sdoc accs c = VDoc (("_id", fst c) :: M) /\ sets_arrays sets M /\ ~ In "_id" (map fst M)) Cs ->
  Forall (fun d => wf_value d = true) (map (fun c => conv (sdoc accs c)) Cs) ->
  matching (doc_equiv sets) (map (sdoc accs) Cs) (map (fun c => conv (sdoc accs c)) Cs).
Proof.
  intros Hs. induction 1 as [|c Cs Hc HF IH]; intros Hsc Hsh Hwf; [constructor|].
  inversion Hsc as [|? ? Hsc1 Hsc']; subst. inversion Hsh as [|? ? Hsh1 Hsh']; subst.
  cbn [map] in *. inversion Hwf as [|? ? Hw1 Hwf']; subst.
  destruct Hsh1 as (M & HM & Hsa & Hni). constructor; [| |exact (IH Hsc' Hsh' Hwf')].
  - rewrite HM in *. cbn [conv] in *. apply tperm_doc_equiv_sets; [|exact Hw1|].
    + eexists. eexists. split; [reflexivity|]. split; [reflexivity|]. apply Permutation_cons_append.
    + intros fs Hq. inversion Hq; subst fs. intros kv [<-|Hin] Hmem; [cbn [fst] in Hmem; rewrite Hs in Hmem; discriminate|].
      exact (Hsa kv Hin Hmem).
  - intros z Hz. apply in_map_iff in Hz. destruct Hz as (c' & <- & Hc').
    rewrite Forall_forall in Hsh'. destruct (Hsh' c' Hc') as (M' & HM' & _ & Hni').
    rewrite HM, HM'. cbn [conv]. apply doc_equiv_other_key; [exact Hs|exact Hni'|].
    rewrite (uequiv_scalar _ _ Hsc1). rewrite Forall_forall in Hsc'.
    rewrite <- (eqk_bson _ _ Hsc1 (Hsc' c' Hc')). rewrite Forall_forall in Hc. exact (Hc c' Hc').
Qed.

Lemma stage_group_scalar db o l :
  group_covered o = true ->
  stage_reasons db "$group" o l = 0 ->
  (forall fs ide, o = VDoc fs -> assoc "_id" fs = Some ide -> scalar_keys ide l) ->
  rel_str group_agree (spec_stage db "$group" o (mkStream l true [])) (run_stage db "$group" o l).
Proof.
  intros Hc Hg Hkeys.
  destruct o as [| | | | | | |fs|]; try (rewrite run_stage_group, spec_stage_group; exact I).
  destruct (assoc "_id" fs) as [ide|] eqn:Ha;
    [|rewrite run_stage_group, spec_stage_group; unfold spec_group, group_stage; rewrite Ha; exact I].
  destruct (is_null ide) eqn:Hnull.
  { (* the constant key null *)
    apply (rel_str_mono group_rel); [exact group_rel_agree|]. apply stage_group_null; [|exact Hg].
    unfold group_null_covered. rewrite Ha, Hnull. exact Hc. }
  rewrite run_stage_group, spec_stage_group.
  unfold group_covered in Hc. rename Hc into Hn.
  specialize (Hkeys fs ide eq_refl Ha).
  rewrite (stage_reasons_group db fs ide l Ha) in Hg. cbv zeta in Hg.
  apply lor_zero in Hg. destruct Hg as [Gide Hg]. apply lor_zero in Hg. destruct Hg as [_ Hg].
  apply lor_zero in Hg. destruct Hg as [_ Hg].
  apply lor_zero in Hg. destruct Hg as [G2 Hg]. apply lor_zero in Hg. destruct Hg as [G4 G8].
  apply zb_zero in Gide; [|discriminate].
  apply zb_zero in G2; [|discriminate]. apply zb_zero in G4; [|discriminate]. apply zb_zero in G8; [|discriminate].
  rewrite (spec_group_unfold fs ide _ Ha). cbn [no_sets s_sets s_docs s_ord negb]. cbv zeta.
  set (accs := del_key "_id" fs) in *.
  destruct (existsb (fun kv => negb (plain_name (fst kv))) accs); [exact I|].
  destruct (all_opt (map (fun d => key_of (seval [] d ide)) l)) as [keys|] eqn:Hks; [|exact I].
  set (Cs := classes (combine keys l) []).
  destruct (all_opt (map (fun c => ggo true (snd c) accs [("_id", fst c)]) Cs)) as [outs|] eqn:Houts; [|exact I].
  (* the model: keys, sort, runs *)
  rewrite (group_stage_unfold fs ide l Ha). unfold groups_of. rewrite Hnull. cbn [negb].
  destruct (keyed_agree ide l keys (expr_finding_false ide l Gide) Hks) as [Hm|Hm]; rewrite Hm; [exact I|].
  cbn [bind]. set (keyed := combine keys l) in *.
  destruct (keyed_model ide l keyed Hm) as [Hsnd Hkm].
  assert (Hsc : Forall (fun p => scalar_key (fst p) = true) keyed).
  { apply Forall_forall. intros p Hp. pose proof (Hkm p Hp) as Hk.
    assert (Hin : In (snd p) l) by (rewrite <- Hsnd; apply in_map; exact Hp).
    unfold scalar_keys in Hkeys. rewrite Forall_forall in Hkeys. specialize (Hkeys (snd p) Hin).
    rewrite Hk in Hkeys. exact Hkeys. }
  assert (Hsort : py_sorted (fun a b : value * value => bson_lt (fst a) (fst b)) false keyed = Ok (isort ltp keyed)).
  { unfold py_sorted. apply sort_by_pure. intros x y Hx Hy. rewrite Forall_forall in Hsc.
    rewrite (bson_lt_decided (fst x) (fst y) (scalar_key_decided _ (Hsc x Hx)) (scalar_key_decided _ (Hsc y Hy))).
    reflexivity. }
  rewrite Hsort. cbn [bind].
  destruct (groups_classes keyed Hsc) as [Hperm HRep]. fold Cs in Hperm, HRep.
  set (Gm := group_by (isort ltp keyed) None) in *.
  assert (Haccs : accs = List.filter not_id fs).
  { unfold accs. rewrite (del_key_filter "_id" fs Hn). reflexivity. }
  assert (Hnd : NoDup (map fst accs)).
  { rewrite Haccs. apply nodup_NoDup. apply nodup_filter_keys. exact Hn. }
  assert (Hnoid : ~ In "_id" (map fst accs)).
  { rewrite Haccs. intros Hin. apply in_map_iff in Hin. destruct Hin as ([k v] & Hk & Hin).
    apply filter_In in Hin. destruct Hin as [_ Hp]. unfold not_id in Hp. cbn [fst] in *. subst k. discriminate. }
  assert (Hguard : group_guard l accs).
  { intros f op e Hin. unfold acc_guard. split; [|split].
    + pose proof (existsb_false_in _ _ G2 _ Hin) as H1. cbn [snd existsb] in H1. rewrite orb_false_r in H1.
      exact (expr_finding_false e l H1).
    + intros -> d x Hd Hev. pose proof (existsb_false_in _ _ G4 _ Hin) as H1. cbn [snd fst existsb] in H1.
      rewrite orb_false_r in H1. cbn [String.eqb Ascii.eqb Bool.eqb andb] in H1.
      pose proof (existsb_false_in _ _ H1 d Hd) as H2. cbv beta in H2. rewrite Hev in H2.
      apply negb_false_iff in H2. exact H2.
    + intros Hfl d Hd Hev. pose proof (existsb_false_in _ _ G8 _ Hin) as H1. cbn [snd fst existsb] in H1.
      rewrite orb_false_r in H1.
      assert (Ht : (op =? "$first") || (op =? "$last") = true).
      { destruct Hfl as [-> | ->]; reflexivity. }
      rewrite Ht in H1. cbn [andb] in H1.
      pose proof (existsb_false_in _ _ H1 d Hd) as H2. cbv beta in H2. rewrite Hev in H2. discriminate. }
  (* every class: its documents are documents of the input, its specified document has the shape *)
  assert (Hsub : forall c, In c Cs -> forall d, In d (snd c) -> In d l).
  { intros c Hc d Hd. destruct HRep as (_ & R2 & _). rewrite Forall_forall in R2. destruct (R2 c Hc) as [_ Hs].
    rewrite Hs in Hd. apply in_map_iff in Hd. destruct Hd as (p & <- & Hp).
    unfold cls in Hp. apply filter_In in Hp. rewrite <- Hsnd. apply in_map. exact (proj1 Hp). }
  assert (Hsome : forall c, In c Cs -> ggo true (snd c) accs [("_id", fst c)] = Some (sdoc accs c)).
  { intros c Hc. destruct (all_opt_some_in _ _ _ Houts c Hc) as [y Hy]. unfold sdoc. rewrite Hy. reflexivity. }
  assert (HinG : forall g, In g Gm -> In g Cs) by (intros g Hg'; eapply Permutation_in; eassumption).
  destruct (mapM_unmod_or (group_out fs) (fun g => conv (sdoc accs g)) Gm) as [Hmm|Hmm].
  { intros g Hg'. pose proof (HinG g Hg') as HgC.
    destruct (group_out_agree fs accs l g (sdoc accs g) Hn Haccs Hguard (Hsub g HgC) (Hsome g HgC)) as [H|[H _]];
      [left|right]; exact H. }
  { rewrite Hmm. exact I. }
  rewrite Hmm. unfold group_agree. intros Hwf.
  assert (Houts' : outs = map (sdoc accs) Cs).
  { unfold sdoc. apply (all_opt_default _ VNull _ _ Houts). }
  set (ys' := map (fun c => conv (sdoc accs c)) Cs).
  assert (Hpy : Permutation ys' (map (fun g => conv (sdoc accs g)) Gm)).
  { unfold ys'. apply Permutation_map. apply Permutation_sym. exact Hperm. }
  assert (Hwf' : Forall (fun d => wf_value d = true) ys').
  { eapply Permutation_Forall; [apply Permutation_sym; exact Hpy|exact Hwf]. }
  assert (Hsets : mem_str "_id" (sets_of accs) = false).
  { destruct (mem_str "_id" (sets_of accs)) eqn:E; [|reflexivity]. exfalso. apply Hnoid. apply sets_of_names. exact E. }
  assert (HM : matching (doc_equiv (sets_of accs)) outs ys').
  { rewrite Houts'. apply matching_groups; [exact Hsets|exact (proj1 HRep)| | |exact Hwf'].
    - apply Forall_forall. intros c Hc. destruct HRep as (_ & R2 & _). rewrite Forall_forall in R2.
      destruct (R2 c Hc) as [(d & rest & Hcl) _].
      assert (Hp : In (fst c, d) keyed).
      { apply (filter_In (fun q : value * value => eqk (fst q) (fst c)) (fst c, d) keyed).
        fold (cls (fst c) keyed). rewrite Hcl. left. reflexivity. }
      rewrite Forall_forall in Hsc. exact (Hsc _ Hp).
    - apply Forall_forall. intros c Hc.
      destruct (ggo_shape (snd c) (sets_of accs) accs (fst c) [] (sdoc accs c)) as (M & H1 & H2 & H3).
      + intros f op e Hin Hmem. exact (sets_of_mem accs f op e Hnd Hin Hmem).
      + intros kv [].
      + exact (Hsome c Hc).
      + exists M. split; [exact H1|]. split; [exact H2|]. rewrite H3. exact Hnoid. }
  unfold stream_agrees. cbn [s_ord s_docs s_sets].
  destruct (Z.of_nat (List.length outs) <?? 2) eqn:Hlen.
  - assert (Hys : ys' = map (fun g => conv (sdoc accs g)) Gm).
    { apply perm_small; [exact Hpy|]. unfold ys'. rewrite map_length. rewrite Houts', map_length in Hlen.
      apply Z.ltb_lt in Hlen. lia. }
    rewrite <- Hys. apply list_eqb_matching. exact HM.
  - apply (bag_equiv_matching _ outs ys'); [exact HM|exact Hpy].
Qed.

(* the groups of the library are the classes of the specification, in another order *)
Lemma groups_of_classes e l keyed :
  is_null e = false -> mapM (key_fn e) l = Ok keyed ->
  Forall (fun p => scalar_key (fst p) = true) keyed ->
  exists gs, groups_of e l = Ok gs /\ Permutation gs (classes keyed []).
Proof.
  intros Hnull Hm Hsc. unfold groups_of. rewrite Hnull, Hm. cbn [negb bind].
  assert (Hsort : py_sorted (fun a b : value * value => bson_lt (fst a) (fst b)) false keyed = Ok (isort ltp keyed)).
  { unfold py_sorted. apply sort_by_pure. intros x y Hx Hy. rewrite Forall_forall in Hsc.
    rewrite (bson_lt_decided (fst x) (fst y) (scalar_key_decided _ (Hsc x Hx)) (scalar_key_decided _ (Hsc y Hy))).
    reflexivity. }
  rewrite Hsort. cbn [bind]. eexists. split; [reflexivity|]. exact (proj1 (groups_classes keyed Hsc)).
Qed.
