(* C01 proofs, part 4: one operator on one candidate vs the leaf predicates of the
   specification; aggregation over the candidate list. *)
From Coq Require Import ZArith List String Bool Ascii Lia.
From Verif Require Import Value PyEq BsonOrder Path Filter FilterSpec FilterGuard.
From Verif.Proofs Require Import C01Values C01Paths C01Loop.
Import ListNotations.
Open Scope Z_scope.
Open Scope string_scope.
Open Scope list_scope.

(* ---------------------------------------------------------------- guard tools *)
Lemma r_if_nil b r : r_if b r = [] <-> b = false.
Proof. destruct b; simpl; split; intros H; try reflexivity; discriminate. Qed.

Lemma flat_map_nil {A B} (f : A -> list B) l :
  flat_map f l = [] -> forall a, In a l -> f a = [].
Proof.
  induction l as [|b l IH]; intros H a Ha; [destruct Ha|].
  simpl in H. apply app_eq_nil in H. destruct H as [Hb Hl].
  destruct Ha as [->|Ha]; [exact Hb|apply IH; assumption].
Qed.

Ltac gsplit H :=
  repeat match type of H with
         | _ ++ _ = [] => let H1 := fresh H "a" in
                          apply app_eq_nil in H; destruct H as [H1 H];
                          try (apply r_if_nil in H1)
         end;
  try (apply r_if_nil in H).

Lemma eq_reasons_nil v C :
  eq_reasons v C = [] ->
  (forall c, In c C -> eq_compat_c v c = true) /\
  (is_arr v = true -> forall c, In c C -> has_nested_arr c = false).
Proof.
  unfold eq_reasons. intros H. gsplit H.
  apply negb_false_iff in Ha. rewrite forallb_forall in Ha. split; [exact Ha|].
  intros Hv c Hc. rewrite Hv in H. simpl in H. exact (existsb_false_In _ _ H c Hc).
Qed.

(* ---------------------------------------------------------------- the leaf of an operator *)
Definition size_leaf (v : value) (c : lookup) : bool :=
  match c with
  | Some (VArr xs) => bson_eq v (VInt (Z.of_nat (List.length xs)))
  | _ => false
  end.

Definition emq_leaf (q : emq) (c : lookup) : bool :=
  match c with
  | Some (VArr xs) => spec_emq q xs
  | _ => false
  end.

Definition is_some (c : lookup) : bool := match c with Some _ => true | None => false end.

Definition leaf_fop (o : fop) (key : string) (d : value) (c : lookup) : bool :=
  match o with
  | OEq v => lift (fun c => spec_eq c v) c
  | ONe v => negb (lift (fun c => spec_eq c v) c)
  | OCmp op v => lift (fun c => spec_cmp op c v) c
  | OIn (VArr l) => lift (spec_in l) c
  | ONin (VArr l) => negb (lift (spec_in l) c)
  | OExists v => Bool.eqb (truthy v) (is_some c)
  | OType (VStr name) => lift (spec_type name) c
  | OSize v => size_leaf v c
  | OAll a => spec_allarg a [c]
  | OElemMatch q => emq_leaf q c
  | ONot _ s => negb (spec_search key s d)
  | _ => false
  end.

Definition fop_is_neg (o : fop) : bool :=
  match o with ONe _ | ONin _ => true | _ => false end.
Definition fop_is_all (o : fop) : bool :=
  match o with OAll _ => true | _ => false end.
Definition exists_falsy (o : fop) : bool :=
  match o with OExists v => negb (truthy v) | _ => false end.

Definition agg (o : fop) (t : lookup -> bool) (C : list lookup) : bool :=
  if fop_is_neg o then forallb t C else existsb t C.

(* an array whose first element is an array: where _all_op flattens *)
Definition nested_first (c : lookup) : bool :=
  match c with Some (VArr (VArr _ :: _)) => true | _ => false end.

(* ---------------------------------------------------------------- list_expand *)
Lemma list_expand_pos (f : lookup -> value -> res bool) (t : value -> bool) xs sv :
  is_arr sv = false ->
  (forall x, In x xs -> f (Some x) sv = Ok (t x)) ->
  list_expand false f (Some (VArr xs)) sv = Ok (existsb t xs).
Proof.
  intros Hs. unfold list_expand. rewrite Hs.
  induction xs as [|x xs IH]; intros Hf; [reflexivity|].
  rewrite (Hf x (or_introl eq_refl)). cbn [bind existsb].
  destruct (t x); [reflexivity|]. cbn [orb]. apply IH.
  intros y Hy. apply Hf. right. exact Hy.
Qed.

Lemma list_expand_neg (f : lookup -> value -> res bool) (t : value -> bool) xs sv :
  is_arr sv = false ->
  (forall x, In x xs -> f (Some x) sv = Ok (t x)) ->
  list_expand true f (Some (VArr xs)) sv = Ok (forallb t xs).
Proof.
  intros Hs. unfold list_expand. rewrite Hs.
  induction xs as [|x xs IH]; intros Hf; [reflexivity|].
  rewrite (Hf x (or_introl eq_refl)). cbn [bind forallb].
  destruct (t x); [|reflexivity]. cbn [andb]. apply IH.
  intros y Hy. apply Hf. right. exact Hy.
Qed.

Lemma list_expand_other neg (f : lookup -> value -> res bool) c sv :
  (forall xs, c = Some (VArr xs) -> is_arr sv = true) ->
  list_expand neg f c sv = f c sv.
Proof.
  intros H. unfold list_expand. destruct c as [x|]; [|reflexivity].
  destruct x; try reflexivity. rewrite (H _ eq_refl). reflexivity.
Qed.

(* ---------------------------------------------------------------- $eq / $ne *)
Lemma elems_not_arr xs v :
  existsb is_arr xs = false -> is_arr v = true ->
  existsb (fun e => bson_eq e v) xs = false.
Proof.
  intros Hn Hv. apply existsb_all_false. intros e He.
  destruct v; try discriminate Hv.
  apply bson_eq_arr_r. exact (existsb_false_In _ _ Hn e He).
Qed.

Lemma eq_lift_arr xs v :
  eq_compat (VArr xs) v = true -> is_arr v = false ->
  lift (fun c => spec_eq c v) (Some (VArr xs)) = existsb (fun x => py_eq x v) xs.
Proof.
  intros Hc Hv. unfold lift. cbn [spec_eq]. rewrite (bson_eq_arr_l xs v Hv). cbn [orb].
  apply existsb_ext_in. intros e He. symmetry. apply eq_compat_py.
  eapply eq_compat_elem; eassumption.
Qed.

Lemma eq_op_leaf v c :
  eq_compat_c v c = true -> (is_arr v = true -> has_nested_arr c = false) ->
  eq_op c v = Ok (lift (fun c => spec_eq c v) c).
Proof.
  intros Hc Hn. unfold eq_op.
  destruct c as [x|].
  - destruct (is_arr v) eqn:Hv.
    + rewrite list_expand_other by (intros; exact Hv).
      cbn [operator_eq eq_compat_c] in *. rewrite (eq_compat_py _ _ Hc).
      unfold lift. cbn [spec_eq].
      destruct x as [|b|z|e|s|us tz|n|fs|xs]; try (rewrite orb_false_r; reflexivity).
      rewrite (elems_not_arr xs v (Hn eq_refl) Hv). rewrite orb_false_r. reflexivity.
    + destruct x as [|b|z|e|s|us tz|n|fs|xs];
        try (rewrite list_expand_other by (intros ? [=]);
             cbn [operator_eq eq_compat_c] in *; rewrite (eq_compat_py _ _ Hc);
             unfold lift; cbn [spec_eq]; rewrite orb_false_r; reflexivity).
      cbn [eq_compat_c] in Hc.
      rewrite (list_expand_pos _ (fun x => py_eq x v)); [|exact Hv|reflexivity].
      rewrite eq_lift_arr by assumption. reflexivity.
  - rewrite list_expand_other by (intros ? [=]). unfold lift. cbn [operator_eq spec_eq].
    rewrite orb_false_r. reflexivity.
Qed.

Lemma ne_op_leaf v c :
  eq_compat_c v c = true -> (is_arr v = true -> has_nested_arr c = false) ->
  ne_op c v = Ok (negb (lift (fun c => spec_eq c v) c)).
Proof.
  intros Hc Hn. unfold ne_op.
  destruct c as [x|].
  - destruct (is_arr v) eqn:Hv.
    + rewrite list_expand_other by (intros; exact Hv).
      cbn [operator_eq eq_compat_c] in *. rewrite (eq_compat_py _ _ Hc).
      unfold lift. cbn [spec_eq].
      destruct x as [|b|z|e|s|us tz|n|fs|xs]; try (rewrite orb_false_r; reflexivity).
      rewrite (elems_not_arr xs v (Hn eq_refl) Hv). rewrite orb_false_r. reflexivity.
    + destruct x as [|b|z|e|s|us tz|n|fs|xs];
        try (rewrite list_expand_other by (intros ? [=]);
             cbn [operator_eq eq_compat_c] in *; rewrite (eq_compat_py _ _ Hc);
             unfold lift; cbn [spec_eq]; rewrite orb_false_r; reflexivity).
      cbn [eq_compat_c] in Hc.
      rewrite (list_expand_neg _ (fun x => negb (py_eq x v))); [|exact Hv|reflexivity].
      rewrite eq_lift_arr by assumption. rewrite forallb_negb_existsb. reflexivity.
  - rewrite list_expand_other by (intros ? [=]). unfold lift. cbn [operator_eq spec_eq].
    rewrite orb_false_r. reflexivity.
Qed.

(* ---------------------------------------------------------------- $gt $gte $lt $lte *)
Lemma scalar_operand_not_arr v : is_scalar_operand v = true -> is_arr v = false.
Proof. destruct v; simpl; intros H; try reflexivity; discriminate. Qed.

Lemma spec_cmp_arr op xs v : spec_cmp op (Some (VArr xs)) v = false.
Proof. unfold spec_cmp. destruct v; reflexivity. Qed.

Lemma cmp_op_leaf op v c :
  is_scalar_operand v = true -> has_aware v = false ->
  match c with Some x => has_aware x | None => false end = false ->
  cmp_op op c v = Ok (lift (fun c => spec_cmp op c v) c).
Proof.
  intros Hs Hav Hac. unfold cmp_op. destruct c as [x|].
  - destruct x as [|b|z|e|s|us tz|n|fs|xs];
      try (rewrite list_expand_other by (intros ? [=]);
           rewrite bson_compare_scalar by assumption;
           unfold lift; rewrite orb_false_r; reflexivity).
    rewrite (list_expand_pos _ (fun x => spec_cmp op (Some x) v)).
    + unfold lift. rewrite spec_cmp_arr. reflexivity.
    + apply scalar_operand_not_arr. exact Hs.
    + intros e He. apply bson_compare_scalar; try assumption.
      rewrite has_aware_arr in Hac. exact (existsb_false_In _ _ Hac e He).
  - unfold lift. reflexivity.
Qed.

(* ---------------------------------------------------------------- $in / $nin *)
Lemma in_op_leaf l c :
  (forall v, In v l -> eq_compat_c v c = true) -> existsb is_arr l = false ->
  in_op c (VArr l) = Ok (lift (spec_in l) c).
Proof.
  intros Hc Hl. unfold in_op. destruct c as [x|].
  - assert (Hx : forall e, (forall v, In v l -> eq_compat e v = true) ->
                           py_in e l = spec_in l (Some e)).
    { intros e He. unfold py_in, spec_in. apply existsb_ext_in. intros v Hv.
      cbn [spec_eq]. apply eq_compat_py_flip. apply He. exact Hv. }
    destruct x as [|b|z|e|s|us tz|n|fs|xs];
      try (cbn [force_list existsb lookup_in]; unfold lift;
           rewrite !orb_false_r; f_equal; apply Hx; exact Hc).
    cbn [force_list]. rewrite existsb_map. cbn [lookup_in]. unfold lift.
    assert (H0 : spec_in l (Some (VArr xs)) = false).
    { unfold spec_in. apply existsb_all_false. intros v Hv. cbn [spec_eq].
      apply bson_eq_arr_l. exact (existsb_false_In _ _ Hl v Hv). }
    rewrite H0. cbn [orb]. f_equal. apply existsb_ext_in. intros e He. apply Hx.
    intros v Hv. eapply eq_compat_elem; [|exact He]. exact (Hc v Hv).
  - unfold lift. rewrite orb_false_r. unfold spec_in. cbn [spec_eq].
    destruct (existsb is_null l); reflexivity.
Qed.

(* ---------------------------------------------------------------- $type *)
Lemma type_op_leaf name p c :
  type_pred name = Some (Some p) ->
  type_op c (VStr name) = Ok (lift (spec_type name) c).
Proof.
  intros Hp. unfold type_op, lift, spec_type. rewrite Hp. destruct c as [x|]; [|reflexivity].
  destruct (p x) eqn:Hpx; [reflexivity|]. destruct x; reflexivity.
Qed.

(* ---------------------------------------------------------------- $size *)
Lemma size_op_leaf n c :
  match c with Some (VArr _) | None => false | Some _ => true end = false ->
  size_op c (VInt n) = size_leaf (VInt n) c.
Proof.
  intros Hc. destruct c as [x|]; [|reflexivity].
  destruct x; try discriminate Hc. unfold size_op, size_leaf. apply py_eq_size.
Qed.

(* ---------------------------------------------------------------- $all (plain values) *)
Lemma all_item_force v c :
  eq_compat_c v c = true -> is_arr v = false -> null_sensitive_val v = false ->
  existsb (fun c' => py_eq_lookup c' v) (force_list c) = lift (fun c => spec_eq c v) c.
Proof.
  intros Hc Hv Hn. destruct c as [x|].
  - destruct x as [|b|z|e|s|us tz|n|fs|xs];
      try (cbn [force_list existsb py_eq_lookup eq_compat_c] in *; unfold lift; cbn [spec_eq];
           rewrite (eq_compat_py _ _ Hc); reflexivity).
    cbn [force_list eq_compat_c] in *. rewrite existsb_map. cbn [py_eq_lookup].
    rewrite eq_lift_arr by assumption. reflexivity.
  - cbn [force_list existsb py_eq_lookup]. unfold lift. cbn [spec_eq].
    destruct v; try reflexivity. discriminate Hn.
Qed.

Lemma g_allitems_cons i items C :
  g_allitems (ACons i items) C = [] ->
  (exists v, i = AVal v /\ eq_reasons v C = [] /\ is_doc v = false /\ is_arr v = false /\
             null_sensitive_val v = false) /\
  g_allitems items C = [].
Proof.
  cbn [g_allitems]. intros H. apply app_eq_nil in H. destruct H as [Hi Hitems].
  split; [|exact Hitems].
  destruct i as [v|q]; [|discriminate Hi].
  exists v. gsplit Hi. repeat split; assumption.
Qed.

(* dv stands for the candidate list C in the sense that plain-value membership agrees *)
Definition dv_for (dv C : list lookup) : Prop :=
  forall v, eq_reasons v C = [] -> is_arr v = false -> null_sensitive_val v = false ->
            existsb (fun c' => py_eq_lookup c' v) dv = holds (fun c => spec_eq c v) C.

Lemma eval_allitems_plain items dv C is_list :
  dv_for dv C -> g_allitems items C = [] ->
  eval_allitems items dv is_list = Ok (spec_allitems items C).
Proof.
  intros Hdv. induction items as [|i items IH]; intros Hg; [reflexivity|].
  apply g_allitems_cons in Hg. destruct Hg as [[v [-> [Hr [Hd [Ha Hn]]]]] Hitems].
  cbn [eval_allitems spec_allitems]. rewrite (IH Hitems). cbn [bind].
  rewrite (Hdv v Hr Ha Hn). reflexivity.
Qed.

Lemma dv_for_nil : dv_for [] [].
Proof. intros v _ _ _. reflexivity. Qed.

Lemma dv_for_force c : dv_for (force_list c) [c].
Proof.
  intros v Hr Ha Hn. apply eq_reasons_nil in Hr. destruct Hr as [Hc _].
  rewrite all_item_force; try assumption.
  - rewrite holds_lift. cbn [existsb]. rewrite orb_false_r. reflexivity.
  - apply Hc. left. reflexivity.
Qed.

Lemma spec_allitems_somes items C P :
  somes C = somes P -> g_allitems items C = [] ->
  spec_allitems items P = spec_allitems items C.
Proof.
  intros HS. induction items as [|i items IH]; intros Hg; [reflexivity|].
  apply g_allitems_cons in Hg. destruct Hg as [[v [-> [Hr [Hd [Ha Hn]]]]] Hitems].
  cbn [spec_allitems]. rewrite (IH Hitems). f_equal.
  apply holds_somes; [|exact HS]. cbn [spec_eq]. destruct v; try reflexivity. discriminate Hn.
Qed.

Lemma spec_allitems_nil items C :
  items <> ANil -> g_allitems items C = [] -> C = [] -> spec_allitems items C = false.
Proof.
  intros Hne Hg ->. destruct items as [|i items]; [congruence|].
  apply g_allitems_cons in Hg. destruct Hg as [[v [-> _]] _]. reflexivity.
Qed.

(* the flattening branch never finds a plain (non-array) value *)
Lemma spec_allitems_all_lists items xs :
  items <> ANil -> g_allitems items [Some (VArr xs)] = [] ->
  all_lists (map Some xs) = true ->
  spec_allitems items [Some (VArr xs)] = false.
Proof.
  intros Hne Hg Hl. destruct items as [|i items]; [congruence|].
  apply g_allitems_cons in Hg. destruct Hg as [[v [-> [Hr [Hd [Ha Hn]]]]] _].
  cbn [spec_allitems]. apply andb_false_iff. left.
  rewrite holds_lift. cbn [existsb]. rewrite orb_false_r. unfold lift. cbn [spec_eq].
  rewrite (bson_eq_arr_l xs v Ha). cbn [orb].
  apply existsb_all_false. intros e He.
  unfold all_lists in Hl. rewrite forallb_forall in Hl.
  specialize (Hl (Some e) (in_map Some xs e He)). cbn in Hl.
  destruct e; try discriminate Hl. apply bson_eq_arr_l. exact Ha.
Qed.
