(* C03 -- examples: the hypotheses of the theorems are satisfiable on non-trivial inputs;
   one example per guard bit *)
From Coq Require Import ZArith List String Bool Ascii.
From Verif Require Import Value PyEq Path Update Filter Coll Expr Pipeline PipelineSpec PipelineGuard.
From Verif Require Import C03Stages C03Pipeline.
Import ListNotations.
Open Scope Z_scope.
Open Scope string_scope.

Definition ex_docs : list value :=
  [VDoc [("_id", VInt 1); ("g", VStr "a"); ("tags", VArr [VStr "x"; VStr "y"]); ("n", VInt 2)];
   VDoc [("_id", VInt 2); ("g", VStr "b"); ("tags", VArr [VStr "x"]); ("n", VInt 3)];
   VDoc [("_id", VInt 3); ("g", VStr "a"); ("tags", VArr []); ("n", VInt 5)];
   VDoc [("_id", VInt 4); ("g", VStr "c"); ("tags", VArr [VStr "z"; VStr "x"]); ("n", VInt 1)]].

(* $match, $unwind, $group with $sum and $push, $sort: guard 0, model = specification
   (up to the order of the keys: the library puts _id last) *)
Definition ex_pipe : value :=
  VArr [VDoc [("$match", VDoc [("n", VDoc [("$gte", VInt 2)])])];
        VDoc [("$unwind", VStr "$tags")];
        VDoc [("$group", VDoc [("_id", VStr "$tags"); ("total", VDoc [("$sum", VStr "$n")]);
                               ("ids", VDoc [("$push", VStr "$_id")])])];
        VDoc [("$sort", VDoc [("_id", VInt 1)])]].

Example ex_four_stages :
  c03_reasons [] ex_docs ex_pipe = 0 /\
  aggregate [] ex_docs ex_pipe
    = Ok [VDoc [("total", VInt 5); ("ids", VArr [VInt 1; VInt 2]); ("_id", VStr "x")];
          VDoc [("total", VInt 2); ("ids", VArr [VInt 1]); ("_id", VStr "y")]] /\
  spec_aggregate [] ex_docs ex_pipe
    = PV (mkStream [VDoc [("_id", VStr "x"); ("total", VInt 5); ("ids", VArr [VInt 1; VInt 2])];
                    VDoc [("_id", VStr "y"); ("total", VInt 2); ("ids", VArr [VInt 1])]] true []) /\
  agrees (spec_aggregate [] ex_docs ex_pipe) (aggregate [] ex_docs ex_pipe) = Some true.
Proof. vm_compute. repeat split; reflexivity. Qed.

(* the hypotheses of C03_pipeline_partial are satisfiable: $match, $unwind with an option
   document, a two-key $sort, $facet over $limit and $skip + $count *)
Definition ex_pipe_covered : value :=
  VArr [VDoc [("$match", VDoc [("n", VDoc [("$gte", VInt 2)])])];
        VDoc [("$unwind", VDoc [("path", VStr "$tags"); ("preserveNullAndEmptyArrays", VBool true)])];
        VDoc [("$sort", VDoc [("n", VInt (-1)); ("tags", VInt 1)])];
        VDoc [("$facet", VDoc [("top", VArr [VDoc [("$limit", VInt 2)]]);
                               ("cnt", VArr [VDoc [("$skip", VInt 1)]; VDoc [("$count", VStr "k")]])])]].

Example ex_partial_hypotheses :
  c03_covered ex_pipe_covered = true /\
  c03_reasons [] ex_docs ex_pipe_covered = 0 /\
  aggregate [] ex_docs ex_pipe_covered
    = Ok [VDoc [("top", VArr [VDoc [("_id", VInt 3); ("g", VStr "a"); ("n", VInt 5)];
                              VDoc [("_id", VInt 2); ("g", VStr "b"); ("tags", VStr "x"); ("n", VInt 3)]]);
                ("cnt", VArr [VDoc [("k", VInt 3)]])]] /\
  agrees (spec_aggregate [] ex_docs ex_pipe_covered) (aggregate [] ex_docs ex_pipe_covered) = Some true.
Proof. vm_compute. repeat split; reflexivity. Qed.

(* and the theorem applies *)
Example ex_partial_applies :
  rel (spec_aggregate [] ex_docs ex_pipe_covered) (aggregate [] ex_docs ex_pipe_covered).
Proof. apply pipeline_partial_rel; vm_compute; reflexivity. Qed.

(* ---------- one example per guard bit *)
Definition bit_of (db : dbmap) (docs : list value) (p : value) :=
  (c03_reasons db docs p, agrees (spec_aggregate db docs p) (aggregate db docs p)).

(* 1 = F-MATCH-C01: {$exists: null} on a path without candidates *)
Example ex_bit_1 :
  bit_of [] [VDoc [("a", VInt 5)]] (VArr [VDoc [("$match", VDoc [("a.b", VDoc [("$exists", VNull)])])]])
  = (1, Some false).
Proof. vm_compute. reflexivity. Qed.

(* 2 = F-AGG-EXPR: $sum of a scalar operand inside $addFields *)
Example ex_bit_2 :
  fst (bit_of [] [VDoc [("a", VInt 5)]] (VArr [VDoc [("$addFields", VDoc [("x", VDoc [("$sum", VStr "$a")])])]]))
  = 2.
Proof. vm_compute. reflexivity. Qed.

(* 4 = F-GROUP-PYEQ: true and 1 fall in one group *)
Example ex_bit_4 :
  bit_of [] [VDoc [("b", VBool true)]; VDoc [("b", VInt 1)]] (VArr [VDoc [("$group", VDoc [("_id", VStr "$b")])]])
  = (4, Some false).
Proof. vm_compute. reflexivity. Qed.

(* 8 = F-GROUP-FIRST-MISSING *)
Example ex_bit_8 :
  bit_of [] [VDoc [("g", VInt 1)]; VDoc [("g", VInt 1); ("a", VInt 7)]]
         (VArr [VDoc [("$group", VDoc [("_id", VStr "$g"); ("f", VDoc [("$first", VStr "$a")])])]])
  = (8, Some false).
Proof. vm_compute. reflexivity. Qed.

(* 16 = F-PROJECT-ID-FIRST *)
Example ex_bit_16 :
  bit_of [] [VDoc [("_id", VInt 1); ("a", VInt 5); ("b", VInt 6)]]
         (VArr [VDoc [("$project", VDoc [("_id", VInt 1); ("a", VInt 0)])]])
  = (16, Some false).
Proof. vm_compute. reflexivity. Qed.

(* 32 = F-MATCH-NONDOC-EMPTY *)
Example ex_bit_32 : bit_of [] [] (VArr [VDoc [("$match", VInt 5)]]) = (32, Some false).
Proof. vm_compute. reflexivity. Qed.

(* 64 = F-SORT-EMPTY-SPEC *)
Example ex_bit_64 : bit_of [] [VDoc [("x", VInt 2)]] (VArr [VDoc [("$sort", VDoc [])]]) = (64, Some false).
Proof. vm_compute. reflexivity. Qed.

(* 128 = F-SORT-EMPTY-COMPONENT *)
Example ex_bit_128 :
  bit_of [] [VDoc [("x", VInt 2)]; VDoc [("x", VInt 1)]] (VArr [VDoc [("$sort", VDoc [("", VInt 1)])]])
  = (128, Some false).
Proof. vm_compute. reflexivity. Qed.

(* 256 = F-UNWIND-OPTION *)
Example ex_bit_256 :
  bit_of [] [VDoc [("a", VArr [VInt 1])]] (VArr [VDoc [("$unwind", VDoc [("path", VStr "$a"); ("foo", VInt 1)])]])
  = (256, Some false).
Proof. vm_compute. reflexivity. Qed.

(* the guard bits also fire inside $facet *)
Example ex_bit_in_facet :
  bit_of [] [VDoc [("x", VInt 2)]]
         (VArr [VDoc [("$facet", VDoc [("s", VArr [VDoc [("$sort", VDoc [])]])])]])
  = (64, Some false).
Proof. vm_compute. reflexivity. Qed.
