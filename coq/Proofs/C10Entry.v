(* C10 (first half): every filter-taking entry point selects through the same scan.
   For a state c and a filter f on which the scan succeeds,
      iter_documents c (patch f) = Ok (c1, m)
   (c1 = the state after the lazy TTL pass, m = the matching (key, document) pairs in natural
   order), find / count / delete / update / distinct are all expressed through that one m. *)
From Coq Require Import ZArith List String Bool Ascii Lia.
From Verif Require Import Value PyEq BsonOrder Path Filter Update Project Coll HistCheck HistProps.
From Verif Require Import HistGuards C01Values C14Base C14Inv C14Ops.
Import ListNotations.
Open Scope Z_scope.
Open Scope string_scope.
Open Scope list_scope.

(* ---------------------------------------------------------------- the match relation *)
Definition is_match (f : value) (kd : value * value) : bool :=
  match filter_applies f (snd kd) with Ok true => true | _ => false end.
Definition matching (f : value) (s : store) : store := List.filter (is_match f) s.
Definition unmatched (f : value) (s : store) : store :=
  List.filter (fun kd => negb (is_match f kd)) s.

Lemma scan_matching f : forall l m, scan f l = Ok m -> m = matching f l.
Proof.
  induction l as [| [k d] l IH]; intros m H; simpl in H.
  - injection H as <-. reflexivity.
  - unfold matching. simpl. unfold is_match at 1. simpl.
    destruct (filter_applies f d) as [b|e]; simpl in H; [|discriminate].
    destruct (scan f l) as [r|e]; simpl in H; [|discriminate].
    injection H as <-. rewrite (IH r eq_refl). destruct b; reflexivity.
Qed.

Lemma iter_documents_ok c f c1 m :
  iter_documents c f = Ok (c1, m) -> expire c = Ok c1 /\ scan f (docs c1) = Ok m.
Proof.
  unfold iter_documents. destruct (expire c) as [c0|e]; simpl; [|discriminate].
  destruct (match docs c0 with [] => filter_applies f (VDoc []) | _ => Ok true end) as [b|e]; simpl.
  - destruct (scan f (docs c0)) as [r|e] eqn:Es; simpl.
    + intro H. injection H as <- <-. split; [reflexivity|exact Es].
    + destruct (Nat.eqb _ _); discriminate.
  - destruct (Nat.eqb _ _); discriminate.
Qed.

Lemma iter_documents_pre c f c1 m :
  iter_documents c f = Ok (c1, m) ->
  exists b, match docs c1 with [] => filter_applies f (VDoc []) | _ => Ok true end = Ok b.
Proof.
  unfold iter_documents. destruct (expire c) as [c0|e]; simpl; [|discriminate].
  destruct (match docs c0 with [] => filter_applies f (VDoc []) | _ => Ok true end) as [b|e] eqn:E;
    simpl.
  - destruct (scan f (docs c0)) as [r|e]; simpl.
    + intro H. injection H as <- <-. exists b. exact E.
    + destruct (Nat.eqb _ _); discriminate.
  - destruct (Nat.eqb _ _); discriminate.
Qed.

Lemma iter_documents_matching c f c1 m :
  iter_documents c f = Ok (c1, m) -> m = matching f (docs c1).
Proof. intro H. apply scan_matching. exact (proj2 (iter_documents_ok c f c1 m H)). Qed.

Lemma scan_is_filter c f c1 m :
  iter_documents c f = Ok (c1, m) -> expire c = Ok c1 /\ m = matching f (docs c1).
Proof.
  intro H. split; [exact (proj1 (iter_documents_ok c f c1 m H))|exact (iter_documents_matching c f c1 m H)].
Qed.

(* ---------------------------------------------------------------- find *)
Lemma find_docs_scan c fs sort c1 m :
  iter_documents c (patch (VDoc fs)) = Ok (c1, m) ->
  find_docs c (VDoc fs) sort = (let! s := sort_docs sort (map snd m) in Ok (c1, s)).
Proof. intro H. unfold find_docs. rewrite H. reflexivity. Qed.

Lemma find_is_scan_gen c fs proj sort skip limit c1 m :
  iter_documents c (patch (VDoc fs)) = Ok (c1, m) ->
  find_op c (VDoc fs) proj sort skip limit =
    match sort_docs sort (map snd m) with
    | Err e => (c, Err e)
    | Ok s => match project_all proj s with
              | Err e => (c1, Err e)
              | Ok l => (c1, Ok (VArr (cursor_slice skip limit l)))
              end
    end.
Proof.
  intro H. unfold find_op. rewrite (find_docs_scan c fs sort c1 m H).
  destruct (sort_docs sort (map snd m)); reflexivity.
Qed.

Definition docs_only (s : store) : Prop := Forall (fun kd => is_doc (snd kd) = true) s.

Lemma project_all_none_ok : forall l,
  Forall (fun d => is_doc d = true) l -> project_all None l = Ok l.
Proof.
  induction l as [| d l IH]; intro H; [reflexivity|].
  inversion H as [| ? ? Hd Hl]; subst. simpl. rewrite (IH Hl).
  destruct d; try discriminate. reflexivity.
Qed.

Lemma docs_only_map s : docs_only s -> Forall (fun d => is_doc d = true) (map snd s).
Proof. unfold docs_only. rewrite !Forall_forall. intros H d Hin.
  apply in_map_iff in Hin. destruct Hin as (kd & <- & Hin). exact (H kd Hin). Qed.

Lemma cursor_slice_00 {A} (l : list A) : cursor_slice 0 0 l = l.
Proof. reflexivity. Qed.

Lemma find_is_scan c fs c1 m :
  iter_documents c (patch (VDoc fs)) = Ok (c1, m) -> docs_only m ->
  find_op c (VDoc fs) None [] 0 0 = (c1, Ok (VArr (map snd m))).
Proof.
  intros H HD. rewrite (find_is_scan_gen c fs None [] 0 0 c1 m H). simpl.
  rewrite (project_all_none_ok _ (docs_only_map m HD)). reflexivity.
Qed.

Lemma find_one_is_scan c fs c1 m :
  iter_documents c (patch (VDoc fs)) = Ok (c1, m) -> docs_only m ->
  find_one c (VDoc fs) None [] = (c1, Ok (hd_error (map snd m))).
Proof.
  intros H HD. unfold find_one. rewrite (find_is_scan c fs c1 m H HD).
  destruct m; reflexivity.
Qed.

(* ---------------------------------------------------------------- count *)
Lemma count_is_scan_gen c fs skip c1 m :
  iter_documents c (patch (VDoc fs)) = Ok (c1, m) ->
  count_op c (VDoc fs) skip None = (c1, Ok (VInt (Z.max (Z.of_nat (List.length m) - skip) 0))).
Proof. intro H. unfold count_op. rewrite H. reflexivity. Qed.

Lemma count_is_scan c fs c1 m :
  iter_documents c (patch (VDoc fs)) = Ok (c1, m) ->
  count_op c (VDoc fs) 0 None = (c1, Ok (VInt (Z.of_nat (List.length m)))).
Proof.
  intro H. rewrite (count_is_scan_gen c fs 0 c1 m H). do 3 f_equal. lia.
Qed.

Lemma count_limit_is_scan c fs skip l c1 m :
  iter_documents c (patch (VDoc fs)) = Ok (c1, m) -> 0 < l ->
  count_op c (VDoc fs) skip (Some l)
  = (c1, Ok (VInt (Z.min (Z.max (Z.of_nat (List.length m) - skip) 0) l))).
Proof.
  intros H Hl. unfold count_op. destruct (Z.leb l 0) eqn:E; [apply Z.leb_le in E; lia|].
  rewrite H. reflexivity.
Qed.

(* ---------------------------------------------------------------- delete *)
(* looking a document up by its own _id finds its own entry *)
Definition self_keyed (s : store) : Prop :=
  forall pre k d post, s = pre ++ (k, d) :: post ->
    exists id, doc_id d = Some id /\ py_eq k id = true /\
               forall k', In k' (skeys pre) -> py_eq k' id = false.

Fixpoint self_keyedb_go (seen : list value) (s : store) : bool :=
  match s with
  | [] => true
  | (k, d) :: s' =>
      match doc_id d with
      | Some id => py_eq k id && forallb (fun k' => negb (py_eq k' id)) seen
      | None => false
      end && self_keyedb_go (seen ++ [k]) s'
  end.
Definition self_keyedb (s : store) : bool := self_keyedb_go [] s.

Lemma self_keyedb_go_sound : forall s seen,
  self_keyedb_go seen s = true ->
  forall pre k d post, s = pre ++ (k, d) :: post ->
    exists id, doc_id d = Some id /\ py_eq k id = true /\
               forall k', In k' (seen ++ skeys pre) -> py_eq k' id = false.
Proof.
  induction s as [| [k0 d0] s IH]; intros seen H pre k d post E.
  - destruct pre; discriminate.
  - simpl in H. apply andb_true_iff in H. destruct H as [H1 H2].
    destruct pre as [| [k1 d1] pre]; simpl in E.
    + injection E as -> -> ->. destruct (doc_id d) as [id|]; [|discriminate].
      apply andb_true_iff in H1. destruct H1 as [Ha Hb]. exists id.
      split; [reflexivity|]. split; [exact Ha|].
      intros k' Hin. rewrite app_nil_r in Hin. rewrite forallb_forall in Hb.
      apply negb_true_iff. apply Hb. exact Hin.
    + injection E as -> -> ->.
      destruct (IH _ H2 pre k d post eq_refl) as (id & Hid & Hk & Hp).
      exists id. split; [exact Hid|]. split; [exact Hk|].
      intros k' Hin. apply Hp. simpl in Hin. rewrite <- app_assoc. exact Hin.
Qed.

Lemma self_keyedb_sound s : self_keyedb s = true -> self_keyed s.
Proof.
  intros H pre k d post E.
  exact (self_keyedb_go_sound s [] H pre k d post E).
Qed.

(* the simple sufficient condition: distinct keys, every document stored under its own _id *)
Lemma self_keyed_simple s :
  knd (skeys s) ->
  Forall (fun kd => doc_id (snd kd) = Some (fst kd) /\ py_eq (fst kd) (fst kd) = true) s ->
  self_keyed s.
Proof.
  intros HK HF pre k d post E. subst s.
  rewrite Forall_forall in HF.
  destruct (HF (k, d)) as [Hid Hkk]; [apply in_or_app; right; left; reflexivity|].
  simpl in Hid, Hkk. exists k. split; [exact Hid|]. split; [exact Hkk|].
  exact (proj1 (knd_mid _ _ _ _ HK)).
Qed.

Lemma self_keyed_docs_only s : self_keyed s -> docs_only s.
Proof.
  intro H. unfold docs_only. rewrite Forall_forall. intros [k d] Hin.
  destruct (in_split _ _ Hin) as (pre & post & E).
  destruct (H pre k d post E) as (id & Hid & _). destruct d; try discriminate. reflexivity.
Qed.

Lemma docs_only_matching f s : docs_only s -> docs_only (matching f s).
Proof.
  unfold docs_only, matching. rewrite !Forall_forall. intros H kd Hin.
  apply filter_In in Hin. exact (H kd (proj1 Hin)).
Qed.

Lemma store_get_hit pre k (d : value) post id :
  (forall k', In k' (skeys pre) -> py_eq k' id = false) -> py_eq k id = true ->
  store_get id (pre ++ (k, d) :: post) = Some d.
Proof.
  intros Hpre Hk. induction pre as [| [k1 d1] pre IH]; simpl.
  - rewrite Hk. reflexivity.
  - rewrite (Hpre k1) by (left; reflexivity). apply IH.
    intros k' Hin. apply Hpre. right. exact Hin.
Qed.

Lemma store_del_hit pre k (d : value) post id :
  (forall k', In k' (skeys pre) -> py_eq k' id = false) -> py_eq k id = true ->
  store_del id (pre ++ (k, d) :: post) = pre ++ post.
Proof.
  intros Hpre Hk. induction pre as [| [k1 d1] pre IH]; simpl.
  - rewrite Hk. reflexivity.
  - rewrite (Hpre k1) by (left; reflexivity). f_equal. apply IH.
    intros k' Hin. apply Hpre. right. exact Hin.
Qed.

(* conditional count: whatever the state, a successful delete_many reports the number of
   documents it was handed *)
Lemma delete_go_many_count : forall l c n c' n',
  delete_go c l true n = (c', Ok n') -> n' = n + Z.of_nat (List.length l).
Proof.
  induction l as [| d l IH]; intros c n c' n' H; simpl in H.
  - fin H. simpl. lia.
  - destruct d; try discriminate. destruct (assoc "_id" fs) as [id|]; [|discriminate].
    destruct (store_get id (docs c)); [|discriminate].
    apply IH in H. rewrite H. simpl List.length. lia.
Qed.

Lemma delete_go_one_count l c n c' n' :
  delete_go c l false n = (c', Ok n') -> n' = n + (match l with [] => 0 | _ => 1 end).
Proof.
  destruct l as [| d l]; simpl; intro H.
  - fin H. lia.
  - destruct d; try discriminate. destruct (assoc "_id" fs) as [id|]; [|discriminate].
    destruct (store_get id (docs c)); [|discriminate]. fin H. reflexivity.
Qed.

(* the multi delete over a self-keyed store: exactly the matched entries go *)
Lemma delete_go_many f orig : self_keyed orig ->
  forall rest pre0 kept c n,
    orig = pre0 ++ rest -> (forall x, In x (skeys kept) -> In x (skeys pre0)) ->
    docs c = kept ++ rest ->
    exists c', delete_go c (map snd (matching f rest)) true n
               = (c', Ok (n + Z.of_nat (List.length (matching f rest))))
               /\ docs c' = kept ++ unmatched f rest
               /\ idx c' = idx c /\ now c' = now c /\ next_oid c' = next_oid c
               /\ forced c' = forced c.
Proof.
  intros HS. induction rest as [| [k d] rest IH]; intros pre0 kept c n Ho Hincl Hd.
  - exists c. simpl. rewrite Z.add_0_r. repeat split; auto.
  - unfold matching, unmatched. simpl. destruct (is_match f (k, d)) eqn:Em; simpl.
    + destruct (HS pre0 k d rest Ho) as (id & Hid & Hk & Hp).
      destruct d as [| | | | | | | dfs |]; try discriminate. simpl in Hid. rewrite Hid.
      assert (Hp' : forall k', In k' (skeys kept) -> py_eq k' id = false)
        by (intros k' Hin; apply Hp, Hincl; exact Hin).
      rewrite Hd, (store_get_hit kept k (VDoc dfs) rest id Hp' Hk).
      rewrite (store_del_hit kept k (VDoc dfs) rest id Hp' Hk).
      set (c0 := mkColl (kept ++ rest) (idx c) (forced c) (next_oid c) (now c)
                        (List.filter (fun k0 => negb (py_eq k0 id)) (odocs c))).
      destruct (IH (pre0 ++ [(k, VDoc dfs)]) kept c0 (n + 1)) as (c' & Hg & Hdocs & Hrest).
      * rewrite <- app_assoc. exact Ho.
      * intros x Hin. unfold skeys. rewrite map_app. apply in_or_app. left. apply Hincl. exact Hin.
      * reflexivity.
      * exists c'. fold (matching f rest) in *. fold (unmatched f rest) in *.
        rewrite Hg. split; [|split; [exact Hdocs|exact Hrest]].
        f_equal. f_equal. simpl List.length. lia.
    + destruct (IH (pre0 ++ [(k, d)]) (kept ++ [(k, d)]) c n) as (c' & Hg & Hdocs & Hrest).
      * rewrite <- app_assoc. exact Ho.
      * intros x Hin. unfold skeys in *. rewrite map_app in *. apply in_app_or in Hin.
        apply in_or_app. destruct Hin as [Hin|Hin]; [left; apply Hincl; exact Hin|right; exact Hin].
      * rewrite <- app_assoc. exact Hd.
      * exists c'. fold (matching f rest) in *. fold (unmatched f rest) in *.
        split; [exact Hg|]. rewrite <- app_assoc in Hdocs. split; [exact Hdocs|exact Hrest].
Qed.

Lemma delete_many_is_scan c fs c1 m :
  iter_documents c (patch (VDoc fs)) = Ok (c1, m) -> self_keyed (docs c1) ->
  exists c2, delete_op c (VDoc fs) true
             = (c2, Ok (VDoc [("deleted", VInt (Z.of_nat (List.length m)))]))
             /\ docs c2 = unmatched (patch (VDoc fs)) (docs c1)
             /\ idx c2 = idx c1 /\ now c2 = now c1 /\ next_oid c2 = next_oid c1.
Proof.
  intros H HS. pose proof (iter_documents_matching _ _ _ _ H) as Hm.
  unfold delete_op. rewrite (find_docs_scan c fs [] c1 m H). simpl.
  destruct (delete_go_many (patch (VDoc fs)) (docs c1) HS (docs c1) [] [] c1 0 eq_refl
              (fun x Hin => Hin) eq_refl) as (c2 & Hg & Hdocs & Hi & Hn & Ho & _).
  rewrite <- Hm in Hg. rewrite Hg. exists c2. simpl. repeat split; auto.
Qed.

(* delete_one: exactly the first element of m *)
Lemma delete_one_is_scan c fs c1 m :
  iter_documents c (patch (VDoc fs)) = Ok (c1, m) -> self_keyed (docs c1) ->
  match m with
  | [] => delete_op c (VDoc fs) false = (c1, Ok (VDoc [("deleted", VInt 0)]))
  | (k, d) :: _ =>
      exists pre post c2,
        docs c1 = pre ++ (k, d) :: post /\ Forall (ffalse (patch (VDoc fs))) pre
        /\ delete_op c (VDoc fs) false = (c2, Ok (VDoc [("deleted", VInt 1)]))
        /\ docs c2 = pre ++ post
        /\ idx c2 = idx c1 /\ now c2 = now c1 /\ next_oid c2 = next_oid c1
  end.
Proof.
  intros H HS. unfold delete_op. rewrite (find_docs_scan c fs [] c1 m H). simpl.
  destruct m as [| [k d] m]; [reflexivity|].
  destruct (scan_cons _ _ _ _ _ (proj2 (iter_documents_ok _ _ _ _ H))) as (pre & post & Hd & Hp & _).
  destruct (HS pre k d post Hd) as (id & Hid & Hk & Hpre).
  exists pre, post. simpl.
  destruct d as [| | | | | | | dfs |]; try discriminate. simpl in Hid. rewrite Hid.
  rewrite Hd, (store_get_hit pre k (VDoc dfs) post id Hpre Hk),
    (store_del_hit pre k (VDoc dfs) post id Hpre Hk).
  eexists. split; [reflexivity|]. split; [exact Hp|]. split; [reflexivity|].
  simpl. repeat split; reflexivity.
Qed.

(* conditional forms, no premise on the state: a successful delete reports length m *)
Lemma delete_many_count c fs c1 m c2 v :
  iter_documents c (patch (VDoc fs)) = Ok (c1, m) ->
  delete_op c (VDoc fs) true = (c2, Ok v) ->
  v = VDoc [("deleted", VInt (Z.of_nat (List.length m)))].
Proof.
  intros H. unfold delete_op. rewrite (find_docs_scan c fs [] c1 m H). simpl.
  destruct (delete_go c1 (map snd m) true 0) as [c' r] eqn:E.
  destruct r as [n|e]; simpl; [|discriminate]. intro H2. fin H2.
  apply delete_go_many_count in E. rewrite map_length in E. subst n. reflexivity.
Qed.

Lemma delete_one_count c fs c1 m c2 v :
  iter_documents c (patch (VDoc fs)) = Ok (c1, m) ->
  delete_op c (VDoc fs) false = (c2, Ok v) ->
  v = VDoc [("deleted", VInt (Z.min 1 (Z.of_nat (List.length m))))].
Proof.
  intros H. unfold delete_op. rewrite (find_docs_scan c fs [] c1 m H). simpl.
  destruct (delete_go c1 (map snd m) false 0) as [c' r] eqn:E.
  destruct r as [n|e]; simpl; [|discriminate]. intro H2. fin H2.
  apply delete_go_one_count in E. subst n. destruct m; simpl; [reflexivity|].
  do 4 f_equal. lia.
Qed.

(* ---------------------------------------------------------------- update: matched *)
Lemma update_loop_matched_many spec upd : forall todo c m md c' m' md',
  update_loop c spec upd true todo m md = (c', Ok (m', md')) ->
  exists mm, scan spec todo = Ok mm /\ m' = m + Z.of_nat (List.length mm).
Proof.
  induction todo as [| [k d] todo IH]; intros c m md c' m' md' H; cbn [update_loop] in H.
  - fin H. exists []. split; [reflexivity|simpl; lia].
  - cbn [scan]. destruct (filter_applies spec d) as [[|]|e] eqn:Ef; [| |discriminate].
    2:{ destruct (IH _ _ _ _ _ _ H) as (mm & Hs & Hm). exists mm. rewrite Hs. split; [reflexivity|exact Hm]. }
    assert (K : forall c0 md0, update_loop c0 spec upd true todo (m + 1) md0 = (c', Ok (m', md')) ->
                exists mm, (let! b := Ok true in let! r := scan spec todo in
                            Ok (if b then (k, d) :: r else r)) = Ok mm
                           /\ m' = m + Z.of_nat (List.length mm)).
    { intros c0 md0 H0. destruct (IH _ _ _ _ _ _ H0) as (mm & Hs & Hm).
      exists ((k, d) :: mm). rewrite Hs. split; [reflexivity|]. simpl List.length. lia. }
    destruct (apply_update spec upd false (now c) d) as [d'|e]; [|discriminate].
    destruct (py_eq d' d) eqn:Epy; cbn [negb] in H.
    + destruct (negb (value_eqb d' d) && py_in k (odocs c)); [discriminate|].
      exact (K _ _ H).
    + match type of H with context [if negb ?b then _ else _] => destruct (negb b) end;
        [discriminate|].
      destruct (match d with VDoc fs => assoc "_id" fs | _ => None end); [|discriminate].
      set (c1 := with_docs_w c (store_set k d' (docs c))) in H.
      destruct (ensure_uniques c1 d') as [touched|e].
      2:{ destruct e; try discriminate; destruct (expire c1); discriminate. }
      destruct (expire_if touched c1) as [c2|e]; [|discriminate].
      exact (K _ _ H).
Qed.

(* the single-document loop: the first matched document is the one touched *)
Definition touched_first (c c' : coll) (spec upd : value) (k d : value) (md md' : Z) : Prop :=
  exists d', apply_update spec upd false (now c) d = Ok d' /\
    ((py_eq d' d = true /\ c' = c /\ md' = md)
     \/ (py_eq d' d = false /\ md' = md + 1 /\
         (c' = with_docs_w c (store_set k d' (docs c))
          \/ expire (with_docs_w c (store_set k d' (docs c))) = Ok c'))).

Lemma update_loop_matched_one spec upd : forall todo c m md c' m' md' mm,
  update_loop c spec upd false todo m md = (c', Ok (m', md')) ->
  scan spec todo = Ok mm ->
  match mm with
  | [] => m' = m /\ c' = c /\ md' = md
  | (k, d) :: _ => m' = m + 1 /\ touched_first c c' spec upd k d md md'
  end.
Proof.
  induction todo as [| [k d] todo IH]; intros c m md c' m' md' mm H Hs; cbn [update_loop] in H.
  - simpl in Hs. fin Hs. fin H. repeat split; reflexivity.
  - cbn [scan] in Hs. destruct (filter_applies spec d) as [[|]|e] eqn:Ef; [| |discriminate].
    2:{ simpl in Hs. destruct (scan spec todo) as [r|e] eqn:Es; [|discriminate]. simpl in Hs.
        fin Hs. exact (IH _ _ _ _ _ _ _ H eq_refl). }
    simpl in Hs. destruct (scan spec todo) as [r|e]; [|discriminate]. simpl in Hs. fin Hs.
    unfold touched_first.
    destruct (apply_update spec upd false (now c) d) as [d'|e]; [|discriminate].
    destruct (py_eq d' d) eqn:Epy; cbn [negb] in H.
    + destruct (negb (value_eqb d' d) && py_in k (odocs c)); [discriminate|]. fin H.
      split; [reflexivity|]. exists d'. split; [reflexivity|]. left.
      split; [exact Epy|]. split; reflexivity.
    + match type of H with context [if negb ?b then _ else _] => destruct (negb b) end;
        [discriminate|].
      destruct (match d with VDoc fs => assoc "_id" fs | _ => None end); [|discriminate].
      set (c1 := with_docs_w c (store_set k d' (docs c))) in *.
      destruct (ensure_uniques c1 d') as [touched|e].
      2:{ destruct e; try discriminate; destruct (expire c1); discriminate. }
      destruct touched; simpl in H.
      * destruct (expire c1) as [c2|e] eqn:Ee; [|discriminate]. fin H.
        split; [reflexivity|]. exists d'. split; [reflexivity|]. right.
        split; [exact Epy|]. split; [reflexivity|]. right. exact Ee.
      * fin H. split; [reflexivity|]. exists d'. split; [reflexivity|]. right.
        split; [exact Epy|]. split; [reflexivity|]. left. reflexivity.
Qed.

Lemma patch_doc fs : exists sfs, patch (VDoc fs) = VDoc sfs.
Proof. simpl. eexists. reflexivity. Qed.

(* the wrapper without upsert, on a scan that succeeds *)
Lemma update_noupsert_unfold pre5 c fs u multi c1 m c' v :
  iter_documents c (patch (VDoc fs)) = Ok (c1, m) ->
  update pre5 c (VDoc fs) u multi false = (c', Ok v) ->
  exists matched modified,
    update_loop c1 (patch (VDoc fs)) (patch u) multi (docs c1) 0 0 = (c', Ok (matched, modified))
    /\ v = update_result matched modified None.
Proof.
  intros H HU. destruct (iter_documents_ok _ _ _ _ H) as [He _].
  destruct (iter_documents_pre _ _ _ _ H) as [b Hb].
  unfold update in HU. destruct (patch_doc fs) as [sfs Es]. rewrite Es in *.
  destruct (patch u) as [| | | | | | | ufs |]; try discriminate.
  destruct (empty_operator pre5 (VDoc ufs)); [discriminate|].
  rewrite He in HU. rewrite Hb in HU.
  destruct (update_loop c1 (VDoc sfs) (VDoc ufs) multi (docs c1) 0 0) as [c2 r].
  destruct r as [[matched modified]|e]; [|discriminate].
  cbn [negb orb] in HU. fin HU. exists matched, modified. split; reflexivity.
Qed.

Lemma update_op_is_update pre5 c f u multi upsert c' v :
  update_op pre5 c f u multi upsert = (c', Ok v) -> update pre5 c f u multi upsert = (c', Ok v).
Proof.
  unfold update_op. destruct u; try discriminate.
  destruct (first_key_dollar (VDoc fs)) as [[|]|]; try discriminate. exact (fun H => H).
Qed.

Lemma update_many_matched c1 m pre5 c fs u c' v :
  iter_documents c (patch (VDoc fs)) = Ok (c1, m) ->
  update_op pre5 c (VDoc fs) u true false = (c', Ok v) ->
  get_field "matched" v = Some (VInt (Z.of_nat (List.length m))).
Proof.
  intros H HU. apply update_op_is_update in HU.
  destruct (update_noupsert_unfold pre5 c fs u true c1 m c' v H HU) as (ma & mo & HL & ->).
  destruct (update_loop_matched_many _ _ _ _ _ _ _ _ _ HL) as (mm & Hs & ->).
  rewrite (proj2 (iter_documents_ok _ _ _ _ H)) in Hs. fin Hs. reflexivity.
Qed.

Lemma update_one_matched c1 m pre5 c fs u c' v :
  iter_documents c (patch (VDoc fs)) = Ok (c1, m) ->
  update_op pre5 c (VDoc fs) u false false = (c', Ok v) ->
  get_field "matched" v = Some (VInt (Z.min 1 (Z.of_nat (List.length m)))) /\
  match m with
  | [] => c' = c1 /\ get_field "modified" v = Some (VInt 0)
  | (k, d) :: _ =>
      exists md', get_field "modified" v = Some (VInt md') /\
                  touched_first c1 c' (patch (VDoc fs)) (patch u) k d 0 md'
  end.
Proof.
  intros H HU. apply update_op_is_update in HU.
  destruct (update_noupsert_unfold pre5 c fs u false c1 m c' v H HU) as (ma & mo & HL & ->).
  pose proof (update_loop_matched_one _ _ _ _ _ _ _ _ _ m HL (proj2 (iter_documents_ok _ _ _ _ H)))
    as HM.
  destruct m as [| [k d] m].
  - destruct HM as (-> & -> & ->). repeat split; reflexivity.
  - destruct HM as (-> & HT). split.
    + simpl get_field. do 2 f_equal. simpl List.length. lia.
    + exists mo. split; [reflexivity|exact HT].
Qed.

(* the total form: no unique index, the update applies cleanly to every matched document *)
Definition no_unique (c : coll) : Prop := Forall (fun i => iunique i = false) (idx c).

Lemma ensure_uniques_l_none : forall is c new t,
  Forall (fun i => iunique i = false) is -> ensure_uniques_l is c new t = Ok t.
Proof.
  induction is as [| i is IH]; intros c new t H; simpl; [reflexivity|].
  inversion H as [| ? ? Hi Hl]; subst. rewrite Hi. simpl. apply IH. exact Hl.
Qed.

Lemma ensure_uniques_none c new : no_unique c -> ensure_uniques c new = Ok false.
Proof. intro H. apply ensure_uniques_l_none. exact H. Qed.

(* the update applies to (k, d): it yields d', and d' is acceptable to the loop *)
Definition applies_cleanly (spec upd : value) (nw : Z) (od : list value) (kd : value * value)
  : Prop :=
  exists d', apply_update spec upd false nw (snd kd) = Ok d' /\
    if py_eq d' (snd kd)
    then (value_eqb d' (snd kd) || negb (py_in (fst kd) od)) = true
    else exists a b, doc_id (snd kd) = Some a /\ doc_id d' = Some b /\ py_eq a b = true.

Lemma update_loop_total spec upd : forall todo c m md,
  no_unique c ->
  Forall (fun kd => is_match spec kd = true -> applies_cleanly spec upd (now c) (odocs c) kd) todo ->
  Forall (fun kd => exists b, filter_applies spec (snd kd) = Ok b) todo ->
  exists c' md',
    update_loop c spec upd true todo m md
    = (c', Ok (m + Z.of_nat (List.length (matching spec todo)), md'))
    /\ idx c' = idx c /\ now c' = now c /\ odocs c' = odocs c /\ next_oid c' = next_oid c.
Proof.
  induction todo as [| [k d] todo IH]; intros c m md HU HA HF; cbn [update_loop].
  - exists c, md. simpl. rewrite Z.add_0_r. repeat split; reflexivity.
  - inversion HA as [| ? ? Ha HA']; subst. inversion HF as [| ? ? [b Hb] HF']; subst.
    unfold matching. cbn [List.filter]. unfold is_match at 1. unfold is_match in Ha.
    cbn [snd fst] in *. rewrite Hb in *. fold (matching spec todo). destruct b.
    2:{ exact (IH c m md HU HA' HF'). }
    destruct (Ha eq_refl) as (d' & Hd' & Hok). simpl in Hd', Hok. rewrite Hd'.
    assert (K : forall c0 md0, no_unique c0 -> now c0 = now c -> odocs c0 = odocs c ->
                idx c0 = idx c -> next_oid c0 = next_oid c ->
                exists c' md', update_loop c0 spec upd true todo (m + 1) md0
                  = (c', Ok (m + Z.of_nat (List.length ((k, d) :: matching spec todo)), md'))
                  /\ idx c' = idx c /\ now c' = now c /\ odocs c' = odocs c
                  /\ next_oid c' = next_oid c).
    { intros c0 md0 HU0 Hn0 Ho0 Hi0 Hx0.
      destruct (IH c0 (m + 1) md0 HU0) as (c' & md' & HL & Hi & Hn & Ho & Hx).
      - rewrite Hn0, Ho0. exact HA'.
      - exact HF'.
      - exists c', md'. rewrite HL. split.
        + do 3 f_equal. simpl List.length. lia.
        + repeat split; congruence. }
    destruct (py_eq d' d) eqn:Epy; cbn [negb].
    + apply orb_true_iff in Hok.
      assert (E : negb (value_eqb d' d) && py_in k (odocs c) = false).
      { destruct Hok as [-> | Hok]; [reflexivity|]. apply negb_true_iff in Hok. rewrite Hok.
        apply andb_false_r. }
      rewrite E. apply K; auto.
    + destruct Hok as (a & b0 & Hida & Hidb & Hab).
      unfold doc_id in Hida, Hidb. rewrite Hida, Hidb, Hab. cbn [negb].
      set (c1 := with_docs_w c (store_set k d' (docs c))).
      rewrite (ensure_uniques_none c1 d' HU). simpl expire_if. cbv iota.
      apply K; auto.
Qed.

Lemma scan_all_ok f : forall l m, scan f l = Ok m ->
  Forall (fun kd => exists b, filter_applies f (snd kd) = Ok b) l.
Proof.
  induction l as [| [k d] l IH]; intros m H; [constructor|]. simpl in H.
  destruct (filter_applies f d) as [b|e] eqn:Ef; simpl in H; [|discriminate].
  destruct (scan f l) as [r|e]; simpl in H; [|discriminate].
  constructor; [exists b; exact Ef|exact (IH r eq_refl)].
Qed.

Lemma expire_index_frame i c c' :
  expire_index i c = Ok c' ->
  idx c' = idx c /\ now c' = now c /\ odocs c' = odocs c /\ next_oid c' = next_oid c.
Proof.
  unfold expire_index. destruct (ittl i); [|intro H; fin H; auto].
  destruct (ttl_seconds v) as [[s|]|e]; simpl; try discriminate; [|intro H; fin H; auto].
  destruct (ikey i) as [| [fld dir] [| ? ?]]; try (intro H; fin H; auto; fail).
  destruct (existsb _ _); [discriminate|]. intro H. fin H. auto.
Qed.

Lemma expire_frame c c1 :
  expire c = Ok c1 ->
  idx c1 = idx c /\ now c1 = now c /\ odocs c1 = odocs c /\ next_oid c1 = next_oid c.
Proof.
  unfold expire.
  assert (G : forall l a, idx a = idx c /\ now a = now c /\ odocs a = odocs c /\ next_oid a = next_oid c ->
            fold_left (fun acc i => let! c' := acc in expire_index i c') l (Ok a) = Ok c1 ->
            idx c1 = idx c /\ now c1 = now c /\ odocs c1 = odocs c /\ next_oid c1 = next_oid c).
  { induction l as [| i l IH]; intros a Ha H; simpl in H.
    - fin H. exact Ha.
    - destruct (expire_index i a) as [a'|e] eqn:E.
      + apply (IH a'); [|exact H]. destruct (expire_index_frame i a a' E) as (H1 & H2 & H3 & H4).
        destruct Ha as (G1 & G2 & G3 & G4). repeat split; congruence.
      + exfalso. clear -H. induction l as [| j l IHl]; simpl in H; [discriminate|auto]. }
  apply G. auto.
Qed.

Lemma update_many_total pre5 c fs ufs c1 m :
  iter_documents c (patch (VDoc fs)) = Ok (c1, m) ->
  first_key_dollar (VDoc ufs) = Some true ->
  empty_operator pre5 (patch (VDoc ufs)) = false ->
  no_unique c ->
  Forall (applies_cleanly (patch (VDoc fs)) (patch (VDoc ufs)) (now c) (odocs c)) m ->
  exists c' md,
    update_op pre5 c (VDoc fs) (VDoc ufs) true false
    = (c', Ok (update_result (Z.of_nat (List.length m)) md None)).
Proof.
  intros H Hfk He HU HA. destruct (iter_documents_ok _ _ _ _ H) as [Hx Hs].
  destruct (iter_documents_pre _ _ _ _ H) as [b Hb].
  destruct (expire_frame c c1 Hx) as (Hi & Hn & Ho & _).
  pose proof (scan_matching _ _ _ Hs) as Hm.
  unfold update_op. rewrite Hfk. unfold update.
  destruct (patch_doc fs) as [sfs Es]. destruct (patch_doc ufs) as [pufs Eu].
  rewrite Es, Eu in *. rewrite He, Hx, Hb.
  destruct (update_loop_total (VDoc sfs) (VDoc pufs) (docs c1) c1 0 0) as (c' & md' & HL & _).
  - unfold no_unique. rewrite Hi. exact HU.
  - rewrite Forall_forall. intros kd Hin Hmt. rewrite Hn, Ho.
    rewrite Forall_forall in HA. apply HA. rewrite Hm. apply filter_In. split; assumption.
  - exact (scan_all_ok _ _ _ Hs).
  - rewrite HL. rewrite <- Hm. simpl Z.add. cbn [negb orb].
    exists c', md'. reflexivity.
Qed.

(* ---------------------------------------------------------------- distinct on _id *)
Definition id_vals (m : store) : list value :=
  flat_map (fun kd => match doc_id (snd kd) with
                      | None => []
                      | Some (VArr xs) => xs
                      | Some v => [v]
                      end) m.

Lemma distinct_vals_id : forall (m : store), docs_only m ->
  flat_map (fun d => flat_map (fun cnd => match cnd with
                                          | None => []
                                          | Some (VArr xs) => xs
                                          | Some v => [v]
                                          end) (candidates (split_dots "_id") d)) (map snd m)
  = id_vals m.
Proof.
  induction m as [| [k d] m IH]; intro H; [reflexivity|].
  inversion H as [| ? ? Hd Hm]; subst. simpl in Hd. destruct d; try discriminate.
  simpl map. cbn [flat_map]. rewrite (IH Hm). unfold id_vals at 2. cbn [flat_map].
  f_equal. change (split_dots "_id") with ["_id"]. simpl. rewrite app_nil_r. reflexivity.
Qed.

Lemma distinct_is_scan_gen c fs c1 m :
  iter_documents c (patch (VDoc fs)) = Ok (c1, m) -> docs_only m ->
  distinct_op c "_id" (VDoc fs)
  = if existsb (fun v => negb (hashable_top v)) (id_vals m)
    then (c1, Err EType)
    else (c1, Ok (VDoc [("$set", VArr (dedup (id_vals m)))])).
Proof.
  intros H HD. unfold distinct_op.
  change (path_modelled (split_dots "_id")) with true. cbn [negb].
  rewrite (find_docs_scan c fs [] c1 m H). simpl bind. cbv iota.
  rewrite (distinct_vals_id m HD). reflexivity.
Qed.

Definition ids_of (m : store) : list value :=
  map (fun kd => match doc_id (snd kd) with Some i => i | None => VNull end) m.

Lemma id_vals_ids : forall m,
  Forall (fun kd => exists i, doc_id (snd kd) = Some i /\ is_arr i = false) m ->
  id_vals m = ids_of m.
Proof.
  induction m as [| kd m IH]; intro H; [reflexivity|].
  inversion H as [| ? ? (i & Hi & Ha) Hm]; subst.
  unfold id_vals, ids_of. cbn [flat_map map]. rewrite Hi.
  fold (id_vals m). fold (ids_of m). rewrite (IH Hm). destruct i; try discriminate; reflexivity.
Qed.

Lemma dedup_go_knd : forall l acc,
  knd l -> (forall a v, In a acc -> In v l -> py_eq a v = false) ->
  fold_left (fun acc v => if py_in v acc then acc else acc ++ [v]) l acc = acc ++ l.
Proof.
  induction l as [| v l IH]; intros acc HK HA; simpl; [rewrite app_nil_r; reflexivity|].
  destruct HK as [Hv HK].
  assert (E : py_in v acc = false).
  { unfold py_in. destruct (existsb (fun y => py_eq y v) acc) eqn:Ex; [|reflexivity].
    apply existsb_exists in Ex. destruct Ex as (a & Hin & Ha).
    rewrite (HA a v Hin (or_introl eq_refl)) in Ha. discriminate. }
  rewrite E, IH; [rewrite <- app_assoc; reflexivity|exact HK|].
  intros a w Hin Hw. apply in_app_or in Hin. destruct Hin as [Hin|[<-|[]]].
  - apply HA; [exact Hin|right; exact Hw].
  - apply Hv. exact Hw.
Qed.

Lemma dedup_knd l : knd l -> dedup l = l.
Proof. intro H. unfold dedup. rewrite dedup_go_knd; [reflexivity|exact H|intros a v []]. Qed.

Lemma distinct_is_scan c fs c1 m :
  iter_documents c (patch (VDoc fs)) = Ok (c1, m) ->
  Forall (fun kd => exists i, doc_id (snd kd) = Some i /\ is_arr i = false) m ->
  forallb hashable_top (ids_of m) = true ->
  distinct_op c "_id" (VDoc fs) = (c1, Ok (VDoc [("$set", VArr (dedup (ids_of m)))])).
Proof.
  intros H HI HH.
  assert (HD : docs_only m).
  { unfold docs_only. rewrite Forall_forall in *. intros kd Hin.
    destruct (HI kd Hin) as (i & Hi & _). destruct (snd kd); try discriminate. reflexivity. }
  rewrite (distinct_is_scan_gen c fs c1 m H HD), (id_vals_ids m HI).
  destruct (existsb (fun v => negb (hashable_top v)) (ids_of m)) eqn:E; [|reflexivity].
  apply existsb_exists in E. destruct E as (v & Hin & Hv).
  rewrite forallb_forall in HH. rewrite (HH v Hin) in Hv. discriminate.
Qed.

(* ---------------------------------------------------------------- the corollary *)
Lemma min1_target {A} (m : list A) : Z.min 1 (Z.of_nat (List.length m)) = 1 <-> m <> [].
Proof.
  destruct m; simpl List.length; split; intro H; try lia; try congruence.
Qed.

Lemma hd_target (m : store) : hd_error (map snd m) <> None <-> m <> [].
Proof. destruct m; simpl; split; intro H; congruence. Qed.

(* no premise on the state: whatever succeeds reports length m *)
Lemma entry_points_agree_cond pre5 c fs c1 m :
  iter_documents c (patch (VDoc fs)) = Ok (c1, m) ->
  let f := VDoc fs in
  let n := Z.of_nat (List.length m) in
  count_op c f 0 None = (c1, Ok (VInt n))
  /\ (forall c' v, find_op c f None [] 0 0 = (c', Ok v) -> c' = c1 /\ v = VArr (map snd m))
  /\ (forall c' v, delete_op c f true = (c', Ok v) -> v = VDoc [("deleted", VInt n)])
  /\ (forall u c' v, update_op pre5 c f u true false = (c', Ok v) ->
                     get_field "matched" v = Some (VInt n))
  /\ (forall c' v, delete_op c f false = (c', Ok v) -> v = VDoc [("deleted", VInt (Z.min 1 n))])
  /\ (forall u c' v, update_op pre5 c f u false false = (c', Ok v) ->
                     get_field "matched" v = Some (VInt (Z.min 1 n))).
Proof.
  intros H f n. split; [exact (count_is_scan c fs c1 m H)|].
  split.
  { intros c' v HF. unfold f in HF. rewrite (find_is_scan_gen c fs None [] 0 0 c1 m H) in HF.
    simpl in HF. destruct (project_all None (map snd m)) as [l|e] eqn:E; [|discriminate].
    apply project_all_none in E. subst l. fin HF. split; reflexivity. }
  split; [intros c' v HD; exact (delete_many_count c fs c1 m c' v H HD)|].
  split; [intros u c' v HU; exact (update_many_matched c1 m pre5 c fs u c' v H HU)|].
  split; [intros c' v HD; exact (delete_one_count c fs c1 m c' v H HD)|].
  intros u c' v HU. exact (proj1 (update_one_matched c1 m pre5 c fs u c' v H HU)).
Qed.

(* on a self-keyed store the reads and deletes also succeed *)
Lemma entry_points_agree pre5 c fs c1 m :
  iter_documents c (patch (VDoc fs)) = Ok (c1, m) ->
  self_keyed (docs c1) ->
  let f := VDoc fs in
  let n := Z.of_nat (List.length m) in
  (* the four counts *)
  count_op c f 0 None = (c1, Ok (VInt n))
  /\ (exists l, find_op c f None [] 0 0 = (c1, Ok (VArr l)) /\ Z.of_nat (List.length l) = n)
  /\ (exists c2, delete_op c f true = (c2, Ok (VDoc [("deleted", VInt n)])))
  /\ (forall u c' v, update_op pre5 c f u true false = (c', Ok v) ->
                     get_field "matched" v = Some (VInt n))
  (* the _one variants: a target iff m <> [] *)
  /\ (exists t, find_one c f None [] = (c1, Ok t) /\ (t <> None <-> m <> []))
  /\ (exists c2 k, delete_op c f false = (c2, Ok (VDoc [("deleted", VInt k)]))
                   /\ (k = 1 <-> m <> []) /\ (k = 0 <-> m = []))
  /\ (forall u c' v, update_op pre5 c f u false false = (c', Ok v) ->
        exists k, get_field "matched" v = Some (VInt k)
                  /\ (k = 1 <-> m <> []) /\ (k = 0 <-> m = [])).
Proof.
  intros H HS f n.
  assert (HD : docs_only m).
  { rewrite (iter_documents_matching _ _ _ _ H). apply docs_only_matching.
    apply self_keyed_docs_only. exact HS. }
  assert (M0 : forall k, k = Z.min 1 n -> (k = 1 <-> m <> []) /\ (k = 0 <-> m = [])).
  { intros k ->. unfold n. destruct m; simpl List.length; split; split; intro; try lia;
      try congruence; try discriminate. }
  split; [exact (count_is_scan c fs c1 m H)|].
  split.
  { exists (map snd m). split; [exact (find_is_scan c fs c1 m H HD)|]. rewrite map_length. reflexivity. }
  split.
  { destruct (delete_many_is_scan c fs c1 m H HS) as (c2 & HDl & _). exists c2. exact HDl. }
  split; [intros u c' v HU; exact (update_many_matched c1 m pre5 c fs u c' v H HU)|].
  split.
  { exists (hd_error (map snd m)). split; [exact (find_one_is_scan c fs c1 m H HD)|apply hd_target]. }
  split.
  { pose proof (delete_one_is_scan c fs c1 m H HS) as HDl. destruct m as [| [k d] m'].
    - exists c1, 0. split; [exact HDl|]. split; split; intro; try lia; congruence.
    - destruct HDl as (pre & post & c2 & _ & _ & HDl & _). exists c2, 1.
      split; [exact HDl|]. split; split; intro; try lia; try congruence; discriminate. }
  intros u c' v HU. exists (Z.min 1 n).
  split; [exact (proj1 (update_one_matched c1 m pre5 c fs u c' v H HU))|]. apply M0. reflexivity.
Qed.
