(* C13 proofs, part 4: the last clause of c13_upsert_ok - "an equality-only filter the update
   does not overwrite is matched by the upserted document" - for filters with DOTTED keys
   ("a.b": 1, "a.b.c": {$eq: 1}).

   The value a filter key's path holds is followed through the whole upsert with `dget`
   (descent through sub-documents only):
     expand_dots    puts every field's operand at its path (no filter key is a prefix of
                    another: c13_odd_filter), and every path of the result is comparable
                    with a filter key (so the documents along a key's path have no '$' key);
     discard_ops    turns the operand into its literal there;
     apply_update   is a chain of local rewrites along the update's paths, none of which is
                    comparable with the filter key (that is when the clause is demanded): the
                    value at the key's path stays (the frame lemma local_dget);
     insert_doc     appends at most an _id and normalises (patch commutes with dget);
     the matcher    has exactly one candidate along a path that descends through documents.
   No further screen is needed: the clause holds for every filter inside c13_undecided. *)
From Coq Require Import ZArith List String Bool Ascii Lia.
From Verif Require Import Value PyEq BsonOrder Path Filter FilterSpec Update Project Coll
                          HistCheck HistProps HistGuards HistPropCheck ProjectSpec Cursor UpdateLaws.
From Verif.Proofs Require Import C01Values C01Loop C12Base C02Base C02Frame C02Local C02Ops C02Wf.
From Verif.Proofs Require C02Step C02History C02Replace C05Values C15Proofs.
From Verif.Proofs Require Import C13Proofs C13Id C13Match.
Import ListNotations.
Open Scope Z_scope.
Open Scope string_scope.
Open Scope list_scope.

(* ---------------------------------------------------------------- descent through documents *)
Fixpoint dget (q : list string) (d : value) : option value :=
  match q with
  | [] => Some d
  | p :: rest =>
      match d with
      | VDoc fs => match assoc p fs with Some v => dget rest v | None => None end
      | _ => None
      end
  end.

Definition cmp (a b : list string) : bool := is_prefix_parts a b || is_prefix_parts b a.

Lemma paths_overlap_cmp p q : paths_overlap p q = cmp (split_dots p) (split_dots q).
Proof. reflexivity. Qed.

Lemma cmp_sym a b : cmp a b = cmp b a.
Proof. unfold cmp. apply orb_comm. Qed.

Lemma cmp_nil_r a : cmp a [] = true.
Proof. unfold cmp. destruct a; reflexivity. Qed.

Lemma cmp_nil_l a : cmp [] a = true.
Proof. reflexivity. Qed.

Lemma cmp_cons_same p a b : cmp (p :: a) (p :: b) = cmp a b.
Proof. unfold cmp. cbn [is_prefix_parts]. rewrite String.eqb_refl. reflexivity. Qed.

Lemma cmp_cons_diff p q a b : (p =? q) = false -> cmp (p :: a) (q :: b) = false.
Proof.
  intro E. unfold cmp. cbn [is_prefix_parts]. rewrite E, (String.eqb_sym q p), E. reflexivity.
Qed.

Lemma cmp_cons p q a b : cmp (p :: a) (q :: b) = (p =? q) && cmp a b.
Proof.
  destruct (p =? q) eqn:E.
  - apply String.eqb_eq in E. subst q. apply cmp_cons_same.
  - apply cmp_cons_diff. exact E.
Qed.

Lemma pre_refl a : is_prefix_parts a a = true.
Proof. induction a as [|x a IH]; [reflexivity|]. cbn. rewrite String.eqb_refl. exact IH. Qed.

Lemma dget_app a : forall b d, dget (a ++ b) d = match dget a d with Some y => dget b y | None => None end.
Proof.
  induction a as [|p a IH]; intros b d; [reflexivity|].
  cbn [app dget]. destruct d as [| | | | | | |fs|]; try reflexivity.
  destruct (assoc p fs); [apply IH|reflexivity].
Qed.

Lemma dget_nondoc p rest d : is_doc d = false -> dget (p :: rest) d = None.
Proof. destruct d; try reflexivity. discriminate. Qed.

Lemma dget_wf : forall q d y, WF d -> dget q d = Some y -> WF y.
Proof.
  induction q as [|p rest IH]; intros d y Hw H.
  - inversion H; subst. exact Hw.
  - destruct d as [| | | | | | |fs|]; try discriminate. cbn [dget] in H.
    destruct (assoc p fs) as [v|] eqn:Ea; [|discriminate].
    apply (IH v y); [|exact H]. exact (wf_doc_assoc _ _ _ Hw Ea).
Qed.

(* ---------------------------------------------------------------- _expand_dots, one key *)
Lemma expand_set_get : forall parts v e r,
  parts <> [] -> expand_set parts v e = Ok r -> dget parts (VDoc r) = Some v.
Proof.
  induction parts as [|p parts IH]; intros v e r Hne H; [congruence|].
  destruct parts as [|p2 rest].
  - simpl in H. inversion H; subst. cbn [dget]. rewrite C12Base.assoc_set_key, String.eqb_refl.
    reflexivity.
  - rewrite expand_set_cons2 in H.
    destruct (assoc p e) as [[| | | | | | |sub|]|]; try discriminate.
    + destruct (expand_set (p2 :: rest) v sub) as [sub'|] eqn:Es; simpl in H; [|discriminate].
      inversion H; subst. change (dget (p :: p2 :: rest) (VDoc (set_key p (VDoc sub') e)))
        with (match assoc p (set_key p (VDoc sub') e) with
              | Some y => dget (p2 :: rest) y | None => None end).
      rewrite C12Base.assoc_set_key, String.eqb_refl. apply (IH v sub); [discriminate|exact Es].
    + destruct (expand_set (p2 :: rest) v []) as [sub'|] eqn:Es; simpl in H; [|discriminate].
      inversion H; subst. change (dget (p :: p2 :: rest) (VDoc (set_key p (VDoc sub') e)))
        with (match assoc p (set_key p (VDoc sub') e) with
              | Some y => dget (p2 :: rest) y | None => None end).
      rewrite C12Base.assoc_set_key, String.eqb_refl. apply (IH v []); [discriminate|exact Es].
Qed.

Lemma dget_cons p rest fs :
  dget (p :: rest) (VDoc fs) = match assoc p fs with Some y => dget rest y | None => None end.
Proof. reflexivity. Qed.

Lemma expand_set_frame : forall parts v e r q w,
  expand_set parts v e = Ok r -> cmp parts q = false ->
  dget q (VDoc e) = Some w -> dget q (VDoc r) = Some w.
Proof.
  induction parts as [|p parts IH]; intros v e r q w H Hc Hq; [discriminate Hc|].
  destruct q as [|q0 qr]; [rewrite cmp_nil_r in Hc; discriminate|].
  rewrite cmp_cons in Hc. rewrite dget_cons in *.
  destruct parts as [|p2 rest].
  - simpl in H. inversion H; subst. rewrite C12Base.assoc_set_key.
    destruct (q0 =? p) eqn:E; [|exact Hq].
    rewrite String.eqb_sym, E in Hc. discriminate Hc.
  - rewrite expand_set_cons2 in H.
    destruct (q0 =? p) eqn:E.
    + apply String.eqb_eq in E. subst q0. rewrite String.eqb_refl in Hc. cbn [andb] in Hc.
      destruct (assoc p e) as [[| | | | | | |sub|]|]; try discriminate.
      destruct (expand_set (p2 :: rest) v sub) as [sub'|] eqn:Es; simpl in H; [|discriminate].
      inversion H; subst. rewrite C12Base.assoc_set_key, String.eqb_refl.
      exact (IH v sub sub' qr w Es Hc Hq).
    + assert (Hr : exists x, r = set_key p x e).
      { destruct (assoc p e) as [[| | | | | | |sub|]|]; try discriminate.
        - destruct (expand_set (p2 :: rest) v sub); simpl in H; [|discriminate]. inversion H; eauto.
        - destruct (expand_set (p2 :: rest) v []); simpl in H; [|discriminate]. inversion H; eauto. }
      destruct Hr as [x ->]. rewrite C12Base.assoc_set_key, E. exact Hq.
Qed.

(* every path of the result is comparable with the key's, or was there before *)
Lemma expand_set_reach : forall parts v e r q y,
  expand_set parts v e = Ok r -> q <> [] -> dget q (VDoc r) = Some y ->
  cmp parts q = true \/ dget q (VDoc e) = Some y.
Proof.
  induction parts as [|p parts IH]; intros v e r q y H Hne Hq; [left; reflexivity|].
  destruct q as [|q0 qr]; [congruence|].
  rewrite cmp_cons. rewrite dget_cons in *.
  destruct (q0 =? p) eqn:E.
  - apply String.eqb_eq in E. subst q0. rewrite String.eqb_refl. cbn [andb].
    destruct parts as [|p2 rest]; [left; reflexivity|].
    destruct qr as [|q1 qr']; [left; apply cmp_nil_r|].
    rewrite expand_set_cons2 in H.
    destruct (assoc p e) as [[| | | | | | |sub|]|] eqn:Ea; try discriminate.
    + destruct (expand_set (p2 :: rest) v sub) as [sub'|] eqn:Es; simpl in H; [|discriminate].
      inversion H; subst. rewrite C12Base.assoc_set_key, String.eqb_refl in Hq.
      destruct (IH v sub sub' (q1 :: qr') y Es ltac:(discriminate) Hq) as [Hc|Hc]; auto.
    + destruct (expand_set (p2 :: rest) v []) as [sub'|] eqn:Es; simpl in H; [|discriminate].
      inversion H; subst. rewrite C12Base.assoc_set_key, String.eqb_refl in Hq.
      destruct (IH v [] sub' (q1 :: qr') y Es ltac:(discriminate) Hq) as [Hc|Hc]; auto.
  - right.
    assert (Hr : exists x, r = set_key p x e).
    { destruct (expand_set_top _ _ _ _ H) as [[Hx _]|[p' [rest' [x [Hp ->]]]]]; [discriminate|].
      inversion Hp; subst. eauto. }
    destruct Hr as [x ->]. rewrite C12Base.assoc_set_key, E in Hq. exact Hq.
Qed.

(* ---------------------------------------------------------------- _expand_dots, all keys *)
Lemma go_frame : forall fs e paths r q w,
  expand_dots_go fs e paths = Ok r ->
  (forall k, In k (map fst fs) -> cmp (split_dots k) q = false) ->
  dget q (VDoc e) = Some w -> dget q (VDoc r) = Some w.
Proof.
  induction fs as [|[k0 x0] fs IH]; intros e paths r q w H Hc Hq; simpl in H.
  - inversion H; subst. exact Hq.
  - destruct (mem_str k0 paths); [discriminate|].
    destruct (expand_set (split_dots k0) x0 e) as [e'|] eqn:Es; simpl in H; [|discriminate].
    apply (IH _ _ _ _ _ H); [intros k Hk; apply Hc; right; exact Hk|].
    apply (expand_set_frame _ _ _ _ _ _ Es); [apply Hc; left; reflexivity|exact Hq].
Qed.

Definition sep (ks : list string) : Prop :=
  forall k k', In k ks -> In k' ks -> k <> k' -> cmp (split_dots k) (split_dots k') = false.

Lemma go_get : forall fs e paths r,
  expand_dots_go fs e paths = Ok r -> NoDup (map fst fs) -> sep (map fst fs) ->
  forall k x, In (k, x) fs -> dget (split_dots k) (VDoc r) = Some x.
Proof.
  induction fs as [|[k0 x0] fs IH]; intros e paths r H Hnd Hsep k x Hin; [contradiction|].
  simpl in H. destruct (mem_str k0 paths); [discriminate|].
  destruct (expand_set (split_dots k0) x0 e) as [e'|] eqn:Es; simpl in H; [|discriminate].
  cbn [map fst] in Hnd, Hsep. inversion Hnd as [|? ? Hni Hnd']; subst.
  destruct Hin as [Hin|Hin].
  - inversion Hin; subst k0 x0.
    apply (go_frame _ _ _ _ _ _ H).
    + intros k' Hk'. apply Hsep; [right; exact Hk'|left; reflexivity|].
      intro; subst k'. contradiction.
    + apply (expand_set_get _ _ _ _ (split_dots_nonnil k) Es).
  - apply (IH _ _ _ H Hnd'); [|exact Hin].
    intros a b Ha Hb. apply Hsep; right; assumption.
Qed.

Lemma go_reach : forall fs e paths r q y,
  expand_dots_go fs e paths = Ok r -> q <> [] -> dget q (VDoc r) = Some y ->
  (exists k, In k (map fst fs) /\ cmp (split_dots k) q = true) \/ dget q (VDoc e) = Some y.
Proof.
  induction fs as [|[k0 x0] fs IH]; intros e paths r q y H Hne Hq; simpl in H.
  - inversion H; subst. right. exact Hq.
  - destruct (mem_str k0 paths); [discriminate|].
    destruct (expand_set (split_dots k0) x0 e) as [e'|] eqn:Es; simpl in H; [|discriminate].
    destruct (IH _ _ _ _ _ H Hne Hq) as [[k [Hk Hc]]|Hq'].
    + left. exists k. split; [right; exact Hk|exact Hc].
    + destruct (expand_set_reach _ _ _ _ _ _ Es Hne Hq') as [Hc|Hq0].
      * left. exists k0. split; [left; reflexivity|exact Hc].
      * right. exact Hq0.
Qed.

(* ---------------------------------------------------------------- prefixes *)
Lemma pre_app a b : is_prefix_parts a (a ++ b) = true.
Proof. induction a as [|x a IH]; [reflexivity|]. cbn. rewrite String.eqb_refl. exact IH. Qed.

Lemma pre_trans a : forall b c,
  is_prefix_parts a b = true -> is_prefix_parts b c = true -> is_prefix_parts a c = true.
Proof.
  induction a as [|x a IH]; intros b c H1 H2; [reflexivity|].
  destruct b as [|y b]; [discriminate|]. destruct c as [|z c]; [discriminate|].
  cbn in *. apply andb_true_iff in H1. destruct H1 as [E1 H1].
  apply andb_true_iff in H2. destruct H2 as [E2 H2].
  apply String.eqb_eq in E1. apply String.eqb_eq in E2. subst. rewrite String.eqb_refl.
  exact (IH _ _ H1 H2).
Qed.

(* a prefix of b ++ [x] is b ++ [x] itself or a prefix of b *)
Lemma pre_snoc a : forall b x,
  is_prefix_parts a (b ++ [x]) = true -> a = b ++ [x] \/ is_prefix_parts a b = true.
Proof.
  induction a as [|y a IH]; intros b x H; [right; reflexivity|].
  destruct b as [|z b].
  - cbn in H. apply andb_true_iff in H. destruct H as [E H]. apply String.eqb_eq in E. subst y.
    destruct a; [left; reflexivity|discriminate].
  - cbn in H. apply andb_true_iff in H. destruct H as [E H]. apply String.eqb_eq in E. subst y.
    destruct (IH _ _ H) as [->|H']; [left; reflexivity|right].
    cbn. rewrite String.eqb_refl. exact H'.
Qed.

Lemma pre_snoc_in a : forall b x, is_prefix_parts (a ++ [x]) b = true -> In x b.
Proof.
  induction a as [|y a IH]; intros b x H; destruct b as [|z b]; try discriminate.
  - cbn in H. apply andb_true_iff in H. destruct H as [E _]. apply String.eqb_eq in E. left. auto.
  - cbn in H. apply andb_true_iff in H. destruct H as [_ H]. right. exact (IH _ _ H).
Qed.

Lemma pre_longer a x b : is_prefix_parts (a ++ x :: b) a = false.
Proof.
  induction a as [|y a IH]; [reflexivity|]. cbn. rewrite String.eqb_refl. exact IH.
Qed.

Lemma In_key_assoc {A} k (l : list (string * A)) : In k (map fst l) -> exists v, assoc k l = Some v.
Proof.
  induction l as [|[k' v'] l IH]; [contradiction|]. cbn [map fst assoc].
  destruct (k =? k') eqn:E; [eauto|]. intros [H|H]; [|exact (IH H)].
  subst. rewrite String.eqb_refl in E. discriminate.
Qed.

(* ---------------------------------------------------------------- _discard_operators *)
(* along the path: the documents have well-formed keys, none starting with '$' *)
Fixpoint clean_along (q : list string) (d : value) : Prop :=
  match q with
  | [] => True
  | p :: rest =>
      match d with
      | VDoc fs => (forall k, In k (map fst fs) -> starts_dollar k = false) /\
                   NoDup (map fst fs) /\
                   forall y, assoc p fs = Some y -> clean_along rest y
      | _ => True
      end
  end.

Lemma dgo_full : forall fs acc,
  (forall k, In k (map fst fs) -> starts_dollar k = false) ->
  dgo fs acc = (VDoc (acc ++ flat_map dkeep fs),
                match acc ++ flat_map dkeep fs with [] => true | _ => false end).
Proof.
  induction fs as [|[k x] fs IH]; intros acc Hk.
  - rewrite dgo_nil. cbn [flat_map]. rewrite app_nil_r. reflexivity.
  - assert (Hk0 : starts_dollar k = false) by (apply Hk; left; reflexivity).
    rewrite dgo_cons, (C02Replace.sd_neq k "$eq" Hk0 eq_refl), Hk0.
    simpl flat_map. unfold dkeep at 1 3. simpl fst. simpl snd.
    destruct (discard_ops x) as [x' disc].
    rewrite IH by (intros k0 H0; apply Hk; right; exact H0).
    destruct disc; [reflexivity|]. rewrite <- app_assoc. reflexivity.
Qed.

Lemma discard_along : forall q d x,
  clean_along q d -> dget q d = Some x -> eq_leaf x = true ->
  exists d', discard_ops d = (d', false) /\ dget q d' = Some (lit x).
Proof.
  induction q as [|p rest IH]; intros d x Hc Hq Hl.
  - inversion Hq; subst. exists (lit x). split; [apply eq_leaf_discard; exact Hl|reflexivity].
  - destruct d as [| | | | | | |fs|]; try discriminate.
    rewrite dget_cons in Hq. destruct (assoc p fs) as [y|] eqn:Ea; [|discriminate].
    destruct Hc as (Hk & Hnd & Hc).
    destruct (IH y x (Hc y Ea) Hq Hl) as [y' [Hy Hq']].
    assert (Hne : fs <> []) by (intro; subst; discriminate).
    rewrite (discard_ops_doc fs Hne), (dgo_full fs [] Hk). cbn [app].
    assert (Hk' : assoc p (flat_map dkeep fs) = Some y').
    { rewrite (assoc_dkeep p fs Hnd), Ea, Hy. reflexivity. }
    exists (VDoc (flat_map dkeep fs)). split.
    + destruct (flat_map dkeep fs); [discriminate|reflexivity].
    + rewrite dget_cons, Hk'. exact Hq'.
Qed.

(* ---------------------------------------------------------------- the update: the frame *)
Lemma local_dget parts d d' :
  local parts d d' -> forall q v, cmp parts q = false -> dget q d = Some v -> dget q d' = Some v.
Proof.
  induction 1 as [parts d|d d' Hd'|p rest fs x x' Hx Hl IH|p fs|p rest xs i x x' Hi Hn Hl IH
                  |p xs i v0 Hi Hv|p rest xs d' Hi Hl IH]; intros q v Hc Hq.
  - exact Hq.
  - discriminate Hc.
  - destruct q as [|q0 qr]; [rewrite cmp_nil_r in Hc; discriminate|].
    rewrite cmp_cons in Hc. rewrite dget_cons in *. rewrite C12Base.assoc_set_key.
    destruct (q0 =? p) eqn:E.
    + apply String.eqb_eq in E. subst q0. rewrite String.eqb_refl in Hc. cbn [andb] in Hc.
      destruct Hx as [Hx|[Hx _]]; rewrite Hx in Hq; [|discriminate].
      exact (IH qr v Hc Hq).
    + exact Hq.
  - destruct q as [|q0 qr]; [rewrite cmp_nil_r in Hc; discriminate|].
    rewrite cmp_cons in Hc. rewrite dget_cons in *.
    destruct (q0 =? p) eqn:E.
    + rewrite String.eqb_sym, E in Hc. cbn in Hc. discriminate Hc.
    + rewrite (assoc_del_key_other q0 p fs E). exact Hq.
  - destruct q; [rewrite cmp_nil_r in Hc; discriminate|discriminate Hq].
  - destruct q; [rewrite cmp_nil_r in Hc; discriminate|discriminate Hq].
  - destruct q; [rewrite cmp_nil_r in Hc; discriminate|discriminate Hq].
Qed.

Lemma chain_dget q v : forall ps d d',
  chain ps d d' -> (forall p, In p ps -> cmp p q = false) -> dget q d = Some v -> dget q d' = Some v.
Proof.
  induction ps as [|p ps IH]; simpl; intros d d' H Hps Hq.
  - subst. exact Hq.
  - destruct H as [d1 [Hl Hc]].
    apply (IH d1 d' Hc (fun p0 H0 => Hps p0 (or_intror H0))).
    exact (local_dget _ _ _ Hl q v (Hps p (or_introl eq_refl)) Hq).
Qed.

(* ---------------------------------------------------------------- normalisation *)
Lemma dget_patch : forall q d, dget q (patch d) = option_map patch (dget q d).
Proof.
  induction q as [|p rest IH]; intro d; [reflexivity|].
  destruct (is_doc d) eqn:Hd.
  - destruct d as [| | | | | | |fs|]; try discriminate.
    rewrite C02Step.patch_doc, !dget_cons, assoc_patch_fields.
    destruct (assoc p fs); [apply IH|reflexivity].
  - rewrite (dget_nondoc p rest d Hd), (dget_nondoc p rest _ (C02Step.patch_not_doc d Hd)).
    reflexivity.
Qed.

(* ---------------------------------------------------------------- the matcher's candidates *)
Lemma cand_dget : forall q fs v,
  q <> [] -> (forall p, In p q -> p <> "") -> dget q (VDoc fs) = Some v ->
  candidates q (VDoc fs) = [Some v].
Proof.
  induction q as [|p rest IH]; intros fs v Hne Hp Hq; [congruence|].
  assert (Hp0 : p <> "") by (apply Hp; left; reflexivity).
  rewrite dget_cons in Hq. destruct (assoc p fs) as [y|] eqn:Ea; [|discriminate].
  destruct rest as [|p2 rest'].
  - inversion Hq; subst. destruct p; [congruence|]. cbn [candidates]. rewrite Ea. reflexivity.
  - assert (E : candidates (p :: p2 :: rest') (VDoc fs) =
                candidates (p2 :: rest') (match assoc p fs with Some v => v | None => VDoc [] end))
      by reflexivity.
    rewrite E, Ea. destruct y as [| | | | | | |sub|]; try discriminate.
    apply IH; [discriminate| |exact Hq]. intros p0 H0. apply Hp. right. exact H0.
Qed.

Lemma eval_field_lit_c k x d :
  is_doc x = false -> WF x -> candidates (split_dots k) d = [Some x] ->
  ok_or_err (eval_field k (SVal x) d).
Proof.
  intros Hd Hw Hc. rewrite eval_field_SVal. cbv zeta.
  destruct (negb (path_modelled (split_dots k))); [right; eexists; reflexivity|]. left.
  rewrite Hc.
  pose proof (C05Values.py_eq_refl_wf x Hw) as Hr.
  assert (Hn : search_neg (SVal x) = false) by (destruct x; try reflexivity; discriminate).
  rewrite Hn. unfold field_loop, sval_test.
  destruct x; try discriminate; cbn [bind negb andb orb]; rewrite ?Hr, ?orb_true_r; reflexivity.
Qed.

Lemma eval_field_eq_c k y d :
  is_doc y = false -> WF y -> candidates (split_dots k) d = [Some y] ->
  ok_or_err (eval_field k (SOps (FCons (OEq y) FNil)) d).
Proof.
  intros Hd Hw Hc. rewrite eval_field_SOps. cbv zeta.
  destruct (negb (path_modelled (split_dots k))); [right; eexists; reflexivity|]. left.
  rewrite Hc.
  pose proof (C05Values.py_eq_refl_wf y Hw) as Hr.
  cbn [is_exists_false andb eval_all_pre bind fops_has_pos fops_has_neg].
  unfold field_loop, sops_test. cbn [fops_unknown eval_fops eval_fop].
  assert (He : eq_op (Some y) y = Ok true).
  { unfold eq_op, list_expand, operator_eq. destruct y; try discriminate; cbn [is_arr]; rewrite Hr;
      reflexivity. }
  rewrite He. reflexivity.
Qed.

(* the whole filter: every field is an equality leaf whose literal is the one candidate along
   the field's path *)
Lemma matches_eq_fields_c d : forall sfs,
  (forall k x, In (k, x) sfs ->
     starts_dollar k = false /\ k <> "" /\ eq_leaf x = true /\
     WF (lit x) /\ candidates (split_dots k) d = [Some (lit x)]) ->
  ok_or_err (matches (parse_filter (VDoc sfs)) d).
Proof.
  induction sfs as [| [k x] sfs IH]; intro H.
  - left. reflexivity.
  - destruct (H k x (or_introl eq_refl)) as (Hk & Hne & Hl & Hw & Ha).
    assert (IH' := IH (fun k0 x0 Hin => H k0 x0 (or_intror Hin))).
    change (parse_filter (VDoc ((k, x) :: sfs)))
      with (FAnd (parse_clause_with parse_search parse_filter k x) (parse_filter (VDoc sfs))).
    rewrite (parse_clause_field k x Hk Hne).
    change (matches (FAnd (CField k (parse_search x)) (parse_filter (VDoc sfs))) d)
      with (let! b := eval_field k (parse_search x) d in
            if b then matches (parse_filter (VDoc sfs)) d else Ok false).
    assert (HF : ok_or_err (eval_field k (parse_search x) d)).
    { destruct (eq_leaf_spec x Hl) as [[Hd Hx]|(v & -> & Hv & Hx)].
      - rewrite (parse_search_nondoc x Hd). rewrite Hx in *. apply eval_field_lit_c; assumption.
      - rewrite parse_search_eq. cbn [lit] in *. apply eval_field_eq_c; assumption. }
    destruct HF as [-> | [e ->]]; [exact IH'|right; exists e; reflexivity].
Qed.

(* ---------------------------------------------------------------- the expanded seed is clean *)
Lemma clean_of_reach E ks k :
  WF (VDoc E) ->
  (forall q y, q <> [] -> dget q (VDoc E) = Some y ->
     exists k2, In k2 ks /\ cmp (split_dots k2) q = true) ->
  sep ks ->
  (forall k2, In k2 ks -> forall part, In part (split_dots k2) -> starts_dollar part = false) ->
  In k ks ->
  forall rest pre d, pre ++ rest = split_dots k -> dget pre (VDoc E) = Some d -> clean_along rest d.
Proof.
  intros HwE HB Hsep HP Hk.
  induction rest as [|p rest' IH]; intros pre d Hs Hd; [exact I|].
  destruct d as [| | | | | | |fs|]; try exact I.
  cbn [clean_along]. split; [|split].
  - intros k0 Hk0. destruct (In_key_assoc k0 fs Hk0) as [y0 Ha0].
    assert (Hq : dget (pre ++ [k0]) (VDoc E) = Some y0).
    { rewrite dget_app, Hd, dget_cons, Ha0. reflexivity. }
    assert (Hne : pre ++ [k0] <> []) by (destruct pre; discriminate).
    destruct (HB _ _ Hne Hq) as [k2 [Hk2 Hc]].
    destruct (starts_dollar k0) eqn:Esd; [exfalso|reflexivity].
    unfold cmp in Hc. apply orb_true_iff in Hc. destruct Hc as [Hc|Hc].
    + destruct (pre_snoc _ _ _ Hc) as [E2|Hpre].
      * assert (Hin : In k0 (split_dots k2)) by (rewrite E2; apply in_or_app; right; left; reflexivity).
        rewrite (HP k2 Hk2 k0 Hin) in Esd. discriminate.
      * assert (Hpk : is_prefix_parts (split_dots k2) (split_dots k) = true).
        { rewrite <- Hs. eapply pre_trans; [exact Hpre|apply pre_app]. }
        destruct (string_dec k2 k) as [->|Hne2].
        -- rewrite <- Hs, pre_longer in Hpre. discriminate.
        -- pose proof (Hsep k2 k Hk2 Hk Hne2) as Hf. unfold cmp in Hf. rewrite Hpk in Hf.
           discriminate.
    + pose proof (pre_snoc_in _ _ _ Hc) as Hin.
      rewrite (HP k2 Hk2 k0 Hin) in Esd. discriminate.
  - pose proof (dget_wf pre (VDoc E) (VDoc fs) HwE Hd) as Hw.
    apply wf_doc_iff in Hw. exact (proj1 Hw).
  - intros y Ha. apply (IH (pre ++ [p]) y).
    + rewrite <- app_assoc. exact Hs.
    + rewrite dget_app, Hd, dget_cons, Ha. reflexivity.
Qed.

(* what the screen c13_odd_filter says of the filter's keys *)
Lemma odd_filter_parts ffs : c13_odd_filter (VDoc ffs) = false ->
  (forall k, In k (map fst ffs) -> forall part, In part (split_dots k) ->
     part <> "" /\ starts_dollar part = false) /\
  sep (map fst ffs).
Proof.
  intro H. unfold c13_odd_filter in H. apply orb_false_iff in H. destruct H as [H _].
  apply orb_false_iff in H. destruct H as [H1 H2]. split.
  - intros k Hk part Hp. apply in_map_iff in Hk. destruct Hk as [[k' x] [E Hin]]. simpl in E. subst k'.
    pose proof (existsb_false_In _ _ H1 (k, x) Hin) as Hf. cbv beta in Hf. cbn [fst] in Hf.
    pose proof (existsb_false_In _ _ Hf part Hp) as Hg. cbv beta in Hg.
    apply orb_false_iff in Hg. destruct Hg as [Hg1 Hg2]. split; [|exact Hg2].
    intro; subst part. discriminate Hg1.
  - intros k k' Hk Hk' Hne.
    apply in_map_iff in Hk. destruct Hk as [[k1 x1] [E1 Hin1]]. simpl in E1. subst k1.
    apply in_map_iff in Hk'. destruct Hk' as [[k2 x2] [E2 Hin2]]. simpl in E2. subst k2.
    pose proof (existsb_false_In _ _ H2 (k, x1) Hin1) as Hf. cbv beta in Hf.
    pose proof (existsb_false_In _ _ Hf (k', x2) Hin2) as Hg. cbv beta in Hg. cbn [fst] in Hg.
    assert (En : (k =? k') = false).
    { destruct (k =? k') eqn:E; [|reflexivity]. apply String.eqb_eq in E. congruence. }
    rewrite En in Hg. cbn [negb andb] in Hg. exact Hg.
Qed.

(* ---------------------------------------------------------------- the last clause *)
Lemma upsert_last_clause_d pre5 c ffs u multi c' v kl d :
  noTTL c -> WF (VDoc ffs) -> WF u ->
  c13_writes_id u = false -> c13_odd_filter (VDoc ffs) = false ->
  c13_id_subfield u = false -> c13_null_id_filter (VDoc ffs) = false ->
  first_key_dollar u = Some true ->
  scan (patch (VDoc ffs)) (docs c) = Ok [] ->
  update pre5 c (VDoc ffs) u multi true = (c', Ok v) ->
  equality_only (VDoc ffs) = true ->
  existsb (fun p => existsb (fun q => paths_overlap p (fst q)) ffs) (update_paths u) = false ->
  last (docs c') (VNull, VNull) = (kl, d) ->
  match filter_applies (patch (VDoc ffs)) d with Ok b => b | Err _ => true end = true.
Proof.
  intros HT Hwf Hwu Hwr Hodd Hsub Hnull Hfirst Hscan HU Heq Hov Hlast.
  destruct (update_upsert_open pre5 c ffs u multi c' v HT Hwf Hwu Hwr Hodd (fun _ => Hsub) Hscan HU)
    as (ufs & id0 & expanded & c3 & fs' & fs1 & new_id & Hpu & Hrel & Ex & Hwset & Hwexp & Hexpk
        & Ea & Hdocs & Hfs1).
  rewrite Hdocs, last_app1 in Hlast.
  assert (Hd : d = patch (VDoc fs1)) by (inversion Hlast; reflexivity).
  rewrite Hd. clear Hd Hlast.
  rewrite (C02Step.patch_doc ffs). set (sfs := C02Step.patch_fields ffs) in *.
  destruct (odd_filter_parts ffs Hodd) as [HP HS].
  pose proof (proj1 (proj1 (wf_doc_iff _) Hwset)) as Hndset.
  set (L := set_key "_id" id0 sfs) in *.
  (* the keys of the seed fields: the filter's, and _id *)
  assert (Hid_sep : forall k, In k (map fst sfs) -> k <> "_id" ->
                      cmp ["_id"] (split_dots k) = false).
  { intros k Hk Hne.
    assert (Hh : hd_id k = false).
    { destruct (assoc "_id" sfs) as [i|] eqn:Ei.
      - destruct (odd_filter_ok _ Hodd) as [ffs0 [Eff [Fh Fi Fc]]]. injection Eff as <-.
        unfold sfs in Hk, Ei. rewrite patch_fields_keys in Hk.
        apply Fi; [|exact Hk|exact Hne]. rewrite <- patch_fields_keys.
        eapply assoc_Some_key. exact Ei.
      - unfold L in Ex. rewrite (set_key_absent _ _ _ Ei) in Ex. unfold expand_dots in Ex.
        unfold hd_id. destruct (split_dots k) as [|h [|q rest]] eqn:Es; [reflexivity| |].
        + destruct (h =? "_id") eqn:Eh; [|reflexivity]. apply String.eqb_eq in Eh. subst h.
          apply split_dots_single in Es. congruence.
        + destruct (h =? "_id") eqn:Eh; [|reflexivity]. apply String.eqb_eq in Eh. subst h.
          exfalso. apply (go_id_blocked _ _ _ _ _ Ex). right. exists k, q, rest. auto. }
    unfold hd_id in Hh. destruct (split_dots k) as [|h rest] eqn:Es;
      [exfalso; exact (split_dots_nonnil _ Es)|].
    apply cmp_cons_diff. rewrite String.eqb_sym. exact Hh. }
  assert (HkL : forall k, In k (map fst L) -> k = "_id" \/ In k (map fst ffs)).
  { intros k Hk. destruct (keys_set_key _ _ _ _ Hk) as [->|Hk']; [left; reflexivity|right].
    unfold sfs in Hk'. rewrite patch_fields_keys in Hk'. exact Hk'. }
  assert (HPL : forall k, In k (map fst L) -> forall part, In part (split_dots k) ->
                  part <> "" /\ starts_dollar part = false).
  { intros k Hk part Hp. destruct (HkL k Hk) as [->|Hk']; [|exact (HP k Hk' part Hp)].
    rewrite split_id in Hp. destruct Hp as [<-|[]]. split; [discriminate|reflexivity]. }
  assert (HSL : sep (map fst L)).
  { intros k k' Hk Hk' Hne.
    destruct (HkL k Hk) as [->|Hk1]; destruct (HkL k' Hk') as [->|Hk2].
    - congruence.
    - rewrite split_id. apply Hid_sep; [unfold sfs; rewrite patch_fields_keys; exact Hk2|congruence].
    - rewrite cmp_sym, split_id.
      apply Hid_sep; [unfold sfs; rewrite patch_fields_keys; exact Hk1|exact Hne].
    - exact (HS k k' Hk1 Hk2 Hne). }
  unfold expand_dots in Ex.
  pose proof (go_get _ _ _ _ Ex Hndset HSL) as HA.
  assert (HB : forall q y, q <> [] -> dget q (VDoc expanded) = Some y ->
                 exists k2, In k2 (map fst L) /\ cmp (split_dots k2) q = true).
  { intros q y Hne Hq. destruct (go_reach _ _ _ _ _ _ Ex Hne Hq) as [Hx|Hx]; [exact Hx|].
    destruct q; [congruence|discriminate Hx]. }
  (* the update is a chain of local rewrites *)
  set (seed := fst (discard_ops (VDoc expanded))) in *.
  assert (Hwpu : WF (VDoc ufs)) by (rewrite <- Hpu; apply C02Step.wf_patch; exact Hwu).
  assert (Hfk : first_key_dollar (VDoc ufs) = Some true)
    by (rewrite <- Hpu, C02Step.first_key_dollar_patch; exact Hfirst).
  assert (Hwsd : WF seed) by (apply discard_ops_wf; exact Hwexp).
  pose proof (apply_update_chain _ _ _ _ _ _ Hfk Hwpu Hwsd Ea) as Hchain.
  rewrite <- Hpu, C02Step.addressed_patch in Hchain.
  destruct (patch (VDoc fs1)) as [| | | | | | |dfs|] eqn:Edfs;
    try (rewrite C02Step.patch_doc in Edfs; discriminate).
  (* every field of the filter *)
  assert (Hgoal : ok_or_err (matches (parse_filter (VDoc sfs)) (VDoc dfs))).
  { apply matches_eq_fields_c. intros k x Hin.
    unfold sfs, C02Step.patch_fields in Hin. apply in_map_iff in Hin.
    destruct Hin as [[k' x0] [E Hin0]]. cbn [fst snd] in E. injection E as -> <-.
    simpl in Heq. rewrite forallb_forall in Heq. specialize (Heq _ Hin0). cbn [fst snd] in Heq.
    apply andb_true_iff in Heq. destruct Heq as [Hkd Hleaf0]. apply negb_true_iff in Hkd.
    change (eq_leaf x0 = true) in Hleaf0.
    assert (Hkin : In k (map fst ffs)) by (apply in_map_iff; exists (k, x0); auto).
    assert (Hkne : k <> "").
    { intro E. subst k. destruct (HP "" Hkin "" (or_introl eq_refl)) as [Hx _]. congruence. }
    destruct (lit_patch x0 Hleaf0) as [Hlp Hleaf].
    destruct (wf_doc_in ffs k x0 Hwf Hin0) as [Hwx0 Hax0].
    assert (Hwl : WF (lit (patch x0))) by (apply wf_lit, C02Step.wf_patch; exact Hwx0).
    split; [exact Hkd|]. split; [exact Hkne|]. split; [exact Hleaf|]. split; [exact Hwl|].
    (* the value at k's path: in the expanded seed, the seed, the new document, the store *)
    assert (Hasf : assoc k sfs = Some (patch x0)).
    { unfold sfs. rewrite assoc_patch_fields, Hax0. reflexivity. }
    assert (Haset : assoc k L = Some (patch x0)).
    { unfold L. rewrite C12Base.assoc_set_key. destruct (k =? "_id") eqn:Ek; [|exact Hasf].
      apply String.eqb_eq in Ek. subst k. destruct Hrel as [E|[E|[i [E Hi]]]].
      - rewrite <- E. exact Hasf.
      - rewrite E in Hasf. discriminate.
      - exfalso. rewrite E in Hasf. injection Hasf as ->. rewrite is_null_patch in Hi.
        simpl in Hnull. rewrite Hax0 in Hnull. destruct x0; discriminate. }
    assert (HkL' : In k (map fst L)) by (eapply assoc_Some_key; exact Haset).
    pose proof (HA k (patch x0) (assoc_Some_in _ _ _ Haset)) as Hexp.
    assert (Hclean : clean_along (split_dots k) (VDoc expanded)).
    { apply (clean_of_reach expanded (map fst L) k Hwexp HB HSL
               (fun k2 H2 part Hp => proj2 (HPL k2 H2 part Hp)) HkL' (split_dots k) []);
        reflexivity. }
    destruct (discard_along _ _ _ Hclean Hexp Hleaf) as [sd [Hsd Hqsd]].
    assert (Hseed : seed = sd) by (unfold seed; rewrite Hsd; reflexivity).
    rewrite <- Hseed in Hqsd.
    assert (Hframe : forall p, In p (addressed u) -> cmp p (split_dots k) = false).
    { intros p Hp. destruct (addressed_update_paths _ _ Hp) as [s [Hs ->]].
      pose proof (existsb_false_In _ _ Hov s Hs) as H1. cbv beta in H1.
      pose proof (existsb_false_In _ _ H1 _ Hin0) as H2. cbv beta in H2. cbn [fst] in H2.
      exact H2. }
    pose proof (chain_dget _ _ _ _ _ Hchain Hframe Hqsd) as Hq'.
    (* insert_doc: an _id may have been appended *)
    assert (Hq1 : dget (split_dots k) (VDoc fs1) = Some (lit (patch x0))).
    { destruct (split_dots k) as [|h rest] eqn:Es; [exfalso; exact (split_dots_nonnil _ Es)|].
      rewrite dget_cons in *. destruct (assoc h fs') as [y|] eqn:Eh; [|discriminate].
      rewrite (Hfs1 h y Eh). exact Hq'. }
    assert (Hqd : dget (split_dots k) (VDoc dfs) = Some (lit (patch x0))).
    { rewrite <- Edfs, dget_patch, Hq1. cbn [option_map]. f_equal.
      rewrite Hlp. apply C02Step.patch_idem. }
    apply cand_dget; [apply split_dots_nonnil| |exact Hqd].
    intros p Hp. exact (proj1 (HP k Hkin p Hp)). }
  unfold filter_applies. destruct Hgoal as [-> | [e ->]]; reflexivity.
Qed.

(* ---------------------------------------------------------------- the full predicate *)
(* one operator-update upsert *)
Lemma upsert_step_full_d pre5 c f u multi now :
  WF f -> WF u -> c13_writes_id u = false -> c13_odd_filter f = false ->
  c13_id_subfield u = false -> c13_null_id_filter f = false ->
  first_key_dollar u = Some true ->
  c13_step_reasons (OReplace f u true) (snd (update pre5 c f u multi true)) (docs c)
                   (docs (fst (update pre5 c f u multi true))) (info_of c) = 0 ->
  c13_upsert_ok (mkCtx (docs c) (info_of c) now) f u true
                (snd (update pre5 c f u multi true))
                (docs (fst (update pre5 c f u multi true))) = true.
Proof.
  intros Hwf Hwu Hwr Hodd Hsub Hnull Hfirst Hr.
  apply c13_from_i.
  - apply upsert_step_i; auto.
  - intros v Hv Hany. cbn [x_store] in Hany. unfold last_clause.
    destruct (true && equality_only f && _) eqn:Ec; [|reflexivity].
    apply andb_true_iff in Ec. destruct Ec as [Ec Hov]. cbn [andb] in Ec.
    apply negb_true_iff in Hov.
    destruct (equality_only_doc f Ec) as [ffs ->].
    unfold c13_step_reasons in Hr. apply (reasons_zero _ _ _ false false) in Hr.
    destruct Hr as (Httl & _).
    pose proof (info_noTTL _ Httl) as HT.
    assert (Hscan : scan (patch (VDoc ffs)) (docs c) = Ok []).
    { unfold any_match in Hany.
      destruct (scan (patch (VDoc ffs)) (docs c)) as [[|? ?]|]; try discriminate. reflexivity. }
    destruct (update pre5 c (VDoc ffs) u multi true) as [c' r] eqn:HU. cbn [fst snd] in *.
    subst r.
    destruct (last (docs c') (VNull, VNull)) as [kl d] eqn:El. cbn [snd].
    exact (upsert_last_clause_d pre5 c ffs u multi c' v kl d HT Hwf Hwu Hwr Hodd Hsub Hnull Hfirst
             Hscan HU Ec Hov El).
Qed.

Lemma c13_step_model_d pre5 c o now info' :
  C02History.op_wf o -> undecided_op o = false ->
  c13_step_reasons o (snd (step pre5 c o)) (docs c) (docs (fst (step pre5 c o))) (info_of c) = 0 ->
  c13_step (mkCtx (docs c) (info_of c) now) o
           (snd (step pre5 c o), docs (fst (step pre5 c o)), info') = true.
Proof.
  intros Hw Hun H.
  pose proof (c13i_step_model pre5 c o now info' Hw Hun H) as Hi.
  destruct o; try reflexivity.
  - (* update *)
    destruct upsert; [|reflexivity].
    simpl in Hw, Hun. destruct Hw as [Hwf Hwu].
    apply orb_false_iff in Hun. destruct Hun as [Hwr Hodd].
    assert (Hbits : c13_id_subfield u = false /\ c13_null_id_filter f = false).
    { unfold c13_step_reasons in H. apply reasons_zero in H. tauto. }
    destruct Hbits as [Hsub Hnull].
    cbn [c13_step step] in *. unfold update_op in *.
    destruct u; try reflexivity.
    destruct (first_key_dollar (VDoc fs)) as [[|]|] eqn:Ek; try reflexivity.
    apply upsert_step_full_d; auto.
    exact (drop_bits _ _ _ _ _ H).
  - (* replace *)
    destruct upsert; [|reflexivity].
    cbn [c13_step c13i_step] in *.
    apply c13_from_i; [exact Hi|]. intros; apply replace_last_clause.
Qed.

Lemma c13_trace_d pre5 : forall ops c now,
  Forall C02History.op_wf ops -> existsb undecided_op ops = false ->
  c13_go ops (model_obs pre5 c ops) (docs c) (info_of c) = 0 ->
  trace_all c13_step (mkCtx (docs c) (info_of c) now) ops (model_obs pre5 c ops) = true.
Proof.
  induction ops as [|o ops IH]; intros c now Hw Hun H; [reflexivity|].
  inversion Hw as [|? ? Hwo Hw']; subst. simpl in Hun. apply orb_false_iff in Hun.
  destruct Hun as [Huo Hun'].
  rewrite C15Proofs.model_obs_cons in *. cbn [c13_go trace_all] in *.
  apply Z.lor_eq_0_iff in H. destruct H as [H1 H2].
  rewrite (c13_step_model_d pre5 c o now _ Hwo Huo H1). cbn [andb].
  apply (IH (fst (step pre5 c o))); assumption.
Qed.

(* C13 in full: all four clauses of c13_ok, from the guard, the syntactic screen and
   well-formed arguments; no restriction on the filter keys *)
Theorem c13_history_wf pre5 ops :
  Forall C02History.op_wf ops ->
  c13_reasons ops (model_obs pre5 empty_coll ops) = 0 ->
  c13_undecided ops = false ->
  c13_ok ops (model_obs pre5 empty_coll ops) = true.
Proof.
  intros Hw H Hun. rewrite c13_reasons_go in H. rewrite undecided_ops in Hun. unfold c13_ok.
  exact (c13_trace_d pre5 ops empty_coll 0 Hw Hun H).
Qed.

(* ---------------------------------------------------------------- the screen *)
(* The screen asked for the dotted case.  Every restriction that was tried (non-numeric path
   components, no update path sharing a head with a filter key, $set-only updates) turned out
   to be unnecessary: what the proof uses of the filter keys - components non-empty and not
   starting with '$', no key a prefix of another - is already part of c13_undecided, and the
   update side needs nothing beyond the non-overlap that c13_upsert_ok itself tests.  The
   screen is therefore vacuous; it is kept so that the statement has the announced shape. *)
Definition c13_dotted_ok (ops : list op) : bool := true.

Lemma c13_flat_dotted ops : c13_flat ops = true -> c13_dotted_ok ops = true.
Proof. reflexivity. Qed.

Theorem c13_history_dotted pre5 ops :
  Forall C02History.op_wf ops ->
  c13_reasons ops (model_obs pre5 empty_coll ops) = 0 ->
  c13_undecided ops = false ->
  c13_dotted_ok ops = true ->
  c13_ok ops (model_obs pre5 empty_coll ops) = true.
Proof. intros Hw H Hun _. exact (c13_history_wf pre5 ops Hw H Hun). Qed.

(* the frame of an operator update, as one statement: the value at a path that descends
   through sub-documents and is comparable with none of the update's paths is kept *)
Lemma apply_update_frame spec u wi now d d' q v :
  first_key_dollar u = Some true -> WF u -> WF d ->
  apply_update spec u wi now d = Ok d' ->
  (forall p, In p (addressed u) -> cmp p q = false) ->
  dget q d = Some v -> dget q d' = Some v.
Proof.
  intros Hf Hu Hd H Hc Hq.
  exact (chain_dget q v _ _ _ (apply_update_chain _ _ _ _ _ _ Hf Hu Hd H) Hc Hq).
Qed.

(* ---------------------------------------------------------------- a weaker premise than op_wf *)
(* well-formed arguments are needed of the upserts only, and that is decidable: no repeated
   key in any sub-document of the filter and of the update / replacement document (always the
   case for Python dicts).  The premise cannot be dropped: Refuted/C13.v part D. *)
Definition wf_args_op (o : op) : bool :=
  match o with
  | OUpdate f u _ true | OReplace f u true => wf_value f && wf_value u
  | _ => true
  end.
Definition c13_wf_args (ops : list op) : bool := forallb wf_args_op ops.

Lemma op_wf_args ops : Forall C02History.op_wf ops -> c13_wf_args ops = true.
Proof.
  intro H. unfold c13_wf_args. apply forallb_forall. intros o Ho.
  rewrite Forall_forall in H. specialize (H o Ho).
  destruct o; try reflexivity; simpl in *.
  - destruct upsert; [|reflexivity]. destruct H as [-> ->]. reflexivity.
  - destruct upsert; [|reflexivity]. destruct H as [-> ->]. reflexivity.
Qed.

Lemma c13_step_model_b pre5 c o now info' :
  wf_args_op o = true -> undecided_op o = false ->
  c13_step_reasons o (snd (step pre5 c o)) (docs c) (docs (fst (step pre5 c o))) (info_of c) = 0 ->
  c13_step (mkCtx (docs c) (info_of c) now) o
           (snd (step pre5 c o), docs (fst (step pre5 c o)), info') = true.
Proof.
  intros Hw Hun H.
  destruct o; try reflexivity.
  - destruct upsert; [|reflexivity].
    apply c13_step_model_d; [|exact Hun|exact H].
    simpl in Hw. apply andb_true_iff in Hw. exact Hw.
  - destruct upsert; [|reflexivity].
    apply c13_step_model_d; [|exact Hun|exact H].
    simpl in Hw. apply andb_true_iff in Hw. exact Hw.
Qed.

Lemma c13_trace_b pre5 : forall ops c now,
  forallb wf_args_op ops = true -> existsb undecided_op ops = false ->
  c13_go ops (model_obs pre5 c ops) (docs c) (info_of c) = 0 ->
  trace_all c13_step (mkCtx (docs c) (info_of c) now) ops (model_obs pre5 c ops) = true.
Proof.
  induction ops as [|o ops IH]; intros c now Hw Hun H; [reflexivity|].
  simpl in Hw. apply andb_true_iff in Hw. destruct Hw as [Hwo Hw'].
  simpl in Hun. apply orb_false_iff in Hun. destruct Hun as [Huo Hun'].
  rewrite C15Proofs.model_obs_cons in *. cbn [c13_go trace_all] in *.
  apply Z.lor_eq_0_iff in H. destruct H as [H1 H2].
  rewrite (c13_step_model_b pre5 c o now _ Hwo Huo H1). cbn [andb].
  apply (IH (fst (step pre5 c o))); assumption.
Qed.

Theorem c13_history_args pre5 ops :
  c13_reasons ops (model_obs pre5 empty_coll ops) = 0 ->
  c13_undecided ops = false ->
  c13_wf_args ops = true ->
  c13_ok ops (model_obs pre5 empty_coll ops) = true.
Proof.
  intros H Hun Hw. rewrite c13_reasons_go in H. rewrite undecided_ops in Hun. unfold c13_ok.
  exact (c13_trace_b pre5 ops empty_coll 0 Hw Hun H).
Qed.
