(* C07 examples: a six-operation history (insert_many, update_many with $push of a
   sub-document, find with a projection, find_one_and_update, replace with upsert, aggregate)
   with concrete negative argument identities.  The run is computed, every step is apart, the
   premises of the theorems hold on it, and c07_check on the matching observation record
   (the model's outcomes and stores, the identities renamed the way id() would give them)
   returns 0. *)
From Coq Require Import ZArith List String Bool Lia.
From Verif Require Import Value PyEq Coll Expr Pipeline Heap HistCheck HeapCheck.
From Verif Require Import C07Base C07Proofs C07Here.
Import ListNotations.
Open Scope Z_scope.
Open Scope string_scope.
Open Scope list_scope.

Definition doc1 := VDoc [("_id", VInt 1); ("t", VArr [])].
Definition doc2 := VDoc [("_id", VInt 2); ("t", VArr [])].

Definition hist6 : list (hop * ids) :=
  [ (* insert_many([doc1, doc2]): the list, the two dicts, their two lists *)
    (HColl (OInsertMany [doc1; doc2] true), [-1; -2; -3; -4; -5]);
    (* update_many({}, {'$push': {'t': {'x': 1}}}) *)
    (HColl (OUpdate (VDoc []) (VDoc [("$push", VDoc [("t", VDoc [("x", VInt 1)])])]) true false),
     [-6; -7; -8; -9; -10]);
    (* find({}, {'t': 1}) *)
    (HColl (OFind (VDoc []) (Some (VDoc [("t", VInt 1)])) [] 0 0), [-11; -12]);
    (* find_one_and_update({'_id': 1}, {'$set': {'z': {'w': 1}}}, return_document=AFTER) *)
    (HColl (OFindAndModify (VDoc [("_id", VInt 1)]) None []
              (FamUpdate (VDoc [("$set", VDoc [("z", VDoc [("w", VInt 1)])])]) false true)),
     [-13; -14; -15; -16]);
    (* replace_one({'_id': 3}, {'t': [{'y': 2}]}, upsert=True) *)
    (HColl (OReplace (VDoc [("_id", VInt 3)]) (VDoc [("t", VArr [VDoc [("y", VInt 2)]])]) true),
     [-17; -18; -19; -20]);
    (* aggregate([{'$match': {}}, {'$project': {'t': 1}}]) *)
    (HAggregate (VArr [VDoc [("$match", VDoc [])]; VDoc [("$project", VDoc [("t", VInt 1)])]]),
     [-21; -22; -23; -24; -25]) ].

Definition run6 := hrun here false h_init hist6.

(* the run, computed *)
Example run6_results :
  map ho_result (snd run6) =
  [ Ok (VDoc [("inserted_ids", VArr [VInt 1; VInt 2])]);
    Ok (VDoc [("matched", VInt 2); ("modified", VInt 2); ("upserted_id", VNull)]);
    Ok (VArr [VDoc [("t", VArr [VDoc [("x", VInt 1)]]); ("_id", VInt 1)];
              VDoc [("t", VArr [VDoc [("x", VInt 1)]]); ("_id", VInt 2)]]);
    Ok (VDoc [("_id", VInt 1); ("t", VArr [VDoc [("x", VInt 1)]]); ("z", VDoc [("w", VInt 1)])]);
    Ok (VDoc [("matched", VInt 0); ("modified", VInt 0); ("upserted_id", VInt 3)]);
    Ok (VArr [VDoc [("_id", VInt 1); ("t", VArr [VDoc [("x", VInt 1)]])];
              VDoc [("_id", VInt 2); ("t", VArr [VDoc [("x", VInt 1)]])];
              VDoc [("_id", VInt 3); ("t", VArr [VDoc [("y", VInt 2)]])]]) ].
Proof. vm_compute. reflexivity. Qed.

(* who owns what after every step, and the identity handed back *)
Example run6_ownership :
  map (fun out => (h_own (ho_state out), ho_result_ids out)) (snd run6) =
  [ ([(VInt 1, [1]); (VInt 2, [2])], [3]);
    ([(VInt 1, [4]); (VInt 2, [5])], [6]);
    ([(VInt 1, [4]); (VInt 2, [5])], [7]);
    ([(VInt 1, [8]); (VInt 2, [5])], [9]);
    ([(VInt 1, [8]); (VInt 2, [5]); (VInt 3, [10])], [11]);
    ([(VInt 1, [8]); (VInt 2, [5]); (VInt 3, [10])], [12]) ].
Proof. vm_compute. reflexivity. Qed.

Example run6_apart :
  map (fun p => apart_after (h_own (ho_state (snd p))) (snd (fst p)) (ho_result_ids (snd p)))
      (combine hist6 (snd run6))
  = [true; true; true; true; true; true].
Proof. vm_compute. reflexivity. Qed.

(* the premises of C07_no_aliasing hold on this history *)
Example hist6_args_negative : Forall (fun ha => Forall (fun x => x < 0) (snd ha)) hist6.
Proof. repeat constructor. Qed.

Example hist6_keys_wf : run_keys_wf false empty_coll hist6 = true.
Proof. vm_compute. reflexivity. Qed.

(* ... so the theorem applies *)
Example hist6_by_theorem :
  Forall2 (fun ha out => apart_after (h_own (ho_state out)) (snd ha) (ho_result_ids out) = true)
          hist6 (snd run6).
Proof. exact (no_aliasing_here false hist6 hist6_args_negative hist6_keys_wf). Qed.

(* the observation record the harness would write for this run: the library's outcome and
   store after every call, and the id()s reachable from the stored documents, the arguments
   and the returned object - any injective renaming of the model's identities *)
Definition as_id (x : Z) : Z := 140230000000000 + 64 * x.
Definition obs_of (ha : hop * ids) (out : hout) : hobs :=
  mkHObs (ho_result out) (docs (h_coll (ho_state out)))
         (map (fun ks => map as_id (snd ks)) (h_own (ho_state out)))
         (map as_id (snd ha)) (map as_id (ho_result_ids out)) true true.
Definition case6 : c07_case :=
  mkC07 false hist6 (map (fun p => obs_of (fst p) (snd p)) (combine hist6 (snd run6))).

Example case6_obs_ids :
  map (fun b => (b_store_ids b, b_result_ids b)) (w_obs case6) =
  [ ([[140230000000064]; [140230000000128]], [140230000000192]);
    ([[140230000000256]; [140230000000320]], [140230000000384]);
    ([[140230000000256]; [140230000000320]], [140230000000448]);
    ([[140230000000512]; [140230000000320]], [140230000000576]);
    ([[140230000000512]; [140230000000320]; [140230000000640]], [140230000000704]);
    ([[140230000000512]; [140230000000320]; [140230000000640]], [140230000000768]) ].
Proof. vm_compute. reflexivity. Qed.

Example case6_check : c07_check case6 = 0.
Proof. vm_compute. reflexivity. Qed.

Example case6_steps_ok : map c07_step_ok (w_obs case6) = [true; true; true; true; true; true].
Proof. vm_compute. reflexivity. Qed.
