(* C18 proofs, part 5: the history theorem, by induction over the operation list with a
   generalised start state. *)
From Coq Require Import ZArith List String Bool Ascii Lia.
From Verif Require Import Value PyEq BsonOrder Path Filter Update Project Coll HistCheck HistProps
  DatetimeSpec DatetimeRel.
From Verif.Proofs Require Import C01Values C18Values C18Update C18Project C18Store.
Import ListNotations.
Open Scope Z_scope.
Open Scope string_scope.
Open Scope list_scope.

Lemma dns_forallb l : DNS l -> forallb (fun kd => dates_normal (snd kd)) l = true.
Proof. induction 1 as [ | x l Hx _ IH ]; simpl; [ reflexivity | ]. rewrite Hx. exact IH. Qed.

Lemma forallb_dns l : forallb (fun kd => dates_normal (snd kd)) l = true -> DNS l.
Proof.
  induction l as [ | x l IH ]; simpl; intros H; [ constructor | ].
  apply andb_true_iff in H. destruct H as [Hx Hl]. constructor; [ exact Hx | apply IH; exact Hl ].
Qed.

Lemma history_gen pre5 : forall ops c x,
  Inv c -> trace_all (c18_step false) x ops (model_obs pre5 c ops) = true.
Proof.
  induction ops as [ | o ops IH ]; intros c x Hi; [ reflexivity | ].
  cbn [model_obs]. destruct (step pre5 c o) as [c' r] eqn:Es.
  cbn [trace_all].
  pose proof (step_inv _ _ _ _ _ Es Hi) as Hi'.
  rewrite (IH c' _ Hi'). rewrite andb_true_r.
  unfold c18_step. rewrite (dns_forallb _ Hi'). simpl.
  destruct r as [v|e]; [ | reflexivity ].
  destruct (returns_documents o) eqn:Er; [ | reflexivity ].
  apply normal_naive. exact (step_res _ _ _ _ _ Es Hi Er).
Qed.

Theorem history pre5 ops : c18_ok false ops (model_obs pre5 empty_coll ops) = true.
Proof. unfold c18_ok. apply history_gen. exact Inv_empty. Qed.

Lemma history_aware_gen pre5 : forall ops c x,
  Inv c -> trace_all (c18_step true) x ops (model_obs_aware pre5 c ops) = true.
Proof.
  induction ops as [ | o ops IH ]; intros c x Hi; [ reflexivity | ].
  cbn [model_obs_aware]. destruct (step pre5 c o) as [c' r] eqn:Es.
  cbn [trace_all].
  pose proof (step_inv _ _ _ _ _ Es Hi) as Hi'.
  rewrite (IH c' _ Hi'). rewrite andb_true_r.
  unfold c18_step. rewrite (dns_forallb _ Hi'). simpl.
  destruct r as [v|e]; [ | reflexivity ]. simpl.
  destruct (returns_documents o) eqn:Er; simpl; [ | reflexivity ].
  apply make_aware_utc. exact (step_res _ _ _ _ _ Es Hi Er).
Qed.

Theorem history_aware pre5 ops : c18_ok true ops (model_obs_aware pre5 empty_coll ops) = true.
Proof. unfold c18_ok. apply history_aware_gen. exact Inv_empty. Qed.

(* the state form: after any history every stored document is normal *)
Lemma final_inv pre5 : forall ops c, Inv c -> Inv (final pre5 c ops).
Proof.
  induction ops as [ | o ops IH ]; simpl; intros c Hi; [ exact Hi | ].
  apply IH. destruct (step pre5 c o) as [c' r] eqn:Es. simpl. eapply step_inv; eauto.
Qed.

Theorem final_normal pre5 ops :
  forallb (fun kd => dates_normal (snd kd)) (docs (final pre5 empty_coll ops)) = true.
Proof. apply dns_forallb. apply final_inv. exact Inv_empty. Qed.

(* stored values are fixpoints of the normalisation: writing a stored document back (or
   querying with it) does not change it *)
Theorem stored_patch_fix pre5 ops kd :
  In kd (docs (final pre5 empty_coll ops)) -> patch (snd kd) = snd kd.
Proof.
  intros Hin. apply patch_fixes_normal.
  pose proof (final_inv pre5 ops empty_coll Inv_empty) as Hi.
  unfold Inv, DNS in Hi. rewrite Forall_forall in Hi. exact (Hi kd Hin).
Qed.

(* ---------------------------------------------------------------- writes see the patched filter *)
Theorem update_consistent pre5 c f g u w multi upsert :
  same_ms_value f g = true -> same_ms_value u w = true ->
  update pre5 c f u multi upsert = update pre5 c g w multi upsert.
Proof.
  intros Hf Hu. unfold update.
  rewrite (same_ms_value_patch f g Hf), (same_ms_value_patch u w Hu). reflexivity.
Qed.

Theorem delete_consistent c f g multi :
  same_ms_value f g = true -> delete_op c f multi = delete_op c g multi.
Proof.
  intros H. unfold delete_op, find_docs.
  pose proof (same_ms_value_patch f g H) as Hp.
  pose proof (same_ms_value_is_doc f g H) as Hd.
  destruct f, g; simpl in Hd; try discriminate Hd; try reflexivity.
  rewrite Hp. reflexivity.
Qed.
