(* C06 proofs, part 0: Python == on well-formed values (duplicate-free field names in every
   sub-document, i.e. values that are Python dicts): reflexive, and symmetric as soon as the
   LEFT operand is well-formed (the right one is then well-formed too). *)
From Coq Require Import ZArith List String Bool Ascii Lia.
From Verif Require Import Value PyEq BsonOrder Path Filter FilterSpec FilterGuard.
From Verif.Proofs Require Import C01Values.
Import ListNotations.
Open Scope Z_scope.
Open Scope string_scope.
Open Scope list_scope.

Definition doc_sub (gs : list (string * value)) (kv : string * value) : bool :=
  match assoc (fst kv) gs with Some w => py_eq (snd kv) w | None => false end.

Lemma py_eq_doc fs gs :
  py_eq (VDoc fs) (VDoc gs) =
  Nat.eqb (List.length fs) (List.length gs) && forallb (doc_sub gs) fs.
Proof.
  simpl. f_equal. induction fs as [|[k v] fs IH]; [reflexivity|].
  simpl. rewrite <- IH. reflexivity.
Qed.

Lemma wf_doc fs :
  wf_value (VDoc fs) = nodup_str (map fst fs) && forallb (fun kv => wf_value (snd kv)) fs.
Proof.
  simpl. f_equal. induction fs as [|[k v] fs IH]; [reflexivity|].
  simpl. rewrite <- IH. reflexivity.
Qed.

Lemma wf_arr xs : wf_value (VArr xs) = forallb wf_value xs.
Proof.
  induction xs as [|x xs IH]; [reflexivity|]. simpl in *. rewrite IH. reflexivity.
Qed.

Lemma assoc_In {A} k (l : list (string * A)) w : assoc k l = Some w -> In (k, w) l.
Proof.
  induction l as [|[k' v] l IH]; simpl; [discriminate|].
  destruct (String.eqb k k') eqn:E.
  - intros H. injection H as ->. apply String.eqb_eq in E. subst. left. reflexivity.
  - intros H. right. apply IH. exact H.
Qed.

Lemma mem_str_In s l : mem_str s l = true <-> In s l.
Proof.
  induction l as [ | x l IH ]; simpl; [ split; [ discriminate | intros [] ] | ].
  rewrite orb_true_iff, IH, String.eqb_eq. split; intros [H|H]; auto.
Qed.

Lemma nodup_str_NoDup l : nodup_str l = true <-> NoDup l.
Proof.
  induction l as [ | x l IH ]; simpl; [ split; [ constructor | reflexivity ] | ].
  rewrite andb_true_iff, negb_true_iff, IH. split.
  - intros [H1 H2]. constructor; [ | exact H2 ]. intros Hin. apply mem_str_In in Hin. congruence.
  - intros H. inversion H; subst. split; [ | assumption ].
    destruct (mem_str x l) eqn:E; [ | reflexivity ]. apply mem_str_In in E. contradiction.
Qed.

Lemma assoc_nodup_In k v (fs : list (string * value)) :
  nodup_str (map fst fs) = true -> In (k, v) fs -> assoc k fs = Some v.
Proof.
  induction fs as [|[k' v'] fs IH]; simpl; [intros _ []|].
  intros H [E|Hin].
  - injection E as -> ->. rewrite String.eqb_refl. reflexivity.
  - apply andb_true_iff in H. destruct H as [Hn Hd].
    destruct (String.eqb k k') eqn:E.
    + apply String.eqb_eq in E. subst k'. exfalso.
      apply negb_true_iff in Hn.
      assert (Hm : mem_str k (map fst fs) = true).
      { apply mem_str_In. apply in_map_iff. exists (k, v). auto. }
      rewrite Hm in Hn. discriminate Hn.
    + apply IH; assumption.
Qed.

Lemma py_eq_refl_wf : forall v, wf_value v = true -> py_eq v v = true.
Proof.
  induction v as [|x|z|e|s|us tz|n|fs IH|xs IH] using value_ind2; intros W;
    try reflexivity; simpl; try apply Z.eqb_refl.
  - apply String.eqb_refl.
  - destruct tz; apply Z.eqb_refl.
  - change (py_eq (VDoc fs) (VDoc fs) = true). rewrite py_eq_doc, Nat.eqb_refl. simpl.
    rewrite wf_doc in W. apply andb_true_iff in W. destruct W as [Wn Wf].
    rewrite forallb_forall in *. intros [k v] Hin. unfold doc_sub. simpl.
    rewrite (assoc_nodup_In k v fs Wn Hin).
    rewrite Forall_forall in IH. apply (IH _ Hin). exact (Wf _ Hin).
  - change (py_eq (VArr xs) (VArr xs) = true). rewrite py_eq_arr. rewrite wf_arr in W.
    induction IH as [|x xs Hx _ IHxs]; [reflexivity|].
    simpl in *. apply andb_true_iff in W. destruct W as [W1 W2].
    rewrite (Hx W1), (IHxs W2). reflexivity.
Qed.

(* a well-formed value is == only to well-formed values, and symmetrically so *)
Lemma wf_py_sym : forall a b,
  wf_value a = true -> py_eq a b = true -> wf_value b = true /\ py_eq b a = true.
Proof.
  induction a as [|x|z|e|s|us tz|n|fs IH|xs IH] using value_ind2; intros b W H.
  - destruct b; try discriminate H. split; reflexivity.
  - destruct b as [|y|y|y| |? []| | |]; try discriminate H; simpl in *;
      (split; [ reflexivity | rewrite Z.eqb_sym; exact H ]).
  - destruct b as [|y|y|y| |? []| | |]; try discriminate H; simpl in *;
      (split; [ reflexivity | rewrite Z.eqb_sym; exact H ]).
  - destruct b as [|y|y|y| |? []| | |]; try discriminate H; simpl in *;
      (split; [ reflexivity | rewrite Z.eqb_sym; exact H ]).
  - destruct b; try discriminate H. simpl in *. split; [ reflexivity | ].
    rewrite String.eqb_sym. exact H.
  - destruct b as [| | | | |us' tz'| | |]; try (destruct tz; discriminate H).
    destruct tz, tz'; simpl in *; try discriminate H;
      (split; [ reflexivity | rewrite Z.eqb_sym; exact H ]).
  - destruct b; try discriminate H. simpl in *. split; [ reflexivity | ].
    rewrite Z.eqb_sym. exact H.
  - destruct b as [| | | | | | |gs|]; try discriminate H.
    rewrite py_eq_doc in H. apply andb_true_iff in H. destruct H as [L F].
    apply Nat.eqb_eq in L.
    rewrite wf_doc in W. apply andb_true_iff in W. destruct W as [Wn Wf].
    rewrite forallb_forall in F, Wf. rewrite Forall_forall in IH.
    assert (Hfs : forall k v, In (k, v) fs ->
              exists w, In (k, w) gs /\ wf_value w = true /\ py_eq w v = true).
    { intros k v Hin. specialize (F _ Hin). unfold doc_sub in F. simpl in F.
      destruct (assoc k gs) as [w|] eqn:Ea; [ | discriminate F ].
      exists w. split; [ apply assoc_In; exact Ea | ].
      apply (IH _ Hin w); [ apply (Wf _ Hin) | exact F ]. }
    assert (Hincl : incl (map fst fs) (map fst gs)).
    { intros k Hk. apply in_map_iff in Hk. destruct Hk as ([k' v] & <- & Hin).
      destruct (Hfs _ _ Hin) as (w & Hw & _). apply in_map_iff. exists (k', w). auto. }
    assert (Hnd : NoDup (map fst fs)) by (apply nodup_str_NoDup; exact Wn).
    assert (Hlen : (List.length (map fst gs) <= List.length (map fst fs))%nat)
      by (rewrite !map_length; lia).
    assert (Hnd' : NoDup (map fst gs)) by (eapply NoDup_incl_NoDup; eauto).
    assert (Hincl' : incl (map fst gs) (map fst fs)) by (eapply NoDup_length_incl; eauto).
    apply nodup_str_NoDup in Hnd'.
    assert (Hgs : forall k w, In (k, w) gs ->
              wf_value w = true /\ exists v, In (k, v) fs /\ py_eq w v = true).
    { intros k w Hin.
      assert (Hk : In k (map fst fs)).
      { apply Hincl'. apply in_map_iff. exists (k, w). auto. }
      apply in_map_iff in Hk. destruct Hk as ([k' v] & Hk' & Hinf). simpl in Hk'. subst k'.
      destruct (Hfs _ _ Hinf) as (w' & Hw' & Hwf & Hpy).
      assert (w' = w).
      { pose proof (assoc_nodup_In k w' gs Hnd' Hw') as E1.
        pose proof (assoc_nodup_In k w gs Hnd' Hin) as E2. congruence. }
      subst w'. split; [ exact Hwf | exists v; auto ]. }
    split.
    + rewrite wf_doc, Hnd'. simpl. apply forallb_forall. intros [k w] Hin. simpl.
      exact (proj1 (Hgs _ _ Hin)).
    + rewrite py_eq_doc. rewrite L, Nat.eqb_refl. simpl.
      apply forallb_forall. intros [k w] Hin. unfold doc_sub. simpl.
      destruct (Hgs _ _ Hin) as (_ & v & Hv & Hpy).
      rewrite (assoc_nodup_In k v fs Wn Hv). exact Hpy.
  - destruct b as [| | | | | | | |ys]; try discriminate H.
    rewrite py_eq_arr in H. rewrite wf_arr in W. rewrite wf_arr, py_eq_arr.
    revert ys H W.
    induction IH as [|x xs Hx _ IHxs]; intros [|y ys] H W; try discriminate H;
      [ split; reflexivity | ].
    simpl in *. apply andb_true_iff in H. destruct H as [A B].
    apply andb_true_iff in W. destruct W as [W1 W2].
    destruct (Hx y W1 A) as [Wy Sy]. destruct (IHxs ys B W2) as [Wys Sys].
    rewrite Wy, Sy, Wys, Sys. split; reflexivity.
Qed.

(* ---------------------------------------------------------------- BSON equality *)
Definition fld_eq (eq : value -> value -> bool) (p q : string * value) : bool :=
  String.eqb (fst p) (fst q) && eq (snd p) (snd q).

Lemma bson_eq_doc fs gs : bson_eq (VDoc fs) (VDoc gs) = list_eqb (fld_eq bson_eq) fs gs.
Proof.
  revert gs. induction fs as [|[k v] fs IH]; intros [|[k' v'] gs]; try reflexivity.
  simpl. unfold fld_eq at 1. simpl. f_equal. apply IH.
Qed.

Lemma list_eqb_length {A} (eqb : A -> A -> bool) l :
  forall l', list_eqb eqb l l' = true -> List.length l = List.length l'.
Proof.
  induction l as [|x l IH]; intros [|y l'] H; try discriminate H; [reflexivity|].
  simpl in *. apply andb_true_iff in H. destruct H as [_ H]. f_equal. apply IH. exact H.
Qed.

Lemma has_aware_doc fs : has_aware (VDoc fs) = existsb (fun kv => has_aware (snd kv)) fs.
Proof.
  simpl. induction fs as [|[k v] fs IH]; [reflexivity|]. simpl. rewrite <- IH. reflexivity.
Qed.

Lemma bson_eq_sym : forall a b, bson_eq a b = bson_eq b a.
Proof.
  induction a as [|x|z|e|s|us tz|n|fs IH|xs IH] using value_ind2; intros b.
  - destruct b; reflexivity.
  - destruct b as [|y| | | | | | |]; try reflexivity. simpl. destruct x, y; reflexivity.
  - destruct b; try reflexivity; simpl; apply Z.eqb_sym.
  - destruct b; try reflexivity; simpl; apply Z.eqb_sym.
  - destruct b; try reflexivity; simpl; apply String.eqb_sym.
  - destruct b; try reflexivity; simpl; apply Z.eqb_sym.
  - destruct b; try reflexivity; simpl; apply Z.eqb_sym.
  - destruct b as [| | | | | | |gs|]; try reflexivity.
    rewrite !bson_eq_doc. revert gs.
    induction IH as [|[k v] fs Hv _ IHfs]; intros [|[k' v'] gs]; try reflexivity.
    simpl. unfold fld_eq at 1 3. simpl in *. rewrite String.eqb_sym, (Hv v'), IHfs. reflexivity.
  - destruct b as [| | | | | | | |ys]; try reflexivity.
    rewrite !bson_eq_arr. revert ys.
    induction IH as [|x xs Hx _ IHxs]; intros [|y ys]; try reflexivity.
    simpl. rewrite (Hx y), IHxs. reflexivity.
Qed.

Lemma bson_eq_refl : forall v, bson_eq v v = true.
Proof.
  induction v as [|x|z|e|s|us tz|n|fs IH|xs IH] using value_ind2; simpl;
    try reflexivity; try apply Z.eqb_refl; try apply String.eqb_refl; try apply eqb_reflx.
  - induction IH as [|[k v] fs Hv _ IHfs]; [reflexivity|].
    simpl in Hv. rewrite String.eqb_refl, Hv. simpl. exact IHfs.
  - induction IH as [|x xs Hx _ IHxs]; [reflexivity|]. rewrite Hx. simpl. exact IHxs.
Qed.

Ltac zeq :=
  repeat match goal with
         | H : (_ =? _)%Z = true |- _ => apply Z.eqb_eq in H
         end;
  try (apply Z.eqb_eq); try lia.

(* BSON equality implies == when the left value is well-formed and no aware datetime occurs *)
Lemma bson_py_ok : forall a b,
  wf_value a = true -> has_aware a = false -> has_aware b = false ->
  bson_eq a b = true -> py_eq a b = true.
Proof.
  induction a as [|x|z|e|s|us tz|n|fs IH|xs IH] using value_ind2; intros b W Na Nb H.
  - destruct b; try discriminate H. reflexivity.
  - destruct b as [|y| | | | | | |]; try discriminate H.
    simpl in *. destruct x, y; try discriminate H; reflexivity.
  - destruct b; try discriminate H; cbn [py_eq bson_eq num8] in *; zeq.
  - destruct b; try discriminate H; cbn [py_eq bson_eq num8] in *; zeq.
  - destruct b; try discriminate H. exact H.
  - destruct b as [| | | | |us' tz'| | |]; try discriminate H.
    destruct tz; [discriminate Na|]. destruct tz'; [discriminate Nb|]. exact H.
  - destruct b; try discriminate H. exact H.
  - destruct b as [| | | | | | |gs|]; try discriminate H.
    rewrite bson_eq_doc in H. rewrite py_eq_doc.
    rewrite (list_eqb_length _ _ _ H), Nat.eqb_refl. simpl.
    rewrite wf_doc in W. apply andb_true_iff in W. destruct W as [Wn Wf].
    rewrite has_aware_doc in Na, Nb.
    revert gs H Nb Wn Wf Na.
    induction IH as [|[k v] fs Hv _ IHfs]; intros [|[k' v'] gs] H Nb Wn Wf Na;
      try discriminate H; [reflexivity|].
    simpl in H. apply andb_true_iff in H. destruct H as [H1 H2].
    unfold fld_eq in H1. simpl in H1. apply andb_true_iff in H1. destruct H1 as [Hk Hvv].
    apply String.eqb_eq in Hk. subst k'.
    simpl in Wn. apply andb_true_iff in Wn. destruct Wn as [Wk Wn].
    simpl in Wf. apply andb_true_iff in Wf. destruct Wf as [Wv Wf].
    simpl in Na, Nb. apply orb_false_iff in Na. destruct Na as [Na1 Na2].
    apply orb_false_iff in Nb. destruct Nb as [Nb1 Nb2].
    simpl in *. apply andb_true_iff. split.
    + unfold doc_sub. simpl. rewrite String.eqb_refl. apply Hv; assumption.
    + specialize (IHfs gs H2 Nb2 Wn Wf Na2).
      rewrite forallb_forall in *. intros [k2 v2] Hin. specialize (IHfs _ Hin).
      unfold doc_sub in *. simpl in *.
      destruct (String.eqb k2 k) eqn:E; [|exact IHfs].
      apply String.eqb_eq in E. subst k2. exfalso.
      apply negb_true_iff in Wk.
      assert (Hm : mem_str k (map fst fs) = true).
      { apply mem_str_In. apply in_map_iff. exists (k, v2). auto. }
      rewrite Hm in Wk. discriminate Wk.
  - destruct b as [| | | | | | | |ys]; try discriminate H.
    rewrite bson_eq_arr in H. rewrite py_eq_arr. rewrite wf_arr in W.
    rewrite has_aware_arr in Na, Nb.
    revert ys H Nb W Na.
    induction IH as [|x xs Hx _ IHxs]; intros [|y ys] H Nb W Na; try discriminate H; [reflexivity|].
    simpl in *. apply andb_true_iff in H. destruct H as [A B].
    apply andb_true_iff in W. destruct W as [W1 W2].
    apply orb_false_iff in Na. destruct Na as [Na1 Na2].
    apply orb_false_iff in Nb. destruct Nb as [Nb1 Nb2].
    rewrite (Hx y), (IHxs ys); auto.
Qed.
