(* C11: abstract theory of the stable insertion sort of Model/Update.v (sort_by / py_sorted):
   pure version, agreement with the fallible version, total preorders given by a
   three-way comparison, "sorted by cmp, ties in the order R" (slt), stability of one
   pass, the rank of an element of a strictly sorted list. *)
From Coq Require Import List Bool Arith Lia Permutation Sorted.
From Verif Require Import Value Update.
Import ListNotations.

(* ------------------------------------------------------------------ pure insertion sort *)
Section Pure.
Context {A : Type}.
Variable ltb : A -> A -> bool.

Fixpoint ins (x : A) (l : list A) : list A :=
  match l with
  | [] => [x]
  | y :: l' => if ltb y x then y :: ins x l' else x :: l
  end.
Fixpoint isort (l : list A) : list A :=
  match l with [] => [] | x :: l' => ins x (isort l') end.
Definition psorted (reverse : bool) (l : list A) : list A :=
  if reverse then rev (isort (rev l)) else isort l.

Lemma ins_perm x l : Permutation (x :: l) (ins x l).
Proof.
  induction l as [|y l IH]; simpl; [reflexivity|].
  destruct (ltb y x); [|reflexivity].
  eapply perm_trans; [apply perm_swap|apply perm_skip; exact IH].
Qed.

Lemma isort_perm l : Permutation l (isort l).
Proof.
  induction l as [|x l IH]; simpl; [reflexivity|].
  eapply perm_trans; [apply perm_skip; exact IH|apply ins_perm].
Qed.

Lemma psorted_perm r l : Permutation l (psorted r l).
Proof.
  destruct r; simpl; [|apply isort_perm].
  eapply perm_trans; [apply Permutation_rev|].
  eapply perm_trans; [apply isort_perm|apply Permutation_rev].
Qed.
End Pure.

(* the fallible sort computes the pure one when every comparison it may make succeeds *)
Lemma insert_by_pure {A} (lt : A -> A -> res bool) ltb x l :
  (forall y, In y l -> lt y x = Ok (ltb y x)) ->
  insert_by lt x l = Ok (ins ltb x l).
Proof.
  induction l as [|y l IH]; intros H; [reflexivity|].
  simpl. rewrite (H y (or_introl eq_refl)). simpl.
  destruct (ltb y x); [|reflexivity].
  rewrite IH; [reflexivity|]. intros z Hz. apply H. right. exact Hz.
Qed.

Lemma sort_by_pure {A} (lt : A -> A -> res bool) ltb l :
  (forall x y, In x l -> In y l -> lt x y = Ok (ltb x y)) ->
  sort_by lt l = Ok (isort ltb l).
Proof.
  induction l as [|x l IH]; intros H; [reflexivity|].
  simpl. rewrite IH; [|intros a b Ha Hb; apply H; right; assumption]. simpl.
  apply insert_by_pure. intros y Hy. apply H; [right|left; reflexivity].
  eapply Permutation_in; [apply Permutation_sym; apply isort_perm|exact Hy].
Qed.

Lemma py_sorted_pure {A} (lt : A -> A -> res bool) ltb r l :
  (forall x y, In x l -> In y l -> lt x y = Ok (ltb x y)) ->
  py_sorted lt r l = Ok (psorted ltb r l).
Proof.
  intros H. unfold py_sorted, psorted. destruct r; [|apply sort_by_pure; exact H].
  rewrite (sort_by_pure lt ltb); [reflexivity|].
  intros x y Hx Hy. apply H; apply in_rev; assumption.
Qed.

Lemma map_ins {A B} (f : A -> B) ltb x l :
  map f (ins (fun a b => ltb (f a) (f b)) x l) = ins ltb (f x) (map f l).
Proof.
  induction l as [|y l IH]; [reflexivity|]. simpl.
  destruct (ltb (f y) (f x)); simpl; [rewrite IH|]; reflexivity.
Qed.
Lemma map_isort {A B} (f : A -> B) ltb l :
  map f (isort (fun a b => ltb (f a) (f b)) l) = isort ltb (map f l).
Proof.
  induction l as [|x l IH]; [reflexivity|]. simpl. rewrite map_ins, IH. reflexivity.
Qed.
Lemma map_psorted {A B} (f : A -> B) ltb r l :
  map f (psorted (fun a b => ltb (f a) (f b)) r l) = psorted ltb r (map f l).
Proof.
  destruct r; simpl; [|apply map_isort].
  rewrite map_rev, map_isort, map_rev. reflexivity.
Qed.

(* ------------------------------------------------------------------ total preorders *)
Record tpo {A} (cmp : A -> A -> comparison) : Prop := mkTpo {
  tpo_antisym : forall a b, cmp b a = CompOpp (cmp a b);
  tpo_eq : forall a b c, cmp a b = Eq -> cmp a c = cmp b c;
  tpo_lt : forall a b c, cmp a b = Lt -> cmp b c = Lt -> cmp a c = Lt
}.

Section Tpo.
Context {A : Type} (cmp : A -> A -> comparison) (H : tpo cmp).

Lemma tpo_refl a : cmp a a = Eq.
Proof. pose proof (tpo_antisym _ H a a) as E. destruct (cmp a a); simpl in E; congruence. Qed.

Lemma tpo_eq_r a b c : cmp b c = Eq -> cmp a b = cmp a c.
Proof.
  intros E. rewrite (tpo_antisym _ H b a), (tpo_antisym _ H c a).
  rewrite (tpo_eq _ H b c a E). reflexivity.
Qed.

Lemma tpo_le_trans a b c : cmp a b <> Gt -> cmp b c <> Gt -> cmp a c <> Gt.
Proof.
  intros H1 H2. destruct (cmp a b) eqn:E1; [| |congruence].
  - rewrite (tpo_eq _ H a b c E1). exact H2.
  - destruct (cmp b c) eqn:E2; [| |congruence].
    + rewrite <- (tpo_eq_r a b c E2), E1. discriminate.
    + rewrite (tpo_lt _ H a b c E1 E2). discriminate.
Qed.
End Tpo.

Lemma tpo_flip {A} (cmp : A -> A -> comparison) : tpo cmp -> tpo (fun a b => cmp b a).
Proof.
  intros H. constructor.
  - intros a b. apply (tpo_antisym _ H).
  - intros a b c E. apply (tpo_eq_r cmp H).
    rewrite (tpo_antisym _ H), E. reflexivity.
  - intros a b c E1 E2. apply (tpo_lt _ H c b a); assumption.
Qed.

Lemma tpo_pull {A B} (f : A -> B) (cmp : B -> B -> comparison) :
  tpo cmp -> tpo (fun a b => cmp (f a) (f b)).
Proof.
  intros H. constructor.
  - intros a b. apply (tpo_antisym _ H).
  - intros a b c. apply (tpo_eq _ H).
  - intros a b c. apply (tpo_lt _ H).
Qed.

Definition lex2 {A} (c1 c2 : A -> A -> comparison) (a b : A) : comparison :=
  match c1 a b with Eq => c2 a b | c => c end.

Lemma tpo_lex {A} (c1 c2 : A -> A -> comparison) : tpo c1 -> tpo c2 -> tpo (lex2 c1 c2).
Proof.
  intros H1 H2. constructor; unfold lex2.
  - intros a b. rewrite (tpo_antisym _ H1 a b), (tpo_antisym _ H2 a b).
    destruct (c1 a b); reflexivity.
  - intros a b c E. destruct (c1 a b) eqn:E1; try discriminate.
    rewrite (tpo_eq _ H1 a b c E1), (tpo_eq _ H2 a b c E). reflexivity.
  - intros a b c Ea Eb.
    destruct (c1 a b) eqn:E1; try discriminate.
    + rewrite (tpo_eq _ H1 a b c E1).
      destruct (c1 b c) eqn:E2; try discriminate; [|reflexivity].
      apply (tpo_lt _ H2 a b c); assumption.
    + destruct (c1 b c) eqn:E2; try discriminate.
      * rewrite <- (tpo_eq_r c1 H1 a b c E2), E1. reflexivity.
      * rewrite (tpo_lt _ H1 a b c E1 E2). reflexivity.
Qed.

(* ------------------------------------------------------------------ sorted, ties in order R *)
Definition ltb_of {A} (cmp : A -> A -> comparison) (a b : A) : bool :=
  match cmp a b with Lt => true | _ => false end.

Definition dcmp {A} (reverse : bool) (cmp : A -> A -> comparison) (a b : A) : comparison :=
  if reverse then CompOpp (cmp a b) else cmp a b.

(* x must come before y: strictly smaller, or tie and x before y in the order R *)
Definition slt {A} (cmp : A -> A -> comparison) (R : A -> A -> Prop) (x y : A) : Prop :=
  cmp x y = Lt \/ (cmp x y = Eq /\ R x y).

Lemma SS_impl {A} (R R' : A -> A -> Prop) l :
  (forall a b, R a b -> R' a b) -> StronglySorted R l -> StronglySorted R' l.
Proof.
  intros HR. induction 1 as [|x l HS IH HF]; constructor; [exact IH|].
  eapply Forall_impl; [|exact HF]. intros b. apply HR.
Qed.

Lemma SS_app {A} (R : A -> A -> Prop) l1 l2 :
  StronglySorted R l1 -> StronglySorted R l2 ->
  (forall a b, In a l1 -> In b l2 -> R a b) -> StronglySorted R (l1 ++ l2).
Proof.
  induction 1 as [|x l HS IH HF]; intros H2 Hc; [exact H2|].
  simpl. constructor.
  - apply IH; [exact H2|]. intros a b Ha Hb. apply Hc; [right|]; assumption.
  - apply Forall_app. split; [exact HF|].
    apply Forall_forall. intros b Hb. apply Hc; [left; reflexivity|exact Hb].
Qed.

Lemma SS_rev {A} (R : A -> A -> Prop) l :
  StronglySorted R l -> StronglySorted (fun a b => R b a) (rev l).
Proof.
  induction 1 as [|x l HS IH HF]; [constructor|].
  simpl. apply SS_app; [exact IH|repeat constructor|].
  intros a b Ha Hb. destruct Hb as [<-|[]].
  rewrite Forall_forall in HF. apply HF. apply in_rev. exact Ha.
Qed.

Section Stable.
Context {A : Type} (cmp : A -> A -> comparison) (Hc : tpo cmp) (R : A -> A -> Prop).

Lemma ins_sorted x s :
  StronglySorted (slt cmp R) s -> Forall (R x) s ->
  StronglySorted (slt cmp R) (ins (ltb_of cmp) x s).
Proof.
  induction s as [|y s IH]; intros HS HR; [repeat constructor|].
  inversion HS as [|y' s' HS' HF]; subst.
  inversion HR as [|y' s' Rxy HR']; subst.
  simpl. unfold ltb_of at 1. destruct (cmp y x) eqn:E.
  - constructor; [exact HS|]. apply Forall_forall. intros z Hz.
    assert (Hle : cmp x z <> Gt).
    { destruct Hz as [<-|Hz].
      - rewrite (tpo_antisym _ Hc y x), E. discriminate.
      - apply (tpo_le_trans cmp Hc x y z).
        + rewrite (tpo_antisym _ Hc y x), E. discriminate.
        + rewrite Forall_forall in HF. destruct (HF z Hz) as [E'|[E' _]]; rewrite E'; discriminate. }
    assert (HRz : R x z). { rewrite Forall_forall in HR. apply HR. exact Hz. }
    unfold slt. destruct (cmp x z); [right; split; [reflexivity|exact HRz]|left; reflexivity|congruence].
  - constructor; [apply IH; assumption|].
    eapply Permutation_Forall; [apply ins_perm|].
    constructor; [left; exact E|exact HF].
  - constructor; [exact HS|]. apply Forall_forall. intros z Hz.
    assert (Hle : cmp x z <> Gt).
    { destruct Hz as [<-|Hz].
      - rewrite (tpo_antisym _ Hc y x), E. discriminate.
      - apply (tpo_le_trans cmp Hc x y z).
        + rewrite (tpo_antisym _ Hc y x), E. discriminate.
        + rewrite Forall_forall in HF. destruct (HF z Hz) as [E'|[E' _]]; rewrite E'; discriminate. }
    assert (HRz : R x z). { rewrite Forall_forall in HR. apply HR. exact Hz. }
    unfold slt. destruct (cmp x z); [right; split; [reflexivity|exact HRz]|left; reflexivity|congruence].
Qed.

Lemma isort_sorted l :
  StronglySorted R l -> StronglySorted (slt cmp R) (isort (ltb_of cmp) l).
Proof.
  induction 1 as [|x l HS IH HF]; [constructor|].
  simpl. apply ins_sorted; [exact IH|].
  eapply Permutation_Forall; [apply isort_perm|exact HF].
Qed.
End Stable.

(* one pass of sorted(..., reverse=r): sorted by the (possibly reversed) comparison, ties
   in the order the elements had before the pass *)
Lemma psorted_sorted {A} (cmp : A -> A -> comparison) (R : A -> A -> Prop) r l :
  tpo cmp -> StronglySorted R l ->
  StronglySorted (slt (dcmp r cmp) R) (psorted (ltb_of cmp) r l).
Proof.
  intros Hc HS. destruct r; simpl.
  - apply SS_rev in HS.
    apply (isort_sorted cmp Hc) in HS. apply SS_rev in HS.
    eapply SS_impl; [|exact HS]. intros a b. unfold slt, dcmp. simpl.
    rewrite (tpo_antisym _ Hc b a).
    destruct (cmp b a); simpl; intros [E|[E Rab]]; try discriminate; auto.
  - apply (isort_sorted cmp Hc). exact HS.
Qed.

(* ------------------------------------------------------------------ ranks *)
Lemma filter_length_perm {A} (f : A -> bool) l l' :
  Permutation l l' -> length (filter f l) = length (filter f l').
Proof.
  induction 1 as [|x l l' HP IH|x y l|l l' l'' H1 IH1 H2 IH2]; simpl.
  - reflexivity.
  - destruct (f x); simpl; congruence.
  - destruct (f x), (f y); reflexivity.
  - congruence.
Qed.

Lemma filter_none {A} (f : A -> bool) l :
  (forall y, In y l -> f y = false) -> filter f l = [].
Proof.
  induction l as [|x l IH]; intros H; [reflexivity|]. simpl.
  rewrite (H x (or_introl eq_refl)). apply IH. intros y Hy. apply H. right. exact Hy.
Qed.

(* in a list strictly sorted by an asymmetric relation, the element at position p has
   exactly p elements before it *)
Lemma SS_rank {A} (R : A -> A -> Prop) (rb : A -> A -> bool) :
  (forall x y, rb x y = true <-> R x y) ->
  (forall x y, R x y -> R y x -> False) ->
  forall s p x, StronglySorted R s -> nth_error s p = Some x ->
  length (filter (fun y => rb y x) s) = p.
Proof.
  intros Hrb Hasym. induction s as [|z s IH]; intros p x HS Hn.
  - destruct p; discriminate.
  - inversion HS as [|z' s' HS' HF]; subst. rewrite Forall_forall in HF.
    destruct p as [|p]; simpl in Hn.
    + injection Hn as ->. simpl.
      assert (Hxx : rb x x = false).
      { destruct (rb x x) eqn:E; [|reflexivity]. apply Hrb in E. exfalso. exact (Hasym x x E E). }
      rewrite Hxx. rewrite filter_none; [reflexivity|].
      intros y Hy. destruct (rb y x) eqn:E; [|reflexivity]. apply Hrb in E.
      exfalso. exact (Hasym x y (HF y Hy) E).
    + simpl. assert (Hzx : rb z x = true).
      { apply Hrb. apply HF. eapply nth_error_In. exact Hn. }
      rewrite Hzx. simpl. f_equal. apply IH; assumption.
Qed.

Lemma nth_error_ext {A} (l l' : list A) :
  (forall p, nth_error l p = nth_error l' p) -> l = l'.
Proof.
  revert l'. induction l as [|x l IH]; intros [|y l'] H.
  - reflexivity.
  - specialize (H O). discriminate.
  - specialize (H O). discriminate.
  - pose proof (H O) as H0. simpl in H0. injection H0 as ->.
    f_equal. apply IH. intros p. exact (H (S p)).
Qed.

(* two strictly sorted arrangements of the same elements coincide *)
Lemma SS_unique {A} (R : A -> A -> Prop) :
  (forall x y, R x y -> R y x -> False) ->
  forall l l', StronglySorted R l -> StronglySorted R l' -> Permutation l l' -> l = l'.
Proof.
  intros Hasym. induction l as [|x l IH]; intros l' HS HS' HP.
  - apply Permutation_nil in HP. subst. reflexivity.
  - destruct l' as [|y l']; [apply Permutation_sym, Permutation_nil in HP; discriminate|].
    inversion HS as [|? ? HS1 HF1]; subst. inversion HS' as [|? ? HS2 HF2]; subst.
    rewrite Forall_forall in HF1, HF2.
    assert (x = y) as ->.
    { assert (Hx : In x (y :: l')) by (eapply Permutation_in; [exact HP|left; reflexivity]).
      assert (Hy : In y (x :: l)) by (eapply Permutation_in; [apply Permutation_sym; exact HP|left; reflexivity]).
      destruct Hx as [->|Hx]; [reflexivity|]. destruct Hy as [->|Hy]; [reflexivity|].
      exfalso. exact (Hasym x y (HF1 y Hy) (HF2 x Hx)). }
    f_equal. apply IH; [assumption..|]. eapply Permutation_cons_inv. exact HP.
Qed.
