(* C12 proofs, part 2: the tree built by _combine_projection_spec represents the list of
   split paths (find_child k = node for `below k paths`). *)
From Coq Require Import ZArith List String Bool Ascii Lia.
From Verif Require Import Value PyEq BsonOrder Path Filter Update Project Coll ProjectSpec.
From Verif.Proofs Require Import C01Values C12Base.
Import ListNotations.
Open Scope Z_scope.
Open Scope string_scope.
Open Scope list_scope.

(* the tree cs represents the path list P (n bounds the nesting) *)
Fixpoint repr (n : nat) (cs : list (string * pspec)) (P : list (list string)) : Prop :=
  match n with
  | O => False
  | S n' =>
      forall k,
        (below k P = [] -> find_child k cs = None) /\
        (below k P <> [] -> names_whole (below k P) = true ->
         exists v, find_child k cs = Some (PLeaf v)) /\
        (below k P <> [] -> names_whole (below k P) = false ->
         exists cs', find_child k cs = Some (PNode cs') /\ repr n' cs' (below k P))
  end.

Lemma find_child_has_key k cs : find_child k cs = None -> has_key k cs = false.
Proof.
  induction cs as [|[k' c] cs IH]; simpl; [reflexivity|].
  destruct (k =? k'); [discriminate|exact IH].
Qed.

Lemma repr_no_dollar n cs P : repr n cs P -> nodollar P -> has_key "$" cs = false.
Proof.
  destruct n as [|n]; simpl; [contradiction|]. intros H Hd.
  apply find_child_has_key. apply (H "$"). apply nodollar_below_nil. exact Hd.
Qed.

(* ---------------------------------------------------------------- tmp_spec *)
Lemma assoc_tmp_set k k' e (l : list (string * tmp_entry)) :
  assoc k (tmp_set k' e l) = if k =? k' then Some e else assoc k l.
Proof.
  induction l as [|[k2 v2] l IH]; simpl.
  - destruct (k =? k'); reflexivity.
  - destruct (k' =? k2) eqn:E2; simpl.
    + apply String.eqb_eq in E2. subst k2. destruct (k =? k'); reflexivity.
    + destruct (k =? k2) eqn:E3.
      * apply String.eqb_eq in E3. subst k2. rewrite (eqb_neq_sym _ _ E2). reflexivity.
      * exact IH.
Qed.

Lemma keys_tmp_set_in k' e (l : list (string * tmp_entry)) k :
  In k (map fst (tmp_set k' e l)) <-> k = k' \/ In k (map fst l).
Proof.
  induction l as [|[k2 v2] l IH]; simpl.
  - intuition congruence.
  - destruct (k' =? k2) eqn:E2; simpl.
    + apply String.eqb_eq in E2. subst k2. intuition congruence.
    + rewrite IH. intuition congruence.
Qed.

Lemma NoDup_tmp_set k e (l : list (string * tmp_entry)) :
  NoDup (map fst l) -> NoDup (map fst (tmp_set k e l)).
Proof.
  induction l as [|[k2 v2] l IH]; simpl; intro H.
  - constructor; [intros []|constructor].
  - inversion H as [|? ? Hni Hnd]; subst.
    destruct (k =? k2) eqn:E2; simpl.
    + apply String.eqb_eq in E2. subst k2. constructor; assumption.
    + constructor; [|apply IH; exact Hnd].
      rewrite keys_tmp_set_in. intros [H1|H1]; [|exact (Hni H1)].
      subst k2. rewrite String.eqb_refl in E2. discriminate.
Qed.

(* what tmp_spec must hold for key k after the paths `done` have been entered *)
Definition entry_ok (sub : list (list string)) (e : option tmp_entry) : Prop :=
  (sub = [] -> e = None) /\
  (sub <> [] -> names_whole sub = true -> exists v, e = Some (inl v)) /\
  (sub <> [] -> names_whole sub = false -> exists fl, e = Some (inr fl) /\ pathsof fl = sub).

Definition tmp_inv (tmp : list (string * tmp_entry)) (done : list (list string)) : Prop :=
  NoDup (map fst tmp) /\ forall k, entry_ok (below k done) (assoc k tmp).

Lemma below_nonempty_in k P : below k P <> [] -> exists r, In (k :: r) P.
Proof.
  destruct (below k P) as [|r sub] eqn:E; [intro H; contradiction H; reflexivity|].
  intros _. exists r. apply In_below. rewrite E. left. reflexivity.
Qed.

Lemma pathsof_set_key_absent k v fl :
  assoc k fl = None -> pathsof (set_key k v fl) = pathsof fl ++ [split_dots k].
Proof.
  intro H. rewrite set_key_absent by exact H. unfold pathsof. rewrite map_app. reflexivity.
Qed.

Lemma pathsof_in k (x : value) fl : assoc k fl = Some x -> In (split_dots k) (pathsof fl).
Proof.
  intro H. apply assoc_Some_in in H. unfold pathsof.
  apply (in_map (fun kv : string * value => split_dots (fst kv))) in H. exact H.
Qed.

Lemma combine_tmp_inv fields : forall tmp done,
  tmp_inv tmp done ->
  collide (done ++ pathsof fields) = false ->
  exists tmp', combine_tmp fields tmp = Ok tmp' /\ tmp_inv tmp' (done ++ pathsof fields).
Proof.
  induction fields as [|[f v] fields IH]; intros tmp done Hinv Hcol.
  - exists tmp. simpl. rewrite app_nil_r. split; [reflexivity|exact Hinv].
  - change (pathsof ((f, v) :: fields)) with (split_dots f :: pathsof fields) in *.
    assert (Hcol' : collide ((done ++ [split_dots f]) ++ pathsof fields) = false)
      by (rewrite <- app_assoc; exact Hcol).
    replace (done ++ split_dots f :: pathsof fields)
      with ((done ++ [split_dots f]) ++ pathsof fields) by (rewrite <- app_assoc; reflexivity).
    destruct (collide_false_app _ _ Hcol) as [_ [_ Hap]].
    assert (Hapart : forall q, In q done -> apart q (split_dots f))
      by (intros q Hq; apply Hap; [exact Hq|left; reflexivity]).
    destruct Hinv as [Hnd Hent].
    simpl. destruct (split_first_cases f) as [[Hs Hsf]|[base [rest [Hne [Hs [Hsf Hsj]]]]]];
      rewrite Hsf.
    + (* a whole name *)
      assert (Hb : below f done = []).
      { destruct (below f done) as [|r sub] eqn:E; [reflexivity|]. exfalso.
        destruct (below_nonempty_in f done) as [r' Hr']; [rewrite E; discriminate|].
        destruct (Hapart _ Hr') as [_ A]. rewrite Hs in A. simpl in A.
        rewrite String.eqb_refl in A. discriminate. }
      destruct (Hent f) as [H1 _]. rewrite (H1 Hb).
      apply IH; [|exact Hcol'].
      split; [apply NoDup_tmp_set; exact Hnd|].
      intro k. rewrite assoc_tmp_set, below_app, Hs. rewrite below_cons. simpl (below k []).
      rewrite app_nil_r. destruct (k =? f) eqn:E.
      * apply String.eqb_eq in E. subst k. rewrite Hb. simpl.
        split; [discriminate|]. split; [intros _ _; eexists; reflexivity|].
        intros _ H. discriminate.
      * rewrite app_nil_r. apply Hent.
    + (* base.rest *)
      assert (Hnw : names_whole (below base done) = false).
      { destruct (names_whole (below base done)) eqn:E; [|reflexivity]. exfalso.
        apply names_whole_In, In_below in E. destruct (Hapart _ E) as [A _].
        rewrite Hs in A. simpl in A. rewrite String.eqb_refl in A. discriminate. }
      assert (Hstep : forall fl,
                 ((below base done = [] /\ fl = [(join_dots rest, v)]) \/
                  (exists fl0, assoc base tmp = Some (inr fl0) /\ pathsof fl0 = below base done /\
                               fl = set_key (join_dots rest) v fl0)) ->
                 tmp_inv (tmp_set base (inr fl) tmp) (done ++ [split_dots f])).
      { intros fl Hfl. split; [apply NoDup_tmp_set; exact Hnd|].
        intro k. rewrite assoc_tmp_set, below_app, Hs, below_cons. simpl (below k []).
        rewrite app_nil_r. destruct (k =? base) eqn:E; [|rewrite app_nil_r; apply Hent].
        apply String.eqb_eq in E. subst k.
        split; [intro H; apply app_eq_nil in H; destruct H; discriminate|].
        split.
        - intros _ H. rewrite names_whole_app, Hnw in H. simpl in H.
          destruct rest; [contradiction Hne; reflexivity|discriminate].
        - intros _ _. exists fl. split; [reflexivity|].
          destruct Hfl as [[Hb Hfl]|[fl0 [Ha [Hp Hfl]]]]; subst fl.
          + rewrite Hb. unfold pathsof. simpl. rewrite Hsj. reflexivity.
          + rewrite pathsof_set_key_absent, Hp, Hsj; [reflexivity|].
            destruct (assoc (join_dots rest) fl0) eqn:E; [|reflexivity]. exfalso.
            apply pathsof_in in E. rewrite Hsj, Hp in E. apply In_below in E.
            destruct (Hapart _ E) as [A _]. rewrite Hs, is_prefix_refl in A. discriminate. }
      destruct (Hent base) as [H1 [_ H3]].
      destruct (below base done) as [|r sub] eqn:Eb.
      * rewrite (H1 eq_refl). apply IH; [|exact Hcol'].
        apply Hstep. left. split; reflexivity.
      * destruct (H3 ltac:(discriminate) Hnw) as [fl0 [Ha Hp]]. rewrite Ha.
        apply IH; [|exact Hcol']. apply Hstep. right. exists fl0. auto.
Qed.

(* ---------------------------------------------------------------- the children loop *)
Definition go_children (rec : list (string * value) -> res pspec)
  : list (string * tmp_entry) -> res (list (string * pspec)) :=
  fix go (tmp : list (string * tmp_entry)) : res (list (string * pspec)) :=
    match tmp with
    | [] => Ok []
    | (k, inl v) :: tmp' => let! r := go tmp' in Ok ((k, PLeaf v) :: r)
    | (k, inr sub) :: tmp' =>
        let! c := rec sub in
        let! r := go tmp' in Ok ((k, c) :: r)
    end.

Lemma combine_spec_S f fields :
  combine_spec (S f) fields =
  (let! tmp := combine_tmp fields [] in
   let! ch := go_children (combine_spec f) tmp in Ok (PNode ch)).
Proof. reflexivity. Qed.

Lemma go_children_ok rec tmp :
  (forall k fl, In (k, inr fl) tmp -> exists c, rec fl = Ok c) ->
  exists cs, go_children rec tmp = Ok cs.
Proof.
  induction tmp as [|[k [v|fl]] tmp IH]; intro H; simpl.
  - eexists; reflexivity.
  - destruct IH as [cs Hcs]; [intros k' fl' Hin; eapply H; right; exact Hin|].
    rewrite Hcs. simpl. eexists; reflexivity.
  - destruct (H k fl) as [c Hc]; [left; reflexivity|]. rewrite Hc. simpl.
    destruct IH as [cs Hcs]; [intros k' fl' Hin; eapply H; right; exact Hin|].
    rewrite Hcs. simpl. eexists; reflexivity.
Qed.

Lemma go_children_find rec tmp : forall cs,
  go_children rec tmp = Ok cs ->
  forall k, match assoc k tmp with
            | None => find_child k cs = None
            | Some (inl v) => find_child k cs = Some (PLeaf v)
            | Some (inr fl) => exists c, rec fl = Ok c /\ find_child k cs = Some c
            end.
Proof.
  induction tmp as [|[k0 [v|fl]] tmp IH]; intros cs H k; simpl in *.
  - inversion H. reflexivity.
  - destruct (go_children rec tmp) as [r|e]; simpl in H; [|discriminate]. inversion H; subst.
    simpl. destruct (k =? k0); [reflexivity|]. apply IH. reflexivity.
  - destruct (rec fl) as [c|e] eqn:Ec; simpl in H; [|discriminate].
    destruct (go_children rec tmp) as [r|e]; simpl in H; [|discriminate]. inversion H; subst.
    simpl. destruct (k =? k0); [exists c; split; [exact Ec|reflexivity]|]. apply IH. reflexivity.
Qed.

(* ---------------------------------------------------------------- the tree *)
Lemma below_lengths k P n :
  (forall p, In p P -> (List.length p <= S n)%nat) ->
  forall r, In r (below k P) -> (List.length r <= n)%nat.
Proof.
  intros H r Hr. apply In_below in Hr. apply H in Hr. simpl in Hr. lia.
Qed.

Lemma combine_spec_repr : forall n fields,
  collide (pathsof fields) = false ->
  (forall p, In p (pathsof fields) -> (List.length p <= S n)%nat) ->
  exists cs, combine_spec (S n) fields = Ok (PNode cs) /\ repr (S n) cs (pathsof fields).
Proof.
  induction n as [|n IHn]; intros fields Hcol Hlen.
  - (* only whole names *)
    rewrite combine_spec_S.
    destruct (combine_tmp_inv fields [] [] ) as [tmp [Htmp [Hnd Hent]]].
    { split; [constructor|]. intro k. split; [reflexivity|]. split; intro H; contradiction H; reflexivity. }
    { exact Hcol. }
    simpl in Hent. rewrite Htmp. cbn [bind].
    assert (Hno : forall k fl, assoc k tmp = Some (inr fl) -> False).
    { intros k fl Ha. destruct (Hent k) as [H1 [H2 H3]].
      destruct (below k (pathsof fields)) as [|r sub] eqn:Eb.
      - rewrite (H1 eq_refl) in Ha. discriminate.
      - destruct (names_whole (r :: sub)) eqn:Enw.
        + destruct (H2 ltac:(discriminate) eq_refl) as [v Hv]. rewrite Hv in Ha. discriminate.
        + assert (Hall : forall q, In q (r :: sub) -> q = []).
          { intros q Hq. rewrite <- Eb in Hq. apply (below_lengths _ _ _ Hlen) in Hq.
            destruct q; [reflexivity|simpl in Hq; lia]. }
          assert (r = []) by (apply Hall; left; reflexivity). subst r. discriminate. }
    destruct (go_children_ok (combine_spec 0) tmp) as [cs Hcs].
    { intros k fl Hin. exfalso. apply (Hno k fl). apply in_assoc; assumption. }
    rewrite Hcs. cbn [bind]. exists cs. split; [reflexivity|].
    intro k. pose proof (go_children_find _ _ _ Hcs k) as Hf.
    destruct (Hent k) as [H1 [H2 H3]]. split; [|split].
    + intro Hb. rewrite (H1 Hb) in Hf. exact Hf.
    + intros Hb Hw. destruct (H2 Hb Hw) as [v Hv]. rewrite Hv in Hf. exists v. exact Hf.
    + intros Hb Hw. destruct (H3 Hb Hw) as [fl [Hfl _]]. exfalso. exact (Hno _ _ Hfl).
  - rewrite combine_spec_S.
    destruct (combine_tmp_inv fields [] [] ) as [tmp [Htmp [Hnd Hent]]].
    { split; [constructor|]. intro k. split; [reflexivity|]. split; intro H; contradiction H; reflexivity. }
    { exact Hcol. }
    simpl in Hent. rewrite Htmp. cbn [bind].
    assert (Hsub : forall k fl, assoc k tmp = Some (inr fl) ->
              pathsof fl = below k (pathsof fields) /\
              exists cs', combine_spec (S n) fl = Ok (PNode cs') /\ repr (S n) cs' (pathsof fl)).
    { intros k fl Ha. destruct (Hent k) as [H1 [H2 H3]].
      destruct (below k (pathsof fields)) as [|r sub] eqn:Eb.
      - rewrite (H1 eq_refl) in Ha. discriminate.
      - destruct (names_whole (r :: sub)) eqn:Enw.
        + destruct (H2 ltac:(discriminate) eq_refl) as [v Hv]. rewrite Hv in Ha. discriminate.
        + destruct (H3 ltac:(discriminate) eq_refl) as [fl' [Hfl' Hp]].
          rewrite Hfl' in Ha. inversion Ha; subst fl'. split; [exact Hp|].
          apply IHn.
          * rewrite Hp, <- Eb. apply collide_below. exact Hcol.
          * rewrite Hp, <- Eb. apply below_lengths. exact Hlen. }
    destruct (go_children_ok (combine_spec (S n)) tmp) as [cs Hcs].
    { intros k fl Hin. destruct (Hsub k fl) as [_ [cs' [Hc _]]]; [apply in_assoc; assumption|].
      eexists; exact Hc. }
    rewrite Hcs. cbn [bind]. exists cs. split; [reflexivity|].
    intro k. pose proof (go_children_find _ _ _ Hcs k) as Hf.
    destruct (Hent k) as [H1 [H2 H3]]. split; [|split].
    + intro Hb. rewrite (H1 Hb) in Hf. exact Hf.
    + intros Hb Hw. destruct (H2 Hb Hw) as [v Hv]. rewrite Hv in Hf. exists v. exact Hf.
    + intros Hb Hw. destruct (H3 Hb Hw) as [fl [Hfl Hp]]. rewrite Hfl in Hf.
      destruct Hf as [c [Hc Hfc]]. destruct (Hsub _ _ Hfl) as [_ [cs' [Hc' Hr]]].
      rewrite Hc' in Hc. inversion Hc; subst c. exists cs'. split; [exact Hfc|].
      rewrite <- Hp. exact Hr.
Qed.

Lemma spec_depth_bound fields p :
  In p (pathsof fields) -> (List.length p <= spec_depth fields)%nat.
Proof.
  induction fields as [|[k v] fields IH]; simpl; [contradiction|].
  intros [H|H].
  - subst p. unfold spec_depth. simpl. apply Nat.le_max_l.
  - unfold spec_depth in *. simpl. etransitivity; [apply IH; exact H|apply Nat.le_max_r].
Qed.

Lemma combine_spec_top fields :
  collide (pathsof fields) = false ->
  exists cs, combine_spec (S (spec_depth fields)) fields = Ok (PNode cs) /\
             repr (S (spec_depth fields)) cs (pathsof fields).
Proof.
  intro H. apply combine_spec_repr; [exact H|].
  intros p Hp. apply spec_depth_bound in Hp. lia.
Qed.
