(* C06 proofs, part 4: from the state invariant and the guard to the observed predicate
   inv_unique, the failed-create_index clause, and the theorem over histories. *)
From Coq Require Import ZArith List String Bool Ascii Lia.
From Verif Require Import Value PyEq BsonOrder Path Filter FilterSpec FilterGuard Update Project
  Coll HistCheck HistProps HistGuards.
From Verif.Proofs Require Import C01Values C01Paths C01Loop C06Values C06Base C06Inv C06Ops.
Import ListNotations.
Open Scope Z_scope.
Open Scope string_scope.
Open Scope list_scope.

(* the index information the model shows after a step *)
Definition info (c : coll) : value :=
  match index_information c with (_, Ok v) => v | _ => VNull end.

(* ---------------------------------------------------------------- strict equality *)
Lemma opt_z_eqb_refl o : opt_z_eqb o o = true.
Proof. destruct o as [z|]; simpl; [apply Z.eqb_refl | reflexivity]. Qed.

Lemma value_eqb_refl : forall v, value_eqb v v = true.
Proof.
  induction v as [ | b | z | e | s | us tz | n | fs IH | xs IH ] using value_ind2; simpl.
  - reflexivity.
  - apply eqb_reflx.
  - apply Z.eqb_refl.
  - apply Z.eqb_refl.
  - apply String.eqb_refl.
  - rewrite Z.eqb_refl, opt_z_eqb_refl. reflexivity.
  - apply Z.eqb_refl.
  - induction IH as [ | [k v] fs' Hv _ IHfs ]; [ reflexivity | ].
    simpl in Hv. rewrite String.eqb_refl, Hv. simpl. exact IHfs.
  - induction IH as [ | x xs' Hx _ IHxs ]; [ reflexivity | ].
    rewrite Hx. simpl. exact IHxs.
Qed.

(* ---------------------------------------------------------------- reading index_information *)
Lemma idx_unique i : idx_flag "unique" (index_doc i) = iunique i.
Proof.
  unfold idx_flag, get_field, index_doc.
  destruct (isparse i), (iunique i), (ittl i), (ipartial i); reflexivity.
Qed.

Lemma idx_sparse i : idx_flag "sparse" (index_doc i) = isparse i.
Proof.
  unfold idx_flag, get_field, index_doc.
  destruct (isparse i), (iunique i), (ittl i), (ipartial i); reflexivity.
Qed.

Lemma idx_partial i : get_field "partialFilterExpression" (index_doc i) = ipartial i.
Proof.
  unfold get_field, index_doc.
  destruct (isparse i), (iunique i), (ittl i), (ipartial i); reflexivity.
Qed.

Lemma idx_keys_doc i : idx_keys (index_doc i) = map fst (ikey i).
Proof.
  unfold idx_keys, get_field, index_doc. simpl.
  induction (ikey i) as [ | kd l IH ]; simpl; [ reflexivity | rewrite IH; reflexivity ].
Qed.

Lemma specs_In c ni :
  In ni (index_specs (info c)) -> exists i, In i (idx c) /\ snd ni = index_doc i.
Proof.
  unfold info, index_information. destruct (is_created c); simpl; [ | intros [] ].
  intros H. apply filter_In in H. destruct H as [H _].
  apply in_map_iff in H. destruct H as (i & <- & Hi). exists i. auto.
Qed.

Lemma covered_eq i d : covered (index_doc i) d = cov i d.
Proof. unfold covered, cov. rewrite idx_sparse, idx_keys_doc, idx_partial. reflexivity. Qed.

Lemma field_keys_nice sparse p d : pnice sparse p d = true -> field_keys p d = [kval p d].
Proof.
  intros H. destruct (pnice_inv _ _ _ H) as (_ & Hp & Hv).
  unfold field_keys, kval. rewrite Hp. simpl.
  destruct (get_by_dot (split_dots p) d) as [v|]; [ | reflexivity ].
  destruct Hv as [Hv _]. destruct v; try discriminate Hv; reflexivity.
Qed.

Lemma tuples_single {A} (f : A -> value) l :
  tuples (map (fun x => [f x]) l) = [map f l].
Proof.
  induction l as [ | x l IH ]; simpl; [ reflexivity | ]. rewrite IH. reflexivity.
Qed.

Lemma doc_index_keys_nice i d : dnice i d = true -> doc_index_keys (index_doc i) d = [kt i d].
Proof.
  intros H. unfold doc_index_keys, kt. rewrite idx_keys_doc, map_map.
  rewrite <- (tuples_single (fun kd => kval (fst kd) d)). f_equal.
  apply map_ext_in. intros kd Hkd. apply dnice_Forall in H. rewrite Forall_forall in H.
  eapply field_keys_nice. apply H. exact Hkd.
Qed.

(* ---------------------------------------------------------------- invariant + guard => predicate *)
Lemma no_shared_PW i l :
  (forall e, In e l -> ks (fst e) = true /\ dnice i (snd e) = true) ->
  PW (R i) l ->
  no_shared_keys (map (fun kd : value * value => doc_index_keys (index_doc i) (snd kd))
                      (List.filter (fun kd => covered (index_doc i) (snd kd)) l)) = true.
Proof.
  induction l as [ | e l IH ]; intros Hn Hp; [ reflexivity | ].
  destruct Hp as [Hp1 Hp2].
  assert (IH' := IH (fun e' He' => Hn e' (or_intror He')) Hp2).
  simpl. destruct (covered (index_doc i) (snd e)) eqn:Ec; [ | exact IH' ].
  simpl. rewrite IH', andb_true_r. apply negb_true_iff.
  match goal with |- ?t = false => destruct t eqn:Ex end; [ exfalso | reflexivity ].
  apply existsb_exists in Ex. destruct Ex as (k' & Hk' & Hx).
  apply in_map_iff in Hk'. destruct Hk' as (e' & <- & He').
  apply filter_In in He'. destruct He' as [He' Hc'].
  destruct (Hn e (or_introl eq_refl)) as [Hk Hd].
  destruct (Hn e' (or_intror He')) as [Hk2 Hd2].
  rewrite (doc_index_keys_nice _ _ Hd), (doc_index_keys_nice _ _ Hd2) in Hx.
  simpl in Hx. rewrite !orb_false_r in Hx.
  rewrite covered_eq in Ec, Hc'.
  assert (G1 : good i e = true) by (unfold good; rewrite Hk, Hd, Ec; reflexivity).
  assert (G2 : good i e' = true) by (unfold good; rewrite Hk2, Hd2, Hc'; reflexivity).
  rewrite (Hp1 e' He' G1 G2) in Hx. discriminate.
Qed.

Lemma fold_lor_zero l : fold_right Z.lor 0 l = 0 -> forall z, In z l -> z = 0.
Proof.
  induction l as [ | x l IH ]; simpl; intros H z Hz; [ destruct Hz | ].
  apply Z.lor_eq_0_iff in H. destruct H as [Hx Hl].
  destruct Hz as [<-|Hz]; [ exact Hx | auto ].
Qed.

Lemma inv_unique_final c :
  Inv c ->
  (forall e, In e (docs c) -> c06_doc_reasons (info c) (snd e) = 0) ->
  c06_key_reasons (info c) (docs c) = 0 ->
  inv_unique (info c) (docs c) = true.
Proof.
  intros [_ Hpw] Hdoc Hkey. unfold inv_unique. apply forallb_forall. intros ni Hni.
  destruct (specs_In _ _ Hni) as (i & Hi & Hsnd). cbv zeta. rewrite Hsnd, idx_unique.
  destruct (iunique i) eqn:Hu; [ | reflexivity ].
  apply no_shared_PW; [ | apply Hpw; assumption ].
  intros e He. split.
  - (* well-formed key *)
    unfold c06_key_reasons in Hkey.
    assert (Hex : existsb (fun ni => idx_flag "unique" (snd ni)) (index_specs (info c)) = true).
    { apply existsb_exists. exists ni. split; [ exact Hni | ]. rewrite Hsnd, idx_unique. exact Hu. }
    rewrite Hex in Hkey. simpl in Hkey.
    match type of Hkey with (if ?b then _ else _) = _ => destruct b eqn:Eb end; [ discriminate | ].
    pose proof (existsb_false_In _ _ Eb e He) as Hf. simpl in Hf.
    apply negb_false_iff in Hf. exact Hf.
  - (* nice paths *)
    specialize (Hdoc e He). unfold c06_doc_reasons in Hdoc.
    unfold dnice. apply forallb_forall. intros kd Hkd.
    apply path_reasons_nice. eapply fold_lor_zero; [ exact Hdoc | ].
    apply in_flat_map. exists ni. split; [ exact Hni | ].
    cbv zeta. rewrite Hsnd, idx_unique, Hu, idx_sparse, idx_keys_doc.
    apply in_map_iff. exists (fst kd). split; [ reflexivity | ].
    apply in_map. exact Hkd.
Qed.

(* ---------------------------------------------------------------- failed unique create_index *)
Lemma info_expire c c1 : expire c = Ok c1 -> info c1 = info c.
Proof.
  intros H. destruct (idx c) as [ | i l ] eqn:Ei.
  - rewrite expire_nil in H by exact Ei. inv_pair H. reflexivity.
  - apply expire_char in H. subst c1. unfold info, index_information, is_created. simpl.
    rewrite Ei.
    match goal with |- context [List.filter ?f (docs c)] => destruct (List.filter f (docs c)) end;
      destruct (docs c); reflexivity.
Qed.

Lemma create_index_fail c key s t p n c' e :
  create_index c key true s t p n = (c', Err e) -> info c' = info c.
Proof.
  unfold create_index. intros H. cbv zeta in H.
  match type of H with (if ?b then _ else _) = _ => destruct b end; [ inv_pair H; reflexivity | ].
  match type of H with (if ?b then _ else _) = _ => destruct b end; [ inv_pair H; reflexivity | ].
  destruct (expire c) as [c1|e1] eqn:E; [ | inv_pair H; reflexivity ].
  match type of H with (if ?b then _ else _) = _ => destruct b end; inv_pair H.
  apply info_expire. exact E.
Qed.

(* ---------------------------------------------------------------- the history theorem *)
Lemma obs_reasons_inv r s i :
  c06_obs_reasons (r, s, i) = 0 ->
  (forall e, In e s -> c06_doc_reasons i (snd e) = 0)
  /\ c06_key_reasons i s = 0 /\ r <> Err EUnmodelled.
Proof.
  unfold c06_obs_reasons. intros H.
  apply Z.lor_eq_0_iff in H. destruct H as [H1 H2].
  apply Z.lor_eq_0_iff in H2. destruct H2 as [H2 H3].
  split; [ | split; [ exact H2 | intros ->; discriminate H3 ] ].
  intros e He. eapply fold_lor_zero; [ exact H1 | ].
  apply in_map_iff. exists e. auto.
Qed.

Lemma c06_trace pre5 : forall ops c x,
  Inv c -> x_idx x = info c ->
  c06_reasons ops (model_obs pre5 c ops) = 0 ->
  trace_all c06_step x ops (model_obs pre5 c ops) = true.
Proof.
  induction ops as [ | o ops IH ]; intros c x Hi Hx Hg; [ reflexivity | ].
  simpl model_obs in *. destruct (step pre5 c o) as [c' r] eqn:Es.
  fold (info c') in *.
  unfold c06_reasons in Hg. simpl in Hg. apply Z.lor_eq_0_iff in Hg. destruct Hg as [Hg1 Hg2].
  destruct (obs_reasons_inv _ _ _ Hg1) as (Hd & Hk & Hr).
  assert (Hi' : Inv c') by (eapply step_Inv; eauto).
  cbn [trace_all]. apply andb_true_iff. split.
  - unfold c06_step. rewrite (inv_unique_final c' Hi' Hd Hk). simpl.
    destruct o; try reflexivity. destruct unique; try reflexivity.
    destruct r as [v|e]; [ reflexivity | ].
    simpl in Es. rewrite Hx, (create_index_fail _ _ _ _ _ _ _ _ Es). apply value_eqb_refl.
  - apply IH; [ exact Hi' | reflexivity | exact Hg2 ].
Qed.

Theorem C06_history_proof : forall (pre5 : bool) (ops : list op),
  c06_reasons ops (model_obs pre5 empty_coll ops) = 0 ->
  c06_ok ops (model_obs pre5 empty_coll ops) = true.
Proof.
  intros pre5 ops H. unfold c06_ok. apply c06_trace; [ apply Inv_empty | reflexivity | exact H ].
Qed.
