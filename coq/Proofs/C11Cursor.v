(* C11: the cursor bookkeeping (skip / limit / slices / sort calls in any order) and
   count_documents, against the "contiguous slice of the sorted sequence" specification. *)
From Coq Require Import ZArith List String Bool Ascii Lia Permutation.
From Verif Require Import Value PyEq BsonOrder Path Filter FilterSpec FilterGuard Update Project Coll Cursor.
From Verif Require Import C11Sort C11Keys C11Radix.
Import ListNotations.
Open Scope Z_scope.

(* ------------------------------------------------------------------ scans *)
Fixpoint scanv (f : value) (l : list value) : res (list value) :=
  match l with
  | [] => Ok []
  | d :: l' =>
      let! b := filter_applies f d in
      let! r := scanv f l' in
      Ok (if b then d :: r else r)
  end.

Lemma scan_tag f (g : value -> value) ds :
  scan f (map (fun d => (g d, d)) ds) =
  let! r := scanv f ds in Ok (map (fun d => (g d, d)) r).
Proof.
  induction ds as [|d ds IH]; [reflexivity|].
  cbn [map scan scanv]. destruct (filter_applies f d) as [b|e]; cbn [bind]; [|reflexivity].
  rewrite IH. destruct (scanv f ds) as [r|e]; cbn [bind]; [|reflexivity].
  destruct b; reflexivity.
Qed.

Lemma scanv_app f l1 l2 :
  scanv f (l1 ++ l2) =
  let! r1 := scanv f l1 in let! r2 := scanv f l2 in Ok (r1 ++ r2).
Proof.
  induction l1 as [|d l1 IH].
  - cbn [app scanv bind]. destruct (scanv f l2); reflexivity.
  - cbn [app scanv]. destruct (filter_applies f d) as [b|e]; cbn [bind]; [|reflexivity].
    rewrite IH. destruct (scanv f l1) as [r1|e]; cbn [bind]; [|reflexivity].
    destruct (scanv f l2) as [r2|e]; cbn [bind]; [|reflexivity].
    destruct b; reflexivity.
Qed.

Lemma scanv_sub f : forall ds r, scanv f ds = Ok r -> forall d, In d r -> In d ds.
Proof.
  induction ds as [|d0 ds IH]; intros r; cbn [scanv].
  - intros H; injection H as <-. intros d [].
  - destruct (filter_applies f d0) as [b|e]; cbn [bind]; [|discriminate].
    destruct (scanv f ds) as [r'|e]; cbn [bind]; [|discriminate].
    intros H; injection H as <-. intros d Hd.
    destruct b; [destruct Hd as [<-|Hd]; [left; reflexivity|]|]; right; eapply IH; eauto.
Qed.

(* documents of the collection: none is the empty document (in a real collection every
   document carries an _id) *)
Definition c11_docs_ok (docs : list value) : bool :=
  forallb (fun d => negb (value_eqb d (VDoc []))) docs.

Definition nonempty (d : value) : bool := negb (value_eqb d (VDoc [])).

Lemma filter_nonempty r (b : bool) :
  forallb nonempty r = true ->
  List.filter nonempty (r ++ (if b then [VDoc []] else [])) = r.
Proof.
  induction r as [|d r IH]; cbn [forallb app List.filter]; intros H.
  - destruct b; reflexivity.
  - apply andb_prop in H. destruct H as [Hd Hr]. rewrite Hd. f_equal. apply IH. exact Hr.
Qed.

(* what the specification's scan (documents plus one empty document) tells *)
Lemma spec_scan docs f m0 :
  scan (patch f) (map (fun d => (VNull, d)) docs ++ [(VNull, VDoc [])]) = Ok m0 ->
  c11_docs_ok docs = true ->
  exists r b,
    (exists fs, f = VDoc fs) /\
    scanv (patch f) docs = Ok r /\ filter_applies (patch f) (VDoc []) = Ok b /\
    List.filter nonempty (map snd m0) = r /\
    List.filter (fun kd => nonempty (snd kd)) m0 = map (fun d => (VNull, d)) r.
Proof.
  intros Hs Hok.
  change [(VNull, VDoc [])] with (map (fun d => (VNull, d)) [VDoc []]) in Hs.
  rewrite <- map_app in Hs. rewrite (scan_tag (patch f) (fun _ => VNull)) in Hs.
  rewrite scanv_app in Hs.
  destruct (scanv (patch f) docs) as [r|e] eqn:Er; cbn [bind] in Hs; [|discriminate].
  cbn [scanv] in Hs.
  destruct (filter_applies (patch f) (VDoc [])) as [b|e] eqn:Eb; cbn [bind] in Hs; [|discriminate].
  injection Hs as <-.
  exists r, b.
  assert (Hr : forallb nonempty r = true).
  { apply forallb_forall. intros d Hd. unfold c11_docs_ok in Hok.
    rewrite forallb_forall in Hok. apply Hok. eapply scanv_sub; eauto. }
  split; [|split; [reflexivity|split; [reflexivity|split]]].
  - destruct f as [|b0|z|e0|s|us tz|n|fs|xs]; try (cbn in Eb; discriminate Eb);
      [destruct tz; cbn in Eb; discriminate Eb|eexists; reflexivity].
  - rewrite map_map. cbn [snd]. rewrite map_id.
    apply (filter_nonempty r b Hr).
  - assert (E : forall l, List.filter (fun kd : value * value => nonempty (snd kd))
                            (map (fun d => (VNull, d)) l)
                          = map (fun d => (VNull, d)) (List.filter nonempty l)).
    { induction l as [|x l IHl]; [reflexivity|]. cbn [map List.filter snd].
      destruct (nonempty x); cbn [map]; rewrite IHl; reflexivity. }
    rewrite E. f_equal.
    apply (filter_nonempty r b Hr).
Qed.

Lemma iter_documents_noidx (g : value -> value) ds f r b n1 n2 o :
  scanv f ds = Ok r -> filter_applies f (VDoc []) = Ok b ->
  iter_documents (mkColl (map (fun d => (g d, d)) ds) [] false n1 n2 o) f =
  Ok (mkColl (map (fun d => (g d, d)) ds) [] false n1 n2 o, map (fun d => (g d, d)) r).
Proof.
  intros Hr Hb. unfold iter_documents, expire. cbn [idx fold_left bind docs].
  rewrite scan_tag, Hr. cbn [bind].
  destruct ds as [|d ds]; cbn [map]; [rewrite Hb|]; reflexivity.
Qed.

(* ------------------------------------------------------------------ count_documents *)
Lemma count_correct docs f skip limit n :
  count_spec docs f skip limit = Some n ->
  (limit = None \/ exists l, limit = Some l /\ 0 < l) ->
  c11_docs_ok docs = true ->
  count_run docs f skip limit = Ok (VInt n).
Proof.
  unfold count_spec, count_run. intros Hs Hl Hok.
  destruct (scan (patch f) _) as [m0|e] eqn:Es; [|discriminate].
  destruct (spec_scan docs f m0 Es Hok) as [r [b [[fs ->] [Hr [Hb [_ Hm]]]]]].
  fold nonempty in Hs. change (fun kd : value * value => negb (value_eqb (snd kd) (VDoc [])))
    with (fun kd : value * value => nonempty (snd kd)) in Hs.
  rewrite Hm in Hs.
  destruct (skip <? 0) eqn:Esk; [discriminate|]. apply Z.ltb_ge in Esk.
  injection Hs as <-.
  unfold count_op, spec_slice. cbn [w_skip w_limit].
  rewrite (iter_documents_noidx (fun _ => VNull) docs (patch (VDoc fs)) r b _ _ _ Hr Hb).
  destruct Hl as [->|[l [-> Hl]]].
  - cbn [snd]. rewrite skipn_length, !map_length. do 2 f_equal. lia.
  - destruct (Z.leb_spec l 0) as [Hle|_]; [lia|].
    cbn [snd]. rewrite firstn_length, skipn_length, !map_length. do 2 f_equal. lia.
Qed.

(* ------------------------------------------------------------------ cursor methods *)
(* the limit part of _compute_results and of the specified window *)
Definition lim {A} (e : bool) (lm : option Z) (s : list A) : list A :=
  if e then []
  else match lm with
       | Some n => if n =? 0 then s else firstn (Z.to_nat (Z.abs n)) s
       | None => s
       end.
Definition lim_w {A} (lm : option Z) (s : list A) : list A :=
  match lm with Some n => firstn (Z.to_nat n) s | None => s end.

Definition inv (k : cursor) (w : window) (srt : list (string * Z)) : Prop :=
  k_sort k = srt /\ 0 <= k_skip k /\ k_skip k = w_skip w /\
  forall (A : Type) (s : list A), lim (k_empty k) (k_limit k) s = lim_w (w_limit w) s.

Definition wstep (acc : option window) (m : cmeth) : option window :=
  match acc with
  | None => None
  | Some w =>
      match m with
      | MSort _ | MClone | MPeek => Some w
      | MSkip n => if n <? 0 then None else Some (mkWin n (w_limit w))
      | MLimit n => Some (mkWin (w_skip w) (if n =? 0 then None else Some (Z.abs n)))
      | MSlice start stop =>
          let s := match start with Some s => s | None => 0 end in
          match stop with
          | Some e => if (s <? 0) || (e <? s) then None else Some (mkWin s (Some (e - s)))
          | None => if s <? 0 then None else Some (mkWin s None)
          end
      end
  end.
Definition sstep (acc : list (string * Z)) (m : cmeth) : list (string * Z) :=
  match m with MSort s => s | _ => acc end.

Lemma spec_window_eq skip0 limit0 ms :
  spec_window skip0 limit0 ms =
  fold_left wstep ms (if skip0 <? 0 then None
                      else Some (mkWin skip0 (if limit0 =? 0 then None else Some (Z.abs limit0)))).
Proof. reflexivity. Qed.
Lemma final_sort_eq sort0 ms : final_sort sort0 ms = fold_left sstep ms sort0.
Proof. reflexivity. Qed.

Lemma fold_wstep_none ms : fold_left wstep ms None = None.
Proof. induction ms as [|m ms IH]; [reflexivity|exact IH]. Qed.

(* the cursor calls the property does not speak about: sort([]) raises ValueError *)
Definition c11_meth_ok (m : cmeth) : bool :=
  match m with MSort [] => false | _ => true end.
Definition c11_meths_ok (ms : list cmeth) : bool := forallb c11_meth_ok ms.
Definition is_clone (m : cmeth) : bool := match m with MClone => true | _ => false end.

Lemma lim_limit {A} n (s : list A) :
  lim false (norm_limit n) s = lim_w (if n =? 0 then None else Some (Z.abs n)) s.
Proof.
  unfold lim, lim_w, norm_limit. destruct (n =? 0) eqn:E; [reflexivity|]. rewrite E. reflexivity.
Qed.

Lemma lim_slice {A} l (s : list A) : 0 <= l -> lim (l =? 0) (Some l) s = lim_w (Some l) s.
Proof.
  intros Hl. unfold lim, lim_w. destruct (l =? 0) eqn:E.
  - apply Z.eqb_eq in E. subst. reflexivity.
  - rewrite Z.abs_eq by exact Hl. reflexivity.
Qed.

Lemma meth_step k w srt m w' :
  inv k w srt -> wstep (Some w) m = Some w' -> is_clone m = false -> c11_meth_ok m = true ->
  exists k', apply_meth k m = Ok k' /\ inv k' w' (sstep srt m).
Proof.
  intros [Hsrt [Hsk [Hskw Hlim]]] Hw Hcl Hok.
  destruct m as [spec|n|n|start stop| |]; cbn [wstep] in Hw; cbn [apply_meth sstep].
  - destruct spec as [|kd spec]; [discriminate Hok|]. injection Hw as <-.
    eexists; split; [reflexivity|]. repeat split; assumption.
  - destruct (Z.ltb_spec n 0) as [|Hn]; [discriminate|]. injection Hw as <-.
    eexists; split; [reflexivity|]. repeat split; try assumption.
  - injection Hw as <-. eexists; split; [reflexivity|].
    repeat split; try assumption. intros A s. cbn [k_empty k_limit w_limit]. apply lim_limit.
  - destruct stop as [e|].
    + destruct start as [s|].
      * destruct (Z.ltb_spec s 0) as [|Hs]; [discriminate|].
        destruct (Z.ltb_spec e s) as [|He]; [discriminate|]. cbn [orb] in Hw. injection Hw as <-.
        destruct (Z.ltb_spec (e - s) 0) as [|Hl]; [lia|].
        eexists; split; [reflexivity|]. repeat split; try assumption.
        intros A x. cbn [k_empty k_limit w_limit]. apply lim_slice. exact Hl.
      * destruct (Z.ltb_spec e 0) as [|He]; [discriminate|]. cbn [orb Z.ltb] in Hw.
        change (0 <? 0) with false in Hw. cbn [orb] in Hw. injection Hw as <-.
        eexists; split; [reflexivity|]. repeat split; try assumption; try (cbn; lia).
        intros A x. cbn [k_empty k_limit w_limit]. rewrite Z.sub_0_r. apply lim_slice. exact He.
    + destruct start as [s|].
      * destruct (Z.ltb_spec s 0) as [|Hs]; [discriminate|]. injection Hw as <-.
        eexists; split; [reflexivity|]. repeat split; try assumption.
      * change (0 <? 0) with false in Hw. injection Hw as <-.
        eexists; split; [reflexivity|]. repeat split; try assumption; try (cbn; lia).
  - discriminate Hcl.
  - injection Hw as <-. eexists; split; [reflexivity|]. repeat split; assumption.
Qed.

Lemma meths_run : forall ms k w srt w',
  inv k w srt -> fold_left wstep ms (Some w) = Some w' ->
  existsb is_clone ms = false -> c11_meths_ok ms = true ->
  exists k', apply_meths k ms = Ok k' /\ inv k' w' (fold_left sstep ms srt).
Proof.
  induction ms as [|m ms IH]; intros k w srt w' Hinv Hw Hcl Hok.
  - injection Hw as <-. exists k. split; [reflexivity|exact Hinv].
  - cbn [fold_left] in Hw |- *. cbn [existsb] in Hcl. apply orb_false_elim in Hcl.
    destruct Hcl as [Hc1 Hcl]. cbn [c11_meths_ok forallb] in Hok. apply andb_prop in Hok.
    destruct Hok as [Ho1 Hok].
    destruct (wstep (Some w) m) as [w1|] eqn:E1; [|rewrite fold_wstep_none in Hw; discriminate].
    destruct (meth_step k w srt m w1 Hinv E1 Hc1 Ho1) as [k1 [Hk1 Hinv1]].
    destruct (IH k1 w1 (sstep srt m) w' Hinv1 Hw Hcl Hok) as [k' [Hk' Hinv']].
    exists k'. split; [|exact Hinv']. cbn [apply_meths]. rewrite Hk1. exact Hk'.
Qed.

Lemma compute_results_inv {A} k w srt (l : list A) :
  inv k w srt -> compute_results k l = spec_slice w l.
Proof.
  intros [_ [Hsk [Hskw Hlim]]]. unfold compute_results, spec_slice.
  destruct (Z.ltb_spec (k_skip k) 0) as [|_]; [lia|].
  rewrite <- Hskw. apply (Hlim A).
Qed.

(* ------------------------------------------------------------------ the cursor *)
Lemma cursor_correct docs f sort0 skip0 limit0 ms L :
  cursor_spec docs f sort0 skip0 limit0 ms = Some L ->
  c11_docs_ok docs = true -> c11_meths_ok ms = true ->
  c11_spec_ok (final_sort sort0 ms) = true ->
  cursor_run docs f sort0 skip0 limit0 ms = Ok L.
Proof.
  unfold cursor_spec, cursor_run. intros Hs Hdocs Hms Hspec.
  destruct (scan (patch f) _) as [m0|e] eqn:Es; [|discriminate].
  destruct (spec_scan docs f m0 Es Hdocs) as [r [b [[fs ->] [Hr [Hb [Hm _]]]]]].
  fold nonempty in Hs. change (fun d : value => negb (value_eqb d (VDoc []))) with nonempty in Hs.
  rewrite Hm in Hs.
  destruct (spec_window skip0 limit0 ms) as [w|] eqn:Ew; [|discriminate].
  fold is_clone in Hs. change (fun m : cmeth => match m with MClone => true | _ => false end)
    with is_clone in Hs.
  destruct (existsb is_clone ms) eqn:Ecl; [discriminate|].
  rewrite spec_window_eq in Ew.
  destruct (Z.ltb_spec skip0 0) as [|Hsk0]; [rewrite fold_wstep_none in Ew; discriminate|].
  assert (Hinv0 : inv (mkCursor sort0 skip0 (norm_limit limit0) false)
                      (mkWin skip0 (if limit0 =? 0 then None else Some (Z.abs limit0))) sort0).
  { repeat split; try assumption. intros A s. apply lim_limit. }
  destruct (meths_run ms _ _ _ _ Hinv0 Ew Ecl Hms) as [k [Hk Hinv]].
  rewrite Hk. cbn [bind].
  rewrite <- final_sort_eq in Hinv.
  assert (Hsort : sort_docs (k_sort k) r =
                  Ok (match final_sort sort0 ms with
                      | [] => r
                      | _ => match spec_sort (final_sort sort0 ms) r with Some x => x | None => r end
                      end)).
  { destruct Hinv as [-> _].
    destruct (final_sort sort0 ms) as [|kd spec] eqn:Ef; [reflexivity|].
    destruct (spec_sort (kd :: spec) r) as [x|] eqn:Ex; [|discriminate].
    apply sort_radix; assumption. }
  unfold find_docs.
  rewrite (iter_documents_noidx _ docs (patch (VDoc fs)) r b _ _ _ Hr Hb). cbn [bind snd].
  rewrite map_map. cbn [snd]. rewrite map_id. rewrite Hsort. cbn [bind snd].
  f_equal. rewrite (compute_results_inv k w _ _ Hinv).
  destruct (final_sort sort0 ms) as [|kd spec]; [injection Hs as <-; reflexivity|].
  destruct (spec_sort (kd :: spec) r); [injection Hs as <-; reflexivity|discriminate].
Qed.
