(* C03 part A -- the per-document stages ($addFields / $set, $replaceRoot, $project, $lookup)
   rewrite each document independently; $lookup attaches exactly the matching foreign documents *)
From Coq Require Import ZArith List String Bool Ascii Lia Permutation.
From Verif Require Import Value PyEq BsonOrder Path Update Filter Coll Expr Pipeline.
From Verif Require Import C03Base C03Laws.
Import ListNotations.
Open Scope Z_scope.
Open Scope string_scope.
Open Scope list_scope.

(* a stage that maps a fallible per-document function *)
Lemma mapM_app_ok {A B} (f : A -> res B) l1 l2 r1 r2 :
  mapM f l1 = Ok r1 -> mapM f l2 = Ok r2 -> mapM f (l1 ++ l2) = Ok (r1 ++ r2).
Proof. intros H1 H2. rewrite mapM_app, H1, H2. reflexivity. Qed.

Lemma mapM_app_inv {A B} (f : A -> res B) l1 l2 r :
  mapM f (l1 ++ l2) = Ok r -> exists r1 r2, mapM f l1 = Ok r1 /\ mapM f l2 = Ok r2 /\ r = r1 ++ r2.
Proof.
  rewrite mapM_app. destruct (mapM f l1) as [r1|e]; [|discriminate].
  destruct (mapM f l2) as [r2|e]; [|discriminate]. intros H. inversion H. exists r1, r2. repeat split.
Qed.

(* ------------------------------------------------------------ $replaceRoot *)
Definition replace_root_doc (e : value) (d : value) : res value :=
  match eval [] d true e with
  | EV (VDoc fs) => Ok (VDoc fs)
  | EV _ | EMiss => Err EOpFail
  | EE er => Err er
  end.

Lemma replace_root_mapM ofs e l :
  assoc "newRoot" ofs = Some e -> replace_root (VDoc ofs) l = mapM (replace_root_doc e) l.
Proof. intros H. unfold replace_root. rewrite H. reflexivity. Qed.

Lemma replace_root_shape o l r :
  replace_root o l = Ok r ->
  exists ofs e, o = VDoc ofs /\ assoc "newRoot" ofs = Some e /\ mapM (replace_root_doc e) l = Ok r.
Proof.
  unfold replace_root. destruct o; try discriminate.
  destruct (assoc "newRoot" fs) as [e|] eqn:He; [|discriminate].
  intros H. exists fs, e. repeat split; assumption.
Qed.

Lemma replace_root_app o l1 l2 :
  replace_root o (l1 ++ l2) =
  match replace_root o l1 with
  | Ok r1 => match replace_root o l2 with Ok r2 => Ok (r1 ++ r2) | Err e => Err e end
  | Err e => Err e
  end.
Proof.
  unfold replace_root. destruct o; try reflexivity.
  destruct (assoc "newRoot" fs); [apply mapM_app|reflexivity].
Qed.

Lemma replace_root_length o l r : replace_root o l = Ok r -> List.length r = List.length l.
Proof. intros H. apply replace_root_shape in H. destruct H as (ofs & e & _ & _ & H). eapply mapM_length; exact H. Qed.

(* ------------------------------------------------------------ $lookup *)
Definition lookup_query (lf : string) (d : value) : value :=
  let q := match get_by_dot (split_dots lf) d with Some v => v | None => VNull end in
  match q with VArr _ => VDoc [("$in", q)] | _ => q end.

Definition lookup_doc (foreign : list value) (lf ff asn : string) (d : value) : res value :=
  match d with
  | VDoc fs =>
      let! ms := match_docs (patch (VDoc [(ff, lookup_query lf d)])) foreign in
      Ok (VDoc (set_key asn (VArr ms) fs))
  | _ => Err EUnmodelled
  end.

Definition foreign_of (db : dbmap) (from : string) : list value :=
  match assoc from db with Some ds => ds | None => [] end.

Lemma lookup_stage_shape db o l r :
  lookup_stage db o l = Ok r ->
  exists ofs from lf ff asn,
    o = VDoc ofs /\ assoc "from" ofs = Some (VStr from) /\ assoc "localField" ofs = Some (VStr lf) /\
    assoc "foreignField" ofs = Some (VStr ff) /\ assoc "as" ofs = Some (VStr asn) /\
    mapM (lookup_doc (foreign_of db from) lf ff asn) l = Ok r.
Proof.
  unfold lookup_stage. destruct o; try discriminate. rename fs into ofs.
  destruct (has_key "let" ofs || has_key "pipeline" ofs); [discriminate|].
  destruct (assoc "from" ofs) as [[]|] eqn:Hfrom; cbn [bind andb]; try discriminate.
  destruct (assoc "localField" ofs) as [[]|] eqn:Hlf; cbn [bind andb]; try discriminate.
  destruct (starts_dollar s0); [discriminate|]. cbn [bind].
  destruct (assoc "foreignField" ofs) as [[]|] eqn:Hff; cbn [bind andb]; try discriminate.
  destruct (starts_dollar s1); [discriminate|]. cbn [bind].
  destruct (assoc "as" ofs) as [[]|] eqn:Has; cbn [bind andb]; try discriminate.
  destruct (starts_dollar s2); [discriminate|]. cbn [bind].
  destruct (existsb (fun p => p =? "") [s2]); [discriminate|].
  destruct (1 <?? Z.of_nat (List.length (split_dots s2))); [discriminate|].
  destruct (negb (path_modelled (split_dots s0) && path_modelled (split_dots s1))); [discriminate|].
  intros H. exists ofs, s, s0, s1, s2. repeat split; try assumption; try reflexivity.
Qed.

Lemma lookup_stage_app db o l1 l2 :
  lookup_stage db o (l1 ++ l2) =
  match lookup_stage db o l1 with
  | Ok r1 => match lookup_stage db o l2 with Ok r2 => Ok (r1 ++ r2) | Err e => Err e end
  | Err e => Err e
  end.
Proof.
  unfold lookup_stage. destruct o; try reflexivity. rename fs into ofs.
  destruct (has_key "let" ofs || has_key "pipeline" ofs); [reflexivity|].
  destruct (assoc "from" ofs) as [[]|] eqn:Hfrom; cbn [bind andb]; try reflexivity.
  destruct (assoc "localField" ofs) as [[]|] eqn:Hlf; cbn [bind andb]; try reflexivity.
  destruct (starts_dollar s0); [reflexivity|]. cbn [bind].
  destruct (assoc "foreignField" ofs) as [[]|] eqn:Hff; cbn [bind andb]; try reflexivity.
  destruct (starts_dollar s1); [reflexivity|]. cbn [bind].
  destruct (assoc "as" ofs) as [[]|] eqn:Has; cbn [bind andb]; try reflexivity.
  destruct (starts_dollar s2); [reflexivity|]. cbn [bind].
  destruct (existsb (fun p => p =? "") [s2]); [reflexivity|].
  destruct (1 <?? Z.of_nat (List.length (split_dots s2))); [reflexivity|].
  destruct (negb (path_modelled (split_dots s0) && path_modelled (split_dots s1))); [reflexivity|].
  apply mapM_app.
Qed.

Lemma lookup_stage_length db o l r : lookup_stage db o l = Ok r -> List.length r = List.length l.
Proof.
  intros H. apply lookup_stage_shape in H. destruct H as (ofs & from & lf & ff & asn & _ & _ & _ & _ & _ & H).
  eapply mapM_length; exact H.
Qed.

(* 8. exactly the matching foreign documents, in their order; the other fields untouched *)
Lemma lookup_doc_exact foreign lf ff asn d d' :
  lookup_doc foreign lf ff asn d = Ok d' ->
  exists fs, d = VDoc fs /\
    let q := patch (VDoc [(ff, lookup_query lf d)]) in
    Forall (fun f => exists b, filter_applies q (patch f) = Ok b) foreign /\
    d' = VDoc (set_key asn (VArr (List.filter (matches_ok q) foreign)) fs) /\
    assoc asn (set_key asn (VArr (List.filter (matches_ok q) foreign)) fs)
      = Some (VArr (List.filter (matches_ok q) foreign)) /\
    forall k, k <> asn ->
      assoc k (set_key asn (VArr (List.filter (matches_ok q) foreign)) fs) = assoc k fs.
Proof.
  unfold lookup_doc. destruct d; try discriminate. intros H.
  destruct (match_docs (patch (VDoc [(ff, lookup_query lf (VDoc fs))])) foreign) as [ms|e] eqn:Hm;
    cbn [bind] in H; [|discriminate].
  apply match_sublist in Hm. destruct Hm as [HF Hms]. inversion H; subst.
  exists fs. split; [reflexivity|]. cbv zeta. split; [exact HF|]. split; [reflexivity|].
  split; [apply assoc_set_key_same|]. intros k Hk. apply assoc_set_key_other. intros Hc; subst; contradiction.
Qed.

Lemma lookup_exact db o l r :
  lookup_stage db o l = Ok r ->
  exists ofs from lf ff asn,
    o = VDoc ofs /\ assoc "from" ofs = Some (VStr from) /\ assoc "localField" ofs = Some (VStr lf) /\
    assoc "foreignField" ofs = Some (VStr ff) /\ assoc "as" ofs = Some (VStr asn) /\
    Forall2 (fun d d' =>
      exists fs, d = VDoc fs /\
        let q := patch (VDoc [(ff, lookup_query lf d)]) in
        let joined := List.filter (matches_ok q) (foreign_of db from) in
        Forall (fun f => exists b, filter_applies q (patch f) = Ok b) (foreign_of db from) /\
        d' = VDoc (set_key asn (VArr joined) fs) /\
        assoc asn (set_key asn (VArr joined) fs) = Some (VArr joined) /\
        forall k, k <> asn -> assoc k (set_key asn (VArr joined) fs) = assoc k fs) l r.
Proof.
  intros H. apply lookup_stage_shape in H.
  destruct H as (ofs & from & lf & ff & asn & Ho & Hfrom & Hlf & Hff & Has & H).
  exists ofs, from, lf, ff, asn. repeat (split; [assumption|]).
  apply mapM_Forall2 in H. induction H as [|d d' l r Hd _ IH]; constructor; [|exact IH].
  apply lookup_doc_exact in Hd. exact Hd.
Qed.

(* ------------------------------------------------------------ $addFields / $set *)
Lemma add_fields_go_app_ok fields : forall p1 p2 r1 r2,
  add_fields_go fields p1 = Ok r1 -> add_fields_go fields p2 = Ok r2 ->
  add_fields_go fields (p1 ++ p2) = Ok (r1 ++ r2).
Proof.
  induction fields as [|[f e] fields IH]; intros p1 p2 r1 r2 H1 H2; cbn [add_fields_go] in *.
  - inversion H1; inversion H2; reflexivity.
  - destruct (mapM (add_field_pair f e) p1) as [q1|er] eqn:Hq1; cbn [bind] in H1; [|discriminate].
    destruct (mapM (add_field_pair f e) p2) as [q2|er] eqn:Hq2; cbn [bind] in H2; [|discriminate].
    rewrite (mapM_app_ok _ _ _ _ _ Hq1 Hq2). cbn [bind]. apply IH; assumption.
Qed.

Lemma add_fields_go_app_inv fields : forall p1 p2 r,
  add_fields_go fields (p1 ++ p2) = Ok r ->
  exists r1 r2, add_fields_go fields p1 = Ok r1 /\ add_fields_go fields p2 = Ok r2 /\ r = r1 ++ r2.
Proof.
  induction fields as [|[f e] fields IH]; intros p1 p2 r H; cbn [add_fields_go] in *.
  - inversion H. exists p1, p2. repeat split.
  - destruct (mapM (add_field_pair f e) (p1 ++ p2)) as [q|er] eqn:Hq; cbn [bind] in H; [|discriminate].
    apply mapM_app_inv in Hq. destruct Hq as (q1 & q2 & Hq1 & Hq2 & Hq). subst q.
    rewrite Hq1, Hq2. cbn [bind]. apply IH. exact H.
Qed.

Lemma add_fields_go_length fields : forall p r,
  add_fields_go fields p = Ok r -> List.length r = List.length p.
Proof.
  induction fields as [|[f e] fields IH]; intros p r H; cbn [add_fields_go] in *.
  - inversion H; reflexivity.
  - destruct (mapM (add_field_pair f e) p) as [q|er] eqn:Hq; cbn [bind] in H; [|discriminate].
    rewrite (IH _ _ H). eapply mapM_length; exact Hq.
Qed.

Lemma add_fields_shape o l r :
  add_fields o l = Ok r ->
  exists f fields pairs, o = VDoc (f :: fields) /\
    add_fields_go (f :: fields) (map (fun d => (d, d)) l) = Ok pairs /\ r = map snd pairs.
Proof.
  unfold add_fields. destruct o; try (destruct (truthy _); discriminate).
  destruct fs as [|f fields]; [discriminate|].
  destruct (add_fields_go (f :: fields) (map (fun d => (d, d)) l)) as [pairs|e] eqn:Hp; cbn [bind]; [|discriminate].
  intros H. inversion H. exists f, fields, pairs. repeat split. exact Hp.
Qed.

Lemma add_fields_app_ok o l1 l2 r1 r2 :
  add_fields o l1 = Ok r1 -> add_fields o l2 = Ok r2 -> add_fields o (l1 ++ l2) = Ok (r1 ++ r2).
Proof.
  intros H1 H2. apply add_fields_shape in H1. destruct H1 as (f & fields & pairs1 & Ho & Hp1 & Hr1).
  apply add_fields_shape in H2. destruct H2 as (f' & fields' & pairs2 & Ho' & Hp2 & Hr2).
  subst o. inversion Ho'; subst f' fields'. subst r1 r2.
  unfold add_fields. rewrite map_app. rewrite (add_fields_go_app_ok _ _ _ _ _ Hp1 Hp2). cbn [bind].
  rewrite map_app. reflexivity.
Qed.

Lemma add_fields_app_inv o l1 l2 r :
  add_fields o (l1 ++ l2) = Ok r ->
  exists r1 r2, add_fields o l1 = Ok r1 /\ add_fields o l2 = Ok r2 /\ r = r1 ++ r2.
Proof.
  intros H. apply add_fields_shape in H. destruct H as (f & fields & pairs & Ho & Hp & Hr).
  rewrite map_app in Hp. apply add_fields_go_app_inv in Hp. destruct Hp as (q1 & q2 & H1 & H2 & Hq).
  subst. exists (map snd q1), (map snd q2). unfold add_fields. rewrite H1, H2. cbn [bind].
  repeat split. apply map_app.
Qed.

Lemma add_fields_length o l r : add_fields o l = Ok r -> List.length r = List.length l.
Proof.
  intros H. apply add_fields_shape in H. destruct H as (f & fields & pairs & Ho & Hp & Hr).
  subst r. rewrite map_length. rewrite (add_fields_go_length _ _ _ Hp). apply map_length.
Qed.
