(* C03 -- basic lemmas: the res monad, mapM, association lists, the stable sort, slices *)
From Coq Require Import ZArith List String Bool Ascii Lia Permutation.
From Verif Require Import Value PyEq BsonOrder Path Update Filter Coll Expr Pipeline.
Import ListNotations.
Open Scope Z_scope.
Open Scope string_scope.
Open Scope list_scope.

(* ---------- the monad *)
Lemma bind_ok {A B} (r : res A) (f : A -> res B) b :
  bind r f = Ok b -> exists a, r = Ok a /\ f a = Ok b.
Proof. destruct r as [a|e]; simpl; intros H; [exists a; split; [reflexivity|exact H]|discriminate]. Qed.

Lemma bind_err {A B} (r : res A) (f : A -> res B) e :
  bind r f = Err e -> r = Err e \/ exists a, r = Ok a /\ f a = Err e.
Proof. destruct r as [a|e']; simpl; intros H; [right; exists a; split; [reflexivity|exact H]|left; inversion H; reflexivity]. Qed.

(* ---------- mapM *)
Lemma mapM_app {A B} (f : A -> res B) l1 l2 :
  mapM f (l1 ++ l2) =
  match mapM f l1 with
  | Ok r1 => match mapM f l2 with Ok r2 => Ok (r1 ++ r2) | Err e => Err e end
  | Err e => Err e
  end.
Proof.
  induction l1 as [|x l1 IH]; simpl.
  - destruct (mapM f l2); reflexivity.
  - destruct (f x) as [y|e]; simpl; [|reflexivity].
    rewrite IH. destruct (mapM f l1) as [r1|e]; simpl; [|reflexivity].
    destruct (mapM f l2); reflexivity.
Qed.

Lemma mapM_length {A B} (f : A -> res B) l r : mapM f l = Ok r -> List.length r = List.length l.
Proof.
  revert r. induction l as [|x l IH]; simpl; intros r H.
  - inversion H; reflexivity.
  - destruct (f x) as [y|e]; simpl in H; [|discriminate].
    destruct (mapM f l) as [r'|e]; simpl in H; [|discriminate].
    inversion H; subst. simpl. f_equal. apply IH. reflexivity.
Qed.

Lemma mapM_Forall2 {A B} (f : A -> res B) l r :
  mapM f l = Ok r <-> Forall2 (fun x y => f x = Ok y) l r.
Proof.
  revert r. induction l as [|x l IH]; simpl; intros r; split; intros H.
  - inversion H; constructor.
  - inversion H; reflexivity.
  - destruct (f x) as [y|e] eqn:Hx; simpl in H; [|discriminate].
    destruct (mapM f l) as [r'|e] eqn:Hl; simpl in H; [|discriminate].
    inversion H; subst. constructor; [exact Hx|]. apply IH. reflexivity.
  - inversion H as [|x' y l' r' Hx Hr]; subst. rewrite Hx. simpl.
    apply IH in Hr. rewrite Hr. reflexivity.
Qed.

Lemma mapM_ext {A B} (f g : A -> res B) l :
  (forall x, In x l -> f x = g x) -> mapM f l = mapM g l.
Proof.
  induction l as [|x l IH]; simpl; intros H; [reflexivity|].
  rewrite (H x (or_introl eq_refl)). rewrite IH; [reflexivity|].
  intros y Hy. apply H. right. exact Hy.
Qed.

Lemma mapM_pure {A B} (g : A -> B) l : mapM (fun x => Ok (g x)) l = Ok (map g l).
Proof. induction l as [|x l IH]; simpl; [reflexivity|]. rewrite IH. reflexivity. Qed.

Lemma mapM_nth {A B} (f : A -> res B) l r i x :
  mapM f l = Ok r -> nth_error l i = Some x -> exists y, nth_error r i = Some y /\ f x = Ok y.
Proof.
  intros H. apply mapM_Forall2 in H. revert i. induction H as [|a b l r Hab _ IH]; intros i Hi.
  - destruct i; discriminate.
  - destruct i as [|i]; simpl in *.
    + inversion Hi; subst. exists b. split; [reflexivity|exact Hab].
    + apply IH. exact Hi.
Qed.

(* ---------- association lists *)
Lemma assoc_set_key_same {A} k (v : A) l : assoc k (set_key k v l) = Some v.
Proof.
  induction l as [|[k' v'] l IH]; simpl.
  - rewrite String.eqb_refl. reflexivity.
  - destruct (String.eqb k k') eqn:E; simpl.
    + rewrite String.eqb_refl. reflexivity.
    + rewrite E. exact IH.
Qed.

Lemma assoc_set_key_other {A} k k' (v : A) l : k <> k' -> assoc k' (set_key k v l) = assoc k' l.
Proof.
  intros Hn. induction l as [|[k2 v2] l IH]; simpl.
  - destruct (String.eqb k' k) eqn:E; [apply String.eqb_eq in E; subst; contradiction|reflexivity].
  - destruct (String.eqb k k2) eqn:E; simpl.
    + apply String.eqb_eq in E. subst k2.
      destruct (String.eqb k' k) eqn:E2; [apply String.eqb_eq in E2; subst; contradiction|reflexivity].
    + destruct (String.eqb k' k2); [reflexivity|exact IH].
Qed.

(* ---------- the stable sort is a permutation *)
Lemma insert_by_perm {A} (lt : A -> A -> res bool) x l r :
  insert_by lt x l = Ok r -> Permutation (x :: l) r.
Proof.
  revert r. induction l as [|y l IH]; simpl; intros r H.
  - inversion H. apply Permutation_refl.
  - destruct (lt y x) as [b|e]; simpl in H; [|discriminate].
    destruct b.
    + destruct (insert_by lt x l) as [r'|e]; simpl in H; [|discriminate].
      inversion H; subst. eapply perm_trans; [apply perm_swap|]. apply perm_skip. apply IH. reflexivity.
    + inversion H. apply Permutation_refl.
Qed.

Lemma sort_by_perm {A} (lt : A -> A -> res bool) l r : sort_by lt l = Ok r -> Permutation l r.
Proof.
  revert r. induction l as [|x l IH]; simpl; intros r H.
  - inversion H. apply Permutation_refl.
  - destruct (sort_by lt l) as [s|e]; simpl in H; [|discriminate].
    eapply perm_trans; [apply perm_skip; apply IH; reflexivity|]. apply insert_by_perm with lt. exact H.
Qed.

Lemma py_sorted_perm {A} (lt : A -> A -> res bool) rv l r : py_sorted lt rv l = Ok r -> Permutation l r.
Proof.
  unfold py_sorted. destruct rv; intros H.
  - destruct (sort_by lt (rev l)) as [s|e] eqn:Hs; simpl in H; [|discriminate].
    inversion H; subst. eapply perm_trans; [apply Permutation_rev|].
    eapply perm_trans; [apply sort_by_perm with lt; exact Hs|apply Permutation_rev].
  - apply sort_by_perm with lt. exact H.
Qed.

(* ---------- slices *)
Lemma py_slice_skip {A} (l : list A) n : 0 <= n -> py_slice l (Some n) None = skipn (Z.to_nat n) l.
Proof.
  intros Hn. unfold py_slice, py_index.
  destruct (Z.ltb_spec n 0) as [H|_]; [lia|].
  destruct (Z.leb_spec (Z.of_nat (List.length l)) (Z.min n (Z.of_nat (List.length l)))) as [H|H].
  - symmetry. apply skipn_all2. lia.
  - assert (Hm : Z.min n (Z.of_nat (List.length l)) = n) by lia. rewrite Hm.
    apply firstn_all2. rewrite skipn_length. lia.
Qed.

Lemma py_slice_limit {A} (l : list A) n : 0 < n -> py_slice l None (Some n) = firstn (Z.to_nat n) l.
Proof.
  intros Hn. unfold py_slice, py_index.
  destruct (Z.ltb_spec n 0) as [H|_]; [lia|].
  destruct (Z.leb_spec (Z.min n (Z.of_nat (List.length l))) 0) as [H|H].
  - assert (Hl : List.length l = O) by lia. destruct l; [|discriminate]. rewrite firstn_nil. reflexivity.
  - rewrite Z.sub_0_r. simpl skipn.
    destruct (Z.le_gt_cases n (Z.of_nat (List.length l))) as [Hle|Hgt].
    + rewrite Z.min_l by lia. reflexivity.
    + rewrite Z.min_r by lia. rewrite Nat2Z.id. rewrite firstn_all. symmetry. apply firstn_all2. lia.
Qed.
