(* C02 proofs, part 1: shared definitions and small facts (paths through sub-documents,
   decimal index strings, list helpers). *)
From Coq Require Import ZArith List String Bool Ascii Lia DecimalString DecimalNat.
From Verif Require Import Value PyEq BsonOrder Path Filter FilterSpec Update Project Coll
                          HistCheck HistProps ProjectSpec Cursor UpdateLaws.
From Verif.Proofs Require Import C01Values C12Base.
Import ListNotations.
Open Scope Z_scope.
Open Scope string_scope.
Open Scope list_scope.

(* ---------------------------------------------------------------- the res monad *)
Lemma bind_ok {A B} (r : res A) (f : A -> res B) (b : B) :
  bind r f = Ok b -> exists a, r = Ok a /\ f a = Ok b.
Proof. destruct r as [a|e]; simpl; [intro H; exists a; auto | discriminate]. Qed.

Ltac bind_inv H a Ha :=
  let H' := fresh in
  apply bind_ok in H; destruct H as [a [Ha H']]; rename H' into H.

(* ---------------------------------------------------------------- parent chains *)
(* the parent chain of a path consists of sub-documents (or is missing): the local fixpoint
   of op_law, named *)
Fixpoint parent_ok (ps : list string) (v : value) : bool :=
  match ps with
  | [] => is_doc v
  | q :: rest =>
      match rest with
      | [] => is_doc v
      | _ :: _ =>
          match v with
          | VDoc fs => match assoc q fs with Some x => parent_ok rest x | None => true end
          | _ => false
          end
      end
  end.

Lemma parent_ok_empty ps : parent_ok ps (VDoc []) = true.
Proof. destruct ps as [|q [|r rest]]; reflexivity. Qed.

Lemma parent_ok_doc ps v : parent_ok ps v = true -> exists fs, v = VDoc fs.
Proof.
  destruct ps as [|q [|r rest]]; simpl; destruct v; try discriminate; intros _; eexists; reflexivity.
Qed.

Lemma parent_ok_cons2 q r rest fs :
  parent_ok (q :: r :: rest) (VDoc fs)
  = match assoc q fs with Some x => parent_ok (r :: rest) x | None => true end.
Proof. reflexivity. Qed.

(* nested singleton documents down to v *)
Fixpoint nest (parts : list string) (v : value) : value :=
  match parts with [] => v | p :: rest => VDoc [(p, nest rest v)] end.

(* ---------------------------------------------------------------- walk: unfolding *)
Lemma walk_nil u now doc arg : walk u now [] doc arg = Ok doc.
Proof. reflexivity. Qed.

Lemma walk_one u now last doc arg : walk u now [last] doc arg = apply_updater u now doc last arg.
Proof. reflexivity. Qed.

Lemma walk_cons2 u now p q rest doc arg :
  walk u now (p :: q :: rest) doc arg =
  match doc with
  | VArr xs =>
      match as_index p with
      | Some i =>
          match nth_error xs (Z.to_nat i) with
          | Some sub => let! sub' := walk u now (q :: rest) sub arg in
                        Ok (VArr (set_nth (Z.to_nat i) sub' xs))
          | None => Err ECrash
          end
      | None =>
          if negb (part_modelled p) || (p =? "$") then Err EUnmodelled
          else walk u now (q :: rest) doc arg
      end
  | VDoc fs =>
      match assoc p fs with
      | None =>
          match u with
          | UUnset => Ok doc
          | _ => let! sub' := walk u now (q :: rest) (VDoc []) arg in Ok (VDoc (set_key p sub' fs))
          end
      | Some sub => let! sub' := walk u now (q :: rest) sub arg in Ok (VDoc (set_key p sub' fs))
      end
  | _ => Ok doc
  end.
Proof. reflexivity. Qed.

(* ---------------------------------------------------------------- prefixes *)
Lemma is_prefix_nil_l q : is_prefix_of [] q = true.
Proof. destruct q; reflexivity. Qed.

Lemma is_prefix_cons x a y b : is_prefix_of (x :: a) (y :: b) = (x =? y) && is_prefix_of a b.
Proof. reflexivity. Qed.

(* ---------------------------------------------------------------- decimal index strings *)
Lemma is_digit_of_lt (n : nat) : (n < 10)%nat -> is_digit (ascii_of_nat (48 + n)) = true.
Proof.
  intro H. do 10 (destruct n as [|n]; [reflexivity|]). lia.
Qed.

Lemma all_digits_uint d : all_digits (NilEmpty.string_of_uint d) = true.
Proof. induction d; simpl; auto. Qed.

Lemma digits_val_cons c s acc :
  digits_val (String c s) acc = digits_val s (10 * acc + Z.of_nat (nat_of_ascii c - 48)).
Proof. reflexivity. Qed.

Lemma digits_val_uint d : forall acc, 0 <= acc ->
  digits_val (NilEmpty.string_of_uint d) acc = Z.of_nat (Nat.of_uint_acc d (Z.to_nat acc)).
Proof.
  induction d; intros acc Hacc; cbn [NilEmpty.string_of_uint Nat.of_uint_acc];
  [ cbn [digits_val]; rewrite Z2Nat.id; [reflexivity|lia] | .. ];
  (rewrite digits_val_cons, IHd by lia; f_equal; f_equal; rewrite Nat.tail_mul_spec;
   match goal with |- context [Z.of_nat ?t] =>
     let v := eval vm_compute in (Z.of_nat t) in change (Z.of_nat t) with v end; lia).
Qed.

Lemma string_of_uint_nonempty d : d <> Decimal.Nil -> NilEmpty.string_of_uint d <> "".
Proof. destruct d; simpl; congruence. Qed.


Lemma as_index_uint d : d <> Decimal.Nil ->
  as_index (NilEmpty.string_of_uint d) = Some (Z.of_nat (Nat.of_uint d)).
Proof.
  intro Hd. unfold as_index.
  destruct (NilEmpty.string_of_uint d) eqn:Es.
  - exfalso. revert Es. apply string_of_uint_nonempty. exact Hd.
  - rewrite <- Es, all_digits_uint, digits_val_uint by lia. reflexivity.
Qed.
Lemma as_index_string_of_nat (n : nat) : as_index (string_of_nat n) = Some (Z.of_nat n).
Proof.
  unfold string_of_nat, NilZero.string_of_uint.
  pose proof (DecimalNat.Unsigned.of_to n) as H.
  destruct (Nat.to_uint n) eqn:E.
  1: { simpl in H. subst n. reflexivity. }
  all: rewrite as_index_uint by discriminate; rewrite H; reflexivity.
Qed.

(* ---------------------------------------------------------------- list helpers *)
Lemma set_nth_length {A} n (x : A) l : List.length (set_nth n x l) = List.length l.
Proof. revert n; induction l as [|y l IH]; intros [|n]; simpl; auto. Qed.

Lemma nth_error_set_nth {A} n (x : A) l j :
  nth_error (set_nth n x l) j =
  if Nat.eqb j n then (if Nat.ltb n (List.length l) then Some x else None) else nth_error l j.
Proof.
  revert n j; induction l as [|y l IH]; intros n j; simpl.
  - destruct n, j; simpl; try reflexivity. destruct (Nat.eqb j n); reflexivity.
  - destruct n as [|n], j as [|j]; simpl; try reflexivity.
    rewrite IH. destruct (Nat.eqb j n); [|reflexivity].
    change (Nat.ltb (S n) (S (List.length l))) with (Nat.ltb n (List.length l)). reflexivity.
Qed.

Lemma set_nth_pad_app n (v : value) xs :
  (List.length xs <= n)%nat ->
  set_nth n v (pad_to (S n) xs) = xs ++ repeat VNull (n - List.length xs) ++ [v].
Proof.
  unfold pad_to. revert n; induction xs as [|x xs IH]; intros n Hn; simpl.
  - rewrite Nat.sub_0_r. clear Hn. induction n as [|n IHn]; simpl; [reflexivity|].
    f_equal. simpl in IHn. exact IHn.
  - destruct n as [|n]; [simpl in Hn; lia|]. simpl. f_equal.
    simpl in Hn. apply IH. lia.
Qed.
