(* C14/C10 proofs, part 1: equalities, store primitives, the key invariant, TTL-free expiry. *)
From Coq Require Import ZArith List String Bool Ascii Lia.
From Verif Require Import Value PyEq BsonOrder Path Filter Update Project Coll HistCheck HistProps.
From Verif Require Import C01Values.
Import ListNotations.
Open Scope Z_scope.
Open Scope string_scope.
Open Scope list_scope.

(* ---------------------------------------------------------------- structural equality *)
Lemma opt_z_eqb_refl o : opt_z_eqb o o = true.
Proof. destruct o as [z|]; simpl; [apply Z.eqb_refl|reflexivity]. Qed.

Lemma value_eqb_refl : forall v, value_eqb v v = true.
Proof.
  induction v as [| b | z | e | s | us tz | n | fs IH | xs IH] using value_ind2; simpl;
    try reflexivity; try apply Z.eqb_refl.
  - destruct b; reflexivity.
  - apply String.eqb_refl.
  - rewrite Z.eqb_refl, opt_z_eqb_refl. reflexivity.
  - induction IH as [| [k v] fs' Hv _ IHfs]; [reflexivity|].
    simpl in Hv. rewrite String.eqb_refl, Hv, IHfs. reflexivity.
  - induction IH as [| x xs' Hx _ IHxs]; [reflexivity|].
    rewrite Hx, IHxs. reflexivity.
Qed.

Lemma opt_z_eqb_eq a b : opt_z_eqb a b = true -> a = b.
Proof.
  destruct a, b; simpl; intro H; try discriminate; try reflexivity.
  apply Z.eqb_eq in H. subst. reflexivity.
Qed.

Lemma value_eqb_eq : forall a b, value_eqb a b = true -> a = b.
Proof.
  induction a as [| b0 | z | e | s | us tz | n | fs IH | xs IH] using value_ind2;
    intros b H; destruct b; simpl in H; try discriminate; try reflexivity.
  - apply Bool.eqb_prop in H. subst. reflexivity.
  - apply Z.eqb_eq in H. subst. reflexivity.
  - apply Z.eqb_eq in H. subst. reflexivity.
  - apply String.eqb_eq in H. subst. reflexivity.
  - apply andb_true_iff in H. destruct H as [H1 H2].
    apply Z.eqb_eq in H1. apply opt_z_eqb_eq in H2. subst. reflexivity.
  - apply Z.eqb_eq in H. subst. reflexivity.
  - f_equal. revert fs0 H.
    induction IH as [| [k v] fs' Hv _ IHfs]; intros gs H.
    + destruct gs; [reflexivity|discriminate].
    + destruct gs as [| [k' v'] gs']; [discriminate|].
      apply andb_true_iff in H. destruct H as [H H3].
      apply andb_true_iff in H. destruct H as [H1 H2].
      apply String.eqb_eq in H1. simpl in Hv. apply Hv in H2. apply IHfs in H3.
      subst. reflexivity.
  - f_equal. revert xs0 H.
    induction IH as [| x xs' Hx _ IHxs]; intros ys H.
    + destruct ys; [reflexivity|discriminate].
    + destruct ys as [| y ys']; [discriminate|].
      apply andb_true_iff in H. destruct H as [H1 H2].
      apply Hx in H1. apply IHxs in H2. subst. reflexivity.
Qed.

Lemma value_eqb_neq a b : a <> b -> value_eqb a b = false.
Proof.
  intro H. destruct (value_eqb a b) eqn:E; [|reflexivity].
  apply value_eqb_eq in E. contradiction.
Qed.

Lemma bson_eq_refl : forall v, bson_eq v v = true.
Proof.
  induction v as [| b | z | e | s | us tz | n | fs IH | xs IH] using value_ind2; simpl;
    try reflexivity; try apply Z.eqb_refl.
  - destruct b; reflexivity.
  - apply String.eqb_refl.
  - induction IH as [| [k v] fs' Hv _ IHfs]; [reflexivity|].
    simpl in Hv. rewrite String.eqb_refl, Hv, IHfs. reflexivity.
  - induction IH as [| x xs' Hx _ IHxs]; [reflexivity|].
    rewrite Hx, IHxs. reflexivity.
Qed.

Lemma store_eqb_refl (s : store) : store_eqb s s = true.
Proof.
  unfold store_eqb. induction s as [| [k d] s IH]; [reflexivity|].
  simpl. rewrite !value_eqb_refl, IH. reflexivity.
Qed.

(* ---------------------------------------------------------------- keys of a store *)
Definition skeys (l : store) : list value := map fst l.

(* the keys are pairwise different for Python ==, an earlier key compared with a later one
   (the direction in which the store primitives compare) *)
Fixpoint knd (ks : list value) : Prop :=
  match ks with
  | [] => True
  | k :: ks' => (forall k', In k' ks' -> py_eq k k' = false) /\ knd ks'
  end.

Lemma store_get_none k l :
  store_get k l = None <-> (forall k', In k' (skeys l) -> py_eq k' k = false).
Proof.
  induction l as [| [k1 d1] l IH]; simpl.
  - split; [intros _ k' []|reflexivity].
  - destruct (py_eq k1 k) eqn:E.
    + split; [discriminate|]. intro H. rewrite (H k1) in E; [discriminate|left; reflexivity].
    + rewrite IH. split.
      * intros H k' [<-|Hin]; auto.
      * intros H k' Hin. apply H. right. exact Hin.
Qed.

Lemma skeys_store_set_in k d l x :
  In x (skeys (store_set k d l)) -> In x (skeys l) \/ x = k.
Proof.
  induction l as [| [k1 d1] l IH]; simpl.
  - intros [<-|[]]. right. reflexivity.
  - destruct (py_eq k1 k); simpl.
    + intros [<-|H]; [left; left; reflexivity|left; right; exact H].
    + intros [<-|H]; [left; left; reflexivity|].
      destruct (IH H) as [H'|H']; [left; right; exact H'|right; exact H'].
Qed.

Lemma knd_store_set k d l : knd (skeys l) -> knd (skeys (store_set k d l)).
Proof.
  induction l as [| [k1 d1] l IH]; simpl.
  - intros _. split; [intros k' []|exact I].
  - intros [H1 H2]. destruct (py_eq k1 k) eqn:E; simpl.
    + split; assumption.
    + split; [|apply IH; exact H2].
      intros k' Hin. destruct (skeys_store_set_in _ _ _ _ Hin) as [H| ->]; auto.
Qed.

Lemma skeys_store_del_in k l x : In x (skeys (store_del k l)) -> In x (skeys l).
Proof.
  induction l as [| [k1 d1] l IH]; simpl; [tauto|].
  destruct (py_eq k1 k); simpl; [tauto|]. intros [<-|H]; auto.
Qed.

Lemma knd_store_del k l : knd (skeys l) -> knd (skeys (store_del k l)).
Proof.
  induction l as [| [k1 d1] l IH]; simpl; [tauto|].
  intros [H1 H2]. destruct (py_eq k1 k); simpl; [exact H2|].
  split; [|apply IH; exact H2].
  intros k' Hin. apply H1. eapply skeys_store_del_in. exact Hin.
Qed.

Lemma knd_app_one l k d :
  knd (skeys l) -> store_get k l = None -> knd (skeys (l ++ [(k, d)])).
Proof.
  intros H Hg. rewrite store_get_none in Hg.
  induction l as [| [k1 d1] l IH]; simpl.
  - split; [intros k' []|exact I].
  - destruct H as [H1 H2]. split.
    + intros k' Hin. unfold skeys in Hin. rewrite map_app in Hin. apply in_app_or in Hin.
      destruct Hin as [Hin|[<-|[]]]; [apply H1; exact Hin|].
      apply Hg. left. reflexivity.
    + apply IH; [exact H2|]. intros k' Hin. apply Hg. right. exact Hin.
Qed.

Lemma knd_mid pre k (d : value) post :
  knd (skeys (pre ++ (k, d) :: post)) ->
  (forall k', In k' (skeys pre) -> py_eq k' k = false) /\
  (forall k', In k' (skeys post) -> py_eq k k' = false).
Proof.
  induction pre as [| [k1 d1] pre IH]; simpl.
  - intros [H1 _]. split; [intros k' []|exact H1].
  - intros [H1 H2]. destruct (IH H2) as [Ha Hb]. split; [|exact Hb].
    intros k' [<-|Hin]; [|apply Ha; exact Hin].
    apply H1. unfold skeys. rewrite map_app. apply in_or_app. right. left. reflexivity.
Qed.

Lemma store_set_at pre k d d' post :
  (forall k', In k' (skeys pre) -> py_eq k' k = false) -> py_eq k k = true ->
  store_set k d' (pre ++ (k, d) :: post) = pre ++ (k, d') :: post.
Proof.
  intros Hpre Hk. induction pre as [| [k1 d1] pre IH]; simpl.
  - rewrite Hk. reflexivity.
  - rewrite (Hpre k1) by (left; reflexivity). f_equal. apply IH.
    intros k' Hin. apply Hpre. right. exact Hin.
Qed.

Lemma store_del_at pre k (d : value) post :
  (forall k', In k' (skeys pre) -> py_eq k' k = false) -> py_eq k k = true ->
  store_del k (pre ++ (k, d) :: post) = pre ++ post.
Proof.
  intros Hpre Hk. induction pre as [| [k1 d1] pre IH]; simpl.
  - rewrite Hk. reflexivity.
  - rewrite (Hpre k1) by (left; reflexivity). f_equal. apply IH.
    intros k' Hin. apply Hpre. right. exact Hin.
Qed.

Lemma store_get_at pre k (d : value) post :
  (forall k', In k' (skeys pre) -> py_eq k' k = false) -> py_eq k k = true ->
  store_get k (pre ++ (k, d) :: post) = Some d.
Proof.
  intros Hpre Hk. induction pre as [| [k1 d1] pre IH]; simpl.
  - rewrite Hk. reflexivity.
  - rewrite (Hpre k1) by (left; reflexivity). apply IH.
    intros k' Hin. apply Hpre. right. exact Hin.
Qed.

Lemma skeys_store_set_len k d l :
  store_get k l <> None -> skeys (store_set k d l) = skeys l.
Proof.
  induction l as [| [k1 d1] l IH]; simpl; [congruence|].
  destruct (py_eq k1 k); simpl; [reflexivity|]. intro H. f_equal. apply IH. exact H.
Qed.

Lemma store_del_length k l :
  store_get k l <> None -> S (List.length (store_del k l)) = List.length l.
Proof.
  induction l as [| [k1 d1] l IH]; simpl; [congruence|].
  destruct (py_eq k1 k); simpl; [reflexivity|]. intro H. f_equal. apply IH. exact H.
Qed.

(* ---------------------------------------------------------------- no TTL index: expiry is the identity *)
Definition no_ttl (c : coll) : Prop := Forall (fun i => ittl i = None) (idx c).

Lemma expire_index_none i c : ittl i = None -> expire_index i c = Ok c.
Proof. intro H. unfold expire_index. rewrite H. reflexivity. Qed.

Lemma expire_no_ttl c : no_ttl c -> expire c = Ok c.
Proof.
  unfold no_ttl, expire. generalize (idx c) as l.
  induction l as [| i l IH]; intro H; simpl; [reflexivity|].
  inversion H as [| ? ? Hi Hl]; subst.
  rewrite (expire_index_none i c Hi). apply IH. exact Hl.
Qed.

Lemma expire_if_no_ttl b c : no_ttl c -> expire_if b c = Ok c.
Proof. intro H. destruct b; simpl; [apply expire_no_ttl; exact H|reflexivity]. Qed.

Lemma iter_documents_no_ttl c f r :
  no_ttl c -> iter_documents c f = Ok r -> fst r = c /\ scan f (docs c) = Ok (snd r).
Proof.
  intros H. unfold iter_documents. rewrite (expire_no_ttl c H). simpl.
  destruct (match docs c with [] => filter_applies f (VDoc []) | _ => Ok true end); simpl;
    [|rewrite Nat.eqb_refl; discriminate].
  destruct (scan f (docs c)); simpl; [|rewrite Nat.eqb_refl; discriminate].
  intro E. injection E as <-. split; reflexivity.
Qed.

(* the invariant threaded through a history *)
Definition Inv (c : coll) : Prop := no_ttl c /\ knd (skeys (docs c)).

Lemma Inv_with_docs c l : Inv c -> knd (skeys l) -> Inv (with_docs c l).
Proof. intros [H1 _] H2. split; [exact H1|exact H2]. Qed.
Lemma Inv_with_docs_w c l : Inv c -> knd (skeys l) -> Inv (with_docs_w c l).
Proof. intros [H1 _] H2. split; [exact H1|exact H2]. Qed.

Lemma Inv_empty : Inv empty_coll.
Proof. split; [constructor|exact I]. Qed.
