(* C02 proofs, part 11: the state invariant "every store key and every stored document is
   well-formed" is kept by every operation whose argument documents are well-formed. *)
From Coq Require Import ZArith List String Bool Ascii Lia.
From Verif Require Import Value PyEq BsonOrder Path Filter FilterSpec Update Project Coll
                          HistCheck HistProps ProjectSpec Cursor UpdateLaws.
From Verif.Proofs Require Import C01Values C12Base C02Base C02Frame C02Store C02Step C02History C02Wf.
From Verif.Proofs Require C18Values.
Import ListNotations.
Open Scope Z_scope.
Open Scope string_scope.
Open Scope list_scope.

Ltac dm H :=
  match type of H with
  | context [bind ?r _] =>
      let E := fresh "E" in destruct r eqn:E; unfold bind in H; try discriminate H
  | context [match ?x with _ => _ end] =>
      let E := fresh "E" in destruct x eqn:E; try discriminate H
  end.
Ltac inv_pair H := inversion H; subst; clear H.

(* ---------------------------------------------------------------- the invariant *)
Definition WE (kd : value * value) : Prop := WF (fst kd) /\ WF (snd kd).
Definition WS (l : list (value * value)) : Prop := Forall WE l.
Definition W (c : coll) : Prop := WS (docs c).
Definition WL (l : list value) : Prop := Forall (fun v => WF v) l.
(* outcomes carrying one optional document *)
Definition ResO (r : res (option value)) : Prop :=
  match r with Ok (Some d) => WF d | _ => True end.

Lemma W_empty : W empty_coll.
Proof. constructor. Qed.

Lemma ws_filter f l : WS l -> WS (List.filter f l).
Proof.
  induction 1 as [|x l Hx _ IH]; simpl; [constructor|].
  destruct (f x); [constructor; assumption|assumption].
Qed.

Lemma ws_store_del k l : WS l -> WS (store_del k l).
Proof.
  induction 1 as [|[k' d'] l Hx Hl IH]; simpl; [constructor|].
  destruct (py_eq k' k); [assumption|constructor; assumption].
Qed.

Lemma ws_store_set k d l : WS l -> WF k -> WF d -> WS (store_set k d l).
Proof.
  intros H Hk Hd. induction H as [|[k' d'] l Hx Hl IH]; simpl.
  - constructor; [split; assumption|constructor].
  - destruct (py_eq k' k); constructor; try assumption.
    destruct Hx as [Hk' _]. split; assumption.
Qed.

Lemma ws_app_end k d l : WS l -> WF k -> WF d -> WS (l ++ [(k, d)]).
Proof.
  intros H Hk Hd. apply Forall_app. split; [exact H|]. constructor; [split; assumption|constructor].
Qed.

Lemma ws_snd l : WS l -> WL (map snd l).
Proof. induction 1 as [|x l [_ Hx] _ IH]; simpl; constructor; assumption. Qed.

(* ---------------------------------------------------------------- expiry *)
Lemma expire_index_W i c c' : expire_index i c = Ok c' -> W c -> W c'.
Proof.
  unfold expire_index, W. intros H Hi.
  repeat dm H; inv_pair H; simpl; auto using ws_filter.
Qed.

Lemma expire_fold_err is e :
  fold_left (fun acc i => let! c' := acc in expire_index i c') is (Err e) = Err e.
Proof. induction is as [|i is IH]; simpl; auto. Qed.

Lemma expire_fold_W : forall is c c',
  fold_left (fun acc i => let! c' := acc in expire_index i c') is (Ok c) = Ok c' -> W c -> W c'.
Proof.
  induction is as [|i is IH]; simpl; intros c c' H Hi.
  - inv_pair H. assumption.
  - destruct (expire_index i c) as [c1|e] eqn:E.
    + eapply IH; [exact H|eapply expire_index_W; eauto].
    + rewrite expire_fold_err in H. discriminate.
Qed.

Lemma expire_W c c' : expire c = Ok c' -> W c -> W c'.
Proof. unfold expire. apply expire_fold_W. Qed.

Lemma expire_if_W b c c' : expire_if b c = Ok c' -> W c -> W c'.
Proof. destruct b; simpl; [apply expire_W|intros H; inv_pair H; auto]. Qed.

(* ---------------------------------------------------------------- reads *)
Lemma scan_ws f : forall l m, scan f l = Ok m -> WS l -> WS m.
Proof.
  induction l as [|[k d] l IH]; simpl; intros m H Hl.
  - inv_pair H. constructor.
  - inversion Hl; subst.
    destruct (filter_applies f d) as [b|e]; simpl in H; [|discriminate].
    destruct (scan f l) as [r|e] eqn:E; simpl in H; [|discriminate].
    inv_pair H. specialize (IH r eq_refl ltac:(assumption)).
    destruct b; [constructor; assumption|assumption].
Qed.

Lemma iter_documents_W c f c1 m : iter_documents c f = Ok (c1, m) -> W c -> W c1 /\ WS m.
Proof.
  unfold iter_documents. intros H Hi.
  destruct (expire c) as [c0|e] eqn:E; simpl in H; [|discriminate].
  assert (H0 : W c0) by (eapply expire_W; eauto).
  destruct (match docs c0 with [] => filter_applies f (VDoc []) | _ => Ok true end) as [b|e];
    simpl in H; [|destruct (Nat.eqb _ _); discriminate].
  destruct (scan f (docs c0)) as [m0|e] eqn:Es; simpl in H;
    [|destruct (Nat.eqb _ _); discriminate].
  inv_pair H. split; [exact H0|eapply scan_ws; eauto].
Qed.

Lemma wl_rev l : WL l -> WL (rev l).
Proof. intro H. apply Forall_rev. exact H. Qed.

Lemma sort_docs_wl : forall spec l r, sort_docs spec l = Ok r -> WL l -> WL r.
Proof.
  induction spec as [|[k dir] spec IH]; simpl; intros l r H Hl.
  - inv_pair H. exact Hl.
  - destruct (sort_docs spec l) as [l'|e] eqn:E; simpl in H; [|discriminate].
    specialize (IH l l' E Hl).
    destruct (k =? "$natural").
    { inv_pair H. destruct (dir <?? 0); [apply wl_rev|]; exact IH. }
    destruct (starts_dollar k); [discriminate|].
    destruct (negb (path_modelled (split_dots k))); [discriminate|].
    eapply C18Values.py_sorted_Forall; [exact H|exact IH].
Qed.

Lemma find_docs_W c f s c1 l : find_docs c f s = Ok (c1, l) -> W c -> W c1 /\ WL l.
Proof.
  unfold find_docs. intros H Hi. destruct f; try discriminate.
  destruct (iter_documents c (patch (VDoc fs))) as [[c0 m]|e] eqn:E; simpl in H; [|discriminate].
  destruct (iter_documents_W _ _ _ _ E Hi) as [H0 Hm].
  destruct (sort_docs s (map snd m)) as [sorted|e] eqn:Es; simpl in H; [|discriminate].
  inv_pair H. split; [exact H0|]. eapply sort_docs_wl; [exact Es|apply ws_snd; exact Hm].
Qed.

Lemma project_all_none : forall l l', project_all None l = Ok l' -> WL l -> WL l'.
Proof.
  induction l as [|d l IH]; simpl; intros l' H Hl.
  - inv_pair H. constructor.
  - inversion Hl; subst.
    destruct (copy_only_fields d None) as [x|e] eqn:Ec; simpl in H; [|discriminate].
    destruct (project_all None l) as [r|e] eqn:Er; simpl in H; [|discriminate].
    inv_pair H. constructor; [|apply IH; [reflexivity|assumption]].
    destruct d; simpl in Ec; try discriminate. inv_pair Ec. assumption.
Qed.

Lemma wl_cursor_slice skip limit l : WL l -> WL (cursor_slice skip limit l).
Proof.
  intros H. unfold cursor_slice, WL.
  destruct (limit =?? 0); [|apply C02Ops.Forall_firstn']; destruct (skip <?? 0);
    apply C02Ops.Forall_skipn'; exact H.
Qed.

Lemma find_op_W c f p s sk lim c1 r :
  find_op c f p s sk lim = (c1, r) -> W c ->
  W c1 /\ (p = None -> match r with Ok (VArr l) => WL l | _ => True end).
Proof.
  unfold find_op. intros H Hi.
  destruct (find_docs c f s) as [[c0 l]|e] eqn:E.
  - destruct (find_docs_W _ _ _ _ _ E Hi) as [H0 Hl].
    destruct (project_all p l) as [l'|e] eqn:Ep; inv_pair H; (split; [exact H0|]); [|intros _; exact I].
    intros ->. apply wl_cursor_slice. eapply project_all_none; eauto.
  - inv_pair H. split; [assumption|intros _; exact I].
Qed.

Lemma find_one_W c f p s c1 r :
  find_one c f p s = (c1, r) -> W c -> W c1 /\ (p = None -> ResO r).
Proof.
  unfold find_one. intros H Hi.
  destruct (find_op c f p s 0 0) as [c0 r0] eqn:E.
  destruct (find_op_W _ _ _ _ _ _ _ _ E Hi) as [H0 Hr].
  destruct r0 as [v|e]; [|inv_pair H; split; [assumption|intros _; exact I]].
  destruct v; try (inv_pair H; split; [assumption|intros _; exact I]).
  destruct xs as [|d xs]; inv_pair H; (split; [assumption|]); [intros _; exact I|].
  intros Hp. specialize (Hr Hp). simpl. inversion Hr; assumption.
Qed.

Lemma count_op_W c f sk lim c1 r : count_op c f sk lim = (c1, r) -> W c -> W c1.
Proof.
  unfold count_op. intros H Hi.
  repeat dm H; inv_pair H; try assumption;
    match goal with E : iter_documents _ _ = Ok _ |- _ =>
      exact (proj1 (iter_documents_W _ _ _ _ E Hi)) end.
Qed.

Lemma distinct_op_W c k f c1 r : distinct_op c k f = (c1, r) -> W c -> W c1.
Proof.
  unfold distinct_op. intros H Hi.
  destruct (negb (path_modelled (split_dots k))); [inv_pair H; assumption|].
  destruct (find_docs c f []) as [[c0 l]|e] eqn:E.
  - destruct (find_docs_W _ _ _ _ _ E Hi) as [H0 Hl].
    match type of H with (if ?b then _ else _) = _ => destruct b end; inv_pair H; exact H0.
  - inv_pair H. assumption.
Qed.

(* ---------------------------------------------------------------- insert *)
Lemma insert_doc_W c d c' r : WF d -> insert_doc c d = (c', r) -> W c -> W c'.
Proof.
  unfold insert_doc. intros Hd H Hi.
  destruct d as [| | | | | | |fs|]; try (inv_pair H; assumption).
  set (t := match assoc "_id" fs with
            | Some i => (c, fs, patch i)
            | None => (mkColl (docs c) (idx c) (forced c) (next_oid c + 1) (now c) (odocs c),
                       fs ++ [("_id", VOid (next_oid c))], VOid (next_oid c))
            end) in H.
  assert (Ht : W (fst (fst t)) /\ WF (snd t) /\ WF (patch (VDoc (snd (fst t))))).
  { subst t. destruct (assoc "_id" fs) as [i|] eqn:Ea; cbn [fst snd].
    - split; [exact Hi|]. split; [apply wf_patch; eapply wf_doc_assoc; eassumption|].
      apply wf_patch. exact Hd.
    - split; [exact Hi|]. split; [reflexivity|]. apply wf_patch_doc_id; assumption. }
  destruct t as [[c0 fs1] id]. cbn [fst snd] in Ht. destruct Ht as [Ht [Hid Hdata]].
  destruct (negb (id_modelled id)).
  { destruct id; inv_pair H; assumption. }
  destruct (expire c0) as [c1|e] eqn:E1; [|inv_pair H; assumption].
  assert (H1 : W c1) by eauto using expire_W.
  destruct (store_get id (docs c1)) eqn:Eg; [inv_pair H; assumption|].
  set (data := patch (VDoc fs1)) in *.
  set (c2 := with_docs_w c1 (docs c1 ++ [(id, data)])) in H.
  assert (H2 : W c2) by (unfold W, c2; simpl; apply ws_app_end; assumption).
  destruct (ensure_uniques c2 data) as [touched|e] eqn:Eu.
  - destruct (expire_if touched c2) as [c3|e] eqn:E3; inv_pair H; eauto using expire_if_W.
  - destruct (expire c2) as [c3|e'] eqn:E3; inv_pair H; [|assumption].
    assert (H3 : W c3) by eauto using expire_W.
    unfold W. simpl. apply ws_store_del. exact H3.
Qed.

Lemma insert_one_W c d c' r : WF d -> insert_one c d = (c', r) -> W c -> W c'.
Proof.
  unfold insert_one. intros Hd H Hi. destruct (insert_doc c d) as [c0 r0] eqn:E.
  inv_pair H. eauto using insert_doc_W.
Qed.

Lemma insert_many_go_W : forall ds c ordered index ids errs n c' r,
  WL ds -> insert_many_go c ds ordered index ids errs n = (c', r) -> W c -> W c'.
Proof.
  induction ds as [|d ds IH]; simpl; intros c ordered index ids errs n c' r Hds H Hi.
  - inv_pair H. assumption.
  - inversion Hds; subst.
    destruct (insert_doc c d) as [c0 r0] eqn:E.
    assert (H0 : W c0) by eauto using insert_doc_W.
    destruct r0 as [id|e]; [eauto|].
    destruct (is_write_error e); [|inv_pair H; assumption].
    destruct ordered; [inv_pair H; assumption|eauto].
Qed.

Lemma insert_many_W c ds ordered c' r :
  WL ds -> insert_many c ds ordered = (c', r) -> W c -> W c'.
Proof.
  unfold insert_many. intros Hds H Hi.
  destruct ds as [|d ds]; [inv_pair H; assumption|].
  destruct (negb (forallb is_doc (d :: ds))); [inv_pair H; assumption|].
  destruct (insert_many_go c (d :: ds) ordered 0 [] [] 0) as [c0 r0] eqn:E.
  inv_pair H. eauto using insert_many_go_W.
Qed.

(* ---------------------------------------------------------------- update *)
Lemma update_loop_W : forall todo c spec upd multi m md c' r,
  WF spec -> WF upd -> WS todo ->
  update_loop c spec upd multi todo m md = (c', r) -> W c -> W c'.
Proof.
  induction todo as [|[k d] todo IH]; simpl; intros c spec upd multi m md c' r Hs Hu Ht H Hi.
  - inv_pair H. assumption.
  - inversion Ht as [|? ? [Hk Hd] Htl]; subst. simpl in Hk, Hd.
    destruct (filter_applies spec d) as [[|]|e]; [|eauto|inv_pair H; assumption].
    destruct (apply_update spec upd false (now c) d) as [d'|e] eqn:Ea; [|inv_pair H; assumption].
    assert (Hd' : WF d') by (eapply apply_update_wf; [exact Hs|exact Hu|exact Hd|exact Ea]).
    destruct (negb (negb (py_eq d' d))).
    { destruct (negb (value_eqb d' d) && py_in k (odocs c)); [inv_pair H; assumption|].
      destruct multi; [eauto|inv_pair H; assumption]. }
    match type of H with (if negb ?s then _ else _) = _ => destruct (negb s) end;
      [inv_pair H; assumption|].
    destruct (match d with VDoc fs => assoc "_id" fs | _ => None end);
      [|inv_pair H; assumption].
    set (c1 := with_docs_w c (store_set k d' (docs c))) in H.
    assert (H1 : W c1) by (unfold W, c1; simpl; apply ws_store_set; assumption).
    destruct (ensure_uniques c1 d') as [touched|e] eqn:Eu.
    + destruct (expire_if touched c1) as [c2|e] eqn:E2; [|inv_pair H; assumption].
      assert (H2 : W c2) by eauto using expire_if_W.
      destruct multi; [eauto|inv_pair H; assumption].
    + destruct e; try (inv_pair H; assumption);
      (destruct (expire c1) as [c2|e] eqn:E2; inv_pair H; [|assumption];
       assert (H2 : W c2) by eauto using expire_W;
       unfold W; simpl; apply ws_store_set; assumption).
Qed.

Lemma wf_set_id id sfs : WF (VDoc sfs) -> WF id -> WF (VDoc (set_key "_id" id sfs)).
Proof. intros. apply wf_set_key; assumption. Qed.

Lemma update_W pre5 c f u multi upsert c' r :
  WF f -> WF u -> update pre5 c f u multi upsert = (c', r) -> W c -> W c'.
Proof.
  unfold update. intros Hf0 Hu0 H Hi.
  pose proof (wf_patch f Hf0) as Hf. pose proof (wf_patch u Hu0) as Hu.
  destruct (patch f) as [| | | | | | |sfs|]; try (inv_pair H; assumption).
  destruct (patch u) as [| | | | | | |ufs|]; try (inv_pair H; assumption).
  destruct (empty_operator pre5 (VDoc ufs)); [inv_pair H; assumption|].
  destruct (expire c) as [c1|e] eqn:E1; [|inv_pair H; assumption].
  assert (H1 : W c1) by eauto using expire_W.
  match type of H with (match ?x with Ok _ => _ | Err _ => _ end) = _ => destruct x end;
    [|inv_pair H; assumption].
  destruct (update_loop c1 (VDoc sfs) (VDoc ufs) multi (docs c1) 0 0) as [c2 r2] eqn:El.
  assert (H2 : W c2) by (eapply update_loop_W; [exact Hf|exact Hu|exact H1|exact El|exact H1]).
  destruct r2 as [[matched modified]|e]; [|inv_pair H; assumption].
  destruct (negb upsert || negb (matched =?? 0)); [inv_pair H; assumption|].
  match type of H with (let '(c3, id) := ?t in _) = _ => set (t3 := t) in H end.
  assert (H3 : W (fst t3) /\ WF (snd t3)).
  { subst t3.
    destruct (assoc "_id" sfs) as [i|] eqn:Ei.
    - pose proof (wf_doc_assoc _ _ _ Hf Ei) as Hwi.
      destruct (is_null i); [|simpl; split; assumption].
      destruct (assoc "_id" ufs) as [j|] eqn:Ej; [|simpl; split; [exact H2|reflexivity]].
      pose proof (wf_doc_assoc _ _ _ Hu Ej) as Hwj.
      destruct (is_null j); simpl; split; try assumption; reflexivity.
    - destruct (assoc "_id" ufs) as [j|] eqn:Ej; [|simpl; split; [exact H2|reflexivity]].
      pose proof (wf_doc_assoc _ _ _ Hu Ej) as Hwj.
      destruct (is_null j); simpl; split; try assumption; reflexivity. }
  destruct t3 as [c3 id]. simpl in H3. destruct H3 as [H3 Hid].
  destruct (expand_dots (set_key "_id" id sfs)) as [expanded|e] eqn:Ex; [|inv_pair H; assumption].
  assert (Hexp : WF (VDoc expanded)).
  { eapply expand_dots_wf; [|exact Ex]. apply wf_set_id; assumption. }
  match type of H with (match ?x with Ok _ => _ | Err _ => _ end) = _ =>
    destruct x as [d'|e] eqn:Ea end; [|inv_pair H; assumption].
  assert (Hd' : WF d').
  { eapply apply_update_wf; [exact Hf|exact Hu| |exact Ea]. apply discard_ops_wf. exact Hexp. }
  destruct (insert_doc c3 d') as [c4 ir] eqn:E4.
  assert (H4 : W c4) by eauto using insert_doc_W.
  destruct ir; inv_pair H; assumption.
Qed.

Lemma update_op_W pre5 c f u multi upsert c' r :
  WF f -> WF u -> update_op pre5 c f u multi upsert = (c', r) -> W c -> W c'.
Proof.
  unfold update_op. intros Hf Hu H Hi.
  destruct u; try (inv_pair H; assumption).
  destruct (first_key_dollar (VDoc fs)) as [[|]|]; try (inv_pair H; assumption).
  eauto using update_W.
Qed.

Lemma replace_op_W pre5 c f u upsert c' r :
  WF f -> WF u -> replace_op pre5 c f u upsert = (c', r) -> W c -> W c'.
Proof.
  unfold replace_op. intros Hf Hu H Hi.
  destruct u; try (inv_pair H; assumption).
  destruct (first_key_dollar (VDoc fs)) as [[|]|]; try (inv_pair H; assumption);
    eauto using update_W.
Qed.

(* ---------------------------------------------------------------- delete *)
Lemma delete_go_W : forall l c multi n c' r,
  delete_go c l multi n = (c', r) -> W c -> W c'.
Proof.
  induction l as [|d l IH]; simpl; intros c multi n c' r H Hi.
  - inv_pair H. assumption.
  - destruct d; try (inv_pair H; assumption).
    destruct (assoc "_id" fs) as [id|]; [|inv_pair H; assumption].
    destruct (store_get id (docs c)); [|inv_pair H; assumption].
    match type of H with context [if multi then delete_go ?c1 _ _ _ else _] =>
      assert (H1 : W c1) by (unfold W; simpl; apply ws_store_del; exact Hi) end.
    destruct multi; [eauto|inv_pair H; assumption].
Qed.

Lemma delete_op_W c f multi c' r : delete_op c f multi = (c', r) -> W c -> W c'.
Proof.
  unfold delete_op. intros H Hi.
  destruct f; try (inv_pair H; assumption).
  destruct (find_docs c (VDoc fs) []) as [[c1 l]|e] eqn:E; [|inv_pair H; assumption].
  destruct (delete_go c1 l multi 0) as [c2 r2] eqn:Ed.
  inv_pair H. eapply delete_go_W; [exact Ed|]. exact (proj1 (find_docs_W _ _ _ _ _ E Hi)).
Qed.

(* ---------------------------------------------------------------- find_one_and_* *)
Lemma find_and_modify_W pre5 c f proj sort k c' r :
  WF f -> fam_wf k -> find_and_modify pre5 c f proj sort k = (c', r) -> W c -> W c'.
Proof.
  unfold find_and_modify. intros Hf Hk H Hi.
  destruct f; try (inv_pair H; assumption).
  match type of H with (match ?v with Ok _ => _ | Err _ => _ end) = _ => destruct v end;
    [|inv_pair H; assumption].
  match type of H with (if ?b then _ else _) = _ => destruct b end; [inv_pair H; assumption|].
  destruct (find_one c (VDoc fs) None sort) as [c1 r1] eqn:E1.
  destruct (find_one_W _ _ _ _ _ _ E1 Hi) as [H1 Hr1]. specialize (Hr1 eq_refl).
  destruct r1 as [target|e]; [|inv_pair H; assumption].
  set (upsert := match k with FamDelete => false | FamUpdate _ u _ | FamReplace _ u _ => u end) in H.
  assert (Hgo : forall query, WF query ->
    (let '(c2, old_r) := match target with
                         | Some _ => find_one c1 query proj []
                         | None => (c1, Ok None)
                         end in
     match old_r with
     | Err e => (c2, Err e)
     | Ok old =>
         let '(c3, wr, query') :=
           match k with
           | FamDelete => let '(c', r) := delete_op c2 query false in (c', r, query)
           | FamUpdate u _ _ | FamReplace u _ _ =>
               let '(c', r) := update pre5 c2 query u false upsert in
               (c', r,
                match r with
                | Ok (VDoc rfs) => match assoc "upserted_id" rfs with
                                   | Some i => if truthy i then VDoc [("_id", i)] else query
                                   | None => query end
                | _ => query
                end)
           end in
         match wr with
         | Err e => (c3, Err e)
         | Ok _ =>
             if match k with FamDelete => false | FamUpdate _ _ a | FamReplace _ _ a => a end then
               match find_one c3 query' proj [] with
               | (c4, Ok r) => (c4, Ok (opt_to_value r))
               | (c4, Err e) => (c4, Err e)
               end
             else (c3, Ok (opt_to_value old))
         end
     end) = (c', r) -> W c').
  { intros query Hwq Hq.
    match type of Hq with (match ?t with _ => _ end) = _ => destruct t as [c2 old_r] eqn:E2 end.
    assert (H2 : W c2).
    { destruct target; [exact (proj1 (find_one_W _ _ _ _ _ _ E2 H1))|inv_pair E2; assumption]. }
    destruct old_r as [old|e]; [|inv_pair Hq; assumption].
    match type of Hq with (match ?t with _ => _ end) = _ =>
      destruct t as [[c3 wr] query'] eqn:E3 end.
    assert (H3 : W c3).
    { destruct k.
      - destruct (delete_op c2 query false) as [cx rx] eqn:Ex. inv_pair E3. eauto using delete_op_W.
      - destruct (update pre5 c2 query u false upsert) as [cx rx] eqn:Ex. inv_pair E3.
        simpl in Hk. eauto using update_W.
      - destruct (update pre5 c2 query r0 false upsert) as [cx rx] eqn:Ex. inv_pair E3.
        simpl in Hk. eauto using update_W. }
    destruct wr; [|inv_pair Hq; assumption].
    match type of Hq with (if ?b then _ else _) = _ => destruct b end; [|inv_pair Hq; assumption].
    destruct (find_one c3 query' proj []) as [c4 r4] eqn:E4.
    pose proof (proj1 (find_one_W _ _ _ _ _ _ E4 H3)) as H4.
    destruct r4; inv_pair Hq; assumption. }
  destruct target as [t|]; [|destruct upsert eqn:Eup].
  - simpl in Hr1.
    destruct t as [| | | | | | |tfs|]; try (eapply (Hgo (VDoc fs)); [exact Hf|exact H]).
    destruct (assoc "_id" tfs) as [i|] eqn:Ei; [|inv_pair H; assumption].
    eapply (Hgo (VDoc [("_id", i)])); [|exact H].
    apply wf_doc_iff. split; [simpl; constructor; [intros []|constructor]|].
    constructor; [|constructor]. simpl. eapply wf_doc_assoc; eassumption.
  - eapply (Hgo (VDoc fs)); [exact Hf|exact H].
  - inv_pair H. assumption.
Qed.

(* ---------------------------------------------------------------- bulk_write *)
Lemma bulk_exec_W pre5 c rq a c' r :
  req_wf rq -> bulk_exec pre5 c rq a = (c', r) -> W c -> W c'.
Proof.
  unfold bulk_exec. intros Hq H Hi. destruct rq; simpl in Hq.
  - destruct d; try (inv_pair H; assumption).
    destruct (insert_doc c (VDoc fs)) as [c0 o] eqn:E. inv_pair H. eauto using insert_doc_W.
  - destruct Hq as [Hf Hu].
    destruct (update pre5 c f u multi upsert) as [c0 o] eqn:E. inv_pair H. eauto using update_W.
  - destruct Hq as [Hf Hu].
    destruct (update pre5 c f r0 false upsert) as [c0 o] eqn:E. inv_pair H. eauto using update_W.
  - destruct (delete_op c f multi) as [c0 o] eqn:E. inv_pair H. eauto using delete_op_W.
Qed.

Lemma bulk_go_W pre5 : forall rs c ordered index a c' r,
  Forall req_wf rs -> bulk_go pre5 c rs ordered index a = (c', r) -> W c -> W c'.
Proof.
  induction rs as [|rq rs IH]; simpl; intros c ordered index a c' r Hrs H Hi.
  - inv_pair H. assumption.
  - inversion Hrs; subst.
    destruct (bulk_exec pre5 c rq a) as [c0 o] eqn:E.
    assert (H0 : W c0) by eauto using bulk_exec_W.
    destruct o as [a'|e]; [eauto|].
    destruct (is_write_error e); [|inv_pair H; assumption].
    destruct ordered; [inv_pair H; assumption|eauto].
Qed.

Lemma bulk_write_W pre5 c rs ordered c' r :
  Forall req_wf rs -> bulk_write pre5 c rs ordered = (c', r) -> W c -> W c'.
Proof.
  unfold bulk_write. intros Hrs H Hi.
  match type of H with (match ?x with Ok _ => _ | Err _ => _ end) = _ => destruct x end;
    [|inv_pair H; assumption].
  destruct rs as [|rq rs]; [inv_pair H; assumption|].
  destruct (bulk_go pre5 c (rq :: rs) ordered 0 (mkAcc 0 0 0 0 0 [] [])) as [c0 o] eqn:E.
  inv_pair H. eauto using bulk_go_W.
Qed.

(* ---------------------------------------------------------------- indexes *)
Lemma create_index_W c key u s t p n c' r :
  create_index c key u s t p n = (c', r) -> W c -> W c'.
Proof.
  unfold create_index. intros H Hi. cbv zeta in H.
  match type of H with (if ?b then _ else _) = _ => destruct b end; [inv_pair H; assumption|].
  match type of H with (if ?b then _ else _) = _ => destruct b end; [inv_pair H; assumption|].
  destruct u.
  - destruct (expire c) as [c1|e] eqn:E; [|inv_pair H; assumption].
    assert (H1 : W c1) by eauto using expire_W.
    match type of H with (if ?b then _ else _) = _ => destruct b end; inv_pair H; exact H1.
  - inv_pair H. exact Hi.
Qed.

Lemma drop_index_W c n c' r : drop_index c n = (c', r) -> W c -> W c'.
Proof.
  unfold drop_index. intros H Hi.
  destruct (expire c) as [c1|e] eqn:E; [|inv_pair H; assumption].
  assert (H1 : W c1) by eauto using expire_W.
  destruct (find_index_by_name n (idx c1)); inv_pair H; exact H1.
Qed.

(* ---------------------------------------------------------------- every step *)
Theorem step_W pre5 c o c' r : op_wf o -> step pre5 c o = (c', r) -> W c -> W c'.
Proof.
  destruct o; simpl; intros Hw H Hi.
  - eauto using insert_one_W.
  - eauto using insert_many_W.
  - destruct Hw. eauto using update_op_W.
  - destruct Hw. eauto using replace_op_W.
  - eauto using delete_op_W.
  - exact (proj1 (find_op_W _ _ _ _ _ _ _ _ H Hi)).
  - eauto using count_op_W.
  - eauto using distinct_op_W.
  - destruct Hw. eauto using find_and_modify_W.
  - eauto using bulk_write_W.
  - eauto using create_index_W.
  - eauto using drop_index_W.
  - unfold drop_indexes in H. inv_pair H. exact Hi.
  - unfold index_information in H. destruct (is_created c); inv_pair H; exact Hi.
  - unfold drop_coll in H. inv_pair H. constructor.
  - inv_pair H. exact Hi.
Qed.
