(* C04 proofs, part 2: field paths and bound names: get_gen (the library's get_value_by_dot with
   array generation) against spath, root_vars against var_lookup. *)
From Coq Require Import ZArith List String Bool Ascii Lia.
From Verif Require Import Value PyEq BsonOrder Path Update Filter FilterSpec Cursor Expr ExprSpec ExprGuard.
From Verif Require Import C01Values C04Base.
Import ListNotations.
Open Scope Z_scope.
Open Scope string_scope.
Open Scope list_scope.

(* specification result of a path against the library's optional value *)
Definition Rp (s : sres) (o : option value) : Prop :=
  match s with
  | SV x => o = Some x
  | SMiss => o = None
  | SErr => False
  | SUndef => True
  end.

Lemma Rp_R s o : Rp s o -> R s (opt_eres o).
Proof.
  destruct s as [v| | |]; simpl; intros H; subst; try done_R. destruct H.
Qed.

Lemma as_index_digits p : all_digits p = false -> as_index p = None.
Proof. intros H. destruct p; [reflexivity|]. unfold as_index. rewrite H. reflexivity. Qed.

(* inside an element: no generation of arrays *)
Lemma by_dot_spath parts : forall y,
  meets_arr parts y = false -> Rp (spath parts y) (get_by_dot parts y).
Proof.
  induction parts as [|p rest IH]; intros y Hm; [reflexivity|].
  simpl. destruct (p =? "") eqn:Ep; [exact I|].
  destruct y as [|b|z|e|s|us tz|n|fs|xs]; try reflexivity.
  - simpl in Hm. destruct (assoc p fs) as [x|]; [apply IH; exact Hm|reflexivity].
  - simpl in Hm. discriminate.
Qed.

Lemma flat_map_ext_in' {A B} (f g : A -> list B) xs :
  (forall x, In x xs -> f x = g x) -> flat_map f xs = flat_map g xs.
Proof.
  induction xs as [|x xs IH]; intros H; [reflexivity|].
  simpl. rewrite (H x (or_introl eq_refl)). f_equal. apply IH. intros y Hy. apply H. right. exact Hy.
Qed.

Lemma flat_map_map {A B C} (f : B -> list C) (g : A -> B) l :
  flat_map f (map g l) = flat_map (fun x => f (g x)) l.
Proof. induction l as [|x l IH]; simpl; [reflexivity|rewrite IH; reflexivity]. Qed.

Lemma gen_spath parts : forall v,
  nested_arr parts v = false -> Rp (spath parts v) (get_gen parts v).
Proof.
  induction parts as [|p rest IH]; intros v Hn; [reflexivity|].
  simpl. destruct (p =? "") eqn:Ep; [exact I|].
  destruct v as [|b|z|e|s|us tz|n|fs|xs]; try reflexivity.
  - simpl in Hn. destruct (assoc p fs) as [x|]; [apply IH; exact Hn|reflexivity].
  - destruct (all_digits p) eqn:Ed; [exact I|].
    simpl in Hn. rewrite (as_index_digits _ Ed) in *.
    match goal with |- Rp (if existsb is_sundef ?rs then _ else _) _ => destruct (existsb is_sundef rs) eqn:Eu end;
      [exact I|].
    simpl. f_equal. f_equal.
    rewrite flat_map_map.
    apply flat_map_ext_in'. intros x Hx.
    rewrite existsb_map in Eu.
    pose proof (existsb_false_In _ _ Eu x Hx) as Eux. simpl in Eux.
    pose proof (existsb_false_In _ _ Hn x Hx) as Enx. simpl in Enx.
    destruct x as [|b|z|e|s|us tz|n|fs|ys]; try reflexivity.
    + simpl. destruct (assoc p fs) as [y|]; [|reflexivity].
      pose proof (by_dot_spath rest y Enx) as Hy.
      destruct (spath rest y) as [w| | |]; simpl in Hy.
      * rewrite Hy. reflexivity.
      * rewrite Hy. reflexivity.
      * destruct Hy.
      * simpl in Eux. discriminate.
Qed.

(* ---------------------------------------------------------------- bound names *)
Lemma assoc_set_key {A} n k (v : A) l :
  assoc n (set_key k v l) = if n =? k then Some v else assoc n l.
Proof.
  induction l as [|[k' w] l IH]; simpl.
  - reflexivity.
  - destruct (String.eqb_spec k k') as [->|Hk]; simpl.
    + destruct (n =? k'); reflexivity.
    + destruct (String.eqb_spec n k') as [->|Hn].
      * destruct (String.eqb_spec k' k) as [E|_]; [congruence|reflexivity].
      * exact IH.
Qed.

Lemma root_vars_lookup n vars : forall base,
  assoc n (fold_left (fun acc (kv : string * value) => set_key (fst kv) (snd kv) acc) vars base) =
  match var_lookup n (lift vars) with
  | Some (SV v) => Some v
  | Some _ => None
  | None => assoc n base
  end.
Proof.
  induction vars as [|[k v] vars IH]; intros base; [reflexivity|].
  change (lift ((k, v) :: vars)) with ((k, SV v) :: lift vars).
  cbn [fold_left var_lookup fst snd]. rewrite IH.
  destruct (var_lookup n (lift vars)) as [r|]; [reflexivity|].
  rewrite assoc_set_key. rewrite (String.eqb_sym k n). destruct (n =? k); reflexivity.
Qed.

Lemma var_lookup_lift n vars r : var_lookup n (lift vars) = Some r -> exists v, r = SV v.
Proof.
  induction vars as [|[k v] vars IH]; [discriminate|].
  change (lift ((k, v) :: vars)) with ((k, SV v) :: lift vars). simpl.
  destruct (var_lookup n (lift vars)) as [r'|].
  - intros H. inversion H; subst. apply IH. reflexivity.
  - destruct (k =? n); [|discriminate]. intros H. inversion H. exists v. reflexivity.
Qed.

Lemma split_dots_aux_nonempty s : forall cur, split_dots_aux s cur <> [].
Proof.
  induction s as [|c s IH]; intros cur; simpl; [discriminate|].
  destruct (Ascii.eqb c "."); [discriminate|apply IH].
Qed.

Lemma split_dots_cons s : exists p rest, split_dots s = p :: rest.
Proof.
  unfold split_dots. pose proof (split_dots_aux_nonempty s "") as H.
  destruct (split_dots_aux s "") as [|p rest]; [contradiction|]. exists p, rest. reflexivity.
Qed.

(* "$$name.rest" *)
Lemma var_path vars doc parts :
  nested_arr parts (root_vars doc vars) = false ->
  parts <> [] ->
  Rp (svar (lift vars) doc parts) (get_gen parts (root_vars doc vars)).
Proof.
  intros Hn Hp. destruct parts as [|n rest]; [contradiction|].
  unfold root_vars in *. simpl in *.
  rewrite root_vars_lookup in *.
  destruct (var_lookup n (lift vars)) as [r|] eqn:El.
  - destruct (var_lookup_lift _ _ _ El) as [v ->]. apply gen_spath. exact Hn.
  - simpl in *. destruct (String.eqb_spec n "ROOT") as [->|H1]; simpl in *.
    + apply gen_spath. exact Hn.
    + destruct (String.eqb_spec n "CURRENT") as [->|H2]; simpl in *.
      * apply gen_spath. exact Hn.
      * destruct (n =? "REMOVE"); reflexivity.
Qed.

Lemma eval_str doc s : P doc (VStr s).
Proof.
  intros vars Hg. simpl in *.
  destruct (starts_dollar2 s) eqn:E2.
  - apply Rp_R. destruct (split_dots_cons (drop1 (drop1 s))) as [p [rest Hs]].
    rewrite Hs in *. apply var_path; [|discriminate].
    destruct (nested_arr (p :: rest) (root_vars doc vars)); [discriminate|reflexivity].
  - destruct (starts_dollar s) eqn:E1; [|done_R].
    destruct (drop1 s =? ""); [done_R|].
    apply Rp_R. apply gen_spath.
    destruct (nested_arr (split_dots (drop1 s)) doc); [discriminate|reflexivity].
Qed.
