(* C08: the hypotheses of the theorems in Properties/C08.v are satisfiable on non-trivial
   histories. *)
From Coq Require Import ZArith List String Bool Ascii.
From Verif Require Import Value PyEq BsonOrder Path Filter Update Project Coll HistCheck HistProps
  HistGuards.
From Verif.Proofs Require Import C08Store C08Fail C08Proofs C08Many.
Import ListNotations.
Open Scope Z_scope.
Open Scope string_scope.
Open Scope list_scope.

(* fourteen failing single-document writes inside the guard: a rejected operator without unique
   index; duplicate _id; duplicate unique key on insert_one, update_one, replace_one,
   find_one_and_update and on the insert of an upsert (all rolled back); a replace_one and a
   find_one_and_replace whose unique check raises OperationFailure (the new image holds an
   operator document: rolled back as well, since the repair of the library); then, with a TTL index
   and nothing expired (before the expiry date, and again after the purge), a duplicate _id,
   a find_one_and_delete with a bad filter, and (unique index dropped) a rejected operator
   and an update changing _id *)
Definition ops_inside : list op :=
  [ OInsertOne (VDoc [("_id", VInt 1); ("u", VInt 1); ("t", VDate 0 None)]);
    OInsertOne (VDoc [("_id", VInt 2); ("u", VInt 2)]);
    OUpdate (VDoc [("_id", VInt 1)]) (VDoc [("$bad", VDoc [("x", VInt 1)])]) false false;
    OCreateIndex [("u", VInt 1)] true false None None None;
    OInsertOne (VDoc [("_id", VInt 1); ("u", VInt 9)]);
    OInsertOne (VDoc [("_id", VInt 3); ("u", VInt 2)]);
    OUpdate (VDoc [("_id", VInt 1)]) (VDoc [("$set", VDoc [("u", VInt 2)])]) false false;
    OReplace (VDoc [("_id", VInt 2)]) (VDoc [("u", VInt 1)]) false;
    OFindAndModify (VDoc [("_id", VInt 2)]) None []
      (FamUpdate (VDoc [("$set", VDoc [("u", VInt 1)])]) false false);
    OUpdate (VDoc [("u", VInt 7)]) (VDoc [("$set", VDoc [("u", VInt 2)])]) false true;
    OFindAndModify (VDoc [("_id", VInt 2)]) None []
      (FamUpdate (VDoc [("$set", VDoc [("w", VInt 1)])]) false true);
    OReplace (VDoc [("_id", VInt 1)]) (VDoc [("u", VDoc [("$foo", VInt 1)])]) false;
    OFindAndModify (VDoc [("_id", VInt 2)]) None []
      (FamReplace (VDoc [("u", VDoc [("$foo", VInt 1)])]) false false);
    OCreateIndex [("t", VInt 1)] false false (Some (VInt 10)) None None;
    OInsertOne (VDoc [("_id", VInt 2)]);
    OFindAndModify (VInt 1) None [] FamDelete;
    OSetClock 100000000;
    OFind (VDoc []) None [] 0 0;
    OInsertOne (VDoc [("_id", VInt 2)]);
    ODropIndex "u_1";
    OUpdate (VDoc [("_id", VInt 2)]) (VDoc [("$bad", VDoc [("x", VInt 1)])]) false false;
    OUpdate (VDoc [("_id", VInt 2)]) (VDoc [("$set", VDoc [("_id", VInt 5)])]) false false ].

Example C08_history_satisfiable :
  let os := model_obs false empty_coll ops_inside in
  c08_reasons ops_inside os = 0 /\
  List.length (List.filter (fun ob => match ob with (Err _, _, _) => true | _ => false end) os)
    = 14%nat /\
  c08_ok ops_inside os = true.
Proof. vm_compute. repeat split; reflexivity. Qed.

(* with projections: a find_one_and_update whose projection is rejected (before the write),
   and a successful one *)
Definition ops_proj : list op :=
  [ OInsertOne (VDoc [("_id", VInt 1); ("a", VInt 1); ("b", VInt 2)]);
    OFindAndModify (VDoc [("_id", VInt 1)]) (Some (VDoc [("a", VInt 1); ("b", VInt 0)])) []
      (FamUpdate (VDoc [("$set", VDoc [("a", VInt 2)])]) false false);
    OFindAndModify (VDoc [("_id", VInt 1)]) (Some (VDoc [("a", VInt 1)])) []
      (FamUpdate (VDoc [("$set", VDoc [("a", VInt 3)])]) false true) ].

Example C08_history_any_projection_satisfiable :
  let os := model_obs false empty_coll ops_proj in
  c08_reasons ops_proj os = 1 /\
  map (fun ob => match ob with (r, _, _) => is_ok r end) os = [true; false; true] /\
  c08_ok ops_proj os = true.
Proof. vm_compute. repeat split; reflexivity. Qed.

(* insert_many(ordered): two accepted, the third rejected (unique key), the fourth not tried *)
Definition many_state : coll :=
  fst (step false (fst (step false empty_coll (OInsertOne (VDoc [("_id", VInt 1); ("u", VInt 1)]))))
            (OCreateIndex [("u", VInt 1)] true false None None None)).
Definition many_docs : list value :=
  [ VDoc [("_id", VInt 5); ("u", VInt 5)]; VDoc [("u", VInt 6)];
    VDoc [("_id", VInt 7); ("u", VInt 5)]; VDoc [("_id", VInt 8); ("u", VInt 8)] ].

Example C08_insert_many_satisfiable :
  forallb (fun i => match ittl i with None => true | Some _ => false end) (idx many_state) = true /\
  forallb is_doc many_docs = true /\
  forallb (fun kd => py_eq (fst kd) (fst kd))
          (docs (fst (insert_many many_state many_docs true))) = true /\
  accepted_prefix many_state many_docs =
    [ (VInt 5, VDoc [("_id", VInt 5); ("u", VInt 5)]);
      (VOid 1000, VDoc [("u", VInt 6); ("_id", VOid 1000)]) ] /\
  docs (fst (insert_many many_state many_docs true)) =
    [ (VInt 1, VDoc [("_id", VInt 1); ("u", VInt 1)]);
      (VInt 5, VDoc [("_id", VInt 5); ("u", VInt 5)]);
      (VOid 1000, VDoc [("u", VInt 6); ("_id", VOid 1000)]) ].
Proof. vm_compute. repeat split; reflexivity. Qed.

(* A rolled-back write marks the collection as existing (with_docs_w sets [forced], the rollback
   keeps it).  Since create_index itself marks the collection as created (with_idx_w, the repaired
   CollectionStore.create_index), that mark is no longer observable: a unique check can only fail
   when an index exists, i.e. after a create_index, and then the collection is created already.
   (Before that repair this history showed a trace of the failed write: after drop_indexes the
   never-written collection listed _id_ with the failed insert_one and nothing without it.)
   Now the history with the failed insert_one and the one without it end in the same state and
   both list _id_ after drop_indexes. *)
Definition ops_mark : list op :=
  [ OCreateIndex [("u", VInt 1)] true false None (Some (VDoc [("$bad", VInt 1)])) None;
    OInsertOne (VDoc [("_id", VInt 1); ("u", VInt 1)]);      (* the unique check raises *)
    ODropIndexes ].
Definition ops_nomark : list op :=
  [ OCreateIndex [("u", VInt 1)] true false None (Some (VDoc [("$bad", VInt 1)])) None;
    ODropIndexes ].

Example C08_rolled_back_write_leaves_no_trace :
  let os := model_obs false empty_coll ops_mark in
  c08_reasons ops_mark os = 0 /\ modelled false empty_coll ops_mark = true /\
  c08_ok ops_mark os = true /\
  map (fun ob : obs => is_ok (fst (fst ob))) os = [true; false; true] /\
  map (fun ob : obs => snd (fst ob)) os = [[]; []; []] /\
  forced (final false empty_coll (firstn 1 ops_mark)) = true /\
  forced (final false empty_coll (firstn 2 ops_mark)) = true /\
  snd (last os (Ok VNull, [], VNull)) =
    VDoc [("_id_", VDoc [("key", VArr [VArr [VStr "_id"; VInt 1]]); ("v", VInt 2)])] /\
  snd (last (model_obs false empty_coll ops_nomark) (Ok VNull, [], VNull)) =
    VDoc [("_id_", VDoc [("key", VArr [VArr [VStr "_id"; VInt 1]]); ("v", VInt 2)])] /\
  final false empty_coll ops_mark = final false empty_coll ops_nomark.
Proof. vm_compute. repeat split; reflexivity. Qed.
