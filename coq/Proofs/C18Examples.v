(* C18: the hypotheses of the theorems in Properties/C18.v are satisfiable on non-trivial
   values and histories, and the conclusions are not vacuous. *)
From Coq Require Import ZArith List String Bool Ascii.
From Verif Require Import Value PyEq BsonOrder Path Filter Update Project Coll HistCheck HistProps
  DatetimeSpec DatetimeRel.
Import ListNotations.
Open Scope Z_scope.
Open Scope string_scope.
Open Scope list_scope.

(* ---- values *)
(* 2020-01-01T12:00:00.123456+05:30 and 2020-01-01T06:30:00.123999 (naive, UTC) and
   2020-01-01T07:00:00.123001+00:30 denote the same millisecond *)
Definition d_ist := VDate 1577880000123456 (Some 330).
Definition d_utc := VDate 1577860200123999 None.
Definition d_half := VDate 1577862000123001 (Some 30).

Example ex_same_ms : same_ms d_ist d_utc = true /\ same_ms d_utc d_half = true.
Proof. vm_compute. split; reflexivity. Qed.

Example ex_not_same_ms : same_ms d_ist (VDate 1577860200124000 None) = false.
Proof. vm_compute. reflexivity. Qed.

Example ex_patch_same : patch d_ist = VDate 1577860200123000 None /\
                        patch d_utc = VDate 1577860200123000 None /\
                        patch d_half = VDate 1577860200123000 None.
Proof. vm_compute. repeat split; reflexivity. Qed.

(* negative instants round towards minus infinity, like the library's floor division *)
Example ex_patch_negative : patch (VDate (-1) None) = VDate (-1000) None.
Proof. vm_compute. reflexivity. Qed.

Definition f_ist := VDoc [("t", d_ist); ("$or", VArr [VDoc [("a.u", VDoc [("$lt", d_half)])]; VDoc [("n", VInt 1)]])].
Definition f_utc := VDoc [("t", d_utc); ("$or", VArr [VDoc [("a.u", VDoc [("$lt", d_ist)])]; VDoc [("n", VInt 1)]])].

Example ex_same_ms_value : same_ms_value f_ist f_utc = true /\ value_eqb f_ist f_utc = false.
Proof. vm_compute. split; reflexivity. Qed.

Definition stored := VDoc [("_id", VInt 1); ("t", VDate 1577860200123000 None);
                           ("a", VArr [VDoc [("u", VDate 0 None)]; VDate (-5000) None])].
Example ex_normal : dates_normal stored = true /\ dates_normal (VArr [stored; d_utc]) = false.
Proof. vm_compute. split; reflexivity. Qed.

Example ex_make_aware :
  make_aware stored = VDoc [("_id", VInt 1); ("t", VDate 1577860200123000 (Some 0));
                            ("a", VArr [VDoc [("u", VDate 0 (Some 0))]; VDate (-5000) (Some 0)])].
Proof. vm_compute. reflexivity. Qed.

(* ---- a history exercising every write path with datetimes that are aware, carry
   microseconds, or both: insert_one, insert_many (a datetime _id), $set (dotted, into an array
   element), $currentDate, $push $each $position, $addToSet, $max, replacement upsert=True on
   an existing document, an upsert whose seed is built from the filter (dotted key) with
   $setOnInsert and $min, find_one_and_update AFTER, bulk_write (insert, $rename, replace,
   delete), and reads (find sorted, find with projection and $slice, distinct, count) *)
Definition ops_dates : list op :=
  [ OSetClock 1600000000123456;
    OInsertOne (VDoc [("_id", VInt 1);
                      ("t", VDate 1577880000123456 (Some 330));
                      ("a", VArr [VDoc [("u", VDate 999 None)]])]);
    OInsertMany [VDoc [("_id", VDate 86400000001 (Some 60)); ("t", VDate 1999 None)];
                 VDoc [("_id", VInt 3); ("t", VDate 1577860200123999 None)]] true;
    OUpdate (VDoc [("_id", VInt 1)])
            (VDoc [("$set", VDoc [("s", VDate 5555 (Some (-60))); ("a.0.w", VDate 7777777 (Some 0))]);
                   ("$currentDate", VDoc [("now", VBool true)]);
                   ("$push", VDoc [("a", VDoc [("$each", VArr [VDate 1234567 None]); ("$position", VInt 0)])]);
                   ("$addToSet", VDoc [("b", VDate 1234567 (Some 120))]);
                   ("$max", VDoc [("m", VDate 31999 None)])]) false false;
    OFind (VDoc [("t", VDate 1577860200123999 None)]) None [("_id", 1)] 0 0;
    OFind (VDoc [("t", VDate 1577862000123001 (Some 30))]) (Some (VDoc [("t", VInt 1); ("a", VDoc [("$slice", VInt 1)])])) [] 0 0;
    OReplace (VDoc [("t", VDate 1000 None)]) (VDoc [("r", VArr [VDate 60000001999 (Some 1)])]) true;
    OUpdate (VDoc [("k", VDate 3600000000 (Some 60)); ("z.q", VDate 1001 None)])
            (VDoc [("$setOnInsert", VDoc [("v", VDate 2002 None)]); ("$min", VDoc [("lo", VDate 3003 (Some 0))])]) false true;
    OFindAndModify (VDoc [("_id", VInt 3)]) None []
      (FamUpdate (VDoc [("$set", VDoc [("t", VDate 10 (Some (-1)))])]) false true);
    ODistinct "t" (VDoc []);
    OBulk [BInsert (VDoc [("_id", VInt 9); ("t", VDate 123456789 (Some 0))]);
           BUpdate (VDoc [("_id", VInt 9)]) (VDoc [("$rename", VDoc [("t", VStr "tt")])]) false false;
           BReplace (VDoc [("_id", VInt 3)]) (VDoc [("t", VDate 4004 None)]) false;
           BDelete (VDoc [("t", VDate 1000 (Some 0))]) true] true;
    OCount (VDoc [("tt", VDate 123456999 None)]) 0 None ].

Example ex_modelled : modelled false empty_coll ops_dates = true.
Proof. vm_compute. reflexivity. Qed.

(* checked by computation, independently of the theorem *)
Example ex_history_ok :
  c18_ok false ops_dates (model_obs false empty_coll ops_dates) = true /\
  c18_ok true ops_dates (model_obs_aware false empty_coll ops_dates) = true.
Proof. vm_compute. split; reflexivity. Qed.

(* the two finds (naive filter with other microseconds; aware filter with another offset)
   both return the documents 1 and 3, whose "t" was written with a +05:30 offset resp. as a
   naive value with microseconds *)
Example ex_finds :
  match nth 4 (run false empty_coll ops_dates) (Err ECrash, []),
        nth 5 (run false empty_coll ops_dates) (Err ECrash, []) with
  | (Ok (VArr [VDoc (("_id", VInt 1) :: ("t", t1) :: _); VDoc [("_id", VInt 3); ("t", t3)]]), _),
    (Ok (VArr [VDoc [("t", t1'); ("_id", VInt 1); ("a", VArr [_])];
               VDoc [("t", t3'); ("_id", VInt 3)]]), _) =>
      t1 = VDate 1577860200123000 None /\ t3 = t1 /\ t1' = t1 /\ t3' = t1
  | _, _ => False
  end.
Proof. vm_compute. repeat split; reflexivity. Qed.

(* the final store: every datetime is naive with whole milliseconds *)
Example ex_final_store :
  map snd (docs (final false empty_coll ops_dates)) =
  [ VDoc [("_id", VInt 1); ("t", VDate 1577860200123000 None);
          ("a", VArr [VDate 1234000 None; VDoc [("u", VDate 0 None); ("w", VDate 7777000 None)]]);
          ("s", VDate 3600005000 None); ("now", VDate 1600000000123000 None);
          ("b", VArr [VDate (-7198766000) None]); ("m", VDate 31000 None)];
    VDoc [("_id", VDate 82800000000 None); ("r", VArr [VDate 59940001000 None])];
    VDoc [("_id", VInt 3); ("t", VDate 4000 None)];
    VDoc [("k", VDate 0 None); ("z", VDoc [("q", VDate 1000 None)]); ("_id", VOid 1000);
          ("v", VDate 2000 None); ("lo", VDate 3000 None)];
    VDoc [("_id", VInt 9); ("tt", VDate 123456000 None)] ].
Proof. vm_compute. reflexivity. Qed.
