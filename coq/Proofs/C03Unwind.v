(* C03 part A -- $unwind emits one document per array element *)
From Coq Require Import ZArith List String Bool Ascii Lia Permutation.
From Verif Require Import Value PyEq BsonOrder Path Update Filter Coll Expr Pipeline PipelineSpec.
From Verif Require Import C03Base C03Laws.
Import ListNotations.
Open Scope Z_scope.
Open Scope string_scope.
Open Scope list_scope.

Lemma split_dots_aux_ne s : forall cur, split_dots_aux s cur <> [].
Proof.
  induction s as [|c s IH]; intros cur; simpl; [discriminate|].
  destruct (Ascii.eqb c "."); [discriminate|apply IH].
Qed.
Lemma split_dots_ne s : split_dots s <> [].
Proof. apply split_dots_aux_ne. Qed.

(* ---------- the dotted helpers on a path through sub-documents *)
Lemma plain_get_get parts : forall d r, plain_get parts d = Some r -> get_by_dot parts d = r.
Proof.
  induction parts as [|p rest IH]; intros d r H; simpl in *.
  - inversion H; reflexivity.
  - destruct d; try (inversion H; reflexivity).
    destruct (assoc p fs) as [v|]; [apply IH; exact H|inversion H; reflexivity].
Qed.

Lemma split_last_single p : split_last [p] = Some ([], p).
Proof. reflexivity. Qed.

Lemma split_last_cons p q rest :
  split_last (p :: q :: rest) =
  match split_last (q :: rest) with Some (par, c) => Some (p :: par, c) | None => None end.
Proof.
  unfold split_last. change (rev (p :: q :: rest)) with (rev (q :: rest) ++ [p]).
  destruct (rev (q :: rest)) as [|x r] eqn:Hr.
  - exfalso. apply (f_equal (@List.length string)) in Hr. rewrite rev_length in Hr. discriminate.
  - simpl. rewrite rev_app_distr. reflexivity.
Qed.

Lemma split_last_some q rest : exists par c, split_last (q :: rest) = Some (par, c).
Proof.
  unfold split_last. destruct (rev (q :: rest)) as [|x r] eqn:Hr.
  - exfalso. apply (f_equal (@List.length string)) in Hr. rewrite rev_length in Hr. discriminate.
  - eexists _, _. reflexivity.
Qed.

Lemma set_by_dot_single p v fs : set_by_dot [p] v (VDoc fs) = Some (VDoc (set_key p v fs)).
Proof. reflexivity. Qed.

Lemma set_by_dot_cons p q rest v fs :
  set_by_dot (p :: q :: rest) v (VDoc fs) =
  match assoc p fs with
  | Some sub => match set_by_dot (q :: rest) v sub with
                | Some s' => Some (VDoc (set_key p s' fs))
                | None => None
                end
  | None => None
  end.
Proof.
  unfold set_by_dot. rewrite split_last_cons.
  destruct (split_last_some q rest) as (par & c & Hs). rewrite Hs.
  cbn [update_at]. reflexivity.
Qed.

(* the parent of the last component is an existing sub-document *)
Definition parent_doc (parts : list string) (d : value) : Prop :=
  exists fs, plain_get (removelast parts) d = Some (Some (VDoc fs)).

Lemma set_by_dot_plain parts : forall v d,
  parts <> [] -> parent_doc parts d -> set_by_dot parts v d = Some (plain_set parts (Some v) d).
Proof.
  induction parts as [|p rest IH]; intros v d Hne [pfs Hp]; [contradiction|].
  destruct rest as [|q rest].
  - simpl in Hp. inversion Hp; subst. reflexivity.
  - change (removelast (p :: q :: rest)) with (p :: removelast (q :: rest)) in Hp.
    cbn [plain_get] in Hp. destruct d; try discriminate.
    rewrite set_by_dot_cons. cbn [plain_set].
    destruct (assoc p fs) as [sub|]; [|discriminate].
    rewrite IH; [reflexivity|discriminate|exists pfs; exact Hp].
Qed.

Lemma plain_get_parent parts : forall d old,
  parts <> [] -> plain_get parts d = Some (Some old) -> parent_doc parts d.
Proof.
  induction parts as [|p rest IH]; intros d old Hne H; [contradiction|].
  destruct rest as [|q rest].
  - simpl in *. destruct d; try discriminate. exists fs. reflexivity.
  - cbn [plain_get] in H. destruct d; try discriminate.
    destruct (assoc p fs) as [sub|] eqn:Ha; [|discriminate].
    destruct (IH sub old) as [pfs Hp]; [discriminate|exact H|].
    exists pfs. change (removelast (p :: q :: rest)) with (p :: removelast (q :: rest)).
    cbn [plain_get]. rewrite Ha. exact Hp.
Qed.

Lemma get_plain_set parts : forall x d,
  parts <> [] -> parent_doc parts d -> get_by_dot parts (plain_set parts (Some x) d) = Some x.
Proof.
  induction parts as [|p rest IH]; intros x d Hne [pfs Hp]; [contradiction|].
  destruct rest as [|q rest].
  - simpl in Hp. inversion Hp; subst. cbn [plain_set get_by_dot]. rewrite assoc_set_key_same. reflexivity.
  - change (removelast (p :: q :: rest)) with (p :: removelast (q :: rest)) in Hp.
    cbn [plain_get] in Hp. destruct d; try discriminate.
    cbn [plain_set]. destruct (assoc p fs) as [sub|] eqn:Ha; [|discriminate].
    cbn [get_by_dot]. rewrite assoc_set_key_same. apply IH; [discriminate|exists pfs; exact Hp].
Qed.

(* every other top-level field is left as it was *)
Lemma plain_set_other p rest v d q qs :
  q <> p -> get_by_dot (q :: qs) (plain_set (p :: rest) v d) = get_by_dot (q :: qs) d.
Proof.
  intros Hq. destruct d; try (destruct rest; reflexivity).
  assert (Hs : forall x, get_by_dot (q :: qs) (VDoc (set_key p x fs)) = get_by_dot (q :: qs) (VDoc fs)).
  { intros x. cbn [get_by_dot]. rewrite assoc_set_key_other; [reflexivity|]. intros Hc; subst; contradiction. }
  destruct rest as [|r rest]; cbn [plain_set].
  - destruct v as [x|]; [apply Hs|].
    cbn [get_by_dot].
    assert (Hd : assoc q (del_key p fs) = assoc q fs).
    { clear -Hq. induction fs as [|[k x] fs IH]; [reflexivity|]. simpl.
      destruct (String.eqb p k) eqn:E.
      - apply String.eqb_eq in E. subst k.
        destruct (String.eqb q p) eqn:E2; [apply String.eqb_eq in E2; contradiction|reflexivity].
      - simpl. destruct (String.eqb q k); [reflexivity|exact IH]. }
    rewrite Hd. reflexivity.
  - destruct (assoc p fs); [apply Hs|reflexivity].
Qed.

(* ---------- the stage on one document *)
Lemma map_snd_combine {A B C} (g : B -> C) (a : list A) (b : list B) :
  List.length a = List.length b -> map (fun ab => g (snd ab)) (combine a b) = map g b.
Proof.
  revert b. induction a as [|x a IH]; intros b H; destruct b as [|y b]; try discriminate; simpl; [reflexivity|].
  f_equal. apply IH. simpl in H. lia.
Qed.

Lemma unwind_doc_array parts d xs :
  parts <> [] -> plain_get parts d = Some (Some (VArr xs)) ->
  unwind_doc parts false None d = Ok (map (fun x => plain_set parts (Some x) d) xs).
Proof.
  intros Hne Hg. unfold unwind_doc. rewrite (plain_get_get _ _ _ Hg).
  destruct xs as [|x xs]; [reflexivity|].
  assert (Hp : parent_doc parts d) by (eapply plain_get_parent; eassumption).
  erewrite mapM_ext.
  - rewrite (mapM_pure (fun iv => plain_set parts (Some (snd iv)) d)).
    f_equal. apply (map_snd_combine (fun x => plain_set parts (Some x) d)).
    rewrite map_length, seq_length. reflexivity.
  - intros iv _. cbv beta. rewrite set_by_dot_plain by assumption. reflexivity.
Qed.

Lemma unwind_doc_none parts ip d :
  get_by_dot parts d = None \/ get_by_dot parts d = Some VNull \/ get_by_dot parts d = Some (VArr []) ->
  unwind_doc parts false ip d = Ok [].
Proof. unfold unwind_doc. intros [H|[H|H]]; rewrite H; reflexivity. Qed.

(* one document per array element: the i-th output is the input with the path set to the
   i-th element, every other top-level field unchanged *)
Lemma unwind_counts_doc parts d xs :
  parts <> [] -> plain_get parts d = Some (Some (VArr xs)) ->
  exists r, unwind_doc parts false None d = Ok r /\
    List.length r = List.length xs /\
    forall i x, nth_error xs i = Some x ->
      exists d', nth_error r i = Some d' /\
        set_by_dot parts x d = Some d' /\
        get_by_dot parts d' = Some x /\
        forall q qs, Some q <> hd_error parts -> get_by_dot (q :: qs) d' = get_by_dot (q :: qs) d.
Proof.
  intros Hne Hg. exists (map (fun x => plain_set parts (Some x) d) xs).
  split; [apply unwind_doc_array; assumption|]. split; [apply map_length|].
  intros i x Hi. exists (plain_set parts (Some x) d).
  assert (Hp : parent_doc parts d) by (eapply plain_get_parent; eassumption).
  split; [apply (map_nth_error (fun y => plain_set parts (Some y) d)); exact Hi|]. split; [apply set_by_dot_plain; assumption|].
  split; [apply get_plain_set; assumption|].
  intros q qs Hq. destruct parts as [|p rest]; [contradiction|].
  apply plain_set_other. intros Hc. subst. apply Hq. reflexivity.
Qed.

(* ---------- the stage *)
Lemma unwind_simple path l :
  path_modelled (split_dots path) = true ->
  unwind (VStr (String "$" path)) l =
  let! ps := mapM (unwind_doc (split_dots path) false None) l in Ok (List.concat ps).
Proof. intros H. unfold unwind. cbn [assoc String.eqb Ascii.eqb Bool.eqb]. simpl. rewrite H. reflexivity. Qed.

Lemma run_stage_unwind db o l : run_stage db "$unwind" o l = unwind o l.
Proof. destruct o; reflexivity. Qed.

Definition unwind_out (parts : list string) (d : value) : list value :=
  match get_by_dot parts d with
  | Some (VArr xs) => map (fun x => plain_set parts (Some x) d) xs
  | _ => []
  end.

Definition unwind_plain (parts : list string) (d : value) : Prop :=
  (exists xs, plain_get parts d = Some (Some (VArr xs))) \/
  get_by_dot parts d = None \/ get_by_dot parts d = Some VNull.

Lemma unwind_counts db path l :
  path_modelled (split_dots path) = true ->
  Forall (unwind_plain (split_dots path)) l ->
  run_stage db "$unwind" (VStr (String "$" path)) l = Ok (flat_map (unwind_out (split_dots path)) l) /\
  List.length (flat_map (unwind_out (split_dots path)) l)
  = fold_right (fun d n => (match get_by_dot (split_dots path) d with
                            | Some (VArr xs) => List.length xs | _ => O end + n)%nat) O l.
Proof.
  intros Hpm HF. rewrite run_stage_unwind, (unwind_simple _ _ Hpm).
  assert (Hne := split_dots_ne path). set (parts := split_dots path) in *.
  assert (Hm : mapM (unwind_doc parts false None) l = Ok (map (unwind_out parts) l)).
  { induction HF as [|d l Hd _ IH]; [reflexivity|]. cbn [mapM map]. rewrite IH.
    assert (Hdoc : unwind_doc parts false None d = Ok (unwind_out parts d)).
    { unfold unwind_out. destruct Hd as [[xs Hx]|Hd].
      - rewrite (unwind_doc_array _ _ _ Hne Hx). rewrite (plain_get_get _ _ _ Hx). reflexivity.
      - rewrite unwind_doc_none by (destruct Hd as [Hd|Hd]; [left|right; left]; exact Hd).
        destruct Hd as [Hd|Hd]; rewrite Hd; reflexivity. }
    rewrite Hdoc. reflexivity. }
  rewrite Hm. cbn [bind]. rewrite <- flat_map_concat_map. split; [reflexivity|].
  clear. induction l as [|d l IH]; [reflexivity|]. cbn [flat_map fold_right]. rewrite app_length, IH.
  f_equal. unfold unwind_out. destruct (get_by_dot parts d) as [[]|]; try reflexivity. apply map_length.
Qed.
