(* C04 examples: a non-trivial expression inside the guard on which model and specification
   agree, and - for every bit of c04_reasons that was known before the proof (1..128) - an
   expression showing the divergence the bit excludes.  The bits found by the proof (256..8192)
   are in Refuted/C04.v. *)
From Coq Require Import ZArith List String Bool Ascii.
From Verif Require Import Value PyEq BsonOrder Path Update Expr ExprSpec ExprGuard.
Import ListNotations.
Open Scope Z_scope.
Open Scope string_scope.
Open Scope list_scope.

Definition ex_doc : value :=
  VDoc [("_id", VInt 1); ("a", VInt 1); ("n", VNull);
        ("items", VArr [VDoc [("p", VInt 2); ("q", VInt 3)]; VDoc [("p", VInt 5)]]);
        ("arr", VArr [VInt 1; VInt 2]); ("e", VArr []);
        ("dd", VArr [VDoc [("x", VArr [VDoc [("y", VInt 1)]; VDoc [("y", VInt 2)]])]; VDoc [("x", VArr [VInt 1])]])].

Definition op (k : string) (a : value) : value := VDoc [(k, a)].

(* {$let: {vars: {k: {$add: ["$a", 0]}, total: {$sum: "$items.p"}},
           in: {$concatArrays: [ {$map: {input: "$items", as: "it",
                                        in: {$cond: [{$gt: ["$$it.p", "$$k"]},
                                                     {$multiply: ["$$it.p", {$ifNull: ["$$it.q", "$n"]}]},
                                                     "$$it.p"]}}},
                                 ["$$total", "$zz"] ]}}}
   depth 6: $let, $map, $cond, a path over an array of sub-documents ($items.p), a product with
   a null (5 * ifNull(missing, null) = null), a missing field read as null in an array literal *)
Definition ex_big : value :=
  op "$let" (VDoc [("vars", VDoc [("k", op "$add" (VArr [VStr "$a"; VInt 0])); ("total", op "$sum" (VStr "$items.p"))]);
                   ("in", op "$concatArrays" (VArr [
                       op "$map" (VDoc [("input", VStr "$items"); ("as", VStr "it");
                                        ("in", op "$cond" (VArr [op "$gt" (VArr [VStr "$$it.p"; VStr "$$k"]);
                                                                 op "$multiply" (VArr [VStr "$$it.p"; op "$ifNull" (VArr [VStr "$$it.q"; VStr "$n"])]);
                                                                 VStr "$$it.p"]))]);
                       VArr [VStr "$$total"; VStr "$zz"]]))]).

Example C04_example_agree :
  c04_reasons ex_big ex_doc = 0 /\
  eval [] ex_doc true ex_big = EV (VArr [VInt 6; VNull; VInt 7; VNull]) /\
  seval [] ex_doc ex_big = SV (VArr [VInt 6; VNull; VInt 7; VNull]) /\
  obs_add_field "x" ex_big ex_doc <> Err EUnmodelled /\
  obs_expr ex_big ex_doc = Ok true /\ spec_expr ex_big ex_doc = OVal true.
Proof. vm_compute. repeat split; try reflexivity. discriminate. Qed.

(* one divergence per known finding bit: (guard, model, specification) *)
Definition diverge (e : value) := (c04_reasons e ex_doc, eval [] ex_doc true e, seval [] ex_doc e).

(* 1 = F-EXPR-PYEQ: true == 1 in Python *)
Example C04_bit1 : diverge (op "$eq" (VArr [VBool true; VInt 1])) = (1, EV (VBool true), SV (VBool false)).
Proof. vm_compute. reflexivity. Qed.
(* 2 = F-NULL-OPERAND: $arrayElemAt of a missing array is missing, MongoDB answers null *)
Example C04_bit2 : diverge (op "$arrayElemAt" (VArr [VStr "$zz"; VInt 0])) = (2, EMiss, SV VNull).
Proof. vm_compute. reflexivity. Qed.
(* 4 = F-SCALAR-FOLD: {$sum: "$a"} with a scalar field (the library raises TypeError: a number is not iterable) *)
Example C04_bit4 : diverge (op "$sum" (VStr "$a")) = (4, EE EType, SV (VInt 1)).
Proof. vm_compute. reflexivity. Qed.
(* 8 = F-UNARY-LIST: {$abs: [-1]} reads [-1] as an array literal *)
Example C04_bit8 : diverge (op "$abs" (VArr [VInt (-1)])) = (8, EE EOpFail, SV (VInt 1)).
Proof. vm_compute. reflexivity. Qed.
(* 16 = F-BINDER-MISSING: a $let binding of a missing field *)
Example C04_bit16 :
  diverge (op "$let" (VDoc [("vars", VDoc [("v", VStr "$zz")]); ("in", VInt 1)])) = (16, EMiss, SV (VInt 1)).
Proof. vm_compute. reflexivity. Qed.
(* 32 = F-SETEQ-UNHASHABLE *)
Example C04_bit32 :
  diverge (op "$setEquals" (VArr [VArr [VArr [VInt 1]]; VArr [VArr [VInt 1]]])) = (32, EE EType, SV (VBool true)).
Proof. vm_compute. reflexivity. Qed.
(* 64 = F-FIRST-EMPTY *)
Example C04_bit64 : diverge (op "$first" (VStr "$e")) = (64, EV VNull, SMiss).
Proof. vm_compute. reflexivity. Qed.
(* 128 = F-SLICE-NEG *)
Example C04_bit128 :
  diverge (op "$slice" (VArr [VStr "$arr"; VInt (-5); VInt 1])) = (128, EV (VArr []), SV (VArr [VInt 1])).
Proof. vm_compute. reflexivity. Qed.
