(* C12 proofs, part 3: _project_by_spec on the tree of a path list computes the specified
   inclusion / exclusion, inside the guard. *)
From Coq Require Import ZArith List String Bool Ascii Lia.
From Verif Require Import Value PyEq BsonOrder Path Filter Update Project Coll ProjectSpec.
From Verif.Proofs Require Import C01Values C12Base C12Combine.
Import ListNotations.
Open Scope Z_scope.
Open Scope string_scope.
Open Scope list_scope.

(* ---------------------------------------------------------------- the loops of project_doc *)
Definition pd_each (sub : list (string * pspec)) (inc : bool) : list value -> res (list value) :=
  fix each (xs : list value) : res (list value) :=
    match xs with
    | [] => Ok []
    | e :: xs' =>
        match e with
        | VDoc _ =>
            let! y := if has_key "$" sub then Err (dollar_err inc) else project_doc sub inc e in
            let! r2 := each xs' in Ok (y :: r2)
        | _ => Err ECrash
        end
    end.

Definition pd_field (cs : list (string * pspec)) (inc : bool) (k : string) (x : value)
           (r : list (string * value)) : res (list (string * value)) :=
  match find_child k cs with
  | Some (PNode sub) =>
      match x with
      | VArr xs => let! ys := pd_each sub inc xs in Ok ((k, VArr ys) :: r)
      | VDoc _ =>
          let! y := if has_key "$" sub then Err (dollar_err inc) else project_doc sub inc x in
          Ok ((k, y) :: r)
      | _ => Ok r
      end
  | Some (PLeaf _) => if inc then Ok ((k, x) :: r) else Ok r
  | None => if inc then Ok r else Ok ((k, x) :: r)
  end.

Fixpoint pd_go (cs : list (string * pspec)) (inc : bool) (fs : list (string * value))
  : res (list (string * value)) :=
  match fs with
  | [] => Ok []
  | (k, x) :: fs' => let! r := pd_go cs inc fs' in pd_field cs inc k x r
  end.

Lemma project_doc_doc cs inc fs :
  project_doc cs inc (VDoc fs) = (let! out := pd_go cs inc fs in Ok (VDoc out)).
Proof.
  cbn [project_doc]. f_equal.
  induction fs as [|[k x] fs IH]; [reflexivity|].
  cbn [pd_go]. rewrite <- IH. reflexivity.
Qed.

(* ---------------------------------------------------------------- the specification, per field *)
Definition inc_arr (fuel : nat) (sub : list (list string)) (xs : list value) : list value :=
  flat_map (fun x => match x with VDoc _ => [include fuel sub x] | _ => [] end) xs.
Definition exc_arr (fuel : nat) (sub : list (list string)) (xs : list value) : list value :=
  map (fun x => match x with VDoc _ => exclude fuel sub x | _ => x end) xs.

Definition inc_opt (fuel : nat) (P : list (list string)) (k : string) (x : value) : option value :=
  match below k P with
  | [] => None
  | _ => if names_whole (below k P) then Some x
         else match x with
              | VDoc _ => Some (include fuel (below k P) x)
              | VArr xs => Some (VArr (inc_arr fuel (below k P) xs))
              | _ => None
              end
  end.

Definition exc_opt (fuel : nat) (P : list (list string)) (k : string) (x : value) : option value :=
  match below k P with
  | [] => Some x
  | _ => if names_whole (below k P) then None
         else match x with
              | VDoc _ => Some (exclude fuel (below k P) x)
              | VArr xs => Some (VArr (exc_arr fuel (below k P) xs))
              | _ => Some x
              end
  end.

Lemma include_S fuel P fs :
  include (S fuel) P (VDoc fs) = VDoc (opt_fields (inc_opt fuel P) fs).
Proof.
  cbn [include]. f_equal. unfold opt_fields. apply flat_map_ext. intros [k x].
  unfold inc_opt. cbn [fst snd]. destruct (below k P); [reflexivity|].
  destruct (names_whole _); [reflexivity|]. destruct x; reflexivity.
Qed.

Lemma exclude_S fuel P fs :
  exclude (S fuel) P (VDoc fs) = VDoc (opt_fields (exc_opt fuel P) fs).
Proof.
  cbn [exclude]. f_equal. unfold opt_fields. apply flat_map_ext. intros [k x].
  unfold exc_opt. cbn [fst snd]. destruct (below k P); [reflexivity|].
  destruct (names_whole _); [reflexivity|]. destruct x; reflexivity.
Qed.

Definition nhs_field (fuel : nat) (P : list (list string)) (kv : string * value) : bool :=
  match below (fst kv) P with
  | [] => false
  | _ => if names_whole (below (fst kv) P) then false
         else match snd kv with
              | VDoc _ => nested_hits_scalar fuel (below (fst kv) P) (snd kv)
              | VArr xs => existsb (fun x => match x with
                                             | VDoc _ => nested_hits_scalar fuel (below (fst kv) P) x
                                             | _ => true end) xs
              | _ => true
              end
  end.

Lemma nhs_S fuel P fs :
  nested_hits_scalar (S fuel) P (VDoc fs) = existsb (nhs_field fuel P) fs.
Proof.
  cbn [nested_hits_scalar]. apply existsb_ext_in. intros [k x] _. unfold nhs_field. cbn [fst snd].
  destruct (below k P); reflexivity.
Qed.

Definition pref (inc : bool) (fuel : nat) (P : list (list string)) (v : value) : value :=
  if inc then include fuel P v else exclude fuel P v.

Definition pref_opt (inc : bool) (fuel : nat) (P : list (list string)) :=
  if inc then inc_opt fuel P else exc_opt fuel P.

Lemma pref_S inc fuel P fs :
  pref inc (S fuel) P (VDoc fs) = VDoc (opt_fields (pref_opt inc fuel P) fs).
Proof. destruct inc; [apply include_S|apply exclude_S]. Qed.

(* ---------------------------------------------------------------- main lemma *)
Ltac fin_field :=
  match goal with
  | inc : bool |- _ =>
      destruct inc; unfold pref, pref_opt, inc_opt, exc_opt;
      repeat match goal with
             | E : below _ _ = _ |- _ => rewrite E
             | E : names_whole _ = _ |- _ => rewrite E
             end; reflexivity
  end.
Lemma project_doc_pref : forall fuel n cs P inc fs,
  repr n cs P -> nodollar P ->
  (depth (VDoc fs) < fuel)%nat ->
  nested_hits_scalar fuel P (VDoc fs) = false ->
  project_doc cs inc (VDoc fs) = Ok (pref inc fuel P (VDoc fs)).
Proof.
  induction fuel as [|fuel IH]; intros n cs P inc fs Hrep Hnd Hdep Hg; [lia|].
  rewrite project_doc_doc, pref_S, nhs_S in *. rewrite depth_doc in Hdep.
  assert (Hgo : forall fs0, (forall k x, In (k, x) fs0 -> (depth x < fuel)%nat) ->
                            existsb (nhs_field fuel P) fs0 = false ->
                            pd_go cs inc fs0 = Ok (opt_fields (pref_opt inc fuel P) fs0)).
  { clear fs Hdep Hg. induction fs0 as [|[k x] fs0 IHfs]; intros Hd Hg; [reflexivity|].
    simpl in Hg. apply orb_false_iff in Hg. destruct Hg as [Hg1 Hg2].
    cbn [pd_go]. rewrite IHfs; [|intros k' x' Hin; eapply Hd; right; exact Hin|exact Hg2].
    cbn [bind]. unfold opt_fields at 2. cbn [flat_map fst snd]. fold (opt_fields (pref_opt inc fuel P) fs0).
    assert (Hdx : (depth x < fuel)%nat) by (eapply Hd; left; reflexivity).
    destruct n as [|n]; [contradiction|]. destruct (Hrep k) as [R1 [R2 R3]].
    unfold nhs_field in Hg1. cbn [fst snd] in Hg1.
    unfold pd_field.
    destruct (below k P) as [|r sub] eqn:Eb.
    - rewrite (R1 eq_refl). fin_field.
    - destruct (names_whole (r :: sub)) eqn:Enw.
      + destruct (R2 ltac:(discriminate) eq_refl) as [v Hv]. rewrite Hv. fin_field.
      + destruct (R3 ltac:(discriminate) eq_refl) as [cs' [Hc Hr']]. rewrite Hc.
        assert (Hnd' : nodollar (r :: sub)) by (rewrite <- Eb; apply nodollar_below; exact Hnd).
        rewrite (repr_no_dollar _ _ _ Hr' Hnd').
        destruct x as [| | | | | | |xfs|xs]; try discriminate Hg1.
        * rewrite (IH n cs' (r :: sub) inc xfs Hr' Hnd' Hdx Hg1). cbn [bind].
          fin_field.
        * assert (He : pd_each cs' inc xs
                       = Ok (if inc then inc_arr fuel (r :: sub) xs else exc_arr fuel (r :: sub) xs)).
          { rewrite depth_arr in Hdx.
            assert (Hdl : forall e, In e xs -> (depth e < fuel)%nat).
            { intros e He. apply depth_list_in in He. lia. }
            clear Hdx Hd. induction xs as [|e xs IHxs].
            - destruct inc; reflexivity.
            - simpl in Hg1. apply orb_false_iff in Hg1. destruct Hg1 as [Ge Gxs].
              destruct e as [| | | | | | |efs|]; try discriminate Ge.
              cbn [pd_each]. rewrite (repr_no_dollar _ _ _ Hr' Hnd').
              rewrite (IH n cs' (r :: sub) inc efs Hr' Hnd'
                          ltac:(apply Hdl; left; reflexivity) Ge).
              cbn [bind]. fold (pd_each cs' inc).
              rewrite IHxs; [|exact Gxs|intros e He; apply Hdl; right; exact He].
              cbn [bind]. destruct inc; reflexivity. }
          rewrite He. cbn [bind]. fin_field. }
  rewrite Hgo; [reflexivity| |exact Hg].
  intros k x Hin. apply depth_fields_in in Hin. lia.
Qed.

Lemma project_by_spec_pref n cs P inc dfs :
  repr n cs P -> nodollar P ->
  nested_hits_scalar (S (depth (VDoc dfs))) P (VDoc dfs) = false ->
  project_by_spec (PNode cs) inc dfs
  = Ok (opt_fields (pref_opt inc (depth (VDoc dfs)) P) dfs).
Proof.
  intros Hr Hnd Hg. unfold project_by_spec. rewrite (repr_no_dollar _ _ _ Hr Hnd).
  rewrite (project_doc_pref (S (depth (VDoc dfs))) n cs P inc dfs Hr Hnd ltac:(lia) Hg).
  rewrite pref_S. reflexivity.
Qed.
