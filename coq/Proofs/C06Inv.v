(* C06 proofs, part 2: the state invariant.  Store keys are pairwise different, and for every
   unique index the entries that are inside the guard ("good": scalar key, nice indexed
   paths, covered by the index) have pairwise different index keys.  The invariant does not
   mention the guard as a hypothesis: entries outside it are simply not constrained, so it
   also holds in the intermediate states of insert_many / bulk_write / multi-updates. *)
From Coq Require Import ZArith List String Bool Ascii Lia.
From Verif Require Import Value PyEq BsonOrder Path Filter FilterSpec FilterGuard Update Project
  Coll HistCheck HistProps HistGuards.
From Verif.Proofs Require Import C01Values C01Paths C01Loop C06Values C06Base.
Import ListNotations.
Open Scope Z_scope.
Open Scope string_scope.
Open Scope list_scope.

Definition entry := (value * value)%type.

(* ---------------------------------------------------------------- sublists *)
Inductive sub {A} : list A -> list A -> Prop :=
| sub_nil : sub [] []
| sub_skip x l l' : sub l l' -> sub l (x :: l')
| sub_keep x l l' : sub l l' -> sub (x :: l) (x :: l').

Lemma sub_refl {A} (l : list A) : sub l l.
Proof. induction l; constructor; assumption. Qed.

Lemma sub_In {A} (l l' : list A) : sub l l' -> forall x, In x l -> In x l'.
Proof.
  induction 1 as [|y l l' _ IH|y l l' _ IH]; intros x Hx.
  - exact Hx.
  - right. apply IH. exact Hx.
  - destruct Hx as [->|Hx]; [left; reflexivity|right; apply IH; exact Hx].
Qed.

Lemma sub_trans {A} (l2 l3 : list A) : sub l2 l3 -> forall l1, sub l1 l2 -> sub l1 l3.
Proof.
  induction 1 as [|y l l' _ IH|y l l' _ IH]; intros l1 H1.
  - exact H1.
  - apply sub_skip. apply IH. exact H1.
  - inversion H1; subst.
    + apply sub_skip. apply IH. assumption.
    + apply sub_keep. apply IH. assumption.
Qed.

Lemma sub_filter {A} (f : A -> bool) l : sub (List.filter f l) l.
Proof.
  induction l as [ | x l IH ]; simpl; [ constructor | ].
  destruct (f x); [ apply sub_keep | apply sub_skip ]; exact IH.
Qed.

Lemma sub_app {A} (a a' b b' : list A) : sub a a' -> sub b b' -> sub (a ++ b) (a' ++ b').
Proof.
  induction 1 as [|y l l' _ IH|y l l' _ IH]; intros Hb; simpl.
  - exact Hb.
  - apply sub_skip. apply IH. exact Hb.
  - apply sub_keep. apply IH. exact Hb.
Qed.

Lemma sub_nil_l {A} (l : list A) : sub [] l.
Proof. induction l; constructor; assumption. Qed.

Lemma store_del_sub k l : sub (store_del k l) l.
Proof.
  induction l as [|[k' d'] l IH]; simpl; [constructor|].
  destruct (py_eq k' k); [apply sub_skip; apply sub_refl|apply sub_keep; exact IH].
Qed.

(* ---------------------------------------------------------------- store keys *)
(* no stored key equals (Python ==) a key stored later *)
Fixpoint store_nd (l : list entry) : Prop :=
  match l with
  | [] => True
  | (k, _) :: l' => Forall (fun kd => py_eq k (fst kd) = false) l' /\ store_nd l'
  end.

Lemma store_get_none k l :
  store_get k l = None -> Forall (fun kd => py_eq (fst kd) k = false) l.
Proof.
  induction l as [ | [k' d'] l IH ]; simpl; intros H; [ constructor | ].
  destruct (py_eq k' k) eqn:E; [ discriminate | ]. constructor; [ exact E | auto ].
Qed.

Lemma Forall_sub {A} (P : A -> Prop) l l' : sub l l' -> Forall P l' -> Forall P l.
Proof.
  intros Hs Hf. apply Forall_forall. intros x Hx.
  eapply Forall_forall in Hf; [ exact Hf | eapply sub_In; eauto ].
Qed.

Lemma store_nd_sub l l' : sub l l' -> store_nd l' -> store_nd l.
Proof.
  induction 1 as [|[k d] l l' Hs IH|[k d] l l' Hs IH]; simpl; intros H.
  - exact I.
  - apply IH. exact (proj2 H).
  - destruct H as [H1 H2]. split; [ eapply Forall_sub; eauto | auto ].
Qed.

Lemma Forall_store_set (P : entry -> Prop) k d l :
  (forall k' d1 d2, P (k', d1) -> P (k', d2)) ->
  Forall P l -> P (k, d) -> Forall P (store_set k d l).
Proof.
  intros Hk. induction 1 as [ | [k' d'] l Hx Hl IH ]; simpl; intros Hp.
  - constructor; [ assumption | constructor ].
  - destruct (py_eq k' k); constructor; eauto.
Qed.

Lemma store_nd_set k d l : store_nd l -> store_nd (store_set k d l).
Proof.
  induction l as [ | [k' d'] l IH ]; simpl; [ auto | ]. intros [H1 H2].
  destruct (py_eq k' k) eqn:E; simpl.
  - split; assumption.
  - split; [ | auto ].
    apply Forall_store_set; simpl; auto.
Qed.

Lemma store_nd_app_end k d l :
  store_nd l -> Forall (fun kd => py_eq (fst kd) k = false) l -> store_nd (l ++ [(k, d)]).
Proof.
  induction l as [ | [k' d'] l IH ]; simpl.
  - intros _ _. split; [ constructor | exact I ].
  - intros [H1 H2] Hf. inversion Hf as [ | ? ? Hk Hl ]; subst. simpl in Hk.
    split; [ | auto ].
    apply Forall_app. split; [ assumption | constructor; [ exact Hk | constructor ] ].
Qed.

Lemma store_nd_split a k (d : value) b :
  store_nd (a ++ (k, d) :: b) ->
  Forall (fun e => py_eq (fst e) k = false) a /\ Forall (fun e => py_eq k (fst e) = false) b.
Proof.
  induction a as [ | [k' d'] a IH ]; simpl.
  - intros [H _]. split; [ constructor | exact H ].
  - intros [H1 H2]. destruct (IH H2) as [Ha Hb]. split; [ | exact Hb ].
    constructor; [ | exact Ha ].
    apply Forall_app in H1. destruct H1 as [_ H1]. inversion H1; subst. assumption.
Qed.

(* where store_set writes *)
Lemma store_set_at a k0 d0 b k d :
  Forall (fun e => py_eq (fst e) k = false) a -> py_eq k0 k = true ->
  store_set k d (a ++ (k0, d0) :: b) = a ++ (k0, d) :: b.
Proof.
  induction a as [ | [k' d'] a IH ]; simpl; intros Ha Hk.
  - rewrite Hk. reflexivity.
  - inversion Ha as [ | ? ? H1 H2 ]; subst. simpl in H1. rewrite H1. f_equal. apply IH; assumption.
Qed.

Lemma store_set_none k d l :
  Forall (fun e => py_eq (fst e) k = false) l -> store_set k d l = l ++ [(k, d)].
Proof.
  induction l as [ | [k' d'] l IH ]; simpl; intros Ha; [ reflexivity | ].
  inversion Ha as [ | ? ? H1 H2 ]; subst. simpl in H1. rewrite H1. f_equal. apply IH; assumption.
Qed.

Lemma store_set_split k d l :
  (exists a k0 d0 b, l = a ++ (k0, d0) :: b /\ store_set k d l = a ++ (k0, d) :: b
                     /\ py_eq k0 k = true)
  \/ store_set k d l = l ++ [(k, d)].
Proof.
  induction l as [ | [k' d'] l IH ]; simpl; [ right; reflexivity | ].
  destruct (py_eq k' k) eqn:E.
  - left. exists [], k', d', l. simpl. auto.
  - destruct IH as [(a & k0 & d0 & b & H1 & H2 & H3)|H].
    + left. exists ((k', d') :: a), k0, d0, b. simpl. rewrite H1 at 1. rewrite H2. auto.
    + right. rewrite H. reflexivity.
Qed.

Lemma store_set_In_other k d l e :
  In e l -> py_eq (fst e) k = false -> In e (store_set k d l).
Proof.
  induction l as [ | [k' d'] l IH ]; simpl; intros He Hk; [ destruct He | ].
  destruct He as [<-|He].
  - simpl in Hk. rewrite Hk. left. reflexivity.
  - destruct (py_eq k' k); [ right; exact He | right; apply IH; assumption ].
Qed.

Lemma store_del_none k l :
  Forall (fun e => py_eq (fst e) k = false) l -> store_del k l = l.
Proof.
  induction l as [ | [k' d'] l IH ]; simpl; intros Ha; [ reflexivity | ].
  inversion Ha as [ | ? ? H1 H2 ]; subst. simpl in H1. rewrite H1. f_equal. apply IH; assumption.
Qed.

Lemma store_del_app_hit k l k' d :
  Forall (fun e => py_eq (fst e) k = false) l -> py_eq k' k = true ->
  store_del k (l ++ [(k', d)]) = l.
Proof.
  induction l as [ | [k1 d1] l IH ]; simpl; intros Ha Hk.
  - rewrite Hk. reflexivity.
  - inversion Ha as [ | ? ? H1 H2 ]; subst. simpl in H1. rewrite H1. f_equal. apply IH; assumption.
Qed.

Lemma Forall_filter {A} (P : A -> Prop) (f : A -> bool) l :
  Forall P l -> Forall P (List.filter f l).
Proof. apply Forall_sub. apply sub_filter. Qed.

(* ---------------------------------------------------------------- pairwise relations *)
Fixpoint PW (R : entry -> entry -> Prop) (l : list entry) : Prop :=
  match l with
  | [] => True
  | e :: l' => (forall e', In e' l' -> R e e') /\ PW R l'
  end.

Lemma PW_sub R l l' : sub l l' -> PW R l' -> PW R l.
Proof.
  induction 1 as [|e l l' Hs IH|e l l' Hs IH]; simpl; intros H.
  - exact I.
  - apply IH. exact (proj2 H).
  - destruct H as [H1 H2]. split; [ | auto ].
    intros e' He'. apply H1. eapply sub_In; eauto.
Qed.

Lemma PW_split R a e b :
  PW R (a ++ e :: b) ->
  PW R (a ++ b) /\ (forall x, In x a -> R x e) /\ (forall y, In y b -> R e y).
Proof.
  induction a as [ | x a IH ]; simpl.
  - intros [H1 H2]. split; [ exact H2 | split; [ intros ? [] | exact H1 ] ].
  - intros [H1 H2]. destruct (IH H2) as (Ha & Hb & Hc).
    split; [ split; [ | exact Ha ] | split; [ | exact Hc ] ].
    + intros e' He'. apply H1. apply in_app_or in He'. apply in_or_app.
      destruct He' as [He'|He']; [ left; exact He' | right; right; exact He' ].
    + intros y [<-|Hy]; [ apply H1; apply in_or_app; right; left; reflexivity | apply Hb; exact Hy ].
Qed.

Lemma PW_insert R a e b :
  PW R (a ++ b) -> (forall x, In x a -> R x e) -> (forall y, In y b -> R e y) ->
  PW R (a ++ e :: b).
Proof.
  induction a as [ | x a IH ]; simpl.
  - intros H _ Hb. split; assumption.
  - intros [H1 H2] Ha Hb. split.
    + intros e' He'. apply in_app_or in He'. destruct He' as [He'|[<-|He']].
      * apply H1. apply in_or_app. left. exact He'.
      * apply Ha. left. reflexivity.
      * apply H1. apply in_or_app. right. exact He'.
    + apply IH; auto.
Qed.

(* ---------------------------------------------------------------- index keys of entries *)
Definition dnice (i : index) (d : value) : bool :=
  forallb (fun kd => pnice (isparse i) (fst kd) d) (ikey i).
Definition kt (i : index) (d : value) : list value :=
  map (fun kd => kval (fst kd) d) (ikey i).
Definition cov (i : index) (d : value) : bool :=
  (if isparse i
   then existsb (fun p => match get_by_dot (split_dots p) d with Some _ => true | None => false end)
                (map fst (ikey i))
   else true) &&
  match ipartial i with
  | Some pf => match filter_applies pf d with Ok b => b | Err _ => true end
  | None => true
  end.
Definition good (i : index) (e : entry) : bool :=
  ks (fst e) && dnice i (snd e) && cov i (snd e).
Definition R (i : index) (e1 e2 : entry) : Prop :=
  good i e1 = true -> good i e2 = true -> tuple_eq (kt i (snd e1)) (kt i (snd e2)) = false.

Lemma good_inv i e :
  good i e = true -> ks (fst e) = true /\ dnice i (snd e) = true /\ cov i (snd e) = true.
Proof.
  unfold good. intros H. apply andb_true_iff in H. destruct H as [H H3].
  apply andb_true_iff in H. destruct H as [H1 H2]. auto.
Qed.

Lemma dnice_Forall i d :
  dnice i d = true -> Forall (fun kd => pnice (isparse i) (fst kd) d = true) (ikey i).
Proof. unfold dnice. intros H. apply Forall_forall. apply forallb_forall. exact H. Qed.

Lemma dnice_sval i d :
  dnice i d = true -> Forall (fun kd => sval (kval (fst kd) d) = true) (ikey i).
Proof.
  intros H. apply dnice_Forall in H. eapply Forall_impl; [ | exact H ].
  intros kd Hk. simpl in Hk. eapply pnice_kval_sval; eauto.
Qed.

Lemma kt_sval i d : dnice i d = true -> tuple_sval (kt i d).
Proof.
  intros H. apply dnice_sval in H. unfold tuple_sval, kt.
  induction H; simpl; constructor; assumption.
Qed.

Lemma R_sym i e1 e2 : R i e1 e2 -> R i e2 e1.
Proof.
  unfold R. intros H G2 G1. rewrite tuple_eq_sym; [ apply H; assumption | | ];
    apply kt_sval; [ apply (good_inv _ _ G2) | apply (good_inv _ _ G1) ].
Qed.

Lemma R_bad_l i e e' : good i e = false -> R i e e'.
Proof. unfold R. intros H G. congruence. Qed.
Lemma R_bad_r i e e' : good i e = false -> R i e' e.
Proof. unfold R. intros H _ G. congruence. Qed.

Lemma good_ks_false i k d : ks k = false -> good i (k, d) = false.
Proof. unfold good. simpl. intros ->. reflexivity. Qed.

(* writing under a container key never touches a good entry *)
Lemma PW_store_set_bad i k d l : ks k = false -> PW (R i) l -> PW (R i) (store_set k d l).
Proof.
  intros Hk H. destruct (store_set_split k d l) as [(a & k0 & d0 & b & H1 & H2 & H3)|H1].
  - rewrite H2. subst l. apply PW_split in H. destruct H as (H & _ & _).
    assert (Hb : good i (k0, d) = false).
    { apply good_ks_false. destruct (ks k0) eqn:Ek0; [ | reflexivity ].
      destruct (ks_py_other _ _ Ek0 H3) as [Hk' _]. congruence. }
    apply PW_insert; [ exact H | intros; apply R_bad_r; exact Hb | intros; apply R_bad_l; exact Hb ].
  - rewrite H1. apply PW_insert; [ rewrite app_nil_r; exact H | | intros ? [] ].
    intros. apply R_bad_r. apply good_ks_false. exact Hk.
Qed.

(* ---------------------------------------------------------------- expiry in closed form *)
Definition expired_by (i : index) (now : Z) (e : entry) : bool :=
  match ittl i with
  | None => false
  | Some sv =>
      match ttl_seconds sv with
      | Ok (Some secs) =>
          match ikey i with
          | [(field, _)] =>
              meets_expiry (match snd e with VDoc fs => assoc field fs | _ => None end) secs now
          | _ => false
          end
      | _ => false
      end
  end.
Definition live (is : list index) (now : Z) (e : entry) : bool :=
  forallb (fun i => negb (expired_by i now e)) is.

Lemma filter_true {A} (f : A -> bool) l : (forall x, f x = true) -> List.filter f l = l.
Proof. intros H. induction l as [ | x l IH ]; simpl; [ | rewrite H, IH ]; reflexivity. Qed.

Lemma filter_filter {A} (f g : A -> bool) l :
  List.filter g (List.filter f l) = List.filter (fun x => f x && g x) l.
Proof.
  induction l as [ | x l IH ]; simpl; [ reflexivity | ].
  destruct (f x); simpl; [ destruct (g x); rewrite IH; reflexivity | exact IH ].
Qed.

Lemma with_docs_id c : with_docs c (docs c) = c.
Proof. destruct c; reflexivity. Qed.

Lemma expire_index_char i c c' :
  expire_index i c = Ok c' ->
  c' = with_docs c (List.filter (fun e => negb (expired_by i (now c) e)) (docs c)).
Proof.
  unfold expire_index, expired_by. intros H.
  destruct (ittl i) as [sv|].
  2:{ inv_pair H. rewrite filter_true by reflexivity. symmetry. apply with_docs_id. }
  destruct (ttl_seconds sv) as [[secs|]|e]; simpl in H; try discriminate H.
  2:{ inv_pair H. rewrite filter_true by reflexivity. symmetry. apply with_docs_id. }
  destruct (ikey i) as [ | [field dir] [ | kd2 rest ] ].
  - inv_pair H. rewrite filter_true by reflexivity. symmetry. apply with_docs_id.
  - dm H. inv_pair H. reflexivity.
  - inv_pair H. rewrite filter_true by reflexivity. symmetry. apply with_docs_id.
Qed.

Lemma expire_fold_err is e :
  fold_left (fun acc i => let! c' := acc in expire_index i c') is (Err e) = Err e.
Proof. induction is as [ | i is IH ]; simpl; auto. Qed.

Lemma expire_fold_char : forall is c c',
  fold_left (fun acc i => let! c' := acc in expire_index i c') is (Ok c) = Ok c' ->
  c' = with_docs c (List.filter (live is (now c)) (docs c)).
Proof.
  induction is as [ | i is IH ]; simpl; intros c c' H.
  - inv_pair H. rewrite filter_true by reflexivity. symmetry. apply with_docs_id.
  - destruct (expire_index i c) as [c1|e] eqn:E.
    + apply expire_index_char in E. apply IH in H. subst c1. rewrite H. simpl.
      rewrite filter_filter. reflexivity.
    + rewrite expire_fold_err in H. discriminate.
Qed.

Lemma expire_char c c' :
  expire c = Ok c' -> c' = with_docs c (List.filter (live (idx c) (now c)) (docs c)).
Proof. unfold expire. apply expire_fold_char. Qed.

Lemma expire_nil c : idx c = [] -> expire c = Ok c.
Proof. unfold expire. intros ->. reflexivity. Qed.

(* ---------------------------------------------------------------- the uniqueness check *)
Definition qfilter (i : index) (q : value) : value :=
  match ipartial i with
  | Some p => VDoc [("$and", VArr [p; q])]
  | None => q
  end.

Definition skipped (i : index) (new : value) : bool :=
  isparse i && forallb (fun p : string * value => is_null (snd p)) (qdoc (ikey i) new).

Lemma eu_inv : forall is c new t t',
  ensure_uniques_l is c new t = Ok t' ->
  (t = true -> t' = true) /\
  (t' = true -> t = true \/ exists c1, expire c = Ok c1) /\
  forall i, In i is -> iunique i = true ->
    skipped i new = true
    \/ (t' = true /\ exists c1 m,
          iter_documents c (qfilter i (VDoc (qdoc (ikey i) new))) = Ok (c1, m)
          /\ (List.length m <= 1)%nat).
Proof.
  induction is as [ | i is IH ]; simpl; intros c new t t' H.
  - inv_pair H. split; [ auto | split; [ auto | intros ? [] ] ].
  - destruct (negb (iunique i)) eqn:Eu.
    { destruct (IH _ _ _ _ H) as (H1 & H2 & H3). split; [ exact H1 | split; [ exact H2 | ] ].
      intros j [<-|Hj] Hju; [ rewrite Hju in Eu; discriminate | auto ]. }
    destruct (index_query i new) as [q|e] eqn:Eq; [ | discriminate H ]. cbn [bind] in H.
    apply index_query_eq in Eq. subst q.
    fold (skipped i new) in H.
    destruct (skipped i new) eqn:Es.
    { destruct (IH _ _ _ _ H) as (H1 & H2 & H3). split; [ exact H1 | split; [ exact H2 | ] ].
      intros j [<-|Hj] Hju; [ left; exact Es | auto ]. }
    fold (qfilter i (VDoc (qdoc (ikey i) new))) in H.
    destruct (iter_documents c (qfilter i (VDoc (qdoc (ikey i) new)))) as [[c1 m]|e] eqn:Ei;
      [ | discriminate H ].
    cbn [bind snd] in H.
    destruct (Nat.ltb 1 (List.length m)) eqn:El; [ discriminate H | ].
    apply Nat.ltb_ge in El.
    destruct (IH _ _ _ _ H) as (H1 & H2 & H3).
    assert (Ht : t' = true) by (apply H1; reflexivity).
    split; [ intros _; exact Ht | split ].
    + intros _. right. unfold iter_documents in Ei.
      destruct (expire c) as [c0|e]; [ exists c0; reflexivity | discriminate Ei ].
    + intros j [<-|Hj] Hju; [ right; split; [ exact Ht | exists c1, m; auto ] | auto ].
Qed.

Lemma iter_documents_inv c f c1 m :
  iter_documents c f = Ok (c1, m) -> expire c = Ok c1 /\ scan f (docs c1) = Ok m.
Proof.
  unfold iter_documents. intros H.
  destruct (expire c) as [c0|e]; [ | discriminate H ]. cbn [bind] in H.
  destruct (match docs c0 with [] => filter_applies f (VDoc []) | _ => Ok true end) as [b|e];
    cbn [bind] in H; [ | destruct (Nat.eqb _ _); discriminate H ].
  destruct (scan f (docs c0)) as [m'|e] eqn:Es; [ | destruct (Nat.eqb _ _); discriminate H ].
  inv_pair H. auto.
Qed.

(* a sparse index skips only documents it does not cover (inside the guard) *)
Lemma skipped_not_good i k new : skipped i new = true -> good i (k, new) = false.
Proof.
  unfold skipped. intros H. apply andb_true_iff in H. destruct H as [Hs Hn].
  destruct (good i (k, new)) eqn:G; [ exfalso | reflexivity ].
  destruct (good_inv _ _ G) as (_ & Hd & Hc). simpl in Hd, Hc.
  unfold cov in Hc. rewrite Hs in Hc. apply andb_true_iff in Hc. destruct Hc as [Hc _].
  apply existsb_exists in Hc. destruct Hc as (p & Hp & Hv).
  apply in_map_iff in Hp. destruct Hp as (kd & <- & Hkd).
  apply dnice_Forall in Hd. rewrite Forall_forall in Hd. specialize (Hd kd Hkd).
  destruct (pnice_inv _ _ _ Hd) as (_ & _ & Hx).
  rewrite forallb_forall in Hn.
  specialize (Hn (fst kd, kval (fst kd) new)).
  assert (Hin : In (fst kd, kval (fst kd) new) (qdoc (ikey i) new)).
  { unfold qdoc. apply in_map_iff. exists kd. auto. }
  specialize (Hn Hin). simpl in Hn. unfold kval in Hn.
  destruct (get_by_dot (split_dots (fst kd)) new) as [v|]; [ | discriminate Hv ].
  destruct Hx as [_ Hx]. apply (Hx Hs). destruct v; try discriminate Hn. reflexivity.
Qed.

(* the re-query built from a nice document hits every good entry with the same index key *)
Lemma hit_good i new e :
  dnice i new = true -> good i e = true ->
  (exists b, filter_applies (qfilter i (VDoc (qdoc (ikey i) new))) (snd e) = Ok b) ->
  tuple_eq (kt i new) (kt i (snd e)) = true ->
  hit (qfilter i (VDoc (qdoc (ikey i) new))) e = true.
Proof.
  intros Hn G [b Hb] Ht. unfold hit. rewrite Hb.
  destruct (good_inv _ _ G) as (_ & Hd & Hc).
  assert (Hq : forall b', matches (parse_filter (VDoc (qdoc (ikey i) new))) (snd e) = Ok b' ->
                          b' = true).
  { intros b' Hm. eapply qmatch; [ apply dnice_sval; exact Hn | apply dnice_Forall; exact Hd
                                 | exact Hm | exact Ht ]. }
  unfold qfilter in Hb. unfold cov in Hc. apply andb_true_iff in Hc. destruct Hc as [_ Hc].
  destruct (ipartial i) as [pf|].
  - rewrite and_filter in Hb.
    destruct (filter_applies pf (snd e)) as [[|]|e']; try discriminate.
    unfold filter_applies in Hb at 1.
    destruct (matches (parse_filter (VDoc (qdoc (ikey i) new))) (snd e)) as [b'|e'] eqn:Em;
      [ | discriminate Hb ].
    inv_pair Hb. rewrite (Hq b eq_refl). reflexivity.
  - unfold filter_applies in Hb. rewrite (Hq b Hb). reflexivity.
Qed.

Lemma filter_split {A} (f : A -> bool) a e b :
  List.filter f (a ++ e :: b) =
  List.filter f a ++ (if f e then [e] else []) ++ List.filter f b.
Proof. rewrite filter_app. simpl. destruct (f e); reflexivity. Qed.

(* one scanned index: the new entry conflicts with nothing that survived the scan *)
Lemma check_index i c new k a b c1 m x :
  docs c = a ++ (k, new) :: b ->
  iter_documents c (qfilter i (VDoc (qdoc (ikey i) new))) = Ok (c1, m) ->
  (List.length m <= 1)%nat ->
  live (idx c) (now c) (k, new) = true ->
  In x (List.filter (live (idx c) (now c)) a ++ List.filter (live (idx c) (now c)) b) ->
  R i x (k, new).
Proof.
  intros Hd Hi Hm Hl Hx G1 G2.
  destruct (tuple_eq (kt i (snd x)) (kt i (snd (k, new)))) eqn:Et; [ exfalso | reflexivity ].
  apply iter_documents_inv in Hi. destruct Hi as [He Hs].
  apply expire_char in He. subst c1. simpl in Hs. rewrite Hd, filter_split, Hl in Hs.
  simpl in Hs.
  destruct (good_inv _ _ G1) as (_ & Hdx & _). destruct (good_inv _ _ G2) as (_ & Hdn & _).
  simpl in Hdn, Et.
  assert (Hsym : tuple_eq (kt i new) (kt i (snd x)) = true).
  { rewrite tuple_eq_sym; [ exact Et | apply kt_sval; assumption | apply kt_sval; assumption ]. }
  set (L := live (idx c) (now c)) in *.
  pose proof (scan_all_ok _ _ _ Hs) as Hall.
  assert (H1 : hit (qfilter i (VDoc (qdoc (ikey i) new))) x = true).
  { apply hit_good; try assumption. apply Hall.
    apply in_app_or in Hx. apply in_or_app.
    destruct Hx as [Hx|Hx]; [ left; exact Hx | right; right; exact Hx ]. }
  assert (H2 : hit (qfilter i (VDoc (qdoc (ikey i) new))) (k, new) = true).
  { apply hit_good; try assumption.
    - apply Hall. apply in_or_app. right. left. reflexivity.
    - simpl. apply tuple_eq_refl. apply kt_sval. assumption. }
  pose proof (scan_two _ _ _ _ _ _ Hs Hx H1 H2). lia.
Qed.

(* the check as a whole: Ok means the store after the check is conflict-free again *)
Lemma check_ok c new k a b touched c3 i :
  docs c = a ++ (k, new) :: b ->
  ensure_uniques c new = Ok touched -> expire_if touched c = Ok c3 ->
  In i (idx c) -> iunique i = true -> PW (R i) (a ++ b) -> PW (R i) (docs c3).
Proof.
  intros Hd He Hx Hi Hu Hp. unfold ensure_uniques in He.
  destruct (eu_inv _ _ _ _ _ He) as (_ & _ & H3). specialize (H3 i Hi Hu).
  destruct H3 as [Hs|(Ht & c1 & m & Hit & Hm)].
  - (* skipped: the new document is not good for i *)
    assert (Hb : good i (k, new) = false) by (apply skipped_not_good; exact Hs).
    assert (Hall : PW (R i) (docs c)).
    { rewrite Hd. apply PW_insert; [ exact Hp | intros; apply R_bad_r; exact Hb
                                    | intros; apply R_bad_l; exact Hb ]. }
    destruct touched; simpl in Hx.
    + apply expire_char in Hx. subst c3. simpl. eapply PW_sub; [ apply sub_filter | exact Hall ].
    + inv_pair Hx. exact Hall.
  - subst touched. simpl in Hx. pose proof Hx as Hx'. apply expire_char in Hx'. subst c3. simpl.
    rewrite Hd, filter_split.
    set (L := live (idx c) (now c)) in *.
    assert (Hsub : PW (R i) (List.filter L a ++ List.filter L b)).
    { eapply PW_sub; [ | exact Hp ]. apply sub_app; apply sub_filter. }
    destruct (L (k, new)) eqn:El; simpl.
    + apply PW_insert; [ exact Hsub | | ].
      * intros x Hxa. eapply check_index; eauto. apply in_or_app. left. exact Hxa.
      * intros y Hyb. apply R_sym. eapply check_index; eauto. apply in_or_app. right. exact Hyb.
    + exact Hsub.
Qed.

(* an Ok check that read the store means the expiry inside it succeeded *)
Lemma check_expire c new touched :
  ensure_uniques c new = Ok touched -> exists c3, expire_if touched c = Ok c3.
Proof.
  intros He. unfold ensure_uniques in He.
  destruct (eu_inv _ _ _ _ _ He) as (_ & H2 & _).
  destruct touched; simpl; [ | eauto ].
  destruct (H2 eq_refl) as [H|H]; [ discriminate | exact H ].
Qed.

(* ---------------------------------------------------------------- the invariant *)
Definition Inv (c : coll) : Prop :=
  store_nd (docs c) /\ forall i, In i (idx c) -> iunique i = true -> PW (R i) (docs c).

Lemma Inv_empty : Inv empty_coll.
Proof. split; [ exact I | intros i [] ]. Qed.

Lemma Inv_sub c l : Inv c -> sub l (docs c) -> Inv (with_docs c l).
Proof.
  intros [H1 H2] Hs. split; simpl.
  - eapply store_nd_sub; eauto.
  - intros i Hi Hu. eapply PW_sub; eauto.
Qed.

Lemma Inv_same c c' : docs c' = docs c -> idx c' = idx c -> Inv c -> Inv c'.
Proof. intros Hd Hi [H1 H2]. split; [ rewrite Hd; exact H1 | rewrite Hd, Hi; exact H2 ]. Qed.

Lemma expire_Inv c c' : expire c = Ok c' -> Inv c -> Inv c'.
Proof. intros H Hi. apply expire_char in H. subst c'. apply Inv_sub; [ exact Hi | apply sub_filter ]. Qed.

Lemma expire_if_Inv b c c' : expire_if b c = Ok c' -> Inv c -> Inv c'.
Proof. destruct b; simpl; [ apply expire_Inv | intros H; inv_pair H; auto ]. Qed.
