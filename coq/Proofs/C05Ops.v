(* C05 proofs, part 3: what every operation of the collection state machine does to the
   store, when no TTL index exists. *)
From Coq Require Import ZArith List String Bool Ascii Lia.
From Verif Require Import Value PyEq BsonOrder Path Filter Update Project Coll HistCheck HistProps.
From Verif Require Import C01Values C05Values C05Store.
Import ListNotations.
Open Scope Z_scope.
Open Scope string_scope.
Open Scope list_scope.

(* ---------------------------------------------------------------- insert *)
Lemma assoc_app_none {A} k (l1 l2 : list (string * A)) :
  assoc k l1 = None -> assoc k (l1 ++ l2) = assoc k l2.
Proof.
  induction l1 as [|[k' v] l1 IH]; simpl; intros H; [reflexivity|].
  destruct (String.eqb k k'); [discriminate H|apply IH; exact H].
Qed.

Lemma doc_id_patch fs : doc_id (patch (VDoc fs)) = option_map patch (assoc "_id" fs).
Proof. rewrite patch_doc. simpl. apply assoc_map_patch. Qed.

Definition ins_id (c : coll) (fs : list (string * value)) : value :=
  match assoc "_id" fs with Some i => patch i | None => VOid (next_oid c) end.
Definition ins_data (c : coll) (fs : list (string * value)) : value :=
  patch (VDoc (match assoc "_id" fs with
               | Some _ => fs
               | None => fs ++ [("_id", VOid (next_oid c))]
               end)).

Lemma ins_data_id c fs : doc_id (ins_data c fs) = Some (patch (ins_id c fs)).
Proof.
  unfold ins_data, ins_id. rewrite doc_id_patch.
  destruct (assoc "_id" fs) as [i|] eqn:E.
  - rewrite E. simpl. rewrite patch_idem. reflexivity.
  - rewrite assoc_app_none by exact E. reflexivity.
Qed.

Lemma ins_id_patch c fs : patch (ins_id c fs) = ins_id c fs.
Proof. unfold ins_id. destruct (assoc "_id" fs); [apply patch_idem|reflexivity]. Qed.

Lemma store_del_one id data :
  store_del id [(id, data)] = if py_eq id id then [] else [(id, data)].
Proof. reflexivity. Qed.

Lemma insert_doc_spec c fs c' r :
  no_ttl (idx c) = true ->
  insert_doc c (VDoc fs) = (c', r) ->
  let id := ins_id c fs in
  let data := ins_data c fs in
  idx c' = idx c /\
  ( (id_modelled id = false /\ docs c' = docs c /\
     exists e, r = Err e /\ (is_arr id = false -> e = EUnmodelled))
  \/ (id_modelled id = true /\ (exists x, store_get id (docs c) = Some x) /\
      docs c' = docs c /\ r = Err EDup)
  \/ (id_modelled id = true /\ store_get id (docs c) = None /\
      docs c' = docs c ++ [(id, data)] /\ r = Ok id)
  \/ (id_modelled id = true /\ store_get id (docs c) = None /\
      (docs c' = docs c \/ docs c' = docs c ++ [(id, data)]) /\ exists e, r = Err e)).
Proof.
  intros Hn. unfold insert_doc, ins_id, ins_data.
  destruct (assoc "_id" fs) as [i|] eqn:Ea; cbv beta iota zeta.
  - destruct (id_modelled (patch i)) eqn:Em; cbn [negb].
    + rewrite (expire_id c Hn).
      destruct (store_get (patch i) (docs c)) as [x|] eqn:Eg.
      * intros H. injection H as <- <-. split; [reflexivity|].
        right. left. repeat split; eauto.
      * match goal with |- context [ensure_uniques ?a ?b] =>
          destruct (ensure_uniques a b) as [touched|e] eqn:Eu end.
        -- rewrite expire_if_id by exact Hn.
           intros H. injection H as <- <-. split; [reflexivity|].
           right. right. left. repeat split; auto.
        -- rewrite expire_id by exact Hn.
           intros H. injection H as <- <-. split; [reflexivity|].
           right. right. right. repeat split; eauto.
           cbn [docs with_docs with_docs_w]. rewrite store_del_app_none by exact Eg.
           rewrite store_del_one. destruct (py_eq _ _); [left; apply app_nil_r|right; reflexivity].
    + destruct (patch i); try discriminate Em; intros H; injection H as <- <-;
        (split; [reflexivity|]); left; repeat split; eauto;
        try (eexists; split; [reflexivity|]; intros Ha; try discriminate Ha; reflexivity).
  - cbn [id_modelled negb].
    set (c0 := mkColl (docs c) (idx c) (forced c) (next_oid c + 1) (now c) (odocs c)).
    assert (Hn0 : no_ttl (idx c0) = true) by exact Hn.
    rewrite (expire_id c0 Hn0).
    change (docs c0) with (docs c).
    destruct (store_get (VOid (next_oid c)) (docs c)) as [x|] eqn:Eg.
    + intros H. injection H as <- <-. split; [reflexivity|].
      right. left. repeat split; eauto.
    + match goal with |- context [ensure_uniques ?a ?b] =>
        destruct (ensure_uniques a b) as [touched|e] eqn:Eu end.
      * rewrite expire_if_id by exact Hn.
        intros H. injection H as <- <-. split; [reflexivity|].
        right. right. left. repeat split; auto.
      * rewrite expire_id by exact Hn.
        intros H. injection H as <- <-. split; [reflexivity|].
        right. right. right. repeat split; eauto.
        cbn [docs with_docs with_docs_w]. change (docs c0) with (docs c).
        rewrite store_del_app_none by exact Eg.
        rewrite store_del_one. destruct (py_eq _ _); [left; apply app_nil_r|right; reflexivity].
Qed.

Lemma insert_doc_ins c d c' r :
  no_ttl (idx c) = true ->
  insert_doc c d = (c', r) ->
  idx c' = idx c /\ ins (docs c) (docs c').
Proof.
  intros Hn H.
  destruct d as [| | | | | | |fs|];
    try (injection H as <- <-; split; [reflexivity|left; reflexivity]).
  pose proof (insert_doc_spec c fs c' r Hn H) as Hs. cbv zeta in Hs.
  destruct Hs as [Hi Hc]. split; [exact Hi|].
  destruct Hc as [[_ [E _]]|[[_ [_ [E _]]]|[[Hm [Hg [E _]]]|[Hm [Hg [[E|E] _]]]]]];
    try (left; exact E);
    right; exists (ins_id c fs), (ins_data c fs); repeat split;
    try assumption; first [apply ins_id_patch|apply ins_data_id].
Qed.

(* ---------------------------------------------------------------- update loop *)
Lemma update_loop_spec spec u multi : forall todo c m n c' r,
  no_ttl (idx c) = true ->
  update_loop c spec u multi todo m n = (c', r) ->
  idx c' = idx c /\ sets todo (docs c) (docs c').
Proof.
  induction todo as [|[k d] todo IH]; intros c m n c' r Hn.
  - simpl. intros H. injection H as <- <-. split; [reflexivity|constructor].
  - cbn [update_loop].
    assert (Hmono : forall l l', sets todo l l' -> sets ((k, d) :: todo) l l').
    { intros l l'. apply sets_mono. intros kd Hin. right. exact Hin. }
    destruct (filter_applies spec d) as [[|]|e].
    + destruct (apply_update spec u false (now c) d) as [d'|e].
      * cbv zeta.
        change (match d with VDoc fs => assoc "_id" fs | _ => None end) with (doc_id d).
        change (match d' with VDoc fs => assoc "_id" fs | _ => None end) with (doc_id d').
        destruct (py_eq d' d) eqn:Epy; cbn [negb].
        -- destruct (negb (value_eqb d' d) && py_in k (odocs c)).
           ++ intros H. injection H as <- <-. split; [reflexivity|constructor].
           ++ destruct multi.
              ** intros H. apply IH in H; [|exact Hn]. destruct H as [H1 H2].
                 split; [exact H1|apply Hmono; exact H2].
              ** intros H. injection H as <- <-. split; [reflexivity|constructor].
        -- destruct (doc_id d) as [a|] eqn:Ea; destruct (doc_id d') as [b|] eqn:Eb;
             try (cbn [negb]; intros H; injection H as <- <-; split; [reflexivity|constructor]).
           destruct (py_eq a b) eqn:Eab; cbn [negb];
             [|intros H; injection H as <- <-; split; [reflexivity|constructor]].
           assert (Hs : same_id_ok d d').
           { exists a, b. repeat split; auto. }
           assert (Hs0 : same_id_ok d d).
           { exists a, a. repeat split; auto. }
           set (c1 := with_docs_w c (store_set k d' (docs c))).
           assert (Hn1 : no_ttl (idx c1) = true) by exact Hn.
           destruct (ensure_uniques c1 d') as [touched|e] eqn:Eu.
           ++ rewrite expire_if_id by exact Hn1.
              destruct multi.
              ** intros H. apply IH in H; [|exact Hn1]. destruct H as [H1 H2].
                 split; [exact H1|].
                 eapply sets_step; [left; reflexivity|exact Hs|apply Hmono; exact H2].
              ** intros H. injection H as <- <-. split; [reflexivity|].
                 eapply sets_step; [left; reflexivity|exact Hs|constructor].
           ++ assert (Hone : sets ((k, d) :: todo) (docs c) (docs c1)).
              { eapply sets_step; [left; reflexivity|exact Hs|constructor]. }
              destruct e;
                try (intros H; injection H as <- <-; split; [reflexivity|exact Hone]);
                (rewrite expire_id by exact Hn1;
                 intros H; injection H as <- <-; split; [reflexivity|];
                 eapply sets_step; [left; reflexivity|exact Hs|];
                 eapply sets_step; [left; reflexivity|exact Hs0|constructor]).
      * intros H. injection H as <- <-. split; [reflexivity|constructor].
    + intros H. apply IH in H; [|exact Hn]. destruct H as [H1 H2].
      split; [exact H1|apply Hmono; exact H2].
    + intros H. injection H as <- <-. split; [reflexivity|constructor].
Qed.

(* ---------------------------------------------------------------- update *)
Ltac same_state :=
  intros H; injection H as <- <-; split; [reflexivity|apply upd_refl].

Lemma update_spec pre5 c f u multi upsert c' r :
  no_ttl (idx c) = true ->
  update pre5 c f u multi upsert = (c', r) ->
  idx c' = idx c /\ upd (docs c) (docs c').
Proof.
  intros Hn. unfold update.
  destruct (patch f) as [| | | | | | |sfs|]; try same_state.
  destruct (patch u) as [| | | | | | |ufs|]; try same_state.
  destruct (empty_operator pre5 (VDoc ufs)); [same_state|].
  rewrite (expire_id c Hn).
  destruct (match docs c with [] => filter_applies (VDoc sfs) (VDoc []) | _ => Ok true end);
    [|same_state].
  destruct (update_loop c (VDoc sfs) (VDoc ufs) multi (docs c) 0 0) as [c2 r2] eqn:EL.
  apply update_loop_spec in EL; [|exact Hn]. destruct EL as [Hi2 Hs2].
  assert (Hu2 : upd (docs c) (docs c2)).
  { exists (docs c2). split; [exact Hs2|left; reflexivity]. }
  destruct r2 as [[m n]|e];
    [|intros H; injection H as <- <-; split; assumption].
  destruct (negb upsert || negb (Z.eqb m 0));
    [intros H; injection H as <- <-; split; assumption|].
  cbv zeta.
  match goal with |- (let '(c3, id) := ?x in _) = _ -> _ => destruct x as [c3 id] eqn:E3 end.
  assert (H3 : docs c3 = docs c2 /\ idx c3 = idx c2).
  { revert E3.
    repeat match goal with |- context [match ?x with _ => _ end] => destruct x end;
      intros E; injection E as <- _; split; reflexivity. }
  destruct H3 as [Hd3 Hi3].
  assert (Hu3 : upd (docs c) (docs c3)) by (rewrite Hd3; exact Hu2).
  assert (Hii3 : idx c3 = idx c) by congruence.
  destruct (expand_dots (set_key "_id" id sfs)) as [expanded|e];
    [|intros H; injection H as <- <-; split; assumption].
  destruct (apply_update (VDoc sfs) (VDoc ufs) true (now c3) _) as [d'|e];
    [|intros H; injection H as <- <-; split; assumption].
  destruct (insert_doc c3 d') as [c4 ir] eqn:E4.
  apply insert_doc_ins in E4; [|rewrite Hii3; exact Hn]. destruct E4 as [Hi4 Hins].
  assert (Hu4 : upd (docs c) (docs c4)).
  { exists (docs c2). split; [exact Hs2|]. rewrite <- Hd3. exact Hins. }
  destruct ir as [new_id|e]; intros H; injection H as <- <-;
    (split; [cbn [idx]; congruence|exact Hu4]).
Qed.

Lemma update_op_spec pre5 c f u multi upsert c' r :
  no_ttl (idx c) = true ->
  update_op pre5 c f u multi upsert = (c', r) ->
  idx c' = idx c /\ upd (docs c) (docs c').
Proof.
  intros Hn. unfold update_op.
  destruct u; try same_state.
  destruct (first_key_dollar _) as [[|]|]; try same_state.
  apply update_spec. exact Hn.
Qed.

Lemma replace_op_spec pre5 c f u upsert c' r :
  no_ttl (idx c) = true ->
  replace_op pre5 c f u upsert = (c', r) ->
  idx c' = idx c /\ upd (docs c) (docs c').
Proof.
  intros Hn. unfold replace_op.
  destruct u; try same_state.
  destruct (first_key_dollar _) as [[|]|]; try same_state; apply update_spec; exact Hn.
Qed.

(* ---------------------------------------------------------------- reads *)
Lemma iter_documents_state c f c1 m :
  no_ttl (idx c) = true ->
  iter_documents c f = Ok (c1, m) -> c1 = c /\ scan f (docs c) = Ok m.
Proof.
  intros Hn. unfold iter_documents. rewrite (expire_id c Hn). cbn [bind].
  destruct (match docs c with [] => filter_applies f (VDoc []) | _ => Ok true end);
    cbn [bind]; [|rewrite Nat.eqb_refl; discriminate].
  destruct (scan f (docs c)) as [m'|e]; cbn [bind]; [|rewrite Nat.eqb_refl; discriminate].
  intros H. injection H as <- <-. split; reflexivity.
Qed.

Lemma find_docs_state c f s c1 l :
  no_ttl (idx c) = true -> find_docs c f s = Ok (c1, l) -> c1 = c.
Proof.
  intros Hn. unfold find_docs. destruct f; try discriminate.
  destruct (iter_documents c (patch (VDoc fs))) as [[c2 m]|e] eqn:E; cbn [bind]; [|discriminate].
  apply iter_documents_state in E; [|exact Hn]. destruct E as [-> _].
  destruct (sort_docs s _); cbn [bind]; [|discriminate].
  intros H. injection H as <- _. reflexivity.
Qed.

Lemma find_op_state c f p s sk li : no_ttl (idx c) = true -> fst (find_op c f p s sk li) = c.
Proof.
  intros Hn. unfold find_op.
  destruct (find_docs c f s) as [[c1 l]|e] eqn:E; [|reflexivity].
  apply find_docs_state in E; [|exact Hn]. subst c1.
  destruct (project_all p l); reflexivity.
Qed.

Lemma find_one_state c f p s c1 r :
  no_ttl (idx c) = true -> find_one c f p s = (c1, r) -> c1 = c.
Proof.
  intros Hn. unfold find_one.
  pose proof (find_op_state c f p s 0 0 Hn) as Hf.
  destruct (find_op c f p s 0 0) as [c2 [v|e]]; simpl in Hf; subst c2.
  - destruct v as [| | | | | | | |[|x xs]]; intros H; injection H as <- _; reflexivity.
  - intros H; injection H as <- _; reflexivity.
Qed.

Lemma count_op_state c f sk li : no_ttl (idx c) = true -> fst (count_op c f sk li) = c.
Proof.
  intros Hn. unfold count_op.
  destruct li as [l|].
  - destruct (Z.leb l 0); [reflexivity|]. destruct f; try reflexivity.
    destruct (iter_documents c _) as [[c1 m]|e] eqn:E; [|reflexivity].
    apply iter_documents_state in E; [|exact Hn]. destruct E as [-> _]. reflexivity.
  - destruct f; try reflexivity.
    destruct (iter_documents c _) as [[c1 m]|e] eqn:E; [|reflexivity].
    apply iter_documents_state in E; [|exact Hn]. destruct E as [-> _]. reflexivity.
Qed.

Lemma distinct_op_state c key f : no_ttl (idx c) = true -> fst (distinct_op c key f) = c.
Proof.
  intros Hn. unfold distinct_op.
  destruct (negb (path_modelled (split_dots key))); [reflexivity|].
  destruct (find_docs c f []) as [[c1 l]|e] eqn:E; [|reflexivity].
  apply find_docs_state in E; [|exact Hn]. subst c1.
  destruct (existsb _ _); reflexivity.
Qed.

(* ---------------------------------------------------------------- delete *)
Lemma delete_go_spec multi : forall l c n c' r,
  delete_go c l multi n = (c', r) -> idx c' = idx c /\ sub (docs c') (docs c).
Proof.
  induction l as [|d l IH]; intros c n c' r.
  - simpl. intros H. injection H as <- <-. split; [reflexivity|apply sub_refl].
  - cbn [delete_go].
    destruct d as [| | | | | | |fs|];
      try (intros H; injection H as <- <-; split; [reflexivity|apply sub_refl]).
    destruct (assoc "_id" fs) as [id|];
      [|intros H; injection H as <- <-; split; [reflexivity|apply sub_refl]].
    destruct (store_get id (docs c));
      [|intros H; injection H as <- <-; split; [reflexivity|apply sub_refl]].
    destruct multi.
    + intros H. apply IH in H. destruct H as [H1 H2]. split; [exact H1|].
      eapply sub_trans; [|exact H2]. cbn [docs]. apply store_del_sub.
    + intros H. injection H as <- <-. split; [reflexivity|]. cbn [docs]. apply store_del_sub.
Qed.

Lemma delete_op_spec c f multi c' r :
  no_ttl (idx c) = true ->
  delete_op c f multi = (c', r) -> idx c' = idx c /\ sub (docs c') (docs c).
Proof.
  intros Hn. unfold delete_op.
  destruct f; try (intros H; injection H as <- <-; split; [reflexivity|apply sub_refl]).
  destruct (find_docs c (VDoc fs) []) as [[c1 l]|e] eqn:E;
    [|intros H; injection H as <- <-; split; [reflexivity|apply sub_refl]].
  apply find_docs_state in E; [|exact Hn]. subst c1.
  destruct (delete_go c l multi 0) as [c2 r2] eqn:E2.
  apply delete_go_spec in E2. intros H. injection H as <- <-. exact E2.
Qed.

(* ---------------------------------------------------------------- find_one_and_* *)
Definition fam_rel (k : fam_kind) (l l' : store) : Prop :=
  match k with FamDelete => sub l' l | _ => upd l l' end.

Lemma fam_rel_refl k l : fam_rel k l l.
Proof. destruct k; simpl; [apply sub_refl|apply upd_refl|apply upd_refl]. Qed.

Ltac fam_same := intros H; injection H as <- <-; split; [reflexivity|apply fam_rel_refl].

Lemma find_and_modify_spec pre5 c f proj sort k c' r :
  no_ttl (idx c) = true ->
  find_and_modify pre5 c f proj sort k = (c', r) ->
  idx c' = idx c /\ fam_rel k (docs c) (docs c').
Proof.
  intros Hn. unfold find_and_modify.
  destruct f as [| | | | | | |ffs|]; try fam_same.
  match goal with |- (match ?x with _ => _ end) = _ -> _ => destruct x as [[]|e] end; [|fam_same].
  match goal with |- (if ?x then _ else _) = _ -> _ => destruct x end; [fam_same|].
  destruct (find_one c (VDoc ffs) None sort) as [c1 [target|e]] eqn:F1;
    apply find_one_state in F1; try exact Hn; subst c1; [|fam_same].
  assert (Hfo : forall c0 q p s c1 r1, idx c0 = idx c -> find_one c0 q p s = (c1, r1) -> c1 = c0).
  { intros c0 q p s c1 r1 Hi. apply find_one_state. rewrite Hi. exact Hn. }
  destruct k as [|u ups aft|u ups aft]; cbn [fam_rel].
  all: repeat (match goal with
            | |- (match ?x with _ => _ end) = _ -> _ => destruct x eqn:?
            | |- (let (_, _) := ?x in _) = _ -> _ => destruct x eqn:?
            | |- (if ?x then _ else _) = _ -> _ => destruct x eqn:?
            end;
            repeat match goal with
            | H : find_one _ _ _ _ = (_, _) |- _ => apply Hfo in H; [subst|congruence]
            | H : (let (_, _) := ?x in _) = _ |- _ => destruct x eqn:?
            | H : (_, _) = (_, _) |- _ => injection H as ? ?; subst
            | H : delete_op _ _ _ = (_, _) |- _ => apply delete_op_spec in H; [destruct H|congruence]
            | H : update _ _ _ _ _ _ = (_, _) |- _ => apply update_spec in H; [destruct H|congruence]
            end); try discriminate.
  all: intros HH; injection HH as <- <-; (split; [congruence|]);
    try apply sub_refl; try apply upd_refl; try assumption.
Qed.

(* ---------------------------------------------------------------- invariant preservation *)
Lemma Inv_docs c c' : idx c' = idx c -> InvD (docs c') -> Inv c -> Inv c'.
Proof. intros Hi Hd [_ Hn]. split; [exact Hd|rewrite Hi; exact Hn]. Qed.

Lemma insert_doc_inv c d c' r : Inv c -> insert_doc c d = (c', r) -> Inv c'.
Proof.
  intros HI H. apply insert_doc_ins in H; [|exact (proj2 HI)]. destruct H as [Hi Hs].
  eapply Inv_docs; [exact Hi| |exact HI]. eapply InvD_ins; [exact Hs|exact (proj1 HI)].
Qed.

Lemma update_inv pre5 c f u multi upsert c' r :
  Inv c -> update pre5 c f u multi upsert = (c', r) -> Inv c'.
Proof.
  intros HI H. apply update_spec in H; [|exact (proj2 HI)]. destruct H as [Hi Hs].
  eapply Inv_docs; [exact Hi| |exact HI]. eapply InvD_upd; [exact Hs|exact (proj1 HI)].
Qed.

Lemma delete_op_inv c f multi c' r : Inv c -> delete_op c f multi = (c', r) -> Inv c'.
Proof.
  intros HI H. apply delete_op_spec in H; [|exact (proj2 HI)]. destruct H as [Hi Hs].
  eapply Inv_docs; [exact Hi| |exact HI]. eapply InvD_sub; [exact Hs|exact (proj1 HI)].
Qed.

Lemma insert_many_go_inv ordered : forall ds c index ids errs n c' r,
  Inv c -> insert_many_go c ds ordered index ids errs n = (c', r) -> Inv c'.
Proof.
  induction ds as [|d ds IH]; intros c index ids errs n c' r HI.
  - simpl. intros H. injection H as <- _. exact HI.
  - cbn [insert_many_go]. destruct (insert_doc c d) as [c1 r1] eqn:E1.
    apply insert_doc_inv in E1; [|exact HI].
    destruct r1 as [id|e].
    + apply IH. exact E1.
    + destruct (is_write_error e); [|intros H; injection H as <- _; exact E1].
      destruct ordered; [intros H; injection H as <- _; exact E1|].
      apply IH. exact E1.
Qed.

Lemma insert_many_inv c ds ordered c' r : Inv c -> insert_many c ds ordered = (c', r) -> Inv c'.
Proof.
  intros HI. unfold insert_many.
  destruct ds as [|d ds]; [intros H; injection H as <- _; exact HI|].
  destruct (negb (forallb is_doc (d :: ds))); [intros H; injection H as <- _; exact HI|].
  destruct (insert_many_go c (d :: ds) ordered 0 [] [] 0) as [c1 r1] eqn:E.
  apply insert_many_go_inv in E; [|exact HI].
  intros H. injection H as <- _. exact E.
Qed.

Lemma bulk_exec_inv pre5 c rq a c' o : Inv c -> bulk_exec pre5 c rq a = (c', o) -> Inv c'.
Proof.
  intros HI. unfold bulk_exec. destruct rq as [d|f u multi upsert|f u upsert|f multi].
  - destruct d; try (intros H; injection H as <- _; exact HI).
    destruct (insert_doc c (VDoc fs)) as [c1 r1] eqn:E. apply insert_doc_inv in E; [|exact HI].
    intros H. injection H as <- _. exact E.
  - destruct (update pre5 c f u multi upsert) as [c1 r1] eqn:E.
    apply update_inv in E; [|exact HI]. intros H. injection H as <- _. exact E.
  - destruct (update pre5 c f u false upsert) as [c1 r1] eqn:E.
    apply update_inv in E; [|exact HI]. intros H. injection H as <- _. exact E.
  - destruct (delete_op c f multi) as [c1 r1] eqn:E.
    apply delete_op_inv in E; [|exact HI]. intros H. injection H as <- _. exact E.
Qed.

Lemma bulk_go_inv pre5 ordered : forall rs c index a c' o,
  Inv c -> bulk_go pre5 c rs ordered index a = (c', o) -> Inv c'.
Proof.
  induction rs as [|rq rs IH]; intros c index a c' o HI.
  - simpl. intros H. injection H as <- _. exact HI.
  - cbn [bulk_go]. destruct (bulk_exec pre5 c rq a) as [c1 o1] eqn:E.
    apply bulk_exec_inv in E; [|exact HI].
    destruct o1 as [a'|e]; [apply IH; exact E|].
    destruct (is_write_error e); [|intros H; injection H as <- _; exact E].
    destruct ordered; [intros H; injection H as <- _; exact E|apply IH; exact E].
Qed.

Lemma bulk_write_inv pre5 c rs ordered c' r : Inv c -> bulk_write pre5 c rs ordered = (c', r) -> Inv c'.
Proof.
  intros HI. unfold bulk_write.
  match goal with |- (match ?x with _ => _ end) = _ -> _ => destruct x end;
    [|intros H; injection H as <- _; exact HI].
  destruct rs as [|rq rs]; [intros H; injection H as <- _; exact HI|].
  destruct (bulk_go pre5 c (rq :: rs) ordered 0 _) as [c1 o1] eqn:E.
  apply bulk_go_inv in E; [|exact HI]. intros H. injection H as <- _. exact E.
Qed.

(* ---------------------------------------------------------------- indexes *)
Lemma no_ttl_set_index i l :
  ittl i = None -> no_ttl l = true -> no_ttl (set_index i l) = true.
Proof.
  intros Hi. induction l as [|j l IH]; simpl; intros H.
  - rewrite Hi. reflexivity.
  - apply andb_true_iff in H. destruct H as [Hj Hl].
    destruct (String.eqb (iname j) (iname i)); simpl.
    + rewrite Hi, Hl. reflexivity.
    + rewrite Hj, (IH Hl). reflexivity.
Qed.

Lemma no_ttl_filter (p : index -> bool) l : no_ttl l = true -> no_ttl (List.filter p l) = true.
Proof.
  induction l as [|j l IH]; simpl; intros H; [reflexivity|].
  apply andb_true_iff in H. destruct H as [Hj Hl].
  destruct (p j); simpl; [rewrite Hj|]; apply IH; exact Hl.
Qed.

Definition ttl_free (o : op) : bool :=
  match o with
  | OCreateIndex _ _ _ (Some t) _ _ => is_null t
  | _ => true
  end.

Lemma create_index_inv c key unique sparse ttl partial name c' r :
  Inv c -> (match ttl with Some t => is_null t | None => true end) = true ->
  create_index c key unique sparse ttl partial name = (c', r) -> Inv c'.
Proof.
  intros HI Ht. unfold create_index.
  assert (Hnone : match ttl with Some VNull => None | _ => ttl end = None).
  { destruct ttl as [t|]; [|reflexivity]. destruct t; try discriminate Ht. reflexivity. }
  rewrite Hnone.
  destruct (negb (forallb _ key)); [intros H; injection H as <- _; exact HI|].
  match goal with |- (if ?x then _ else _) = _ -> _ => destruct x end;
    [intros H; injection H as <- _; exact HI|].
  destruct unique.
  - rewrite (expire_id c (proj2 HI)).
    destruct (has_dup_tuple _); intros H; injection H as <- _; [exact HI|].
    split; [exact (proj1 HI)|]. cbn [idx with_idx].
    apply no_ttl_set_index; [reflexivity|exact (proj2 HI)].
  - intros H; injection H as <- _.
    split; [exact (proj1 HI)|]. cbn [idx with_idx].
    apply no_ttl_set_index; [reflexivity|exact (proj2 HI)].
Qed.

Lemma drop_index_inv c name c' r : Inv c -> drop_index c name = (c', r) -> Inv c'.
Proof.
  intros HI. unfold drop_index. rewrite (expire_id c (proj2 HI)).
  destruct (find_index_by_name name (idx c)); intros H; injection H as <- _; [|exact HI].
  split; [exact (proj1 HI)|]. cbn [idx with_idx]. apply no_ttl_filter. exact (proj2 HI).
Qed.

(* ---------------------------------------------------------------- every step *)
Lemma fst_eq {A B} (p : A * B) a b : p = (a, b) -> fst p = a.
Proof. intros ->. reflexivity. Qed.

Lemma step_inv pre5 c o c' r :
  Inv c -> ttl_free o = true -> step pre5 c o = (c', r) -> Inv c'.
Proof.
  intros HI Ht. destruct o; cbn [step].
  - unfold insert_one. destruct (insert_doc c d) as [c1 r1] eqn:E.
    apply insert_doc_inv in E; [|exact HI]. intros H. injection H as <- _. exact E.
  - apply insert_many_inv. exact HI.
  - intros H. apply update_op_spec in H; [|exact (proj2 HI)]. destruct H as [Hi Hs].
    eapply Inv_docs; [exact Hi| |exact HI]. eapply InvD_upd; [exact Hs|exact (proj1 HI)].
  - intros H. apply replace_op_spec in H; [|exact (proj2 HI)]. destruct H as [Hi Hs].
    eapply Inv_docs; [exact Hi| |exact HI]. eapply InvD_upd; [exact Hs|exact (proj1 HI)].
  - apply delete_op_inv. exact HI.
  - intros H. apply fst_eq in H. rewrite find_op_state in H by exact (proj2 HI). subst. exact HI.
  - intros H. apply fst_eq in H. rewrite count_op_state in H by exact (proj2 HI). subst. exact HI.
  - intros H. apply fst_eq in H. rewrite distinct_op_state in H by exact (proj2 HI). subst. exact HI.
  - intros H. apply find_and_modify_spec in H; [|exact (proj2 HI)]. destruct H as [Hi Hs].
    eapply Inv_docs; [exact Hi| |exact HI].
    destruct k; cbn [fam_rel] in Hs.
    + eapply InvD_sub; [exact Hs|exact (proj1 HI)].
    + eapply InvD_upd; [exact Hs|exact (proj1 HI)].
    + eapply InvD_upd; [exact Hs|exact (proj1 HI)].
  - apply bulk_write_inv. exact HI.
  - apply create_index_inv; [exact HI|]. destruct ttl; exact Ht.
  - apply drop_index_inv. exact HI.
  - unfold drop_indexes. intros H. injection H as <- _. split; [exact (proj1 HI)|reflexivity].
  - unfold index_information. destruct (is_created c); intros H; injection H as <- _; exact HI.
  - unfold drop_coll. intros H. injection H as <- _. split; [exact InvD_nil|reflexivity].
  - intros H. injection H as <- _. exact HI.
Qed.
