(* C14/C10 proofs, part 2: the invariant (no TTL index, pairwise different keys) is
   preserved by every operation; reads do not change the state. *)
From Coq Require Import ZArith List String Bool Ascii Lia.
From Verif Require Import Value PyEq BsonOrder Path Filter Update Project Coll HistCheck HistProps.
From Verif Require Import HistGuards C01Values C14Base.
Import ListNotations.
Open Scope Z_scope.
Open Scope string_scope.
Open Scope list_scope.

Ltac dm H := match type of H with context [match ?x with _ => _ end] => destruct x eqn:? end.
Ltac fin H := inversion H; subst; clear H.

Lemma Inv_oid c n : Inv c -> Inv (mkColl (docs c) (idx c) (forced c) n (now c) (odocs c)).
Proof. intros [H1 H2]. split; assumption. Qed.
Lemma Inv_odocs c o : Inv c -> Inv (mkColl (docs c) (idx c) (forced c) (next_oid c) (now c) o).
Proof. intros [H1 H2]. split; assumption. Qed.
Lemma Inv_clock c t : Inv c -> Inv (mkColl (docs c) (idx c) (forced c) (next_oid c) t (odocs c)).
Proof. intros [H1 H2]. split; assumption. Qed.

(* ---------------------------------------------------------------- insert *)
Lemma insert_doc_spec c d c' r :
  Inv c -> insert_doc c d = (c', r) ->
  Inv c' /\ (forall id, r = Ok id -> exists data, docs c' = docs c ++ [(id, data)])
  /\ (forall e, r = Err e -> List.length (docs c') = List.length (docs c) \/ True).
Proof.
  intros HI H. unfold insert_doc in H.
  destruct d as [| | | | | | | fs |]; try (fin H; split; [assumption|split; [discriminate|auto]]).
  set (c0id := match assoc "_id" fs with
               | Some i => (c, fs, patch i)
               | None => (mkColl (docs c) (idx c) (forced c) (next_oid c + 1) (now c) (odocs c),
                          fs ++ [("_id", VOid (next_oid c))], VOid (next_oid c))
               end) in H.
  assert (H0 : Inv (fst (fst c0id)) /\ docs (fst (fst c0id)) = docs c).
  { unfold c0id. destruct (assoc "_id" fs); simpl; split; auto; apply Inv_oid; exact HI. }
  destruct c0id as [[c0 fs1] id]. simpl in H0. destruct H0 as [HI0 Hd0].
  destruct (negb (id_modelled id)).
  { destruct id; fin H; (split; [assumption|split; [discriminate|auto]]). }
  rewrite (expire_no_ttl c0 (proj1 HI0)) in H.
  destruct (store_get id (docs c0)) eqn:Hg.
  { fin H. split; [assumption|split; [discriminate|auto]]. }
  set (data := patch (VDoc fs1)) in H.
  set (c2 := with_docs_w c0 (docs c0 ++ [(id, data)])) in H.
  assert (HI2 : Inv c2).
  { apply Inv_with_docs_w; [exact HI0|]. apply knd_app_one; [exact (proj2 HI0)|exact Hg]. }
  destruct (ensure_uniques c2 data) as [touched|e].
  - rewrite (expire_if_no_ttl touched c2 (proj1 HI2)) in H. fin H.
    split; [exact HI2|]. split; [|auto].
    intros id' E. injection E as <-. exists data. unfold c2. simpl. rewrite Hd0. reflexivity.
  - rewrite (expire_no_ttl c2 (proj1 HI2)) in H. fin H.
    split; [|split; [discriminate|auto]].
    apply Inv_with_docs; [exact HI2|]. apply knd_store_del. exact (proj2 HI2).
Qed.

Lemma insert_doc_inv c d : Inv c -> Inv (fst (insert_doc c d)).
Proof.
  intro HI. destruct (insert_doc c d) as [c' r] eqn:E.
  exact (proj1 (insert_doc_spec c d c' r HI E)).
Qed.

Lemma insert_one_inv c d : Inv c -> Inv (fst (insert_one c d)).
Proof.
  intro HI. unfold insert_one. pose proof (insert_doc_inv c d HI) as H.
  destruct (insert_doc c d) as [c' r]. exact H.
Qed.

Lemma insert_many_go_inv ordered : forall ds c index ids errs n,
  Inv c -> Inv (fst (insert_many_go c ds ordered index ids errs n)).
Proof.
  induction ds as [| d ds IH]; intros c index ids errs n HI; simpl; [exact HI|].
  pose proof (insert_doc_inv c d HI) as H.
  destruct (insert_doc c d) as [c' r]. simpl in H.
  destruct r as [id|e]; [apply IH; exact H|].
  destruct (is_write_error e); [|exact H].
  destruct ordered; [exact H|apply IH; exact H].
Qed.

Lemma insert_many_inv c ds ordered : Inv c -> Inv (fst (insert_many c ds ordered)).
Proof.
  intro HI. unfold insert_many. destruct ds as [| d ds]; [exact HI|].
  destruct (negb (forallb is_doc (d :: ds))); [exact HI|].
  pose proof (insert_many_go_inv ordered (d :: ds) c 0 [] [] 0 HI) as H.
  destruct (insert_many_go c (d :: ds) ordered 0 [] [] 0) as [c' r]. exact H.
Qed.

(* ---------------------------------------------------------------- update *)
Lemma update_loop_inv spec upd multi : forall todo c m md,
  Inv c -> Inv (fst (update_loop c spec upd multi todo m md)).
Proof.
  induction todo as [| [k d] todo IH]; intros c m md HI; cbn [update_loop]; [exact HI|].
  destruct (filter_applies spec d) as [[|]|e]; [|apply IH; exact HI|exact HI].
  destruct (apply_update spec upd false (now c) d) as [d'|e]; [|exact HI].
  destruct (negb (negb (py_eq d' d))).
  { destruct (negb (value_eqb d' d) && py_in k (odocs c)); [exact HI|].
    destruct multi; [apply IH; exact HI|exact HI]. }
  match goal with |- context [if negb ?b then _ else _] => destruct (negb b) end; [exact HI|].
  destruct (match d with VDoc fs => assoc "_id" fs | _ => None end); [|exact HI].
  set (c1 := with_docs_w c (store_set k d' (docs c))).
  assert (HI1 : Inv c1).
  { apply Inv_with_docs_w; [exact HI|]. apply knd_store_set. exact (proj2 HI). }
  destruct (ensure_uniques c1 d') as [touched|e].
  - rewrite (expire_if_no_ttl touched c1 (proj1 HI1)).
    destruct multi; [apply IH; exact HI1|exact HI1].
  - destruct e; try exact HI1;
    (rewrite (expire_no_ttl c1 (proj1 HI1)); simpl;
     apply Inv_with_docs; [exact HI1|]; apply knd_store_set; exact (proj2 HI1)).
Qed.

Lemma update_inv pre5 c f u multi upsert : Inv c -> Inv (fst (update pre5 c f u multi upsert)).
Proof.
  intro HI. unfold update.
  destruct (patch f) as [| | | | | | | sfs |]; try exact HI.
  destruct (patch u) as [| | | | | | | ufs |] eqn:Eu; try exact HI.
  destruct (empty_operator pre5 (VDoc ufs)); [exact HI|].
  rewrite (expire_no_ttl c (proj1 HI)).
  destruct (match docs c with [] => filter_applies (VDoc sfs) (VDoc []) | _ => Ok true end);
    [|exact HI].
  pose proof (update_loop_inv (VDoc sfs) (VDoc ufs) multi (docs c) c 0 0 HI) as H2.
  destruct (update_loop c (VDoc sfs) (VDoc ufs) multi (docs c) 0 0) as [c2 r]. simpl in H2.
  destruct r as [[matched modified]|e]; [|exact H2].
  destruct (negb upsert || negb (matched =?? 0)); [exact H2|].
  set (c3id := match (match assoc "_id" sfs with
                      | Some i => if is_null i then None else Some i | None => None end) with
               | Some i => (c2, i)
               | None => match (match assoc "_id" ufs with
                                | Some i => if is_null i then None else Some i | None => None end) with
                         | Some j => (c2, j)
                         | None => (mkColl (docs c2) (idx c2) (forced c2) (next_oid c2 + 1) (now c2) (odocs c2),
                                    VOid (next_oid c2))
                         end
               end).
  assert (H3 : Inv (fst c3id)).
  { unfold c3id.
    destruct (match assoc "_id" sfs with Some i => if is_null i then None else Some i | None => None end);
      [exact H2|].
    destruct (match assoc "_id" ufs with Some i => if is_null i then None else Some i | None => None end);
      [exact H2|]. apply Inv_oid. exact H2. }
  destruct c3id as [c3 id]. simpl in H3.
  destruct (expand_dots (set_key "_id" id sfs)) as [expanded|e]; [|exact H3].
  destruct (apply_update (VDoc sfs) (VDoc ufs) true (now c3) (fst (discard_ops (VDoc expanded))))
    as [d'|e]; [|exact H3].
  pose proof (insert_doc_inv c3 d' H3) as H4.
  destruct (insert_doc c3 d') as [c4 ir]. simpl in H4.
  destruct ir as [new_id|e]; [|exact H4].
  apply Inv_odocs. exact H4.
Qed.

Lemma update_op_inv pre5 c f u multi upsert :
  Inv c -> Inv (fst (update_op pre5 c f u multi upsert)).
Proof.
  intro HI. unfold update_op. destruct u; try exact HI.
  destruct (first_key_dollar (VDoc fs)) as [[|]|]; try exact HI. apply update_inv. exact HI.
Qed.

Lemma replace_op_inv pre5 c f u upsert : Inv c -> Inv (fst (replace_op pre5 c f u upsert)).
Proof.
  intro HI. unfold replace_op. destruct u; try exact HI.
  destruct (first_key_dollar (VDoc fs)) as [[|]|]; try exact HI; apply update_inv; exact HI.
Qed.

(* ---------------------------------------------------------------- reads *)
Lemma find_docs_spec c f sort c' l :
  Inv c -> find_docs c f sort = Ok (c', l) ->
  c' = c /\ exists m, scan (patch f) (docs c) = Ok m /\ sort_docs sort (map snd m) = Ok l.
Proof.
  intros HI H. unfold find_docs in H. destruct f; try discriminate.
  destruct (iter_documents c (patch (VDoc fs))) as [r|e] eqn:E; simpl in H; [|discriminate].
  destruct (iter_documents_no_ttl c _ r (proj1 HI) E) as [H1 H2].
  destruct (sort_docs sort (map snd (snd r))) as [s|e] eqn:Es; simpl in H; [|discriminate].
  fin H. split; [reflexivity|]. exists (snd r). split; assumption.
Qed.

Lemma find_op_state c f proj sort skip limit :
  Inv c -> fst (find_op c f proj sort skip limit) = c.
Proof.
  intro HI. unfold find_op. destruct (find_docs c f sort) as [[c' l]|e] eqn:E; [|reflexivity].
  destruct (find_docs_spec c f sort c' l HI E) as [-> _].
  destruct (project_all proj l); reflexivity.
Qed.

Lemma find_one_state c f proj sort : Inv c -> fst (find_one c f proj sort) = c.
Proof.
  intro HI. unfold find_one. pose proof (find_op_state c f proj sort 0 0 HI) as H.
  destruct (find_op c f proj sort 0 0) as [c' r]. simpl in H. subst c'.
  destruct r as [v|e]; [|reflexivity]. destruct v; try reflexivity. destruct xs; reflexivity.
Qed.

Lemma count_op_state c f skip limit : Inv c -> fst (count_op c f skip limit) = c.
Proof.
  intro HI. unfold count_op.
  assert (A : forall fs, match iter_documents c (patch (VDoc fs)) with
                         | Ok (c', _) => c' = c | Err _ => True end).
  { intro fs. destruct (iter_documents c (patch (VDoc fs))) as [[c' m]|e] eqn:E; [|exact I].
    exact (proj1 (iter_documents_no_ttl c _ _ (proj1 HI) E)). }
  destruct limit as [l|].
  - destruct (Z.leb l 0); [reflexivity|]. destruct f; try reflexivity.
    specialize (A fs). destruct (iter_documents c (patch (VDoc fs))) as [[c' m]|e]; simpl; auto.
  - destruct f; try reflexivity.
    specialize (A fs). destruct (iter_documents c (patch (VDoc fs))) as [[c' m]|e]; simpl; auto.
Qed.

Lemma distinct_op_state c key f : Inv c -> fst (distinct_op c key f) = c.
Proof.
  intro HI. unfold distinct_op. destruct (negb (path_modelled (split_dots key))); [reflexivity|].
  destruct (find_docs c f []) as [[c' l]|e] eqn:E; [|reflexivity].
  destruct (find_docs_spec c f [] c' l HI E) as [-> _].
  match goal with |- context [if ?b then _ else _] => destruct b end; reflexivity.
Qed.

(* ---------------------------------------------------------------- delete *)
Lemma delete_go_inv multi : forall l c n, Inv c -> Inv (fst (delete_go c l multi n)).
Proof.
  induction l as [| d l IH]; intros c n HI; simpl; [exact HI|].
  destruct d; try exact HI. destruct (assoc "_id" fs) as [id|]; [|exact HI].
  destruct (store_get id (docs c)); [|exact HI].
  set (c' := mkColl (store_del id (docs c)) (idx c) (forced c) (next_oid c) (now c)
                    (List.filter (fun k => negb (py_eq k id)) (odocs c))).
  assert (HI' : Inv c').
  { split; [exact (proj1 HI)|]. simpl. apply knd_store_del. exact (proj2 HI). }
  destruct multi; [apply IH; exact HI'|exact HI'].
Qed.

Lemma delete_op_inv c f multi : Inv c -> Inv (fst (delete_op c f multi)).
Proof.
  intro HI. unfold delete_op. destruct f; try exact HI.
  destruct (find_docs c (VDoc fs) []) as [[c1 l]|e] eqn:E; [|exact HI].
  destruct (find_docs_spec c _ [] c1 l HI E) as [-> _].
  pose proof (delete_go_inv multi l c 0 HI) as H.
  destruct (delete_go c l multi 0) as [c2 r]. exact H.
Qed.

(* ---------------------------------------------------------------- find_one_and_* *)
Lemma find_and_modify_inv pre5 c f proj sort k :
  Inv c -> Inv (fst (find_and_modify pre5 c f proj sort k)).
Proof.
  intro HI. unfold find_and_modify. destruct f; try exact HI.
  match goal with |- context [match ?v with Ok _ => _ | Err e => (c, Err e) end] => destruct v end;
    [|exact HI].
  match goal with |- context [if ?b then (c, Err EValue) else _] => destruct b end; [exact HI|].
  pose proof (find_one_state c (VDoc fs) None sort HI) as H1.
  destruct (find_one c (VDoc fs) None sort) as [c1 r1]. simpl in H1. subst c1.
  destruct r1 as [target|e]; [|exact HI].
  set (upsert := match k with FamDelete => false | FamUpdate _ u _ | FamReplace _ u _ => u end).
  assert (G : forall query,
    Inv (fst (let '(c2, old_r) := match target with
                                  | Some _ => find_one c query proj []
                                  | None => (c, Ok None)
                                  end in
              match old_r with
              | Err e => (c2, Err e)
              | Ok old =>
                  let '(c3, wr, query') :=
                    match k with
                    | FamDelete => let '(c', r) := delete_op c2 query false in (c', r, query)
                    | FamUpdate u _ _ | FamReplace u _ _ =>
                        let '(c', r) := update pre5 c2 query u false upsert in
                        (c', r,
                         match r with
                         | Ok (VDoc rfs) => match assoc "upserted_id" rfs with
                                            | Some i => if truthy i then VDoc [("_id", i)] else query
                                            | None => query end
                         | _ => query
                         end)
                    end in
                  match wr with
                  | Err e => (c3, Err e)
                  | Ok _ =>
                      if match k with FamDelete => false | FamUpdate _ _ a | FamReplace _ _ a => a end then
                        match find_one c3 query' proj [] with
                        | (c4, Ok r) => (c4, Ok (opt_to_value r))
                        | (c4, Err e) => (c4, Err e)
                        end
                      else (c3, Ok (opt_to_value old))
                  end
              end))).
  { intro query.
    assert (H2 : fst (match target with
                      | Some _ => find_one c query proj []
                      | None => (c, Ok None) end) = c).
    { destruct target; [apply find_one_state; exact HI|reflexivity]. }
    destruct (match target with Some _ => find_one c query proj [] | None => (c, Ok None) end)
      as [c2 old_r]. simpl in H2. subst c2.
    destruct old_r as [old|e]; [|exact HI].
    assert (H3 : forall (c3 : coll) (wr : res value) (query' : value), Inv c3 ->
       Inv (fst (match wr with
                 | Err e => (c3, Err e)
                 | Ok _ =>
                     if match k with FamDelete => false | FamUpdate _ _ a | FamReplace _ _ a => a end then
                       match find_one c3 query' proj [] with
                       | (c4, Ok r) => (c4, Ok (opt_to_value r))
                       | (c4, Err e) => (c4, Err e)
                       end
                     else (c3, Ok (opt_to_value old))
                 end))).
    { intros c3 wr query' HI3. destruct wr; [|exact HI3].
      destruct (match k with FamDelete => false | FamUpdate _ _ a | FamReplace _ _ a => a end);
        [|exact HI3].
      pose proof (find_one_state c3 query' proj [] HI3) as H4.
      destruct (find_one c3 query' proj []) as [c4 r4]. simpl in H4. subst c4.
      destruct r4; exact HI3. }
    destruct k as [| u ups aft | u ups aft].
    - pose proof (delete_op_inv c query false HI) as H5.
      destruct (delete_op c query false) as [c' r]. apply H3; first [exact H5 | exact VNull].
    - pose proof (update_inv pre5 c query u false upsert HI) as H5.
      destruct (update pre5 c query u false upsert) as [c' r]. apply H3; first [exact H5 | exact VNull].
    - pose proof (update_inv pre5 c query u false upsert HI) as H5.
      destruct (update pre5 c query u false upsert) as [c' r]. apply H3; first [exact H5 | exact VNull]. }
  destruct target as [t|].
  - destruct t; try apply G; try exact HI.
    destruct (assoc "_id" fs0); [apply G|exact HI].
  - fold upsert. destruct upsert eqn:Eu; [|exact HI]. apply G.
Qed.

(* ---------------------------------------------------------------- bulk_write *)
Lemma bulk_exec_inv pre5 c r a : Inv c -> Inv (fst (bulk_exec pre5 c r a)).
Proof.
  intro HI. unfold bulk_exec. destruct r as [d | f u multi upsert | f u upsert | f multi].
  - destruct d; try exact HI. pose proof (insert_doc_inv c (VDoc fs) HI) as H.
    destruct (insert_doc c (VDoc fs)) as [c' o]. exact H.
  - pose proof (update_inv pre5 c f u multi upsert HI) as H.
    destruct (update pre5 c f u multi upsert) as [c' o]. exact H.
  - pose proof (update_inv pre5 c f u false upsert HI) as H.
    destruct (update pre5 c f u false upsert) as [c' o]. exact H.
  - pose proof (delete_op_inv c f multi HI) as H.
    destruct (delete_op c f multi) as [c' o]. exact H.
Qed.

Lemma bulk_go_inv pre5 ordered : forall rs c index a,
  Inv c -> Inv (fst (bulk_go pre5 c rs ordered index a)).
Proof.
  induction rs as [| r rs IH]; intros c index a HI; simpl; [exact HI|].
  pose proof (bulk_exec_inv pre5 c r a HI) as H.
  destruct (bulk_exec pre5 c r a) as [c' o]. simpl in H.
  destruct o as [a'|e]; [apply IH; exact H|].
  destruct (is_write_error e); [|exact H].
  destruct ordered; [exact H|apply IH; exact H].
Qed.

Lemma bulk_write_inv pre5 c rs ordered : Inv c -> Inv (fst (bulk_write pre5 c rs ordered)).
Proof.
  intro HI. unfold bulk_write.
  match goal with |- context [match ?v with Ok _ => _ | Err e => (c, Err e) end] => destruct v end;
    [|exact HI].
  destruct rs as [| r rs]; [exact HI|].
  pose proof (bulk_go_inv pre5 ordered (r :: rs) c 0 (mkAcc 0 0 0 0 0 [] []) HI) as H.
  destruct (bulk_go pre5 c (r :: rs) ordered 0 (mkAcc 0 0 0 0 0 [] [])) as [c' o]. exact H.
Qed.

(* ---------------------------------------------------------------- indexes *)
Lemma set_index_no_ttl i l :
  ittl i = None -> Forall (fun j => ittl j = None) l -> Forall (fun j => ittl j = None) (set_index i l).
Proof.
  intros Hi H. induction H as [| j l Hj Hl IH]; simpl.
  - constructor; [exact Hi|constructor].
  - destruct (String.eqb (iname j) (iname i)); constructor; auto.
Qed.

Lemma create_index_inv c key unique sparse ttl partial name :
  c14_ttl_arg ttl = false -> Inv c -> Inv (fst (create_index c key unique sparse ttl partial name)).
Proof.
  intros Ht HI. unfold create_index.
  set (ttl' := match ttl with Some VNull => None | _ => ttl end).
  assert (Ht' : ttl' = None).
  { unfold ttl'. destruct ttl as [v|]; [|reflexivity]. destruct v; try discriminate. reflexivity. }
  match goal with |- context [if ?b then (c, Err EUnmodelled) else _] => destruct b end; [exact HI|].
  match goal with |- context [if ?b then (c, Err EOpFail) else _] => destruct b end; [exact HI|].
  destruct unique.
  - rewrite (expire_no_ttl c (proj1 HI)).
    match goal with |- context [if ?b then (c, Err EDup) else _] => destruct b end; [exact HI|].
    split; [|exact (proj2 HI)]. unfold no_ttl. simpl.
    apply set_index_no_ttl; [simpl; exact Ht'|exact (proj1 HI)].
  - split; [|exact (proj2 HI)]. unfold no_ttl. simpl.
    apply set_index_no_ttl; [simpl; exact Ht'|exact (proj1 HI)].
Qed.

Lemma drop_index_inv c name : Inv c -> Inv (fst (drop_index c name)).
Proof.
  intro HI. unfold drop_index. rewrite (expire_no_ttl c (proj1 HI)).
  destruct (find_index_by_name name (idx c)); [|exact HI].
  split; [|exact (proj2 HI)]. unfold no_ttl. simpl.
  pose proof (proj1 HI) as H. unfold no_ttl in H. rewrite Forall_forall in *.
  intros j Hj. apply filter_In in Hj. apply H. exact (proj1 Hj).
Qed.

(* ---------------------------------------------------------------- every operation *)
Lemma step_inv pre5 c o : c14_ttl_op o = false -> Inv c -> Inv (fst (step pre5 c o)).
Proof.
  intros Ht HI. destruct o; simpl.
  - apply insert_one_inv; exact HI.
  - apply insert_many_inv; exact HI.
  - apply update_op_inv; exact HI.
  - apply replace_op_inv; exact HI.
  - apply delete_op_inv; exact HI.
  - rewrite find_op_state; exact HI.
  - rewrite count_op_state; exact HI.
  - rewrite distinct_op_state; exact HI.
  - apply find_and_modify_inv; exact HI.
  - apply bulk_write_inv; exact HI.
  - apply create_index_inv; [exact Ht|exact HI].
  - apply drop_index_inv; exact HI.
  - split; [constructor|exact (proj2 HI)].
  - unfold index_information. destruct (is_created c); exact HI.
  - split; [constructor|exact I].
  - apply Inv_clock. exact HI.
Qed.
