(* C07 proofs, part 2: the state invariant of the ownership layer, its preservation by hstep,
   and the theorems about a run.

   Inv s : the allocator is positive, every identity in the ownership table is a positive
           number below the allocator, and the stored documents are pairwise apart.
   The proof of preservation needs three more facts about the state, all value-level:
     - the table follows the store (same keys, same order)            [free: restore builds it so]
     - the store keys are pairwise different under Python ==          [C08Store.step_nd]
     - the store keys are well-formed (no dict with a repeated key)   [PREMISE, see below]
   The last one cannot be dropped: on values that no Python program can build (a sub-document
   _id with the same key twice) Python == as modelled by py_eq is not symmetric, two stored
   documents can become equal under different keys, and `restore` then hands both the entry
   of one old key (Refuted/C07.v, nonwf_keys_alias). *)
From Coq Require Import ZArith List String Bool Lia.
From Verif Require Import Value PyEq Coll Expr Pipeline Heap.
From Verif Require C08Store.
From Verif Require Import C07Base.
Import ListNotations.
Open Scope Z_scope.
Open Scope list_scope.

(* ---------------------------------------------------------------- the run *)
Fixpoint hrun (fl : cpflags) (pre5 : bool) (s : hstate) (hs : list (hop * ids))
  : hstate * list hout :=
  match hs with
  | [] => (s, [])
  | (h, args) :: hs' =>
      let out := hstep fl pre5 s h args in
      let (sf, outs) := hrun fl pre5 (ho_state out) hs' in
      (sf, out :: outs)
  end.

(* every store key met before a collection operation is a well-formed value.  This speaks
   about the value-level model only (Coll.step), not about the ownership layer. *)
Definition keys_wf (c : coll) : bool := forallb (fun kd => wf_value (fst kd)) (docs c).

Fixpoint run_keys_wf (pre5 : bool) (c : coll) (hs : list (hop * ids)) : bool :=
  match hs with
  | [] => true
  | (HColl o, _) :: hs' => keys_wf c && run_keys_wf pre5 (fst (step pre5 c o)) hs'
  | (HAggregate _, _) :: hs' => run_keys_wf pre5 c hs'
  end.

Definition args_negative (hs : list (hop * ids)) : Prop :=
  Forall (fun ha => Forall (fun x => x < 0) (snd ha)) hs.

(* ---------------------------------------------------------------- the invariant *)
Definition Inv (s : hstate) : Prop :=
  h_next s > 0
  /\ Forall (fun ks => Forall (fun x => 0 < x < h_next s) (snd ks)) (h_own s)
  /\ pairwise_apart (map snd (h_own s)) = true.

Definition Tracks (s : hstate) : Prop := map fst (h_own s) = map fst (docs (h_coll s)).

Definition Full (s : hstate) : Prop :=
  Inv s /\ Tracks s /\ C08Store.store_nd (docs (h_coll s)).

Lemma Full_init : Full h_init.
Proof.
  split; [|split].
  - split; [simpl; lia|]. split; [constructor|reflexivity].
  - reflexivity.
  - exact I.
Qed.

(* ---------------------------------------------------------------- value level untouched *)
Lemma hstep_coll_values fl pre5 s o args :
  h_coll (ho_state (hstep fl pre5 s (HColl o) args)) = fst (step pre5 (h_coll s) o)
  /\ ho_result (hstep fl pre5 s (HColl o) args) = snd (step pre5 (h_coll s) o).
Proof.
  unfold hstep. destruct (step pre5 (h_coll s) o) as [c' r].
  destruct (restore fl o (docs (h_coll s)) (h_own s) (docs c') args (h_next s)) as [own' n1].
  split; reflexivity.
Qed.

Lemma hstep_aggregate_values fl pre5 s p args :
  h_coll (ho_state (hstep fl pre5 s (HAggregate p) args)) = h_coll s
  /\ h_own (ho_state (hstep fl pre5 s (HAggregate p) args)) = h_own s
  /\ ho_result (hstep fl pre5 s (HAggregate p) args)
     = match aggregate [("c"%string, map snd (docs (h_coll s)))] (map snd (docs (h_coll s))) p with
       | Ok l => Ok (VArr l)
       | Err e => Err e
       end.
Proof. split; [|split]; reflexivity. Qed.

Lemma values_unchanged fl pre5 s :
  (forall o args,
     h_coll (ho_state (hstep fl pre5 s (HColl o) args)) = fst (step pre5 (h_coll s) o)
     /\ ho_result (hstep fl pre5 s (HColl o) args) = snd (step pre5 (h_coll s) o))
  /\ (forall p args,
        h_coll (ho_state (hstep fl pre5 s (HAggregate p) args)) = h_coll s
        /\ h_own (ho_state (hstep fl pre5 s (HAggregate p) args)) = h_own s).
Proof.
  split.
  - intros o args. apply hstep_coll_values.
  - intros p args. split; reflexivity.
Qed.

(* ---------------------------------------------------------------- the table follows the store *)
Lemma restore_keys fl o od oo args : forall nd next,
  map fst (fst (restore fl o od oo nd args next)) = map fst nd.
Proof.
  induction nd as [|[k d] rest IH]; intros next; [reflexivity|].
  rewrite restore_cons.
  destruct (if match store_get k od with Some d0 => value_eqb d0 d | None => false end
            then own_get k oo else None) as [s|].
  - specialize (IH next). destruct (restore fl o od oo rest args next) as [r n].
    simpl in *. rewrite IH. reflexivity.
  - specialize (IH (next + 1)). destruct (restore fl o od oo rest args (next + 1)) as [r n].
    simpl in *. rewrite IH. reflexivity.
Qed.

Lemma store_tracks fl pre5 s o args :
  Tracks (ho_state (hstep fl pre5 s (HColl o) args)).
Proof.
  unfold Tracks, hstep. destruct (step pre5 (h_coll s) o) as [c' r].
  pose proof (restore_keys fl o (docs (h_coll s)) (h_own s) args (docs c') (h_next s)) as Hk.
  destruct (restore fl o (docs (h_coll s)) (h_own s) (docs c') args (h_next s)) as [own' n1].
  exact Hk.
Qed.

Lemma hstep_tracks fl pre5 s h args : Tracks s -> Tracks (ho_state (hstep fl pre5 s h args)).
Proof.
  intros Ht. destruct h as [o|p]; [apply store_tracks|exact Ht].
Qed.

Lemma hrun_tracks fl pre5 : forall hs s, Tracks s ->
  Forall (fun out => Tracks (ho_state out)) (snd (hrun fl pre5 s hs)).
Proof.
  induction hs as [|[h args] hs IH]; intros s Ht; [constructor|].
  cbn [hrun]. pose proof (hstep_tracks fl pre5 s h args Ht) as Ht'.
  specialize (IH _ Ht'). destruct (hrun fl pre5 (ho_state (hstep fl pre5 s h args)) hs) as [sf outs].
  constructor; assumption.
Qed.

(* ---------------------------------------------------------------- one step *)
Lemma keys_wf_own_of s : Tracks s -> keys_wf (h_coll s) = true -> keys_wf_own (h_own s).
Proof.
  unfold Tracks, keys_wf, keys_wf_own. intros Ht Hw. rewrite forallb_forall in Hw.
  apply Forall_forall. intros ks Hin.
  assert (Hk : In (fst ks) (map fst (docs (h_coll s)))) by (rewrite <- Ht; apply in_map; exact Hin).
  apply in_map_iff in Hk. destruct Hk as (kd & E & Hkd). rewrite <- E. exact (Hw _ Hkd).
Qed.

Lemma apart_after_intro own args result n :
  pw_disj (map snd own) ->
  Forall (fun ks => Forall (fun x => 0 < x < n) (snd ks)) own ->
  Forall (fun x => x < 0) args -> result = [n] ->
  apart_after own args result = true.
Proof.
  intros Hpw Hb Hargs ->. unfold apart_after. apply andb_true_iff. split.
  - apply pairwise_apart_iff. exact Hpw.
  - apply forallb_forall. intros t Ht. apply in_map_iff in Ht. destruct Ht as (ks & <- & Hin).
    rewrite Forall_forall in Hb. specialize (Hb _ Hin). rewrite Forall_forall in Hb.
    rewrite Forall_forall in Hargs.
    apply andb_true_iff. split; apply negb_true_iff; apply meets_false; intros x Hx1 Hx2.
    + specialize (Hb x Hx1). specialize (Hargs x Hx2). lia.
    + specialize (Hb x Hx1). destruct Hx2 as [E|[]]. lia.
Qed.

Lemma hstep_full fl pre5 s h args :
  flags_on fl -> Full s ->
  match h with HColl _ => keys_wf (h_coll s) = true | HAggregate _ => True end ->
  Forall (fun x => x < 0) args ->
  Full (ho_state (hstep fl pre5 s h args))
  /\ apart_after (h_own (ho_state (hstep fl pre5 s h args))) args
                 (ho_result_ids (hstep fl pre5 s h args)) = true.
Proof.
  intros Hon [[Hpos [Hb Hpa]] [Ht Hnd]] Hwf Hargs.
  apply pairwise_apart_iff in Hpa.
  destruct h as [o|p].
  - pose proof (store_tracks fl pre5 s o args) as Ht'.
    unfold hstep in *. destruct (step pre5 (h_coll s) o) as [c' r] eqn:Es.
    destruct (restore fl o (docs (h_coll s)) (h_own s) (docs c') args (h_next s)) as [own' n1] eqn:Er.
    cbn [ho_state ho_result_ids h_own h_coll h_next] in *.
    assert (Hnd' : C08Store.store_nd (docs c')).
    { exact (proj1 (C08Store.step_nd (now (h_coll s)) pre5 (h_coll s) o c' r Es (conj Hnd eq_refl))). }
    pose proof (keys_wf_own_of s Ht Hwf) as Hkw.
    destruct (restore_spec fl o _ _ args Hon _ _ _ _ Er) as (Hle & _ & Hfrom).
    assert (Hpw' : pw_disj (map snd own')).
    { apply (restore_pw fl o (docs (h_coll s)) (h_own s) args (h_next s) Hon Hkw Hpa Hb
                        (docs c') (h_next s) own' n1); [lia|exact Hnd'|exact Er]. }
    assert (Hb1 : Forall (fun ks => Forall (fun x => 0 < x < n1) (snd ks)) own').
    { eapply Forall_impl; [|exact Hfrom]. intros kt Hkt. apply Forall_forall. intros x Hx.
      destruct (Hkt x Hx) as [Hr|(s0 & Hs0 & Hxs)]; [lia|].
      pose proof (below_get (h_next s) (h_own s) (fst kt) s0 x Hb Hs0 Hxs). lia. }
    split.
    + split; [|split; [exact Ht'|exact Hnd']].
      split; [cbn; lia|]. split; [|apply pairwise_apart_iff; exact Hpw'].
      cbn. eapply Forall_impl; [|exact Hb1]. intros kt Hkt.
      eapply Forall_impl; [|exact Hkt]. intros x Hx. cbv beta in Hx. lia.
    + apply (apart_after_intro own' args _ n1 Hpw' Hb1 Hargs).
      apply result_ids_copy. exact Hon.
  - cbn [hstep ho_state ho_result_ids h_own h_coll h_next].
    split.
    + split; [|split; [exact Ht|exact Hnd]].
      split; [cbn; lia|]. split; [|apply pairwise_apart_iff; exact Hpa].
      cbn. eapply Forall_impl; [|exact Hb]. intros kt Hkt.
      eapply Forall_impl; [|exact Hkt]. intros x Hx. cbv beta in Hx. lia.
    + apply (apart_after_intro (h_own s) args _ (h_next s) Hpa Hb Hargs).
      destruct Hon as [_ _ _ Hr _ _ Ha Hl]. rewrite Ha, Hr, Hl. reflexivity.
Qed.

(* ---------------------------------------------------------------- a run *)
Definition step_apart (ha : hop * ids) (out : hout) : Prop :=
  apart_after (h_own (ho_state out)) (snd ha) (ho_result_ids out) = true.

Lemma hrun_full fl pre5 : flags_on fl -> forall hs s,
  Full s -> args_negative hs -> run_keys_wf pre5 (h_coll s) hs = true ->
  Forall2 step_apart hs (snd (hrun fl pre5 s hs))
  /\ Forall (fun out => Inv (ho_state out)) (snd (hrun fl pre5 s hs))
  /\ Full (fst (hrun fl pre5 s hs)).
Proof.
  intros Hon. induction hs as [|[h args] hs IH]; intros s Hf Hneg Hwf.
  - split; [constructor|]. split; [constructor|exact Hf].
  - inversion Hneg as [|? ? Hargs Hneg']; subst. cbn [snd] in Hargs.
    cbn [hrun].
    assert (Hpre : match h with HColl _ => keys_wf (h_coll s) = true | HAggregate _ => True end).
    { destruct h as [o|p]; [|exact I]. cbn [run_keys_wf] in Hwf.
      apply andb_true_iff in Hwf. exact (proj1 Hwf). }
    destruct (hstep_full fl pre5 s h args Hon Hf Hpre Hargs) as [Hf' Hap].
    assert (Hwf' : run_keys_wf pre5 (h_coll (ho_state (hstep fl pre5 s h args))) hs = true).
    { destruct h as [o|p].
      - rewrite (proj1 (hstep_coll_values fl pre5 s o args)). cbn [run_keys_wf] in Hwf.
        apply andb_true_iff in Hwf. exact (proj2 Hwf).
      - exact Hwf. }
    destruct (IH _ Hf' Hneg' Hwf') as (H1 & H2 & H3).
    destruct (hrun fl pre5 (ho_state (hstep fl pre5 s h args)) hs) as [sf outs].
    cbn [fst snd] in *. split; [constructor; [exact Hap|exact H1]|].
    split; [constructor; [exact (proj1 Hf')|exact H2]|exact H3].
Qed.

(* ---------------------------------------------------------------- the theorems *)
(* in this model f_update_doc never matters: the statement holds for copy_needed *)
Theorem no_aliasing_needed fl : copy_needed fl = true ->
  forall pre5 hs, args_negative hs -> run_keys_wf pre5 empty_coll hs = true ->
  Forall2 step_apart hs (snd (hrun fl pre5 h_init hs)).
Proof.
  intros Hc pre5 hs Hneg Hwf.
  exact (proj1 (hrun_full fl pre5 (copy_needed_on fl Hc) hs h_init Full_init Hneg Hwf)).
Qed.

Theorem no_aliasing fl : all_copy fl = true ->
  forall pre5 (hs : list (hop * ids)),
  Forall (fun ha => Forall (fun x => x < 0) (snd ha)) hs ->
  run_keys_wf pre5 empty_coll hs = true ->
  Forall2 (fun ha out => apart_after (h_own (ho_state out)) (snd ha) (ho_result_ids out) = true)
          hs (snd (hrun fl pre5 h_init hs)).
Proof.
  intros Hall pre5 hs Hneg Hwf.
  exact (no_aliasing_needed fl (all_copy_needed fl Hall) pre5 hs Hneg Hwf).
Qed.

Theorem state_invariant fl : all_copy fl = true ->
  forall pre5 (hs : list (hop * ids)),
  Forall (fun ha => Forall (fun x => x < 0) (snd ha)) hs ->
  run_keys_wf pre5 empty_coll hs = true ->
  Forall (fun out => Inv (ho_state out)) (snd (hrun fl pre5 h_init hs)).
Proof.
  intros Hall pre5 hs Hneg Hwf.
  exact (proj1 (proj2 (hrun_full fl pre5 (copy_needed_on fl (all_copy_needed fl Hall)) hs h_init
                                 Full_init Hneg Hwf))).
Qed.

Theorem store_tracks_run fl pre5 hs :
  Forall (fun out => map fst (h_own (ho_state out)) = map fst (docs (h_coll (ho_state out))))
         (snd (hrun fl pre5 h_init hs)).
Proof. apply (hrun_tracks fl pre5 hs h_init). reflexivity. Qed.
