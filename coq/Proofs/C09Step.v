(* C09 proofs, part 3: instances of the closure (frame, sub-list, liveness, kept keys) and the
   three facts about one step that the property needs, stated on the model state. *)
From Coq Require Import ZArith List String Bool Ascii Lia.
From Verif Require Import Value PyEq BsonOrder Path Filter Update Project Coll HistCheck HistProps
  HistGuards.
From Verif.Proofs Require Import C01Values C09Base C09Closure.
Import ListNotations.
Open Scope Z_scope.
Open Scope string_scope.
Open Scope list_scope.

(* ---------------------------------------------------------------- store primitives *)
Lemma store_get_none_in k l :
  store_get k l = None -> forall kd, In kd l -> py_eq (fst kd) k = false.
Proof.
  induction l as [ | [k' d'] l IH ]; simpl; intros H kd Hin; [ destruct Hin | ].
  destruct (py_eq k' k) eqn:Ek; [ discriminate | ].
  destruct Hin as [<- | Hin]; [ exact Ek | eauto ].
Qed.

Lemma store_del_keeps k l kd : In kd l -> py_eq (fst kd) k = false -> In kd (store_del k l).
Proof.
  induction l as [ | [k' d'] l IH ]; simpl; intros Hin Hk; [ exact Hin | ].
  destruct Hin as [<- | Hin].
  - simpl in Hk. rewrite Hk. left. reflexivity.
  - destruct (py_eq k' k); [ exact Hin | right; auto ].
Qed.

Lemma store_set_in k d l kd : In kd (store_set k d l) -> In kd l \/ snd kd = d.
Proof.
  induction l as [ | [k' d'] l IH ]; simpl; intros Hin.
  - destruct Hin as [<- | []]. right. reflexivity.
  - destruct (py_eq k' k).
    + destruct Hin as [<- | Hin]; [ right; reflexivity | left; right; exact Hin ].
    + destruct Hin as [<- | Hin]; [ left; left; reflexivity | ].
      destruct (IH Hin); auto.
Qed.

Lemma store_set_cases k d l kd :
  In kd l -> In kd (store_set k d l) \/ In (fst kd, d) (store_set k d l).
Proof.
  induction l as [ | [k' d'] l IH ]; simpl; intros Hin; [ destruct Hin | ].
  destruct (py_eq k' k).
  - destruct Hin as [<- | Hin]; [ right; left; reflexivity | left; right; exact Hin ].
  - destruct Hin as [<- | Hin]; [ left; left; reflexivity | ].
    destruct (IH Hin); [ left | right ]; right; assumption.
Qed.

Lemma live_sub I t l l' : sub l' l -> live I t l -> live I t l'.
Proof. intros Hs Hl kd Hin. apply Hl. eapply sub_In; eauto. Qed.

(* ---------------------------------------------------------------- instance: frame *)
Definition TrueP (d : value) : Prop := True.
Definition FalseP (d : value) : Prop := False.

Definition Rf (c c' : coll) : Prop := idx c' = idx c /\ now c' = now c.

Lemma Rf_closed : closed Rf TrueP TrueP True.
Proof.
  constructor; unfold Rf.
  - auto.
  - intros a b c [H1 H2] [H3 H4]. split; congruence.
  - intros c c' [_ H]. exact H.
  - intros c c' H. destruct (expire_frame _ _ H) as [A [B _]]. auto.
  - intros c fo n od. simpl. auto.
  - intros c id data _. simpl. auto.
  - intros c id data c3 _ _ H. destruct (expire_frame _ _ H) as [A [B _]]. simpl in *. auto.
  - intros c k d _. simpl. auto.
  - intros _ c id od. simpl. auto.
Qed.

(* ---------------------------------------------------------------- instance: sub-list *)
Definition Rs (c c' : coll) : Prop := sub (docs c') (docs c) /\ now c' = now c.

Lemma Rs_closed : closed Rs FalseP FalseP True.
Proof.
  constructor; unfold Rs.
  - intros c. split; [ apply sub_refl | reflexivity ].
  - intros a b c [H1 N1] [H2 N2]. split; [ exact (sub_trans _ _ H1 _ H2) | congruence ].
  - intros c c' [_ H]. exact H.
  - intros c c' H. split; [ exact (expire_sub _ _ H) | ].
    destruct (expire_frame _ _ H) as [_ [B _]]. exact B.
  - intros c fo n od. simpl. split; [ apply sub_refl | reflexivity ].
  - intros c id data [].
  - intros c id data c3 [].
  - intros c k d [].
  - intros _ c id od. simpl. split; [ apply store_del_sub | reflexivity ].
Qed.

(* ---------------------------------------------------------------- instance: liveness *)
Definition alive (I : list index) (t : Z) (d : value) : Prop := exp_idx I t d = false.

Definition Rl (I : list index) (t : Z) (c c' : coll) : Prop :=
  idx c' = idx c /\ now c' = now c /\ (live I t (docs c) -> live I t (docs c')).

Lemma Rl_closed I t : closed (Rl I t) (alive I t) (alive I t) True.
Proof.
  constructor; unfold Rl.
  - auto.
  - intros a b c [A1 [B1 C1]] [A2 [B2 C2]]. split; [ congruence | ]. split; [ congruence | auto ].
  - intros c c' [_ [H _]]. exact H.
  - intros c c' H. destruct (expire_frame _ _ H) as [A [B _]].
    split; [ exact A | ]. split; [ exact B | ].
    apply live_sub. exact (expire_sub _ _ H).
  - intros c fo n od. simpl. auto.
  - intros c id data Hw. simpl. split; [ reflexivity | ]. split; [ reflexivity | ].
    intros Hl kd Hin. apply in_app_or in Hin. destruct Hin as [Hin | [<- | []]]; [ auto | exact Hw ].
  - intros c id data c3 Hw _ H. destruct (expire_frame _ _ H) as [A [B _]]. simpl in *.
    split; [ exact A | ]. split; [ exact B | ].
    intros Hl. eapply live_sub; [ apply store_del_sub | ].
    eapply live_sub; [ exact (expire_sub _ _ H) | ]. simpl.
    intros kd Hin. apply in_app_or in Hin. destruct Hin as [Hin | [<- | []]]; [ auto | exact Hw ].
  - intros c k d Hw. simpl. split; [ reflexivity | ]. split; [ reflexivity | ].
    intros Hl kd Hin. destruct (store_set_in _ _ _ _ Hin) as [Hin' | ->]; [ auto | exact Hw ].
  - intros _ c id od. simpl. split; [ reflexivity | ]. split; [ reflexivity | ].
    apply live_sub. apply store_del_sub.
Qed.

Lemma El_live I t c c' :
  E (Rl I t) c c' -> idx c = I -> now c = t -> live I t (docs c').
Proof.
  intros [c0 [c1 [[A [B _]] [H1 [_ [_ C]]]]]] Ha Hn.
  pose proof (expire_live _ _ H1) as Hl. rewrite A, B, Ha, Hn in Hl. exact (C Hl).
Qed.

(* ---------------------------------------------------------------- instance: kept keys *)
Definition kept (W : value -> Prop) (I : list index) (t : Z) (l l' : list (value * value)) : Prop :=
  forall kd, In kd l ->
    (exists d', In (fst kd, d') l' /\ (d' = snd kd \/ W d')) \/ exp_idx I t (snd kd) = true.

Definition Rk (W : value -> Prop) (c c' : coll) : Prop :=
  idx c' = idx c /\ now c' = now c /\
  ((forall d, W d -> exp_idx (idx c) (now c) d = false) ->
   kept W (idx c) (now c) (docs c) (docs c')).

Lemma kept_refl W I t l : kept W I t l l.
Proof. intros [k d] Hin. left. exists d. simpl. auto. Qed.

Lemma Rk_closed W : closed (Rk W) TrueP W False.
Proof.
  constructor; unfold Rk.
  - intros c. split; [ reflexivity | ]. split; [ reflexivity | ]. intros _. apply kept_refl.
  - intros a b c [A1 [B1 K1]] [A2 [B2 K2]]. split; [ congruence | ]. split; [ congruence | ].
    intros HW. rewrite A1, B1 in K2. specialize (K1 HW). specialize (K2 HW).
    intros kd Hin. destruct (K1 kd Hin) as [[d' [Hd' Hw]] | Hx]; [ | right; exact Hx ].
    destruct (K2 _ Hd') as [[d'' [Hd'' Hw']] | Hx]; simpl in *.
    + left. exists d''. split; [ exact Hd'' | ].
      destruct Hw' as [-> | Hw']; [ exact Hw | right; exact Hw' ].
    + destruct Hw as [-> | Hw]; [ right; exact Hx | ].
      rewrite (HW _ Hw) in Hx. discriminate.
  - intros c c' [_ [H _]]. exact H.
  - intros c c' H. destruct (expire_frame _ _ H) as [A [B _]].
    split; [ exact A | ]. split; [ exact B | ]. intros _ kd Hin.
    destruct (expire_keeps _ _ _ H Hin) as [Hin' | Hx]; [ left | right; exact Hx ].
    exists (snd kd). destruct kd. simpl. auto.
  - intros c fo n od. simpl. split; [ reflexivity | ]. split; [ reflexivity | ].
    intros _. apply kept_refl.
  - intros c id data _. simpl. split; [ reflexivity | ]. split; [ reflexivity | ].
    intros _ kd Hin. left. exists (snd kd). destruct kd. simpl. split; [ | auto ].
    apply in_or_app. left. exact Hin.
  - intros c id data c3 _ Hg H. destruct (expire_frame _ _ H) as [A [B _]]. simpl in *.
    split; [ exact A | ]. split; [ exact B | ]. intros _ kd Hin.
    assert (Hin2 : In kd (docs (with_docs c (docs c ++ [(id, data)])))).
    { simpl. apply in_or_app. left. exact Hin. }
    destruct (expire_keeps _ _ _ H Hin2) as [Hin' | Hx]; [ left | right; exact Hx ].
    exists (snd kd). split; [ | auto ].
    replace (fst kd, snd kd) with kd by (destruct kd; reflexivity).
    apply store_del_keeps; [ exact Hin' | ]. eapply store_get_none_in; eauto.
  - intros c k d Hw. simpl. split; [ reflexivity | ]. split; [ reflexivity | ].
    intros _ kd Hin. left.
    destruct (store_set_cases k d _ _ Hin) as [Hin' | Hin'].
    + exists (snd kd). destruct kd. simpl in *. auto.
    + exists d. auto.
  - intros [].
Qed.

Lemma Rk_weak W c c' :
  Rk W c c' -> (forall d, W d -> exp_idx (idx c) (now c) d = false) ->
  forall kd, In kd (docs c) ->
    (exists d', In (fst kd, d') (docs c')) \/ exp_idx (idx c) (now c) (snd kd) = true.
Proof.
  intros [_ [_ K]] HW kd Hin. destruct (K HW kd Hin) as [[d' [Hd' _]] | Hx]; eauto.
Qed.

(* ---------------------------------------------------------------- trivial side conditions *)
Lemma ins_ok_true d : ins_ok TrueP d.
Proof. destruct d; simpl; unfold TrueP; auto. Qed.
Lemma ins_ok_true_all ds : Forall (ins_ok TrueP) ds.
Proof. apply Forall_forall. intros d _. apply ins_ok_true. Qed.
Lemma fam_ok_true k : fam_ok TrueP TrueP True k.
Proof. destruct k; simpl; unfold TrueP; auto. Qed.
Lemma req_ok_true rs : Forall (req_ok TrueP TrueP True) rs.
Proof.
  apply Forall_forall. intros rq _. destruct rq; simpl; unfold TrueP; auto. apply ins_ok_true.
Qed.

(* reads: unchanged or expired once *)
Lemma read_R R WA WS AD c c1 (r : bool) :
  closed R WA WS AD -> (c1 = c /\ r = false) \/ expire c = Ok c1 -> R c c1.
Proof. intros HC [[-> _] | H]; [ apply HC | apply (cl_exp _ _ _ _ HC); exact H ]. Qed.

