(* C06: the hypotheses of C06_history are satisfiable on a non-trivial history: three unique
   indexes (plain -- with scalar and sub-document values, and sub-document _ids --, compound sparse
   over a dotted path, partial), a TTL index, and duplicates
   offered through every write path (insert_one, insert_many, update_one, update_many, upserts,
   replace_one, find_one_and_update, bulk_write, create_index on existing duplicates): eleven of
   them are rejected with DuplicateKeyError, the guard is 0 and the predicate holds. *)
From Coq Require Import ZArith List String Bool Ascii.
From Verif Require Import Value PyEq BsonOrder Path Filter Update Project Coll HistCheck HistProps
  HistGuards.
Import ListNotations.
Open Scope Z_scope.
Open Scope string_scope.
Open Scope list_scope.

Definition D := VDoc.
Definition ops_ex : list op :=
  [ OCreateIndex [("a", VInt 1)] true false None None None;
    OCreateIndex [("b.c", VInt 1); ("d", VInt (-1))] true true None None None;
    OCreateIndex [("e", VInt 1)] true false None (Some (D [("f", D [("$gt", VInt 0)])])) (Some "e_part");
    OCreateIndex [("t", VInt 1)] false false (Some (VInt 10)) None None;
    OInsertOne (D [("_id", VInt 1); ("a", VInt 1); ("b", D [("c", VInt 1)]); ("d", VStr "x"); ("e", VInt 1); ("f", VInt 1)]);
    OInsertOne (D [("_id", VInt 2); ("a", VInt 2); ("e", VInt 1); ("f", VInt 0)]);
    OInsertOne (D [("_id", VInt 3); ("a", VDbl 8)]);
    OInsertOne (D [("_id", D [("k", VInt 1); ("m", VStr "x")]); ("a", D [("p", VInt 1); ("q", VArr [VInt 2])])]);
    OInsertOne (D [("_id", D [("m", VStr "x"); ("k", VInt 1)]); ("a", VInt 50)]);
    OInsertOne (D [("_id", D [("k", VInt 2)]); ("a", D [("p", VDbl 8); ("q", VArr [VInt 2])])]);
    OInsertOne (D [("_id", VInt 3); ("a", VInt 3); ("b", D [("c", VDbl 8)]); ("d", VStr "x")]);
    OInsertOne (D [("_id", VInt 3); ("a", VInt 3); ("e", VInt 1); ("f", VInt 5)]);
    OInsertMany [D [("a", VInt 4); ("t", VDate 0 None)]; D [("a", VInt 4)]; D [("a", VInt 5)]] false;
    OUpdate (D [("_id", VInt 2)]) (D [("$set", D [("a", VInt 1)])]) false false;
    OUpdate (D [("a", D [("$lt", VInt 45)])]) (D [("$inc", D [("a", VInt 10)])]) true false;
    OUpdate (D [("a", VInt 99)]) (D [("$set", D [("d", VInt 7)])]) false true;
    OUpdate (D [("a", VInt 98)]) (D [("$set", D [("a", VInt 99)])]) false true;
    OReplace (D [("_id", VInt 2)]) (D [("a", VInt 11)]) false;
    OFindAndModify (D [("_id", VInt 2)]) None [] (FamUpdate (D [("$set", D [("a", VInt 11)])]) false true);
    OFindAndModify (D [("_id", VInt 2)]) None [] (FamUpdate (D [("$set", D [("a", VInt 13)])]) false true);
    OBulk [BInsert (D [("_id", VInt 7); ("a", VInt 13)]); BInsert (D [("_id", VInt 8); ("a", VInt 20)]);
           BUpdate (D [("_id", VInt 8)]) (D [("$set", D [("a", VInt 11)])]) false false;
           BDelete (D [("_id", VInt 1)]) false] false;
    OSetClock 100000000;
    OCount (D []) 0 None;
    OCreateIndex [("f", VInt 1)] true false None None None;
    OCreateIndex [("d", VInt 1)] true false None None None;
    ODropIndex "a_1";
    OInsertOne (D [("_id", VInt 9); ("a", VInt 11)]);
    OIndexInfo;
    ODropIndexes;
    ODrop ].

Definition is_dup (ob : obs) : bool :=
  match fst (fst ob) with Err EDup => true | _ => false end.

Example c06_example :
  let os := model_obs false empty_coll ops_ex in
  c06_reasons ops_ex os = 0 /\ c06_ok ops_ex os = true
  /\ List.length (List.filter is_dup os) = 11%nat
  /\ modelled false empty_coll ops_ex = true.
Proof. vm_compute. repeat split; reflexivity. Qed.
