(* C09 proofs, part 2: every operation on the documents is a composition of a few primitive
   moves (expire, append, rollback of an append, store_set, store_del, bookkeeping).  Any
   reflexive transitive relation closed under the moves therefore relates the state before
   and after each operation.  WA / WS restrict the documents that may be appended / stored
   over an existing key, AllowDel says whether deletions are allowed. *)
From Coq Require Import ZArith List String Bool Ascii Lia.
From Verif Require Import Value PyEq BsonOrder Path Filter Update Project Coll HistCheck HistProps.
From Verif.Proofs Require Import C01Values C09Base.
Import ListNotations.
Open Scope Z_scope.
Open Scope string_scope.
Open Scope list_scope.

Definition okish {A} (r : res A) : Prop := forall e, r = Err e -> is_write_error e = true.

Lemma okish_ok {A} (a : A) : okish (Ok a).
Proof. intros e H. discriminate. Qed.

Record closed (R : coll -> coll -> Prop) (WA WS : value -> Prop) (AllowDel : Prop) : Prop := {
  cl_refl : forall c, R c c;
  cl_trans : forall a b c, R a b -> R b c -> R a c;
  cl_now : forall c c', R c c' -> now c' = now c;
  cl_exp : forall c c', expire c = Ok c' -> R c c';
  (* bookkeeping: the created flag, the ObjectId supply, the upsert marks *)
  cl_meta : forall c fo n od, R c (mkColl (docs c) (idx c) fo n (now c) od);
  cl_app : forall c id data, WA data -> R c (with_docs c (docs c ++ [(id, data)]));
  cl_roll : forall c id data c3,
    WA data -> store_get id (docs c) = None ->
    expire (with_docs c (docs c ++ [(id, data)])) = Ok c3 ->
    R c (with_docs c3 (store_del id (docs c3)));
  cl_set : forall c k d, WS d -> R c (with_docs c (store_set k d (docs c)));
  cl_del : AllowDel -> forall c id od,
    R c (mkColl (store_del id (docs c)) (idx c) (forced c) (next_oid c) (now c) od)
}.

Section closure.
Variable R : coll -> coll -> Prop.
Variable WA WS : value -> Prop.
Variable AllowDel : Prop.
Hypothesis HC : closed R WA WS AllowDel.

Lemma R_refl : forall c, R c c.
Proof. apply HC. Qed.
Lemma R_trans : forall a b c, R a b -> R b c -> R a c.
Proof. apply HC. Qed.
Lemma R_exp : forall c c', expire c = Ok c' -> R c c'.
Proof. apply HC. Qed.
Lemma R_now : forall c c', R c c' -> now c' = now c.
Proof. apply HC. Qed.
Lemma R_meta : forall c fo n od, R c (mkColl (docs c) (idx c) fo n (now c) od).
Proof. apply HC. Qed.
Lemma R_app : forall c id data, WA data -> R c (with_docs c (docs c ++ [(id, data)])).
Proof. apply HC. Qed.
Lemma R_roll : forall c id data c3,
  WA data -> store_get id (docs c) = None ->
  expire (with_docs c (docs c ++ [(id, data)])) = Ok c3 ->
  R c (with_docs c3 (store_del id (docs c3))).
Proof. apply HC. Qed.
Lemma R_set : forall c k d, WS d -> R c (with_docs c (store_set k d (docs c))).
Proof. apply HC. Qed.
Lemma R_del : AllowDel -> forall c id od,
  R c (mkColl (store_del id (docs c)) (idx c) (forced c) (next_oid c) (now c) od).
Proof. apply HC. Qed.
Local Hint Resolve R_refl R_trans R_exp R_meta : core.

(* the writing moves: the write also marks the collection as existing *)
Definition mark (c : coll) : coll := mkColl (docs c) (idx c) true (next_oid c) (now c) (odocs c).
Lemma R_mark c : R c (mark c).
Proof. apply R_meta. Qed.
Lemma R_app_w : forall c id data, WA data -> R c (with_docs_w c (docs c ++ [(id, data)])).
Proof.
  intros c id data Hw. eapply R_trans; [ apply (R_mark c) | ].
  exact (R_app (mark c) id data Hw).
Qed.
Lemma R_roll_w : forall c id data c3,
  WA data -> store_get id (docs c) = None ->
  expire (with_docs_w c (docs c ++ [(id, data)])) = Ok c3 ->
  R c (with_docs c3 (store_del id (docs c3))).
Proof.
  intros c id data c3 Hw Hg He. eapply R_trans; [ apply (R_mark c) | ].
  exact (R_roll (mark c) id data c3 Hw Hg He).
Qed.
Lemma R_set_w : forall c k d, WS d -> R c (with_docs_w c (store_set k d (docs c))).
Proof.
  intros c k d Hw. eapply R_trans; [ apply (R_mark c) | ].
  exact (R_set (mark c) k d Hw).
Qed.

(* at least one expiry happened on the way *)
Definition E (c c' : coll) : Prop := exists c0 c1, R c c0 /\ expire c0 = Ok c1 /\ R c1 c'.

Lemma E_R c c' : E c c' -> R c c'.
Proof. intros [c0 [c1 [H0 [H1 H2]]]]. eauto. Qed.
Lemma E_r c c1 c2 : E c c1 -> R c1 c2 -> E c c2.
Proof. intros [a [b [H0 [H1 H2]]]] H. exists a, b. eauto. Qed.
Lemma E_l c c0 c' : R c c0 -> E c0 c' -> E c c'.
Proof. intros H [a [b [H0 [H1 H2]]]]. exists a, b. eauto. Qed.
Lemma E_exp c c' : expire c = Ok c' -> E c c'.
Proof. intros H. exists c, c'. eauto. Qed.

Ltac fin_E :=
  match goal with
  | |- R ?a ?x /\ _ =>
      let HE := fresh "HE" in
      assert (HE : E a x); [ | split; [ apply E_R; exact HE | intros _; exact HE ] ]
  end.

Lemma expire_if_R b c c' : expire_if b c = Ok c' -> R c c'.
Proof. intros H. destruct (expire_if_cases _ _ _ H) as [-> | H']; auto. Qed.

(* ---------------------------------------------------------------- reads *)
Lemma iter_documents_exp c f c1 m : iter_documents c f = Ok (c1, m) -> expire c = Ok c1.
Proof.
  unfold iter_documents. intros H.
  destruct (expire c) as [c0|e] eqn:Ex; simpl in H; [ | discriminate ].
  repeat dm H; inv_pair H; reflexivity.
Qed.

Lemma find_docs_exp c f s c1 l : find_docs c f s = Ok (c1, l) -> expire c = Ok c1.
Proof.
  unfold find_docs. intros H. destruct f; try discriminate.
  destruct (iter_documents c (patch (VDoc fs))) as [[c0 m]|e] eqn:Ei; simpl in H; [ | discriminate ].
  dm H. inv_pair H. simpl. eauto using iter_documents_exp.
Qed.

Lemma find_op_cases c f p s sk lim c1 r :
  find_op c f p s sk lim = (c1, r) ->
  (c1 = c /\ is_ok r = false) \/ expire c = Ok c1.
Proof.
  unfold find_op. intros H.
  destruct (find_docs c f s) as [[c0 l]|e] eqn:Ef.
  - right. dm H; inv_pair H; eauto using find_docs_exp.
  - left. inv_pair H. auto.
Qed.

Lemma find_op_R c f p s sk lim c1 r : find_op c f p s sk lim = (c1, r) -> R c c1.
Proof. intros H. destruct (find_op_cases _ _ _ _ _ _ _ _ H) as [[-> _] | H']; auto. Qed.

Lemma find_one_cases c f p s c1 r :
  find_one c f p s = (c1, r) ->
  (c1 = c /\ is_ok r = false) \/ expire c = Ok c1.
Proof.
  unfold find_one. intros H.
  destruct (find_op c f p s 0 0) as [c0 r0] eqn:Ef.
  destruct (find_op_cases _ _ _ _ _ _ _ _ Ef) as [[-> Hr] | H'].
  - left. destruct r0; [ discriminate | ]. inv_pair H. auto.
  - right. repeat dm H; inv_pair H; assumption.
Qed.

Lemma find_one_R c f p s c1 r : find_one c f p s = (c1, r) -> R c c1.
Proof. intros H. destruct (find_one_cases _ _ _ _ _ _ H) as [[-> _] | H']; auto. Qed.

Lemma count_op_cases c f sk lim c1 r :
  count_op c f sk lim = (c1, r) -> (c1 = c /\ is_ok r = false) \/ expire c = Ok c1.
Proof.
  unfold count_op. intros H.
  repeat dm H; inv_pair H; eauto using iter_documents_exp.
Qed.

Lemma distinct_op_cases c k f c1 r :
  distinct_op c k f = (c1, r) -> (c1 = c /\ is_ok r = false) \/ expire c = Ok c1.
Proof.
  unfold distinct_op. intros H.
  destruct (negb (path_modelled (split_dots k))); [ inv_pair H; auto | ].
  destruct (find_docs c f []) as [[c0 l]|e] eqn:Ef.
  - right. dm H; inv_pair H; eauto using find_docs_exp.
  - inv_pair H. auto.
Qed.

(* ---------------------------------------------------------------- insert *)
Definition ins_ok (d : value) : Prop :=
  match d with
  | VDoc fs => WA (patch (VDoc fs)) /\ forall n, WA (patch (VDoc (fs ++ [("_id", VOid n)])))
  | _ => True
  end.

(* R always; E when the outcome is a success or a captured write error *)
Lemma insert_doc_RE c d c' r :
  insert_doc c d = (c', r) -> ins_ok d -> R c c' /\ (okish r -> E c c').
Proof.
  unfold insert_doc. intros H Hok.
  destruct d as [ | | | | | | | fs | ];
    try (inv_pair H; split; [ apply R_refl | intros Ho; discriminate (Ho _ eq_refl) ]).
  set (t := match assoc "_id" fs with
            | Some i => (c, fs, patch i)
            | None => (mkColl (docs c) (idx c) (forced c) (next_oid c + 1) (now c) (odocs c),
                       fs ++ [("_id", VOid (next_oid c))], VOid (next_oid c))
            end) in H.
  assert (Ht : R c (fst (fst t)) /\ WA (patch (VDoc (snd (fst t))))).
  { subst t. simpl in Hok. destruct Hok as [Hk1 Hk2].
    destruct (assoc "_id" fs); simpl; split; auto. }
  destruct t as [[c0 fs1] id]. simpl in Ht. destruct Ht as [Ht Hwa].
  destruct (negb (id_modelled id)).
  { destruct id; inv_pair H; (split; [ assumption | intros Ho; discriminate (Ho _ eq_refl) ]). }
  destruct (expire c0) as [c1|e] eqn:E1.
  2:{ inv_pair H. split; [ assumption | ]. intros Ho.
      pose proof (Ho _ eq_refl) as Hw. rewrite (expire_err_nw _ _ E1) in Hw. discriminate Hw. }
  assert (HE1 : E c c1) by (exists c0, c1; auto).
  destruct (store_get id (docs c1)) eqn:Eg.
  { inv_pair H. split; [ apply E_R; assumption | intros _; assumption ]. }
  set (data := patch (VDoc fs1)) in *.
  set (c2 := with_docs_w c1 (docs c1 ++ [(id, data)])) in H.
  assert (H12 : R c1 c2) by (apply R_app_w; exact Hwa).
  destruct (ensure_uniques c2 data) as [touched|e] eqn:Eu.
  - destruct (expire_if touched c2) as [c3|e] eqn:E3; inv_pair H; fin_E.
    + eapply E_r; [ exact HE1 | eauto using expire_if_R ].
    + eapply E_r; eauto.
  - destruct (expire c2) as [c3|e'] eqn:E3; inv_pair H; fin_E.
    + eapply E_r; [ exact HE1 | ]. eapply R_roll_w; eauto.
    + exact HE1.
Qed.

Lemma insert_doc_R c d c' r : insert_doc c d = (c', r) -> ins_ok d -> R c c'.
Proof. intros H Hok. exact (proj1 (insert_doc_RE _ _ _ _ H Hok)). Qed.

Lemma insert_one_RE c d c' r :
  insert_one c d = (c', r) -> ins_ok d -> R c c' /\ (is_ok r = true -> E c c').
Proof.
  unfold insert_one. intros H Hok. destruct (insert_doc c d) as [c0 r0] eqn:Ei.
  inv_pair H. destruct (insert_doc_RE _ _ _ _ Ei Hok) as [HR HE]. split; [ exact HR | ].
  intros Hr. apply HE. destruct r0; [ apply okish_ok | discriminate ].
Qed.

Lemma insert_many_go_R : forall ds c ordered index ids errs n c' r,
  insert_many_go c ds ordered index ids errs n = (c', r) -> Forall ins_ok ds -> R c c'.
Proof.
  induction ds as [ | d ds IH ]; simpl; intros c ordered index ids errs n c' r H Hok.
  - inv_pair H. apply R_refl.
  - inversion Hok as [ | ? ? Hd Hds ]; subst.
    destruct (insert_doc c d) as [c0 r0] eqn:Ei.
    assert (H0 : R c c0) by eauto using insert_doc_R.
    destruct r0 as [id|e]; [ eauto | ].
    destruct (is_write_error e); [ | inv_pair H; assumption ].
    destruct ordered; [ inv_pair H; assumption | eauto ].
Qed.

Lemma insert_many_go_E d ds c ordered index ids errs n c' r :
  insert_many_go c (d :: ds) ordered index ids errs n = (c', r) -> Forall ins_ok (d :: ds) ->
  is_ok r = true -> E c c'.
Proof.
  simpl. intros H Hok Hr. inversion Hok as [ | ? ? Hd Hds ]; subst.
  destruct (insert_doc c d) as [c0 r0] eqn:Ei.
  destruct (insert_doc_RE _ _ _ _ Ei Hd) as [HR HE].
  destruct r0 as [id|e].
  - eapply E_r; [ apply HE, okish_ok | eauto using insert_many_go_R ].
  - destruct (is_write_error e) eqn:Ew; [ | inv_pair H; discriminate ].
    assert (HE' : E c c0) by (apply HE; intros e' He'; inv_pair He'; exact Ew).
    destruct ordered; [ inv_pair H; assumption | ].
    eapply E_r; [ exact HE' | eauto using insert_many_go_R ].
Qed.

Lemma insert_many_RE c ds ordered c' r :
  insert_many c ds ordered = (c', r) -> Forall ins_ok ds ->
  R c c' /\ (is_ok r = true -> E c c').
Proof.
  unfold insert_many. intros H Hok.
  destruct ds as [ | d ds ]; [ inv_pair H; split; [ apply R_refl | discriminate ] | ].
  destruct (negb (forallb is_doc (d :: ds)));
    [ inv_pair H; split; [ apply R_refl | discriminate ] | ].
  destruct (insert_many_go c (d :: ds) ordered 0 [] [] 0) as [c0 r0] eqn:Eg.
  inv_pair H. split; [ eauto using insert_many_go_R | ].
  intros Hr. eapply insert_many_go_E; eauto. destruct r0; [ reflexivity | discriminate ].
Qed.

(* ---------------------------------------------------------------- update *)
Lemma update_loop_R : forall todo c spec upd multi m md c' r,
  (forall d, WS d) ->
  update_loop c spec upd multi todo m md = (c', r) -> R c c'.
Proof.
  induction todo as [ | [k d] todo IH ]; simpl; intros c spec upd multi m md c' r HW H.
  - inv_pair H. apply R_refl.
  - destruct (filter_applies spec d) as [[|]|e]; [ | eauto | inv_pair H; apply R_refl ].
    destruct (apply_update spec upd false (now c) d) as [d'|e]; [ | inv_pair H; apply R_refl ].
    destruct (negb (negb (py_eq d' d))).
    { destruct (negb (value_eqb d' d) && py_in k (odocs c)); [ inv_pair H; apply R_refl | ].
      destruct multi; [ eauto | inv_pair H; apply R_refl ]. }
    match type of H with (if negb ?s then _ else _) = _ => destruct (negb s) end;
      [ inv_pair H; apply R_refl | ].
    destruct (match d with VDoc fs => assoc "_id" fs | _ => None end);
      [ | inv_pair H; apply R_refl ].
    set (c1 := with_docs_w c (store_set k d' (docs c))) in H.
    assert (H1 : R c c1) by (apply R_set_w; apply HW).
    destruct (ensure_uniques c1 d') as [touched|e] eqn:Eu.
    + destruct (expire_if touched c1) as [c2|e] eqn:E2; [ | inv_pair H; assumption ].
      assert (H2 : R c c2) by eauto using expire_if_R.
      destruct multi; [ eauto | inv_pair H; assumption ].
    + destruct e; try (inv_pair H; assumption);
        (destruct (expire c1) as [c2|e] eqn:E2; inv_pair H; [ | apply R_refl ];
         eapply R_trans; [ exact H1 | ]; eapply R_trans; [ apply R_exp; exact E2 | ];
         apply R_set; apply HW).
Qed.

(* the same, asking WS only of the documents the loop can store: the images of the snapshot's
   documents under the update, and (rollback) the snapshot's documents themselves *)
Lemma update_loop_R' : forall todo c spec upd multi m md c' r t0,
  now c = t0 ->
  (forall k d, In (k, d) todo ->
     WS d /\ forall d', apply_update spec upd false t0 d = Ok d' -> WS d') ->
  update_loop c spec upd multi todo m md = (c', r) -> R c c'.
Proof.
  induction todo as [ | [k d] todo IH ]; simpl; intros c spec upd multi m md c' r t0 Hn HW H.
  - inv_pair H. apply R_refl.
  - assert (HW' : forall k0 d0, In (k0, d0) todo ->
       WS d0 /\ forall d', apply_update spec upd false t0 d0 = Ok d' -> WS d')
      by (intros k0 d0 Hin; apply (HW k0 d0); right; exact Hin).
    destruct (HW k d (or_introl eq_refl)) as [Hd Himg].
    destruct (filter_applies spec d) as [[|]|e]; [ | eauto | inv_pair H; apply R_refl ].
    rewrite Hn in H.
    destruct (apply_update spec upd false t0 d) as [d'|e] eqn:Ea; [ | inv_pair H; apply R_refl ].
    destruct (negb (negb (py_eq d' d))).
    { destruct (negb (value_eqb d' d) && py_in k (odocs c)); [ inv_pair H; apply R_refl | ].
      destruct multi; [ eauto | inv_pair H; apply R_refl ]. }
    match type of H with (if negb ?s then _ else _) = _ => destruct (negb s) end;
      [ inv_pair H; apply R_refl | ].
    destruct (match d with VDoc fs => assoc "_id" fs | _ => None end);
      [ | inv_pair H; apply R_refl ].
    set (c1 := with_docs_w c (store_set k d' (docs c))) in H.
    assert (H1 : R c c1) by (apply R_set_w; apply Himg; reflexivity).
    destruct (ensure_uniques c1 d') as [touched|e] eqn:Eu.
    + destruct (expire_if touched c1) as [c2|e] eqn:E2; [ | inv_pair H; assumption ].
      assert (H2 : R c c2) by eauto using expire_if_R.
      destruct multi; [ | inv_pair H; assumption ].
      eapply R_trans; [ exact H2 | ].
      eapply (IH c2); [ | exact HW' | exact H ]. rewrite (R_now _ _ H2). exact Hn.
    + destruct e; try (inv_pair H; assumption);
        (destruct (expire c1) as [c2|e] eqn:E2; inv_pair H; [ | apply R_refl ];
         eapply R_trans; [ exact H1 | ]; eapply R_trans; [ apply R_exp; exact E2 | ];
         apply R_set; exact Hd).
Qed.

Lemma update_noupsert_RE pre5 c f u multi c' r :
  (forall c1, expire c = Ok c1 -> forall k d, In (k, d) (docs c1) ->
     WS d /\ forall d', apply_update (patch f) (patch u) false (now c) d = Ok d' -> WS d') ->
  update pre5 c f u multi false = (c', r) -> R c c' /\ (is_ok r = true -> E c c').
Proof.
  unfold update. intros HW H.
  destruct (patch f) as [ | | | | | | | sfs | ];
    try (inv_pair H; split; [ apply R_refl | discriminate ]).
  destruct (patch u) as [ | | | | | | | ufs | ];
    try (inv_pair H; split; [ apply R_refl | discriminate ]).
  destruct (empty_operator pre5 (VDoc ufs)); [ inv_pair H; split; [ apply R_refl | discriminate ] | ].
  destruct (expire c) as [c1|e] eqn:E1; [ | inv_pair H; split; [ apply R_refl | discriminate ] ].
  match type of H with (match ?x with Ok _ => _ | Err _ => _ end) = _ => destruct x end;
    [ | inv_pair H; split; [ auto | discriminate ] ].
  destruct (update_loop c1 (VDoc sfs) (VDoc ufs) multi (docs c1) 0 0) as [c2 r2] eqn:El.
  assert (H2 : R c1 c2).
  { eapply update_loop_R'; [ | | exact El ].
    - destruct (expire_frame _ _ E1) as [_ [B _]]. exact B.
    - apply HW. reflexivity. }
  assert (HE : E c c2) by (eapply E_r; [ apply E_exp; exact E1 | exact H2 ]).
  destruct r2 as [[matched modified]|e]; [ | inv_pair H; split; [ apply E_R; exact HE | discriminate ] ].
  simpl in H. inv_pair H. split; [ apply E_R; exact HE | intros _; exact HE ].
Qed.

Lemma update_op_cases pre5 c f u multi upsert c' r :
  update_op pre5 c f u multi upsert = (c', r) ->
  (c' = c /\ is_ok r = false) \/ update pre5 c f u multi upsert = (c', r).
Proof.
  unfold update_op. intros H.
  destruct u; try (inv_pair H; left; split; reflexivity).
  destruct (first_key_dollar (VDoc fs)) as [[|]|]; try (inv_pair H; left; split; reflexivity).
  right. exact H.
Qed.

Lemma replace_op_cases pre5 c f u upsert c' r :
  replace_op pre5 c f u upsert = (c', r) ->
  (c' = c /\ is_ok r = false) \/ update pre5 c f u false upsert = (c', r).
Proof.
  unfold replace_op. intros H.
  destruct u; try (inv_pair H; left; split; reflexivity).
  destruct (first_key_dollar (VDoc fs)) as [[|]|]; try (inv_pair H; left; split; reflexivity);
    right; exact H.
Qed.

Lemma update_R pre5 c f u multi upsert c' r :
  (forall d, WS d) -> (forall d, WA d) ->
  update pre5 c f u multi upsert = (c', r) -> R c c'.
Proof.
  unfold update. intros HWS HWA H.
  destruct (patch f) as [ | | | | | | | sfs | ]; try (inv_pair H; apply R_refl).
  destruct (patch u) as [ | | | | | | | ufs | ]; try (inv_pair H; apply R_refl).
  destruct (empty_operator pre5 (VDoc ufs)); [ inv_pair H; apply R_refl | ].
  destruct (expire c) as [c1|e] eqn:E1; [ | inv_pair H; apply R_refl ].
  assert (H1 : R c c1) by auto.
  match type of H with (match ?x with Ok _ => _ | Err _ => _ end) = _ => destruct x end;
    [ | inv_pair H; assumption ].
  destruct (update_loop c1 (VDoc sfs) (VDoc ufs) multi (docs c1) 0 0) as [c2 r2] eqn:El.
  assert (H2 : R c c2) by eauto using update_loop_R.
  destruct r2 as [[matched modified]|e]; [ | inv_pair H; assumption ].
  destruct (negb upsert || negb (matched =?? 0)); [ inv_pair H; assumption | ].
  match type of H with (let '(c3, id) := ?t in _) = _ => set (t3 := t) in H end.
  assert (H3 : R c (fst t3)).
  { subst t3. repeat match goal with |- context [match ?x with _ => _ end] => destruct x end;
      simpl; eauto. }
  destruct t3 as [c3 id]. simpl in H3.
  destruct (expand_dots (set_key "_id" id sfs)) as [expanded|e]; [ | inv_pair H; assumption ].
  match type of H with (match ?x with Ok _ => _ | Err _ => _ end) = _ => destruct x as [d'|e] end;
    [ | inv_pair H; assumption ].
  destruct (insert_doc c3 d') as [c4 ir] eqn:E4.
  assert (H4 : R c c4).
  { eapply R_trans; [ exact H3 | ]. eapply insert_doc_R; [ exact E4 | ].
    unfold ins_ok. destruct d'; auto. }
  destruct ir; inv_pair H; [ | assumption ].
  eapply R_trans; [ exact H4 | apply R_meta ].
Qed.

Lemma update_op_R pre5 c f u multi upsert c' r :
  (forall d, WS d) -> (forall d, WA d) ->
  update_op pre5 c f u multi upsert = (c', r) -> R c c'.
Proof.
  unfold update_op. intros HWS HWA H.
  destruct u; try (inv_pair H; apply R_refl).
  destruct (first_key_dollar (VDoc fs)) as [[|]|]; try (inv_pair H; apply R_refl).
  eauto using update_R.
Qed.

Lemma replace_op_R pre5 c f u upsert c' r :
  (forall d, WS d) -> (forall d, WA d) ->
  replace_op pre5 c f u upsert = (c', r) -> R c c'.
Proof.
  unfold replace_op. intros HWS HWA H.
  destruct u; try (inv_pair H; apply R_refl).
  destruct (first_key_dollar (VDoc fs)) as [[|]|]; try (inv_pair H; apply R_refl);
    eauto using update_R.
Qed.

(* ---------------------------------------------------------------- delete *)
Lemma delete_go_R : forall l c multi n c' r,
  AllowDel -> delete_go c l multi n = (c', r) -> R c c'.
Proof.
  induction l as [ | d l IH ]; simpl; intros c multi n c' r HA H.
  - inv_pair H. apply R_refl.
  - destruct d; try (inv_pair H; apply R_refl).
    destruct (assoc "_id" fs) as [id|]; [ | inv_pair H; apply R_refl ].
    destruct (store_get id (docs c)); [ | inv_pair H; apply R_refl ].
    match type of H with context [if multi then delete_go ?c1 _ _ _ else _] =>
      assert (H1 : R c c1) by (apply R_del; exact HA) end.
    destruct multi; [ | inv_pair H; assumption ].
    eapply R_trans; [ exact H1 | eapply IH; [ exact HA | exact H ] ].
Qed.

Lemma delete_op_RE c f multi c' r :
  AllowDel -> delete_op c f multi = (c', r) -> R c c' /\ (is_ok r = true -> E c c').
Proof.
  unfold delete_op. intros HA H.
  destruct f; try (inv_pair H; split; [ apply R_refl | discriminate ]).
  destruct (find_docs c (VDoc fs) []) as [[c1 l]|e] eqn:Ef;
    [ | inv_pair H; split; [ apply R_refl | discriminate ] ].
  destruct (delete_go c1 l multi 0) as [c2 r2] eqn:Ed.
  inv_pair H. apply find_docs_exp in Ef. fin_E.
  eapply E_r; [ apply E_exp; exact Ef | eauto using delete_go_R ].
Qed.

(* ---------------------------------------------------------------- find_one_and_* *)
Definition fam_ok (k : fam_kind) : Prop :=
  match k with
  | FamDelete => AllowDel
  | _ => (forall d, WS d) /\ (forall d, WA d)
  end.

Lemma find_and_modify_RE pre5 c f proj sort k c' r :
  fam_ok k ->
  find_and_modify pre5 c f proj sort k = (c', r) -> R c c' /\ (is_ok r = true -> E c c').
Proof.
  unfold find_and_modify. intros Hk H.
  destruct f; try (inv_pair H; split; [ apply R_refl | discriminate ]).
  match type of H with (match ?v with Ok _ => _ | Err _ => _ end) = _ => destruct v end;
    [ | inv_pair H; split; [ apply R_refl | discriminate ] ].
  match type of H with (if ?b then _ else _) = _ => destruct b end;
    [ inv_pair H; split; [ apply R_refl | discriminate ] | ].
  destruct (find_one c (VDoc fs) None sort) as [c1 r1] eqn:E1.
  assert (H1 : R c c1) by eauto using find_one_R.
  destruct r1 as [target|e]; [ | inv_pair H; split; [ assumption | discriminate ] ].
  assert (HE1 : E c c1).
  { destruct (find_one_cases _ _ _ _ _ _ E1) as [[_ Hx] | Hx]; [ discriminate | ].
    apply E_exp. exact Hx. }
  set (upsert := match k with FamDelete => false | FamUpdate _ u _ | FamReplace _ u _ => u end) in H.
  assert (Hgo : forall query,
    (let '(c2, old_r) := match target with
                         | Some _ => find_one c1 query proj []
                         | None => (c1, Ok None)
                         end in
     match old_r with
     | Err e => (c2, Err e)
     | Ok old =>
         let '(c3, wr, query') :=
           match k with
           | FamDelete => let '(c', r) := delete_op c2 query false in (c', r, query)
           | FamUpdate u _ _ | FamReplace u _ _ =>
               let '(c', r) := update pre5 c2 query u false upsert in
               (c', r,
                match r with
                | Ok (VDoc rfs) => match assoc "upserted_id" rfs with
                                   | Some i => if truthy i then VDoc [("_id", i)] else query
                                   | None => query end
                | _ => query
                end)
           end in
         match wr with
         | Err e => (c3, Err e)
         | Ok _ =>
             if match k with FamDelete => false | FamUpdate _ _ a | FamReplace _ _ a => a end then
               match find_one c3 query' proj [] with
               | (c4, Ok r) => (c4, Ok (opt_to_value r))
               | (c4, Err e) => (c4, Err e)
               end
             else (c3, Ok (opt_to_value old))
         end
     end) = (c', r) -> R c1 c').
  { intros query Hq.
    match type of Hq with (match ?t with _ => _ end) = _ => destruct t as [c2 old_r] eqn:E2 end.
    assert (H2 : R c1 c2).
    { destruct target; [ eauto using find_one_R | inv_pair E2; apply R_refl ]. }
    destruct old_r as [old|e]; [ | inv_pair Hq; assumption ].
    match type of Hq with (match ?t with _ => _ end) = _ =>
      destruct t as [[c3 wr] query'] eqn:E3 end.
    assert (H3 : R c1 c3).
    { destruct k.
      - destruct (delete_op c2 query false) as [cx rx] eqn:Ex. inv_pair E3.
        eapply R_trans; [ exact H2 | ]. exact (proj1 (delete_op_RE _ _ _ _ _ Hk Ex)).
      - destruct (update pre5 c2 query u false upsert) as [cx rx] eqn:Ex. inv_pair E3.
        destruct Hk as [Hk1 Hk2]. eauto using update_R.
      - destruct (update pre5 c2 query r0 false upsert) as [cx rx] eqn:Ex. inv_pair E3.
        destruct Hk as [Hk1 Hk2]. eauto using update_R. }
    destruct wr; [ | inv_pair Hq; assumption ].
    match type of Hq with (if ?b then _ else _) = _ => destruct b end; [ | inv_pair Hq; assumption ].
    destruct (find_one c3 query' proj []) as [c4 r4] eqn:E4.
    assert (H4 : R c1 c4) by eauto using find_one_R.
    destruct r4; inv_pair Hq; assumption. }
  assert (Hfin : R c1 c' -> R c c' /\ (is_ok r = true -> E c c')).
  { intros Hx. assert (HE : E c c') by (eapply E_r; eauto).
    split; [ apply E_R; exact HE | intros _; exact HE ]. }
  destruct target as [t|]; [ | destruct upsert eqn:Eup ].
  - match type of H with (match ?q with Some _ => _ | None => _ end) = _ => destruct q as [query|] end;
      [ | inv_pair H; apply Hfin; apply R_refl ].
    apply Hfin. eapply Hgo. exact H.
  - apply Hfin. eapply Hgo. exact H.
  - inv_pair H. apply Hfin. apply R_refl.
Qed.

(* ---------------------------------------------------------------- bulk_write *)
Definition req_ok (rq : bulk_req) : Prop :=
  match rq with
  | BInsert d => ins_ok d
  | BDelete _ _ => AllowDel
  | _ => (forall d, WS d) /\ (forall d, WA d)
  end.

Lemma bulk_exec_R pre5 c rq a c' r : req_ok rq -> bulk_exec pre5 c rq a = (c', r) -> R c c'.
Proof.
  unfold bulk_exec. intros Hk H. destruct rq.
  - destruct d; try (inv_pair H; apply R_refl).
    destruct (insert_doc c (VDoc fs)) as [c0 o] eqn:Ei. inv_pair H. eauto using insert_doc_R.
  - destruct (update pre5 c f u multi upsert) as [c0 o] eqn:Eu. inv_pair H.
    destruct Hk. eauto using update_R.
  - destruct (update pre5 c f r0 false upsert) as [c0 o] eqn:Eu. inv_pair H.
    destruct Hk. eauto using update_R.
  - destruct (delete_op c f multi) as [c0 o] eqn:Ed. inv_pair H.
    exact (proj1 (delete_op_RE _ _ _ _ _ Hk Ed)).
Qed.

Lemma bulk_go_R pre5 : forall rs c ordered index a c' r,
  Forall req_ok rs -> bulk_go pre5 c rs ordered index a = (c', r) -> R c c'.
Proof.
  induction rs as [ | rq rs IH ]; simpl; intros c ordered index a c' r Hk H.
  - inv_pair H. apply R_refl.
  - inversion Hk as [ | ? ? Hrq Hrs ]; subst.
    destruct (bulk_exec pre5 c rq a) as [c0 o] eqn:Ee.
    assert (H0 : R c c0) by eauto using bulk_exec_R.
    destruct o as [a'|e]; [ eauto | ].
    destruct (is_write_error e); [ | inv_pair H; assumption ].
    destruct ordered; [ inv_pair H; assumption | eauto ].
Qed.

Lemma bulk_write_R pre5 c rs ordered c' r :
  Forall req_ok rs -> bulk_write pre5 c rs ordered = (c', r) -> R c c'.
Proof.
  unfold bulk_write. intros Hk H.
  match type of H with (match ?x with Ok _ => _ | Err _ => _ end) = _ => destruct x end;
    [ | inv_pair H; apply R_refl ].
  destruct rs as [ | rq rs ]; [ inv_pair H; apply R_refl | ].
  destruct (bulk_go pre5 c (rq :: rs) ordered 0 (mkAcc 0 0 0 0 0 [] [])) as [c0 o] eqn:Eg.
  inv_pair H. eauto using bulk_go_R.
Qed.

(* a batch without update requests whose requests all succeed has expired the store *)
Lemma bulk_exec_E pre5 c rq a c' a' :
  req_ok rq -> (match rq with BInsert _ | BDelete _ _ => True | _ => False end) ->
  bulk_exec pre5 c rq a = (c', Ok a') -> E c c' /\ b_errors a' = b_errors a.
Proof.
  unfold bulk_exec. intros Hk Hs H. destruct rq; try contradiction.
  - destruct d; try discriminate.
    destruct (insert_doc c (VDoc fs)) as [c0 o] eqn:Ei.
    destruct o as [id|e]; simpl in H; [ | discriminate ]. inv_pair H. simpl.
    split; [ | reflexivity ].
    apply (proj2 (insert_doc_RE _ _ _ _ Ei Hk)). apply okish_ok.
  - destruct (delete_op c f multi) as [c0 o] eqn:Ed.
    destruct o as [v|e]; simpl in H; [ | discriminate ]. inv_pair H. simpl.
    split; [ | reflexivity ].
    apply (proj2 (delete_op_RE _ _ _ _ _ Hk Ed)). reflexivity.
Qed.

Lemma bulk_exec_errs pre5 c rq a c' a' :
  bulk_exec pre5 c rq a = (c', Ok a') -> b_errors a' = b_errors a.
Proof.
  unfold bulk_exec. intros H. destruct rq.
  - destruct d; try discriminate.
    destruct (insert_doc c (VDoc fs)) as [c0 o]. destruct o; simpl in H; inv_pair H. reflexivity.
  - destruct (update pre5 c f u multi upsert) as [c0 o]. destruct o as [rv|e]; simpl in H;
      [ | discriminate ].
    match type of H with context [match ?x with Some _ => _ | None => _ end] => destruct x end;
      inv_pair H; reflexivity.
  - destruct (update pre5 c f r false upsert) as [c0 o]. destruct o as [rv|e]; simpl in H;
      [ | discriminate ].
    match type of H with context [match ?x with Some _ => _ | None => _ end] => destruct x end;
      inv_pair H; reflexivity.
  - destruct (delete_op c f multi) as [c0 o]. destruct o; simpl in H; inv_pair H. reflexivity.
Qed.

Lemma bulk_go_errs pre5 : forall rs c ordered index a c' a',
  bulk_go pre5 c rs ordered index a = (c', Ok a') -> b_errors a <> [] -> b_errors a' <> [].
Proof.
  induction rs as [ | rq rs IH ]; simpl; intros c ordered index a c' a' H Hne.
  - inv_pair H. exact Hne.
  - destruct (bulk_exec pre5 c rq a) as [c0 o] eqn:Ee.
    destruct o as [a0|e].
    + eapply IH; [ exact H | ]. rewrite (bulk_exec_errs _ _ _ _ _ _ Ee). exact Hne.
    + destruct (is_write_error e); [ | discriminate ].
      destruct ordered.
      * inv_pair H. simpl. destruct (b_errors a); discriminate.
      * eapply IH; [ exact H | ]. simpl. destruct (b_errors a); discriminate.
Qed.

Lemma bulk_write_E pre5 c rs ordered c' v :
  Forall req_ok rs ->
  Forall (fun rq => match rq with BInsert _ | BDelete _ _ => True | _ => False end) rs ->
  bulk_write pre5 c rs ordered = (c', Ok v) ->
  get_field "BulkWriteError" v = None -> E c c'.
Proof.
  unfold bulk_write. intros Hk Hs H Hv.
  match type of H with (match ?x with Ok _ => _ | Err _ => _ end) = _ => destruct x end;
    [ | discriminate ].
  destruct rs as [ | rq rs ]; [ discriminate | ].
  destruct (bulk_go pre5 c (rq :: rs) ordered 0 (mkAcc 0 0 0 0 0 [] [])) as [c0 o] eqn:Eg.
  destruct o as [a'|e]; simpl in H; [ | discriminate ]. inv_pair H.
  assert (Hne : b_errors a' = []).
  { unfold bulk_result in Hv. destruct (b_errors a'); [ reflexivity | discriminate ]. }
  simpl in Eg. inversion Hk as [ | ? ? Hrq Hrs ]; subst. inversion Hs as [ | ? ? Hsq Hss ]; subst.
  destruct (bulk_exec pre5 c rq (mkAcc 0 0 0 0 0 [] [])) as [c1 o1] eqn:Ee.
  destruct o1 as [a1|e].
  - destruct (bulk_exec_E _ _ _ _ _ _ Hrq Hsq Ee) as [HE _].
    eapply E_r; [ exact HE | eauto using bulk_go_R ].
  - exfalso. destruct (is_write_error e); [ | discriminate ].
    destruct ordered.
    + inv_pair Eg. discriminate.
    + apply (bulk_go_errs _ _ _ _ _ _ _ _ Eg); [ simpl; discriminate | exact Hne ].
Qed.

(* a batch of inserts only has expired the store whenever it returns (with or without
   captured write errors) *)
Lemma bulk_write_E_ins pre5 c rs ordered c' v :
  Forall req_ok rs ->
  Forall (fun rq => match rq with BInsert _ => True | _ => False end) rs ->
  bulk_write pre5 c rs ordered = (c', Ok v) -> E c c'.
Proof.
  unfold bulk_write. intros Hk Hs H.
  match type of H with (match ?x with Ok _ => _ | Err _ => _ end) = _ => destruct x end;
    [ | discriminate ].
  destruct rs as [ | rq rs ]; [ discriminate | ].
  destruct (bulk_go pre5 c (rq :: rs) ordered 0 (mkAcc 0 0 0 0 0 [] [])) as [c0 o] eqn:Eg.
  destruct o as [a'|e]; simpl in H; [ | discriminate ]. inv_pair H.
  simpl in Eg. inversion Hk as [ | ? ? Hrq Hrs ]; subst. inversion Hs as [ | ? ? Hsq Hss ]; subst.
  destruct rq; try contradiction. unfold bulk_exec in Eg.
  destruct d; try discriminate.
  destruct (insert_doc c (VDoc fs)) as [c1 o1] eqn:Ei.
  destruct (insert_doc_RE _ _ _ _ Ei Hrq) as [_ HE].
  destruct o1 as [id|e]; simpl in Eg.
  - eapply E_r; [ apply HE, okish_ok | eauto using bulk_go_R ].
  - destruct (is_write_error e) eqn:Ew; [ | discriminate ].
    assert (HE1 : E c c1) by (apply HE; intros e' He'; inv_pair He'; exact Ew).
    destruct ordered; [ inv_pair Eg; exact HE1 | ].
    eapply E_r; [ exact HE1 | eauto using bulk_go_R ].
Qed.

End closure.
