(* C03 part A -- $project rewrites each document independently *)
From Coq Require Import ZArith List String Bool Ascii Lia Permutation.
From Verif Require Import Value PyEq BsonOrder Path Update Filter Coll Expr Pipeline.
From Verif Require Import C03Base C03Laws C03Indep.
Import ListNotations.
Open Scope Z_scope.
Open Scope string_scope.
Open Scope list_scope.

Definition proj_method (st : proj_state) (field : string) (v : value) : res (option bool) :=
  let tv := truthy v in
  match ps_method st with
  | None => if negb (field =? "_id") || tv then Ok (Some tv) else Ok None
  | Some true => if negb tv && negb (field =? "_id") then Err EOpFail else Ok (Some true)
  | Some false => if tv && negb (field =? "_id") then Err EOpFail else Ok (Some false)
  end.

Definition cur_of (n : option (list (list (string * value)))) (l : list value) :=
  match n with
  | Some (x :: r) => x :: r
  | _ => map (fun _ : value => @nil (string * value)) l
  end.

Definition proj_new_fn (field : string) (v : value) (dn : value * list (string * value))
  : res (list (string * value)) :=
  match eval [] (fst dn) true v with
  | EV x => Ok (set_key field x (snd dn))
  | EMiss => Ok (snd dn)
  | EE er => Err er
  end.

Lemma project_loop_cons field v fields st l :
  project_loop ((field, v) :: fields) st l =
  let! m := proj_method st field v in
  if is_flag v then
    project_loop fields (mkPS m (if field =? "_id" then ps_filter st else ps_filter st ++ [field])
                              (ps_new st)) l
  else
    let! new' := mapM (proj_new_fn field v) (combine l (cur_of (ps_new st) l)) in
    project_loop fields (mkPS m (ps_filter st) (Some new')) l.
Proof. reflexivity. Qed.

(* the computed-field tables of the two halves and of the whole *)
Inductive new_rel (l1 l2 : list value)
  : option (list (list (string * value))) -> option (list (list (string * value)))
    -> option (list (list (string * value))) -> Prop :=
| NR_none : new_rel l1 l2 None None None
| NR_some n1 n2 : List.length n1 = List.length l1 -> List.length n2 = List.length l2 ->
                  new_rel l1 l2 (Some n1) (Some n2) (Some (n1 ++ n2)).

Definition st_rel (l1 l2 : list value) (s1 s2 s12 : proj_state) : Prop :=
  ps_method s1 = ps_method s12 /\ ps_method s2 = ps_method s12 /\
  ps_filter s1 = ps_filter s12 /\ ps_filter s2 = ps_filter s12 /\
  new_rel l1 l2 (ps_new s1) (ps_new s2) (ps_new s12).

Lemma cur_of_len n l : List.length n = List.length l -> cur_of (Some n) l = n.
Proof.
  intros H. destruct n as [|x r]; [|reflexivity]. destruct l; [reflexivity|discriminate].
Qed.

Lemma cur_of_length n l :
  (forall m, n = Some m -> List.length m = List.length l) -> List.length (cur_of n l) = List.length l.
Proof.
  intros H. destruct n as [m|].
  - rewrite cur_of_len; apply H; reflexivity.
  - simpl. apply map_length.
Qed.

Lemma cur_of_rel l1 l2 n1 n2 n12 :
  new_rel l1 l2 n1 n2 n12 ->
  cur_of n12 (l1 ++ l2) = cur_of n1 l1 ++ cur_of n2 l2 /\
  List.length (cur_of n1 l1) = List.length l1 /\ List.length (cur_of n2 l2) = List.length l2.
Proof.
  intros H. destruct H as [|n1 n2 H1 H2].
  - simpl. rewrite map_app. repeat split; apply map_length.
  - rewrite !cur_of_len; try assumption.
    + repeat split; assumption.
    + rewrite !app_length. lia.
Qed.

Lemma combine_app {A B} (a1 a2 : list A) (b1 b2 : list B) :
  List.length a1 = List.length b1 -> combine (a1 ++ a2) (b1 ++ b2) = combine a1 b1 ++ combine a2 b2.
Proof.
  revert b1. induction a1 as [|x a1 IH]; intros b1 H; destruct b1 as [|y b1]; try discriminate; simpl.
  - reflexivity.
  - f_equal. apply IH. simpl in H. lia.
Qed.

Lemma project_loop_app fields : forall l1 l2 st1 st2 st12 s1 s2,
  st_rel l1 l2 st1 st2 st12 ->
  project_loop fields st1 l1 = Ok s1 -> project_loop fields st2 l2 = Ok s2 ->
  exists s12, project_loop fields st12 (l1 ++ l2) = Ok s12 /\ st_rel l1 l2 s1 s2 s12.
Proof.
  induction fields as [|[field v] fields IH]; intros l1 l2 st1 st2 st12 s1 s2 HR H1 H2.
  - simpl in *. inversion H1; inversion H2; subst. exists st12. split; [reflexivity|exact HR].
  - rewrite project_loop_cons in *.
    destruct HR as (Hm1 & Hm2 & Hf1 & Hf2 & Hn).
    assert (Hpm1 : proj_method st1 field v = proj_method st12 field v) by (unfold proj_method; rewrite Hm1; reflexivity).
    assert (Hpm2 : proj_method st2 field v = proj_method st12 field v) by (unfold proj_method; rewrite Hm2; reflexivity).
    rewrite Hpm1 in H1. rewrite Hpm2 in H2.
    destruct (proj_method st12 field v) as [m|e]; cbn [bind] in *; [|discriminate].
    destruct (is_flag v).
    + eapply IH; [|exact H1|exact H2].
      unfold st_rel; cbn [ps_method ps_filter ps_new]. rewrite Hf1, Hf2. repeat split; try reflexivity. exact Hn.
    + destruct (mapM (proj_new_fn field v) (combine l1 (cur_of (ps_new st1) l1))) as [new1|e] eqn:Hn1;
        cbn [bind] in H1; [|discriminate].
      destruct (mapM (proj_new_fn field v) (combine l2 (cur_of (ps_new st2) l2))) as [new2|e] eqn:Hn2;
        cbn [bind] in H2; [|discriminate].
      destruct (cur_of_rel _ _ _ _ _ Hn) as (Hc & Hl1 & Hl2).
      rewrite Hc. rewrite combine_app by (symmetry; exact Hl1).
      rewrite (mapM_app_ok _ _ _ _ _ Hn1 Hn2). cbn [bind].
      eapply IH; [|exact H1|exact H2].
      unfold st_rel; cbn [ps_method ps_filter ps_new]. rewrite Hf1, Hf2. repeat split; try reflexivity.
      constructor.
      * rewrite (mapM_length _ _ _ Hn1). rewrite combine_length. lia.
      * rewrite (mapM_length _ _ _ Hn2). rewrite combine_length. lia.
Qed.

Lemma project_loop_new_length fields : forall l st s,
  (forall n, ps_new st = Some n -> List.length n = List.length l) ->
  project_loop fields st l = Ok s ->
  forall n, ps_new s = Some n -> List.length n = List.length l.
Proof.
  induction fields as [|[field v] fields IH]; intros l st s Hst H.
  - simpl in H. inversion H; subst. exact Hst.
  - rewrite project_loop_cons in H.
    destruct (proj_method st field v) as [m|e]; cbn [bind] in *; [|discriminate].
    destruct (is_flag v).
    + eapply IH; [|exact H]. exact Hst.
    + destruct (mapM (proj_new_fn field v) (combine l (cur_of (ps_new st) l))) as [new1|e] eqn:Hn1;
        cbn [bind] in H; [|discriminate].
      eapply IH; [|exact H]. cbn [ps_new]. intros n Hn. inversion Hn; subst.
      rewrite (mapM_length _ _ _ Hn1). rewrite combine_length.
      rewrite (cur_of_length _ _ Hst). lia.
Qed.

Definition merge_new (ab : value * list (string * value)) : value :=
  match fst ab with
  | VDoc a => VDoc (fold_left (fun acc kv => set_key (fst kv) (snd kv) acc) (snd ab) a)
  | other => other
  end.

Lemma project_stage_app_ok o l1 l2 r1 r2 :
  project_stage o l1 = Ok r1 -> project_stage o l2 = Ok r2 ->
  project_stage o (l1 ++ l2) = Ok (r1 ++ r2).
Proof.
  unfold project_stage. destruct o; try discriminate. rename fs into fields.
  destruct (project_loop fields (mkPS None [] None) l1) as [s1|e] eqn:Hs1; cbn [bind]; [|discriminate].
  destruct (project_loop fields (mkPS None [] None) l2) as [s2|e] eqn:Hs2; cbn [bind]; [|discriminate].
  assert (HR0 : st_rel l1 l2 (mkPS None [] None) (mkPS None [] None) (mkPS None [] None)).
  { unfold st_rel; simpl. repeat split; constructor. }
  destruct (project_loop_app fields l1 l2 _ _ _ s1 s2 HR0 Hs1 Hs2) as (s12 & Hs12 & HR).
  rewrite Hs12. cbn [bind]. destruct HR as (Hm1 & Hm2 & Hf1 & Hf2 & Hn).
  rewrite Hm1, Hm2, Hf1, Hf2.
  set (incl := match ps_method s12 with Some true => true | _ => false end).
  set (include_id := match assoc "_id" fields with Some v => negb (py_eq v (VBool false)) | None => true end).
  set (fl := if Bool.eqb incl include_id then ps_filter s12 ++ ["_id"] else ps_filter s12).
  destruct fl as [|k fl].
  - destruct Hn as [|n1 n2 Hl1 Hl2]; [discriminate|].
    intros H1 H2. inversion H1; inversion H2; subst. rewrite map_app. reflexivity.
  - destruct (negb (forallb (fun k0 => path_modelled (split_dots k0)) (k :: fl))); [discriminate|].
    destruct (combine_tree (spec_depth_keys (k :: fl)) (k :: fl)) as [tree|e]; cbn [bind]; [|discriminate].
    destruct tree as [|cs]; [discriminate|].
    rewrite map_app.
    destruct Hn as [|n1 n2 Hl1 Hl2].
    + intros H1 H2. inversion H1; inversion H2; subst. reflexivity.
    + destruct n1 as [|x1 n1].
      * destruct l1; [|discriminate]. simpl. intros H1 H2. inversion H1; subst. simpl. exact H2.
      * destruct n2 as [|x2 n2].
        -- destruct l2; [|discriminate]. simpl. rewrite !app_nil_r. intros H1 H2. inversion H2; subst.
           rewrite app_nil_r. exact H1.
        -- cbn [app]. intros H1 H2. inversion H1; inversion H2; subst.
           change (x1 :: n1 ++ x2 :: n2) with ((x1 :: n1) ++ (x2 :: n2)).
           rewrite combine_app by (rewrite map_length; symmetry; exact Hl1).
           rewrite map_app. reflexivity.
Qed.

Lemma project_stage_length o l r : project_stage o l = Ok r -> List.length r = List.length l.
Proof.
  unfold project_stage. destruct o; try discriminate. rename fs into fields.
  destruct (project_loop fields (mkPS None [] None) l) as [s|e] eqn:Hs; cbn [bind]; [|discriminate].
  assert (Hlen : forall n, ps_new s = Some n -> List.length n = List.length l).
  { eapply project_loop_new_length; [|exact Hs]. simpl. discriminate. }
  destruct (if Bool.eqb _ _ then _ else _) as [|k fl].
  - destruct (ps_new s) as [n|]; [|discriminate]. intros H. inversion H. rewrite map_length. apply Hlen. reflexivity.
  - destruct (negb _); [discriminate|].
    destruct (combine_tree _ _) as [tree|e]; cbn [bind]; [|discriminate].
    destruct tree as [|cs]; [discriminate|].
    destruct (ps_new s) as [[|x n]|] eqn:Hn; intros H; inversion H.
    + apply map_length.
    + rewrite map_length, combine_length, map_length. rewrite (Hlen _ eq_refl). lia.
    + apply map_length.
Qed.

(* 7. the per-document stages, together *)
Lemma independent_law : forall (db : dbmap) o l1 l2,
  (forall r1 r2, add_fields o l1 = Ok r1 -> add_fields o l2 = Ok r2 -> add_fields o (l1 ++ l2) = Ok (r1 ++ r2)) /\
  (forall r, add_fields o (l1 ++ l2) = Ok r ->
     exists r1 r2, add_fields o l1 = Ok r1 /\ add_fields o l2 = Ok r2 /\ r = r1 ++ r2) /\
  (forall r, add_fields o l1 = Ok r -> List.length r = List.length l1) /\
  replace_root o (l1 ++ l2) =
    match replace_root o l1 with
    | Ok r1 => match replace_root o l2 with Ok r2 => Ok (r1 ++ r2) | Err e => Err e end
    | Err e => Err e end /\
  (forall r, replace_root o l1 = Ok r -> List.length r = List.length l1) /\
  (forall r1 r2, project_stage o l1 = Ok r1 -> project_stage o l2 = Ok r2 ->
     project_stage o (l1 ++ l2) = Ok (r1 ++ r2)) /\
  (forall r, project_stage o l1 = Ok r -> List.length r = List.length l1) /\
  lookup_stage db o (l1 ++ l2) =
    match lookup_stage db o l1 with
    | Ok r1 => match lookup_stage db o l2 with Ok r2 => Ok (r1 ++ r2) | Err e => Err e end
    | Err e => Err e end /\
  (forall r, lookup_stage db o l1 = Ok r -> List.length r = List.length l1).
Proof.
  intros db o l1 l2.
  split; [intros r1 r2; apply add_fields_app_ok|].
  split; [intros r; apply add_fields_app_inv|].
  split; [intros r; apply add_fields_length|].
  split; [apply replace_root_app|].
  split; [intros r; apply replace_root_length|].
  split; [intros r1 r2; apply project_stage_app_ok|].
  split; [intros r; apply project_stage_length|].
  split; [apply lookup_stage_app|intros r; apply lookup_stage_length].
Qed.
