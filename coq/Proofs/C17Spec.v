(* C17: the specification side. spec_step on a well-formed abstract catalog acts on the view
   a_get exactly as vstep, and answers as vout_ok prescribes. *)
From Coq Require Import ZArith List String Bool Ascii Permutation Lia.
From Verif Require Import Value Catalog C17Base.
Import ListNotations.
Open Scope string_scope.
Open Scope list_scope.

Lemma assoc_opt_aux {X} (o : option (list (string * X))) c :
  match o with Some d => assoc c d | None => None end
  = assoc c (match o with Some d => d | None => [] end).
Proof. destruct o; reflexivity. Qed.

Lemma keys_opt_aux {X} (o : option (list (string * X))) :
  match o with Some d => map fst d | None => [] end
  = keys (match o with Some d => d | None => [] end).
Proof. destruct o; reflexivity. Qed.

Lemma a_get_gget (a : acat) db c : a_get a db c = assoc c (gget a db).
Proof. exact (assoc_opt_aux (assoc db a) c). Qed.

Lemma a_get_set_key (a : acat) db (d : adb) db' c' :
  a_get (set_key db d a) db' c' = if db' =? db then assoc c' d else a_get a db' c'.
Proof. unfold a_get. rewrite assoc_set_key. destruct (db' =? db); reflexivity. Qed.

Lemma a_get_put (a : acat) db c x : veq (a_get (a_put a db c x)) (vupd (a_get a) db c (Some x)).
Proof.
  intros db' c'. rewrite a_get_gget.
  change (a_put a db c x) with (set_key db (set_key c x (gget a db)) a).
  rewrite gget_set_key. unfold vupd. destruct (db' =? db) eqn:E; simpl.
  - apply String.eqb_eq in E; subst db'. rewrite assoc_set_key, a_get_gget. reflexivity.
  - rewrite a_get_gget. reflexivity.
Qed.

Lemma WF2_a_put (a : acat) db c x : WF2 a -> WF2 (a_put a db c x).
Proof.
  intros H. change (a_put a db c x) with (set_key db (set_key c x (gget a db)) a).
  apply WF2_set_key; [assumption|]. apply NoDup_set_key. apply (proj2 H).
Qed.

Lemma a_get_del (a : acat) db c : WF2 a -> veq (a_get (a_del a db c)) (vupd (a_get a) db c None).
Proof.
  intros H db' c'. unfold a_del. destruct (assoc db a) as [d|] eqn:E.
  - assert (Hd : gget a db = d) by exact (gget_assoc _ _ _ E).
    rewrite a_get_set_key. unfold vupd. destruct (db' =? db) eqn:E2; simpl.
    + apply String.eqb_eq in E2; subst db'.
      rewrite assoc_del_key by (rewrite <- Hd; apply (proj2 H)).
      rewrite a_get_gget, Hd. reflexivity.
    + reflexivity.
  - unfold vupd. destruct (db' =? db) eqn:E2; simpl; [|reflexivity].
    apply String.eqb_eq in E2; subst db'. destruct (c' =? c); [|reflexivity].
    unfold a_get. rewrite E. reflexivity.
Qed.

Lemma WF2_a_del (a : acat) db c : WF2 a -> WF2 (a_del a db c).
Proof.
  intros H. unfold a_del. destruct (assoc db a) as [d|] eqn:E; [|assumption].
  apply WF2_set_key; [assumption|]. apply NoDup_del_key.
  assert (Hd : gget a db = d) by exact (gget_assoc _ _ _ E).
  rewrite <- Hd. apply (proj2 H).
Qed.

Lemma a_get_deldb (a : acat) db :
  WF2 a -> veq (a_get (del_key db a)) (fun db' c' => if db' =? db then None else a_get a db' c').
Proof.
  intros H db' c'. unfold a_get. rewrite assoc_del_key by apply (proj1 H).
  destruct (db' =? db); reflexivity.
Qed.

(* which databases the specification lists *)
Definition adb_nonempty (a : acat) (db : string) : bool :=
  match assoc db a with Some (_ :: _) => true | _ => false end.

Lemma adb_nonempty_iff (a : acat) db : adb_nonempty a db = true <-> exists c, a_get a db c <> None.
Proof.
  unfold adb_nonempty, a_get. destruct (assoc db a) as [[|[c x] d]|].
  - split; [discriminate|]. intros [c Hc]. exfalso. apply Hc. reflexivity.
  - split; [|reflexivity]. intros _. exists c. simpl. rewrite String.eqb_refl. discriminate.
  - split; [discriminate|]. intros [c Hc]. exfalso. apply Hc. reflexivity.
Qed.

Lemma spec_list_colls (a : acat) db :
  WF2 a ->
  let l := List.filter (fun n => negb (is_system n))
                       (match assoc db a with Some d => map fst d | None => [] end) in
  NoDup l /\ forall n, In n l <-> (is_system n = false /\ a_get a db n <> None).
Proof.
  intros H l.
  assert (Hl : l = List.filter (fun n => negb (is_system n)) (keys (gget a db))).
  { exact (f_equal _ (keys_opt_aux (assoc db a))). }
  rewrite Hl. split.
  - apply NoDup_filter_str. apply (proj2 H).
  - intros n. rewrite filter_In, negb_true_iff, a_get_gget, assoc_Some_keys. tauto.
Qed.

Lemma spec_list_dbs (a : acat) :
  WF2 a ->
  let l := map fst (List.filter (fun kd : string * adb => match snd kd with [] => false | _ => true end) a) in
  NoDup l /\ forall n, In n l <-> exists c, a_get a n c <> None.
Proof.
  intros H l. split.
  - apply (NoDup_keys_filter _ a (proj1 H)).
  - intros n. rewrite <- adb_nonempty_iff. unfold l, adb_nonempty. rewrite in_map_iff. split.
    + intros [[k d] [Hk Hin]]. simpl in Hk; subst k. apply filter_In in Hin. destruct Hin as [Hin Hne].
      assert (Ha : @assoc adb n a = Some d) by exact (In_assoc _ _ _ (proj1 H) Hin).
      rewrite Ha. simpl in Hne. destruct d; [discriminate|reflexivity].
    + destruct (assoc n a) as [d|] eqn:E; [|discriminate]. intros Hne.
      exists (n, d). split; [reflexivity|]. apply filter_In. split; [exact (assoc_In _ _ _ E)|].
      simpl. destruct d; [discriminate|reflexivity].
Qed.

Theorem spec_char (a : acat) o :
  WF2 a ->
  WF2 (fst (spec_step a o)) /\
  veq (a_get (fst (spec_step a o))) (vstep (a_get a) o) /\
  vout_ok (a_get a) o (snd (spec_step a o)).
Proof.
  intros H.
  pose proof (veq_refl (a_get a)) as Hrefl.
  destruct o; cbn [spec_step vstep vout_ok vout].
  - (* KRead *) cbn [fst snd]. auto.
  - (* KInsert *)
    destruct (a_get a db c) as [[ids ix]|] eqn:E.
    + destruct (existsb (Z.eqb id) ids); cbn [fst snd].
      * auto.
      * split; [apply WF2_a_put; assumption|]. split; [apply a_get_put|reflexivity].
    + cbn [fst snd]. split; [apply WF2_a_put; assumption|]. split; [apply a_get_put|reflexivity].
  - (* KDeleteAll *)
    destruct (a_get a db c) as [[ids ix]|] eqn:E; cbn [fst snd].
    + split; [apply WF2_a_put; assumption|]. split; [apply a_get_put|reflexivity].
    + auto.
  - (* KCreateCollection *)
    destruct (negb (valid_name c)); cbn [fst snd]; [auto|].
    destruct (a_get a db c) as [x|] eqn:E.
    + destruct (is_system c); cbn [fst snd]; auto.
    + cbn [fst snd]. split; [apply WF2_a_put; assumption|]. split; [apply a_get_put|reflexivity].
  - (* KCreateIndex *)
    destruct (a_get a db c) as [[ids ix]|] eqn:E; cbn [fst snd];
      (split; [apply WF2_a_put; assumption|]; split; [apply a_get_put|reflexivity]).
  - (* KDropIndex *)
    destruct (a_get a db c) as [[ids ix]|] eqn:E; [destruct (mem_str name ix)|]; cbn [fst snd]; auto.
    split; [apply WF2_a_put; assumption|]. split; [apply a_get_put|reflexivity].
  - (* KDropIndexes *)
    destruct (a_get a db c) as [[ids ix]|] eqn:E; cbn [fst snd]; auto.
    split; [apply WF2_a_put; assumption|]. split; [apply a_get_put|reflexivity].
  - (* KRename *)
    destruct (negb (valid_name new_name)); cbn [fst snd]; [auto|].
    assert (Hmove : forall x, WF2 (a_put (a_del a db c) db new_name x) /\
                              veq (a_get (a_put (a_del a db c) db new_name x))
                                  (vupd (vupd (a_get a) db c None) db new_name (Some x))).
    { intros x. split; [apply WF2_a_put, WF2_a_del; assumption|].
      eapply veq_trans; [apply a_get_put|].
      intros db' c'. unfold vupd at 1 2. destruct ((db' =? db) && (c' =? new_name)); [reflexivity|].
      apply a_get_del; assumption. }
    destruct (a_get a db c) as [x|] eqn:E; cbn [fst snd]; [|auto].
    destruct (c =? new_name); cbn [fst snd]; [auto|].
    destruct (a_get a db new_name) as [y|] eqn:E2; [destruct drop_target|]; cbn [fst snd]; auto;
      (destruct (Hmove x) as [Hw Hv]; split; [exact Hw|]; split; [exact Hv|reflexivity]).
  - (* KDropCollection *)
    cbn [fst snd]. split; [apply WF2_a_del; assumption|]. split; [apply a_get_del; assumption|reflexivity].
  - (* KDropDatabase *)
    cbn [fst snd]. split; [apply WF2_del_key; assumption|]. split; [apply a_get_deldb; assumption|reflexivity].
  - (* KListCollections *)
    cbn [fst snd]. split; [assumption|]. split; [assumption|].
    destruct (spec_list_colls a db H) as [Hd Hl]. eexists. split; [reflexivity|]. split; assumption.
  - (* KListDatabases *)
    cbn [fst snd]. split; [assumption|]. split; [assumption|].
    destruct (spec_list_dbs a H) as [Hd Hl]. eexists. split; [reflexivity|]. split; assumption.
  - (* KIndexInfo *)
    cbn [fst snd]. auto.
Qed.
