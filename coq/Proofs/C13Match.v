(* C13 proofs, part 3: the last clause of c13_upsert_ok - "an equality-only filter the update
   does not overwrite is matched by the upserted document" - for filters whose keys are
   dot-free (c13_flat_filter). *)
From Coq Require Import ZArith List String Bool Ascii Lia.
From Verif Require Import Value PyEq BsonOrder Path Filter FilterSpec Update Project Coll
                          HistCheck HistProps HistGuards HistPropCheck ProjectSpec Cursor UpdateLaws.
From Verif.Proofs Require Import C01Values C01Loop C12Base C02Base C02Frame C02Local C02Ops C02Wf.
From Verif.Proofs Require C02Step C02History C02Replace C05Values C15Proofs.
From Verif.Proofs Require Import C13Proofs C13Id.
Import ListNotations.
Open Scope Z_scope.
Open Scope string_scope.
Open Scope list_scope.

(* ---------------------------------------------------------------- equality leaves *)
(* the operand of an equality-only filter field: a non-document literal, or {$eq: literal} *)
Definition eq_leaf (x : value) : bool :=
  match x with
  | VDoc [("$eq", v)] => negb (is_doc v)
  | VDoc _ => false
  | _ => true
  end.
Definition lit (x : value) : value :=
  match x with VDoc [("$eq", v)] => v | _ => x end.

Lemma eq_leaf_spec x :
  eq_leaf x = true ->
  (is_doc x = false /\ lit x = x) \/ (exists v, x = VDoc [("$eq", v)] /\ is_doc v = false /\ lit x = v).
Proof.
  destruct x as [| | | | | | | fs |]; try (intros _; left; split; reflexivity).
  destruct fs as [| [k v] [| kv2 fs]]; try discriminate.
  - intro H. right. exists v.
    assert (Ek : k = "$eq").
    { destruct k as [| a1 k]; [discriminate H|].
      destruct a1 as [[] [] [] [] [] [] [] []]; try (cbn in H; discriminate H).
      destruct k as [| a2 k]; [discriminate H|].
      destruct a2 as [[] [] [] [] [] [] [] []]; try (cbn in H; discriminate H).
      destruct k as [| a3 k]; [discriminate H|].
      destruct a3 as [[] [] [] [] [] [] [] []]; try (cbn in H; discriminate H).
      destruct k as [| a4 k]; [|cbn in H; discriminate H]. reflexivity. }
    subst k. cbn in H. apply negb_true_iff in H. auto.
  - destruct k as [| a1 k]; [discriminate|].
    destruct a1 as [[] [] [] [] [] [] [] []]; try discriminate.
    destruct k as [| a2 k]; [discriminate|].
    destruct a2 as [[] [] [] [] [] [] [] []]; try discriminate.
    destruct k as [| a3 k]; [discriminate|].
    destruct a3 as [[] [] [] [] [] [] [] []]; try discriminate.
    destruct k as [| a4 k]; discriminate.
Qed.

Lemma eq_leaf_discard x : eq_leaf x = true -> discard_ops x = (lit x, false).
Proof.
  intro H. destruct (eq_leaf_spec x H) as [[Hd ->]|(v & -> & Hv & _)].
  - destruct x; try discriminate; reflexivity.
  - reflexivity.
Qed.

(* ---------------------------------------------------------------- the matcher on one field *)
Lemma parse_clause_field k a : starts_dollar k = false -> k <> "" ->
  parse_clause_with parse_search parse_filter k a = CField k (parse_search a).
Proof.
  intros Hk Hne. unfold parse_clause_with.
  assert (E0 : (k =? "") = false).
  { destruct (k =? "") eqn:E; [|reflexivity]. apply String.eqb_eq in E. congruence. }
  pose proof (fun s (H : starts_dollar s = true) => C02Replace.sd_neq k s Hk H) as N.
  rewrite (N "$comment" eq_refl), (N "$and" eq_refl), (N "$or" eq_refl), (N "$nor" eq_refl),
    (N "$not" eq_refl), (N "$expr" eq_refl), E0. cbn [orb].
  unfold top_level_names. cbn [mem_str].
  rewrite (N "$expr" eq_refl), (N "$text" eq_refl), (N "$where" eq_refl), (N "$jsonSchema" eq_refl).
  cbn [orb]. rewrite Hk. reflexivity.
Qed.

Definition ok_or_err (r : res bool) : Prop := r = Ok true \/ exists e, r = Err e.

Lemma cand_flat k dfs : k <> "" -> candidates [k] (VDoc dfs) = [assoc k dfs].
Proof. intro H. destruct k; [congruence|]. reflexivity. Qed.

Lemma eval_field_lit k x dfs :
  split_dots k = [k] -> k <> "" -> is_doc x = false -> WF x -> assoc k dfs = Some x ->
  ok_or_err (eval_field k (SVal x) (VDoc dfs)).
Proof.
  intros Hs Hne Hd Hw Ha. rewrite eval_field_SVal. cbv zeta. rewrite Hs.
  destruct (negb (path_modelled [k])); [right; eexists; reflexivity|]. left.
  rewrite (cand_flat k dfs Hne), Ha.
  pose proof (C05Values.py_eq_refl_wf x Hw) as Hr.
  assert (Hn : search_neg (SVal x) = false) by (destruct x; try reflexivity; discriminate).
  rewrite Hn. unfold field_loop, sval_test.
  destruct x; try discriminate; cbn [bind negb andb orb]; rewrite ?Hr, ?orb_true_r; reflexivity.
Qed.

Lemma parse_search_eq y : parse_search (VDoc [("$eq", y)]) = SOps (FCons (OEq y) FNil).
Proof. reflexivity. Qed.

Lemma parse_search_nondoc x : is_doc x = false -> parse_search x = SVal x.
Proof. destruct x; try discriminate; reflexivity. Qed.

Lemma eval_field_eq k y dfs :
  split_dots k = [k] -> k <> "" -> is_doc y = false -> WF y -> assoc k dfs = Some y ->
  ok_or_err (eval_field k (SOps (FCons (OEq y) FNil)) (VDoc dfs)).
Proof.
  intros Hs Hne Hd Hw Ha. rewrite eval_field_SOps. cbv zeta. rewrite Hs.
  destruct (negb (path_modelled [k])); [right; eexists; reflexivity|]. left.
  rewrite (cand_flat k dfs Hne), Ha.
  pose proof (C05Values.py_eq_refl_wf y Hw) as Hr.
  cbn [is_exists_false andb eval_all_pre bind fops_has_pos fops_has_neg].
  unfold field_loop, sops_test. cbn [fops_unknown eval_fops eval_fop].
  assert (He : eq_op (Some y) y = Ok true).
  { unfold eq_op, list_expand, operator_eq. destruct y; try discriminate; cbn [is_arr]; rewrite Hr;
      reflexivity. }
  rewrite He. reflexivity.
Qed.

(* the whole filter: every field is an equality leaf whose literal the document holds *)
Lemma matches_eq_fields dfs : forall sfs,
  (forall k x, In (k, x) sfs ->
     starts_dollar k = false /\ k <> "" /\ split_dots k = [k] /\ eq_leaf x = true /\
     WF (lit x) /\ assoc k dfs = Some (lit x)) ->
  ok_or_err (matches (parse_filter (VDoc sfs)) (VDoc dfs)).
Proof.
  induction sfs as [| [k x] sfs IH]; intro H.
  - left. reflexivity.
  - destruct (H k x (or_introl eq_refl)) as (Hk & Hne & Hs & Hl & Hw & Ha).
    assert (IH' := IH (fun k0 x0 Hin => H k0 x0 (or_intror Hin))).
    change (parse_filter (VDoc ((k, x) :: sfs)))
      with (FAnd (parse_clause_with parse_search parse_filter k x) (parse_filter (VDoc sfs))).
    rewrite (parse_clause_field k x Hk Hne).
    change (matches (FAnd (CField k (parse_search x)) (parse_filter (VDoc sfs))) (VDoc dfs))
      with (let! b := eval_field k (parse_search x) (VDoc dfs) in
            if b then matches (parse_filter (VDoc sfs)) (VDoc dfs) else Ok false).
    assert (HF : ok_or_err (eval_field k (parse_search x) (VDoc dfs))).
    { destruct (eq_leaf_spec x Hl) as [[Hd Hx]|(v & -> & Hv & Hx)].
      - rewrite (parse_search_nondoc x Hd). rewrite Hx in *. apply eval_field_lit; assumption.
      - rewrite parse_search_eq. cbn [lit] in *. apply eval_field_eq; assumption. }
    destruct HF as [-> | [e ->]]; [exact IH'|right; exists e; reflexivity].
Qed.

(* ---------------------------------------------------------------- the upsert, opened up *)
(* the proof of C13Id.update_upsert_id with the intermediate objects kept: the seed, the
   document the update builds from it, the insertion *)
Lemma insert_doc_stored c fs c' id :
  noTTL c -> insert_doc c (VDoc fs) = (c', Ok id) ->
  exists fs1, docs c' = docs c ++ [(id, patch (VDoc fs1))] /\
              forall k x, assoc k fs = Some x -> assoc k fs1 = Some x.
Proof.
  intros HT H. unfold insert_doc in H.
  destruct (assoc "_id" fs) as [i|] eqn:Hid; cbv beta iota zeta in H.
  - destruct (negb (id_modelled (patch i))); [destruct (patch i); discriminate|].
    rewrite (expire_noTTL c HT) in H.
    destruct (store_get (patch i) (docs c)) eqn:Hget; [discriminate|].
    destruct (ensure_uniques _ _) as [touched|e] in H.
    + rewrite expire_if_noTTL in H by exact HT.
      inversion H; subst. exists fs. cbn [docs with_docs with_docs_w idx]. auto.
    + destruct (expire _) in H; discriminate.
  - set (c0 := mkColl (docs c) (idx c) (forced c) (next_oid c + 1) (now c) (odocs c)) in *.
    assert (HT0 : noTTL c0) by exact HT.
    cbn [id_modelled negb] in H.
    rewrite (expire_noTTL c0 HT0) in H.
    destruct (store_get (VOid (next_oid c)) (docs c0)) eqn:Hget; [discriminate|].
    destruct (ensure_uniques _ _) as [touched|e] in H.
    + rewrite expire_if_noTTL in H by exact HT0.
      inversion H; subst. exists (fs ++ [("_id", VOid (next_oid c))]).
      cbn [docs with_docs with_docs_w idx c0]. split; [reflexivity|].
      intros k x Hk. apply assoc_app_some. exact Hk.
    + destruct (expire _) in H; discriminate.
Qed.

Lemma update_upsert_open pre5 c ffs u multi c' v :
  noTTL c -> WF (VDoc ffs) -> WF u ->
  c13_writes_id u = false -> c13_odd_filter (VDoc ffs) = false ->
  (first_key_dollar u = Some true -> c13_id_subfield u = false) ->
  scan (patch (VDoc ffs)) (docs c) = Ok [] ->
  update pre5 c (VDoc ffs) u multi true = (c', Ok v) ->
  exists ufs id0 expanded c3 fs' fs1 new_id,
    patch u = VDoc ufs /\
    (assoc "_id" (C02Step.patch_fields ffs) = Some id0 \/
     assoc "_id" (C02Step.patch_fields ffs) = None \/
     exists i, assoc "_id" (C02Step.patch_fields ffs) = Some i /\ is_null i = true) /\
    expand_dots (set_key "_id" id0 (C02Step.patch_fields ffs)) = Ok expanded /\
    WF (VDoc (set_key "_id" id0 (C02Step.patch_fields ffs))) /\
    WF (VDoc expanded) /\
    (forall k, In k (map fst expanded) -> starts_dollar k = false) /\
    apply_update (VDoc (C02Step.patch_fields ffs)) (VDoc ufs) true (now c3)
                 (fst (discard_ops (VDoc expanded))) = Ok (VDoc fs') /\
    docs c' = docs c ++ [(new_id, patch (VDoc fs1))] /\
    (forall k x, assoc k fs' = Some x -> assoc k fs1 = Some x).
Proof.

  intros HT Hwf Hwu Hwr Hodd Hsub Hscan H.
  destruct (odd_filter_ok _ Hodd) as [ffs0 [Eff [Fh Fi Fc]]]. injection Eff as <-.
  unfold update in H.
  rewrite C02Step.patch_doc in *.
  set (sfs := C02Step.patch_fields ffs) in *.
  pose proof (C02Step.wf_patch _ Hwf) as Hwsf. rewrite C02Step.patch_doc in Hwsf. fold sfs in Hwsf.
  pose proof (C02Step.wf_patch _ Hwu) as Hwpu.
  pose proof (C02Step.first_key_dollar_patch u) as Hfk.
  pose proof (C02Step.addressed_patch u) as Hadr.
  assert (Hunone : forall ufs, patch u = VDoc ufs -> assoc "_id" ufs = None).
  { intros ufs E. destruct u as [| | | | |us tz| |ufs0|]; try discriminate; [destruct tz; discriminate|].
    rewrite C02Step.patch_doc in E. inversion E; subst. rewrite assoc_patch_fields.
    unfold c13_writes_id in Hwr. apply orb_false_iff in Hwr. destruct Hwr as [_ Hk].
    destruct (assoc "_id" ufs0) eqn:Ea; [|reflexivity].
    apply C02Frame.has_key_assoc_some in Ea. congruence. }
  destruct (patch u) as [| | | | | | |ufs|] eqn:Hpu; try discriminate.
  specialize (Hunone ufs eq_refl).
  destruct (empty_operator pre5 (VDoc ufs)); [discriminate|].
  rewrite (expire_noTTL c HT) in H.
  destruct (match docs c with [] => filter_applies (VDoc sfs) (VDoc []) | _ => Ok true end);
    [|discriminate].
  rewrite (scan_nil_loop _ _ _ _ _ _ _ Hscan) in H.
  cbn [negb orb Z.eqb] in H. rewrite Hunone in H.
  cbn [get_field]. unfold nn.
  set (i_opt := match assoc "_id" sfs with
                | Some i => if is_null i then None else Some i | None => None end) in *.
  (* the id selected for the seed *)
  assert (Hsel : exists c3 id0,
            (match i_opt with
             | Some i => (c, i)
             | None => (mkColl (docs c) (idx c) (forced c) (next_oid c + 1) (now c) (odocs c),
                        VOid (next_oid c))
             end) = (c3, id0) /\ noTTL c3 /\ is_null id0 = false /\
            c13_has_dollar_key id0 = false /\ patch id0 = id0 /\
            match i_opt with Some i => id0 = i | None => exists n, id0 = VOid n end /\
            (assoc "_id" sfs = Some id0 \/ assoc "_id" sfs = None \/
             exists i, assoc "_id" sfs = Some i /\ is_null i = true)).
  { unfold i_opt. destruct (assoc "_id" sfs) as [i|] eqn:Ei.
    - destruct (is_null i) eqn:Hn.
      + eexists _, _. split; [reflexivity|]. split; [exact HT|]. split; [reflexivity|].
        split; [reflexivity|]. split; [reflexivity|]. split; [eexists; reflexivity|].
        right. right. exists i. auto.
      + assert (Hi0 : exists i0, assoc "_id" ffs = Some i0 /\ i = patch i0).
        { unfold sfs in Ei. rewrite assoc_patch_fields in Ei.
          destruct (assoc "_id" ffs) as [i0|]; [|discriminate]. inversion Ei; subst. eauto. }
        destruct Hi0 as [i0 [Ei0 ->]].
        eexists _, _. split; [reflexivity|]. split; [exact HT|]. split; [exact Hn|].
        split; [rewrite hdk_patch; apply Fc; exact Ei0|].
        split; [apply C02Step.patch_idem|]. split; [reflexivity|]. left. reflexivity.
    - eexists _, _. split; [reflexivity|]. split; [exact HT|]. split; [reflexivity|].
      split; [reflexivity|]. split; [reflexivity|]. split; [eexists; reflexivity|].
      right. left. reflexivity. }
  destruct Hsel as [c3 [id0 [Esel [HT3 [Hnn [Hclean [Hpid [Hsrc Hrel]]]]]]]].
  rewrite Esel in H.
  destruct (expand_dots (set_key "_id" id0 sfs)) as [expanded|e] eqn:Ex; [|discriminate].
  (* the seed carries id0 *)
  assert (Hwid : WF id0).
  { destruct Hrel as [E|[E|[i [E Hi]]]].
    - exact (wf_doc_assoc sfs "_id" id0 Hwsf E).
    - unfold i_opt in Hsrc. rewrite E in Hsrc. destruct Hsrc as [n ->]. reflexivity.
    - unfold i_opt in Hsrc. rewrite E, Hi in Hsrc. destruct Hsrc as [n ->]. reflexivity. }
  assert (Hwset : WF (VDoc (set_key "_id" id0 sfs))) by (apply wf_set_key; assumption).
  pose proof (expand_dots_wf _ _ Hwset Ex) as Hwexp.
  assert (Hexp_id : assoc "_id" expanded = Some id0).
  { unfold expand_dots in Ex.
    destruct (assoc "_id" sfs) as [i|] eqn:Ei.
    - (* the filter has an _id key: replaced in place *)
      rewrite (go_id_value _ _ _ _ Ex).
      + rewrite assoc_set_key. reflexivity.
      + apply wf_doc_iff in Hwset. exact (proj1 Hwset).
      + rewrite (keys_set_key_present _ _ _ _ Ei). unfold sfs. rewrite patch_fields_keys.
        apply Fi. rewrite <- patch_fields_keys. fold sfs. eapply assoc_Some_key. exact Ei.
    - (* no _id key: appended at the end *)
      rewrite (set_key_absent _ _ _ Ei) in Ex.
      destruct (existsb (fun kv => match split_dots (fst kv) with
                                   | h :: _ :: _ => h =? "_id" | _ => false end) sfs) eqn:Eb.
      + exfalso. apply existsb_exists in Eb. destruct Eb as [[k x] [Hin Hk]]. cbn [fst] in Hk.
        destruct (split_dots k) as [|h [|q rest]] eqn:Es; try discriminate.
        apply String.eqb_eq in Hk. subst h.
        apply (go_id_blocked _ _ _ _ _ Ex). right. exists k, q, rest. split; [|exact Es].
        apply in_map_iff. exists (k, x). auto.
      + rewrite (go_id_value _ _ _ _ Ex).
        * rewrite assoc_app_none' by exact Ei. reflexivity.
        * rewrite map_app. simpl. apply NoDup_app_end; [apply wf_doc_iff in Hwsf; exact (proj1 Hwsf)|].
          apply assoc_none_notin. exact Ei.
        * intros k Hk Hne. rewrite map_app in Hk. apply in_app_or in Hk.
          destruct Hk as [Hk|[<-|[]]]; [|simpl in Hne; congruence].
          apply in_map_iff in Hk. destruct Hk as [[k' x] [E Hin]]. simpl in E. subst k'.
          pose proof (existsb_false_In _ _ Eb (k, x) Hin) as Hf. cbv beta in Hf. cbn [fst] in Hf.
          unfold hd_id. destruct (split_dots k) as [|h [|q rest]] eqn:Es; try reflexivity; [|exact Hf].
          destruct (h =? "_id") eqn:Eh; [|reflexivity]. apply String.eqb_eq in Eh. subst h.
          apply split_dots_single in Es. congruence. }
  assert (Hexp_keys : forall k, In k (map fst expanded) -> starts_dollar k = false).
  { intros k Hk. unfold expand_dots in Ex.
    destruct (go_top_keys _ _ _ _ _ Ex Hk) as [[]|[k0 [Hk0 Hh]]].
    destruct (split_dots k0) as [|h rest] eqn:Es; [discriminate|]. simpl in Hh. inversion Hh; subst h.
    destruct (assoc "_id" sfs) as [i|] eqn:Ei.
    - rewrite (keys_set_key_present _ _ _ _ Ei) in Hk0. unfold sfs in Hk0. rewrite patch_fields_keys in Hk0.
      exact (Fh k0 Hk0 k rest Es).
    - rewrite (set_key_absent _ _ _ Ei), map_app in Hk0. apply in_app_or in Hk0.
      destruct Hk0 as [Hk0|[<-|[]]].
      + unfold sfs in Hk0. rewrite patch_fields_keys in Hk0. exact (Fh k0 Hk0 k rest Es).
      + cbn [fst] in Es. rewrite split_id in Es. inversion Es; subst. reflexivity. }
  assert (Hwsd : WF (fst (discard_ops (VDoc expanded)))) by (apply discard_ops_wf; exact Hwexp).
  destruct (seed_id expanded id0 Hexp_keys (proj1 (proj1 (wf_doc_iff _) Hwexp)) Hexp_id Hclean)
    as [sd [Hseed Hsd_id]].
  rewrite Hseed in H, Hwsd.
  destruct (apply_update (VDoc sfs) (VDoc ufs) true (now c3) (VDoc sd)) as [d'|e] eqn:Ea; [|discriminate].
  assert (Hheads : first_key_dollar (VDoc ufs) = Some true ->
                   forall p, In p (addressed (VDoc ufs)) -> exists h rest, p = h :: rest /\ h <> "_id").
  { intros Hf. rewrite Hfk in Hf. rewrite Hadr. apply addressed_heads; [exact Hwr|exact (Hsub Hf)]. }
  destruct (apply_update_id _ _ _ _ _ _ _ Hwpu Hwsd Hsd_id Hnn Hrel Hunone Hheads Ea)
    as [fs' [-> Hfs']].
  destruct (insert_doc c3 (VDoc fs')) as [c4 ir] eqn:Hins.
  destruct ir as [new_id|e]; [|discriminate].
  destruct (insert_doc_stored c3 fs' c4 new_id HT3 Hins) as [fs1 [Hd4 Hfs1]].
  assert (Hd3 : docs c3 = docs c).
  { destruct i_opt; inversion Esel; subst; reflexivity. }
  inversion H; subst c' v. cbn [docs].
  exists ufs, id0, expanded, c3, fs', fs1, new_id.
  split; [reflexivity|]. split; [exact Hrel|]. split; [exact Ex|]. split; [exact Hwset|]. split; [exact Hwexp|].
  split; [exact Hexp_keys|]. split; [rewrite Hseed; exact Ea|].
  split; [rewrite Hd4, Hd3; reflexivity|exact Hfs1].
Qed.

(* ---------------------------------------------------------------- dot-free filters *)
Definition flat_key (k : string) : bool :=
  match split_dots k with [_] => true | _ => false end.
Definition c13_flat_filter (f : value) : bool :=
  match f with VDoc fs => forallb (fun kv => flat_key (fst kv)) fs | _ => true end.

Lemma flat_key_split k : flat_key k = true -> split_dots k = [k].
Proof.
  unfold flat_key. destruct (split_dots k) as [| h [| ? ?]] eqn:E; try discriminate.
  intros _. rewrite (split_dots_single k h E). reflexivity.
Qed.

Lemma go_flat : forall fs e paths r,
  expand_dots_go fs e paths = Ok r ->
  (forall k, In k (map fst fs) -> split_dots k = [k]) -> NoDup (map fst fs) ->
  forall k, assoc k r = match assoc k fs with Some v => Some v | None => assoc k e end.
Proof.
  induction fs as [| [k0 x] fs IH]; intros e paths r H Hfl Hnd k; simpl in H.
  - inversion H. reflexivity.
  - destruct (mem_str k0 paths); [discriminate|].
    rewrite (Hfl k0 (or_introl eq_refl)) in H. cbn [expand_set bind] in H.
    inversion Hnd as [| ? ? Hni Hnd']; subst.
    rewrite (IH _ _ _ H (fun k1 H1 => Hfl k1 (or_intror H1)) Hnd' k). cbn [assoc].
    destruct (k =? k0) eqn:E.
    + apply String.eqb_eq in E. subst k0.
      destruct (assoc k fs) eqn:Ea; [exfalso; apply Hni; eapply assoc_Some_key; exact Ea|].
      rewrite C12Base.assoc_set_key, String.eqb_refl. reflexivity.
    + destruct (assoc k fs); [reflexivity|]. rewrite C12Base.assoc_set_key, E. reflexivity.
Qed.

Lemma is_doc_lit_id y : is_doc y = false -> lit y = y /\ eq_leaf y = true.
Proof. destruct y; try discriminate; split; reflexivity. Qed.

Lemma lit_patch x0 : eq_leaf x0 = true ->
  lit (patch x0) = patch (lit x0) /\ eq_leaf (patch x0) = true.
Proof.
  intro H. destruct (eq_leaf_spec x0 H) as [[Hd Hx]|(v & -> & Hv & _)].
  - rewrite Hx. apply is_doc_lit_id. apply C02Step.patch_not_doc. exact Hd.
  - rewrite C02Step.patch_doc. cbn [C02Step.patch_fields map fst snd lit eq_leaf].
    split; [reflexivity|]. rewrite (C02Step.patch_not_doc v Hv). reflexivity.
Qed.

Lemma lit_cases x : lit x = x \/ exists v, x = VDoc [("$eq", v)] /\ lit x = v.
Proof.
  destruct x as [| | | | | | | fs |]; try (left; reflexivity).
  destruct fs as [| [k v] [| ? ?]]; try (left; reflexivity).
  - destruct k as [| a1 k]; [left; reflexivity|].
    destruct a1 as [[] [] [] [] [] [] [] []]; try (left; reflexivity).
    destruct k as [| a2 k]; [left; reflexivity|].
    destruct a2 as [[] [] [] [] [] [] [] []]; try (left; reflexivity).
    destruct k as [| a3 k]; [left; reflexivity|].
    destruct a3 as [[] [] [] [] [] [] [] []]; try (left; reflexivity).
    destruct k as [| a4 k]; [|left; reflexivity].
    right. exists v. split; reflexivity.
  - destruct k as [| a1 k]; [left; reflexivity|].
    destruct a1 as [[] [] [] [] [] [] [] []]; try (left; reflexivity).
    destruct k as [| a2 k]; [left; reflexivity|].
    destruct a2 as [[] [] [] [] [] [] [] []]; try (left; reflexivity).
    destruct k as [| a3 k]; [left; reflexivity|].
    destruct a3 as [[] [] [] [] [] [] [] []]; try (left; reflexivity).
    destruct k as [| a4 k]; left; reflexivity.
Qed.

Lemma wf_lit x : WF x -> WF (lit x).
Proof.
  intro H. destruct (lit_cases x) as [-> | (v & -> & ->)]; [exact H|].
  apply (wf_doc_assoc _ "$eq" v H). reflexivity.
Qed.

Lemma last_app1 {A} (l : list A) x d : last (l ++ [x]) d = x.
Proof. apply last_last. Qed.

(* the last clause, for an operator update with a dot-free equality-only filter *)
Lemma upsert_last_clause pre5 c ffs u multi c' v kl d :
  noTTL c -> WF (VDoc ffs) -> WF u ->
  c13_writes_id u = false -> c13_odd_filter (VDoc ffs) = false ->
  c13_id_subfield u = false -> c13_null_id_filter (VDoc ffs) = false ->
  first_key_dollar u = Some true ->
  scan (patch (VDoc ffs)) (docs c) = Ok [] ->
  update pre5 c (VDoc ffs) u multi true = (c', Ok v) ->
  equality_only (VDoc ffs) = true -> c13_flat_filter (VDoc ffs) = true ->
  existsb (fun p => existsb (fun q => paths_overlap p (fst q)) ffs) (update_paths u) = false ->
  last (docs c') (VNull, VNull) = (kl, d) ->
  match filter_applies (patch (VDoc ffs)) d with Ok b => b | Err _ => true end = true.
Proof.
  intros HT Hwf Hwu Hwr Hodd Hsub Hnull Hfirst Hscan HU Heq Hflat Hov Hlast.
  destruct (update_upsert_open pre5 c ffs u multi c' v HT Hwf Hwu Hwr Hodd (fun _ => Hsub) Hscan HU)
    as (ufs & id0 & expanded & c3 & fs' & fs1 & new_id & Hpu & Hrel & Ex & Hwset & Hwexp & Hexpk
        & Ea & Hdocs & Hfs1).
  rewrite Hdocs, last_app1 in Hlast.
  assert (Hd : d = patch (VDoc fs1)) by (inversion Hlast; reflexivity).
  rewrite Hd. clear Hd Hlast.
  rewrite !C02Step.patch_doc. set (sfs := C02Step.patch_fields ffs) in *.
  set (dfs := C02Step.patch_fields fs1).
  assert (Hwsf : WF (VDoc sfs)).
  { pose proof (C02Step.wf_patch _ Hwf) as Hx. rewrite C02Step.patch_doc in Hx. exact Hx. }
  pose proof (proj1 (proj1 (wf_doc_iff _) Hwsf)) as Hndsf.
  pose proof (proj1 (proj1 (wf_doc_iff _) Hwset)) as Hndset.
  pose proof (proj1 (proj1 (wf_doc_iff _) Hwexp)) as Hndexp.
  (* the keys of the seed fields are dot-free *)
  assert (Hkeys : forall k, In k (map fst (set_key "_id" id0 sfs)) -> split_dots k = [k]).
  { intros k Hk. destruct (keys_set_key _ _ _ _ Hk) as [-> | Hk']; [reflexivity|].
    unfold sfs in Hk'. rewrite patch_fields_keys in Hk'. apply in_map_iff in Hk'.
    destruct Hk' as [[k' x0] [E Hin]]. simpl in E. subst k'.
    apply flat_key_split. simpl in Hflat. rewrite forallb_forall in Hflat. exact (Hflat _ Hin). }
  unfold expand_dots in Ex.
  pose proof (go_flat _ _ _ _ Ex Hkeys Hndset) as Hexp.
  (* the seed *)
  assert (Hne : expanded <> []).
  { intro E. specialize (Hexp "_id"). rewrite C12Base.assoc_set_key, String.eqb_refl, E in Hexp.
    discriminate. }
  assert (Hseed : fst (discard_ops (VDoc expanded)) = VDoc (flat_map dkeep expanded)).
  { rewrite discard_ops_doc by exact Hne. rewrite (dgo_top _ [] Hexpk). reflexivity. }
  rewrite Hseed in Ea.
  (* the update is a chain of local rewrites away from the filter's keys *)
  assert (Hwpu : WF (VDoc ufs)) by (rewrite <- Hpu; apply C02Step.wf_patch; exact Hwu).
  assert (Hfk : first_key_dollar (VDoc ufs) = Some true)
    by (rewrite <- Hpu, C02Step.first_key_dollar_patch; exact Hfirst).
  assert (Hwsd : WF (VDoc (flat_map dkeep expanded)))
    by (rewrite <- Hseed; apply discard_ops_wf; exact Hwexp).
  pose proof (apply_update_chain _ _ _ _ _ _ Hfk Hwpu Hwsd Ea) as Hchain.
  rewrite <- Hpu, C02Step.addressed_patch in Hchain.
  (* every field of the filter *)
  assert (Hgoal : ok_or_err (matches (parse_filter (VDoc sfs)) (VDoc dfs))).
  { apply matches_eq_fields. intros k x Hin.
    unfold sfs, C02Step.patch_fields in Hin. apply in_map_iff in Hin.
    destruct Hin as [[k' x0] [E Hin0]]. cbn [fst snd] in E. injection E as -> <-.
    (* what equality_only, the screen and flatness say of (k, x0) *)
    simpl in Heq. rewrite forallb_forall in Heq. specialize (Heq _ Hin0). cbn [fst snd] in Heq.
    apply andb_true_iff in Heq. destruct Heq as [Hkd Hleaf0]. apply negb_true_iff in Hkd.
    change (eq_leaf x0 = true) in Hleaf0.
    simpl in Hflat. rewrite forallb_forall in Hflat. specialize (Hflat _ Hin0). cbn [fst] in Hflat.
    pose proof (flat_key_split k Hflat) as Hsplit.
    assert (Hkne : k <> "").
    { intro E. subst k. unfold c13_odd_filter in Hodd.
      apply orb_false_iff in Hodd. destruct Hodd as [Hodd _].
      apply orb_false_iff in Hodd. destruct Hodd as [Hodd _].
      pose proof (existsb_false_In _ _ Hodd _ Hin0) as Hf. cbn [fst] in Hf.
      rewrite Hsplit in Hf. discriminate Hf. }
    destruct (lit_patch x0 Hleaf0) as [Hlp Hleaf].
    destruct (wf_doc_in ffs k x0 Hwf Hin0) as [Hwx0 Hax0].
    assert (Hwl : WF (lit (patch x0))) by (apply wf_lit, C02Step.wf_patch; exact Hwx0).
    split; [exact Hkd|]. split; [exact Hkne|]. split; [exact Hsplit|]. split; [exact Hleaf|].
    split; [exact Hwl|].
    (* the value under k: in the seed fields, the expanded seed, the seed, the new document *)
    assert (Hasf : assoc k sfs = Some (patch x0)).
    { unfold sfs. rewrite assoc_patch_fields, Hax0. reflexivity. }
    assert (Haset : assoc k (set_key "_id" id0 sfs) = Some (patch x0)).
    { rewrite C12Base.assoc_set_key. destruct (k =? "_id") eqn:Ek; [|exact Hasf].
      apply String.eqb_eq in Ek. subst k. destruct Hrel as [E|[E|[i [E Hi]]]].
      - rewrite <- E. exact Hasf.
      - rewrite E in Hasf. discriminate.
      - exfalso. rewrite E in Hasf. injection Hasf as ->. rewrite is_null_patch in Hi.
        simpl in Hnull. rewrite Hax0 in Hnull. destruct x0; discriminate. }
    assert (Haexp : assoc k expanded = Some (patch x0)) by (rewrite Hexp, Haset; reflexivity).
    assert (Hasd : assoc k (flat_map dkeep expanded) = Some (lit (patch x0))).
    { rewrite (assoc_dkeep k _ Hndexp), Haexp, (eq_leaf_discard _ Hleaf). reflexivity. }
    assert (Hheads : forall p, In p (addressed u) -> exists h rest, p = h :: rest /\ h <> k).
    { intros p Hp. destruct (addressed_update_paths _ _ Hp) as [s [Hs ->]].
      pose proof (existsb_false_In _ _ Hov s Hs) as H1. cbv beta in H1.
      pose proof (existsb_false_In _ _ H1 _ Hin0) as H2. cbv beta in H2. cbn [fst] in H2.
      unfold paths_overlap in H2. rewrite Hsplit in H2. apply orb_false_iff in H2.
      destruct H2 as [H2a H2b]. destruct (split_dots s) as [| h rest].
      - discriminate H2a.
      - exists h, rest. split; [reflexivity|]. intro E. subst h.
        cbn [is_prefix_parts] in H2b. rewrite String.eqb_refl in H2b. discriminate H2b. }
    destruct (chain_keeps k _ _ _ Hchain Hheads _ eq_refl) as [fs'' [E'' Ha'']].
    injection E'' as <-.
    assert (Hafs1 : assoc k fs1 = Some (lit (patch x0))).
    { apply Hfs1. rewrite Ha''. exact Hasd. }
    unfold dfs. rewrite assoc_patch_fields, Hafs1. cbn [option_map]. f_equal.
    rewrite Hlp. apply C02Step.patch_idem. }
  unfold filter_applies. destruct Hgoal as [-> | [e ->]]; reflexivity.
Qed.

(* ---------------------------------------------------------------- the full predicate *)
Definition last_clause (is_update : bool) (f u d : value) : bool :=
  if is_update && equality_only f
     && negb (existsb (fun p => existsb (fun q => paths_overlap p (fst q))
                                        (match f with VDoc fs => fs | _ => [] end))
                      (update_paths u))
  then match filter_applies (patch f) d with Ok b => b | Err _ => true end
  else true.

Lemma c13_from_i x f u b r after :
  c13i_upsert_ok x f u r after = true ->
  (forall v, r = Ok v -> any_match f (x_store x) = Some false ->
             last_clause b f u (snd (last after (VNull, VNull))) = true) ->
  c13_upsert_ok x f u b r after = true.
Proof.
  unfold c13i_upsert_ok, c13_upsert_ok, id_clause, last_clause. intros H HL.
  destruct r as [v|e]; [|reflexivity].
  destruct (any_match f (x_store x)) as [[|]|]; auto.
  specialize (HL v eq_refl eq_refl).
  destruct (last after (VNull, VNull)) as [k d]. cbn [snd] in HL.
  destruct (get_field "upserted_id" v) as [uid|]; auto.
  rewrite HL, andb_true_r. exact H.
Qed.

Lemma equality_only_doc f : equality_only f = true -> exists ffs, f = VDoc ffs.
Proof. destruct f; try discriminate. eauto. Qed.

(* one operator-update upsert *)
Lemma upsert_step_full pre5 c f u multi now :
  WF f -> WF u -> c13_writes_id u = false -> c13_odd_filter f = false ->
  c13_id_subfield u = false -> c13_null_id_filter f = false ->
  first_key_dollar u = Some true ->
  (equality_only f = true -> c13_flat_filter f = true) ->
  c13_step_reasons (OReplace f u true) (snd (update pre5 c f u multi true)) (docs c)
                   (docs (fst (update pre5 c f u multi true))) (info_of c) = 0 ->
  c13_upsert_ok (mkCtx (docs c) (info_of c) now) f u true
                (snd (update pre5 c f u multi true))
                (docs (fst (update pre5 c f u multi true))) = true.
Proof.
  intros Hwf Hwu Hwr Hodd Hsub Hnull Hfirst Hflat Hr.
  apply c13_from_i.
  - apply upsert_step_i; auto.
  - intros v Hv Hany. cbn [x_store] in Hany. unfold last_clause.
    destruct (true && equality_only f && _) eqn:Ec; [|reflexivity].
    apply andb_true_iff in Ec. destruct Ec as [Ec Hov]. cbn [andb] in Ec.
    apply negb_true_iff in Hov.
    destruct (equality_only_doc f Ec) as [ffs ->].
    unfold c13_step_reasons in Hr. apply (reasons_zero _ _ _ false false) in Hr.
    destruct Hr as (Httl & _).
    pose proof (info_noTTL _ Httl) as HT.
    assert (Hscan : scan (patch (VDoc ffs)) (docs c) = Ok []).
    { unfold any_match in Hany.
      destruct (scan (patch (VDoc ffs)) (docs c)) as [[|? ?]|]; try discriminate. reflexivity. }
    destruct (update pre5 c (VDoc ffs) u multi true) as [c' r] eqn:HU. cbn [fst snd] in *.
    subst r.
    destruct (last (docs c') (VNull, VNull)) as [kl d] eqn:El. cbn [snd].
    exact (upsert_last_clause pre5 c ffs u multi c' v kl d HT Hwf Hwu Hwr Hodd Hsub Hnull Hfirst
             Hscan HU Ec (Hflat Ec) Hov El).
Qed.

(* the extra screen of the partial theorem: equality-only filters of update upserts have
   dot-free keys *)
Definition flat_op (o : op) : bool :=
  match o with
  | OUpdate f _ _ true => negb (equality_only f) || c13_flat_filter f
  | _ => true
  end.
Definition c13_flat (ops : list op) : bool := forallb flat_op ops.

Lemma replace_last_clause f u d : last_clause false f u d = true.
Proof. reflexivity. Qed.

Lemma c13_step_model pre5 c o now info' :
  C02History.op_wf o -> undecided_op o = false -> flat_op o = true ->
  c13_step_reasons o (snd (step pre5 c o)) (docs c) (docs (fst (step pre5 c o))) (info_of c) = 0 ->
  c13_step (mkCtx (docs c) (info_of c) now) o
           (snd (step pre5 c o), docs (fst (step pre5 c o)), info') = true.
Proof.
  intros Hw Hun Hfl H.
  pose proof (c13i_step_model pre5 c o now info' Hw Hun H) as Hi.
  destruct o; try reflexivity.
  - (* update *)
    destruct upsert; [|reflexivity].
    simpl in Hw, Hun, Hfl. destruct Hw as [Hwf Hwu].
    apply orb_false_iff in Hun. destruct Hun as [Hwr Hodd].
    assert (Hbits : c13_id_subfield u = false /\ c13_null_id_filter f = false).
    { unfold c13_step_reasons in H. apply reasons_zero in H. tauto. }
    destruct Hbits as [Hsub Hnull].
    cbn [c13_step step] in *. unfold update_op in *.
    destruct u; try reflexivity.
    destruct (first_key_dollar (VDoc fs)) as [[|]|] eqn:Ek; try reflexivity.
    apply upsert_step_full; auto.
    + intro He. rewrite He in Hfl. exact Hfl.
    + exact (drop_bits _ _ _ _ _ H).
  - (* replace *)
    destruct upsert; [|reflexivity].
    cbn [c13_step c13i_step] in *.
    apply c13_from_i; [exact Hi|]. intros; apply replace_last_clause.
Qed.

Lemma c13_trace pre5 : forall ops c now,
  Forall C02History.op_wf ops -> existsb undecided_op ops = false -> forallb flat_op ops = true ->
  c13_go ops (model_obs pre5 c ops) (docs c) (info_of c) = 0 ->
  trace_all c13_step (mkCtx (docs c) (info_of c) now) ops (model_obs pre5 c ops) = true.
Proof.
  induction ops as [|o ops IH]; intros c now Hw Hun Hfl H; [reflexivity|].
  inversion Hw as [|? ? Hwo Hw']; subst. simpl in Hun. apply orb_false_iff in Hun.
  destruct Hun as [Huo Hun']. simpl in Hfl. apply andb_true_iff in Hfl. destruct Hfl as [Hfo Hfl'].
  rewrite C15Proofs.model_obs_cons in *. cbn [c13_go trace_all] in *.
  apply Z.lor_eq_0_iff in H. destruct H as [H1 H2].
  rewrite (c13_step_model pre5 c o now _ Hwo Huo Hfo H1). cbn [andb].
  apply (IH (fst (step pre5 c o))); assumption.
Qed.

(* C13 in full (all four clauses of c13_ok), for histories whose equality-only upsert filters
   have dot-free keys *)
Theorem c13_history_flat pre5 ops :
  Forall C02History.op_wf ops ->
  c13_reasons ops (model_obs pre5 empty_coll ops) = 0 ->
  c13_undecided ops = false ->
  c13_flat ops = true ->
  c13_ok ops (model_obs pre5 empty_coll ops) = true.
Proof.
  intros Hw H Hun Hfl. rewrite c13_reasons_go in H. rewrite undecided_ops in Hun. unfold c13_ok.
  exact (c13_trace pre5 ops empty_coll 0 Hw Hun Hfl H).
Qed.
