(* C14 proofs, bridge to the C05 state invariant: along a history of the model that creates
   no TTL index, every observed store key is a value the datetime normalisation leaves alone
   (the store is keyed by the normalised _id).  This replaces the former conjunct
   "patch k = k" of guard bit 8 of c14_reasons. *)
From Coq Require Import ZArith List String Bool Ascii Lia.
From Verif Require Import Value PyEq BsonOrder Path Filter Update Project Coll HistCheck HistProps
  HistGuards.
From Verif Require Import C01Values C05Values C05Store C05Ops.
Import ListNotations.
Open Scope Z_scope.
Open Scope string_scope.
Open Scope list_scope.

Lemma ttl_op_free o : c14_ttl_op o = false -> ttl_free o = true.
Proof.
  destruct o; try reflexivity. simpl. destruct ttl as [t|]; [|reflexivity].
  destruct t; simpl; intro H; try discriminate H; reflexivity.
Qed.

Lemma obs_keys_normalised pre5 : forall ops c,
  Inv c -> existsb c14_ttl_op ops = false ->
  forall kd, In kd (obs_entries (model_obs pre5 c ops)) -> patch (fst kd) = fst kd.
Proof.
  induction ops as [|o ops IH]; intros c HI Ht kd Hin; [destruct Hin|].
  simpl in Ht. apply orb_false_iff in Ht. destruct Ht as [Ht1 Ht2].
  cbn [model_obs] in Hin. destruct (step pre5 c o) as [c' r] eqn:Es.
  assert (HI' : Inv c').
  { eapply step_inv; [exact HI|apply ttl_op_free; exact Ht1|exact Es]. }
  unfold obs_entries in Hin. cbn [flat_map fst snd] in Hin. apply in_app_or in Hin.
  destruct Hin as [Hin|Hin].
  - exact (proj1 (proj2 (proj2 (proj1 HI')) _ Hin)).
  - exact (IH c' HI' Ht2 kd Hin).
Qed.

Lemma model_keys_normalised pre5 ops :
  existsb c14_ttl_op ops = false ->
  forall kd, In kd (obs_entries (model_obs pre5 empty_coll ops)) -> patch (fst kd) = fst kd.
Proof. intros Ht. exact (obs_keys_normalised pre5 ops empty_coll Inv_empty Ht). Qed.
