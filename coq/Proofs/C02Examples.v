(* C02: the hypotheses of the history theorem are satisfiable on a non-trivial history. *)
From Coq Require Import ZArith List String Bool Ascii Lia.
From Verif Require Import Value PyEq BsonOrder Path Filter FilterSpec Update Project Coll
                          HistCheck HistProps ProjectSpec Cursor UpdateLaws.
From Verif.Proofs Require Import C02Store C02Step C02History.
Import ListNotations.
Open Scope Z_scope.
Open Scope string_scope.
Open Scope list_scope.

Definition ex_ops : list op :=
  [ OSetClock 5000000;
    OInsertOne (VDoc [("_id", VInt 1); ("a", VDoc [("b", VArr [VInt 0])]); ("n", VInt 5);
                      ("l", VArr [VInt 9])]);
    OInsertOne (VDoc [("_id", VInt 2); ("n", VInt 1)]);
    OUpdate (VDoc [("n", VDoc [("$gt", VInt 2)])])
            (VDoc [("$set", VDoc [("a.b.2", VInt 7)]); ("$inc", VDoc [("n", VInt 2)]);
                   ("$push", VDoc [("l", VDoc [("$each", VArr [VInt 1; VInt 2]);
                                               ("$position", VInt 0)])])]) true false;
    OReplace (VDoc [("_id", VInt 2)]) (VDoc [("m", VStr "x")]) false;
    OUpdate (VDoc []) (VDoc [("$max", VDoc [("n", VInt 3)])]) true false;
    OUpdate (VDoc [("_id", VInt 1)]) (VDoc [("$addToSet", VDoc [("l", VInt 9)])]) false false ].

Ltac in_cases H :=
  simpl in H;
  repeat (destruct H as [H|H]; [inversion H; subst; clear H; try reflexivity|]);
  try contradiction.

Ltac inv_concrete :=
  match goal with |- Inv ?c =>
    let c' := eval vm_compute in c in change (Inv c') end;
  constructor;
  [ simpl; repeat split; intros k' d' Hin; in_cases Hin
  | intros k d Hin; in_cases Hin
  | intros i Hin; in_cases Hin
  | intros k d Hin; in_cases Hin
  | intros k d Hin; in_cases Hin ].

Lemma ex_reach_inv : reach_inv false empty_coll ex_ops.
Proof.
  intros ops1 ops2 E. unfold ex_ops in E.
  do 7 (destruct ops1 as [|? ops1]; [inv_concrete | injection E as <- E]).
  destruct ops1; [inv_concrete | discriminate].
Qed.

Lemma ex_clock_ok : clock_ok false empty_coll ex_ops.
Proof.
  intros ops1 o ops2 E. unfold ex_ops in E.
  do 7 (destruct ops1 as [|? ops1]; [injection E as <- E; vm_compute; reflexivity | injection E as <- E]).
  destruct ops1; discriminate.
Qed.

Example history_sound_example :
  reach_inv false empty_coll ex_ops /\ clock_ok false empty_coll ex_ops /\
  Forall op_wf ex_ops /\
  c02_reasons ex_ops (model_obs false empty_coll ex_ops) = 0 /\
  modelled false empty_coll ex_ops = true /\
  c02_ok ex_ops (model_obs false empty_coll ex_ops) = true.
Proof.
  assert (Hwf : Forall op_wf ex_ops) by (repeat constructor).
  assert (Hr : c02_reasons ex_ops (model_obs false empty_coll ex_ops) = 0) by (vm_compute; reflexivity).
  split; [exact ex_reach_inv|]. split; [exact ex_clock_ok|]. split; [exact Hwf|].
  split; [exact Hr|]. split; [vm_compute; reflexivity|].
  exact (history_sound_partial false ex_ops ex_reach_inv ex_clock_ok Hwf Hr).
Qed.

(* the last state of the example (for the reader) *)
Example history_example_final :
  docs (final false empty_coll ex_ops) =
  [ (VInt 1, VDoc [("_id", VInt 1); ("a", VDoc [("b", VArr [VInt 0; VNull; VInt 7])]);
                   ("n", VInt 7); ("l", VArr [VInt 1; VInt 2; VInt 9])]);
    (VInt 2, VDoc [("_id", VInt 2); ("m", VStr "x"); ("n", VInt 3)]) ].
Proof. vm_compute. reflexivity. Qed.
