(* C02: the hypotheses of the history theorem are satisfiable on a non-trivial history. *)
From Coq Require Import ZArith List String Bool Ascii Lia.
From Verif Require Import Value PyEq BsonOrder Path Filter FilterSpec Update Project Coll
                          HistCheck HistProps ProjectSpec Cursor UpdateLaws.
From Verif.Proofs Require Import C02Store C02Step C02History C02Full.
Import ListNotations.
Open Scope Z_scope.
Open Scope string_scope.
Open Scope list_scope.

Definition ex_ops : list op :=
  [ OSetClock 5000000;
    OInsertOne (VDoc [("_id", VInt 1); ("a", VDoc [("b", VArr [VInt 0])]); ("n", VInt 5);
                      ("l", VArr [VInt 9])]);
    OInsertOne (VDoc [("_id", VInt 2); ("n", VInt 1)]);
    OUpdate (VDoc [("n", VDoc [("$gt", VInt 2)])])
            (VDoc [("$set", VDoc [("a.b.2", VInt 7)]); ("$inc", VDoc [("n", VInt 2)]);
                   ("$push", VDoc [("l", VDoc [("$each", VArr [VInt 1; VInt 2]);
                                               ("$position", VInt 0)])])]) true false;
    OReplace (VDoc [("_id", VInt 2)]) (VDoc [("m", VStr "x")]) false;
    OUpdate (VDoc []) (VDoc [("$max", VDoc [("n", VInt 3)])]) true false;
    OUpdate (VDoc [("_id", VInt 1)]) (VDoc [("$addToSet", VDoc [("l", VInt 9)])]) false false ].

(* the premises of the unconditional history theorem hold of the example, and so do the
   facts about the reachable states the theorem derives from them *)
Example history_sound_example :
  Forall op_wf ex_ops /\
  c02_reasons ex_ops (model_obs false empty_coll ex_ops) = 0 /\
  modelled false empty_coll ex_ops = true /\
  reach_inv false empty_coll ex_ops /\ clock_ok false empty_coll ex_ops /\
  c02_ok ex_ops (model_obs false empty_coll ex_ops) = true.
Proof.
  assert (Hwf : Forall op_wf ex_ops) by (repeat constructor).
  assert (Hr : c02_reasons ex_ops (model_obs false empty_coll ex_ops) = 0) by (vm_compute; reflexivity).
  split; [exact Hwf|]. split; [exact Hr|]. split; [vm_compute; reflexivity|].
  split; [exact (reach_inv_all false ex_ops Hwf (reasons_no_ttl _ _ Hr))|].
  split; [exact (clock_ok_all false ex_ops Hwf (reasons_no_ttl _ _ Hr))|].
  exact (history_sound false ex_ops Hwf Hr).
Qed.

(* a history with an upsert, a find_one_and_update and a bulk write *)
Definition ex_ops2 : list op :=
  [ OInsertMany [VDoc [("_id", VInt 1); ("n", VInt 1)]; VDoc [("n", VInt 2)]] true;
    OUpdate (VDoc [("k.x", VInt 3)]) (VDoc [("$set", VDoc [("v", VStr "u")])]) false true;
    OFindAndModify (VDoc [("n", VInt 2)]) None [] (FamUpdate (VDoc [("$inc", VDoc [("n", VInt 5)])]) false true);
    OBulk [BInsert (VDoc [("_id", VInt 7)]);
           BUpdate (VDoc [("_id", VInt 7)]) (VDoc [("$set", VDoc [("w", VInt 1)])]) false false] true;
    OCreateIndex [("n", VInt 1)] false false None None None;
    OUpdate (VDoc []) (VDoc [("$unset", VDoc [("v", VInt 1)])]) true false ].

Example history_sound_example2 :
  Forall op_wf ex_ops2 /\
  c02_reasons ex_ops2 (model_obs false empty_coll ex_ops2) = 0 /\
  modelled false empty_coll ex_ops2 = true /\
  c02_ok ex_ops2 (model_obs false empty_coll ex_ops2) = true.
Proof.
  assert (Hwf : Forall op_wf ex_ops2) by (repeat constructor).
  assert (Hr : c02_reasons ex_ops2 (model_obs false empty_coll ex_ops2) = 0) by (vm_compute; reflexivity).
  split; [exact Hwf|]. split; [exact Hr|]. split; [vm_compute; reflexivity|].
  exact (history_sound false ex_ops2 Hwf Hr).
Qed.

(* the last state of the example (for the reader) *)
Example history_example_final :
  docs (final false empty_coll ex_ops) =
  [ (VInt 1, VDoc [("_id", VInt 1); ("a", VDoc [("b", VArr [VInt 0; VNull; VInt 7])]);
                   ("n", VInt 7); ("l", VArr [VInt 1; VInt 2; VInt 9])]);
    (VInt 2, VDoc [("_id", VInt 2); ("m", VStr "x"); ("n", VInt 3)]) ].
Proof. vm_compute. reflexivity. Qed.
