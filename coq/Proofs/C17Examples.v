(* C17: the hypotheses of the theorems are satisfiable on non-trivial histories *)
From Coq Require Import ZArith List String Bool.
From Verif Require Import Value Catalog C17Base C17Spec C17Model C17Proofs.
Import ListNotations.
Open Scope string_scope.

Definition ex_ops : list (nat * cop) :=
  [(0%nat, KInsert "d" "a" 1%Z); (1%nat, KRead "d" "a"); (0%nat, KCreateIndex "d" "b" "f");
   (0%nat, KCreateCollection "d" "system.x"); (0%nat, KCreateCollection "d" "a");
   (0%nat, KRename "d" "a" "b" false); (0%nat, KRename "d" "a" "b" true);
   (0%nat, KListCollections "d"); (0%nat, KIndexInfo "d" "b"); (0%nat, KDeleteAll "d" "b");
   (0%nat, KListDatabases); (1%nat, KListDatabases); (0%nat, KDropCollection "d" "b");
   (0%nat, KInsert "e" "z" 2%Z); (0%nat, KInsert "e" "z" 2%Z); (0%nat, KDropDatabase "e");
   (0%nat, KListDatabases); (2%nat, KListDatabases)].

(* C17_history has no hypothesis left; the guard function is constantly 0 *)
Example ex_history_hyps : c17_reasons ex_ops = 0%Z.
Proof. vm_compute. reflexivity. Qed.

Example ex_history_run :
  wrun (repeat [] 2) ex_ops =
  [Ok VNull; Ok (VArr []); Ok (VStr "f_1"); Ok VNull; Err ECrash; Err EOpFail; Ok VNull;
   Ok (names_value ["b"]); Ok (names_value ["_id_"]); Ok VNull; Ok (names_value ["d"]);
   Ok (names_value []); Ok VNull; Ok VNull; Err EDup; Ok VNull; Ok (names_value ["d"]); Err ECrash].
Proof. vm_compute. reflexivity. Qed.

(* the formerly guarded operations: drop_index, drop_indexes on a collection that exists through
   its indexes only (it stays listed), on a collection that does not exist (no-op / failure, it
   is not created), renames onto the same name (refused, nothing changes) *)
Definition ex_ops2 : list (nat * cop) :=
  [(0%nat, KCreateIndex "d" "c" "f"); (0%nat, KCreateIndex "d" "c" "g"); (0%nat, KDropIndex "d" "c" "f_1");
   (0%nat, KDropIndex "d" "c" "f_1"); (0%nat, KIndexInfo "d" "c"); (0%nat, KDropIndexes "d" "c");
   (0%nat, KIndexInfo "d" "c"); (0%nat, KListCollections "d"); (0%nat, KListDatabases);
   (0%nat, KRename "d" "c" "c" true); (0%nat, KRename "d" "c" "c" false); (0%nat, KListCollections "d");
   (0%nat, KDropIndexes "d" "nope"); (0%nat, KDropIndex "d" "nope" "f_1"); (0%nat, KListCollections "d");
   (0%nat, KRename "d" "nope" "nope" true); (0%nat, KInsert "d" "c" 1%Z);
   (0%nat, KRename "d" "c" "c" true); (0%nat, KRead "d" "c")].

Example ex_history_run2 :
  wrun (repeat [] 1) ex_ops2 =
  [Ok (VStr "f_1"); Ok (VStr "g_1"); Ok VNull; Err EOpFail; Ok (names_value ["_id_"; "g_1"]);
   Ok VNull; Ok (names_value ["_id_"]); Ok (names_value ["c"]); Ok (names_value ["d"]);
   Err EOpFail; Err EOpFail; Ok (names_value ["c"]); Ok VNull; Err EOpFail; Ok (names_value ["c"]);
   Err EOpFail; Ok VNull; Err EOpFail; Ok (VArr [VInt 1%Z])] /\
  spec_run (repeat [] 1) ex_ops2 = wrun (repeat [] 1) ex_ops2.
Proof. vm_compute. split; reflexivity. Qed.

(* a well-formed store reached by a history, with never-created entries *)
Definition ex_store : sstore :=
  fst (kstep (fst (kstep (fst (kstep (fst (kstep [] (KInsert "d" "a" 1%Z))) (KRead "d" "q")))
                         (KCreateIndex "d" "b" "f"))) (KListCollections "e")).

Example ex_store_wf :
  wf_s ex_store = true /\
  ex_store = [("d", [("a", mkCS [1%Z] [] true); ("q", cs_empty); ("b", mkCS [] ["f_1"] true)]); ("e", [])] /\
  abs_server ex_store = [("d", [("a", ([1%Z], [])); ("b", ([], ["f_1"]))])].
Proof. vm_compute. repeat split; reflexivity. Qed.

Example ex_refinement_hyps : wf_s ex_store = true.
Proof. vm_compute. reflexivity. Qed.

Example ex_drop_indexes_keeps_hyps :
  wf_s ex_store = true /\ cs_created (get_coll (get_db ex_store "d") "b") = true /\
  cs_docs (get_coll (get_db ex_store "d") "b") = [].
Proof. vm_compute. repeat split; reflexivity. Qed.

Example ex_create_existing_hyps :
  cs_created (get_coll (get_db ex_store "d") "a") = true /\ is_system "a" = false.
Proof. vm_compute. split; reflexivity. Qed.

Example ex_rename_moves_hyps :
  wf_s ex_store = true /\ valid_name "n" = true /\
  cs_created (get_coll (get_db ex_store "d") "a") = true /\
  cs_created (get_coll (get_db ex_store "d") "n") = false.
Proof. vm_compute. repeat split; reflexivity. Qed.

Example ex_rename_guards_hyps :
  cs_created (get_coll (get_db ex_store "d") "q") = false /\
  cs_created (get_coll (get_db ex_store "d") "b") = true.
Proof. vm_compute. split; reflexivity. Qed.

Example ex_reads_hyps :
  Forall (fun so : nat * cop => is_read (snd so) = true /\ (fst so < 2)%nat)
         [(0%nat, KRead "d" "c"); (1%nat, KListCollections "d"); (0%nat, KListDatabases); (1%nat, KIndexInfo "d" "c")].
Proof. repeat constructor. Qed.

Example ex_spec_respects_hyps :
  let a : acat := [("d", [("a", ([1%Z], [])); ("b", ([], ["f_1"]))]); ("e", [])] in
  let b : acat := [("d", [("b", ([], ["f_1"])); ("a", ([1%Z], []))])] in
  wf_a a = true /\ wf_a b = true /\ a <> b /\
  (adb_nonempty a "d" = adb_nonempty b "d" /\ adb_nonempty a "e" = adb_nonempty b "e" /\
   a_get a "d" "a" = a_get b "d" "a" /\ a_get a "d" "b" = a_get b "d" "b").
Proof. vm_compute. repeat split; try reflexivity. discriminate. Qed.
