(* C03 part B -- $project with inclusion flags and computed fields (plain top-level names):
   the computed fields through the expression theorem of C04; the flags-only case of
   Proofs/C03StageProject.v is the other half of the stage lemma *)
From Coq Require Import ZArith List String Bool Ascii Lia Permutation.
From Verif Require Import Value PyEq BsonOrder Path Update Filter FilterSpec FilterGuard Coll Cursor
     ProjectSpec Expr ExprSpec ExprGuard Pipeline PipelineSpec PipelineGuard.
From Verif Require Import C12Base C04Base.
From Verif Require Import C03Base C03Laws C03Indep C03IndepProject C03Stages C03StageExpr C03StageProject.
Import ListNotations.
Open Scope Z_scope.
Open Scope string_scope.
Open Scope list_scope.

(* ------------------------------------------------------------ setting fields, up to order *)
Definition setkv (acc : list (string * value)) (kv : string * value) := set_key (fst kv) (snd kv) acc.

Lemma nodup_NoDup l : nodup_str l = true -> NoDup l.
Proof.
  induction l as [|x l IH]; simpl; intros H; [constructor|].
  apply andb_true_iff in H. destruct H as [Hx Hl]. constructor; [|apply IH; exact Hl].
  intros Hin. apply mem_str_in in Hin. rewrite Hin in Hx. discriminate.
Qed.

Lemma set_key_absent k (v : value) a : ~ In k (map fst a) -> set_key k v a = a ++ [(k, v)].
Proof.
  induction a as [|[k' v'] a IH]; intros H; [reflexivity|]. cbn [set_key].
  destruct (String.eqb_spec k k') as [->|Hn]; [exfalso; apply H; left; reflexivity|].
  cbn [app]. f_equal. apply IH. intros Hin. apply H. right. exact Hin.
Qed.

Lemma set_key_present k (v : value) a :
  NoDup (map fst a) -> In k (map fst a) ->
  set_key k v a = map (fun kv => if fst kv =? k then (k, v) else kv) a.
Proof.
  induction a as [|[k' v'] a IH]; intros Hn Hin; [destruct Hin|].
  cbn [map fst] in Hn. inversion Hn as [|? ? Hni Hn']; subst.
  cbn [set_key map fst]. rewrite (String.eqb_sym k' k).
  destruct (String.eqb_spec k k') as [->|Hne].
  - f_equal. symmetry. rewrite <- (map_id a) at 2. apply map_ext_in. intros [k2 v2] Hin2. cbn [fst].
    destruct (String.eqb_spec k2 k') as [->|_]; [|reflexivity].
    exfalso. apply Hni. apply in_map_iff. exists (k', v2). split; [reflexivity|exact Hin2].
  - f_equal. apply IH; [exact Hn'|]. destruct Hin as [Heq|Hin]; [exfalso; apply Hne; symmetry; exact Heq|exact Hin].
Qed.

Lemma set_key_perm k (v : value) a b :
  NoDup (map fst a) -> Permutation a b -> Permutation (set_key k v a) (set_key k v b).
Proof.
  intros Hn Hp.
  assert (Hnb : NoDup (map fst b)).
  { eapply Permutation_NoDup; [apply Permutation_map; exact Hp|exact Hn]. }
  destruct (in_dec String.string_dec k (map fst a)) as [Hin|Hni].
  - assert (Hinb : In k (map fst b)).
    { eapply Permutation_in; [apply Permutation_map; exact Hp|exact Hin]. }
    rewrite (set_key_present k v a Hn Hin), (set_key_present k v b Hnb Hinb).
    apply Permutation_map. exact Hp.
  - assert (Hnib : ~ In k (map fst b)).
    { intros H. apply Hni. eapply Permutation_in; [apply Permutation_map; apply Permutation_sym; exact Hp|exact H]. }
    rewrite (set_key_absent k v a Hni), (set_key_absent k v b Hnib).
    apply Permutation_app_tail. exact Hp.
Qed.

Lemma set_key_keys_NoDup k (v : value) a : NoDup (map fst a) -> NoDup (map fst (set_key k v a)).
Proof.
  intros Hn. destruct (in_dec String.string_dec k (map fst a)) as [Hin|Hni].
  - rewrite (set_key_present k v a Hn Hin). rewrite map_map.
    assert (He : map (fun x : string * value => fst (if fst x =? k then (k, v) else x)) a = map fst a).
    { apply map_ext. intros [k2 v2]. cbn [fst]. destruct (String.eqb_spec k2 k) as [->|_]; reflexivity. }
    rewrite He. exact Hn.
  - rewrite (set_key_absent k v a Hni). rewrite map_app. cbn [map fst].
    apply (Permutation_NoDup (Permutation_cons_append (map fst a) k)). constructor; assumption.
Qed.

Lemma fold_setkv_perm vals : forall a b,
  NoDup (map fst a) -> Permutation a b ->
  Permutation (fold_left setkv vals a) (fold_left setkv vals b).
Proof.
  induction vals as [|[k v] vals IH]; intros a b Hn Hp; [exact Hp|].
  cbn [fold_left]. unfold setkv at 2 4. cbn [fst snd]. apply IH.
  - apply set_key_keys_NoDup. exact Hn.
  - apply set_key_perm; assumption.
Qed.

Lemma fold_setkv_fresh vals : forall acc,
  NoDup (map fst vals) -> (forall k, In k (map fst vals) -> ~ In k (map fst acc)) ->
  fold_left setkv vals acc = acc ++ vals.
Proof.
  induction vals as [|[k v] vals IH]; intros acc Hn Hd; [rewrite app_nil_r; reflexivity|].
  cbn [fold_left]. unfold setkv at 2. cbn [fst snd].
  cbn [map fst] in Hn. inversion Hn as [|? ? Hni Hn']; subst.
  rewrite (set_key_absent k v acc) by (apply Hd; left; reflexivity).
  rewrite IH; [rewrite <- app_assoc; reflexivity|exact Hn'|].
  intros k' Hk' Hin. rewrite map_app in Hin. apply in_app_or in Hin. destruct Hin as [Hin|Hin].
  - apply (Hd k'); [right; exact Hk'|exact Hin].
  - cbn [map fst] in Hin. destruct Hin as [<-|[]]. contradiction.
Qed.

(* ------------------------------------------------------------ the computed fields of one document *)
(* the specification's walk (spec_project_doc), for one document *)
Definition pgo (d : value) :=
  fix go (cs : list (string * value)) (acc : list (string * value)) : option value :=
    match cs with
    | [] => Some (VDoc acc)
    | (k, e) :: cs' =>
        match seval [] d e with
        | SV v => go cs' (set_key k v acc)
        | SMiss => go cs' acc
        | _ => None
        end
    end.

Definition cvals (d : value) (cs : list (string * value)) : list (string * value) :=
  flat_map (fun kv => match seval [] d (snd kv) with SV v => [(fst kv, v)] | _ => [] end) cs.

Definition cdecided (d : value) (cs : list (string * value)) : bool :=
  forallb (fun kv => match seval [] d (snd kv) with SV _ | SMiss => true | _ => false end) cs.

Lemma pgo_char d cs : forall acc,
  pgo d cs acc = if cdecided d cs then Some (VDoc (fold_left setkv (cvals d cs) acc)) else None.
Proof.
  induction cs as [|[k e] cs IH]; intros acc; [reflexivity|].
  cbn [pgo cdecided cvals forallb flat_map fst snd].
  destruct (seval [] d e) as [v| | |]; cbn [andb app fold_left]; try reflexivity.
  - rewrite IH. reflexivity.
  - rewrite IH. reflexivity.
Qed.

Lemma cvals_keys d cs k : In k (map fst (cvals d cs)) -> In k (map fst cs).
Proof.
  induction cs as [|[k' e] cs IH]; [intros []|]. cbn [cvals flat_map fst snd map].
  rewrite map_app. intros H. apply in_app_or in H. destruct H as [H|H].
  - destruct (seval [] d e) as [v| | |]; cbn in H; try contradiction. destruct H as [<-|[]]. left. reflexivity.
  - right. apply IH. exact H.
Qed.

Lemma cvals_NoDup d cs : NoDup (map fst cs) -> NoDup (map fst (cvals d cs)).
Proof.
  induction cs as [|[k e] cs IH]; intros Hn; [constructor|].
  cbn [map fst] in Hn. inversion Hn as [|? ? Hni Hn']; subst.
  cbn [cvals flat_map fst snd]. rewrite map_app.
  destruct (seval [] d e); cbn [map fst app]; try (apply IH; exact Hn').
  constructor; [|apply IH; exact Hn']. intros Hin. apply Hni. eapply cvals_keys. exact Hin.
Qed.

(* ------------------------------------------------------------ the model: the loop, in two parts *)
Definition news := option (list (list (string * value))).

Fixpoint loop_new (fs : list (string * value)) (new : news) (l : list value) : res news :=
  match fs with
  | [] => Ok new
  | (k, v) :: fs' =>
      if is_flag v then loop_new fs' new l
      else let! new' := mapM (proj_new_fn k v) (combine l (cur_of new l)) in
           loop_new fs' (Some new') l
  end.

Definition mflag (kv : string * value) : bool := is_flag (snd kv).
Definition flag_names (fs : list (string * value)) : list string :=
  map fst (List.filter (fun kv => mflag kv && not_id kv) fs).

Lemma flag_names_cons k v fs :
  flag_names ((k, v) :: fs) = if is_flag v && negb (k =? "_id") then k :: flag_names fs else flag_names fs.
Proof. unfold flag_names, mflag, not_id. cbn [List.filter fst snd]. destruct (is_flag v && negb (k =? "_id")); reflexivity. Qed.

Lemma project_loop_decomp l : forall fs st m',
  loop_method fs (ps_method st) = Ok m' ->
  project_loop fs st l =
  let! n := loop_new fs (ps_new st) l in Ok (mkPS m' (ps_filter st ++ flag_names fs) n).
Proof.
  induction fs as [|[k v] fs IH]; intros st m' Hm.
  - cbn [loop_method] in Hm. inversion Hm; subst. cbn [project_loop loop_new bind flag_names List.filter map].
    rewrite app_nil_r. destruct st; reflexivity.
  - rewrite project_loop_cons. cbn [loop_method] in Hm.
    change (proj_method st k v) with (method_step (ps_method st) k (truthy v)).
    destruct (method_step (ps_method st) k (truthy v)) as [m1|e]; cbn [bind] in *; [|discriminate].
    cbn [loop_new]. rewrite flag_names_cons. destruct (is_flag v); cbn [andb].
    + rewrite (IH (mkPS m1 (if k =? "_id" then ps_filter st else ps_filter st ++ [k]) (ps_new st)) m' Hm).
      cbn [ps_method ps_filter ps_new].
      destruct (loop_new fs (ps_new st) l) as [n|e]; cbn [bind]; [|reflexivity].
      destruct (k =? "_id"); cbn [negb]; [reflexivity|]. rewrite <- app_assoc. reflexivity.
    + destruct (mapM (proj_new_fn k v) (combine l (cur_of (ps_new st) l))) as [new'|e]; cbn [bind]; [|reflexivity].
      rewrite (IH (mkPS m1 (ps_filter st) (Some new')) m' Hm). reflexivity.
Qed.

(* with every field other than _id truthy the mode is inclusion *)
Lemma loop_method_none_true fs :
  nodup_str (map fst fs) = true -> agree_flags true fs = true ->
  existsb not_id fs = true ->
  loop_method fs None = Ok (Some true).
Proof.
  intros Hn Ha Hex. destruct fs as [|[k v] fs]; [discriminate|].
  unfold agree_flags in Ha. cbn [forallb] in Ha. apply andb_true_iff in Ha. destruct Ha as [Hb Ha].
  cbn [loop_method]. unfold method_step.
  destruct (String.eqb_spec k "_id") as [->|Hk].
  - cbn [negb orb]. destruct (truthy v); cbn [bind].
    + apply loop_method_some. exact Ha.
    + pose proof (nodup_rest_not_id v fs Hn) as Hni.
      apply loop_method_none_noid; [exact Hni| |exact Ha].
      intros ->. cbn in Hex. discriminate.
  - apply String.eqb_neq in Hk. unfold not_id in Hb. cbn [fst snd] in Hb. rewrite Hk in Hb.
    cbn [negb orb] in Hb. apply eqb_prop in Hb. rewrite Hb. cbn [negb orb bind].
    apply loop_method_some. exact Ha.
Qed.

(* ------------------------------------------------------------ the model: the computed fields *)
Definition nonflags (fs : list (string * value)) : list (string * value) :=
  List.filter (fun kv => negb (mflag kv)) fs.

Lemma nonflags_cons k v fs :
  nonflags ((k, v) :: fs) = if is_flag v then nonflags fs else (k, v) :: nonflags fs.
Proof. unfold nonflags, mflag. cbn [List.filter snd]. destruct (is_flag v); reflexivity. Qed.

Lemma combine_map_snd {A B} (f : A * B -> A * B) (l : list A) (c : list B) :
  (forall p, fst (f p) = fst p) ->
  combine l (map (fun p => snd (f p)) (combine l c)) = map f (combine l c).
Proof.
  intros Hf. revert c. induction l as [|x l IH]; intros c; [reflexivity|].
  destruct c as [|y c]; [reflexivity|]. cbn [combine map]. rewrite IH. f_equal.
  specialize (Hf (x, y)). cbn [fst] in Hf. destruct (f (x, y)) as [a b]. cbn [fst snd] in *. subst. reflexivity.
Qed.

Lemma proj_new_fn_spec k e p :
  c04_reasons e (fst p) = 0 ->
  (match seval [] (fst p) e with SV _ | SMiss => true | _ => false end) = true ->
  proj_new_fn k e p = Err EUnmodelled \/ proj_new_fn k e p = Ok (snd (step_acc k e p)).
Proof.
  intros Hg Hs. destruct p as [d acc]. cbn [fst snd] in *. unfold proj_new_fn, step_acc. cbn [fst snd].
  destruct (R_Rc _ _ (expr_R d e Hg)) as [Hm|v Hsv Hm|Hsv Hm|er Hsv Hm|Hsv]; try rewrite Hm.
  - left. reflexivity.
  - rewrite Hsv. right. reflexivity.
  - rewrite Hsv. right. reflexivity.
  - rewrite Hsv in Hs. discriminate.
  - rewrite Hsv in Hs. discriminate.
Qed.

Lemma pgo_cons d k e cs acc :
  pgo d ((k, e) :: cs) acc =
  if (match seval [] d e with SV _ | SMiss => true | _ => false end)
  then pgo d cs (snd (step_acc k e (d, acc))) else None.
Proof. cbn [pgo step_acc fst snd]. destruct (seval [] d e); reflexivity. Qed.

Lemma loop_new_spec l fs : forall (new : news) outs,
  (forall m, new = Some m -> List.length m = List.length l) ->
  (forall d k e, In d l -> In (k, e) (nonflags fs) -> c04_reasons e d = 0) ->
  all_opt (map (fun p => pgo (fst p) (nonflags fs) (snd p)) (combine l (cur_of new l))) = Some outs ->
  loop_new fs new l = Err EUnmodelled \/
  exists new', loop_new fs new l = Ok new' /\ map VDoc (cur_of new' l) = outs /\
               (forall m, new' = Some m -> List.length m = List.length l) /\
               (nonflags fs <> [] -> exists n, new' = Some n) /\ (nonflags fs = [] -> new' = new).
Proof.
  induction fs as [|[k v] fs IH]; intros new outs Hnew Hg Hs;
    pose proof (cur_of_length new l Hnew) as Hlen.
  - right. exists new. cbn [nonflags List.filter] in Hs.
    change (fun p : value * list (string * value) => pgo (fst p) [] (snd p))
      with (fun p : value * list (string * value) => Some (VDoc (snd p))) in Hs.
    rewrite all_opt_pure in Hs. inversion Hs; subst.
    split; [reflexivity|]. split.
    { rewrite <- (map_map snd VDoc). f_equal. symmetry. apply map_snd_combine. exact Hlen. }
    split; [exact Hnew|]. split; [intros H; exfalso; apply H; reflexivity|reflexivity].
  - cbn [loop_new]. rewrite nonflags_cons in Hs, Hg |- *.
    destruct (is_flag v) eqn:Hfv.
    + exact (IH new outs Hnew Hg Hs).
    + set (pairs := combine l (cur_of new l)) in *.
      assert (Hdec : forall p, In p pairs ->
                (match seval [] (fst p) v with SV _ | SMiss => true | _ => false end) = true).
      { intros p Hp. destruct (all_opt_some_in _ _ _ Hs p Hp) as [y Hy]. rewrite pgo_cons in Hy.
        destruct (match seval [] (fst p) v with SV _ | SMiss => true | _ => false end); [reflexivity|discriminate]. }
      destruct (mapM_unmod_or (proj_new_fn k v) (fun p => snd (step_acc k v p)) pairs) as [Hm|Hm].
      { intros p Hp. apply proj_new_fn_spec; [|exact (Hdec p Hp)].
        apply (Hg (fst p) k v); [|left; reflexivity].
        destruct p as [d a]. unfold pairs in Hp. apply in_combine_l in Hp. exact Hp. }
      * rewrite Hm. left. reflexivity.
      * rewrite Hm. cbn [bind].
        set (n := map (fun p => snd (step_acc k v p)) pairs).
        assert (Hn : List.length n = List.length l).
        { unfold n, pairs. rewrite map_length, combine_length, Hlen. lia. }
        assert (Hcur : cur_of (Some n) l = n) by (apply cur_of_len; exact Hn).
        assert (Hcomb : combine l n = map (step_acc k v) pairs).
        { unfold n, pairs. apply combine_map_snd. intros p. reflexivity. }
        destruct (IH (Some n) outs) as [IH1|(new' & H1 & H2 & H3 & H4 & H5)].
        { intros m Hm'. inversion Hm'; subst. exact Hn. }
        { intros d k' e' Hd Hin. apply (Hg d k' e' Hd). right. exact Hin. }
        { rewrite Hcur, Hcomb, map_map. rewrite <- Hs. apply all_opt_ext. intros p Hp.
          rewrite pgo_cons. rewrite (Hdec p Hp). destruct p; reflexivity. }
        -- left. exact IH1.
        -- right. exists new'. split; [exact H1|]. split; [exact H2|]. split; [exact H3|].
           split; [|intros H; discriminate H].
           intros _. destruct (nonflags fs) as [|x r] eqn:Hnf.
           ++ rewrite (H5 eq_refl). exists n. reflexivity.
           ++ apply H4. discriminate.
Qed.

(* ------------------------------------------------------------ the fields kept, up to order *)
Definition flist (F : list string) (b idb : bool) : list string :=
  if Bool.eqb b idb then F ++ ["_id"] else F.

Lemma doc_perm_gen F idb dfs b :
  mem_str "_id" F = false ->
  nodup_str (map fst dfs) = true ->
  Permutation (spec_out b idb F dfs) (List.filter (keep b (flist F b idb)) dfs).
Proof.
  intros HF Hn. unfold spec_out, flist. cbv zeta.
  assert (HFk : forall k, mem_str k F = true -> (k =? "_id") = false).
  { intros k Hk. destruct (k =? "_id") eqn:E; [|reflexivity]. apply String.eqb_eq in E. subst.
    rewrite Hk in HF. discriminate. }
  rewrite (del_key_filter "_id" _ (nodup_filter_keys (keep b F) dfs Hn)). rewrite filter_filter.
  destruct idb; destruct b; cbn [Bool.eqb].
  - set (M := List.filter (keep true (F ++ ["_id"])) dfs).
    assert (Ha : assoc "_id" M = assoc "_id" dfs).
    { apply assoc_filter_key. intros v _. rewrite keep_true. cbn [fst]. rewrite mem_str_app, HF. reflexivity. }
    assert (Hd : del_key "_id" M
                 = List.filter (fun x : string * value => keep true F x && negb (fst x =? "_id")) dfs).
    { unfold M. rewrite (del_key_filter "_id" _ (nodup_filter_keys _ dfs Hn)). rewrite filter_filter.
      apply filter_ext_in. intros [k v] _. rewrite !keep_true. cbn [fst]. rewrite mem_str_app.
      cbn [mem_str]. destruct (mem_str k F) eqn:E; cbn [orb andb]; [reflexivity|].
      destruct (k =? "_id"); reflexivity. }
    rewrite <- Ha, <- Hd. apply perm_assoc_del.
  - set (M := List.filter (keep false F) dfs).
    assert (Ha : assoc "_id" M = assoc "_id" dfs).
    { apply assoc_filter_key. intros v _. rewrite keep_false. cbn [fst]. rewrite HF. reflexivity. }
    assert (Hd : del_key "_id" M
                 = List.filter (fun x : string * value => keep false F x && negb (fst x =? "_id")) dfs).
    { unfold M. rewrite (del_key_filter "_id" _ (nodup_filter_keys _ dfs Hn)). rewrite filter_filter. reflexivity. }
    rewrite <- Ha, <- Hd. apply perm_assoc_del.
  - rewrite (filter_ext_in _ (keep true F) dfs); [apply Permutation_refl|].
    intros [k v] _. rewrite keep_true. cbn [fst]. destruct (mem_str k F) eqn:E; [|reflexivity].
    rewrite (HFk k E). reflexivity.
  - rewrite (filter_ext_in _ (keep false (F ++ ["_id"])) dfs); [apply Permutation_refl|].
    intros [k v] _. rewrite !keep_false. cbn [fst]. rewrite mem_str_app. cbn [mem_str].
    destruct (mem_str k F); cbn [orb negb andb]; [reflexivity|]. destruct (k =? "_id"); reflexivity.
Qed.

(* ------------------------------------------------------------ the specification with computed fields *)
Definition sflag (kv : string * value) : bool := is_flag_value (snd kv).
Definition computed (fs : list (string * value)) : list (string * value) :=
  List.filter (fun kv => negb (is_flag_value (snd kv)) && negb (fst kv =? "_id")) fs.
Definition sflag_names (fs : list (string * value)) : list string :=
  map fst (List.filter (fun kv => negb (fst kv =? "_id")) (List.filter (fun kv => is_flag_value (snd kv)) fs)).
Definition numeric_or_null (v : value) : bool :=
  match v with VInt _ | VDbl _ | VNull => true | _ => false end.
Definition sid_on (fs : list (string * value)) : option bool :=
  match assoc "_id" fs with
  | Some v => if is_flag_value v then Some (truthy v) else None
  | None => Some true
  end.

Lemma spec_project_doc_computed fs dfs y :
  computed fs <> [] ->
  forallb (fun kv => negb (has_dot (fst kv))) fs = true ->
  spec_project_doc fs (VDoc dfs) = Some y ->
  existsb (fun kv => negb (plain_name (fst kv))) (computed fs) = false /\
  existsb (fun kv => numeric_or_null (snd kv)) (computed fs) = false /\
  existsb (fun kv => negb (truthy (snd kv)) && negb (fst kv =? "_id"))
          (List.filter (fun kv => is_flag_value (snd kv)) fs) = false /\
  exists idb, sid_on fs = Some idb /\
    pgo (VDoc dfs) (computed fs) (spec_out true idb (sflag_names fs) dfs) = Some y.
Proof.
  intros Hne Hdot H. unfold spec_project_doc in H. cbv zeta in H. fold (computed fs) in H.
  set (flags := List.filter (fun kv : string * value => is_flag_value (snd kv)) fs) in *.
  destruct (existsb (fun kv : string * value => negb (plain_name (fst kv))) (computed fs)) eqn:H1; [discriminate|].
  change (fun kv : string * value => match snd kv with VInt _ | VDbl _ | VNull => true | _ => false end)
    with (fun kv : string * value => numeric_or_null (snd kv)) in H.
  destruct (existsb (fun kv : string * value => numeric_or_null (snd kv)) (computed fs)) eqn:H2; [discriminate|].
  destruct (computed fs) as [|c0 cs] eqn:Hc; [contradiction|]. rewrite <- Hc in *.
  destruct (existsb (fun kv : string * value => negb (truthy (snd kv)) && negb (fst kv =? "_id")) flags) eqn:H3;
    [discriminate|].
  change (match assoc "_id" fs with
          | Some v => if is_flag_value v then Some (truthy v) else None
          | None => Some true end) with (sid_on fs) in H.
  destruct (sid_on fs) as [idb|]; [|discriminate].
  split; [reflexivity|]. split; [reflexivity|]. split; [reflexivity|]. exists idb. split; [reflexivity|].
  assert (Hpaths : map (fun kv : string * value => split_dots (fst kv))
                       (List.filter (fun kv : string * value => negb (fst kv =? "_id")) flags)
                   = map (fun k => [k]) (sflag_names fs)).
  { unfold sflag_names. fold flags. rewrite map_map. apply map_ext_in. intros kv Hin.
    apply split_dots_plain. apply filter_In in Hin. destruct Hin as [Hin _].
    unfold flags in Hin. apply filter_In in Hin. destruct Hin as [Hin _].
    rewrite forallb_forall in Hdot. apply negb_true_iff. exact (Hdot kv Hin). }
  rewrite Hpaths in H.
  match type of H with (if ?c then None else _) = _ => destruct c; [discriminate|] end.
  match type of H with (if ?c then None else _) = _ => destruct c; [discriminate|] end.
  rewrite include_single in H. unfold spec_out. cbv zeta. cbn [Bool.eqb]. rewrite Hc. exact H.
Qed.

Lemma spec_project_doc_isdoc fs d y :
  computed fs <> [] -> spec_project_doc fs d = Some y -> exists dfs, d = VDoc dfs.
Proof.
  intros Hne H. unfold spec_project_doc in H. cbv zeta in H. fold (computed fs) in H.
  destruct (existsb _ (computed fs)); [discriminate|].
  destruct (existsb _ (computed fs)); [discriminate|].
  destruct (computed fs) as [|c0 cs]; [contradiction|].
  destruct (existsb _ _); [discriminate|].
  destruct (match assoc "_id" fs with Some v => if is_flag_value v then Some (truthy v) else None | None => Some true end);
    [|discriminate].
  destruct d; try discriminate. eexists. reflexivity.
Qed.

(* ------------------------------------------------------------ the stage, with computed fields *)
Definition project_covered2 (o : value) : bool :=
  match o with
  | VDoc fs => forallb (fun kv => negb (has_dot (fst kv)) && (not_id kv || is_flag_value (snd kv))) fs
               && nodup_str (map fst fs)
  | _ => true
  end.

Lemma is_flag_shape v : is_flag v = true -> match v with VBool _ | VInt _ | VDbl _ => True | _ => False end.
Proof. destruct v as [| | | | |us tz| | |]; try (intros _; exact I); try discriminate. Qed.

Lemma filter_nil_all {A} (p : A -> bool) l : List.filter p l = [] -> forall x, In x l -> p x = false.
Proof.
  intros H x Hin. destruct (p x) eqn:E; [|reflexivity]. exfalso.
  assert (Hf : In x (List.filter p l)) by (apply filter_In; split; assumption). rewrite H in Hf. destruct Hf.
Qed.

Lemma combine_map_const {A B} (l : list A) (c : B) : combine l (map (fun _ => c) l) = map (fun d => (d, c)) l.
Proof. induction l as [|x l IH]; [reflexivity|]. cbn [map combine]. rewrite IH. reflexivity. Qed.

Lemma combine_map_map {A B C} (f : A -> B) (g : A -> C) l : combine (map f l) (map g l) = map (fun d => (f d, g d)) l.
Proof. induction l as [|x l IH]; [reflexivity|]. cbn [map combine]. rewrite IH. reflexivity. Qed.

Lemma map_VDoc_inj a b : map VDoc a = map VDoc b -> a = b.
Proof.
  revert b. induction a as [|x a IH]; intros [|y b] H; try discriminate; [reflexivity|].
  cbn [map] in H. inversion H. f_equal. apply IH. assumption.
Qed.

Lemma nodot_filter_keys (p : string * value -> bool) fs :
  forallb (fun kv => negb (has_dot (fst kv))) fs = true ->
  forallb (fun k => negb (has_dot k)) (map fst (List.filter p fs)) = true.
Proof.
  intros H. apply forallb_forall. intros k Hk. apply in_map_iff in Hk. destruct Hk as (kv & <- & Hin).
  apply filter_In in Hin. rewrite forallb_forall in H. exact (H kv (proj1 Hin)).
Qed.

Definition final_doc (C : list (string * value)) (FL : list string) (d : value) : value :=
  match d with
  | VDoc dfs => VDoc (fold_left setkv (cvals d C) (List.filter (keep true FL) dfs))
  | other => other
  end.

Lemma stage_project_computed fs l outs y0 :
  fs <> [] ->
  computed fs <> [] ->
  forallb (fun kv => negb (has_dot (fst kv)) && (not_id kv || is_flag_value (snd kv))) fs = true ->
  nodup_str (map fst fs) = true ->
  existsb (fun kv => negb (is_flag (snd kv)) && expr_finding (snd kv) l) fs = false ->
  existsb (fun kv => negb (is_flag (snd kv)) && negb (truthy (snd kv))) fs = false ->
  Forall top_nodup l ->
  spec_project_doc fs (VDoc []) = Some y0 ->
  all_opt (map (spec_project_doc fs) l) = Some outs ->
  project_stage (VDoc fs) l = Err EUnmodelled \/
  exists l', project_stage (VDoc fs) l = Ok l' /\ Forall2 tperm outs l'.
Proof.
  intros Hne0 Hcne Hc Hn Hg2 Hg512 Hnd H0 Hs.
  assert (Hdot : forallb (fun kv => negb (has_dot (fst kv))) fs = true).
  { apply forallb_forall. intros kv Hin. rewrite forallb_forall in Hc. specialize (Hc kv Hin).
    apply andb_true_iff in Hc. exact (proj1 Hc). }
  assert (Hidf : forall kv, In kv fs -> not_id kv = false -> is_flag_value (snd kv) = true).
  { intros kv Hin Hni. rewrite forallb_forall in Hc. specialize (Hc kv Hin).
    apply andb_true_iff in Hc. destruct Hc as [_ Hc]. rewrite Hni in Hc. exact Hc. }
  destruct (spec_project_doc_computed fs [] y0 Hcne Hdot H0) as (H1 & H2 & H3 & idb & Hidb & _).
  set (C := computed fs) in *.
  (* the two notions of flag agree on this specification *)
  assert (Hcls : forall kv, In kv fs -> is_flag (snd kv) = is_flag_value (snd kv)).
  { intros kv Hin. destruct (is_flag_value (snd kv)) eqn:Hfv; [apply flagv_is_flag; exact Hfv|].
    destruct (not_id kv) eqn:Hni; [|rewrite (Hidf kv Hin Hni) in Hfv; discriminate].
    assert (HinC : In kv C).
    { unfold C, computed. apply filter_In. split; [exact Hin|]. rewrite Hfv. exact Hni. }
    pose proof (existsb_false_in _ _ H2 kv HinC) as Hnum. cbv beta in Hnum.
    destruct (is_flag (snd kv)) eqn:Hf; [|reflexivity]. apply is_flag_shape in Hf.
    destruct (snd kv); try contradiction; try discriminate. }
  assert (HnfC : nonflags fs = C).
  { unfold nonflags, C, computed. apply filter_ext_in. intros kv Hin. unfold mflag. rewrite (Hcls kv Hin).
    destruct (is_flag_value (snd kv)) eqn:Hfv; [reflexivity|]. cbn [negb andb].
    destruct (not_id kv) eqn:Hni; [symmetry; exact Hni|]. rewrite (Hidf kv Hin Hni) in Hfv. discriminate. }
  assert (Hfn : flag_names fs = sflag_names fs).
  { unfold flag_names, sflag_names. rewrite filter_filter. f_equal. apply filter_ext_in. intros kv Hin.
    unfold mflag. rewrite (Hcls kv Hin). reflexivity. }
  (* the mode *)
  assert (Hagree : agree_flags true fs = true).
  { unfold agree_flags. apply forallb_forall. intros kv Hin. destruct (not_id kv) eqn:Hni; [|reflexivity].
    cbn [negb orb]. destruct (is_flag_value (snd kv)) eqn:Hfv.
    - assert (Hinf : In kv (List.filter (fun kv => is_flag_value (snd kv)) fs)) by (apply filter_In; split; assumption).
      pose proof (existsb_false_in _ _ H3 kv Hinf) as Ht. cbv beta in Ht. unfold not_id in Hni. rewrite Hni in Ht.
      rewrite andb_true_r in Ht. apply negb_false_iff in Ht. rewrite Ht. reflexivity.
    - pose proof (existsb_false_in _ _ Hg512 kv Hin) as Ht. cbv beta in Ht. rewrite (Hcls kv Hin), Hfv in Ht.
      cbn [negb andb] in Ht. apply negb_false_iff in Ht. rewrite Ht. reflexivity. }
  assert (Hex : existsb not_id fs = true).
  { destruct C as [|c0 cs] eqn:HC; [contradiction|]. apply existsb_exists. exists c0.
    assert (Hin0 : In c0 (computed fs)) by (fold C; rewrite HC; left; reflexivity).
    unfold computed in Hin0. apply filter_In in Hin0. destruct Hin0 as [Hin0 Hp]. split; [exact Hin0|].
    apply andb_true_iff in Hp. exact (proj2 Hp). }
  pose proof (loop_method_none_true fs Hn Hagree Hex) as Hloop.
  (* every document: a sub-document, its computed fields decided *)
  assert (Hdocs : forall d, In d l -> exists dfs, d = VDoc dfs /\ cdecided d C = true /\
             spec_project_doc fs d = Some (VDoc (fold_left setkv (cvals d C) (spec_out true idb (sflag_names fs) dfs)))).
  { intros d Hd. destruct (all_opt_some_in _ _ _ Hs d Hd) as [y Hy].
    destruct (spec_project_doc_isdoc fs d y Hcne Hy) as [dfs ->]. exists dfs. split; [reflexivity|].
    destruct (spec_project_doc_computed fs dfs y Hcne Hdot Hy) as (_ & _ & _ & idb' & Hidb' & Hp).
    rewrite Hidb in Hidb'. inversion Hidb'; subst idb'. fold C in Hp. rewrite pgo_char in Hp.
    destruct (cdecided (VDoc dfs) C); [|discriminate]. split; [reflexivity|]. rewrite Hy, <- Hp. reflexivity. }
  (* the loop *)
  unfold project_stage.
  rewrite (project_loop_decomp l fs (mkPS None [] None) (Some true) Hloop). cbn [ps_method ps_filter ps_new app].
  destruct (loop_new_spec l fs None (map (fun d => VDoc (fold_left setkv (cvals d C) [])) l))
    as [Hm|(new' & Hm & Hout & Hlen & Hsome & _)].
  { intros m Hm. discriminate Hm. }
  { intros d k e Hd Hin. unfold nonflags in Hin. apply filter_In in Hin. destruct Hin as [Hin Hp].
    pose proof (existsb_false_in _ _ Hg2 (k, e) Hin) as Hgd. cbv beta in Hgd. unfold mflag in Hp. cbn [snd] in *.
    rewrite Hp in Hgd. cbn [andb] in Hgd. exact (expr_finding_false e l Hgd d Hd). }
  { cbn [cur_of]. rewrite combine_map_const, map_map. cbn [fst snd]. rewrite HnfC.
    rewrite <- (all_opt_pure (fun d => VDoc (fold_left setkv (cvals d C) [])) l). apply all_opt_ext.
    intros d Hd. destruct (Hdocs d Hd) as (dfs & -> & Hdec & _). rewrite pgo_char, Hdec. reflexivity. }
  { rewrite Hm. left. reflexivity. }
  rewrite Hm. cbn [bind ps_method ps_filter ps_new].
  destruct (Hsome ltac:(rewrite HnfC; exact Hcne)) as [n ->].
  pose proof (Hlen n eq_refl) as Hn_len. rewrite (cur_of_len n l Hn_len) in Hout.
  assert (Hn_eq : n = map (fun d => cvals d C) l).
  { apply map_VDoc_inj. rewrite Hout, map_map. apply map_ext_in. intros d Hd. f_equal.
    apply (fold_setkv_fresh (cvals d C) []); [|intros k _ []].
    apply cvals_NoDup. unfold C, computed. apply nodup_NoDup. apply nodup_filter_keys. exact Hn. }
  (* _id and the list of kept fields *)
  assert (Hid : match assoc "_id" fs with
                | Some v => negb (py_eq v (VBool false))
                | None => true end = idb).
  { unfold sid_on in Hidb. destruct (assoc "_id" fs) as [v|] eqn:Ha; [|inversion Hidb; reflexivity].
    destruct (is_flag_value v) eqn:Hfv; [|discriminate]. inversion Hidb; subst. apply flagv_include_id. exact Hfv. }
  rewrite Hid, Hfn.
  change (if Bool.eqb true idb then sflag_names fs ++ ["_id"] else sflag_names fs) with (flist (sflag_names fs) true idb).
  set (F := sflag_names fs) in *.
  assert (HF : mem_str "_id" F = false).
  { destruct (mem_str "_id" F) eqn:E; [|reflexivity]. apply mem_str_in in E. unfold F, sflag_names in E.
    apply in_map_iff in E. destruct E as (kv & Hk & Hin). apply filter_In in Hin. destruct Hin as [_ Hp].
    rewrite Hk in Hp. discriminate. }
  assert (HFL : forallb (fun k => negb (has_dot k)) (flist F true idb) = true /\ nodup_str (flist F true idb) = true).
  { assert (HFd : forallb (fun k => negb (has_dot k)) F = true).
    { unfold F, sflag_names. rewrite filter_filter. apply nodot_filter_keys. exact Hdot. }
    assert (HFn : nodup_str F = true).
    { unfold F, sflag_names. rewrite filter_filter. apply nodup_filter_keys. exact Hn. }
    unfold flist. destruct (Bool.eqb true idb); [|split; assumption]. split.
    - rewrite forallb_app, HFd. reflexivity.
    - rewrite nodup_str_app, HFn. cbn [nodup_str mem_str negb andb]. apply forallb_forall. intros k Hk.
      cbn [mem_str]. destruct (k =? "_id") eqn:E; [|reflexivity]. apply String.eqb_eq in E. subst.
      apply mem_str_in in Hk. rewrite Hk in HF. discriminate. }
  destruct HFL as [HFLd HFLn].
  (* what the specification answers, document by document *)
  assert (Hspec : forall FL, (forall dfs, nodup_str (map fst dfs) = true ->
                     Permutation (spec_out true idb F dfs) (List.filter (keep true FL) dfs)) ->
                  Forall2 tperm outs (map (final_doc C FL) l)).
  { intros FL HP. apply (all_opt_Forall2 _ _ _ _ _ Hs). intros d y Hd Hy.
    destruct (Hdocs d Hd) as (dfs & -> & _ & Hy'). rewrite Hy' in Hy. inversion Hy; subst y.
    cbn [final_doc]. eexists. eexists. split; [reflexivity|]. split; [reflexivity|].
    assert (Hndd : nodup_str (map fst dfs) = true) by (rewrite Forall_forall in Hnd; exact (Hnd _ Hd)).
    apply fold_setkv_perm; [|apply HP; exact Hndd].
    eapply Permutation_NoDup; [apply Permutation_map; apply Permutation_sym; apply HP; exact Hndd|].
    apply nodup_NoDup. apply nodup_filter_keys. exact Hndd. }
  destruct (flist F true idb) as [|k0 ks] eqn:HFL.
  - (* no field kept: the computed fields alone *)
    right. eexists. split; [reflexivity|].
    assert (HF0 : F = [] /\ idb = false).
    { unfold flist in HFL. destruct idb; cbn [Bool.eqb] in HFL; [destruct F; discriminate|]. split; [exact HFL|reflexivity]. }
    destruct HF0 as [HF0 ->].
    assert (Hfin : map VDoc n = map (final_doc C []) l).
    { rewrite Hout. apply map_ext_in. intros d Hd. destruct (Hdocs d Hd) as (dfs & -> & _).
      cbn [final_doc]. rewrite (filter_none (keep true []) dfs); [reflexivity|]. intros x _. apply keep_true. }
    rewrite Hfin. apply Hspec. intros dfs Hndd. rewrite HF0. unfold spec_out. cbv zeta.
    rewrite (filter_none (keep true []) dfs); [apply Permutation_refl|]. intros x _. apply keep_true.
  - destruct (forallb (fun k => path_modelled (split_dots k)) (k0 :: ks)); cbn [negb]; [|left; reflexivity].
    rewrite (combine_tree_plain (k0 :: ks) HFLd HFLn). cbn [bind]. right.
    assert (HP : forall dfs, nodup_str (map fst dfs) = true ->
               Permutation (spec_out true idb F dfs) (List.filter (keep true (k0 :: ks)) dfs)).
    { intros dfs Hndd. rewrite <- HFL. apply doc_perm_gen; assumption. }
    destruct n as [|x r] eqn:Hnn.
    + (* no document *)
      eexists. split; [reflexivity|]. destruct l as [|d l']; [|discriminate Hn_len].
      cbn [map] in *. inversion Hs; subst. constructor.
    + eexists. split; [reflexivity|]. rewrite <- Hnn in *. clear Hnn.
      assert (Hfin : map (fun ab : value * list (string * value) =>
                            match fst ab with
                            | VDoc a => VDoc (fold_left (fun acc kv => set_key (fst kv) (snd kv) acc) (snd ab) a)
                            | other => other
                            end) (combine (map (project_by_tree (leaf_tree (k0 :: ks)) true) l) n)
                     = map (final_doc C (k0 :: ks)) l).
      { rewrite Hn_eq, combine_map_map, map_map. apply map_ext_in. intros d Hd.
        destruct (Hdocs d Hd) as (dfs & -> & _). cbn [fst snd]. rewrite project_by_tree_leaf. reflexivity. }
      rewrite Hfin. apply Hspec. exact HP.
Qed.

(* ------------------------------------------------------------ the stage lemma: flags, or flags and computed fields *)
Lemma stage_project2 db o l :
  project_covered2 o = true ->
  stage_reasons db "$project" o l = 0 ->
  Forall top_nodup l ->
  rel_perm (spec_stage db "$project" o (mkStream l true [])) (run_stage db "$project" o l).
Proof.
  intros Hc Hg Hnd.
  destruct o as [| | | | | | |fs|]; try (rewrite run_stage_project, spec_stage_project; exact I).
  destruct fs as [|kv0 fs0]; [rewrite run_stage_project, spec_stage_project; exact I|].
  assert (Hne0 : kv0 :: fs0 <> []) by discriminate.
  remember (kv0 :: fs0) as fs eqn:Heqfs. clear Heqfs kv0 fs0.
  destruct (computed fs) as [|c0 cs] eqn:HC.
  - (* flags only *)
    apply stage_project; [|exact Hg|exact Hnd].
    unfold project_covered2 in Hc. unfold project_covered.
    apply andb_true_iff in Hc. destruct Hc as [Hc Hn]. rewrite Hn, andb_true_r.
    apply forallb_forall. intros kv Hin. rewrite forallb_forall in Hc. specialize (Hc kv Hin).
    apply andb_true_iff in Hc. destruct Hc as [Hd Hf]. rewrite Hd. cbn [andb].
    destruct (is_flag_value (snd kv)) eqn:Hfv; [reflexivity|]. rewrite orb_false_r in Hf.
    pose proof (filter_nil_all _ _ HC kv Hin) as Hp. cbv beta in Hp. rewrite Hfv in Hp. cbn [negb andb] in Hp.
    unfold not_id in Hf. rewrite Hf in Hp. discriminate.
  - rewrite run_stage_project, spec_stage_project.
    assert (Hg' : Z.lor (zb (existsb (fun kv => negb (is_flag (snd kv)) && expr_finding (snd kv) l) fs) 2)
                   (Z.lor (zb (id_first_bad fs) 16)
                          (zb (existsb (fun kv => negb (is_flag (snd kv)) && negb (truthy (snd kv))) fs) 512)) = 0)
      by exact Hg.
    apply lor_zero in Hg'. destruct Hg' as [Hg2 Hg']. apply lor_zero in Hg'. destruct Hg' as [_ Hg512].
    apply zb_zero in Hg2; [|discriminate]. apply zb_zero in Hg512; [|discriminate].
    unfold project_covered2 in Hc. apply andb_true_iff in Hc. destruct Hc as [Hc Hn].
    rewrite (spec_project_nonempty fs _ Hne0). cbn [s_docs s_ord s_sets]. rewrite no_sets_nil.
    destruct (spec_project_doc fs (VDoc [])) as [y0|] eqn:H0; [|exact I].
    destruct (all_opt (map (spec_project_doc fs) l)) as [outs|] eqn:Hs; [|exact I].
    assert (Hcne : computed fs <> []) by (rewrite HC; discriminate).
    destruct (stage_project_computed fs l outs y0 Hne0 Hcne Hc Hn Hg2 Hg512 Hnd H0 Hs) as [Hm|(l' & Hm & HF)];
      rewrite Hm; [exact I|].
    unfold rel_perm, rel_gen. cbn [rel_str s_docs s_ord s_sets]. split; [exact HF|split; reflexivity].
Qed.
