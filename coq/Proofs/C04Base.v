(* C04 proofs, part 1: the relation between the specification's and the model's results, the
   environments, lists of operands, truth values, sizes, guard arithmetic. *)
From Coq Require Import ZArith List String Bool Ascii Lia.
From Verif Require Import Value PyEq BsonOrder Path Update Filter FilterSpec Cursor Expr ExprSpec ExprGuard.
From Verif Require Import C01Values.
Import ListNotations.
Open Scope Z_scope.
Open Scope string_scope.
Open Scope list_scope.

(* ------------------------------------------------------------------ the result relation *)
(* the model environment seen by the specification *)
Definition lift (vars : list (string * value)) : svars :=
  map (fun kv => (fst kv, SV (snd kv))) vars.
Arguments lift : simpl never.

Lemma lift_app a b : lift (a ++ b) = lift a ++ lift b.
Proof. unfold lift. apply map_app. Qed.
Lemma lift_one n v : lift [(n, v)] = [(n, SV v)].
Proof. reflexivity. Qed.
Lemma lift_nil : lift [] = [].
Proof. reflexivity. Qed.

(* specification result s against model result m: equal values, both missing, both an
   error; nothing is claimed where the specification is silent or the model is *)
Definition R (s : sres) (m : eres) : Prop :=
  m = EE EUnmodelled \/
  match s with
  | SV v => m = EV v
  | SMiss => m = EMiss
  | SErr => exists er, m = EE er
  | SUndef => True
  end.

Inductive Rc (s : sres) (m : eres) : Prop :=
| Rc_unmod : m = EE EUnmodelled -> Rc s m
| Rc_val v : s = SV v -> m = EV v -> Rc s m
| Rc_miss : s = SMiss -> m = EMiss -> Rc s m
| Rc_err er : s = SErr -> m = EE er -> Rc s m
| Rc_undef : s = SUndef -> Rc s m.

Lemma R_Rc s m : R s m -> Rc s m.
Proof.
  intros [H|H]; [apply Rc_unmod; exact H|].
  destruct s as [v| | |].
  - eapply Rc_val; [reflexivity|exact H].
  - apply Rc_miss; [reflexivity|exact H].
  - destruct H as [er H]. eapply Rc_err; [reflexivity|exact H].
  - apply Rc_undef. reflexivity.
Qed.

Lemma R_undef m : R SUndef m.
Proof. right. exact I. Qed.
Lemma R_unmod s : R s (EE EUnmodelled).
Proof. left. reflexivity. Qed.
Lemma R_val v : R (SV v) (EV v).
Proof. right. reflexivity. Qed.
Lemma R_miss : R SMiss EMiss.
Proof. right. reflexivity. Qed.
Lemma R_err er : R SErr (EE er).
Proof. right. exists er. reflexivity. Qed.
Lemma R_any_err s er : (match s with SV _ | SMiss => False | _ => True end) -> R s (EE er).
Proof. destruct s; intros H; try destruct H; [apply R_err|apply R_undef]. Qed.

Ltac done_R :=
  first [ apply R_undef | apply R_unmod | apply R_val | apply R_miss | apply R_err ].

(* the property proved by induction on the expression *)
Definition P (doc e : value) : Prop :=
  forall vars, reasons vars doc e = 0 -> R (seval (lift vars) doc e) (eval vars doc true e).

(* ------------------------------------------------------------------ sizes *)
Fixpoint vsize (v : value) : nat :=
  match v with
  | VDoc fs => S ((fix go (fs : list (string * value)) : nat :=
                     match fs with [] => O | (_, x) :: fs' => (vsize x + go fs')%nat end) fs)
  | VArr xs => S ((fix go (xs : list value) : nat :=
                     match xs with [] => O | x :: xs' => (vsize x + go xs')%nat end) xs)
  | _ => 1%nat
  end.

Lemma vsize_arr_in x xs : In x xs -> (vsize x < vsize (VArr xs))%nat.
Proof.
  induction xs as [|y xs IH]; intros H; [destruct H|].
  destruct H as [->|H]; simpl.
  - lia.
  - specialize (IH H). simpl in IH. lia.
Qed.

Lemma vsize_doc_in k x fs : In (k, x) fs -> (vsize x < vsize (VDoc fs))%nat.
Proof.
  induction fs as [|[k' y] fs IH]; intros H; [destruct H|].
  destruct H as [H|H]; simpl.
  - inversion H; subst. lia.
  - specialize (IH H). simpl in IH. lia.
Qed.

Lemma assoc_in {A} k (l : list (string * A)) v : assoc k l = Some v -> In (k, v) l.
Proof.
  induction l as [|[k' w] l IH]; simpl; intros H; [discriminate|].
  destruct (String.eqb_spec k k') as [->|_].
  - inversion H; subst. left. reflexivity.
  - right. apply IH. exact H.
Qed.

Lemma vsize_assoc k fs x : assoc k fs = Some x -> (vsize x < vsize (VDoc fs))%nat.
Proof. intros H. eapply vsize_doc_in. apply assoc_in. exact H. Qed.

(* ------------------------------------------------------------------ guard arithmetic *)
Lemma lor0 a b : Z.lor a b = 0 <-> a = 0 /\ b = 0.
Proof. apply Z.lor_eq_0_iff. Qed.

Lemma fold_lor0 l : forall a, fold_left Z.lor l a = 0 <-> a = 0 /\ Forall (fun z => z = 0) l.
Proof.
  induction l as [|x l IH]; intros a; simpl.
  - split; [intros H; split; [exact H|constructor]|intros [H _]; exact H].
  - rewrite IH, lor0. split.
    + intros [[Ha Hx] Hl]. split; [exact Ha|constructor; assumption].
    + intros [Ha Hl]. inversion Hl as [|? ? Hx Hl']. repeat split; assumption.
Qed.

Lemma zor_list0 l : zor_list l = 0 <-> Forall (fun z => z = 0) l.
Proof.
  unfold zor_list. rewrite fold_lor0. split; [intros [_ H]; exact H|intros H; split; [reflexivity|exact H]].
Qed.

Lemma zor_list_map0 {A} (f : A -> Z) l : zor_list (map f l) = 0 -> forall x, In x l -> f x = 0.
Proof.
  rewrite zor_list0, Forall_forall. intros H x Hx. apply H. apply in_map. exact Hx.
Qed.

Lemma zor_list_cons0 x l : zor_list (x :: l) = 0 <-> x = 0 /\ zor_list l = 0.
Proof.
  rewrite !zor_list0. split.
  - intros H. inversion H as [|? ? Hx Hl]. split; assumption.
  - intros [H1 H2]. constructor; assumption.
Qed.

Lemma if0 (c : bool) n : n <> 0 -> (if c then n else 0) = 0 -> c = false.
Proof. destruct c; intros Hn H; [contradiction|reflexivity]. Qed.

(* split a guard equation into its parts *)
Ltac split_guard H :=
  repeat match type of H with
         | Z.lor _ _ = 0 =>
             let H1 := fresh H in let H2 := fresh H in
             apply lor0 in H; destruct H as [H1 H2]; try split_guard H1; try split_guard H2
         | zor_list (_ :: _) = 0 =>
             let H1 := fresh H in let H2 := fresh H in
             apply zor_list_cons0 in H; destruct H as [H1 H2]; try split_guard H1; try split_guard H2
         | (if _ then _ else 0) = 0 => apply if0 in H; [|discriminate]
         | 0 = 0 => clear H
         | zor_list [] = 0 => clear H
         end.

(* ------------------------------------------------------------------ truth values *)
Lemma mongo_bool_spec v : mtruth (SV v) = Some (mongo_bool v).
Proof.
  destruct v as [|b|z|e|s|us tz|n|fs|xs]; try reflexivity; unfold mongo_bool; simpl.
  - destruct b; reflexivity.
  - destruct z; reflexivity.
  - destruct e; reflexivity.
Qed.

Lemma R_truth s m b : R s m -> mtruth s = Some b -> m = EE EUnmodelled \/ to_bool m = Ok b.
Proof.
  intros H Hb. destruct (R_Rc _ _ H) as [Hm|v Hs Hm|Hs Hm|er Hs Hm|Hs]; subst.
  - left. reflexivity.
  - right. rewrite mongo_bool_spec in Hb. inversion Hb. reflexivity.
  - right. simpl in Hb. inversion Hb. reflexivity.
  - simpl in Hb. discriminate.
  - simpl in Hb. discriminate.
Qed.

(* ------------------------------------------------------------------ lists of operands *)
Definition mi (r : eres) : eres := many_item true r.

Lemma mi_eq r : mi r = match r with EMiss => EV VNull | _ => r end.
Proof. destruct r; reflexivity. Qed.

Inductive LR (ss : list sres) (ms : list eres) : Prop :=
| LR_undef : existsb is_sundef ss = true -> LR ss ms
| LR_unmod : collect (map mi ms) = Err EUnmodelled -> LR ss ms
| LR_err er : existsb is_sundef ss = false -> existsb is_serr ss = true ->
              collect (map mi ms) = Err er -> LR ss ms
| LR_vals vs : existsb is_sundef ss = false -> existsb is_serr ss = false ->
               map or_null ss = map SV vs ->
               collect (map mi ms) = Ok (Some vs) -> LR ss ms.

Lemma svalues_SV vs : svalues (map SV vs) = Some vs.
Proof. induction vs as [|v vs IH]; simpl; [reflexivity|rewrite IH; reflexivity]. Qed.

Lemma list_cases ss ms : Forall2 R ss ms -> LR ss ms.
Proof.
  induction 1 as [|s m ss ms Hsm _ IH].
  - apply (LR_vals _ _ []); reflexivity.
  - destruct (R_Rc _ _ Hsm) as [Hm|v Hs Hm|Hs Hm|er Hs Hm|Hs]; subst.
    + apply LR_unmod. reflexivity.
    + destruct IH as [Hu|Hu|er Hu He Hc|vs Hu He Hv Hc].
      * apply LR_undef. simpl. exact Hu.
      * apply LR_unmod. simpl. rewrite Hu. reflexivity.
      * apply (LR_err _ _ er); simpl; try assumption. rewrite Hc. reflexivity.
      * apply (LR_vals _ _ (v :: vs)); simpl; try assumption.
        -- rewrite Hv. reflexivity.
        -- rewrite Hc. reflexivity.
    + destruct IH as [Hu|Hu|er Hu He Hc|vs Hu He Hv Hc].
      * apply LR_undef. simpl. exact Hu.
      * apply LR_unmod. simpl. rewrite Hu. reflexivity.
      * apply (LR_err _ _ er); simpl; try assumption. rewrite Hc. reflexivity.
      * apply (LR_vals _ _ (VNull :: vs)); simpl; try assumption.
        -- rewrite Hv. reflexivity.
        -- rewrite Hc. reflexivity.
    + destruct (existsb is_sundef ss) eqn:Hu.
      * apply LR_undef. simpl. exact Hu.
      * apply (LR_err _ _ er); simpl; try assumption; reflexivity.
    + apply LR_undef. reflexivity.
Qed.

(* consequences of map or_null ss = map SV vs *)
Lemma ornull_nullish ss vs : map or_null ss = map SV vs -> existsb nullish ss = existsb is_null vs.
Proof.
  revert vs. induction ss as [|s ss IH]; intros [|v vs] H; simpl in H; try discriminate; [reflexivity|].
  inversion H as [[H1 H2]]. simpl. rewrite (IH _ H2). f_equal.
  destruct s as [w| | |]; simpl in H1; inversion H1; subst; reflexivity.
Qed.

Lemma ornull_no_null ss vs :
  map or_null ss = map SV vs -> existsb is_null vs = false -> ss = map SV vs.
Proof.
  revert vs. induction ss as [|s ss IH]; intros [|v vs] H Hn; simpl in H; try discriminate; [reflexivity|].
  inversion H as [[H1 H2]]. simpl in Hn. apply orb_false_iff in Hn. destruct Hn as [Hv Hn].
  simpl. rewrite <- (IH _ H2 Hn). f_equal.
  destruct s as [w| | |]; simpl in H1; inversion H1; subst; try reflexivity.
  simpl in Hv. discriminate.
Qed.

Lemma ornull_forallb (p : sres -> bool) (q : value -> bool) ss vs :
  map or_null ss = map SV vs ->
  (forall v, p (SV v) = q v) -> p SMiss = q VNull ->
  forallb p ss = forallb q vs.
Proof.
  intros H Hpq Hm. revert vs H. induction ss as [|s ss IH]; intros [|v vs] H; simpl in H; try discriminate; [reflexivity|].
  inversion H as [[H1 H2]]. simpl. rewrite (IH _ H2). f_equal.
  destruct s as [w| | |]; simpl in H1; inversion H1; subst; [apply Hpq|exact Hm].
Qed.

Lemma Forall2_map_in {A B C} (Q : B -> C -> Prop) (f : A -> B) (g : A -> C) l :
  (forall x, In x l -> Q (f x) (g x)) -> Forall2 Q (map f l) (map g l).
Proof.
  induction l as [|x l IH]; intros H; simpl; constructor.
  - apply H. left. reflexivity.
  - apply IH. intros y Hy. apply H. right. exact Hy.
Qed.

Lemma with_list_mi ms f :
  with_list (map mi ms) f =
  match collect (map mi ms) with Ok (Some vs) => f vs | Ok None => EMiss | Err e => EE e end.
Proof. reflexivity. Qed.

(* the model's operand lists as maps of mi *)
Lemma map_many_item (g : value -> eres) xs :
  map (fun x => many_item true (g x)) xs = map mi (map g xs).
Proof. rewrite map_map. reflexivity. Qed.

(* ------------------------------------------------------------------ equalities *)
Lemma plain_arr xs : plain (VArr xs) = forallb plain xs.
Proof. induction xs as [|x xs IH]; simpl; [reflexivity|]. simpl in IH. rewrite IH. reflexivity. Qed.

Lemma plain_py_bson : forall a b, plain a = true -> plain b = true -> py_eq a b = bson_eq a b.
Proof.
  induction a as [|b0|z|e|s|us tz|n|fs _|xs IH] using value_ind2; intros b Ha Hb.
  - destruct b; reflexivity.
  - simpl in Ha. discriminate.
  - destruct b as [|b'|z'|e'|s'|us' tz'|n'|fs'|xs']; try reflexivity; simpl in *; try discriminate.
    apply Zeqb_8.
  - destruct b as [|b'|z'|e'|s'|us' tz'|n'|fs'|xs']; try reflexivity; simpl in *; try discriminate.
  - destruct b; reflexivity.
  - destruct b as [|b'|z'|e'|s'|us' tz'|n'|fs'|xs']; try reflexivity.
    destruct tz; [simpl in Ha; discriminate|]. destruct tz'; [simpl in Hb; discriminate|]. reflexivity.
  - destruct b; reflexivity.
  - simpl in Ha. discriminate.
  - destruct b as [|b'|z'|e'|s'|us' tz'|n'|fs'|ys]; try reflexivity.
    rewrite py_eq_arr, bson_eq_arr. rewrite plain_arr in Ha, Hb.
    revert ys Hb. induction IH as [|x xs Hx _ IHxs]; intros [|y ys] Hb; try reflexivity.
    simpl in Ha, Hb. apply andb_true_iff in Ha, Hb. destruct Ha as [Ha1 Ha2], Hb as [Hb1 Hb2].
    simpl. rewrite (Hx y Ha1 Hb1), (IHxs Ha2 ys Hb2). reflexivity.
Qed.

Lemma bson_eq_refl : forall v, bson_eq v v = true.
Proof.
  induction v as [|b|z|e|s|us tz|n|fs IH|xs IH] using value_ind2; simpl;
    try reflexivity; try apply Z.eqb_refl; try apply String.eqb_refl.
  - destruct b; reflexivity.
  - induction IH as [|[k v] fs Hv _ IHfs]; [reflexivity|].
    simpl in Hv. rewrite String.eqb_refl, Hv, IHfs. reflexivity.
  - induction IH as [|v xs Hv _ IHxs]; [reflexivity|].
    rewrite Hv, IHxs. reflexivity.
Qed.

Lemma bson_eq_sym : forall x y, bson_eq x y = bson_eq y x.
Proof.
  induction x as [|b0|z|e|s|us tz|n|fs IHf|xs IH] using value_ind2; intros y;
    destruct y as [|b'|z'|e'|s'|us' tz'|n'|fs'|ys]; try reflexivity; simpl.
  - destruct b0, b'; reflexivity.
  - apply Z.eqb_sym.
  - apply Z.eqb_sym.
  - apply Z.eqb_sym.
  - apply Z.eqb_sym.
  - apply String.eqb_sym.
  - apply Z.eqb_sym.
  - apply Z.eqb_sym.
  - revert fs'. induction IHf as [|[k v] fs Hv _ IHfs]; intros [|[k' v'] fs']; try reflexivity.
    simpl in Hv. rewrite (String.eqb_sym k k'), (Hv v'), (IHfs fs'). reflexivity.
  - revert ys. induction IH as [|v xs Hv _ IHxs]; intros [|v' ys]; try reflexivity.
    rewrite (Hv v'), (IHxs ys). reflexivity.
Qed.

Lemma py_in_plain x xs : plain x = true -> forallb plain xs = true ->
  py_in x xs = existsb (bson_eq x) xs.
Proof.
  intros Hx. induction xs as [|y xs IH]; intros H; [reflexivity|].
  simpl in H. apply andb_true_iff in H. destruct H as [Hy Hxs].
  unfold py_in in *. simpl. rewrite (IH Hxs). f_equal.
  rewrite (plain_py_bson y x Hy Hx). apply bson_eq_sym.
Qed.
