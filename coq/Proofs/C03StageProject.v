(* C03 part B -- $project with flags only (inclusion / exclusion of plain top-level field
   names, _id switched on or off): the model's project_by_tree against the specification's
   include / exclude (Spec/ProjectSpec.v).  The two answers hold the same fields; the
   specification puts _id first, the library leaves it where the document has it, so the
   documents are related up to the order of their top-level fields (tperm). *)
From Coq Require Import ZArith List String Bool Ascii Lia Permutation.
From Verif Require Import Value PyEq BsonOrder Path Update Filter FilterSpec FilterGuard Coll Cursor
     ProjectSpec Expr ExprSpec ExprGuard Pipeline PipelineSpec PipelineGuard.
From Verif Require Import C12Base.
From Verif Require Import C03Base C03Laws C03Stages C03StageExpr.
Import ListNotations.
Open Scope Z_scope.
Open Scope string_scope.
Open Scope list_scope.

(* ------------------------------------------------------------ the stages covered *)
(* flags only, plain top-level names, no repeated name *)
Definition project_covered (o : value) : bool :=
  match o with
  | VDoc fs => forallb (fun kv => negb (has_dot (fst kv)) && is_flag_value (snd kv)) fs
               && nodup_str (map fst fs)
  | _ => true
  end.

Lemma split_dots_aux_plain s : forall cur,
  has_dot s = false -> split_dots_aux s cur = [(cur ++ s)%string].
Proof.
  induction s as [|c s IH]; intros cur H; simpl.
  - rewrite append_nil_r. reflexivity.
  - unfold has_dot in H. simpl in H. apply orb_false_iff in H. destruct H as [Hc Hs].
    rewrite Hc. rewrite IH by exact Hs. rewrite append_assoc_s. reflexivity.
Qed.

Lemma split_dots_plain s : has_dot s = false -> split_dots s = [s].
Proof. intro H. unfold split_dots. rewrite split_dots_aux_plain by exact H. reflexivity. Qed.

(* ------------------------------------------------------------ the model: the loop over flags *)
Lemma flagv_is_flag v : is_flag_value v = true -> is_flag v = true.
Proof.
  destruct v as [|b|z| | | | | |]; try discriminate.
  - destruct b; reflexivity.
  - destruct z as [|p|p]; try discriminate; [reflexivity|]. destruct p; try discriminate. reflexivity.
Qed.

Lemma flagv_truthy v : is_flag_value v = true -> flag_of v = Some (truthy v).
Proof.
  destruct v as [|b|z| | | | | |]; try discriminate.
  - destruct b; reflexivity.
  - destruct z as [|p|p]; try discriminate; [reflexivity|]. destruct p; try discriminate. reflexivity.
Qed.

Lemma flagv_include_id v : is_flag_value v = true -> negb (py_eq v (VBool false)) = truthy v.
Proof.
  destruct v as [|b|z| | | | | |]; try discriminate.
  - destruct b; reflexivity.
  - destruct z as [|p|p]; try discriminate; [reflexivity|]. destruct p; try discriminate. reflexivity.
Qed.

Lemma flagv_not_doc v : is_flag_value v = true -> is_doc v = false.
Proof. destruct v; try discriminate; reflexivity. Qed.

Definition method_step (m : option bool) (field : string) (tv : bool) : res (option bool) :=
  match m with
  | None => if negb (field =? "_id") || tv then Ok (Some tv) else Ok None
  | Some true => if negb tv && negb (field =? "_id") then Err EOpFail else Ok (Some true)
  | Some false => if tv && negb (field =? "_id") then Err EOpFail else Ok (Some false)
  end.

Fixpoint loop_method (fs : list (string * value)) (m : option bool) : res (option bool) :=
  match fs with
  | [] => Ok m
  | (k, v) :: fs' => let! m' := method_step m k (truthy v) in loop_method fs' m'
  end.

Definition not_id (kv : string * value) : bool := negb (fst kv =? "_id").
Definition names_noid (fs : list (string * value)) : list string := map fst (List.filter not_id fs).

Lemma names_noid_cons k v fs :
  names_noid ((k, v) :: fs) = if k =? "_id" then names_noid fs else k :: names_noid fs.
Proof. unfold names_noid, not_id. simpl. destruct (k =? "_id"); reflexivity. Qed.

Lemma project_loop_flags l : forall fs st,
  forallb (fun kv => is_flag_value (snd kv)) fs = true ->
  project_loop fs st l =
  let! m := loop_method fs (ps_method st) in Ok (mkPS m (ps_filter st ++ names_noid fs) (ps_new st)).
Proof.
  induction fs as [|[k v] fs IH]; intros st H.
  - cbn [project_loop loop_method bind names_noid List.filter map]. rewrite app_nil_r. destruct st; reflexivity.
  - cbn [forallb snd] in H. apply andb_true_iff in H. destruct H as [Hv Hfs].
    cbn [project_loop loop_method]. rewrite (flagv_is_flag v Hv).
    change (match ps_method st with
            | Some true => if negb (truthy v) && negb (k =? "_id") then Err EOpFail else Ok (Some true)
            | Some false => if truthy v && negb (k =? "_id") then Err EOpFail else Ok (Some false)
            | None => if negb (k =? "_id") || truthy v then Ok (Some (truthy v)) else Ok None
            end) with (method_step (ps_method st) k (truthy v)).
    destruct (method_step (ps_method st) k (truthy v)) as [m|e]; cbn [bind]; [|reflexivity].
    rewrite (IH _ Hfs). cbn [ps_method ps_filter ps_new].
    destruct (loop_method fs m) as [m'|e]; cbn [bind]; [|reflexivity].
    rewrite names_noid_cons. destruct (k =? "_id").
    + reflexivity.
    + rewrite <- app_assoc. reflexivity.
Qed.

(* once decided, the mode stays when every later flag (other than _id's) agrees with it *)
Lemma loop_method_some fs b :
  forallb (fun kv => negb (not_id kv) || Bool.eqb (truthy (snd kv)) b) fs = true ->
  loop_method fs (Some b) = Ok (Some b).
Proof.
  induction fs as [|[k v] fs IH]; intros H; [reflexivity|].
  cbn [forallb] in H. apply andb_true_iff in H. destruct H as [Hkv Hfs].
  cbn [loop_method]. unfold not_id in Hkv. cbn [fst snd] in Hkv.
  assert (Hs : method_step (Some b) k (truthy v) = Ok (Some b)).
  { unfold method_step. destruct b, (truthy v), (k =? "_id"); try reflexivity; discriminate. }
  rewrite Hs. cbn [bind]. apply IH. exact Hfs.
Qed.

(* ------------------------------------------------------------ the model: the tree of plain names *)
Lemma split_first_dot_plain k : has_dot k = false -> split_first_dot k = (k, None).
Proof. intros H. unfold split_first_dot. rewrite (split_dots_plain k H). reflexivity. Qed.

Definition leaf_tbl (ks : list string) : list (string * option (list string)) := map (fun k => (k, None)) ks.

Lemma assoc_leaf_tbl k ks : assoc k (leaf_tbl ks) = if mem_str k ks then Some None else None.
Proof.
  induction ks as [|x ks IH]; [reflexivity|]. cbn [leaf_tbl map assoc mem_str].
  destruct (k =? x); [reflexivity|exact IH].
Qed.

Lemma set_key_leaf_fresh k ks : mem_str k ks = false -> set_key k None (leaf_tbl ks) = leaf_tbl (ks ++ [k]).
Proof.
  induction ks as [|x ks IH]; intros H; [reflexivity|].
  cbn [mem_str] in H. apply orb_false_iff in H. destruct H as [Hx Hk].
  cbn [leaf_tbl map set_key app]. rewrite Hx. f_equal. apply IH. exact Hk.
Qed.

Lemma mem_str_app k a b : mem_str k (a ++ b) = mem_str k a || mem_str k b.
Proof. induction a as [|x a IH]; [reflexivity|]. cbn [app mem_str]. rewrite IH. apply orb_assoc. Qed.

Lemma nodup_str_app a b :
  nodup_str (a ++ b) = nodup_str a && nodup_str b && forallb (fun k => negb (mem_str k b)) a.
Proof.
  induction a as [|x a IH]; [cbn; rewrite andb_true_r; reflexivity|].
  cbn [app nodup_str forallb]. rewrite IH, mem_str_app, negb_orb.
  destruct (mem_str x a), (mem_str x b), (nodup_str a), (nodup_str b); reflexivity.
Qed.

Lemma mem_str_in s l : mem_str s l = true <-> In s l.
Proof.
  induction l as [|x l IH]; simpl; [split; [discriminate|contradiction]|].
  rewrite orb_true_iff, IH. split; intros [H|H]; try (right; exact H); left.
  - apply String.eqb_eq in H. symmetry. exact H.
  - subst. apply String.eqb_refl.
Qed.

Lemma combine_pass_plain keys : forall acc,
  forallb (fun k => negb (has_dot k)) keys = true ->
  nodup_str (acc ++ keys) = true ->
  combine_pass keys (leaf_tbl acc) = Ok (leaf_tbl (acc ++ keys)).
Proof.
  induction keys as [|k keys IH]; intros acc Hd Hn.
  - rewrite app_nil_r. reflexivity.
  - cbn [forallb] in Hd. apply andb_true_iff in Hd. destruct Hd as [Hk Hd]. apply negb_true_iff in Hk.
    cbn [combine_pass]. rewrite (split_first_dot_plain k Hk). rewrite assoc_leaf_tbl.
    assert (Hm : mem_str k acc = false).
    { rewrite nodup_str_app in Hn. apply andb_true_iff in Hn. destruct Hn as [_ Hn].
      destruct (mem_str k acc) eqn:E; [|reflexivity]. exfalso.
      apply mem_str_in in E. rewrite forallb_forall in Hn. specialize (Hn k E).
      cbn [mem_str] in Hn. rewrite String.eqb_refl in Hn. discriminate. }
    rewrite Hm. rewrite (set_key_leaf_fresh k acc Hm).
    replace (acc ++ k :: keys) with ((acc ++ [k]) ++ keys) by (rewrite <- app_assoc; reflexivity).
    apply IH; [exact Hd|]. rewrite <- app_assoc. exact Hn.
Qed.

Definition leaf_tree (ks : list string) : list (string * ptree) := map (fun k => (k, PLeaf)) ks.

Lemma combine_tree_plain keys :
  forallb (fun k => negb (has_dot k)) keys = true -> nodup_str keys = true ->
  combine_tree (spec_depth_keys keys) keys = Ok (PNode (leaf_tree keys)).
Proof.
  intros Hd Hn. unfold spec_depth_keys. cbn [combine_tree].
  change (@nil (string * option (list string))) with (leaf_tbl []).
  rewrite (combine_pass_plain keys [] Hd Hn). cbn [bind app].
  assert (Hm : forall ks fuel, mapM (fun kv : string * option (list string) =>
                  match snd kv with
                  | None => Ok (fst kv, PLeaf)
                  | Some subs => let! t := combine_tree fuel subs in Ok (fst kv, t)
                  end) (leaf_tbl ks) = Ok (leaf_tree ks)).
  { induction ks as [|k ks IH]; intros fuel; [reflexivity|].
    cbn [leaf_tbl map mapM snd fst bind]. unfold leaf_tbl in IH. rewrite IH. reflexivity. }
  rewrite Hm. reflexivity.
Qed.

Lemma ptree_find_leaf k ks : ptree_find k (leaf_tree ks) = if mem_str k ks then Some PLeaf else None.
Proof.
  induction ks as [|x ks IH]; [reflexivity|]. cbn [leaf_tree map ptree_find mem_str].
  rewrite (String.eqb_sym x k). destruct (k =? x); [reflexivity|exact IH].
Qed.

Definition keep (incl : bool) (ks : list string) (kv : string * value) : bool :=
  Bool.eqb incl (mem_str (fst kv) ks).

Lemma project_by_tree_leaf ks incl fs :
  project_by_tree (leaf_tree ks) incl (VDoc fs) = VDoc (List.filter (keep incl ks) fs).
Proof.
  cbn [project_by_tree]. f_equal. induction fs as [|[k x] fs IH]; [reflexivity|].
  rewrite ptree_find_leaf. cbn [List.filter]. unfold keep at 1. cbn [fst].
  destruct (mem_str k ks), incl; cbn [Bool.eqb]; rewrite IH; reflexivity.
Qed.

(* ------------------------------------------------------------ the model: the whole stage *)
Definition id_on (fs : list (string * value)) : bool :=
  match assoc "_id" fs with Some v => truthy v | None => true end.

Definition filter_list (fs : list (string * value)) (b : bool) : list string :=
  if Bool.eqb b (id_on fs) then names_noid fs ++ ["_id"] else names_noid fs.

Lemma mem_names_noid k fs : mem_str k (names_noid fs) = true -> mem_str k (map fst fs) = true /\ (k =? "_id") = false.
Proof.
  induction fs as [|[k' v] fs IH]; [discriminate|]. rewrite names_noid_cons. cbn [map fst mem_str].
  destruct (k' =? "_id") eqn:E.
  - intros H. destruct (IH H) as [H1 H2]. rewrite H1. split; [apply orb_true_r|exact H2].
  - cbn [mem_str]. destruct (k =? k') eqn:E2.
    + intros _. split; [reflexivity|]. apply String.eqb_eq in E2. subst. exact E.
    + cbn [orb]. exact IH.
Qed.

Lemma nodup_names_noid fs : nodup_str (map fst fs) = true -> nodup_str (names_noid fs) = true.
Proof.
  induction fs as [|[k v] fs IH]; [reflexivity|]. cbn [map fst nodup_str]. intros H.
  apply andb_true_iff in H. destruct H as [Hk Hn]. rewrite names_noid_cons.
  destruct (k =? "_id"); [apply IH; exact Hn|]. cbn [nodup_str]. rewrite (IH Hn), andb_true_r.
  apply negb_true_iff. destruct (mem_str k (names_noid fs)) eqn:E; [|reflexivity].
  apply mem_names_noid in E. destruct E as [E _]. rewrite E in Hk. discriminate.
Qed.

Lemma nodot_names_noid fs :
  forallb (fun kv => negb (has_dot (fst kv))) fs = true ->
  forallb (fun k => negb (has_dot k)) (names_noid fs) = true.
Proof.
  induction fs as [|[k v] fs IH]; [reflexivity|]. cbn [forallb fst]. intros H.
  apply andb_true_iff in H. destruct H as [Hk Hn]. rewrite names_noid_cons.
  destruct (k =? "_id"); [apply IH; exact Hn|]. cbn [forallb]. rewrite Hk. apply IH. exact Hn.
Qed.

Lemma filter_list_ok fs b :
  forallb (fun kv => negb (has_dot (fst kv))) fs = true -> nodup_str (map fst fs) = true ->
  forallb (fun k => negb (has_dot k)) (filter_list fs b) = true /\ nodup_str (filter_list fs b) = true.
Proof.
  intros Hd Hn. unfold filter_list. destruct (Bool.eqb b (id_on fs)).
  - split.
    + rewrite forallb_app, (nodot_names_noid fs Hd). reflexivity.
    + rewrite nodup_str_app, (nodup_names_noid fs Hn). cbn [nodup_str mem_str negb andb].
      apply forallb_forall. intros k Hk. apply mem_str_in in Hk. apply mem_names_noid in Hk.
      cbn [mem_str]. rewrite (proj2 Hk). reflexivity.
  - split; [apply nodot_names_noid; exact Hd|apply nodup_names_noid; exact Hn].
Qed.

Lemma assoc_in_list {A} k (l : list (string * A)) v : assoc k l = Some v -> In (k, v) l.
Proof.
  induction l as [|[k' w] l IH]; simpl; intros H; [discriminate|].
  destruct (String.eqb_spec k k') as [->|_].
  - inversion H; subst. left. reflexivity.
  - right. apply IH. exact H.
Qed.

Lemma project_stage_flags fs l b :
  forallb (fun kv => negb (has_dot (fst kv)) && is_flag_value (snd kv)) fs = true ->
  nodup_str (map fst fs) = true ->
  loop_method fs None = Ok (Some b) ->
  names_noid fs <> [] ->
  project_stage (VDoc fs) l = Err EUnmodelled \/
  project_stage (VDoc fs) l = Ok (map (project_by_tree (leaf_tree (filter_list fs b)) b) l).
Proof.
  intros Hc Hn Hl Hne.
  assert (Hfl : forallb (fun kv => is_flag_value (snd kv)) fs = true).
  { apply forallb_forall. intros kv Hin. rewrite forallb_forall in Hc. specialize (Hc kv Hin).
    apply andb_true_iff in Hc. exact (proj2 Hc). }
  assert (Hdt : forallb (fun kv => negb (has_dot (fst kv))) fs = true).
  { apply forallb_forall. intros kv Hin. rewrite forallb_forall in Hc. specialize (Hc kv Hin).
    apply andb_true_iff in Hc. exact (proj1 Hc). }
  unfold project_stage. rewrite (project_loop_flags l fs _ Hfl). cbn [ps_method ps_filter ps_new].
  rewrite Hl. cbn [bind ps_method ps_filter ps_new app].
  assert (Hid : match assoc "_id" fs with
                | Some v => negb (py_eq v (VBool false))
                | None => true end = id_on fs).
  { unfold id_on. destruct (assoc "_id" fs) as [v|] eqn:Ha; [|reflexivity].
    apply flagv_include_id. apply assoc_in_list in Ha. rewrite forallb_forall in Hfl. exact (Hfl _ Ha). }
  rewrite Hid.
  assert (Hb : match Some b with Some true => true | _ => false end = b) by (destruct b; reflexivity).
  rewrite Hb.
  change (if Bool.eqb b (id_on fs) then names_noid fs ++ ["_id"] else names_noid fs) with (filter_list fs b).
  destruct (filter_list_ok fs b Hdt Hn) as [Hfd Hfn].
  destruct (filter_list fs b) as [|k0 ks] eqn:Hfl0.
  { exfalso. unfold filter_list in Hfl0. destruct (Bool.eqb b (id_on fs)).
    - destruct (names_noid fs); discriminate.
    - contradiction. }
  destruct (forallb (fun k => path_modelled (split_dots k)) (k0 :: ks)); cbn [negb]; [|left; reflexivity].
  rewrite (combine_tree_plain (k0 :: ks) Hfd Hfn). cbn [bind]. right. reflexivity.
Qed.

(* ------------------------------------------------------------ the model: the mode *)
Definition id_first_bad (fs : list (string * value)) : bool :=
  match fs with
  | ("_id", v) :: rest => truthy v && existsb (fun kv => is_flag (snd kv) && negb (truthy (snd kv))) rest
  | _ => false
  end.

Lemma id_first_bad_cons k v rest :
  id_first_bad ((k, v) :: rest) =
  if k =? "_id" then truthy v && existsb (fun kv => is_flag (snd kv) && negb (truthy (snd kv))) rest
  else false.
Proof. do 3 (peel_char k). destruct k; reflexivity. Qed.

Definition agree_flags (b : bool) (fs : list (string * value)) : bool :=
  forallb (fun kv => negb (not_id kv) || Bool.eqb (truthy (snd kv)) b) fs.

Lemma names_noid_all fs : forallb not_id fs = true -> names_noid fs = map fst fs.
Proof.
  induction fs as [|[k v] fs IH]; [reflexivity|]. cbn [forallb]. intros H.
  apply andb_true_iff in H. destruct H as [Hk Hf]. rewrite names_noid_cons.
  unfold not_id in Hk. cbn [fst] in Hk. apply negb_true_iff in Hk. rewrite Hk.
  cbn [map fst]. f_equal. apply IH. exact Hf.
Qed.

Lemma nodup_rest_not_id v fs : nodup_str (map fst (("_id", v) :: fs)) = true -> forallb not_id fs = true.
Proof.
  cbn [map fst nodup_str]. intros H. apply andb_true_iff in H. destruct H as [Hk _].
  apply negb_true_iff in Hk. apply forallb_forall. intros [k x] Hin. unfold not_id. cbn [fst].
  apply negb_true_iff. destruct (k =? "_id") eqn:E; [|reflexivity].
  apply String.eqb_eq in E. subst. exfalso.
  assert (Hm : mem_str "_id" (map fst fs) = true).
  { apply mem_str_in. apply in_map_iff. exists ("_id", x). split; [reflexivity|exact Hin]. }
  rewrite Hm in Hk. discriminate.
Qed.

Lemma loop_method_none_noid fs b :
  forallb not_id fs = true -> fs <> [] -> agree_flags b fs = true -> loop_method fs None = Ok (Some b).
Proof.
  intros Hni Hne Ha. destruct fs as [|[k v] fs]; [contradiction|].
  cbn [forallb] in Hni. apply andb_true_iff in Hni. destruct Hni as [Hk Hni].
  unfold agree_flags in Ha. cbn [forallb] in Ha. apply andb_true_iff in Ha. destruct Ha as [Hb Ha].
  rewrite Hk in Hb. cbn [negb orb snd] in Hb. apply eqb_prop in Hb.
  cbn [loop_method]. unfold method_step. unfold not_id in Hk. cbn [fst] in Hk. rewrite Hk. cbn [orb bind].
  rewrite Hb. apply loop_method_some. exact Ha.
Qed.

Lemma loop_method_none fs b :
  forallb (fun kv => is_flag_value (snd kv)) fs = true ->
  nodup_str (map fst fs) = true -> agree_flags b fs = true -> names_noid fs <> [] ->
  id_first_bad fs = false ->
  loop_method fs None = Ok (Some b).
Proof.
  intros Hfl Hn Ha Hne Hbad. destruct fs as [|[k v] fs]; [exfalso; apply Hne; reflexivity|].
  rewrite id_first_bad_cons in Hbad.
  destruct (String.eqb_spec k "_id") as [->|Hk].
  - pose proof (nodup_rest_not_id v fs Hn) as Hni.
    rewrite names_noid_cons in Hne. cbn in Hne. rewrite (names_noid_all fs Hni) in Hne.
    unfold agree_flags in Ha. cbn [forallb] in Ha. apply andb_true_iff in Ha. destruct Ha as [_ Ha].
    cbn [loop_method]. unfold method_step. cbn [String.eqb Ascii.eqb Bool.eqb negb orb].
    destruct (truthy v) eqn:Hv; cbn [bind].
    + cbn [andb] in Hbad.
      assert (Hb : b = true).
      { destruct fs as [|[k2 v2] fs2]; [exfalso; apply Hne; reflexivity|].
        cbn [existsb] in Hbad. apply orb_false_iff in Hbad. destruct Hbad as [Hb2 _].
        cbn [forallb] in Hfl. apply andb_true_iff in Hfl. destruct Hfl as [_ Hfl].
        cbn [forallb] in Hfl. apply andb_true_iff in Hfl. destruct Hfl as [Hf2 _].
        cbn [snd] in Hb2, Hf2. rewrite (flagv_is_flag v2 Hf2) in Hb2. cbn [andb] in Hb2.
        apply negb_false_iff in Hb2.
        cbn [forallb] in Ha, Hni. apply andb_true_iff in Ha. destruct Ha as [Ha2 _].
        apply andb_true_iff in Hni. destruct Hni as [Hn2 _]. rewrite Hn2 in Ha2.
        cbn [negb orb snd] in Ha2. rewrite Hb2 in Ha2. destruct b; [reflexivity|discriminate]. }
      subst b. apply loop_method_some. exact Ha.
    + apply loop_method_none_noid; [exact Hni| |exact Ha]. intros ->. apply Hne. reflexivity.
  - unfold agree_flags in Ha. cbn [forallb] in Ha. apply andb_true_iff in Ha. destruct Ha as [Hb Ha].
    apply String.eqb_neq in Hk. unfold not_id in Hb. cbn [fst snd] in Hb. rewrite Hk in Hb.
    cbn [negb orb] in Hb. apply eqb_prop in Hb.
    cbn [loop_method]. unfold method_step. rewrite Hk. cbn [negb orb bind]. rewrite Hb.
    apply loop_method_some. exact Ha.
Qed.

(* ------------------------------------------------------------ the specification: read_spec *)
Lemma filter_none {A} (p : A -> bool) l : (forall x, In x l -> p x = false) -> List.filter p l = [].
Proof.
  induction l as [|x l IH]; intros H; [reflexivity|]. cbn [List.filter].
  rewrite (H x (or_introl eq_refl)). apply IH. intros y Hy. apply H. right. exact Hy.
Qed.

Lemma filter_all {A} (p : A -> bool) l : (forall x, In x l -> p x = true) -> List.filter p l = l.
Proof.
  induction l as [|x l IH]; intros H; [reflexivity|]. cbn [List.filter].
  rewrite (H x (or_introl eq_refl)). f_equal. apply IH. intros y Hy. apply H. right. exact Hy.
Qed.

Lemma flat_map_nil {A B} (f : A -> list B) l : (forall x, In x l -> f x = []) -> flat_map f l = [].
Proof.
  induction l as [|x l IH]; intros H; [reflexivity|]. cbn [flat_map].
  rewrite (H x (or_introl eq_refl)). apply IH. intros y Hy. apply H. right. exact Hy.
Qed.

Lemma spec_project_doc_flags fs d :
  forallb (fun kv => is_flag_value (snd kv)) fs = true ->
  spec_project_doc fs d = project_spec d (VDoc fs).
Proof.
  intros H. unfold spec_project_doc. cbv zeta.
  assert (Hc : List.filter (fun kv : string * value => negb (is_flag_value (snd kv)) && negb (fst kv =? "_id")) fs = []).
  { apply filter_none. intros kv Hin. rewrite forallb_forall in H. rewrite (H kv Hin). reflexivity. }
  rewrite Hc. reflexivity.
Qed.

Lemma in_del_key {A} k (l : list (string * A)) x : In x (del_key k l) -> In x l.
Proof.
  induction l as [|[k' v] l IH]; [intros []|]. cbn [del_key]. destruct (k =? k').
  - intros H. right. exact H.
  - intros [H|H]; [left; exact H|right; apply IH; exact H].
Qed.

Lemma del_key_filter k (l : list (string * value)) :
  nodup_str (map fst l) = true -> del_key k l = List.filter (fun kv => negb (fst kv =? k)) l.
Proof.
  induction l as [|[k' v] l IH]; [reflexivity|]. cbn [map fst nodup_str]. intros H.
  apply andb_true_iff in H. destruct H as [Hk Hn]. cbn [del_key List.filter fst].
  rewrite (String.eqb_sym k' k). destruct (k =? k') eqn:E; cbn [negb].
  - apply String.eqb_eq in E. subst k'. symmetry. apply filter_all. intros [k2 v2] Hin. cbn [fst].
    apply negb_true_iff. destruct (k2 =? k) eqn:E2; [|reflexivity]. apply String.eqb_eq in E2. subst k2. exfalso.
    apply negb_true_iff in Hk.
    assert (Hm : mem_str k (map fst l) = true).
    { apply mem_str_in. apply in_map_iff. exists (k, v2). split; [reflexivity|exact Hin]. }
    rewrite Hm in Hk. discriminate.
  - f_equal. apply IH. exact Hn.
Qed.

Lemma ex_some_true (t : string * value -> bool) rest :
  existsb (fun f : option bool => match f with Some true => true | _ => false end)
          (map (fun kv => Some (t kv)) rest) = existsb t rest.
Proof. induction rest as [|x r IH]; [reflexivity|]. cbn [map existsb]. rewrite IH. destruct (t x); reflexivity. Qed.

Lemma ex_some_false (t : string * value -> bool) rest :
  existsb (fun f : option bool => match f with Some false => true | _ => false end)
          (map (fun kv => Some (t kv)) rest) = existsb (fun kv => negb (t kv)) rest.
Proof. induction rest as [|x r IH]; [reflexivity|]. cbn [map existsb]. rewrite IH. destruct (t x); reflexivity. Qed.

Lemma ex_some_none (t : string * value -> bool) rest :
  existsb (fun f : option bool => match f with None => true | _ => false end)
          (map (fun kv => Some (t kv)) rest) = false.
Proof. induction rest as [|x r IH]; [reflexivity|]. cbn [map existsb]. exact IH. Qed.

Lemma all_same (t : string * value -> bool) rest :
  existsb t rest && existsb (fun kv => negb (t kv)) rest = false ->
  forallb (fun kv => Bool.eqb (t kv) (existsb t rest)) rest = true.
Proof.
  intros H. apply forallb_forall. intros x Hin. destruct (existsb t rest) eqn:E.
  - cbn [andb] in H. pose proof (existsb_false_in _ _ H x Hin) as Hx. apply negb_false_iff in Hx.
    rewrite Hx. reflexivity.
  - rewrite (existsb_false_in _ _ E x Hin). reflexivity.
Qed.

Definition truthy_kv (kv : string * value) : bool := truthy (snd kv).

Lemma read_spec_flags fs ps :
  forallb (fun kv => negb (has_dot (fst kv)) && is_flag_value (snd kv)) fs = true ->
  nodup_str (map fst fs) = true ->
  read_spec (VDoc fs) = Some ps ->
  exists b : bool,
    ps = ProjectSpec.mkPS (if b then PInclude else PExclude) (map (fun k => [k]) (names_noid fs)) (id_on fs) []
    /\ names_noid fs <> [] /\ agree_flags b fs = true.
Proof.
  intros Hc Hn Hr.
  assert (Hfl : forall kv, In kv fs -> is_flag_value (snd kv) = true).
  { intros kv Hin. rewrite forallb_forall in Hc. specialize (Hc kv Hin). apply andb_true_iff in Hc. exact (proj2 Hc). }
  assert (Hdt : forall kv, In kv fs -> has_dot (fst kv) = false).
  { intros kv Hin. rewrite forallb_forall in Hc. specialize (Hc kv Hin). apply andb_true_iff in Hc.
    apply negb_true_iff. exact (proj1 Hc). }
  unfold read_spec in Hr. cbv zeta in Hr.
  set (rest := del_key "_id" fs) in *.
  assert (Hrest : forall kv, In kv rest -> In kv fs) by (intros kv; apply in_del_key).
  assert (Hops : flat_map (fun kv : string * value => match snd kv with VDoc o => [(fst kv, o)] | _ => [] end) rest = []).
  { apply flat_map_nil. intros kv Hin.
    pose proof (Hfl kv (Hrest kv Hin)) as Hf. destruct (snd kv); try discriminate; reflexivity. }
  assert (Hplain : List.filter (fun kv : string * value => negb (is_doc (snd kv))) rest = rest).
  { apply filter_all. intros kv Hin. rewrite (flagv_not_doc _ (Hfl kv (Hrest kv Hin))). reflexivity. }
  rewrite Hops, Hplain in Hr. cbn [existsb] in Hr.
  assert (Hflags : map (fun kv : string * value => flag_of (snd kv)) rest = map (fun kv => Some (truthy_kv kv)) rest).
  { apply map_ext_in. intros kv Hin. apply flagv_truthy. exact (Hfl kv (Hrest kv Hin)). }
  rewrite Hflags in Hr. rewrite ex_some_none, ex_some_true, ex_some_false in Hr.
  assert (Hidf : match assoc "_id" fs with Some v => flag_of v | None => Some true end = Some (id_on fs)).
  { unfold id_on. destruct (assoc "_id" fs) as [v|] eqn:Ha; [|reflexivity].
    apply flagv_truthy. exact (Hfl _ (assoc_in_list _ _ _ Ha)). }
  rewrite Hidf in Hr.
  destruct (existsb truthy_kv rest && existsb (fun kv => negb (truthy_kv kv)) rest) eqn:Hmix; [discriminate|].
  destruct (collide (map (fun kv : string * value => split_dots (fst kv)) rest)); [discriminate|].
  match type of Hr with (if ?c then None else _) = _ => destruct c; [discriminate|] end.
  assert (Hrf : rest = List.filter not_id fs).
  { unfold rest. rewrite (del_key_filter "_id" fs Hn). reflexivity. }
  assert (Hpaths : map (fun kv : string * value => split_dots (fst kv)) rest = map (fun k => [k]) (names_noid fs)).
  { unfold names_noid. rewrite <- Hrf. rewrite map_map. apply map_ext_in. intros kv Hin.
    apply split_dots_plain. exact (Hdt kv (Hrest kv Hin)). }
  exists (existsb truthy_kv rest).
  destruct rest as [|kv0 r0] eqn:Hrest0; [discriminate|]. rewrite <- Hrest0 in *.
  inversion Hr; subst ps. rewrite Hpaths. split; [reflexivity|]. split.
  - unfold names_noid. rewrite <- Hrf. rewrite Hrest0. discriminate.
  - pose proof (all_same truthy_kv rest Hmix) as Hall. unfold agree_flags.
    apply forallb_forall. intros kv Hin. destruct (not_id kv) eqn:Hni; [|reflexivity]. cbn [negb orb].
    rewrite forallb_forall in Hall. apply (Hall kv). rewrite Hrf. apply filter_In. split; assumption.
Qed.

(* ------------------------------------------------------------ the specification: include / exclude *)
Lemma below_single k ks :
  below k (map (fun x => [x]) ks) = [] /\ mem_str k ks = false \/
  (exists tl, below k (map (fun x => [x]) ks) = [] :: tl) /\ mem_str k ks = true.
Proof.
  induction ks as [|x ks IH]; [left; split; reflexivity|].
  unfold below in *. cbn [map flat_map mem_str]. destruct (k =? x); cbn [orb app].
  - right. split; [eexists; reflexivity|reflexivity].
  - exact IH.
Qed.

Lemma include_single n ks dfs :
  include (S n) (map (fun x => [x]) ks) (VDoc dfs) = VDoc (List.filter (keep true ks) dfs).
Proof.
  cbn [include]. f_equal. induction dfs as [|[k v] dfs IH]; [reflexivity|].
  cbn [flat_map List.filter fst]. rewrite IH. unfold keep at 2. cbn [fst Bool.eqb].
  destruct (below_single k ks) as [[Hb Hm]|[[tl Hb] Hm]]; rewrite Hb, Hm; reflexivity.
Qed.

Lemma exclude_single n ks dfs :
  exclude (S n) (map (fun x => [x]) ks) (VDoc dfs) = VDoc (List.filter (keep false ks) dfs).
Proof.
  cbn [exclude]. f_equal. induction dfs as [|[k v] dfs IH]; [reflexivity|].
  cbn [flat_map List.filter fst]. rewrite IH. unfold keep at 2. cbn [fst Bool.eqb].
  destruct (below_single k ks) as [[Hb Hm]|[[tl Hb] Hm]]; rewrite Hb, Hm; reflexivity.
Qed.

Definition spec_out (b idb : bool) (ks : list string) (dfs : list (string * value)) : list (string * value) :=
  let N := del_key "_id" (List.filter (keep b ks) dfs) in
  if idb then match assoc "_id" dfs with Some i => ("_id", i) :: N | None => N end else N.

Lemma project_spec_flags fs dfs (b : bool) ks idb :
  read_spec (VDoc fs) = Some (ProjectSpec.mkPS (if b then PInclude else PExclude) (map (fun k => [k]) ks) idb []) ->
  project_spec (VDoc dfs) (VDoc fs) = Some (VDoc (spec_out b idb ks dfs)).
Proof.
  intros H. unfold project_spec. rewrite H. cbn [ps_mode ps_paths ps_ops ps_id map fold_left].
  rewrite app_nil_r. unfold spec_out. cbv zeta.
  destruct b; [rewrite include_single|rewrite exclude_single];
    (destruct idb; [destruct (assoc "_id" dfs)|]; reflexivity).
Qed.

(* ------------------------------------------------------------ the two answers hold the same fields *)
Definition tperm (a b : value) : Prop :=
  exists fs gs, a = VDoc fs /\ b = VDoc gs /\ Permutation fs gs.

Lemma perm_assoc_del {A} k (g : list (string * A)) :
  Permutation (match assoc k g with Some i => (k, i) :: del_key k g | None => del_key k g end) g.
Proof.
  induction g as [|[k' v] g IH]; [apply Permutation_refl|].
  cbn [assoc del_key]. destruct (String.eqb_spec k k') as [->|Hn]; [apply Permutation_refl|].
  destruct (assoc k g) as [i|].
  - eapply perm_trans; [apply perm_swap|]. apply perm_skip. exact IH.
  - apply perm_skip. exact IH.
Qed.

Lemma filter_filter {A} (p q : A -> bool) l :
  List.filter p (List.filter q l) = List.filter (fun x => q x && p x) l.
Proof.
  induction l as [|x l IH]; [reflexivity|]. cbn [List.filter]. destruct (q x); cbn [andb List.filter].
  - destruct (p x); rewrite IH; reflexivity.
  - exact IH.
Qed.

Lemma filter_ext_in {A} (p q : A -> bool) l :
  (forall x, In x l -> p x = q x) -> List.filter p l = List.filter q l.
Proof.
  induction l as [|x l IH]; intros H; [reflexivity|]. cbn [List.filter].
  rewrite (H x (or_introl eq_refl)). rewrite IH; [reflexivity|]. intros y Hy. apply H. right. exact Hy.
Qed.

Lemma mem_filter_keys (p : string * value -> bool) k l :
  mem_str k (map fst (List.filter p l)) = true -> mem_str k (map fst l) = true.
Proof.
  induction l as [|[k' v] l IH]; [discriminate|]. cbn [List.filter]. destruct (p (k', v)); cbn [map fst mem_str].
  - destruct (k =? k'); [reflexivity|exact IH].
  - intros H. rewrite (IH H). apply orb_true_r.
Qed.

Lemma nodup_filter_keys (p : string * value -> bool) l :
  nodup_str (map fst l) = true -> nodup_str (map fst (List.filter p l)) = true.
Proof.
  induction l as [|[k v] l IH]; [reflexivity|]. cbn [map fst nodup_str]. intros H.
  apply andb_true_iff in H. destruct H as [Hk Hn]. cbn [List.filter].
  destruct (p (k, v)); [|apply IH; exact Hn]. cbn [map fst nodup_str]. rewrite (IH Hn), andb_true_r.
  apply negb_true_iff. destruct (mem_str k (map fst (List.filter p l))) eqn:E; [|reflexivity].
  apply mem_filter_keys in E. rewrite E in Hk. discriminate.
Qed.

Lemma assoc_filter_key (p : string * value -> bool) k l :
  (forall v, In (k, v) l -> p (k, v) = true) -> assoc k (List.filter p l) = assoc k l.
Proof.
  induction l as [|[k' v] l IH]; intros H; [reflexivity|]. cbn [List.filter assoc].
  destruct (String.eqb_spec k k') as [->|Hn].
  - rewrite (H v (or_introl eq_refl)). cbn [assoc]. rewrite String.eqb_refl. reflexivity.
  - destruct (p (k', v)); cbn [assoc].
    + apply String.eqb_neq in Hn. rewrite Hn. apply IH. intros v' Hin. apply H. right. exact Hin.
    + apply IH. intros v' Hin. apply H. right. exact Hin.
Qed.

Lemma names_noid_no_id fs : mem_str "_id" (names_noid fs) = false.
Proof.
  destruct (mem_str "_id" (names_noid fs)) eqn:E; [|reflexivity].
  apply mem_names_noid in E. destruct E as [_ E]. discriminate.
Qed.

Lemma keep_true ks kv : keep true ks kv = mem_str (fst kv) ks.
Proof. unfold keep. destruct (mem_str (fst kv) ks); reflexivity. Qed.
Lemma keep_false ks kv : keep false ks kv = negb (mem_str (fst kv) ks).
Proof. unfold keep. destruct (mem_str (fst kv) ks); reflexivity. Qed.

Lemma project_doc_perm fs dfs b :
  nodup_str (map fst dfs) = true ->
  Permutation (spec_out b (id_on fs) (names_noid fs) dfs)
              (List.filter (keep b (filter_list fs b)) dfs).
Proof.
  intros Hn. unfold spec_out, filter_list. cbv zeta.
  set (F := names_noid fs). assert (HF : mem_str "_id" F = false) by apply names_noid_no_id.
  assert (HFk : forall k, mem_str k F = true -> (k =? "_id") = false).
  { intros k Hk. destruct (k =? "_id") eqn:E; [|reflexivity]. apply String.eqb_eq in E. subst.
    rewrite Hk in HF. discriminate. }
  rewrite (del_key_filter "_id" _ (nodup_filter_keys (keep b F) dfs Hn)). rewrite filter_filter.
  destruct (id_on fs); destruct b; cbn [Bool.eqb].
  - (* inclusion, _id on *)
    set (M := List.filter (keep true (F ++ ["_id"])) dfs).
    assert (Ha : assoc "_id" M = assoc "_id" dfs).
    { apply assoc_filter_key. intros v _. rewrite keep_true. cbn [fst]. rewrite mem_str_app, HF. reflexivity. }
    assert (Hd : del_key "_id" M
                 = List.filter (fun x : string * value => keep true F x && negb (fst x =? "_id")) dfs).
    { unfold M. rewrite (del_key_filter "_id" _ (nodup_filter_keys _ dfs Hn)). rewrite filter_filter.
      apply filter_ext_in. intros [k v] _. rewrite !keep_true. cbn [fst]. rewrite mem_str_app.
      cbn [mem_str]. destruct (mem_str k F) eqn:E; cbn [orb andb]; [reflexivity|].
      destruct (k =? "_id"); reflexivity. }
    rewrite <- Ha, <- Hd. apply perm_assoc_del.
  - (* exclusion, _id on *)
    set (M := List.filter (keep false F) dfs).
    assert (Ha : assoc "_id" M = assoc "_id" dfs).
    { apply assoc_filter_key. intros v _. rewrite keep_false. cbn [fst]. rewrite HF. reflexivity. }
    assert (Hd : del_key "_id" M
                 = List.filter (fun x : string * value => keep false F x && negb (fst x =? "_id")) dfs).
    { unfold M. rewrite (del_key_filter "_id" _ (nodup_filter_keys _ dfs Hn)). rewrite filter_filter. reflexivity. }
    rewrite <- Ha, <- Hd. apply perm_assoc_del.
  - (* inclusion, _id off *)
    rewrite (filter_ext_in _ (keep true F) dfs); [apply Permutation_refl|].
    intros [k v] _. rewrite keep_true. cbn [fst]. destruct (mem_str k F) eqn:E; [|reflexivity].
    rewrite (HFk k E). reflexivity.
  - (* exclusion, _id off *)
    rewrite (filter_ext_in _ (keep false (F ++ ["_id"])) dfs); [apply Permutation_refl|].
    intros [k v] _. rewrite !keep_false. cbn [fst]. rewrite mem_str_app. cbn [mem_str].
    destruct (mem_str k F); cbn [orb negb andb]; [reflexivity|]. destruct (k =? "_id"); reflexivity.
Qed.

(* ------------------------------------------------------------ the stage *)
(* the outcomes are compatible, the documents being the same up to the order of their
   top-level fields *)
Definition rel_str (Q : stream -> list value -> Prop) (p : pres) (m : res (list value)) : Prop :=
  match p, m with
  | PUndef, _ => True
  | _, Err EUnmodelled => True
  | PErr, Err _ => True
  | PV s, Ok l => Q s l
  | _, _ => False
  end.

Definition rel_gen (Q : list value -> list value -> Prop) : pres -> res (list value) -> Prop :=
  rel_str (fun s l => Q (s_docs s) l /\ s_ord s = true /\ s_sets s = []).

Definition rel_perm : pres -> res (list value) -> Prop := rel_gen (Forall2 tperm).

Lemma rel_gen_mono (Q Q' : list value -> list value -> Prop) p m :
  (forall a b, Q a b -> Q' a b) -> rel_gen Q p m -> rel_gen Q' p m.
Proof.
  intros H. unfold rel_gen. destruct p as [s| |], m as [l|e]; cbn [rel_str]; try (intros Hr; exact Hr).
  intros (Hq & Ho & Hs). split; [apply H; exact Hq|split; assumption].
Qed.

Lemma rel_perm_unmodelled p : rel_perm p (Err EUnmodelled).
Proof. destruct p; exact I. Qed.

Definition top_nodup (d : value) : Prop :=
  match d with VDoc fs => nodup_str (map fst fs) = true | _ => True end.

Lemma all_opt_Forall2 {A B C} (f : A -> option B) (g : A -> C) (Q : B -> C -> Prop) l outs :
  all_opt (map f l) = Some outs ->
  (forall d y, In d l -> f d = Some y -> Q y (g d)) ->
  Forall2 Q outs (map g l).
Proof.
  revert outs. induction l as [|a l IH]; intros outs H HQ; cbn [map all_opt] in H.
  - inversion H. constructor.
  - destruct (f a) as [y|] eqn:Ha; [|discriminate].
    destruct (all_opt (map f l)) as [r|] eqn:Hr; [|discriminate]. inversion H; subst.
    cbn [map]. constructor; [apply HQ; [left; reflexivity|exact Ha]|].
    apply IH; [reflexivity|]. intros d y' Hd Hy. apply HQ; [right; exact Hd|exact Hy].
Qed.

Lemma run_stage_project db o l : run_stage db "$project" o l = project_stage o l.
Proof. destruct o; reflexivity. Qed.
Lemma spec_stage_project db o s : spec_stage db "$project" o s = spec_project o s.
Proof. destruct o; reflexivity. Qed.

Lemma spec_project_nonempty fs s :
  fs <> [] ->
  spec_project (VDoc fs) s =
  if existsb (fun k => mem_str k (s_sets s)) (map fst fs) then PUndef else
  match spec_project_doc fs (VDoc []), all_opt (map (spec_project_doc fs) (s_docs s)) with
  | Some _, Some l => PV (mkStream l (s_ord s) (s_sets s))
  | _, _ => PUndef
  end.
Proof. destruct fs; [contradiction|reflexivity]. Qed.

(* the model's answer is a filter of the fields of each input document *)
Definition is_field_filter (l l' : list value) : Prop :=
  exists ks b, l' = map (project_by_tree (leaf_tree ks) b) l.

Lemma stage_project_strong db o l :
  project_covered o = true ->
  stage_reasons db "$project" o l = 0 ->
  Forall top_nodup l ->
  rel_gen (fun outs l' => Forall2 tperm outs l' /\ is_field_filter l l')
          (spec_stage db "$project" o (mkStream l true [])) (run_stage db "$project" o l).
Proof.
  intros Hc Hg Hnd. rewrite run_stage_project, spec_stage_project.
  destruct o as [| | | | | | |fs|]; try exact I.
  destruct fs as [|kv0 fs0]; [exact I|].
  assert (Hne0 : kv0 :: fs0 <> []) by discriminate.
  remember (kv0 :: fs0) as fs eqn:Heqfs. clear Heqfs kv0 fs0.
  assert (Hg' : Z.lor (zb (existsb (fun kv => negb (is_flag (snd kv)) && expr_finding (snd kv) l) fs) 2)
                 (Z.lor (zb (id_first_bad fs) 16)
                        (zb (existsb (fun kv => negb (is_flag (snd kv)) && negb (truthy (snd kv))) fs) 512)) = 0)
    by exact Hg.
  apply lor_zero in Hg'. destruct Hg' as [_ Hbad]. apply lor_zero in Hbad. destruct Hbad as [Hbad _].
  apply zb_zero in Hbad; [|discriminate].
  unfold project_covered in Hc. apply andb_true_iff in Hc. destruct Hc as [Hc Hn].
  assert (Hfl : forallb (fun kv => is_flag_value (snd kv)) fs = true).
  { apply forallb_forall. intros kv Hin. rewrite forallb_forall in Hc. specialize (Hc kv Hin).
    apply andb_true_iff in Hc. exact (proj2 Hc). }
  rewrite (spec_project_nonempty fs _ Hne0). cbn [s_docs s_ord s_sets]. rewrite no_sets_nil.
  destruct (spec_project_doc fs (VDoc [])) as [y0|] eqn:H0; [|exact I].
  destruct (all_opt (map (spec_project_doc fs) l)) as [outs|] eqn:Hs; [|exact I].
  rewrite (spec_project_doc_flags fs _ Hfl) in H0.
  destruct (read_spec (VDoc fs)) as [ps|] eqn:Hr; [|unfold project_spec in H0; rewrite Hr in H0; discriminate].
  destruct (read_spec_flags fs ps Hc Hn Hr) as (b & Hps & Hne & Hagree). subst ps.
  pose proof (loop_method_none fs b Hfl Hn Hagree Hne Hbad) as Hloop.
  destruct (project_stage_flags fs l b Hc Hn Hloop Hne) as [Hm|Hm]; rewrite Hm; [exact I|].
  simpl. split; [|split; reflexivity].
  split; [|eexists; eexists; reflexivity].
  apply (all_opt_Forall2 _ _ _ _ _ Hs). intros d y Hd Hy.
  rewrite (spec_project_doc_flags fs _ Hfl) in Hy.
  destruct d as [| | | | | | |dfs|]; try (unfold project_spec in Hy; discriminate Hy).
  rewrite (project_spec_flags fs dfs b _ _ Hr) in Hy. inversion Hy; subst y.
  rewrite project_by_tree_leaf. eexists. eexists. split; [reflexivity|]. split; [reflexivity|].
  apply project_doc_perm. rewrite Forall_forall in Hnd. exact (Hnd _ Hd).
Qed.

Lemma stage_project db o l :
  project_covered o = true ->
  stage_reasons db "$project" o l = 0 ->
  Forall top_nodup l ->
  rel_perm (spec_stage db "$project" o (mkStream l true [])) (run_stage db "$project" o l).
Proof.
  intros Hc Hg Hn. eapply rel_gen_mono; [|apply stage_project_strong; eassumption].
  intros a b [H _]. exact H.
Qed.

(* a filter of the fields of a well-formed document is well-formed *)
Lemma wf_values_filter (p : string * value -> bool) fs :
  (fix go (fs : list (string * value)) : bool :=
     match fs with [] => true | (_, v) :: fs' => wf_value v && go fs' end) fs = true ->
  (fix go (fs : list (string * value)) : bool :=
     match fs with [] => true | (_, v) :: fs' => wf_value v && go fs' end) (List.filter p fs) = true.
Proof.
  induction fs as [|[k v] fs IH]; intros H; [reflexivity|].
  apply andb_true_iff in H. destruct H as [Hv H]. cbn [List.filter].
  destruct (p (k, v)); [|apply IH; exact H]. rewrite Hv. cbn [andb]. apply IH. exact H.
Qed.

Lemma wf_project_leaf ks b d : wf_value d = true -> wf_value (project_by_tree (leaf_tree ks) b d) = true.
Proof.
  destruct d as [| | | | | | |dfs|]; try (intros H; exact H).
  rewrite project_by_tree_leaf. cbn [wf_value]. intros H. apply andb_true_iff in H. destruct H as [Hn Hv].
  apply andb_true_iff. split; [apply nodup_filter_keys; exact Hn|apply wf_values_filter; exact Hv].
Qed.

Lemma wf_top_nodup d : wf_value d = true -> top_nodup d.
Proof.
  destruct d; try (intros; exact I). cbn [wf_value top_nodup]. intros H.
  apply andb_true_iff in H. exact (proj1 H).
Qed.
