(* C16 -- concrete runs: the premises of the theorems are satisfiable on non-trivial data. *)
From Coq Require Import ZArith List String Bool Ascii.
From Verif Require Import Value PyEq BsonOrder Path Update Filter Coll Expr Pipeline PipelineSpec AggState AggStateSpec.
From Verif Require Import C16Base C16Facet C16Proofs.
Import ListNotations.
Open Scope Z_scope.
Open Scope string_scope.
Open Scope list_scope.

(* three collections: c (aggregated), o (looked up), t (target of $out) *)
Definition w3 : world :=
  [("c", [VDoc [("_id", VInt 1); ("k", VStr "a"); ("n", VInt 2)];
          VDoc [("_id", VInt 2); ("k", VStr "b"); ("n", VInt 5)];
          VDoc [("_id", VInt 3); ("k", VStr "a"); ("n", VInt 7); ("a", VDoc [("z", VInt 0)])]]);
   ("o", [VDoc [("_id", VInt 10); ("k", VStr "a"); ("w", VInt 1)];
          VDoc [("_id", VInt 11); ("k", VStr "b"); ("w", VInt 2)];
          VDoc [("_id", VInt 12); ("k", VStr "a"); ("w", VInt 3)]]);
   ("t", [VDoc [("_id", VInt 9)]])].

(* $match, $lookup into o, $addFields on the dotted path a.b *)
Definition p3 : list value :=
  [VDoc [("$match", VDoc [("n", VDoc [("$gt", VInt 1)])])];
   VDoc [("$lookup", VDoc [("from", VStr "o"); ("localField", VStr "k");
                           ("foreignField", VStr "k"); ("as", VStr "os")])];
   VDoc [("$addFields", VDoc [("a.b", VStr "$n")])]].

Definition p3_answer : list value :=
  [VDoc [("_id", VInt 1); ("k", VStr "a"); ("n", VInt 2);
         ("os", VArr [VDoc [("_id", VInt 10); ("k", VStr "a"); ("w", VInt 1)];
                      VDoc [("_id", VInt 12); ("k", VStr "a"); ("w", VInt 3)]]);
         ("a", VDoc [("b", VInt 2)])];
   VDoc [("_id", VInt 2); ("k", VStr "b"); ("n", VInt 5);
         ("os", VArr [VDoc [("_id", VInt 11); ("k", VStr "b"); ("w", VInt 2)]]);
         ("a", VDoc [("b", VInt 5)])];
   VDoc [("_id", VInt 3); ("k", VStr "a"); ("n", VInt 7);
         ("a", VDoc [("z", VInt 0); ("b", VInt 7)]);
         ("os", VArr [VDoc [("_id", VInt 10); ("k", VStr "a"); ("w", VInt 1)];
                      VDoc [("_id", VInt 12); ("k", VStr "a"); ("w", VInt 3)]])]].

(* ---- read-only and repeatable *)
Example ex_no_out : snd (split_out p3) = None.
Proof. vm_compute. reflexivity. Qed.

Example ex_read_only : agg_world w3 "c" (VArr p3) = (w3, Ok p3_answer).
Proof. vm_compute. reflexivity. Qed.

Example ex_repeatable : agg_twice w3 "c" (VArr p3) = ((w3, Ok p3_answer), (w3, Ok p3_answer)).
Proof. vm_compute. reflexivity. Qed.

(* the same through the theorems *)
Example ex_read_only_thm : fst (agg_world w3 "c" (VArr p3)) = w3.
Proof. apply agg_read_only. exact ex_no_out. Qed.

Example ex_repeatable_thm :
  agg_world (fst (agg_world w3 "c" (VArr p3))) "c" (VArr p3) = agg_world w3 "c" (VArr p3).
Proof. apply agg_repeatable. exact ex_no_out. Qed.

(* ---- the same pipeline with {$out: "t"} appended *)
Definition p3_out : list value := p3 ++ [VDoc [("$out", VStr "t")]].

Example ex_split_out : split_out p3_out = (p3, Some (VStr "t")).
Proof. vm_compute. reflexivity. Qed.

Example ex_out_body : run_pipeline w3 p3 (coll_docs w3 "c") = Ok p3_answer.
Proof. vm_compute. reflexivity. Qed.

Example ex_out_storable : Forall storable p3_answer.
Proof. apply storable_all_b. vm_compute. reflexivity. Qed.

Example ex_out_distinct : ids_distinct p3_answer.
Proof. apply ids_distinct_b_iff. vm_compute. reflexivity. Qed.

Example ex_out_thm :
  agg_world w3 "c" (VArr p3_out) = (set_key "t" (map patch p3_answer) w3, Ok p3_answer).
Proof.
  exact (agg_out_replaces w3 "c" p3_out p3 "t" p3_answer ex_split_out ex_out_body
                          ex_out_storable ex_out_distinct).
Qed.

Example ex_out_compute :
  agg_world w3 "c" (VArr p3_out)
  = ([("c", coll_docs w3 "c"); ("o", coll_docs w3 "o"); ("t", p3_answer)], Ok p3_answer).
Proof. vm_compute. reflexivity. Qed.

(* with $out the second run sees the new target but here the source is untouched: same answer *)
Example ex_out_twice :
  snd (snd (agg_twice w3 "c" (VArr p3_out))) = Ok p3_answer.
Proof. vm_compute. reflexivity. Qed.

(* ---- $out with a duplicate _id in the output: $project maps _id to k = a, b, a *)
Definition p_dup : list value :=
  [VDoc [("$project", VDoc [("_id", VStr "$k")])]; VDoc [("$out", VStr "t")]].

Example ex_dup_body :
  run_pipeline w3 [VDoc [("$project", VDoc [("_id", VStr "$k")])]] (coll_docs w3 "c")
  = Ok ([VDoc [("_id", VStr "a")]; VDoc [("_id", VStr "b")]] ++ VDoc [("_id", VStr "a")] :: []).
Proof. vm_compute. reflexivity. Qed.

Example ex_dup_thm :
  agg_world w3 "c" (VArr p_dup)
  = (set_key "t" (map patch [VDoc [("_id", VStr "a")]; VDoc [("_id", VStr "b")]]) w3, Err EBulk).
Proof.
  apply (agg_out_duplicate w3 "c" p_dup [VDoc [("$project", VDoc [("_id", VStr "$k")])]] "t"
           [VDoc [("_id", VStr "a")]; VDoc [("_id", VStr "b")]] (VDoc [("_id", VStr "a")]) []
           (VDoc [("_id", VStr "a")])).
  - vm_compute. reflexivity.
  - exact ex_dup_body.
  - apply storable_all_b. vm_compute. reflexivity.
  - apply ids_distinct_b_iff. vm_compute. reflexivity.
  - apply storable_b_iff. vm_compute. reflexivity.
  - left. reflexivity.
  - exists (VStr "a"), (VStr "a"). repeat split.
Qed.

Example ex_dup_compute :
  agg_world w3 "c" (VArr p_dup)
  = ([("c", coll_docs w3 "c"); ("o", coll_docs w3 "o");
      ("t", [VDoc [("_id", VStr "a")]; VDoc [("_id", VStr "b")]])], Err EBulk).
Proof. vm_compute. reflexivity. Qed.

(* ---- $facet: the branch "edited" rewrites n in its documents, "big" still sees the originals *)
Definition facet_subs : list (string * value) :=
  [("edited", VArr [VDoc [("$addFields", VDoc [("n", VInt 0)])]; VDoc [("$limit", VInt 2)]]);
   ("big", VArr [VDoc [("$match", VDoc [("n", VDoc [("$gt", VInt 3)])])]])].

Definition p_facet : list value := [VDoc [("$facet", VDoc facet_subs)]].

Definition facet_fields : list (string * value) :=
  [("edited", VArr [VDoc [("_id", VInt 1); ("k", VStr "a"); ("n", VInt 0)];
                    VDoc [("_id", VInt 2); ("k", VStr "b"); ("n", VInt 0)]]);
   ("big", VArr [VDoc [("_id", VInt 2); ("k", VStr "b"); ("n", VInt 5)];
                 VDoc [("_id", VInt 3); ("k", VStr "a"); ("n", VInt 7); ("a", VDoc [("z", VInt 0)])]])].

Example ex_facet : agg_world w3 "c" (VArr p_facet) = (w3, Ok [VDoc facet_fields]).
Proof. vm_compute. reflexivity. Qed.

Example ex_facet_titles : NoDup (map fst facet_subs).
Proof. repeat constructor; simpl; intuition discriminate. Qed.

Example ex_facet_stage :
  run_stage w3 "$facet" (VDoc facet_subs) (coll_docs w3 "c") = Ok [VDoc facet_fields].
Proof. vm_compute. reflexivity. Qed.

(* the field "big" is the answer of big's stages alone on the same input *)
Example ex_facet_field_thm :
  exists r, run_pipeline w3 [VDoc [("$match", VDoc [("n", VDoc [("$gt", VInt 3)])])]] (coll_docs w3 "c") = Ok r
            /\ assoc "big" facet_fields = Some (VArr r).
Proof.
  apply (facet_field w3 facet_subs (coll_docs w3 "c") facet_fields "big" _ ex_facet_titles ex_facet_stage).
  right. left. reflexivity.
Qed.

(* dropping the editing sibling and keeping "big" alone gives the same field *)
Definition big_only : list (string * value) :=
  [("big", VArr [VDoc [("$match", VDoc [("n", VDoc [("$gt", VInt 3)])])]])].

Example ex_facet_siblings_thm :
  exists fields2,
    run_stage w3 "$facet" (VDoc big_only) (coll_docs w3 "c") = Ok [VDoc fields2]
    /\ forall t, In t (map fst big_only) -> assoc t fields2 = assoc t facet_fields.
Proof.
  apply (facet_siblings w3 facet_subs big_only (coll_docs w3 "c") facet_fields ex_facet_titles).
  - repeat constructor; simpl; intuition discriminate.
  - intros x [<-|[]]. right. left. reflexivity.
  - exact ex_facet_stage.
Qed.

(* ---- the model's runs satisfy the predicate of the specification, on all of the above *)
Example ex_spec_p3 :
  c16_check (mkC16 w3 (VArr p3) (Ok p3_answer) w3 (Ok p3_answer) w3 true true true) = 0.
Proof. vm_compute. reflexivity. Qed.

Example ex_spec_out :
  let '((w1, r1), (w2, r2)) := agg_twice w3 "c" (VArr p3_out) in
  c16_check (mkC16 w3 (VArr p3_out) r1 w1 r2 w2 true true true) = 0.
Proof. vm_compute. reflexivity. Qed.

Example ex_spec_facet :
  let '((w1, r1), (w2, r2)) := agg_twice w3 "c" (VArr p_facet) in
  c16_check (mkC16 w3 (VArr p_facet) r1 w1 r2 w2 true true true) = 0.
Proof. vm_compute. reflexivity. Qed.

(* the predicate is not vacuous: an observation in which the source collection lost a document,
   or in which the second answer differs, is rejected *)
Example ex_spec_rejects_write :
  c16_ok (mkC16 w3 (VArr p3) (Ok p3_answer) (set_key "c" [] w3) (Ok p3_answer) w3 true true true) = false.
Proof. vm_compute. reflexivity. Qed.

Example ex_spec_rejects_unrepeatable :
  c16_ok (mkC16 w3 (VArr p3) (Ok p3_answer) w3 (Ok []) w3 true true true) = false.
Proof. vm_compute. reflexivity. Qed.

Example ex_spec_rejects_wrong_target :
  c16_ok (mkC16 w3 (VArr p3_out) (Ok p3_answer) w3 (Ok p3_answer) w3 true true true) = false.
Proof. vm_compute. reflexivity. Qed.
