(* C02 proofs, part 4: "local rewrites": d' differs from d only below one path.  A local
   rewrite along an addressed path satisfies the (strong) frame, keeps every document
   well-formed and does not disturb how the other (incomparable) addressed paths fit the
   document.  A whole update is a chain of local rewrites along its addressed paths. *)
From Coq Require Import ZArith List String Bool Ascii Lia.
From Verif Require Import Value PyEq BsonOrder Path Filter FilterSpec Update Project Coll
                          HistCheck HistProps ProjectSpec Cursor UpdateLaws.
From Verif.Proofs Require Import C01Values C12Base C02Base C02Frame.
Import ListNotations.
Open Scope Z_scope.
Open Scope string_scope.
Open Scope list_scope.

Inductive local : list string -> value -> value -> Prop :=
| L_refl parts d : local parts d d
| L_end d d' : wf_value d' = true -> local [] d d'
| L_doc p rest fs x x' :
    (assoc p fs = Some x \/ (assoc p fs = None /\ x = VDoc [])) ->
    local rest x x' -> local (p :: rest) (VDoc fs) (VDoc (set_key p x' fs))
| L_del p fs : local [p] (VDoc fs) (VDoc (del_key p fs))
| L_arr p rest xs i x x' :
    as_index p = Some i -> nth_error xs (Z.to_nat i) = Some x ->
    local rest x x' -> local (p :: rest) (VArr xs) (VArr (set_nth (Z.to_nat i) x' xs))
| L_pad p xs i v :
    as_index p = Some i -> wf_value v = true ->
    local [p] (VArr xs) (VArr (set_nth (Z.to_nat i) v (pad_to (S (Z.to_nat i)) xs)))
| L_skip p rest xs d' :
    as_index p = None -> local rest (VArr xs) d' -> local (p :: rest) (VArr xs) d'.

(* numeric components are in canonical decimal form *)
Definition canon (parts : list string) : Prop :=
  forall s i, In s parts -> as_index s = Some i -> s = string_of_nat (Z.to_nat i).

Lemma canon_of_bool parts : forallb canon_part parts = true -> canon parts.
Proof.
  intros H s i Hs Hi. rewrite forallb_forall in H. specialize (H s Hs).
  unfold canon_part in H. rewrite Hi in H. apply String.eqb_eq in H. exact H.
Qed.

Lemma canon_tail p rest : canon (p :: rest) -> canon rest.
Proof. intros H s i Hs. apply H. right. exact Hs. Qed.

(* ---------------------------------------------------------------- padded arrays *)
Lemma pad_to_length n xs : List.length (pad_to n xs) = Nat.max n (List.length xs).
Proof. unfold pad_to. rewrite app_length, repeat_length. lia. Qed.

Lemma nth_error_pad n xs j :
  nth_error (pad_to n xs) j =
  if Nat.ltb j (List.length xs) then nth_error xs j
  else if Nat.ltb j n then Some VNull else None.
Proof.
  unfold pad_to. destruct (Nat.ltb j (List.length xs)) eqn:E1.
  - apply Nat.ltb_lt in E1. apply nth_error_app1. exact E1.
  - apply Nat.ltb_ge in E1. rewrite nth_error_app2 by exact E1.
    destruct (Nat.ltb j n) eqn:E2.
    + apply Nat.ltb_lt in E2. apply nth_error_repeat. lia.
    + apply Nat.ltb_ge in E2. apply nth_error_None. rewrite repeat_length. lia.
Qed.

Lemma nth_error_set_pad n (v : value) xs j :
  nth_error (set_nth n v (pad_to (S n) xs)) j =
  if Nat.eqb j n then Some v
  else if Nat.ltb j (List.length xs) then nth_error xs j
  else if Nat.ltb j n then Some VNull else None.
Proof.
  rewrite nth_error_set_nth, pad_to_length.
  destruct (Nat.eqb j n) eqn:E.
  - assert (H : Nat.ltb n (Nat.max (S n) (List.length xs)) = true) by (apply Nat.ltb_lt; lia).
    rewrite H. reflexivity.
  - rewrite nth_error_pad. apply Nat.eqb_neq in E.
    destruct (Nat.ltb j (List.length xs)); [reflexivity|].
    destruct (Nat.ltb j (S n)) eqn:E2, (Nat.ltb j n) eqn:E3; try reflexivity.
    + apply Nat.ltb_lt in E2. apply Nat.ltb_ge in E3. lia.
    + apply Nat.ltb_ge in E2. apply Nat.ltb_lt in E3. lia.
Qed.

(* ---------------------------------------------------------------- (D) well-formedness *)
Lemma local_wf parts d d' : local parts d d' -> wf_value d = true -> wf_value d' = true.
Proof.
  induction 1 as [parts d|d d' Hd'|p rest fs x x' Hx Hl IH|p fs|p rest xs i x x' Hi Hn Hl IH
                  |p xs i v Hi Hv|p rest xs d' Hi Hl IH]; intro Hwf.
  - exact Hwf.
  - exact Hd'.
  - apply wf_set_key; [exact Hwf|]. apply IH.
    destruct Hx as [Hx|[_ ->]]; [eapply wf_doc_assoc; eassumption | reflexivity].
  - apply wf_del_key. exact Hwf.
  - apply wf_set_nth; [exact Hwf|]. apply IH. eapply wf_arr_nth; eassumption.
  - apply wf_set_nth; [apply wf_pad; exact Hwf | exact Hv].
  - apply IH. exact Hwf.
Qed.

(* ---------------------------------------------------------------- (B) the frame *)
Lemma order_ok_set_key P fs k x :
  below k P <> [] -> order_ok P fs (set_key k x fs) = true.
Proof.
  intro Hb. unfold order_ok.
  assert (E : forall l : list (string * value),
            List.filter (fun k0 => match below k0 P with [] => has_key k0 fs | _ => false end)
                        (map fst (set_key k x l))
            = List.filter (fun k0 => match below k0 P with [] => has_key k0 fs | _ => false end)
                          (map fst l)).
  { induction l as [|[k2 v2] l IH]; simpl.
    - destruct (below k P); [congruence|reflexivity].
    - destruct (k =? k2) eqn:E2; simpl.
      + apply String.eqb_eq in E2. subst k2. reflexivity.
      + rewrite IH. reflexivity. }
  rewrite E. apply order_ok_refl.
Qed.

Lemma new_ok_set_key P fs k x : below k P <> [] -> new_ok P fs (set_key k x fs) = true.
Proof.
  intro Hb. apply new_ok_spec. intros k0 Hk0. apply keys_set_key_in in Hk0.
  destruct Hk0 as [->|Hk0]; [right; exact Hb | left; apply has_key_In; exact Hk0].
Qed.

Lemma filter_del_key (g : string -> bool) k (l : list (string * value)) :
  g k = false -> List.filter g (map fst (del_key k l)) = List.filter g (map fst l).
Proof.
  intro Hg. induction l as [|[k2 v2] l IH]; simpl; [reflexivity|].
  destruct (k =? k2) eqn:E2; simpl.
  - apply String.eqb_eq in E2. subst k2. rewrite Hg. reflexivity.
  - rewrite IH. reflexivity.
Qed.

Lemma order_ok_del_key P fs k : below k P <> [] -> order_ok P fs (del_key k fs) = true.
Proof.
  intro Hb. unfold order_ok. rewrite filter_del_key.
  - apply order_ok_refl.
  - destruct (below k P); [congruence|reflexivity].
Qed.

Lemma new_ok_del_key P fs k : new_ok P fs (del_key k fs) = true.
Proof.
  apply new_ok_spec. intros k0 Hk0. left. apply has_key_In. eapply keys_del_key_in. exact Hk0.
Qed.

Lemma assoc_del_key_other {A} k k' (l : list (string * A)) :
  (k =? k') = false -> assoc k (del_key k' l) = assoc k l.
Proof.
  intro E. induction l as [|[k2 v2] l IH]; simpl; [reflexivity|].
  destruct (k' =? k2) eqn:E2; simpl.
  - apply String.eqb_eq in E2. subst k2. rewrite E. reflexivity.
  - rewrite IH. reflexivity.
Qed.

Lemma below_ne_of_in k r P : In (k :: r) P -> below k P <> [].
Proof. intros H E. apply In_below in H. rewrite E in H. exact H. Qed.

Lemma P_ne_of_in {A} (x : A) P : In x P -> P <> [].
Proof. intros H E. subst P. exact H. Qed.

Lemma local_sframe : forall parts d d',
  local parts d d' ->
  forall f P, fits parts d = true -> canon parts -> wf_value d = true -> In parts P ->
  sframe f P d d'.
Proof.
  induction 1 as [parts d|d d' Hd'|p rest fs x x' Hx Hl IH|p fs|p rest xs i x x' Hi Hn Hl IH
                  |p xs i v Hi Hv|p rest xs d' Hi Hl IH]; intros f P Hfit Hcan Hwf HP.
  - apply sframe_refl. exact Hwf.
  - apply sframe_whole. apply names_whole_In. exact HP.
  - (* a field of a sub-document rewritten *)
    destruct f as [|f]; [exact I|].
    destruct (names_whole P) eqn:Hw; [apply sframe_whole; exact Hw|].
    apply sframe_S; [eapply P_ne_of_in; exact HP | exact Hw |].
    pose proof (below_ne_of_in _ _ _ HP) as Hbp.
    split; [|split; [apply order_ok_set_key; exact Hbp | apply new_ok_set_key; exact Hbp]].
    intros k v Hin. destruct (wf_doc_in _ _ _ Hwf Hin) as [Hv Ha].
    rewrite assoc_set_key. destruct (k =? p) eqn:Ekp.
    + apply String.eqb_eq in Ekp. subst k. split; [intro E; congruence|]. intros _.
      right. exists x'. split; [reflexivity|].
      assert (x = v) by (destruct Hx as [Hx|[Hx _]]; congruence). subst x.
      apply IH.
      * simpl in Hfit. rewrite Ha in Hfit. exact Hfit.
      * eapply canon_tail. exact Hcan.
      * exact Hv.
      * apply In_below. exact HP.
    + split; [intros _; exact Ha|]. intros _. right. exists v. split; [exact Ha|].
      apply sframe_refl. exact Hv.
  - (* a field removed *)
    destruct f as [|f]; [exact I|].
    destruct (names_whole P) eqn:Hw; [apply sframe_whole; exact Hw|].
    apply sframe_S; [eapply P_ne_of_in; exact HP | exact Hw |].
    pose proof (below_ne_of_in _ _ _ HP) as Hbp.
    split; [|split; [apply order_ok_del_key; exact Hbp | apply new_ok_del_key]].
    intros k v Hin. destruct (wf_doc_in _ _ _ Hwf Hin) as [Hv Ha].
    destruct (k =? p) eqn:Ekp.
    + apply String.eqb_eq in Ekp. subst k. split; [intro E; congruence|]. intros _.
      left. apply names_whole_In. apply In_below. exact HP.
    + rewrite assoc_del_key_other by exact Ekp.
      split; [intros _; exact Ha|]. intros _. right. exists v. split; [exact Ha|].
      apply sframe_refl. exact Hv.
  - (* an array element rewritten *)
    destruct f as [|f]; [exact I|].
    destruct (names_whole P) eqn:Hw; [apply sframe_whole; exact Hw|].
    apply sframe_S; [eapply P_ne_of_in; exact HP | exact Hw |].
    split; [rewrite set_nth_length; lia|].
    intros j y Hj. rewrite nth_error_set_nth.
    assert (Hlt : Nat.ltb (Z.to_nat i) (List.length xs) = true).
    { apply Nat.ltb_lt. apply nth_error_Some. congruence. }
    destruct (Nat.eqb j (Z.to_nat i)) eqn:Ej.
    + apply Nat.eqb_eq in Ej. subst j. rewrite Hlt. exists x'. split; [reflexivity|].
      assert (y = x) by congruence. subst y.
      assert (Hp : p = string_of_nat (Z.to_nat i)) by (apply Hcan; [left; reflexivity | exact Hi]).
      rewrite <- Hp. pose proof (below_ne_of_in _ _ _ HP) as Hbp.
      split; [intro E; congruence|]. intros _. right. apply IH.
      * simpl in Hfit. rewrite Hi, Hn in Hfit. exact Hfit.
      * eapply canon_tail. exact Hcan.
      * eapply wf_arr_nth; eassumption.
      * apply In_below. exact HP.
    + exists y. split; [exact Hj|]. split; [reflexivity|]. intros _. right.
      apply sframe_refl. eapply wf_arr_nth; eassumption.
  - (* an array element set, the array padded *)
    destruct f as [|f]; [exact I|].
    destruct (names_whole P) eqn:Hw; [apply sframe_whole; exact Hw|].
    apply sframe_S; [eapply P_ne_of_in; exact HP | exact Hw |].
    split; [rewrite set_nth_length, pad_to_length; lia|].
    intros j y Hj. rewrite nth_error_set_pad.
    destruct (Nat.eqb j (Z.to_nat i)) eqn:Ej.
    + apply Nat.eqb_eq in Ej. subst j. exists v. split; [reflexivity|].
      assert (Hp : p = string_of_nat (Z.to_nat i)) by (apply Hcan; [left; reflexivity | exact Hi]).
      rewrite <- Hp. pose proof (below_ne_of_in _ _ _ HP) as Hbp.
      split; [intro E; congruence|]. intros _. left. apply names_whole_In. apply In_below. exact HP.
    + assert (Hlt : Nat.ltb j (List.length xs) = true).
      { apply Nat.ltb_lt. apply nth_error_Some. congruence. }
      rewrite Hlt. exists y. split; [exact Hj|]. split; [reflexivity|]. intros _. right.
      apply sframe_refl. eapply wf_arr_nth; eassumption.
  - (* a component skipped on an array: excluded by [fits] *)
    simpl in Hfit. rewrite Hi in Hfit. discriminate.
Qed.

(* ---------------------------------------------------------------- (C) fits is kept *)
Lemma fits_scalar q d : is_doc d = false -> is_arr d = false -> fits q d = true.
Proof. destruct q, d; simpl; try reflexivity; discriminate. Qed.

Lemma fits_empty_doc q : fits q (VDoc []) = true.
Proof. destruct q; reflexivity. Qed.

Lemma local_fits : forall parts d d',
  local parts d d' ->
  forall q, apart q parts -> canon parts -> canon q -> fits parts d = true ->
            fits q d = true -> fits q d' = true.
Proof.
  induction 1 as [parts d|d d' Hd'|p rest fs x x' Hx Hl IH|p fs|p rest xs i x x' Hi Hn Hl IH
                  |p xs i v Hi Hv|p rest xs d' Hi Hl IH]; intros q [Hq1 Hq2] Hcan Hcq Hfp Hfit.
  - exact Hfit.
  - rewrite is_prefix_nil_l in Hq2. discriminate.
  - destruct q as [|k q']; [reflexivity|]. rewrite is_prefix_cons in Hq1, Hq2.
    simpl in Hfit, Hfp |- *. rewrite assoc_set_key. destruct (k =? p) eqn:Ekp.
    + apply String.eqb_eq in Ekp. subst k. rewrite String.eqb_refl in Hq2. simpl in Hq1, Hq2.
      apply IH; [split; assumption | eapply canon_tail; exact Hcan | eapply canon_tail; exact Hcq | |].
      * destruct Hx as [Hx|[Hx ->]]; [rewrite Hx in Hfp; exact Hfp | apply fits_empty_doc].
      * destruct Hx as [Hx|[Hx ->]]; [rewrite Hx in Hfit; exact Hfit | apply fits_empty_doc].
    + exact Hfit.
  - destruct q as [|k q']; [reflexivity|]. rewrite is_prefix_cons in Hq1, Hq2.
    rewrite is_prefix_nil_l, andb_true_r in Hq2.
    simpl in Hfit |- *. rewrite assoc_del_key_other by (rewrite String.eqb_sym; exact Hq2).
    exact Hfit.
  - destruct q as [|k q']; [reflexivity|]. rewrite is_prefix_cons in Hq1, Hq2.
    simpl in Hfit, Hfp |- *. destruct (as_index k) as [j|] eqn:Ek; [|discriminate].
    rewrite nth_error_set_nth.
    destruct (Nat.eqb (Z.to_nat j) (Z.to_nat i)) eqn:Ej; [|exact Hfit].
    apply Nat.eqb_eq in Ej.
    assert (Hlt : Nat.ltb (Z.to_nat i) (List.length xs) = true).
    { apply Nat.ltb_lt. apply nth_error_Some. congruence. }
    rewrite Hlt.
    assert (Hk : k = p).
    { rewrite (Hcq k j (or_introl eq_refl) Ek), (Hcan p i (or_introl eq_refl) Hi), Ej. reflexivity. }
    subst k. rewrite String.eqb_refl in Hq1, Hq2. simpl in Hq1, Hq2.
    rewrite Hi, Hn in Hfp.
    apply IH; [split; assumption | eapply canon_tail; exact Hcan | eapply canon_tail; exact Hcq
               | exact Hfp |].
    rewrite Ej, Hn in Hfit. exact Hfit.
  - destruct q as [|k q']; [reflexivity|]. rewrite is_prefix_cons in Hq1, Hq2.
    rewrite is_prefix_nil_l, andb_true_r in Hq2.
    simpl in Hfit |- *. destruct (as_index k) as [j|] eqn:Ek; [|discriminate].
    rewrite nth_error_set_pad.
    destruct (Nat.eqb (Z.to_nat j) (Z.to_nat i)) eqn:Ej.
    + apply Nat.eqb_eq in Ej. exfalso.
      assert (Hk : k = p).
      { rewrite (Hcq k j (or_introl eq_refl) Ek), (Hcan p i (or_introl eq_refl) Hi), Ej. reflexivity. }
      subst k. rewrite String.eqb_refl in Hq2. discriminate.
    + destruct (Nat.ltb (Z.to_nat j) (List.length xs)); [exact Hfit|].
      destruct (Nat.ltb (Z.to_nat j) (Z.to_nat i)); [|reflexivity].
      apply fits_scalar; reflexivity.
  - simpl in Hfp. rewrite Hi in Hfp. discriminate.
Qed.

(* ---------------------------------------------------------------- chains of local rewrites *)
Fixpoint chain (ps : list (list string)) (d d' : value) : Prop :=
  match ps with
  | [] => d = d'
  | p :: ps' => exists d1, local p d d1 /\ chain ps' d1 d'
  end.

Lemma chain_app ps qs d d1 d' : chain ps d d1 -> chain qs d1 d' -> chain (ps ++ qs) d d'.
Proof.
  revert d. induction ps as [|p ps IH]; intros d H1 H2; simpl in *.
  - subst d1. exact H2.
  - destruct H1 as [d2 [Hl Hc]]. exists d2. split; [exact Hl|]. eapply IH; eassumption.
Qed.

Lemma chain_refl ps d : chain ps d d.
Proof. induction ps as [|p ps IH]; simpl; [reflexivity|]. exists d. split; [apply L_refl|exact IH]. Qed.

Lemma chain_one p d d' : local p d d' -> chain [p] d d'.
Proof. intro H. exists d'. split; [exact H|reflexivity]. Qed.

Lemma chain_wf ps : forall d d', chain ps d d' -> wf_value d = true -> wf_value d' = true.
Proof.
  induction ps as [|p ps IH]; simpl; intros d d' H Hwf; [subst d'; exact Hwf|].
  destruct H as [d1 [Hl Hc]]. eapply IH; [exact Hc|]. eapply local_wf; eassumption.
Qed.

(* the frame of a whole chain: the paths of the chain are pairwise incomparable, all in
   canonical form, all fit the document, all belong to P *)
Lemma chain_sframe f P : forall ps d d',
  chain ps d d' ->
  collide ps = false ->
  (forall p, In p ps -> canon p) ->
  (forall p, In p ps -> fits p d = true) ->
  (forall p, In p ps -> In p P) ->
  wf_value d = true ->
  sframe f P d d'.
Proof.
  induction ps as [|p ps IH]; simpl; intros d d' H Hcol Hcan Hfit HP Hwf.
  - subst d'. apply sframe_refl. exact Hwf.
  - destruct H as [d1 [Hl Hc]].
    apply collide_false_cons in Hcol. destruct Hcol as [Hap Hcol].
    eapply sframe_trans.
    + eapply local_sframe; [exact Hl | apply Hfit; left; reflexivity | apply Hcan; left; reflexivity
                            | exact Hwf | apply HP; left; reflexivity].
    + apply IH; [exact Hc | exact Hcol | | | |].
      * intros q Hq. apply Hcan. right. exact Hq.
      * intros q Hq. eapply local_fits; [exact Hl | | | | |].
        -- destruct (Hap q Hq) as [A B]. split; assumption.
        -- apply Hcan. left. reflexivity.
        -- apply Hcan. right. exact Hq.
        -- apply Hfit. left. reflexivity.
        -- apply Hfit. right. exact Hq.
      * intros q Hq. apply HP. right. exact Hq.
      * eapply local_wf; eassumption.
Qed.
