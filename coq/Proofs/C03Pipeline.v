(* C03 part B -- the guarded equivalence lifted over pipelines and through $facet, for the
   stages $match, $sort, $skip, $limit, $count, $unwind (includeArrayIndex too),
   $addFields / $set, $replaceRoot, $lookup, $facet *)
From Coq Require Import ZArith List String Bool Ascii Lia Permutation.
From Verif Require Import Value PyEq BsonOrder Path Update Filter FilterSpec FilterGuard Coll Cursor
     Expr ExprSpec Pipeline PipelineSpec PipelineGuard.
From Verif Require Import C01Values C05Values.
From Verif Require Import C03Base C03Laws C03Unwind C03Stages C03StageUnwind C03StageExpr C03StageLookup.
Import ListNotations.
Open Scope Z_scope.
Open Scope string_scope.
Open Scope list_scope.

(* ------------------------------------------------------------ the stages covered *)
Definition basic_covered (op : string) (o : value) : bool :=
  (op =? "$match") || (op =? "$skip") || (op =? "$limit") || (op =? "$count")
  || ((op =? "$sort") && sort_covered o) || (op =? "$unwind")
  || (op =? "$addFields") || (op =? "$set") || (op =? "$replaceRoot")
  || ((op =? "$lookup") && lookup_covered o).

Definition covered_stages_of (cv : value -> string -> bool) :=
  fix stages_go (stages : list value) : bool :=
    match stages with
    | [] => true
    | VDoc [(sop, sopt)] :: stages' => cv sopt sop && stages_go stages'
    | _ :: _ => true
    end.

Definition covered_facets_of (cv : value -> string -> bool) :=
  fix facets (subs : list (string * value)) : bool :=
    match subs with
    | [] => true
    | (_, p) :: subs' =>
        (match p with VArr stages => covered_stages_of cv stages | _ => true end) && facets subs'
    end.

(* the operators of the pipeline (and of the sub-pipelines of $facet, recursively) are among
   $match, $sort (modelled key paths), $skip, $limit, $count, $unwind (any option document),
   $addFields, $set, $replaceRoot, $lookup (localField / foreignField form), $facet; a
   malformed stage is accepted here: the specification leaves it undecided *)
Fixpoint covered (o : value) (op : string) {struct o} : bool :=
  if op =? "$facet" then
    match o with
    | VDoc subs =>
        (fix facets (subs : list (string * value)) : bool :=
           match subs with
           | [] => true
           | (_, p) :: subs' =>
               (match p with
                | VArr stages =>
                    (fix stages_go (stages : list value) : bool :=
                       match stages with
                       | [] => true
                       | VDoc [(sop, sopt)] :: stages' => covered sopt sop && stages_go stages'
                       | _ :: _ => true
                       end) stages
                | _ => true
                end) && facets subs'
           end) subs
    | _ => true
    end
  else basic_covered op o.

Fixpoint covered_pipeline (stages : list value) : bool :=
  match stages with
  | [] => true
  | VDoc [(op, o)] :: stages' => covered o op && covered_pipeline stages'
  | _ :: _ => true
  end.

Definition c03_covered (pipeline : value) : bool :=
  match pipeline with VArr stages => covered_pipeline stages | _ => true end.

Lemma covered_facet_fix subs : covered (VDoc subs) "$facet" = covered_facets_of covered subs.
Proof. reflexivity. Qed.

Lemma covered_stages_pipeline stages : covered_stages_of covered stages = covered_pipeline stages.
Proof. reflexivity. Qed.

Lemma covered_basic o op : (op =? "$facet") = false -> covered o op = basic_covered op o.
Proof. intros H. destruct o; cbn [covered]; rewrite H; reflexivity. Qed.

(* ------------------------------------------------------------ the guard through $facet *)
Definition reasons_stages_of (pr : value -> string -> list value -> Z) (db : dbmap) :=
  fix stages_go (stages : list value) (cur : list value) : Z :=
    match stages with
    | [] => 0
    | VDoc [(sop, sopt)] :: stages' =>
        Z.lor (pr sopt sop cur)
              (match run_stage db sop sopt cur with
               | Ok cur' => stages_go stages' cur'
               | Err _ => 0
               end)
    | _ :: _ => 0
    end.

Definition reasons_facets_of (pr : value -> string -> list value -> Z) (db : dbmap) (l : list value) :=
  fix facets (subs : list (string * value)) : Z :=
    match subs with
    | [] => 0
    | (_, p) :: subs' =>
        Z.lor (match p with VArr stages => reasons_stages_of pr db stages l | _ => 0 end) (facets subs')
    end.

Lemma pipe_reasons_facet_fix db subs l :
  pipe_reasons db (VDoc subs) "$facet" l = reasons_facets_of (pipe_reasons db) db l subs.
Proof. reflexivity. Qed.

Lemma reasons_stages_pipeline db stages cur :
  reasons_stages_of (pipe_reasons db) db stages cur = pipeline_reasons db stages cur.
Proof.
  revert cur. induction stages as [|st stages IH]; intros cur; [reflexivity|].
  destruct st; try reflexivity. destruct fs as [|[op o] [|kv2 tl]]; try reflexivity.
  all: cbn [reasons_stages_of pipeline_reasons]; f_equal;
    destruct (run_stage db op o cur); [apply IH|reflexivity].
Qed.

Lemma pipe_reasons_basic db o op l :
  (op =? "$facet") = false -> pipe_reasons db o op l = stage_reasons db op o l.
Proof. intros H. destruct o; cbn [pipe_reasons]; rewrite H; reflexivity. Qed.

(* ------------------------------------------------------------ the specification of $facet *)
Definition spec_stages_of (ss : string -> value -> stream -> pres) :=
  fix stages_go (stages : list value) (cur : pres) : pres :=
    match stages with
    | [] => cur
    | VDoc [(sop, sopt)] :: stages' => stages_go stages' (pbind cur (ss sop sopt))
    | _ :: _ => PUndef
    end.

Definition spec_facets_of (ss : string -> value -> stream -> pres) (s : stream) :=
  fix facets (subs : list (string * value)) : list (string * pres) :=
    match subs with
    | [] => []
    | (title, p) :: subs' =>
        (title, match p with VArr stages => spec_stages_of ss stages (PV s) | _ => PErr end)
        :: facets subs'
    end.

Definition is_undef_out (tp : string * pres) : bool := match snd tp with PUndef => true | _ => false end.
Definition is_err_out (tp : string * pres) : bool := match snd tp with PErr => true | _ => false end.
Definition is_bad_out (tp : string * pres) : bool :=
  match snd tp with
  | PV st => negb (s_ord st) && (1 <?? Z.of_nat (List.length (s_docs st)))
             || negb (match s_sets st with [] => true | _ => false end)
  | _ => false
  end.
Definition conv_out (tp : string * pres) : string * value :=
  (fst tp, match snd tp with PV st => VArr (s_docs st) | _ => VNull end).

Lemma spec_stage_facet_fix db subs s :
  spec_stage db "$facet" (VDoc subs) s =
  if negb (nodup_str (map fst subs)) then PUndef else
  let outs := spec_facets_of (spec_stage db) s subs in
  if existsb is_undef_out outs then PUndef
  else if existsb is_err_out outs then PErr
  else if existsb is_bad_out outs then PUndef
  else PV (mkStream [VDoc (map conv_out outs)] true []).
Proof. reflexivity. Qed.

Lemma spec_stages_pipeline db stages cur :
  spec_stages_of (spec_stage db) stages cur = spec_pipeline db stages cur.
Proof.
  revert cur. induction stages as [|st stages IH]; intros cur; [reflexivity|].
  destruct st; try reflexivity. destruct fs as [|[op o] [|kv2 tl]]; try reflexivity.
  all: cbn [spec_stages_of spec_pipeline]; apply IH.
Qed.

(* ------------------------------------------------------------ one stage, then a pipeline *)
Definition stage_ok (db : dbmap) (o : value) : Prop :=
  forall op l, covered o op = true -> pipe_reasons db o op l = 0 ->
    rel (spec_stage db op o (mkStream l true [])) (run_stage db op o l).

Lemma stage_ok_basic db o op l :
  (op =? "$facet") = false ->
  covered o op = true -> pipe_reasons db o op l = 0 ->
  rel (spec_stage db op o (mkStream l true [])) (run_stage db op o l).
Proof.
  intros Hf Hc Hg. rewrite (covered_basic _ _ Hf) in Hc. rewrite (pipe_reasons_basic _ _ _ _ Hf) in Hg.
  unfold basic_covered in Hc.
  repeat (apply orb_true_iff in Hc; destruct Hc as [Hc|Hc]).
  - apply String.eqb_eq in Hc. subst. apply stage_match. exact Hg.
  - apply String.eqb_eq in Hc. subst. apply stage_skip.
  - apply String.eqb_eq in Hc. subst. apply stage_limit.
  - apply String.eqb_eq in Hc. subst. apply stage_count.
  - apply andb_true_iff in Hc. destruct Hc as [Hop Hc]. apply String.eqb_eq in Hop. subst.
    apply stage_sort; assumption.
  - apply String.eqb_eq in Hc. subst. apply stage_unwind. exact Hg.
  - apply String.eqb_eq in Hc. subst. apply stage_add_fields. exact Hg.
  - apply String.eqb_eq in Hc. subst. apply stage_set. exact Hg.
  - apply String.eqb_eq in Hc. subst. apply stage_replace_root. exact Hg.
  - apply andb_true_iff in Hc. destruct Hc as [Hop Hc]. apply String.eqb_eq in Hop. subst.
    apply stage_lookup; assumption.
Qed.

Definition stages_ok (db : dbmap) (stages : list value) : Prop :=
  Forall (fun st => forall sop sopt, st = VDoc [(sop, sopt)] -> stage_ok db sopt) stages.

Lemma pipeline_rel db stages :
  stages_ok db stages ->
  forall cs cm, rel cs cm -> covered_pipeline stages = true ->
    (forall l, cm = Ok l -> pipeline_reasons db stages l = 0) ->
    rel (spec_pipeline db stages cs) (match cm with Ok l => run_pipeline db stages l | Err e => Err e end).
Proof.
  induction 1 as [|st stages Hst _ IH]; intros cs cm Hrel Hcov Hg.
  - simpl. destruct cm; exact Hrel.
  - assert (Hshape : (exists op o, st = VDoc [(op, o)]) \/
                     (forall c, spec_pipeline db (st :: stages) c = PUndef)).
    { destruct st; try (right; intros c; reflexivity).
      destruct fs as [|[op o] [|kv2 tl]]; try (right; intros c; reflexivity).
      left. exists op, o. reflexivity. }
    destruct Hshape as [(op & o & Hs)|Hs]; [|rewrite Hs; exact I].
    subst st. specialize (Hst op o eq_refl).
    cbn [spec_pipeline covered_pipeline] in *. apply andb_true_iff in Hcov. destruct Hcov as [Hco Hcov].
    set (cm' := match cm with Ok l => run_stage db op o l | Err e => Err e end).
    assert (Hm : match cm with Ok l => run_pipeline db (VDoc [(op, o)] :: stages) l | Err e => Err e end
                 = match cm' with Ok l => run_pipeline db stages l | Err e => Err e end).
    { unfold cm'. destruct cm as [l|e]; [|reflexivity]. apply run_pipeline_cons. }
    rewrite Hm. apply IH; [|exact Hcov|].
    + unfold cm'. destruct cs as [s| |]; [|destruct cm as [l|e]; [contradiction|exact Hrel]|exact I].
      destruct cm as [l|e].
      * destruct s as [docs ord sets]. simpl in Hrel. destruct Hrel as (Hd & Ho & Hss). subst.
        cbn [pbind]. apply Hst; [exact Hco|].
        specialize (Hg l eq_refl). cbn [pipeline_reasons] in Hg. apply lor_zero in Hg. exact (proj1 Hg).
      * cbn [pbind]. destruct e; try contradiction. apply rel_unmodelled.
    + intros l' Hl'. unfold cm' in Hl'. destruct cm as [l|e]; [|discriminate].
      specialize (Hg l eq_refl). cbn [pipeline_reasons] in Hg. apply lor_zero in Hg.
      destruct Hg as [_ Hg]. rewrite Hl' in Hg. exact Hg.
Qed.

(* ------------------------------------------------------------ $facet *)
Definition sub_spec (db : dbmap) (l : list value) (p : value) : pres :=
  match p with VArr stages => spec_stages_of (spec_stage db) stages (PV (mkStream l true [])) | _ => PErr end.
Definition sub_model (db : dbmap) (l : list value) (p : value) : res (list value) :=
  match p with VArr stages => run_pipeline db stages l | _ => Err EUnmodelled end.

Lemma spec_facets_map db l subs :
  spec_facets_of (spec_stage db) (mkStream l true []) subs
  = map (fun tp => (fst tp, sub_spec db l (snd tp))) subs.
Proof. induction subs as [|[t p] subs IH]; [reflexivity|]. cbn [spec_facets_of map fst snd]. rewrite IH. reflexivity. Qed.

Lemma facet_outs_cons db t p subs l :
  facet_outs db ((t, p) :: subs) l =
  let! out := sub_model db l p in
  let! rest := facet_outs db subs l in
  Ok ((t, VArr out) :: rest).
Proof. destruct p; reflexivity. Qed.

Lemma facet_rel db l subs :
  Forall (fun tp => rel (sub_spec db l (snd tp)) (sub_model db l (snd tp))) subs ->
  let souts := map (fun tp => (fst tp, sub_spec db l (snd tp))) subs in
  existsb is_undef_out souts = true \/
  match facet_outs db subs l with
  | Ok outs => existsb is_err_out souts = false /\ existsb is_bad_out souts = false /\
               map conv_out souts = outs
  | Err EUnmodelled => True
  | Err _ => existsb is_err_out souts = true
  end.
Proof.
  induction 1 as [|[t p] subs Hh _ IH]; cbv zeta in *.
  - right. simpl. repeat split.
  - cbn [fst snd] in Hh. cbn [map existsb fst snd]. rewrite facet_outs_cons.
    unfold is_undef_out at 1, is_err_out at 1 3, is_bad_out at 1, conv_out at 1. cbn [fst snd].
    destruct (sub_spec db l p) as [s| |] eqn:Hsp; [| |left; reflexivity].
    + destruct (sub_model db l p) as [out|e] eqn:Hmo.
      * simpl in Hh. destruct Hh as (Hd & Ho & Hs). cbn [bind orb].
        destruct IH as [IH|IH]; [left; exact IH|right].
        destruct (facet_outs db subs l) as [rest|e]; cbn [bind].
        -- destruct IH as (He & Hb & Hc). rewrite Ho, Hs. cbn [negb andb orb]. rewrite He, Hb, Hd, Hc.
           repeat split.
        -- exact IH.
      * destruct e; try contradiction. right. exact I.
    + destruct (sub_model db l p) as [out|e] eqn:Hmo; [contradiction|].
      right. cbn [bind orb]. destruct e; first [reflexivity|exact I].
Qed.

Lemma mem_str_In s l : mem_str s l = true <-> In s l.
Proof.
  induction l as [|x l IH]; simpl; [split; [discriminate|contradiction]|].
  rewrite orb_true_iff, IH. split; intros [H|H]; try (right; exact H); left.
  - apply String.eqb_eq in H. symmetry. exact H.
  - subst. apply String.eqb_refl.
Qed.

Lemma nodup_str_NoDup l : nodup_str l = true -> NoDup l.
Proof.
  induction l as [|x l IH]; simpl; intros H; [constructor|].
  apply andb_true_iff in H. destruct H as [Hx Hl]. constructor; [|apply IH; exact Hl].
  intros Hin. apply mem_str_In in Hin. rewrite Hin in Hx. discriminate.
Qed.

Lemma assoc_app_none {A} k (a b : list (string * A)) :
  assoc k a = None -> assoc k b = None -> assoc k (a ++ b) = None.
Proof.
  induction a as [|[k' v] a IH]; simpl; intros Ha Hb; [exact Hb|].
  destruct (String.eqb k k'); [discriminate|apply IH; assumption].
Qed.

Lemma set_key_fresh {A} k (v : A) l : assoc k l = None -> set_key k v l = l ++ [(k, v)].
Proof.
  induction l as [|[k' v'] l IH]; simpl; intros H; [reflexivity|].
  destruct (String.eqb k k'); [discriminate|]. f_equal. apply IH. exact H.
Qed.

Lemma fold_set_key_fresh (outs : list (string * value)) : forall acc,
  NoDup (map fst outs) -> (forall k, In k (map fst outs) -> assoc k acc = None) ->
  fold_left (fun acc kv => set_key (fst kv) (snd kv) acc) outs acc = acc ++ outs.
Proof.
  induction outs as [|[k v] outs IH]; intros acc Hnd Hacc; [simpl; rewrite app_nil_r; reflexivity|].
  cbn [fold_left fst snd]. inversion Hnd as [|? ? Hni Hnd']; subst.
  rewrite set_key_fresh by (apply Hacc; left; reflexivity).
  rewrite IH; [rewrite <- app_assoc; reflexivity|exact Hnd'|].
  intros k' Hk'. apply assoc_app_none; [apply Hacc; right; exact Hk'|].
  simpl. destruct (String.eqb k' k) eqn:E; [|reflexivity].
  apply String.eqb_eq in E. subst. contradiction.
Qed.

Lemma stage_facet db subs l :
  Forall (fun tp => forall stages, snd tp = VArr stages -> stages_ok db stages) subs ->
  covered (VDoc subs) "$facet" = true ->
  pipe_reasons db (VDoc subs) "$facet" l = 0 ->
  rel (spec_stage db "$facet" (VDoc subs) (mkStream l true [])) (run_stage db "$facet" (VDoc subs) l).
Proof.
  intros Hok Hcov Hg.
  rewrite spec_stage_facet_fix, facet_same_input. rewrite covered_facet_fix in Hcov.
  rewrite pipe_reasons_facet_fix in Hg.
  destruct (nodup_str (map fst subs)) eqn:Hnd; cbn [negb]; [|exact I].
  cbv zeta. rewrite spec_facets_map.
  assert (Hsubs : Forall (fun tp => rel (sub_spec db l (snd tp)) (sub_model db l (snd tp))) subs).
  { clear Hnd. induction Hok as [|[t p] subs Hh _ IH]; [constructor|].
    cbn [covered_facets_of reasons_facets_of] in Hcov, Hg.
    apply andb_true_iff in Hcov. destruct Hcov as [Hc1 Hc2].
    apply lor_zero in Hg. destruct Hg as [Hg1 Hg2].
    constructor; [|apply IH; assumption].
    cbn [snd] in *. destruct p; try apply rel_unmodelled.
    unfold sub_spec, sub_model. rewrite spec_stages_pipeline.
    rewrite covered_stages_pipeline in Hc1. rewrite reasons_stages_pipeline in Hg1.
    apply (pipeline_rel db xs (Hh xs eq_refl) (PV (mkStream l true [])) (Ok l)).
    - apply rel_ok.
    - exact Hc1.
    - intros l' Hl'. inversion Hl'; subst. exact Hg1. }
  destruct (facet_rel db l subs Hsubs) as [Hu|Hr]; cbv zeta in *.
  - rewrite Hu. exact I.
  - destruct (existsb is_undef_out _); [exact I|].
    destruct (facet_outs db subs l) as [outs|e]; cbn [bind].
    + destruct Hr as (He & Hb & Hc). rewrite He, Hb. simpl. split; [|split; reflexivity].
      rewrite Hc. rewrite fold_set_key_fresh; [reflexivity| |intros k _; reflexivity].
      rewrite <- Hc. rewrite map_map. unfold conv_out. cbn [fst]. rewrite map_map. cbn [fst].
      apply nodup_str_NoDup. exact Hnd.
    + destruct e; try (rewrite Hr; exact I). apply rel_unmodelled.
Qed.

Lemma run_stage_facet_nondoc db o l :
  (forall fs, o <> VDoc fs) -> run_stage db "$facet" o l = Err EUnmodelled.
Proof. intros H. destruct o; try reflexivity. exfalso. apply (H fs). reflexivity. Qed.

(* ------------------------------------------------------------ every stage *)
Definition fields_ok (db : dbmap) (fs : list (string * value)) : Prop :=
  Forall (fun kv => stage_ok db (snd kv)) fs.

Definition all_ok (db : dbmap) (v : value) : Prop :=
  stage_ok db v /\
  (forall fs, v = VDoc fs -> fields_ok db fs) /\
  (forall xs, v = VArr xs -> Forall (fun st => forall fs, st = VDoc fs -> fields_ok db fs) xs).

Lemma stage_ok_nonfacet_doc db o :
  (forall fs, o <> VDoc fs) -> stage_ok db o.
Proof.
  intros Hnd op l Hc Hg. destruct (op =? "$facet") eqn:Hf.
  - apply String.eqb_eq in Hf. subst. rewrite run_stage_facet_nondoc by exact Hnd. apply rel_unmodelled.
  - apply stage_ok_basic; assumption.
Qed.

Lemma all_stages_ok db : forall v, all_ok db v.
Proof.
  induction v as [|b|z|e|s|us tz|n|fs IH|xs IH] using value_ind2;
    try (split; [apply stage_ok_nonfacet_doc; intros fs; discriminate|split; intros ? Hq; discriminate Hq]).
  - split; [|split; [|intros ? Hq; discriminate Hq]].
    + intros op l Hc Hg. destruct (op =? "$facet") eqn:Hf; [|apply stage_ok_basic; assumption].
      apply String.eqb_eq in Hf. subst. apply stage_facet; [|exact Hc|exact Hg].
      eapply Forall_impl; [|exact IH]. intros [t p] Hp stages Hs. cbn [snd] in *.
      destruct Hp as (_ & _ & H3). specialize (H3 stages Hs).
      unfold stages_ok. eapply Forall_impl; [|exact H3].
      intros st Hst sop sopt Heq. specialize (Hst _ Heq). inversion Hst; subst. assumption.
    + intros fs' Hq. inversion Hq; subst. unfold fields_ok. eapply Forall_impl; [|exact IH].
      intros kv Hkv. exact (proj1 Hkv).
  - split; [apply stage_ok_nonfacet_doc; intros fs; discriminate|]. split; [intros ? Hq; discriminate Hq|].
    intros xs' Hq. inversion Hq; subst. eapply Forall_impl; [|exact IH].
    intros st Hst fs Heq. exact (proj1 (proj2 Hst) fs Heq).
Qed.

Lemma stage_ok_all : forall db o op l,
  covered o op = true -> pipe_reasons db o op l = 0 ->
  rel (spec_stage db op o (mkStream l true [])) (run_stage db op o l).
Proof. intros db o. exact (proj1 (all_stages_ok db o)). Qed.

Lemma stages_all_ok db stages : stages_ok db stages.
Proof.
  unfold stages_ok. apply Forall_forall. intros st _ sop sopt _. exact (proj1 (all_stages_ok db sopt)).
Qed.

(* ------------------------------------------------------------ the theorem *)
Lemma pipeline_partial_rel db docs p :
  c03_covered p = true -> c03_reasons db docs p = 0 ->
  rel (spec_aggregate db docs p) (aggregate db docs p).
Proof.
  intros Hc Hg. destruct p; try exact I.
  unfold spec_aggregate, aggregate.
  apply (pipeline_rel db xs (stages_all_ok db xs) (PV (mkStream docs true [])) (Ok docs)).
  - apply rel_ok.
  - exact Hc.
  - intros l Hl. inversion Hl; subst. exact Hg.
Qed.

(* reflexivity of the comparison on well-formed documents *)
Lemma uequiv_refl : forall v, wf_value v = true -> uequiv v v = true.
Proof.
  induction v as [|b|z|e|s|us tz|n|fs IH|xs IH] using value_ind2; intros Hwf;
    try (apply bson_eq_refl).
  - cbn [uequiv]. rewrite Nat.eqb_refl. cbn [andb].
    cbn [wf_value] in Hwf. apply andb_true_iff in Hwf. destruct Hwf as [Hnd Hgo].
    assert (G : forall pre, (forall k v, In (k, v) pre -> assoc k fs = Some v) ->
              (forall k v, In (k, v) pre -> wf_value v = true -> uequiv v v = true) ->
              (fix go (fs0 : list (string * value)) : bool :=
                 match fs0 with [] => true | (_, v) :: fs' => wf_value v && go fs' end) pre = true ->
              (fix go (fs0 : list (string * value)) : bool :=
                 match fs0 with
                 | [] => true
                 | (k, v) :: fs' => match assoc k fs with Some w => uequiv v w && go fs' | None => false end
                 end) pre = true).
    { induction pre as [|[k v] pre IHp]; intros Hassoc Hu Hw; [reflexivity|].
      apply andb_true_iff in Hw. destruct Hw as [Hwv Hw].
      rewrite (Hassoc k v (or_introl eq_refl)). rewrite (Hu k v (or_introl eq_refl) Hwv). cbn [andb].
      apply IHp; [intros k' v' Hin; apply Hassoc; right; exact Hin
                 |intros k' v' Hin; apply (Hu k' v'); right; exact Hin|exact Hw]. }
    apply G; [| |exact Hgo].
    + intros k v Hin. apply nodup_str_NoDup in Hnd.
      clear -Hnd Hin. induction fs as [|[k' v'] fs IHf]; [destruct Hin|].
      simpl in *. inversion Hnd as [|? ? Hni Hnd']; subst. destruct Hin as [Heq|Hin].
      * inversion Heq; subst. rewrite String.eqb_refl. reflexivity.
      * destruct (String.eqb k k') eqn:E; [|apply IHf; assumption].
        apply String.eqb_eq in E. subst. exfalso. apply Hni. apply in_map_iff. exists (k', v). split; [reflexivity|exact Hin].
    + intros k v Hin. rewrite Forall_forall in IH. exact (IH (k, v) Hin).
  - cbn [uequiv]. cbn [wf_value] in Hwf. induction IH as [|x xs Hx _ IHx]; [reflexivity|].
    apply andb_true_iff in Hwf. destruct Hwf as [Hwx Hw]. rewrite (Hx Hwx). cbn [andb]. apply IHx. exact Hw.
Qed.

Lemma doc_go_forallb (gs pre : list (string * value)) :
  (fix go (fs0 : list (string * value)) : bool :=
     match fs0 with
     | [] => true
     | (k, v) :: fs' => match assoc k gs with Some w => uequiv v w && go fs' | None => false end
     end) pre = true ->
  forallb (fun kv => match assoc (fst kv) gs with
                     | Some w =>
                         if mem_str (fst kv) [] then
                           match snd kv, w with
                           | VArr xs, VArr ys => set_equ xs ys
                           | _, _ => false
                           end
                         else uequiv (snd kv) w
                     | None => false end) pre = true.
Proof.
  induction pre as [|[k v] pre IHp]; intros Hgo; [reflexivity|].
  cbn [forallb fst snd mem_str]. destruct (assoc k gs) as [w|]; [|discriminate].
  apply andb_true_iff in Hgo. destruct Hgo as [Hv Hgo]. rewrite Hv. cbn [andb]. apply IHp. exact Hgo.
Qed.

Lemma doc_equiv_refl v : wf_value v = true -> doc_equiv [] v v = true.
Proof.
  intros Hwf. destruct v; try (apply uequiv_refl; exact Hwf).
  pose proof (uequiv_refl (VDoc fs) Hwf) as Hu. cbn [uequiv] in Hu. cbn [doc_equiv].
  apply andb_true_iff in Hu. destruct Hu as [Hlen Hgo]. rewrite Hlen. cbn [andb].
  apply doc_go_forallb. exact Hgo.
Qed.

Lemma stream_agrees_refl l :
  Forall (fun d => wf_value d = true) l -> stream_agrees (mkStream l true []) l = true.
Proof.
  unfold stream_agrees. cbn [s_ord s_sets s_docs]. induction 1 as [|d l Hd _ IH]; [reflexivity|].
  cbn [list_eqb]. rewrite (doc_equiv_refl d Hd). exact IH.
Qed.

Lemma pipeline_partial db docs p :
  c03_covered p = true -> c03_reasons db docs p = 0 ->
  aggregate db docs p <> Err EUnmodelled ->
  (forall l, aggregate db docs p = Ok l -> Forall (fun d => wf_value d = true) l) ->
  agrees (spec_aggregate db docs p) (aggregate db docs p) <> Some false.
Proof.
  intros Hc Hg Hnu Hwf. pose proof (pipeline_partial_rel db docs p Hc Hg) as Hrel.
  destruct (spec_aggregate db docs p) as [s| |]; destruct (aggregate db docs p) as [l|e]; simpl in *;
    try discriminate; try contradiction.
  - destruct s as [d o ss]. simpl in Hrel. destruct Hrel as (Hd & Ho & Hs). subst.
    rewrite (stream_agrees_refl l (Hwf l eq_refl)). discriminate.
  - destruct e; try contradiction; try discriminate.
  - destruct e; discriminate.
Qed.
